(* CompareChunks (model: Fee.compare_chunks) equals the pointwise comparison of the two feerate
   diagrams (spec: Fee.diagram_order), for all chunk lists with positive sizes and sums in range. *)
From Coq Require Import QArith Lqa.
From BV Require Import lib.Ints model.Fee proofs.FeeLemmas.
Local Open Scope Z_scope.
Notation iz := inject_Z.

(* ---------------------------------------------------------------------------------- *)
(* range conditions *)
Definition pt_ok (af asz : Z) : Prop :=
  -4611686018427387904 <= af < 4611686018427387904 /\ 0 <= asz <= INT32_MAX.

(* every chunk has positive size and every cumulative (fee, size) point from (af, asz) on is in range *)
Fixpoint within (c : list FF) (af asz : Z) : Prop :=
  match c with
  | [] => True
  | (f, s) :: r => 0 < s /\ pt_ok (af + f) (asz + s) /\ within r (af + f) (asz + s)
  end.
Definition chunks_in_range (c : list FF) : Prop := within c 0 0.

Lemma pt_ok_00 : pt_ok 0 0.
Proof. unfold pt_ok, INT32_MAX. lia. Qed.

Lemma ff_add_l f s af asz : pt_ok (af + f) (asz + s) -> ff_add (f, s) (af, asz) = (af + f, asz + s).
Proof.
  unfold pt_ok, INT32_MAX. intros [H1 H2]. unfold ff_add. cbn [fst snd].
  rewrite (Z.add_comm f af), (Z.add_comm s asz).
  rewrite wrap64_id by (unfold INT64_MIN, INT64_MAX; lia).
  rewrite wrap32_id by (unfold INT32_MIN, INT32_MAX; lia). reflexivity.
Qed.
Lemma ff_add_r f s af asz : pt_ok (af + f) (asz + s) -> ff_add (af, asz) (f, s) = (af + f, asz + s).
Proof.
  unfold pt_ok, INT32_MAX. intros [H1 H2]. unfold ff_add. cbn [fst snd].
  rewrite wrap64_id by (unfold INT64_MIN, INT64_MAX; lia).
  rewrite wrap32_id by (unfold INT32_MIN, INT32_MAX; lia). reflexivity.
Qed.
Lemma ff_sub_id pf ps af asz : pt_ok pf ps -> pt_ok af asz ->
  ff_sub (pf, ps) (af, asz) = (pf - af, ps - asz) /\ ff_ok (pf - af, ps - asz).
Proof.
  unfold pt_ok, INT32_MAX. intros [H1 H2] [H3 H4]. unfold ff_sub, ff_ok, is_i64, is_i32. cbn [fst snd].
  rewrite wrap64_id by (unfold INT64_MIN, INT64_MAX; lia).
  rewrite wrap32_id by (unfold INT32_MIN, INT32_MAX; lia).
  unfold INT64_MIN, INT64_MAX, INT32_MIN, INT32_MAX. split; [reflexivity | lia].
Qed.

Lemma ff_ok_01 : ff_ok (0, 1).
Proof. unfold ff_ok, is_i64, is_i32, INT64_MIN, INT64_MAX, INT32_MIN, INT32_MAX. cbn [fst snd]. lia. Qed.

(* ---------------------------------------------------------------------------------- *)
(* the diagram function *)
Local Open Scope Q_scope.

Lemma iz_pos s : (0 < s)%Z -> 0 < iz s.
Proof. intros H. assert (Hq : iz 0 < iz s) by (rewrite <- Zlt_Qlt; exact H). exact Hq. Qed.

Lemma diag_cons_le f s r af asz x : x <= iz (asz + s) ->
  diag ((f, s) :: r) af asz x = iz af + iz f * (x - iz asz) / iz s.
Proof. intros H. cbn [diag]. apply Qle_bool_iff in H. rewrite H. reflexivity. Qed.

Lemma diag_cons_gt f s r af asz x : iz (asz + s) < x ->
  diag ((f, s) :: r) af asz x = diag r (af + f) (asz + s) x.
Proof.
  intros H. cbn [diag]. destruct (Qle_bool x (iz (asz + s))) eqn:E; [|reflexivity].
  apply Qle_bool_iff in E. lra.
Qed.

Lemma diag_compat c : forall af asz x y, x == y -> diag c af asz x == diag c af asz y.
Proof.
  induction c as [|[f s] r IH]; intros af asz x y Hxy; [reflexivity|].
  destruct (Qlt_le_dec (iz (asz + s)) x) as [Hgt|Hle].
  - rewrite (diag_cons_gt f s r af asz x Hgt). rewrite (diag_cons_gt f s r af asz y) by lra. apply IH. exact Hxy.
  - rewrite (diag_cons_le f s r af asz x Hle). rewrite (diag_cons_le f s r af asz y) by lra. rewrite Hxy. reflexivity.
Qed.

Lemma diag_at_start c af asz x : within c af asz -> x == iz asz -> diag c af asz x == iz af.
Proof.
  destruct c as [|[f s] r]; intros W Hx; [reflexivity|].
  destruct W as [Hs _]. pose proof (iz_pos s Hs) as Hq.
  rewrite diag_cons_le by (rewrite inject_Z_plus; lra).
  rewrite Hx. field. lra.
Qed.

Lemma diag_right f s r af asz x : within ((f, s) :: r) af asz -> iz (asz + s) <= x ->
  diag ((f, s) :: r) af asz x == diag r (af + f) (asz + s) x.
Proof.
  intros [Hs [_ W]] Hx. pose proof (iz_pos s Hs) as Hq.
  destruct (Qlt_le_dec (iz (asz + s)) x) as [Hgt|Hle].
  - rewrite diag_cons_gt by exact Hgt. reflexivity.
  - assert (E : x == iz (asz + s)) by lra.
    rewrite (diag_at_start r (af + f) (asz + s) x W E).
    rewrite diag_cons_le by exact Hle. rewrite E. rewrite !inject_Z_plus. field. lra.
Qed.

(* D is the straight line through (a, p) with slope k, up to abscissa hi *)
Definition line_on (D : Q -> Q) (p k a hi : Q) : Prop := forall x, x <= hi -> D x == p + k * (x - a).

Lemma diag_line_cons f s r af asz : (0 < s)%Z ->
  line_on (diag ((f, s) :: r) af asz) (iz af) (iz f / iz s) (iz asz) (iz (asz + s)).
Proof.
  intros Hs x Hx. pose proof (iz_pos s Hs) as Hq.
  rewrite diag_cons_le by exact Hx. field. lra.
Qed.

Lemma diag_line_nil af asz hi : line_on (diag [] af asz) (iz af) (iz 0 / iz 1) (iz asz) hi.
Proof. intros x _. cbn [diag]. change (iz 0) with 0. change (iz 1) with 1. field. Qed.

Lemma affine_between pu ku au po ko ao m m' x :
  m <= x -> x <= m' -> po + ko * (x - ao) < pu + ku * (x - au) ->
  po + ko * (m - ao) < pu + ku * (m - au) \/ po + ko * (m' - ao) < pu + ku * (m' - au).
Proof.
  intros H1 H2 H.
  destruct (Qlt_le_dec ku ko) as [Hk|Hk].
  - left. assert (P : 0 <= (ko - ku) * (x - m)) by (apply Qmult_le_0_compat; lra). lra.
  - right. assert (P : 0 <= (ku - ko) * (m' - x)) by (apply Qmult_le_0_compat; lra). lra.
Qed.

Lemma line_affine Du Do pu ku au po ko ao m m' :
  line_on Du pu ku au m' -> line_on Do po ko ao m' -> m <= m' ->
  forall x, m <= x -> x <= m' -> Do x < Du x -> Do m < Du m \/ Do m' < Du m'.
Proof.
  intros Lu Lo Hm x H1 H2 H.
  rewrite (Lu x H2), (Lo x H2) in H.
  rewrite (Lu m Hm), (Lo m Hm), (Lu m' ltac:(lra)), (Lo m' ltac:(lra)).
  exact (affine_between pu ku au po ko ao m m' x H1 H2 H).
Qed.

(* slope comparison (cross-multiplied, as ByRatio does it) = position of P relative to the line *)
Lemma cmp_line pf afo fo so ps aso : (0 < so)%Z ->
  let v := iz afo + (iz fo / iz so) * (iz ps - iz aso) in
  (((pf - afo) * so ?= fo * (ps - aso))%Z = Gt <-> v < iz pf) /\
  (((pf - afo) * so ?= fo * (ps - aso))%Z = Lt <-> iz pf < v).
Proof.
  intros Hso v. pose proof (iz_pos so Hso) as Hq.
  assert (E : v * iz so == iz (afo * so + fo * (ps - aso))).
  { subst v. rewrite !inject_Z_plus, !inject_Z_mult. unfold Zminus. rewrite inject_Z_plus, inject_Z_opp. field. lra. }
  split.
  - rewrite Z.compare_gt_iff. split; intros H.
    + apply (Qmult_lt_r _ _ (iz so) Hq). rewrite E. rewrite <- inject_Z_mult. rewrite <- Zlt_Qlt. lia.
    + apply (Qmult_lt_r _ _ (iz so) Hq) in H. rewrite E in H. rewrite <- inject_Z_mult in H. rewrite <- Zlt_Qlt in H. lia.
  - rewrite Z.compare_lt_iff. split; intros H.
    + apply (Qmult_lt_r _ _ (iz so) Hq). rewrite E. rewrite <- inject_Z_mult. rewrite <- Zlt_Qlt. lia.
    + apply (Qmult_lt_r _ _ (iz so) Hq) in H. rewrite E in H. rewrite <- inject_Z_mult in H. rewrite <- Zlt_Qlt in H. lia.
Qed.

(* ---------------------------------------------------------------------------------- *)
(* one pass of the loop, abstractly: side u advances to abscissa m', side o is a line on [.., m'] *)
Definition somewhere_above (m : Q) (Dlo Dhi : Q -> Q) : Prop := exists x, m <= x /\ Dlo x < Dhi x.

Lemma transfer (Du Do Du' Do' : Q -> Q) (m m' : Q) (bu bo : bool) (cmp : comparison) :
  m <= m' ->
  (forall x, m' <= x -> Du' x == Du x) -> (forall x, m' <= x -> Do' x == Do x) ->
  (forall x, m <= x -> x <= m' -> Do x < Du x -> Do m < Du m \/ Do m' < Du m') ->
  (forall x, m <= x -> x <= m' -> Du x < Do x -> Du m < Do m \/ Du m' < Do m') ->
  (Do m < Du m -> bu = true) -> (Du m < Do m -> bo = true) ->
  (cmp = Gt <-> Do m' < Du m') -> (cmp = Lt <-> Du m' < Do m') ->
  ((bu = true \/ somewhere_above m Do Du) <-> (bu || is_gt cmp = true \/ somewhere_above m' Do' Du')) /\
  ((bo = true \/ somewhere_above m Du Do) <-> (bo || is_lt cmp = true \/ somewhere_above m' Du' Do')) /\
  (Do' m' < Du' m' -> bu || is_gt cmp = true) /\ (Du' m' < Do' m' -> bo || is_lt cmp = true).
Proof.
  intros Hm Au Ao Fu Fo Vu Vo Cg Cl.
  assert (Rm : m' <= m') by lra.
  assert (Gt_true : Do m' < Du m' -> is_gt cmp = true) by (intros H; apply Cg in H; rewrite H; reflexivity).
  assert (Lt_true : Du m' < Do m' -> is_lt cmp = true) by (intros H; apply Cl in H; rewrite H; reflexivity).
  assert (Gt_inv : is_gt cmp = true -> Do m' < Du m') by (intros H; apply Cg; destruct cmp; try discriminate; reflexivity).
  assert (Lt_inv : is_lt cmp = true -> Du m' < Do m') by (intros H; apply Cl; destruct cmp; try discriminate; reflexivity).
  repeat split.
  - intros [H|[x [Hx H]]].
    + left. rewrite H. reflexivity.
    + destruct (Qlt_le_dec x m') as [Hlt|Hge].
      * destruct (Fu x Hx ltac:(lra) H) as [H1|H1].
        -- left. rewrite (Vu H1). reflexivity.
        -- left. rewrite (Gt_true H1). apply orb_true_r.
      * right. exists x. split; [exact Hge|]. rewrite (Au x Hge), (Ao x Hge). exact H.
  - intros [H|[x [Hx H]]].
    + apply orb_prop in H. destruct H as [H|H]; [left; exact H|].
      right. exists m'. split; [exact Hm | exact (Gt_inv H)].
    + right. exists x. split; [lra|]. rewrite <- (Au x Hx), <- (Ao x Hx). exact H.
  - intros [H|[x [Hx H]]].
    + left. rewrite H. reflexivity.
    + destruct (Qlt_le_dec x m') as [Hlt|Hge].
      * destruct (Fo x Hx ltac:(lra) H) as [H1|H1].
        -- left. rewrite (Vo H1). reflexivity.
        -- left. rewrite (Lt_true H1). apply orb_true_r.
      * right. exists x. split; [exact Hge|]. rewrite (Au x Hge), (Ao x Hge). exact H.
  - intros [H|[x [Hx H]]].
    + apply orb_prop in H. destruct H as [H|H]; [left; exact H|].
      right. exists m'. split; [exact Hm | exact (Lt_inv H)].
    + right. exists x. split; [lra|]. rewrite <- (Au x Hx), <- (Ao x Hx). exact H.
  - intros H. rewrite (Au m' Rm), (Ao m' Rm) in H. rewrite (Gt_true H). apply orb_true_r.
  - intros H. rewrite (Au m' Rm), (Ao m' Rm) in H. rewrite (Lt_true H). apply orb_true_r.
Qed.

Lemma line_on_weaken D p k a hi hi' : line_on D p k a hi -> hi' <= hi -> line_on D p k a hi'.
Proof. intros L H x Hx. apply L. lra. Qed.

Lemma diag_vertex f s r af asz : within ((f, s) :: r) af asz ->
  diag ((f, s) :: r) af asz (iz (asz + s)) == iz (af + f).
Proof.
  intros [Hs _]. pose proof (iz_pos s Hs) as Hq.
  rewrite diag_cons_le by lra. rewrite !inject_Z_plus. field. lra.
Qed.

(* side u has chunk (f,s) next, side o is a straight line up to the abscissa asu+s that u advances to *)
Lemma step_generic f s t afu asu (Do Do' : Q -> Q) afo aso fo so (m : Z) (bu bo : bool) :
  within ((f, s) :: t) afu asu -> (0 < so)%Z ->
  (asu <= m)%Z -> (aso <= m)%Z -> (m <= asu + s)%Z ->
  line_on Do (iz afo) (iz fo / iz so) (iz aso) (iz (asu + s)) ->
  (forall x, iz (asu + s) <= x -> Do' x == Do x) ->
  let Du := diag ((f, s) :: t) afu asu in
  let Du' := diag t (afu + f) (asu + s) in
  let cmp := ((afu + f - afo) * so ?= fo * ((asu + s) - aso))%Z in
  (Do (iz m) < Du (iz m) -> bu = true) -> (Du (iz m) < Do (iz m) -> bo = true) ->
  ((bu = true \/ somewhere_above (iz m) Do Du) <-> (bu || is_gt cmp = true \/ somewhere_above (iz (asu + s)) Do' Du')) /\
  ((bo = true \/ somewhere_above (iz m) Du Do) <-> (bo || is_lt cmp = true \/ somewhere_above (iz (asu + s)) Du' Do')) /\
  (Do' (iz (asu + s)) < Du' (iz (asu + s)) -> bu || is_gt cmp = true) /\
  (Du' (iz (asu + s)) < Do' (iz (asu + s)) -> bo || is_lt cmp = true).
Proof.
  intros W Hso H1 H2 H3 Lo Ao Du Du' cmp Vu Vo.
  assert (Hs : (0 < s)%Z) by (destruct W as [Hs _]; exact Hs).
  assert (Hm : iz m <= iz (asu + s)) by (rewrite <- Zle_Qle; exact H3).
  assert (Lu : line_on Du (iz afu) (iz f / iz s) (iz asu) (iz (asu + s))) by (apply diag_line_cons; exact Hs).
  assert (Au : forall x, iz (asu + s) <= x -> Du' x == Du x).
  { intros x Hx. subst Du Du'. symmetry. apply diag_right; assumption. }
  destruct (cmp_line (afu + f) afo fo so (asu + s) aso Hso) as [Cg Cl]. cbv zeta in Cg, Cl.
  assert (Ev : Du (iz (asu + s)) == iz (afu + f)) by (apply diag_vertex; exact W).
  assert (Eo : Do (iz (asu + s)) == iz afo + iz fo / iz so * (iz (asu + s) - iz aso)) by (apply Lo; lra).
  apply (transfer Du Do Du' Do' (iz m) (iz (asu + s)) bu bo cmp Hm Au Ao).
  - exact (line_affine Du Do _ _ _ _ _ _ (iz m) (iz (asu + s)) Lu Lo Hm).
  - exact (line_affine Do Du _ _ _ _ _ _ (iz m) (iz (asu + s)) Lo Lu Hm).
  - exact Vu.
  - exact Vo.
  - rewrite Ev, Eo. exact Cg.
  - rewrite Ev, Eo. exact Cl.
Qed.

(* ---------------------------------------------------------------------------------- *)
(* one pass of cc_loop with the wraps discharged *)
Local Open Scope Z_scope.

Lemma cc_step_nil_cons k f1 s1 t1 af0 as0 af1 as1 b0 b1 :
  pt_ok af0 as0 -> pt_ok af1 as1 -> pt_ok (af1 + f1) (as1 + s1) ->
  cc_loop (S k) [] ((f1, s1) :: t1) (af0, as0) (af1, as1) b0 b1 =
    let cmp := ((af1 + f1 - af0) * 1 ?= 0 * ((as1 + s1) - as0)) in
    if (b0 || is_lt cmp) && (b1 || is_gt cmp) then Some PUnordered
    else cc_loop k [] t1 (af0, as0) (af1 + f1, as1 + s1) (b0 || is_lt cmp) (b1 || is_gt cmp).
Proof.
  intros P0 P1 P1'. cbn [cc_loop]. rewrite (ff_add_l f1 s1 af1 as1 P1'), (ff_add_r f1 s1 af1 as1 P1').
  destruct (ff_sub_id (af1 + f1) (as1 + s1) af0 as0 P1' P0) as [E O]. rewrite E.
  rewrite (byratio_cmp_spec _ _ O ff_ok_01). cbn [fst snd]. reflexivity.
Qed.

Lemma cc_step_cons_nil k f0 s0 t0 af0 as0 af1 as1 b0 b1 :
  pt_ok af0 as0 -> pt_ok af1 as1 -> pt_ok (af0 + f0) (as0 + s0) ->
  cc_loop (S k) ((f0, s0) :: t0) [] (af0, as0) (af1, as1) b0 b1 =
    let cmp := ((af0 + f0 - af1) * 1 ?= 0 * ((as0 + s0) - as1)) in
    if (b0 || is_gt cmp) && (b1 || is_lt cmp) then Some PUnordered
    else cc_loop k t0 [] (af0 + f0, as0 + s0) (af1, as1) (b0 || is_gt cmp) (b1 || is_lt cmp).
Proof.
  intros P0 P1 P0'. cbn [cc_loop]. rewrite (ff_add_l f0 s0 af0 as0 P0'), (ff_add_r f0 s0 af0 as0 P0').
  destruct (ff_sub_id (af0 + f0) (as0 + s0) af1 as1 P0' P1) as [E O]. rewrite E.
  rewrite (byratio_cmp_spec _ _ O ff_ok_01). cbn [fst snd]. reflexivity.
Qed.

Lemma cc_step_cons_cons k f0 s0 t0 f1 s1 t1 af0 as0 af1 as1 b0 b1 :
  pt_ok af0 as0 -> pt_ok af1 as1 -> pt_ok (af0 + f0) (as0 + s0) -> pt_ok (af1 + f1) (as1 + s1) ->
  cc_loop (S k) ((f0, s0) :: t0) ((f1, s1) :: t1) (af0, as0) (af1, as1) b0 b1 =
    if as0 + s0 >? as1 + s1 then
      let cmp := ((af1 + f1 - af0) * s0 ?= f0 * ((as1 + s1) - as0)) in
      if (b0 || is_lt cmp) && (b1 || is_gt cmp) then Some PUnordered
      else if as0 + s0 =? as1 + s1
           then cc_loop k t0 t1 (af0 + f0, as0 + s0) (af1 + f1, as1 + s1) (b0 || is_lt cmp) (b1 || is_gt cmp)
           else cc_loop k ((f0, s0) :: t0) t1 (af0, as0) (af1 + f1, as1 + s1) (b0 || is_lt cmp) (b1 || is_gt cmp)
    else
      let cmp := ((af0 + f0 - af1) * s1 ?= f1 * ((as0 + s0) - as1)) in
      if (b0 || is_gt cmp) && (b1 || is_lt cmp) then Some PUnordered
      else if as1 + s1 =? as0 + s0
           then cc_loop k t0 t1 (af0 + f0, as0 + s0) (af1 + f1, as1 + s1) (b0 || is_gt cmp) (b1 || is_lt cmp)
           else cc_loop k t0 ((f1, s1) :: t1) (af0 + f0, as0 + s0) (af1, as1) (b0 || is_gt cmp) (b1 || is_lt cmp).
Proof.
  intros P0 P1 P0' P1'. cbn [cc_loop].
  rewrite (ff_add_l f0 s0 af0 as0 P0'), (ff_add_r f0 s0 af0 as0 P0').
  rewrite (ff_add_l f1 s1 af1 as1 P1'), (ff_add_r f1 s1 af1 as1 P1'). cbn [fst snd].
  destruct (ff_sub_id (af1 + f1) (as1 + s1) af0 as0 P1' P0) as [E10 O10].
  destruct (ff_sub_id (af0 + f0) (as0 + s0) af0 as0 P0' P0) as [E00 O00].
  destruct (ff_sub_id (af0 + f0) (as0 + s0) af1 as1 P0' P1) as [E01 O01].
  destruct (ff_sub_id (af1 + f1) (as1 + s1) af1 as1 P1' P1) as [E11 O11].
  rewrite E10, E00, E01, E11.
  rewrite (byratio_cmp_spec _ _ O10 O00), (byratio_cmp_spec _ _ O01 O11). cbn [fst snd].
  replace (as0 + s0 - as0) with s0 by lia. replace (af0 + f0 - af0) with f0 by lia.
  replace (as1 + s1 - as1) with s1 by lia. replace (af1 + f1 - af1) with f1 by lia.
  reflexivity.
Qed.

(* ---------------------------------------------------------------------------------- *)
(* the loop invariant and the main induction *)
Definition result_ok (res : pord) (E0 E1 : Prop) : Prop :=
  match res with
  | PUnordered => E0 /\ E1
  | PGreater => E0 /\ ~ E1
  | PLess => ~ E0 /\ E1
  | PEquiv => ~ E0 /\ ~ E1
  end.

Lemma result_ok_iff res E0 E1 E0' E1' : (E0 <-> E0') -> (E1 <-> E1') -> result_ok res E0' E1' -> result_ok res E0 E1.
Proof. destruct res; simpl; tauto. Qed.

(* the other side's processed abscissa lies strictly left of this side's next point *)
Definition head_after (r : list FF) (asz other : Z) : Prop :=
  match r with [] => True | (f, s) :: _ => other < asz + s end.

Lemma head_after_tail t af asz other : within t af asz -> other <= asz -> head_after t asz other.
Proof. destruct t as [|[f s] t]; simpl; [trivial|]. intros [Hs _] H. lia. Qed.

Lemma cc_loop_spec : forall fuel r0 r1 af0 as0 af1 as1 b0 b1,
  (length r0 + length r1 < fuel)%nat ->
  pt_ok af0 as0 -> pt_ok af1 as1 -> within r0 af0 as0 -> within r1 af1 as1 ->
  head_after r0 as0 as1 -> head_after r1 as1 as0 ->
  b0 && b1 = false ->
  ((diag r1 af1 as1 (iz (Z.max as0 as1)) < diag r0 af0 as0 (iz (Z.max as0 as1)))%Q -> b0 = true) ->
  ((diag r0 af0 as0 (iz (Z.max as0 as1)) < diag r1 af1 as1 (iz (Z.max as0 as1)))%Q -> b1 = true) ->
  exists res, cc_loop fuel r0 r1 (af0, as0) (af1, as1) b0 b1 = Some res /\
    result_ok res
      (b0 = true \/ somewhere_above (iz (Z.max as0 as1)) (diag r1 af1 as1) (diag r0 af0 as0))
      (b1 = true \/ somewhere_above (iz (Z.max as0 as1)) (diag r0 af0 as0) (diag r1 af1 as1)).
Proof.
  induction fuel as [|k IH]; intros r0 r1 af0 as0 af1 as1 b0 b1 Hfuel P0 P1 W0 W1 H0 H1 Hb V0 V1; [lia|].
  destruct r0 as [|[f0 s0] t0]; destruct r1 as [|[f1 s1] t1].
  - (* both done *)
    exists (final_pord b0 b1). split; [reflexivity|].
    cbn [diag] in *.
    assert (N0 : somewhere_above (iz (Z.max as0 as1)) (fun _ => iz af1) (fun _ => iz af0) -> b0 = true)
      by (intros [x [_ H]]; exact (V0 H)).
    assert (N1 : somewhere_above (iz (Z.max as0 as1)) (fun _ => iz af0) (fun _ => iz af1) -> b1 = true)
      by (intros [x [_ H]]; exact (V1 H)).
    destruct b0, b1; cbn [final_pord result_ok]; try discriminate; split;
      try (left; reflexivity); intros [H|H]; try discriminate; try (apply N0 in H; discriminate); try (apply N1 in H; discriminate).
  - (* side 0 done, side 1 advances *)
    destruct W1 as [Hs1 [P1' W1']]. cbn [head_after] in H1.
    rewrite (cc_step_nil_cons k f1 s1 t1 af0 as0 af1 as1 b0 b1 P0 P1 P1'). cbv zeta.
    set (cmp := (af1 + f1 - af0) * 1 ?= 0 * (as1 + s1 - as0)).
    destruct (step_generic f1 s1 t1 af1 as1 (diag [] af0 as0) (diag [] af0 as0) af0 as0 0 1 (Z.max as0 as1) b1 b0
                (conj Hs1 (conj P1' W1')) ltac:(lia) ltac:(lia) ltac:(lia) ltac:(lia)
                (diag_line_nil af0 as0 _) (fun x _ => Qeq_refl _) V1 V0) as [I1 [I0 [V1' V0']]].
    fold cmp in I1, I0, V1', V0'.
    destruct ((b0 || is_lt cmp) && (b1 || is_gt cmp)) eqn:Eb.
    + exists PUnordered. split; [reflexivity|]. apply andb_prop in Eb. destruct Eb as [Eb0 Eb1].
      cbn [result_ok]. split; [apply I0 | apply I1]; left; assumption.
    + assert (Emax : Z.max as0 (as1 + s1) = as1 + s1) by lia.
      destruct (IH [] t1 af0 as0 (af1 + f1) (as1 + s1) (b0 || is_lt cmp) (b1 || is_gt cmp)) as [res [Er Rr]];
        try assumption; try (cbn [length] in *; lia); try exact I.
      * apply head_after_tail with (af := af1 + f1); [exact W1' | lia].
      * rewrite Emax. exact V0'.
      * rewrite Emax. exact V1'.
      * exists res. split; [exact Er|]. rewrite Emax in Rr. exact (result_ok_iff _ _ _ _ _ I0 I1 Rr).
  - (* side 1 done, side 0 advances *)
    destruct W0 as [Hs0 [P0' W0']]. cbn [head_after] in H0.
    rewrite (cc_step_cons_nil k f0 s0 t0 af0 as0 af1 as1 b0 b1 P0 P1 P0'). cbv zeta.
    set (cmp := (af0 + f0 - af1) * 1 ?= 0 * (as0 + s0 - as1)).
    destruct (step_generic f0 s0 t0 af0 as0 (diag [] af1 as1) (diag [] af1 as1) af1 as1 0 1 (Z.max as0 as1) b0 b1
                (conj Hs0 (conj P0' W0')) ltac:(lia) ltac:(lia) ltac:(lia) ltac:(lia)
                (diag_line_nil af1 as1 _) (fun x _ => Qeq_refl _) V0 V1) as [I0 [I1 [V0' V1']]].
    fold cmp in I1, I0, V1', V0'.
    destruct ((b0 || is_gt cmp) && (b1 || is_lt cmp)) eqn:Eb.
    + exists PUnordered. split; [reflexivity|]. apply andb_prop in Eb. destruct Eb as [Eb0 Eb1].
      cbn [result_ok]. split; [apply I0 | apply I1]; left; assumption.
    + assert (Emax : Z.max (as0 + s0) as1 = as0 + s0) by lia.
      destruct (IH t0 [] (af0 + f0) (as0 + s0) af1 as1 (b0 || is_gt cmp) (b1 || is_lt cmp)) as [res [Er Rr]];
        try assumption; try (cbn [length] in *; lia); try exact I.
      * apply head_after_tail with (af := af0 + f0); [exact W0' | lia].
      * rewrite Emax. exact V0'.
      * rewrite Emax. exact V1'.
      * exists res. split; [exact Er|]. rewrite Emax in Rr. exact (result_ok_iff _ _ _ _ _ I0 I1 Rr).
  - (* both sides have points left *)
    pose proof W0 as W0full. pose proof W1 as W1full.
    destruct W0 as [Hs0 [P0' W0']]. destruct W1 as [Hs1 [P1' W1']]. cbn [head_after] in H0, H1.
    rewrite (cc_step_cons_cons k f0 s0 t0 f1 s1 t1 af0 as0 af1 as1 b0 b1 P0 P1 P0' P1').
    destruct (as0 + s0 >? as1 + s1) eqn:Eside.
    + (* unproc_side = 1; B = next point of side 0 lies strictly right of P *)
      cbv zeta. set (cmp := (af1 + f1 - af0) * s0 ?= f0 * (as1 + s1 - as0)).
      assert (Hlt : as1 + s1 < as0 + s0) by lia.
      destruct (as0 + s0 =? as1 + s1) eqn:Eadv; [lia|].
      assert (Lo : line_on (diag ((f0, s0) :: t0) af0 as0) (iz af0) (iz f0 / iz s0)%Q (iz as0) (iz (as1 + s1))).
      { apply line_on_weaken with (hi := iz (as0 + s0)); [apply diag_line_cons; exact Hs0|]. rewrite <- Zle_Qle. lia. }
      destruct (step_generic f1 s1 t1 af1 as1 (diag ((f0, s0) :: t0) af0 as0) (diag ((f0, s0) :: t0) af0 as0) af0 as0 f0 s0
                  (Z.max as0 as1) b1 b0 W1full Hs0 ltac:(lia) ltac:(lia) ltac:(lia) Lo (fun x _ => Qeq_refl _) V1 V0)
        as [I1 [I0 [V1' V0']]].
      fold cmp in I1, I0, V1', V0'.
      destruct ((b0 || is_lt cmp) && (b1 || is_gt cmp)) eqn:Eb.
      * exists PUnordered. split; [reflexivity|]. apply andb_prop in Eb. destruct Eb as [Eb0 Eb1].
        cbn [result_ok]. split; [apply I0 | apply I1]; left; assumption.
      * assert (Emax : Z.max as0 (as1 + s1) = as1 + s1) by lia.
        destruct (IH ((f0, s0) :: t0) t1 af0 as0 (af1 + f1) (as1 + s1) (b0 || is_lt cmp) (b1 || is_gt cmp)) as [res [Er Rr]];
          try assumption; try (cbn [length] in *; lia); try (cbn [head_after]; lia).
        -- apply head_after_tail with (af := af1 + f1); [exact W1' | lia].
        -- rewrite Emax. exact V0'.
        -- rewrite Emax. exact V1'.
        -- exists res. split; [exact Er|]. rewrite Emax in Rr. exact (result_ok_iff _ _ _ _ _ I0 I1 Rr).
    + (* unproc_side = 0; B = next point of side 1 is at or right of P *)
      cbv zeta. set (cmp := (af0 + f0 - af1) * s1 ?= f1 * (as0 + s0 - as1)).
      assert (Hle : as0 + s0 <= as1 + s1) by lia.
      assert (Lo : line_on (diag ((f1, s1) :: t1) af1 as1) (iz af1) (iz f1 / iz s1)%Q (iz as1) (iz (as0 + s0))).
      { apply line_on_weaken with (hi := iz (as1 + s1)); [apply diag_line_cons; exact Hs1|]. rewrite <- Zle_Qle. lia. }
      destruct (as1 + s1 =? as0 + s0) eqn:Eadv.
      * (* same abscissa: both advance *)
        assert (Eq_s : as1 + s1 = as0 + s0) by lia.
        assert (Ao : forall x, (iz (as0 + s0) <= x)%Q -> (diag t1 (af1 + f1) (as1 + s1) x == diag ((f1, s1) :: t1) af1 as1 x)%Q).
        { intros x Hx. symmetry. apply diag_right; [exact W1full|]. rewrite Eq_s. exact Hx. }
        destruct (step_generic f0 s0 t0 af0 as0 (diag ((f1, s1) :: t1) af1 as1) (diag t1 (af1 + f1) (as1 + s1)) af1 as1 f1 s1
                    (Z.max as0 as1) b0 b1 W0full Hs1 ltac:(lia) ltac:(lia) ltac:(lia) Lo Ao V0 V1)
          as [I0 [I1 [V0' V1']]].
        fold cmp in I1, I0, V1', V0'.
        destruct ((b0 || is_gt cmp) && (b1 || is_lt cmp)) eqn:Eb.
        -- exists PUnordered. split; [reflexivity|]. apply andb_prop in Eb. destruct Eb as [Eb0 Eb1].
           cbn [result_ok]. split; [apply I0 | apply I1]; left; assumption.
        -- assert (Emax : Z.max (as0 + s0) (as1 + s1) = as0 + s0) by lia.
           destruct (IH t0 t1 (af0 + f0) (as0 + s0) (af1 + f1) (as1 + s1) (b0 || is_gt cmp) (b1 || is_lt cmp)) as [res [Er Rr]];
             try assumption; try (cbn [length] in *; lia); try (cbn [head_after]; lia).
           ++ apply head_after_tail with (af := af0 + f0); [exact W0' | lia].
           ++ apply head_after_tail with (af := af1 + f1); [exact W1' | lia].
           ++ rewrite Emax. exact V0'.
           ++ rewrite Emax. exact V1'.
           ++ exists res. split; [exact Er|]. rewrite Emax in Rr. exact (result_ok_iff _ _ _ _ _ I0 I1 Rr).
      * destruct (step_generic f0 s0 t0 af0 as0 (diag ((f1, s1) :: t1) af1 as1) (diag ((f1, s1) :: t1) af1 as1) af1 as1 f1 s1
                    (Z.max as0 as1) b0 b1 W0full Hs1 ltac:(lia) ltac:(lia) ltac:(lia) Lo (fun x _ => Qeq_refl _) V0 V1)
          as [I0 [I1 [V0' V1']]].
        fold cmp in I1, I0, V1', V0'.
        destruct ((b0 || is_gt cmp) && (b1 || is_lt cmp)) eqn:Eb.
        -- exists PUnordered. split; [reflexivity|]. apply andb_prop in Eb. destruct Eb as [Eb0 Eb1].
           cbn [result_ok]. split; [apply I0 | apply I1]; left; assumption.
        -- assert (Emax : Z.max (as0 + s0) as1 = as0 + s0) by lia.
           destruct (IH t0 ((f1, s1) :: t1) (af0 + f0) (as0 + s0) af1 as1 (b0 || is_gt cmp) (b1 || is_lt cmp)) as [res [Er Rr]];
             try assumption; try (cbn [length] in *; lia); try (cbn [head_after]; lia).
           ++ apply head_after_tail with (af := af0 + f0); [exact W0' | lia].
           ++ rewrite Emax. exact V0'.
           ++ rewrite Emax. exact V1'.
           ++ exists res. split; [exact Er|]. rewrite Emax in Rr. exact (result_ok_iff _ _ _ _ _ I0 I1 Rr).
Qed.

(* ---------------------------------------------------------------------------------- *)
(* CompareChunks = the pointwise comparison of the diagrams *)
Theorem compare_chunks_spec c0 c1 : chunks_in_range c0 -> chunks_in_range c1 ->
  exists r, compare_chunks c0 c1 = Some r /\ diagram_order c0 c1 r.
Proof.
  intros W0 W1. unfold compare_chunks.
  destruct (cc_loop_spec (S (length c0 + length c1)) c0 c1 0 0 0 0 false false) as [res [Er Rr]];
    try assumption; try exact pt_ok_00; try lia; try reflexivity.
  - apply head_after_tail with (af := 0); [exact W0 | lia].
  - apply head_after_tail with (af := 0); [exact W1 | lia].
  - change (Z.max 0 0) with 0. rewrite (diag_at_start c0 0 0 (iz 0) W0 (Qeq_refl _)), (diag_at_start c1 0 0 (iz 0) W1 (Qeq_refl _)).
    intros H. exfalso. apply (Qlt_irrefl _ H).
  - change (Z.max 0 0) with 0. rewrite (diag_at_start c0 0 0 (iz 0) W0 (Qeq_refl _)), (diag_at_start c1 0 0 (iz 0) W1 (Qeq_refl _)).
    intros H. exfalso. apply (Qlt_irrefl _ H).
  - exists res. split; [exact Er|]. change (Z.max 0 0) with 0 in Rr. change (iz 0) with 0%Q in Rr.
    assert (G0 : (false = true \/ somewhere_above 0 (diag c1 0 0) (diag c0 0 0)) <-> diagram_gt_somewhere c0 c1).
    { unfold diagram_gt_somewhere, somewhere_above, diagram. split; [intros [H|H]; [discriminate | exact H] | intros H; right; exact H]. }
    assert (G1 : (false = true \/ somewhere_above 0 (diag c0 0 0) (diag c1 0 0)) <-> diagram_gt_somewhere c1 c0).
    { unfold diagram_gt_somewhere, somewhere_above, diagram. split; [intros [H|H]; [discriminate | exact H] | intros H; right; exact H]. }
    assert (N0 : ~ diagram_gt_somewhere c0 c1 -> diagram_ge c1 c0).
    { intros N x Hx. apply Qnot_lt_le. intros H. apply N. exists x. split; assumption. }
    assert (N1 : ~ diagram_gt_somewhere c1 c0 -> diagram_ge c0 c1).
    { intros N x Hx. apply Qnot_lt_le. intros H. apply N. exists x. split; assumption. }
    destruct res; cbn [result_ok diagram_order] in *; rewrite G0, G1 in Rr; destruct Rr as [R0 R1].
    + split; [apply N0; exact R0 | exact R1].
    + intros x Hx. apply Qle_antisym; [apply (N0 R0 x Hx) | apply (N1 R1 x Hx)].
    + split; [apply N1; exact R1 | exact R0].
    + split; assumption.
Qed.

Theorem diagram_order_unique c0 c1 r r' : diagram_order c0 c1 r -> diagram_order c0 c1 r' -> r = r'.
Proof.
  assert (X : forall a b, diagram_ge a b -> diagram_gt_somewhere b a -> False).
  { intros a b G [x [Hx H]]. specialize (G x Hx). apply (Qlt_irrefl (diagram a x)). apply Qlt_le_trans with (diagram b x); assumption. }
  assert (Y : forall a b, (forall x, 0 <= x -> diagram a x == diagram b x)%Q -> diagram_gt_somewhere a b -> False).
  { intros a b G [x [Hx H]]. specialize (G x Hx). rewrite G in H. apply (Qlt_irrefl _ H). }
  assert (Y' : forall a b, (forall x, 0 <= x -> diagram a x == diagram b x)%Q -> diagram_gt_somewhere b a -> False).
  { intros a b G [x [Hx H]]. specialize (G x Hx). rewrite G in H. apply (Qlt_irrefl _ H). }
  destruct r, r'; cbn [diagram_order]; intros H H'; try reflexivity; exfalso;
    repeat match goal with H : _ /\ _ |- _ => destruct H end; eauto.
Qed.

(* the result is always defined (the fuel suffices), for any input whatsoever *)
Lemma cc_loop_total : forall fuel r0 r1 a0 a1 b0 b1,
  (length r0 + length r1 < fuel)%nat -> cc_loop fuel r0 r1 a0 a1 b0 b1 <> None.
Proof.
  induction fuel as [|k IH]; intros r0 r1 a0 a1 b0 b1 H; [lia|].
  destruct r0 as [|c0 t0]; destruct r1 as [|c1 t1]; cbn [cc_loop].
  - discriminate.
  - destruct (_ && _); [discriminate|]. apply IH. cbn [length] in *. lia.
  - destruct (_ && _); [discriminate|]. apply IH. cbn [length] in *. lia.
  - destruct (_ >? _).
    + destruct (_ && _); [discriminate|]. destruct (_ =? _); apply IH; cbn [length] in *; lia.
    + destruct (_ && _); [discriminate|]. destruct (_ =? _); apply IH; cbn [length] in *; lia.
Qed.
