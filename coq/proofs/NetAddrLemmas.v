(* CSubNet::Match is exactly "same network class and the first prefix-length bits agree" (for every address
   and every mask the constructors accept); ADDRv1 / ADDRv2 round trips and the BIP155 length rules. *)
From Coq Require Import List Arith Bool Lia ZArith.
Unset Lia Cache.
From BV Require Import model.NetAddr.
Import ListNotations.
Local Open Scope Z_scope.

(* ---- small facts ---- *)
Lemma network_eqb_eq a b : network_eqb a b = true <-> a = b.
Proof. destruct a, b; simpl; split; intros H; try reflexivity; try discriminate. Qed.
Lemma network_eqb_refl a : network_eqb a a = true.
Proof. destruct a; reflexivity. Qed.

Lemma bytes_eqb_eq a : forall b, bytes_eqb a b = true <-> a = b.
Proof.
  induction a as [|x a IH]; intros [|y b]; simpl; split; intros H; try reflexivity; try discriminate.
  - apply andb_true_iff in H. destruct H as [H1 H2]. apply Z.eqb_eq in H1. apply IH in H2. subst. reflexivity.
  - injection H as -> ->. apply andb_true_iff. split; [apply Z.eqb_refl|apply IH; reflexivity].
Qed.
Lemma addr_eqb_eq a b : addr_eqb a b = true <-> a = b.
Proof.
  unfold addr_eqb. rewrite andb_true_iff, network_eqb_eq, bytes_eqb_eq. destruct a, b; simpl.
  split; [intros [-> ->]; reflexivity|intros H; injection H as -> ->; auto].
Qed.

Definition byte_range (b : Z) : Prop := 0 <= b < 256.
Lemma byte_ok_range b : byte_ok b = true <-> byte_range b.
Proof. unfold byte_ok, byte_range. rewrite andb_true_iff, Z.leb_le, Z.ltb_lt. tauto. Qed.

(* ---- one byte: comparing under the CIDR mask of `bits` bits is comparing the top `bits` bits ---- *)
Definition top_bits_eqb (x y : Z) (bits : nat) : bool :=
  forallb (fun j => Bool.eqb (Z.testbit x (Z.of_nat (7 - j))) (Z.testbit y (Z.of_nat (7 - j)))) (seq 0 bits).
Definition zrange (n : nat) : list Z := map Z.of_nat (seq 0 n).
Lemma in_zrange n z : 0 <= z < Z.of_nat n -> In z (zrange n).
Proof.
  intros H. unfold zrange. apply in_map_iff. exists (Z.to_nat z). split; [lia|]. apply in_seq. lia.
Qed.

Definition byte_cmp (b : nat) (x y : Z) : bool :=
  Bool.eqb (Z.land x (mask_byte (Z.of_nat b)) =? Z.land y (mask_byte (Z.of_nat b))) (top_bits_eqb x y b).
Lemma forallb3_inst {A B C : Type} (f : A -> B -> C -> bool) la lb lc :
  forallb (fun a => forallb (fun b => forallb (f a b) lc) lb) la = true ->
  forall a b c, In a la -> In b lb -> In c lc -> f a b c = true.
Proof.
  intros H a b c Ha Hb Hc. rewrite forallb_forall in H. specialize (H a Ha).
  rewrite forallb_forall in H. specialize (H b Hb). rewrite forallb_forall in H. exact (H c Hc).
Qed.
(* all 9 * 256 * 256 cases *)
Lemma byte_table :
  forallb (fun b => forallb (fun x => forallb (byte_cmp b x) (zrange 256)) (zrange 256)) (seq 0 9) = true.
Proof. vm_compute. reflexivity. Qed.

Lemma byte_mask_eq x y (b : nat) : byte_range x -> byte_range y -> (b <= 8)%nat ->
  (Z.land x (mask_byte (Z.of_nat b)) =? Z.land y (mask_byte (Z.of_nat b))) = top_bits_eqb x y b.
Proof.
  intros Hx Hy Hb.
  pose proof (forallb3_inst byte_cmp _ _ _ byte_table b x y) as T.
  apply eqb_prop. apply T; [apply in_seq; lia|apply in_zrange; exact Hx|apply in_zrange; exact Hy].
Qed.

Lemma top_bits_eqb_spec x y b : top_bits_eqb x y b = true <->
  forall j, (j < b)%nat -> Z.testbit x (Z.of_nat (7 - j)) = Z.testbit y (Z.of_nat (7 - j)).
Proof.
  unfold top_bits_eqb. rewrite forallb_forall. split.
  - intros H j Hj. apply eqb_prop. apply H. apply in_seq. lia.
  - intros H j Hj. apply in_seq in Hj. rewrite (H j ltac:(lia)). apply eqb_reflx.
Qed.

Lemma land_mask_idem x (b : nat) : byte_range x -> (b <= 8)%nat ->
  Z.land (Z.land x (mask_byte (Z.of_nat b))) (mask_byte (Z.of_nat b)) = Z.land x (mask_byte (Z.of_nat b)).
Proof. intros. rewrite <- Z.land_assoc, Z.land_diag. reflexivity. Qed.

(* ---- address bits ---- *)
Lemma addr_bit_cons_lo x l i : (i < 8)%nat -> addr_bit (x :: l) i = Z.testbit x (Z.of_nat (7 - i)).
Proof.
  intros H. unfold addr_bit. rewrite Nat.div_small, Nat.mod_small by lia. reflexivity.
Qed.
Lemma addr_bit_cons_hi x l i : (8 <= i)%nat -> addr_bit (x :: l) i = addr_bit l (i - 8).
Proof.
  intros H. unfold addr_bit.
  assert (D : (i / 8 = S ((i - 8) / 8))%nat).
  { replace i with ((i - 8) + 1 * 8)%nat at 1 by lia. rewrite Nat.div_add by lia. lia. }
  assert (M : (i mod 8 = (i - 8) mod 8)%nat).
  { replace i with ((i - 8) + 1 * 8)%nat at 1 by lia. apply Nat.mod_add. lia. }
  rewrite D, M. reflexivity.
Qed.

Lemma wf_forall a : addr_wf a = true -> length (a_bytes a) = addr_size (a_net a) /\ Forall byte_range (a_bytes a).
Proof.
  unfold addr_wf. rewrite andb_true_iff, Nat.eqb_eq, forallb_forall. intros [L F]. split; [exact L|].
  apply Forall_forall. intros x Hx. apply byte_ok_range. apply F. exact Hx.
Qed.

Lemma cidr_mask_zero k : cidr_mask k 0 = repeat 0 k.
Proof. induction k; simpl; [reflexivity|]. rewrite IHk. reflexivity. Qed.

Lemma land_255_mod t : Z.land t 255 = t mod 256.
Proof. change 255 with (Z.ones 8). rewrite Z.land_ones by lia. reflexivity. Qed.

Lemma match_cidr size : forall n A Bs tail, 0 <= n -> length A = size -> length Bs = size ->
  Forall byte_range A -> Forall byte_range Bs ->
  (match_bytes A (cidr_mask size n ++ tail) (and_bytes Bs (cidr_mask size n)) = true <->
   forall i, (i < Z.to_nat n)%nat -> (i < 8 * size)%nat -> addr_bit A i = addr_bit Bs i).
Proof.
  induction size as [|k IH]; intros n A Bs tail Hn LA LB FA FB.
  - destruct A; [|discriminate]. simpl. split; [intros _ i _ Hi; lia|reflexivity].
  - destruct A as [|x A]; [discriminate|]. destruct Bs as [|y Bs]; [discriminate|].
    inversion FA as [|? ? Hx FA']; subst. inversion FB as [|? ? Hy FB']; subst.
    simpl in LA, LB. injection LA as LA. injection LB as LB.
    cbn [cidr_mask app and_bytes match_bytes].
    set (bits := if n <? 8 then n else 8).
    assert (Hbits : 0 <= bits <= 8) by (unfold bits; destruct (n <? 8) eqn:E; [apply Z.ltb_lt in E|]; lia).
    assert (Hmb : mask_byte bits = mask_byte (Z.of_nat (Z.to_nat bits))) by (rewrite Z2Nat.id by lia; reflexivity).
    rewrite Hmb.
    assert (Hyr : byte_range (Z.land y (mask_byte (Z.of_nat (Z.to_nat bits))))).
    { unfold byte_range, mask_byte. rewrite Z.land_assoc, land_255_mod. apply Z.mod_pos_bound. lia. }
    rewrite <- (land_mask_idem y (Z.to_nat bits) Hy ltac:(lia)).
    rewrite byte_mask_eq by (try assumption; lia).
    rewrite andb_true_iff, top_bits_eqb_spec. rewrite <- Hmb.
    rewrite (IH (n - bits) A Bs tail ltac:(unfold bits; destruct (n <? 8) eqn:E; [apply Z.ltb_lt in E|apply Z.ltb_ge in E]; lia) LA LB FA' FB').
    assert (Hland : forall j, (j < Z.to_nat bits)%nat ->
              Z.testbit (Z.land y (mask_byte (Z.of_nat (Z.to_nat bits)))) (Z.of_nat (7 - j)) = Z.testbit y (Z.of_nat (7 - j))).
    { intros j Hj. pose proof (byte_mask_eq (Z.land y (mask_byte (Z.of_nat (Z.to_nat bits)))) y (Z.to_nat bits) Hyr Hy ltac:(lia)) as Q.
      rewrite land_mask_idem in Q by (try assumption; lia). rewrite Z.eqb_refl in Q. symmetry in Q.
      rewrite top_bits_eqb_spec in Q. apply Q. exact Hj. }
    rewrite <- Hmb in Hland.
    split.
    + intros [H1 H2] i Hi Hi8. destruct (lt_dec i 8) as [Hlo|Hhi].
      * rewrite !addr_bit_cons_lo by lia.
        assert (Hib : (i < Z.to_nat bits)%nat) by (unfold bits in *; destruct (n <? 8) eqn:E; [apply Z.ltb_lt in E|apply Z.ltb_ge in E]; lia).
        rewrite (H1 i Hib). apply Hland. exact Hib.
      * rewrite !addr_bit_cons_hi by lia. apply H2; [|lia].
        unfold bits in *; destruct (n <? 8) eqn:E; [apply Z.ltb_lt in E|apply Z.ltb_ge in E]; lia.
    + intros H. split.
      * intros j Hj. rewrite Hland by exact Hj.
        specialize (H j ltac:(unfold bits in *; destruct (n <? 8) eqn:E; [apply Z.ltb_lt in E|apply Z.ltb_ge in E]; lia) ltac:(lia)).
        rewrite !addr_bit_cons_lo in H by lia. exact H.
      * intros i Hi Hi8.
        specialize (H (i + 8)%nat ltac:(unfold bits in *; destruct (n <? 8) eqn:E; [apply Z.ltb_lt in E|apply Z.ltb_ge in E]; lia) ltac:(lia)).
        rewrite !addr_bit_cons_hi in H by lia. replace (i + 8 - 8)%nat with i in H by lia. exact H.
Qed.

(* CSubNet(addr, n).Match(a)  <=>  a valid, same network class, first n bits equal *)
Theorem subnet_cidr_match_iff base n a : addr_wf base = true -> addr_wf a = true -> 0 <= n ->
  ((a_net base = NET_IPV4 /\ n <= 32) \/ (a_net base = NET_IPV6 /\ n <= 128)) ->
  (subnet_match (subnet_cidr base n) a = true <->
   is_valid a = true /\ a_net a = a_net base /\
   forall i, (i < Z.to_nat n)%nat -> addr_bit (a_bytes a) i = addr_bit (a_bytes base) i).
Proof.
  intros Wb Wa Hn Hnet. destruct (wf_forall _ Wb) as [Lb Fb]. destruct (wf_forall _ Wa) as [La Fa].
  unfold subnet_cidr.
  assert (Hv : ((network_eqb (a_net base) NET_IPV4 && (n <=? 32)) || (network_eqb (a_net base) NET_IPV6 && (n <=? 128))) = true).
  { destruct Hnet as [[-> H]|[-> H]]; simpl; apply Z.leb_le in H; rewrite H; reflexivity. }
  rewrite Hv. unfold subnet_match. cbn [s_valid s_network s_mask a_net a_bytes negb orb].
  destruct (is_valid a) eqn:Eva; cbn [negb orb]; [|split; [discriminate|intros [H _]; discriminate]].
  destruct (network_eqb (a_net base) (a_net a)) eqn:En; cbn [negb].
  - apply network_eqb_eq in En.
    assert (Hsz : length (a_bytes a) = length (a_bytes base)) by (rewrite La, Lb, En; reflexivity).
    assert (Hbound : (Z.to_nat n <= 8 * length (a_bytes base))%nat).
    { rewrite Lb. destruct Hnet as [[-> H]|[-> H]]; simpl; lia. }
    assert (Hm : (match a_net base with NET_IPV4 | NET_IPV6 => match_bytes (a_bytes a) (pad16 (cidr_mask (length (a_bytes base)) n))
                    (and_bytes (a_bytes base) (cidr_mask (length (a_bytes base)) n)) | _ => addr_eqb a (mkaddr (a_net base) (and_bytes (a_bytes base) (cidr_mask (length (a_bytes base)) n))) end)
                 = match_bytes (a_bytes a) (pad16 (cidr_mask (length (a_bytes base)) n)) (and_bytes (a_bytes base) (cidr_mask (length (a_bytes base)) n)))
      by (destruct Hnet as [[-> _]|[-> _]]; reflexivity).
    rewrite Hm. unfold pad16.
    rewrite (match_cidr (length (a_bytes base)) n (a_bytes a) (a_bytes base) _ Hn Hsz eq_refl Fa Fb).
    split.
    + intros H. split; [reflexivity|]. split; [symmetry; exact En|]. intros i Hi. apply H; lia.
    + intros (_&_&H) i Hi _. apply H. exact Hi.
  - split; [discriminate|]. intros (_&H&_). rewrite H, network_eqb_refl in En. discriminate.
Qed.

(* a prefix length outside the range of the address family, or a non-IP address, gives an invalid subnet that matches nothing *)
Theorem subnet_cidr_invalid base n :
  (a_net base = NET_IPV4 -> 32 < n) -> (a_net base = NET_IPV6 -> 128 < n) ->
  s_valid (subnet_cidr base n) = false /\ forall a, subnet_match (subnet_cidr base n) a = false.
Proof.
  intros H4 H6. unfold subnet_cidr.
  assert (Hv : ((network_eqb (a_net base) NET_IPV4 && (n <=? 32)) || (network_eqb (a_net base) NET_IPV6 && (n <=? 128))) = false).
  { destruct (a_net base) eqn:E; simpl; try reflexivity.
    - specialize (H4 eq_refl). rewrite orb_false_r. apply Z.leb_gt. lia.
    - specialize (H6 eq_refl). apply Z.leb_gt. lia. }
  rewrite Hv. split; [reflexivity|]. intros a. reflexivity.
Qed.

(* ---- single-host subnets (and the non-IP networks): equality ---- *)
Lemma land_255 x : byte_range x -> Z.land x 255 = x.
Proof. intros [H0 H1]. change 255 with (Z.ones 8). rewrite Z.land_ones by lia. apply Z.mod_small. change (2 ^ 8) with 256. lia. Qed.

Lemma match_full A : forall Bs tail, Forall byte_range A -> length A = length Bs ->
  (match_bytes A (repeat 255 (length Bs) ++ tail) Bs = true <-> A = Bs).
Proof.
  induction A as [|x A IH]; intros [|y Bs] tail F L; try discriminate.
  - simpl. split; reflexivity.
  - inversion F as [|? ? Hx F']; subst. simpl in L. injection L as L.
    cbn [length repeat app match_bytes]. rewrite land_255 by exact Hx.
    rewrite andb_true_iff, Z.eqb_eq, (IH Bs tail F' L).
    split; [intros [-> ->]; reflexivity|intros H; injection H as -> ->; auto].
Qed.

Theorem subnet_single_match_iff s a : addr_wf s = true -> addr_wf a = true -> a_net s <> NET_INTERNAL ->
  (subnet_match (subnet_single s) a = true <-> is_valid a = true /\ a = s).
Proof.
  intros Ws Wa Hni. destruct (wf_forall _ Ws) as [Ls Fs]. destruct (wf_forall _ Wa) as [La Fa].
  unfold subnet_single, subnet_match.
  destruct (is_valid a) eqn:Eva.
  2:{ destruct (a_net s); cbn [s_valid s_network s_mask negb orb]; try (split; [discriminate|intros [H _]; discriminate]). }
  destruct (a_net s) eqn:En; try congruence; cbn [s_valid s_network s_mask negb orb];
    rewrite En; destruct (network_eqb _ (a_net a)) eqn:E2; cbn [negb];
    try (split; [discriminate|intros [_ H]; subst a; rewrite En in E2; discriminate]).
  all: apply network_eqb_eq in E2.
  1,2: unfold pad16; rewrite repeat_length;
       rewrite (match_full (a_bytes a) (a_bytes s) _ Fa ltac:(rewrite La, Ls, <- E2; reflexivity));
       split; [intros H; split; [reflexivity|]; destruct a, s; simpl in *; subst; reflexivity|intros [_ ->]; reflexivity].
  all: rewrite addr_eqb_eq; split; [intros ->; auto|intros [_ H]; exact H].
Qed.

(* ---- the (address, netmask) constructor accepts exactly the prefix masks ---- *)
Lemma netmask_bits_inv b v : netmask_bits b = v -> v <> -1 -> 0 <= v <= 8 /\ b = mask_byte v.
Proof.
  intros <- Hv. unfold netmask_bits in *.
  destruct (b =? 0) eqn:E0; [apply Z.eqb_eq in E0; subst; split; [lia|reflexivity]|].
  destruct (b =? 128) eqn:E1; [apply Z.eqb_eq in E1; subst; split; [lia|reflexivity]|].
  destruct (b =? 192) eqn:E2; [apply Z.eqb_eq in E2; subst; split; [lia|reflexivity]|].
  destruct (b =? 224) eqn:E3; [apply Z.eqb_eq in E3; subst; split; [lia|reflexivity]|].
  destruct (b =? 240) eqn:E4; [apply Z.eqb_eq in E4; subst; split; [lia|reflexivity]|].
  destruct (b =? 248) eqn:E5; [apply Z.eqb_eq in E5; subst; split; [lia|reflexivity]|].
  destruct (b =? 252) eqn:E6; [apply Z.eqb_eq in E6; subst; split; [lia|reflexivity]|].
  destruct (b =? 254) eqn:E7; [apply Z.eqb_eq in E7; subst; split; [lia|reflexivity]|].
  destruct (b =? 255) eqn:E8; [apply Z.eqb_eq in E8; subst; split; [lia|reflexivity]|].
  exfalso. apply Hv. reflexivity.
Qed.

Lemma contiguous_zero m : mask_contiguous true m = true -> m = repeat 0 (length m).
Proof.
  induction m as [|b m IH]; simpl; [reflexivity|]. intros H.
  destruct (netmask_bits b =? -1) eqn:E1; [discriminate|]. simpl in H.
  destruct (netmask_bits b =? 0) eqn:E2; simpl in H; [|discriminate].
  apply Z.eqb_eq in E2. f_equal; [|apply IH; exact H].
  destruct (netmask_bits_inv b 0 E2 ltac:(lia)) as [_ ->]. reflexivity.
Qed.

Lemma contiguous_cidr m : mask_contiguous false m = true ->
  exists n, 0 <= n <= 8 * Z.of_nat (length m) /\ m = cidr_mask (length m) n.
Proof.
  induction m as [|b m IH]; cbn [mask_contiguous length]; intros H.
  - exists 0. split; [simpl; lia|reflexivity].
  - destruct (netmask_bits b =? -1) eqn:E1; [discriminate|]. apply Z.eqb_neq in E1. cbn [orb andb] in H.
    destruct (netmask_bits_inv b _ eq_refl E1) as [Hr Hb].
    destruct (netmask_bits b <? 8) eqn:E2; [apply Z.ltb_lt in E2|apply Z.ltb_ge in E2].
    + apply contiguous_zero in H. exists (netmask_bits b). split; [lia|].
      cbn [cidr_mask]. replace (netmask_bits b <? 8) with true by (symmetry; apply Z.ltb_lt; lia).
      rewrite Z.sub_diag, cidr_mask_zero, <- H, <- Hb. reflexivity.
    + destruct (IH H) as (n&Hn&Em). exists (8 + n). split; [lia|].
      cbn [cidr_mask]. replace (8 + n <? 8) with false by (symmetry; apply Z.ltb_ge; lia).
      replace (8 + n - 8) with n by lia. rewrite <- Em. f_equal. rewrite Hb. f_equal. lia.
Qed.

(* CSubNet(addr, mask) is either invalid or the CIDR subnet of the number of leading one bits of the mask *)
Theorem subnet_of_mask_is_cidr addr mask : addr_wf addr = true -> addr_wf mask = true ->
  s_valid (subnet_of_mask addr mask) = true ->
  exists n, 0 <= n <= 8 * Z.of_nat (addr_size (a_net addr)) /\ subnet_of_mask addr mask = subnet_cidr addr n.
Proof.
  intros Wa Wm. destruct (wf_forall _ Wa) as [La _]. destruct (wf_forall _ Wm) as [Lm _].
  unfold subnet_of_mask.
  destruct ((network_eqb (a_net addr) NET_IPV4 || network_eqb (a_net addr) NET_IPV6) && network_eqb (a_net addr) (a_net mask)) eqn:Ev;
    [|simpl; discriminate].
  apply andb_true_iff in Ev. destruct Ev as [Ev1 Ev2]. apply network_eqb_eq in Ev2.
  destruct (mask_contiguous false (a_bytes mask)) eqn:Ec; [|simpl; discriminate]. intros _.
  destruct (contiguous_cidr _ Ec) as (n&Hn&Em). exists n.
  assert (Hlen : length (a_bytes mask) = length (a_bytes addr)) by (rewrite La, Lm, Ev2; reflexivity).
  rewrite Hlen in *. rewrite La in Hn. split; [exact Hn|].
  unfold subnet_cidr.
  assert (Hv : ((network_eqb (a_net addr) NET_IPV4 && (n <=? 32)) || (network_eqb (a_net addr) NET_IPV6 && (n <=? 128))) = true).
  { apply orb_true_iff in Ev1. destruct Ev1 as [E|E]; apply network_eqb_eq in E; rewrite E in *; simpl in *.
    - replace (n <=? 32) with true by (symmetry; apply Z.leb_le; lia). reflexivity.
    - replace (n <=? 128) with true by (symmetry; apply Z.leb_le; lia). reflexivity. }
  rewrite Hv. rewrite <- Em. reflexivity.
Qed.

(* ---- serialisation ---- *)
Lemma firstn_app_len (l r : list Z) : firstn (length l) (l ++ r) = l.
Proof. induction l; simpl; [destruct r; reflexivity|]. rewrite IHl. reflexivity. Qed.
Lemma skipn_app_len (l r : list Z) : skipn (length l) (l ++ r) = r.
Proof. induction l; simpl; auto. Qed.
Lemma has_prefix_app p : forall l, has_prefix (p ++ l) p = true.
Proof. induction p as [|x p IH]; intros l; simpl; [destruct l; reflexivity|]. rewrite Z.eqb_refl. apply IH. Qed.

Definition no_special_prefix (bytes : list Z) : Prop :=
  has_prefix bytes IPV4_IN_IPV6_PREFIX = false /\ has_prefix bytes TORV2_IN_IPV6_PREFIX = false /\
  has_prefix bytes INTERNAL_IN_IPV6_PREFIX = false.

Ltac len_eq n H l := let E := fresh "E" in
  assert (E : length l = n) by exact H; clear H.

(* ADDRv1: IPv4, IPv6 (that is not one of the embeddings) and "internal" addresses round-trip *)
Theorem v1_roundtrip a rest : addr_wf a = true ->
  (a_net a = NET_IPV4 \/ a_net a = NET_INTERNAL \/ (a_net a = NET_IPV6 /\ no_special_prefix (a_bytes a))) ->
  unser_v1 (ser_v1 a ++ rest) = UOk a rest.
Proof.
  intros W H. destruct (wf_forall _ W) as [L _]. destruct a as [net bytes]. simpl in *.
  unfold unser_v1, ser_v1. simpl a_net. simpl a_bytes.
  destruct H as [->|[->|[-> (P1&P2&P3)]]]; simpl in L.
  - assert (L16 : length (IPV4_IN_IPV6_PREFIX ++ bytes) = 16%nat) by (rewrite app_length, L; reflexivity).
    replace (16 <=? length ((IPV4_IN_IPV6_PREFIX ++ bytes) ++ rest))%nat with true
      by (symmetry; apply Nat.leb_le; rewrite app_length; lia).
    rewrite <- L16 at 1 2. rewrite firstn_app_len, skipn_app_len.
    unfold set_legacy_ipv6. rewrite has_prefix_app.
    change 12%nat with (length IPV4_IN_IPV6_PREFIX). rewrite skipn_app_len. reflexivity.
  - assert (L16 : length (INTERNAL_IN_IPV6_PREFIX ++ bytes) = 16%nat) by (rewrite app_length, L; reflexivity).
    replace (16 <=? length ((INTERNAL_IN_IPV6_PREFIX ++ bytes) ++ rest))%nat with true
      by (symmetry; apply Nat.leb_le; rewrite app_length; lia).
    rewrite <- L16 at 1 2. rewrite firstn_app_len, skipn_app_len.
    unfold set_legacy_ipv6.
    assert (E1 : has_prefix (INTERNAL_IN_IPV6_PREFIX ++ bytes) IPV4_IN_IPV6_PREFIX = false) by reflexivity.
    assert (E2 : has_prefix (INTERNAL_IN_IPV6_PREFIX ++ bytes) TORV2_IN_IPV6_PREFIX = false) by reflexivity.
    rewrite E1, E2, has_prefix_app.
    change 6%nat with (length INTERNAL_IN_IPV6_PREFIX). rewrite skipn_app_len. reflexivity.
  - replace (16 <=? length (bytes ++ rest))%nat with true by (symmetry; apply Nat.leb_le; rewrite app_length; lia).
    rewrite <- L at 1 2. rewrite firstn_app_len, skipn_app_len.
    unfold set_legacy_ipv6. rewrite P1, P2, P3. reflexivity.
Qed.

(* Tor, I2P and CJDNS addresses cannot be expressed in ADDRv1: they are written as 16 zero bytes, which read
   back as the invalid all-zero IPv6 address *)
Theorem v1_privacy_nets_become_invalid a rest :
  (a_net a = NET_ONION \/ a_net a = NET_I2P \/ a_net a = NET_CJDNS) ->
  unser_v1 (ser_v1 a ++ rest) = UOk addr_default rest /\ is_valid addr_default = false.
Proof. intros [H|[H|H]]; unfold ser_v1; rewrite H; split; reflexivity. Qed.

(* ADDRv2 (BIP155): every address type round-trips (IPv6 unless it is one of the ADDRv1 embeddings) *)
Theorem v2_roundtrip a rest : addr_wf a = true ->
  (a_net a = NET_IPV6 -> no_special_prefix (a_bytes a)) ->
  unser_v2 (ser_v2 a ++ rest) = UOk a rest.
Proof.
  intros W H. destruct (wf_forall _ W) as [L _]. destruct a as [net bytes]. simpl in *.
  unfold ser_v2. simpl a_net. simpl a_bytes.
  destruct net; simpl in L; rewrite ?L.
  - (* IPv4 *)
    change (bip155_id NET_IPV4 :: write_compact_size (Z.of_nat 4) ++ bytes) with (1 :: 4 :: bytes).
    cbn [app unser_v2 read_compact_size]. change (4 <? 253) with true. cbv iota.
    change (MAX_ADDRV2_SIZE <? 4) with false. cbv iota. change (set_net_from_bip155 1 4) with (Some (Some NET_IPV4)). cbv iota.
    change (Z.to_nat 4) with 4%nat.
    replace (4 <=? length (bytes ++ rest))%nat with true by (symmetry; apply Nat.leb_le; rewrite app_length; lia).
    rewrite <- L. rewrite firstn_app_len, skipn_app_len. reflexivity.
  - (* IPv6 *)
    destruct (H eq_refl) as (P1&P2&P3).
    change (bip155_id NET_IPV6 :: write_compact_size (Z.of_nat 16) ++ bytes) with (2 :: 16 :: bytes).
    cbn [app unser_v2 read_compact_size]. change (16 <? 253) with true. cbv iota.
    change (MAX_ADDRV2_SIZE <? 16) with false. cbv iota. change (set_net_from_bip155 2 16) with (Some (Some NET_IPV6)). cbv iota.
    change (Z.to_nat 16) with 16%nat.
    replace (16 <=? length (bytes ++ rest))%nat with true by (symmetry; apply Nat.leb_le; rewrite app_length; lia).
    rewrite <- L. rewrite firstn_app_len, skipn_app_len. rewrite P1, P2, P3. reflexivity.
  - (* Tor v3 *)
    change (bip155_id NET_ONION :: write_compact_size (Z.of_nat 32) ++ bytes) with (4 :: 32 :: bytes).
    cbn [app unser_v2 read_compact_size]. change (32 <? 253) with true. cbv iota.
    change (MAX_ADDRV2_SIZE <? 32) with false. cbv iota. change (set_net_from_bip155 4 32) with (Some (Some NET_ONION)). cbv iota.
    change (Z.to_nat 32) with 32%nat.
    replace (32 <=? length (bytes ++ rest))%nat with true by (symmetry; apply Nat.leb_le; rewrite app_length; lia).
    rewrite <- L. rewrite firstn_app_len, skipn_app_len. reflexivity.
  - (* I2P *)
    change (bip155_id NET_I2P :: write_compact_size (Z.of_nat 32) ++ bytes) with (5 :: 32 :: bytes).
    cbn [app unser_v2 read_compact_size]. change (32 <? 253) with true. cbv iota.
    change (MAX_ADDRV2_SIZE <? 32) with false. cbv iota. change (set_net_from_bip155 5 32) with (Some (Some NET_I2P)). cbv iota.
    change (Z.to_nat 32) with 32%nat.
    replace (32 <=? length (bytes ++ rest))%nat with true by (symmetry; apply Nat.leb_le; rewrite app_length; lia).
    rewrite <- L. rewrite firstn_app_len, skipn_app_len. reflexivity.
  - (* CJDNS *)
    change (bip155_id NET_CJDNS :: write_compact_size (Z.of_nat 16) ++ bytes) with (6 :: 16 :: bytes).
    cbn [app unser_v2 read_compact_size]. change (16 <? 253) with true. cbv iota.
    change (MAX_ADDRV2_SIZE <? 16) with false. cbv iota. change (set_net_from_bip155 6 16) with (Some (Some NET_CJDNS)). cbv iota.
    change (Z.to_nat 16) with 16%nat.
    replace (16 <=? length (bytes ++ rest))%nat with true by (symmetry; apply Nat.leb_le; rewrite app_length; lia).
    rewrite <- L. rewrite firstn_app_len, skipn_app_len. reflexivity.
  - (* internal: embedded in IPv6 *)
    unfold ser_v1. simpl a_net. simpl a_bytes.
    change ([2; 16] ++ INTERNAL_IN_IPV6_PREFIX ++ bytes) with (2 :: 16 :: INTERNAL_IN_IPV6_PREFIX ++ bytes).
    cbn [app unser_v2 read_compact_size]. change (16 <? 253) with true. cbv iota.
    change (MAX_ADDRV2_SIZE <? 16) with false. cbv iota. change (set_net_from_bip155 2 16) with (Some (Some NET_IPV6)). cbv iota.
    change (Z.to_nat 16) with 16%nat.
    assert (L16 : length (INTERNAL_IN_IPV6_PREFIX ++ bytes) = 16%nat) by (rewrite app_length, L; reflexivity).
    replace (16 <=? length ((INTERNAL_IN_IPV6_PREFIX ++ bytes) ++ rest))%nat with true
      by (symmetry; apply Nat.leb_le; rewrite app_length; lia).
    rewrite <- L16. rewrite firstn_app_len, skipn_app_len. rewrite has_prefix_app.
    change 6%nat with (length INTERNAL_IN_IPV6_PREFIX). rewrite skipn_app_len.
    f_equal. f_equal. apply firstn_all2. rewrite L. simpl. lia.
Qed.

(* BIP155 length rule: a known network id with any other length is a deserialisation failure *)
Theorem v2_length_rule id size s : In id [1; 2; 4; 5; 6] -> 0 <= size < 253 ->
  size <> (if id =? 1 then 4 else if id =? 2 then 16 else if id =? 4 then 32 else if id =? 5 then 32 else 16) ->
  unser_v2 (id :: size :: s) = UFail.
Proof.
  intros Hid Hs Hne. cbn [unser_v2 read_compact_size].
  replace (size <? 253) with true by (symmetry; apply Z.ltb_lt; lia).
  destruct (MAX_ADDRV2_SIZE <? size); [reflexivity|].
  assert (E : set_net_from_bip155 id size = None).
  { unfold set_net_from_bip155. simpl in Hid.
    destruct Hid as [<-|[<-|[<-|[<-|[<-|[]]]]]]; simpl in *;
      match goal with |- (if ?c then _ else _) = _ => destruct c eqn:E; [apply Z.eqb_eq in E; lia|reflexivity] end. }
  rewrite E. reflexivity.
Qed.

(* unknown network ids (including the retired TORv2 id 3) are skipped: the result is the invalid default address
   and the stream continues after the announced number of bytes *)
Theorem v2_unknown_id_skipped id size data rest : ~ In id [1; 2; 4; 5; 6] -> 0 <= size < 253 ->
  Z.of_nat (length data) = size ->
  unser_v2 (id :: size :: data ++ rest) = UOk addr_default rest /\ is_valid addr_default = false.
Proof.
  intros Hid Hs Hl. split; [|reflexivity]. cbn [unser_v2 read_compact_size].
  replace (size <? 253) with true by (symmetry; apply Z.ltb_lt; lia).
  replace (MAX_ADDRV2_SIZE <? size) with false by (symmetry; apply Z.ltb_ge; unfold MAX_ADDRV2_SIZE; lia).
  assert (E : set_net_from_bip155 id size = Some None).
  { unfold set_net_from_bip155. simpl in Hid.
    destruct (id =? 1) eqn:E1; [apply Z.eqb_eq in E1; exfalso; apply Hid; subst; tauto|].
    destruct (id =? 2) eqn:E2; [apply Z.eqb_eq in E2; exfalso; apply Hid; subst; tauto|].
    destruct (id =? 4) eqn:E4; [apply Z.eqb_eq in E4; exfalso; apply Hid; subst; tauto|].
    destruct (id =? 5) eqn:E5; [apply Z.eqb_eq in E5; exfalso; apply Hid; subst; tauto|].
    destruct (id =? 6) eqn:E6; [apply Z.eqb_eq in E6; exfalso; apply Hid; subst; tauto|].
    reflexivity. }
  rewrite E. replace (Z.to_nat size) with (length data) by lia.
  replace (length data <=? length (data ++ rest))%nat with true by (symmetry; apply Nat.leb_le; rewrite app_length; lia).
  rewrite skipn_app_len. reflexivity.
Qed.

(* addresses longer than MAX_ADDRV2_SIZE = 512 are a failure whatever the network id *)
Theorem v2_too_long id s1 n s2 : read_compact_size s1 = Some (n, s2) -> 512 < n -> unser_v2 (id :: s1) = UFail.
Proof.
  intros E H. cbn [unser_v2]. rewrite E. replace (MAX_ADDRV2_SIZE <? n) with true by (symmetry; apply Z.ltb_lt; unfold MAX_ADDRV2_SIZE; lia).
  reflexivity.
Qed.

(* an IPv6 payload that is an ADDRv1 embedding of IPv4 or TORv2 is not accepted in ADDRv2: it reads as the
   invalid default address *)
Theorem v2_ipv6_embeddings_rejected bytes rest : length bytes = 16%nat ->
  has_prefix bytes INTERNAL_IN_IPV6_PREFIX = false ->
  (has_prefix bytes IPV4_IN_IPV6_PREFIX = true \/ has_prefix bytes TORV2_IN_IPV6_PREFIX = true) ->
  unser_v2 (2 :: 16 :: bytes ++ rest) = UOk addr_default rest.
Proof.
  intros L P3 P. cbn [unser_v2 read_compact_size]. change (16 <? 253) with true. cbv iota.
  change (MAX_ADDRV2_SIZE <? 16) with false. cbv iota. change (set_net_from_bip155 2 16) with (Some (Some NET_IPV6)). cbv iota.
  change (Z.to_nat 16) with 16%nat.
  replace (16 <=? length (bytes ++ rest))%nat with true by (symmetry; apply Nat.leb_le; rewrite app_length; lia).
  rewrite <- L. rewrite firstn_app_len, skipn_app_len. rewrite P3.
  destruct P as [P|P]; rewrite P; [reflexivity|]. rewrite andb_false_r. reflexivity.
Qed.
