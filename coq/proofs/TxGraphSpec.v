(* C25: theorems about the specification itself (for all operation sequences): ancestors and
   descendants are mutually inverse, clusters are the equivalence classes of connectedness, what
   "oversized" means, staging commit = the staged operations applied to main, staging abort restores
   main, and the closure l_H is the transitive closure through removed transactions. *)
From Coq Require Import List ZArith Bool Arith Lia Relations.
From BV Require Import lib.Ints model.Fee model.Lin model.TxGraph proofs.LinLemmas proofs.TxGraphRel proofs.TxGraphCluster proofs.TxGraphInv.
Import ListNotations.

(* ------------------------------------------------------------------------------------------- *)
(* ancestors / descendants *)
Lemma q_ancestors_In lv x a : In a (q_ancestors lv x) <-> In x (ids lv) /\ (a = x \/ In (a, x) (would lv)).
Proof.
  unfold q_ancestors. destruct (live lv x) eqn:L.
  - apply live_In in L. simpl. rewrite ancs_strict_In. split; [intros [H | H]; auto | intros [_ [H | H]]; auto].
  - assert (~ In x (ids lv)) by (intros H; apply live_In in H; congruence). simpl. tauto.
Qed.
Lemma q_descendants_In lv x d : In d (q_descendants lv x) <-> In x (ids lv) /\ (d = x \/ In (x, d) (would lv)).
Proof.
  unfold q_descendants. destruct (live lv x) eqn:L.
  - apply live_In in L. simpl. rewrite descs_strict_In. split; [intros [H | H]; auto | intros [_ [H | H]]; auto].
  - assert (~ In x (ids lv)) by (intros H; apply live_In in H; congruence). simpl. tauto.
Qed.

(* d is a descendant of a  iff  a is an ancestor of d *)
Theorem anc_desc_dual lv a d : lv_wf lv -> (In d (q_descendants lv a) <-> In a (q_ancestors lv d)).
Proof.
  intros W. rewrite q_descendants_In, q_ancestors_In. pose proof (would_ends lv W) as E. split.
  - intros [La [-> | H]]; [auto |]. destruct (E _ _ H). auto.
  - intros [Ld [-> | H]]; [auto |]. destruct (E _ _ H). auto.
Qed.

(* ancestry is transitive, and every answer consists of live transactions *)
Theorem ancestors_transitive lv a b c : lv_wf lv ->
  In a (q_ancestors lv b) -> In b (q_ancestors lv c) -> In a (q_ancestors lv c).
Proof.
  intros W. rewrite !q_ancestors_In. intros [Lb Hab] [Lc Hbc]. split; [exact Lc |].
  destruct Hab as [-> | Hab]; [exact Hbc |]. destruct Hbc as [-> | Hbc]; [right; exact Hab |].
  right. eapply (would_trans lv W); eauto.
Qed.
Theorem ancestors_live lv x a : lv_wf lv -> In a (q_ancestors lv x) -> In a (ids lv).
Proof.
  intros W H. apply q_ancestors_In in H. destruct H as [L [-> | H]]; [exact L |]. apply (would_ends lv W _ _ H).
Qed.

(* in terms of the naive graph: the ancestors of x are x and the live transactions from which x is
   reachable through accepted dependencies, INCLUDING paths through transactions removed since *)
Theorem ancestors_naive lv x a : agrees lv ->
  (In a (q_ancestors lv x) <-> In x (ids lv) /\ (a = x \/ (In (a, x) (l_H lv) /\ In a (ids lv)))).
Proof.
  intros Ag. rewrite q_ancestors_In, (Ag a x), naive_rel_In. tauto.
Qed.
Theorem descendants_naive lv x d : agrees lv ->
  (In d (q_descendants lv x) <-> In x (ids lv) /\ (d = x \/ (In (x, d) (l_H lv) /\ In d (ids lv)))).
Proof.
  intros Ag. rewrite q_descendants_In, (Ag x d), naive_rel_In. tauto.
Qed.

(* l_H only ever grows, by the transitive closure with the accepted dependency; removals never touch it *)
Theorem H_dep lv p c a d : lv_wf lv ->
  Nat.eqb p c || rmem (c, p) (l_H lv) = false -> live lv p && live lv c = true ->
  (In (a, d) (l_H (lv_dep p c lv)) <-> tc ((p, c) :: l_H lv) a d).
Proof.
  intros W G L. unfold lv_dep. rewrite G, L. simpl. apply add_closed_tc. apply (wf_H_trans _ W).
Qed.
Theorem H_rm i lv : l_H (lv_rm i lv) = l_H lv.
Proof. reflexivity. Qed.

(* ------------------------------------------------------------------------------------------- *)
(* clusters *)
Lemma would_conn lv x y : lv_wf lv -> (conn (would lv) x y <-> conn (l_A lv ++ l_P lv) x y).
Proof. intros W. apply conn_tc. intros a b. apply (would_tc lv a b W). Qed.

Theorem cluster_iff lv x y : lv_wf lv -> In x (ids lv) ->
  (In y (q_cluster lv x) <-> In y (ids lv) /\ conn (l_A lv ++ l_P lv) x y).
Proof.
  intros W Hx. unfold q_cluster, lv_labels. rewrite (cluster_in_iff _ _ x y (would_ends lv W) Hx), (would_conn lv x y W). tauto.
Qed.

Theorem cluster_dead lv x : lv_wf lv -> ~ In x (ids lv) -> q_cluster lv x = [].
Proof.
  intros W Hx. unfold q_cluster, cluster_in.
  assert (F : forall y, same_cluster (lv_labels lv) x y = false).
  { intros y. destruct (same_cluster (lv_labels lv) x y) eqn:E; [| reflexivity].
    apply (same_cluster_live _ _ _ _ (would_ends lv W)) in E. tauto. }
  clear Hx. induction (ids lv) as [| y l IH]; simpl; [reflexivity | rewrite F; exact IH].
Qed.

(* the cluster relation is an equivalence on the live transactions *)
Theorem cluster_refl lv x : lv_wf lv -> In x (ids lv) -> In x (q_cluster lv x).
Proof. intros W Hx. apply cluster_iff; auto. split; [exact Hx | apply conn_refl]. Qed.
Theorem cluster_sym lv x y : lv_wf lv -> In x (ids lv) -> In y (q_cluster lv x) -> In x (q_cluster lv y).
Proof.
  intros W Hx H. apply (cluster_iff lv x y W Hx) in H. destruct H as [Hy C].
  apply cluster_iff; auto. split; [exact Hx | apply conn_sym, C].
Qed.
Theorem cluster_trans lv x y z : lv_wf lv -> In x (ids lv) ->
  In y (q_cluster lv x) -> In z (q_cluster lv y) -> In z (q_cluster lv x).
Proof.
  intros W Hx H1 H2. apply (cluster_iff lv x y W Hx) in H1. destruct H1 as [Hy C1].
  apply (cluster_iff lv y z W Hy) in H2. destruct H2 as [Hz C2].
  apply cluster_iff; auto. split; [exact Hz | eapply conn_trans; eauto].
Qed.
(* ancestors and descendants stay inside the cluster *)
Theorem ancestors_in_cluster lv x a : lv_wf lv -> In a (q_ancestors lv x) -> In a (q_cluster lv x).
Proof.
  intros W H. pose proof (ancestors_live lv x a W H) as La. apply q_ancestors_In in H. destruct H as [Lx H].
  apply cluster_iff; auto. split; [exact La |]. destruct H as [-> | H]; [apply conn_refl |].
  apply would_conn; [exact W |]. apply conn_sym, conn_step, H.
Qed.
Theorem descendants_in_cluster lv x d : lv_wf lv -> In d (q_descendants lv x) -> In d (q_cluster lv x).
Proof.
  intros W H. apply (anc_desc_dual lv x d W) in H. pose proof (ancestors_in_cluster lv d x W H) as C.
  apply q_ancestors_In in H. destruct H as [Ld _]. apply cluster_sym; assumption.
Qed.

(* CountDistinctClusters of one existing transaction is 1, of a non-existing one 0 *)
Theorem count_distinct_single lv x : lv_wf lv ->
  q_count_distinct lv [x] = if live lv x then 1%Z else 0%Z.
Proof.
  intros W. unfold q_count_distinct. simpl. rewrite app_nil_r.
  pose proof (labels_inv (ids lv) (would lv) (would_ends lv W)) as I. fold (lv_labels lv) in I.
  destruct (live lv x) eqn:L.
  - apply live_In in L. apply (li_dom _ _ _ I) in L. destruct (lab (lv_labels lv) x); [reflexivity | contradiction].
  - destruct (lab (lv_labels lv) x) eqn:E; [| reflexivity].
    assert (In x (ids lv)) by (apply (li_dom _ _ _ I); congruence). apply live_In in H. congruence.
Qed.

(* two existing transactions count as one cluster exactly when they are connected *)
Theorem count_distinct_pair lv x y : lv_wf lv -> In x (ids lv) -> In y (ids lv) ->
  (q_count_distinct lv [x; y] = 1%Z <-> conn (l_A lv ++ l_P lv) x y).
Proof.
  intros W Hx Hy. rewrite <- (would_conn lv x y W). rewrite <- (same_cluster_iff _ _ x y (would_ends lv W) Hx Hy).
  fold (lv_labels lv). unfold q_count_distinct, same_cluster. simpl. rewrite app_nil_r.
  destruct (labels_some _ _ x (would_ends lv W) Hx) as [lx Ex]. destruct (labels_some _ _ y (would_ends lv W) Hy) as [ly Ey].
  fold (lv_labels lv) in Ex, Ey. rewrite Ex, Ey. simpl.
  destruct (Nat.eq_dec ly lx) as [-> | N].
  - rewrite Nat.eqb_refl. destruct (in_dec Nat.eq_dec lx [lx]) as [_ | N]; [simpl; tauto | exfalso; apply N; left; reflexivity].
  - destruct (in_dec Nat.eq_dec lx [ly]) as [[E | []] | _]; [congruence |].
    simpl. assert (Nat.eqb lx ly = false) by (apply Nat.eqb_neq; congruence). rewrite H. split; [lia | discriminate].
Qed.

(* oversized = some cluster has more than max_cluster_count members or more than max_cluster_size total size *)
Theorem oversized_iff mc ms lv :
  oversized_calc mc ms lv = true <->
  exists x, In x (ids lv) /\
            let c := cluster_txs (l_txs lv) (lv_labels lv) x in
            (mc < Z.of_nat (length c) \/ ms < total_size c)%Z.
Proof.
  unfold oversized_calc, oversized_rel. fold (ids lv). fold (lv_labels lv). rewrite existsb_exists. split.
  - intros [t [Ht Ho]]. exists (fst t). split; [apply in_map; exact Ht |].
    unfold over_limits in Ho. apply orb_true_iff in Ho. simpl. rewrite !Z.ltb_lt in Ho. exact Ho.
  - intros [x [Hx Ho]]. apply in_map_iff in Hx. destruct Hx as [t [<- Ht]]. exists t. split; [exact Ht |].
    unfold over_limits. apply orb_true_iff. rewrite !Z.ltb_lt. exact Ho.
Qed.

(* the members of cluster_txs are exactly the cluster *)
Lemma cluster_txs_ids txs L x : map fst (cluster_txs txs L x) = cluster_in (map fst txs) L x.
Proof.
  unfold cluster_txs, cluster_in. induction txs as [| t l IH]; simpl; [reflexivity |].
  destruct (same_cluster L x (fst t)); simpl; [f_equal |]; exact IH.
Qed.

(* ------------------------------------------------------------------------------------------- *)
(* staging *)
Definition plain (o : op) : Prop :=
  match o with OStart | OCommit | OAbort => False | _ => True end.

(* s1 has a staging level that is exactly the main level of s2, which has none *)
Definition sim (s1 s2 : state) : Prop :=
  s_stag s1 = Some (s_main s2) /\ s_stag s2 = None /\ s_used s1 = s_used s2 /\ s_mc s1 = s_mc s2 /\ s_ms s1 = s_ms s2.

Lemma sim_step s1 s2 o : plain o -> sim s1 s2 -> sim (step s1 o) (step s2 o).
Proof.
  intros Pl [E1 [E2 [Eu [Emc Ems]]]].
  assert (T1 : top s1 = s_main s2) by (unfold top; rewrite E1; reflexivity).
  assert (T2 : top s2 = s_main s2) by (unfold top; rewrite E2; reflexivity).
  destruct o as [i fee size | i | p c | i fee | i | | | | removed | |]; simpl in *; try contradiction.
  - rewrite Eu. destruct (memn i (s_used s2) || (size <=? 0)%Z); [repeat split; assumption |].
    unfold with_top. rewrite E1, E2, T1, T2. unfold sim. simpl. rewrite Eu. repeat split; assumption.
  - unfold with_top. rewrite E1, E2, T1, T2. simpl. repeat split; assumption.
  - unfold with_top. rewrite E1, E2, T1, T2. simpl. repeat split; assumption.
  - rewrite E1, E2. simpl. repeat split; assumption.
  - rewrite E1, E2. simpl. repeat split; assumption.
  - unfold with_top. rewrite E1, E2, T1, T2. simpl. repeat split; assumption.
  - unfold normalize, main_oversized. rewrite E1, E2, Emc, Ems. simpl. repeat split; assumption.
  - unfold normalize, main_oversized. rewrite E1, E2, Emc, Ems. simpl. repeat split; assumption.
Qed.

Lemma sim_run l : forall s1 s2, Forall plain l -> sim s1 s2 -> sim (run s1 l) (run s2 l).
Proof.
  induction l as [| o l IH]; intros s1 s2 F S; [exact S |]. inversion F; subst. simpl.
  apply IH; [assumption | apply sim_step; assumption].
Qed.

Lemma step_commit_some s l : s_stag s = Some l -> step s OCommit = mkState (s_mc s) (s_ms s) l None false (s_used s).
Proof. intros H. simpl. rewrite H. reflexivity. Qed.
Lemma step_abort_some s l : s_stag s = Some l -> step s OAbort = mkState (s_mc s) (s_ms s) (s_main s) None false (s_used s).
Proof. intros H. simpl. rewrite H. reflexivity. Qed.
Lemma step_start_none s : s_stag s = None ->
  step s OStart = let ov := oversized_calc (s_mc s) (s_ms s) (s_main s) in
                  let m := lv_apply ov (s_main s) in mkState (s_mc s) (s_ms s) m (Some m) ov (s_used s).
Proof. intros H. simpl. rewrite H. reflexivity. Qed.

(* CommitStaging after StartStaging applies exactly the staged operations to main:
   start ; ops ; commit   leaves the same main graph (and the same set of used Refs) as running ops
   directly on main (after the dependency application StartStaging performs). *)
Theorem staging_commit s ops : s_stag s = None -> Forall plain ops ->
  let r1 := step (run (step s OStart) ops) OCommit in
  let r2 := run (normalize s) ops in
  s_main r1 = s_main r2 /\ s_stag r1 = None /\ s_stag r2 = None /\ s_used r1 = s_used r2.
Proof.
  intros E F r1 r2.
  assert (S0 : sim (step s OStart) (normalize s)).
  { rewrite (step_start_none s E). unfold sim, normalize, main_oversized. rewrite E. simpl. repeat split; reflexivity. }
  pose proof (sim_run ops _ _ F S0) as [E1 [E2 [Eu _]]].
  subst r1 r2. rewrite (step_commit_some _ _ E1). simpl. repeat split; assumption.
Qed.

(* what reaches main while a staging level exists: fee changes and Ref destructions *)
Definition main_effect (lv : level) (o : op) : level :=
  match o with
  | OFee i fee => lv_fee i fee lv
  | ODestroy i => lv_rm i lv
  | _ => lv
  end.

Lemma level_eta lv : l_P lv = [] -> mkLevel (l_txs lv) (l_A lv) [] (l_H lv) = lv.
Proof. destruct lv. simpl. intros ->. reflexivity. Qed.

Lemma staged_step s o : plain o -> s_stag s <> None -> (s_sticky s = false -> l_P (s_main s) = []) ->
  s_stag (step s o) <> None /\ (s_sticky (step s o) = false -> l_P (s_main (step s o)) = []) /\
  s_main (step s o) = main_effect (s_main s) o.
Proof.
  intros Pl E Hp. destruct (s_stag s) as [l |] eqn:El; [| contradiction].
  destruct o as [i fee size | i | p c | i fee | i | | | | removed | |]; simpl in *; try contradiction;
    unfold with_top; rewrite ?El; simpl; try (split; [discriminate | split; [exact Hp | reflexivity]]).
  - destruct (memn i (s_used s) || (size <=? 0)%Z); rewrite ?El; simpl; (split; [congruence | split; [exact Hp | reflexivity]]).
  - split; [discriminate |]. split; [| reflexivity]. intros Hs. rewrite (Hp Hs). reflexivity.
  - unfold main_oversized. rewrite El. split; [discriminate |]. unfold lv_apply. destruct (s_sticky s) eqn:St.
    + split; [discriminate | reflexivity].
    + split; [reflexivity |]. unfold would. rewrite (Hp eq_refl). simpl. apply level_eta. apply Hp. reflexivity.
  - unfold main_oversized. rewrite El. split; [discriminate |]. unfold lv_apply. destruct (s_sticky s) eqn:St.
    + split; [discriminate | reflexivity].
    + split; [reflexivity |]. unfold would. rewrite (Hp eq_refl). simpl. apply level_eta. apply Hp. reflexivity.
Qed.

Lemma staged_run l : forall s, Forall plain l -> s_stag s <> None -> (s_sticky s = false -> l_P (s_main s) = []) ->
  s_stag (run s l) <> None /\ s_main (run s l) = fold_left main_effect l (s_main s).
Proof.
  induction l as [| o l IH]; intros s F E Hp; [split; [exact E | reflexivity] |].
  inversion F; subst. simpl. destruct (staged_step s o H1 E Hp) as [E' [Hp' Hm]].
  destruct (IH (step s o) H2 E' Hp') as [E'' Hm']. split; [exact E'' |]. rewrite Hm', Hm. reflexivity.
Qed.

(* AbortStaging restores main exactly: after  start ; ops ; abort  the main graph is the one
   StartStaging left, changed only by the operations documented to act on both levels
   (SetTransactionFee, Ref destruction); no staged addition, removal, dependency or Trim leaks. *)
Theorem staging_abort s ops : s_stag s = None -> Forall plain ops ->
  let r := step (run (step s OStart) ops) OAbort in
  s_main r = fold_left main_effect ops (s_main (normalize s)) /\ s_stag r = None.
Proof.
  intros E F r. subst r. set (s1 := step s OStart).
  assert (E1 : s_stag s1 <> None) by (unfold s1; rewrite (step_start_none s E); simpl; discriminate).
  assert (Hp : s_sticky s1 = false -> l_P (s_main s1) = []).
  { unfold s1. rewrite (step_start_none s E). simpl. unfold lv_apply. intros ->. reflexivity. }
  assert (Hm : s_main s1 = s_main (normalize s)).
  { unfold s1. rewrite (step_start_none s E). unfold normalize, main_oversized. rewrite E. reflexivity. }
  destruct (staged_run ops s1 F E1 Hp) as [E2 Hm2].
  destruct (s_stag (run s1 ops)) as [l |] eqn:Er; [| contradiction]. rewrite (step_abort_some _ _ Er). simpl.
  rewrite Hm2, Hm. split; reflexivity.
Qed.

Corollary staging_abort_exact s ops : s_stag s = None -> Forall plain ops ->
  Forall (fun o => match o with OFee _ _ | ODestroy _ => False | _ => True end) ops ->
  s_main (step (run (step s OStart) ops) OAbort) = s_main (normalize s).
Proof.
  intros E F G. destruct (staging_abort s ops E F) as [H _]. rewrite H. clear H F.
  induction ops as [| o l IH]; [reflexivity |]. inversion G; subst. simpl.
  destruct o; simpl in *; try contradiction; apply IH; assumption.
Qed.
