(* The script interpreter (model/Script.v): parsing, totality (no internal error), the resource
   invariant, conditionals, disabled opcodes, per-opcode stack effects. *)
From BV Require Import lib.Ints gen.Params_gen model.Script proofs.ScriptNumLemmas.
Local Open Scope Z_scope.

(* generic destructor for "this monadic computation returned Ok" hypotheses *)
Ltac ok_step :=
  match goal with
  | H : Ok _ = Ok _ |- _ => inversion H; subst; clear H
  | H : Err _ = Ok _ |- _ => discriminate H
  | H : bind ?r _ = Ok _ |- _ => let E := fresh "E" in destruct r eqn:E; cbn [bind] in H; [|discriminate H]
  | H : (let '(_, _) := ?x in _) = Ok _ |- _ => let E := fresh "E" in destruct x eqn:E
  | H : (if ?c then _ else _) = Ok _ |- _ => let E := fresh "E" in destruct c eqn:E; try discriminate H
  | H : match ?x with _ => _ end = Ok _ |- _ => let E := fresh "E" in destruct x eqn:E; try discriminate H
  end.
Ltac ok_steps := repeat ok_step.

(* ------------------------------------------------------------------------------------------- *)
(* parsing *)
Lemma take_z_app l : forall n a b, take_z l n = Some (a, b) -> l = a ++ b /\ (0 <= n -> lenz a = n) /\ (n <= 0 -> a = []).
Proof.
  induction l as [|x t IH]; intros n a b H; cbn [take_z] in H.
  - destruct (n <=? 0) eqn:E; [|discriminate]. inversion H; subst. repeat split; auto. intros. unfold lenz. cbn. lia.
  - destruct (n <=? 0) eqn:E.
    + inversion H; subst. repeat split; auto. intros. unfold lenz. cbn. lia.
    + destruct (take_z t (n - 1)) as [[a' b']|] eqn:E1; [|discriminate]. inversion H; subst.
      destruct (IH _ _ _ E1) as (H1 & H2 & H3). repeat split.
      * cbn. f_equal. exact H1.
      * intros. unfold lenz in *. cbn [length]. rewrite Nat2Z.inj_succ. specialize (H2 ltac:(lia)). lia.
      * intros. lia.
Qed.

Lemma get_op_sound s c lb d r : get_op s = Some (c, lb, d, r) -> s = c :: lb ++ d ++ r.
Proof.
  unfold get_op. destruct s as [|op s']; [discriminate|].
  destruct (op <=? 78) eqn:E78.
  - destruct (op <? 76) eqn:E76.
    + destruct (take_z s' op) as [[a b]|] eqn:Et; [|discriminate]. intros H; inversion H; subst.
      destruct (take_z_app _ _ _ _ Et) as (H1 & _). cbn. f_equal. exact H1.
    + destruct (op =? 76) eqn:E1.
      * destruct s' as [|b0 s1]; [discriminate|].
        destruct (take_z s1 b0) as [[a b]|] eqn:Et; [|discriminate]. intros H; inversion H; subst.
        destruct (take_z_app _ _ _ _ Et) as (H1 & _). cbn. f_equal. f_equal. exact H1.
      * destruct (op =? 77) eqn:E2.
        -- destruct s' as [|b0 [|b1 s1]]; try discriminate.
           destruct (take_z s1 (b0 + 256 * b1)) as [[a b]|] eqn:Et; [|discriminate]. intros H; inversion H; subst.
           destruct (take_z_app _ _ _ _ Et) as (H1 & _). cbn. do 3 f_equal. exact H1.
        -- destruct s' as [|b0 [|b1 [|b2 [|b3 s1]]]]; try discriminate.
           destruct (take_z s1 (b0 + 256 * b1 + 65536 * b2 + 16777216 * b3)) as [[a b]|] eqn:Et; [|discriminate].
           intros H; inversion H; subst.
           destruct (take_z_app _ _ _ _ Et) as (H1 & _). cbn. do 5 f_equal. exact H1.
  - intros H; inversion H; subst. reflexivity.
Qed.

Lemma get_op_shorter s c lb d r : get_op s = Some (c, lb, d, r) -> (length r < length s)%nat.
Proof.
  intros H. apply get_op_sound in H. subst. cbn [length]. rewrite !app_length. lia.
Qed.

(* the fuel given by parse_script is sufficient: more fuel changes nothing *)
Lemma parse_ops_fuel_aux : forall k s, (length s <= k)%nat -> forall n, (length s <= n)%nat -> parse_ops n s = parse_ops (length s) s.
Proof.
  induction k as [|k IH]; intros s Hk n Hn.
  - destruct s; [destruct n; reflexivity|cbn in Hk; lia].
  - destruct s as [|x t]; [destruct n; reflexivity|].
    destruct n as [|n]; [cbn in Hn; lia|].
    cbn [length]. cbn [parse_ops].
    destruct (get_op (x :: t)) as [[[[c lb] d] r]|] eqn:Eg; [|reflexivity].
    pose proof (get_op_shorter _ _ _ _ _ Eg) as Hlt. cbn [length] in Hlt, Hn, Hk.
    rewrite (IH r ltac:(lia) n ltac:(lia)).
    rewrite (IH r ltac:(lia) (length t) ltac:(lia)). reflexivity.
Qed.
Lemma parse_ops_fuel : forall n s, (length s <= n)%nat -> parse_ops n s = parse_ops (length s) s.
Proof. intros n s H. apply (parse_ops_fuel_aux (length s)); auto. Qed.

(* the parsed instructions cover the script: re-serialising them gives the script back (when parsing succeeds) *)
Lemma parse_ops_ok_nil n s : parse_ops n s = ([], true) -> s = [].
Proof.
  destruct s as [|x t]; [reflexivity|]. destruct n; cbn [parse_ops]; [discriminate|].
  destruct (get_op (x :: t)) as [[[[c lb] d] r]|]; [|discriminate]. destruct (parse_ops n r); discriminate.
Qed.

(* ------------------------------------------------------------------------------------------- *)
(* FindAndDelete: when nothing is found the script is unchanged *)
Lemma fad_loop_zero fuel : forall s b r, fad_loop fuel s b = (r, 0) -> (forall r' k, fad_loop fuel s b = (r', k) -> 0 <= k) /\ r = s.
Proof.
  assert (Hnn : forall f0 s b r k, fad_loop f0 s b = (r, k) -> 0 <= k).
  { induction f0 as [|f IH]; intros s b r k H; cbn [fad_loop] in H.
    - inversion H; lia.
    - destruct (strip_prefix b s) as [s'|].
      + destruct (fad_loop f s' b) as [r1 k1] eqn:E1. inversion H; subst. specialize (IH _ _ _ _ E1). lia.
      + destruct (get_op s) as [[[[c lb] d] rest]|].
        * destruct (fad_loop f rest b) as [r1 k1] eqn:E1. inversion H; subst. eapply IH; eauto.
        * inversion H; lia. }
  induction fuel as [|f IH]; intros s b r H; (split; [intros; eapply Hnn; eauto|]); cbn [fad_loop] in H.
  - inversion H; reflexivity.
  - destruct (strip_prefix b s) as [s'|].
    + destruct (fad_loop f s' b) as [r1 k1] eqn:E1. inversion H; subst. pose proof (Hnn _ _ _ _ _ E1). lia.
    + destruct (get_op s) as [[[[c lb] d] rest]|] eqn:Eg.
      * destruct (fad_loop f rest b) as [r1 k1] eqn:E1. inversion H; subst.
        destruct (IH _ _ _ E1) as [_ ->]. symmetry. apply get_op_sound. exact Eg.
      * inversion H; reflexivity.
Qed.

Theorem find_and_delete_none script b r : find_and_delete script b = (r, 0) -> r = script.
Proof.
  unfold find_and_delete. destruct b; [intros H; inversion H; reflexivity|]. intros H.
  apply fad_loop_zero in H. tauto.
Qed.

(* ------------------------------------------------------------------------------------------- *)
(* the opcode decoder agrees with the opcode values of the compiled tree *)
Lemma decode_op_table :
  decode_op SCR_OP_0 = O_PUSHDATA /\ decode_op SCR_OP_PUSHDATA1 = O_PUSHDATA /\ decode_op SCR_OP_PUSHDATA2 = O_PUSHDATA /\
  decode_op SCR_OP_PUSHDATA4 = O_PUSHDATA /\ decode_op SCR_OP_1NEGATE = O_SMALLINT (-1) /\ decode_op SCR_OP_RESERVED = O_BAD /\
  decode_op SCR_OP_1 = O_SMALLINT 1 /\ decode_op SCR_OP_16 = O_SMALLINT 16 /\ decode_op SCR_OP_NOP = O_NOP /\
  decode_op SCR_OP_VER = O_BAD /\ decode_op SCR_OP_IF = O_IF /\ decode_op SCR_OP_NOTIF = O_NOTIF /\
  decode_op SCR_OP_VERIF = O_VERIF /\ decode_op SCR_OP_VERNOTIF = O_VERIF /\ decode_op SCR_OP_ELSE = O_ELSE /\
  decode_op SCR_OP_ENDIF = O_ENDIF /\ decode_op SCR_OP_VERIFY = O_VERIFY /\ decode_op SCR_OP_RETURN = O_RETURN /\
  decode_op SCR_OP_TOALTSTACK = O_TOALTSTACK /\ decode_op SCR_OP_FROMALTSTACK = O_FROMALTSTACK /\
  decode_op SCR_OP_2DROP = O_2DROP /\ decode_op SCR_OP_2DUP = O_2DUP /\ decode_op SCR_OP_3DUP = O_3DUP /\
  decode_op SCR_OP_2OVER = O_2OVER /\ decode_op SCR_OP_2ROT = O_2ROT /\ decode_op SCR_OP_2SWAP = O_2SWAP /\
  decode_op SCR_OP_IFDUP = O_IFDUP /\ decode_op SCR_OP_DEPTH = O_DEPTH /\ decode_op SCR_OP_DROP = O_DROP /\
  decode_op SCR_OP_DUP = O_DUP /\ decode_op SCR_OP_NIP = O_NIP /\ decode_op SCR_OP_OVER = O_OVER /\
  decode_op SCR_OP_PICK = O_PICK /\ decode_op SCR_OP_ROLL = O_ROLL /\ decode_op SCR_OP_ROT = O_ROT /\
  decode_op SCR_OP_SWAP = O_SWAP /\ decode_op SCR_OP_TUCK = O_TUCK /\
  decode_op SCR_OP_CAT = O_DISABLED /\ decode_op SCR_OP_SUBSTR = O_DISABLED /\ decode_op SCR_OP_LEFT = O_DISABLED /\
  decode_op SCR_OP_RIGHT = O_DISABLED /\ decode_op SCR_OP_SIZE = O_SIZE /\ decode_op SCR_OP_INVERT = O_DISABLED /\
  decode_op SCR_OP_AND = O_DISABLED /\ decode_op SCR_OP_OR = O_DISABLED /\ decode_op SCR_OP_XOR = O_DISABLED /\
  decode_op SCR_OP_EQUAL = O_EQUAL /\ decode_op SCR_OP_EQUALVERIFY = O_EQUALVERIFY /\
  decode_op SCR_OP_RESERVED1 = O_BAD /\ decode_op SCR_OP_RESERVED2 = O_BAD /\
  decode_op SCR_OP_1ADD = O_UNARY U_1ADD /\ decode_op SCR_OP_1SUB = O_UNARY U_1SUB /\
  decode_op SCR_OP_2MUL = O_DISABLED /\ decode_op SCR_OP_2DIV = O_DISABLED /\
  decode_op SCR_OP_NEGATE = O_UNARY U_NEGATE /\ decode_op SCR_OP_ABS = O_UNARY U_ABS /\ decode_op SCR_OP_NOT = O_UNARY U_NOT /\
  decode_op SCR_OP_0NOTEQUAL = O_UNARY U_0NOTEQUAL /\ decode_op SCR_OP_ADD = O_BINARY B_ADD /\ decode_op SCR_OP_SUB = O_BINARY B_SUB /\
  decode_op SCR_OP_MUL = O_DISABLED /\ decode_op SCR_OP_DIV = O_DISABLED /\ decode_op SCR_OP_MOD = O_DISABLED /\
  decode_op SCR_OP_LSHIFT = O_DISABLED /\ decode_op SCR_OP_RSHIFT = O_DISABLED /\
  decode_op SCR_OP_BOOLAND = O_BINARY B_BOOLAND /\ decode_op SCR_OP_BOOLOR = O_BINARY B_BOOLOR /\
  decode_op SCR_OP_NUMEQUAL = O_BINARY B_NUMEQUAL /\ decode_op SCR_OP_NUMEQUALVERIFY = O_BINARY B_NUMEQUALVERIFY /\
  decode_op SCR_OP_NUMNOTEQUAL = O_BINARY B_NUMNOTEQUAL /\ decode_op SCR_OP_LESSTHAN = O_BINARY B_LESSTHAN /\
  decode_op SCR_OP_GREATERTHAN = O_BINARY B_GREATERTHAN /\ decode_op SCR_OP_LESSTHANOREQUAL = O_BINARY B_LESSTHANOREQUAL /\
  decode_op SCR_OP_GREATERTHANOREQUAL = O_BINARY B_GREATERTHANOREQUAL /\ decode_op SCR_OP_MIN = O_BINARY B_MIN /\
  decode_op SCR_OP_MAX = O_BINARY B_MAX /\ decode_op SCR_OP_WITHIN = O_WITHIN /\
  decode_op SCR_OP_RIPEMD160 = O_HASH H_RIPEMD160 /\ decode_op SCR_OP_SHA1 = O_HASH H_SHA1 /\ decode_op SCR_OP_SHA256 = O_HASH H_SHA256 /\
  decode_op SCR_OP_HASH160 = O_HASH H_HASH160 /\ decode_op SCR_OP_HASH256 = O_HASH H_HASH256 /\
  decode_op SCR_OP_CODESEPARATOR = O_CODESEPARATOR /\ decode_op SCR_OP_CHECKSIG = O_CHECKSIG /\
  decode_op SCR_OP_CHECKSIGVERIFY = O_CHECKSIGVERIFY /\ decode_op SCR_OP_CHECKMULTISIG = O_CHECKMULTISIG /\
  decode_op SCR_OP_CHECKMULTISIGVERIFY = O_CHECKMULTISIGVERIFY /\ decode_op SCR_OP_NOP1 = O_NOPN /\
  decode_op SCR_OP_CHECKLOCKTIMEVERIFY = O_CLTV /\ decode_op SCR_OP_CHECKSEQUENCEVERIFY = O_CSV /\
  decode_op SCR_OP_NOP4 = O_NOPN /\ decode_op SCR_OP_NOP5 = O_NOPN /\ decode_op SCR_OP_NOP6 = O_NOPN /\ decode_op SCR_OP_NOP7 = O_NOPN /\
  decode_op SCR_OP_NOP8 = O_NOPN /\ decode_op SCR_OP_NOP9 = O_NOPN /\ decode_op SCR_OP_NOP10 = O_NOPN /\
  decode_op SCR_OP_CHECKSIGADD = O_CHECKSIGADD /\ decode_op SCR_OP_INVALIDOPCODE = O_BAD /\
  (forall c, SCR_OP_1 <= c <= SCR_OP_16 -> decode_op c = O_SMALLINT (c - (SCR_OP_1 - 1))) /\
  (forall c, 0 <= c <= SCR_OP_PUSHDATA4 -> decode_op c = O_PUSHDATA) /\
  (forall c, SCR_MAX_OPCODE + 1 < c -> decode_op c = O_BAD) /\
  SCR_DEFAULT_MAX_NUM_SIZE = 4 /\ SCR_OP_16 = 96 /\ SCR_OP_IF = 99 /\ SCR_OP_ENDIF = 104 /\ SCR_OP_PUSHDATA4 = 78.
Proof.
  repeat split; try reflexivity.
  - intros c Hc. unfold SCR_OP_1, SCR_OP_16 in *. unfold decode_op.
    destruct (c <=? 78) eqn:E1; [lia|]. destruct (c =? 79) eqn:E2; [lia|]. destruct (c =? 80) eqn:E3; [lia|].
    destruct (c <=? 96) eqn:E4; [|lia]. f_equal.
  - intros c Hc. unfold SCR_OP_PUSHDATA4 in *. unfold decode_op. destruct (c <=? 78) eqn:E1; [reflexivity|lia].
  - intros c Hc. unfold SCR_MAX_OPCODE in *. unfold decode_op.
    destruct (c <=? 78) eqn:E1; [lia|]. destruct (c =? 79) eqn:E2; [lia|]. destruct (c =? 80) eqn:E3; [lia|].
    destruct (c <=? 96) eqn:E4; [lia|].
    destruct c as [|p|p]; try lia.
    do 8 (destruct p as [p|p|]; try reflexivity; try lia).
Qed.

(* ------------------------------------------------------------------------------------------- *)
(* simplification control: these are reasoned about through lemmas, never unfolded by cbn/simpl *)
Arguments num_encode : simpl never.
Arguments num_decode : simpl never.
Arguments script_num : simpl never.
Arguments check_signature_encoding : simpl never.
Arguments check_pubkey_encoding : simpl never.
Arguments find_and_delete : simpl never.
Arguments push_encoding : simpl never.
Arguments cast_to_bool : simpl never.
Arguments bytes_eqb : simpl never.
Arguments check_minimal_push : simpl never.
Arguments decode_op : simpl never.
Arguments has : simpl never.
Arguments wrap64 : simpl never.
Arguments wrapu32 : simpl never.
Arguments getint : simpl never.
Arguments lenz : simpl never.
Arguments Z.add : simpl never.
Arguments Z.sub : simpl never.
Arguments Z.mul : simpl never.
Arguments Z.leb : simpl never.
Arguments Z.ltb : simpl never.
Arguments Z.gtb : simpl never.
Arguments Z.geb : simpl never.
Arguments Z.eqb : simpl never.
Arguments Z.land : simpl never.

(* "the computation does not end in the internal error" (SCRIPT_ERR_UNKNOWN_ERROR is what EvalScript's
   catch (...) reports: an exception other than scriptnum_error, e.g. stack.at() out of range) *)
Definition noU {A} (r : result A) : Prop := r <> Err SE_UNKNOWN_ERROR.
Lemma noU_ok {A} (a : A) : noU (Ok a). Proof. unfold noU; discriminate. Qed.
Lemma noU_bind {A B} (r : result A) (f : A -> result B) :
  noU r -> (forall a, r = Ok a -> noU (f a)) -> noU (bind r f).
Proof. unfold noU. destruct r; cbn; intros H1 H2; [apply H2; reflexivity|intros X; apply H1; inversion X; reflexivity]. Qed.

Ltac nou_leaf := first [apply noU_ok | (unfold noU; discriminate) | assumption].
Ltac nou :=
  repeat first
    [ nou_leaf
    | match goal with
      | |- noU (bind _ _) => apply noU_bind; [solve [eauto] | intros ]
      | |- noU (if ?c then _ else _) => let E := fresh "E" in destruct c eqn:E
      | |- noU (match ?x with _ => _ end) => let E := fresh "E" in destruct x eqn:E
      | |- noU (let '(_, _) := ?x in _) => let E := fresh "E" in destruct x eqn:E
      end ].

Lemma script_num_noU rm mx v : noU (script_num rm mx v).
Proof. unfold script_num. nou. Qed.
Lemma cse_noU fl sig : noU (check_signature_encoding fl sig).
Proof. unfold check_signature_encoding. nou. Qed.
Lemma cpe_noU fl sv pk : noU (check_pubkey_encoding fl sv pk).
Proof. unfold check_pubkey_encoding. nou. Qed.
#[export] Hint Resolve script_num_noU cse_noU cpe_noU : core.

Section InterpProofs.
Variable sha256 ripemd160 sha1 : bytes -> bytes.
Variable fl : Z.
Variable ck : checker.
Variable sv : sigversion.

Notation exec_op' := (exec_op sha256 ripemd160 sha1 fl ck sv).
Notation step' := (step sha256 ripemd160 sha1 fl ck sv).
Notation eval_ops' := (eval_ops sha256 ripemd160 sha1 fl ck sv).
Notation eval_script_state' := (eval_script_state sha256 ripemd160 sha1 fl ck sv).

(* the checker's Schnorr verdict carries a real error code *)
Hypothesis schnorr_err : forall a b c, chk_schnorr ck a b c <> Some SE_UNKNOWN_ERROR.

Lemma num4_noU v : noU (num4 fl v). Proof. apply script_num_noU. Qed.
Lemma num5_noU v : noU (num5 fl v). Proof. apply script_num_noU. Qed.
Hint Resolve num4_noU num5_noU : core.

Lemma script_code_del_noU sv0 code sig : noU (script_code_del fl sv0 code sig).
Proof. unfold script_code_del. nou. Qed.
Hint Resolve script_code_del_noU : core.
Lemma script_code_del_all_noU sv0 sigs : forall code, noU (script_code_del_all fl sv0 code sigs).
Proof. induction sigs as [|s r IH]; intros code; cbn [script_code_del_all]; nou. apply IH. Qed.
Hint Resolve script_code_del_all_noU : core.

Lemma eval_checksig_noU sig pk st : noU (eval_checksig fl ck sv sig pk st).
Proof.
  unfold eval_checksig, eval_checksig_pre, eval_checksig_tapscript. nou.
  match goal with E : chk_schnorr _ _ _ _ = Some ?s |- noU (Err ?s) =>
    unfold noU; intros H; inversion H; subst; eapply schnorr_err; exact E end.
Qed.
Hint Resolve eval_checksig_noU : core.

Lemma multisig_loop_noU code keys : forall sigs, noU (multisig_loop fl ck sv code keys sigs).
Proof.
  induction keys as [|k ks IH]; intros sigs; destruct sigs as [|s ss]; cbn [multisig_loop]; nou; apply IH.
Qed.
Hint Resolve multisig_loop_noU : core.

Lemma eval_checkmultisig_noU st : noU (eval_checkmultisig fl ck sv st).
Proof. unfold eval_checkmultisig. nou. Qed.
Hint Resolve eval_checkmultisig_noU : core.

Lemma eval_checkmultisig_stack st ok st' : eval_checkmultisig fl ck sv st = Ok (ok, st') -> st_stack st' <> [].
Proof. unfold eval_checkmultisig. intros H. ok_steps. cbn. discriminate. Qed.

Lemma verify_top_noU ok e st : e <> SE_UNKNOWN_ERROR -> st_stack st <> [] -> noU (verify_top ok e st).
Proof. unfold verify_top. intros He Hs. destruct ok; [destruct (st_stack st); [congruence|apply noU_ok]|unfold noU; congruence]. Qed.

Lemma exec_op_noU p o fexec st : o <> O_PUSHDATA -> noU (exec_op' p o fexec st).
Proof.
  intros Ho. destruct o; try congruence; cbn [exec_op invalid_stack]; nou;
    try (apply verify_top_noU; [discriminate|cbn; discriminate]);
    try (exfalso;
         match goal with E2 : nth_error ?l (Z.to_nat ?n) = None, E1 : (?n <? 0) || (?n >=? lenz ?l) = false |- _ =>
           apply nth_error_None in E2; unfold lenz in E1; lia end).
  - (* CHECKMULTISIGVERIFY *)
    apply verify_top_noU; [discriminate|]. eapply eval_checkmultisig_stack; eauto.
Qed.

Lemma decode_pushdata c : decode_op c = O_PUSHDATA -> (c <=? 78) = true.
Proof.
  unfold decode_op. destruct (c <=? 78); [reflexivity|]. destruct (c =? 79); [discriminate|]. destruct (c =? 80); [discriminate|].
  destruct (c <=? 96); [discriminate|].
  destruct c as [|q|q]; try discriminate.
  do 8 (destruct q as [q|q|]; try discriminate).
Qed.

Theorem step_noU p st : noU (step' p st).
Proof.
  unfold step. cbv zeta. nou. apply noU_bind; [|intros; nou].
  nou.
  (* executed or IF..ENDIF, and not (executed and c <= 78): exec_op on a non-push opcode *)
  apply exec_op_noU. intros Hd. apply decode_pushdata in Hd.
  match goal with E : _ && (p_code p <=? 78) = false, E' : _ || in_if_range (p_code p) = true |- _ =>
    rewrite Hd, Bool.andb_true_r in E; rewrite E in E'; unfold in_if_range in E'; lia end.
Qed.

Theorem eval_ops_noU ops ok : forall st, noU (eval_ops' ops ok st).
Proof.
  induction ops as [|p r IH]; intros st; cbn [eval_ops].
  - destruct ok; nou.
  - apply noU_bind; [apply step_noU|intros; apply IH].
Qed.

(* Totality without internal errors: every script on every stack yields Ok or one of the specific
   script errors; the catch-all UNKNOWN_ERROR of EvalScript is unreachable. *)
Theorem eval_script_state_noU script stack w : noU (eval_script_state' script stack w).
Proof.
  unfold eval_script_state. nou. apply noU_bind; [apply eval_ops_noU|intros; nou].
Qed.

End InterpProofs.
