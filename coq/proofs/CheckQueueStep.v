(* C14 -- every step preserves the invariant; the statements about Complete(). *)
From Coq Require Import Permutation.
From BV Require Import lib.Ints model.CheckQueue proofs.CheckQueueInv.
Local Open Scope nat_scope.

Lemma Inv_init V n : Inv V (init n).
Proof.
  assert (Hw : flat_map cs_of (repeat {| t_pc := PNew; t_local := None |} n) = []).
  { induction n; simpl; auto. }
  split; [constructor|]; unfold init, threads, inflight; simpl; try rewrite Hw.
  - reflexivity.
  - intros c [].
  - intros c [[]|[[]|[]]].
  - intros r H; discriminate.
  - intros _ c [].
  - constructor; [exact I|]. apply Forall_forall. intros x Hx. apply repeat_spec in Hx. subst. exact I.
  - constructor.
  - intros [b H]; discriminate.
  - intros H; discriminate.
Qed.

Lemma in_threads_get s th : In th (threads s) -> exists t, get_thread s t = Some th.
Proof.
  unfold threads. intros [H|H]; [exists None; simpl; congruence|].
  apply In_nth_error in H. destruct H as [i Hi]. exists (Some i). exact Hi.
Qed.

Lemma thread_ok_get V s t th : Inv V s -> get_thread s t = Some th -> thread_ok V (q_result s) (q_evaluated s) th.
Proof.
  intros [HI _] Hg. pose proof (i_thr V s HI) as H. rewrite Forall_forall in H. apply H.
  unfold threads. destruct t as [i|]; simpl in Hg; [right; eapply nth_error_In; eauto | left; congruence].
Qed.

Lemma step_inv bs V s a s' : Inv V s -> step bs V s a = Some s' -> Inv V s'.
Proof.
  intros HI Hs. pose proof HI as [[H1 H2 H3 H4 H5 H6 H7 H8] H9]. destruct a as [cs | w | | t | t | t]; simpl in Hs.
  - (* Add *)
    destruct (t_pc (q_master s)) eqn:Em; try discriminate. destruct cs as [|c cs']; [discriminate|]. inversion Hs; subst s'. clear Hs.
    set (cs := c :: cs') in *.
    assert (Hcm : cs_of (q_master s) = []) by (unfold cs_of; rewrite Em; reflexivity).
    split; [constructor|]; unfold threads, inflight in *; simpl in *; rewrite ?Hcm in *; simpl in *.
    + rewrite app_length. unfold cs. simpl. lia.
    + intros x Hx. apply in_app_or in Hx. destruct Hx as [Hx|Hx].
      * destruct (H2 x Hx) as [A|[A|A]]; auto. left. apply in_or_app. left; exact A.
      * left. apply in_or_app. right; exact Hx.
    + intros x [A|[A|A]]; apply in_or_app.
      * apply in_app_or in A. destruct A as [A|A]; [left; apply H3; left; exact A | right; exact A].
      * left. apply H3. right; left; exact A.
      * left. apply H3. right; right; exact A.
    + intros r Hr. destruct (H4 r Hr) as [x [Hx Hv]]. exists x. split; [apply in_or_app; left; exact Hx | exact Hv].
    + exact H5.
    + inversion H6; subst. constructor; [exact I | assumption].
    + exact H7.
    + intros [b Hb]. discriminate.
    + intros Hb. discriminate.
  - (* notify_one *)
    destruct (t_pc (q_master s)) as [|all| | |] eqn:Em; try discriminate. destruct all; [discriminate|].
    assert (Hcm : cs_of (q_master s) = []) by (unfold cs_of; rewrite Em; reflexivity).
    assert (HI1 : Inv V (set_thread s None {| t_pc := PNew; t_local := t_local (q_master s) |})).
    { apply (Inv_set_idle V s None (q_master s)); auto; try exact I.
      - intros _ [b Hb]. discriminate. - intros _ Hb. discriminate. }
    destruct w as [i|].
    + destruct (nth_error (q_workers s) i) as [tw|] eqn:Ew; [|discriminate].
      destruct (is_waiting_unnotified tw) eqn:Eu; [|discriminate]. inversion Hs; subst s'. clear Hs.
      assert (Hcw : cs_of tw = []). { unfold is_waiting_unnotified in Eu. unfold cs_of. destruct (t_pc tw); try discriminate; reflexivity. }
      change (Inv V (set_thread (set_thread s None {| t_pc := PNew; t_local := t_local (q_master s) |}) (Some i) {| t_pc := PWait true; t_local := t_local tw |})).
      apply (Inv_set_idle V _ (Some i) tw); auto; try exact I; try discriminate.
    + destruct (existsb is_waiting_unnotified (q_workers s)); [discriminate|]. inversion Hs; subst. exact HI1.
  - (* notify_all *)
    destruct (t_pc (q_master s)) as [|all| | |] eqn:Em; try discriminate. destruct all; [|discriminate]. inversion Hs; subst s'. clear Hs.
    assert (Hcm : cs_of (q_master s) = []) by (unfold cs_of; rewrite Em; reflexivity).
    set (f := fun t0 : thread => if is_waiting_unnotified t0 then {| t_pc := PWait true; t_local := t_local t0 |} else t0).
    assert (Hf : forall t0, cs_of (f t0) = cs_of t0).
    { intros [pc0 l0]. unfold f, is_waiting_unnotified, cs_of. simpl. destruct pc0 as [| |[|]| |]; reflexivity. }
    assert (Hfm : flat_map cs_of (map f (q_workers s)) = flat_map cs_of (q_workers s)).
    { induction (q_workers s) as [|a l IH]; simpl; [reflexivity|]. rewrite Hf, IH. reflexivity. }
    split; [constructor|]; unfold threads, inflight in *; simpl in *; rewrite ?Hfm, ?Hcm in *; simpl in *; auto.
    + inversion H6 as [|m ws Hm Hws]; subst. constructor; [exact I|]. apply Forall_forall. intros x Hx. apply in_map_iff in Hx. destruct Hx as [y [Hy Hin]]. subst x.
      rewrite Forall_forall in Hws. specialize (Hws y Hin). unfold f. destruct (is_waiting_unnotified y) eqn:E; [exact I | exact Hws].
    + intros [b Hb]. discriminate.
    + intros Hb. discriminate.
  - (* the top of the loop *)
    destruct (get_thread s t) as [th|] eqn:Hg; [|discriminate].
    pose proof (thread_ok_get V s t th HI Hg) as Hok.
    destruct (t_pc th) as [| | | |cs dw] eqn:Ep; try discriminate.
    + inversion Hs; subst s'. clear Hs. eapply after_cleanup_inv.
      * eapply Inv_ext; [|exact HI]. reflexivity.
      * exact Hg.
      * unfold cs_of. rewrite Ep. reflexivity.
    + (* clean-up of the previous batch *)
      inversion Hs; subst s'. clear Hs.
      unfold thread_ok in Hok. rewrite Ep in Hok. destruct Hok as (Hne & Hdw0 & Hdw1).
      set (swap := match t_local th, q_result s with Some _, None => true | _, _ => false end).
      set (res' := if swap then t_local th else q_result s).
      set (loc' := if swap then None else t_local th).
      set (todo' := q_todo s - length cs).
      set (s1 := {| q_queue := q_queue s; q_todo := todo'; q_idle := q_idle s; q_total := q_total s; q_result := res';
                    q_master := q_master s; q_workers := q_workers s; q_added := q_added s; q_finished := q_finished s ++ cs;
                    q_evaluated := q_evaluated s; q_returned := q_returned s |}).
      set (x := {| t_pc := PNew; t_local := loc' |}).
      set (s2 := set_thread s1 t x).
      assert (Hg1 : get_thread s1 t = Some th) by exact Hg.
      assert (Hcs : cs_of th = cs) by (unfold cs_of; rewrite Ep; reflexivity).
      pose proof (inflight_perm s t th Hg) as P1. rewrite Hcs in P1.
      pose proof (inflight_set_perm s1 t th x Hg1) as P2. change (cs_of x) with (@nil check) in P2. simpl in P2.
      assert (Ho : others s1 t = others s t) by (destruct t; reflexivity). rewrite Ho in P2.
      assert (Pin : forall c, In c (inflight s) <-> In c cs \/ In c (inflight s2)).
      { intros c. split; intros Hi.
        - apply (Permutation_in _ P1) in Hi. apply in_app_or in Hi. destruct Hi as [A|A]; [left; exact A | right].
          eapply Permutation_in; [symmetry; exact P2 | exact A].
        - eapply Permutation_in; [symmetry; exact P1|]. apply in_or_app. destruct Hi as [A|A]; [left; exact A | right].
          eapply Permutation_in; [exact P2 | exact A]. }
      assert (Plen : length (inflight s) = length cs + length (inflight s2)).
      { rewrite (Permutation_length P1), app_length. unfold s2. rewrite (Permutation_length P2). reflexivity. }
      assert (Hres_mono : res' = None -> q_result s = None /\ t_local th = None).
      { unfold res', swap. destruct (t_local th) as [l|], (q_result s) as [r|]; intros E; try discriminate; auto. }
      assert (Hfresh : forall r, t_local th = Some r -> q_result s = None -> exists c, In c cs /\ V c = Some r).
      { intros r Hl Hr. destruct dw.
        - destruct (Hdw1 eq_refl) as [Hloc _]. rewrite Hl in Hloc. symmetry in Hloc. apply ff_some in Hloc. exact Hloc.
        - exfalso. apply (Hdw0 eq_refl). exact Hr. }
      assert (Hcore : q_todo s2 = todo' /\ q_queue s2 = q_queue s /\ q_result s2 = res' /\ q_added s2 = q_added s /\
                      q_finished s2 = q_finished s ++ cs /\ q_evaluated s2 = q_evaluated s /\ q_returned s2 = q_returned s).
      { unfold s2. destruct (set_thread_fields s1 t x) as (F1 & F2 & F3 & F4 & F5 & F6 & F7). repeat split; assumption. }
      destruct Hcore as (C1 & C2 & C3 & C4 & C5 & C6 & C7).
      assert (Hthr2 : Forall (thread_ok V res' (q_evaluated s)) (threads s2)).
      { eapply Forall_perm; [symmetry; eapply threads_set_perm; exact Hg1|]. rewrite Ho. constructor; [exact I|].
        assert (Hall : Forall (thread_ok V (q_result s) (q_evaluated s)) (th :: others s t)) by (eapply Forall_perm; [eapply threads_perm; exact Hg | exact H6]).
        inversion Hall as [|a l Ha Hl]; subst. eapply Forall_impl; [|exact Hl]. intros y Hy. eapply thread_ok_mono; [exact Hy| |auto].
        intros E. apply Hres_mono in E. tauto. }
      (* the invariant after the clean-up, except for the master's wake-up condition *)
      assert (Hpart : q_todo s2 = length (q_queue s2) + length (inflight s2) /\
                      (forall c, In c (q_added s2) -> In c (q_queue s2) \/ In c (inflight s2) \/ In c (q_finished s2)) /\
                      (forall c, In c (q_queue s2) \/ In c (inflight s2) \/ In c (q_finished s2) -> In c (q_added s2)) /\
                      (forall r, q_result s2 = Some r -> exists c, In c (q_added s2) /\ V c = Some r) /\
                      (q_result s2 = None -> forall c, In c (q_finished s2) -> V c = None /\ In c (q_evaluated s2))).
      { rewrite C1, C2, C3, C4, C5, C6. split; [|split; [|split; [|split]]].
        - unfold todo'. rewrite H1, Plen. lia.
        - intros c Hc'. destruct (H2 c Hc') as [A|[A|A]]; auto.
          + apply Pin in A. destruct A as [A|A]; [right; right; apply in_or_app; right; exact A | right; left; exact A].
          + right; right. apply in_or_app. left; exact A.
        - intros c [A|[A|A]]; apply H3; auto.
          + right; left. apply Pin. right; exact A.
          + apply in_app_or in A. destruct A as [A|A]; [right; right; exact A | right; left; apply Pin; left; exact A].
        - intros r Hr. unfold res', swap in Hr. destruct (t_local th) as [l|] eqn:El, (q_result s) as [r0|] eqn:Er; try (apply H4; exact Hr); try discriminate.
          inversion Hr; subst l. destruct (Hfresh r eq_refl eq_refl) as [c [Hc' Hv]]. exists c. split; [|exact Hv]. apply H3. right; left. apply Pin. left; exact Hc'.
        - intros Hn c Hc'. destruct (Hres_mono Hn) as [Hr Hl]. apply in_app_or in Hc'. destruct Hc' as [A|A]; [exact (H5 Hr c A)|].
          destruct dw; [|exfalso; apply (Hdw0 eq_refl); exact Hr].
          destruct (Hdw1 eq_refl) as [Hloc Hev]. rewrite Hl in Hloc. symmetry in Hloc.
          destruct (ff_none V cs Hloc) as [Hall _]. split; [apply Hall; exact A | apply (Hev Hloc); exact A]. }
      destruct Hpart as (Q1 & Q2 & Q3 & Q4 & Q5).
      assert (Hmaster2 : t = None \/ (exists i, t = Some i /\ q_master s2 = q_master s)).
      { destruct t as [i|]; [right; exists i; split; reflexivity | left; reflexivity]. }
      (* s3 *)
      assert (HC2 : InvC V s2).
      { constructor; auto.
        - rewrite C3, C6. exact Hthr2.
        - rewrite C7. exact H7.
        - rewrite C2. destruct Hmaster2 as [Et|[i [Et Em]]]; [subst t; simpl; intros [b Hb]; discriminate | rewrite Em; exact H8]. }
      set (s3 := if Nat.eqb todo' 0 && negb (is_master t) then notify_master s2 else s2).
      assert (HI3 : Inv V s3).
      { unfold s3. destruct (Nat.eqb todo' 0 && negb (is_master t)) eqn:En.
        - apply andb_true_iff in En. destruct En as [Ez Enm]. destruct t as [i|]; [|discriminate]. apply Nat.eqb_eq in Ez.
          unfold notify_master. destruct (t_pc (q_master s2)) as [| |[|]| |] eqn:Em2;
            try (split; [exact HC2 | rewrite Em2; intros Hb; discriminate]).
          split.
          + apply (InvC_set_idle V s2 None (q_master s2)); try reflexivity; try exact I; auto.
            * unfold cs_of. rewrite Em2. reflexivity.
            * intros _ _. apply (i_mq V s2 HC2). exists false. exact Em2.
          + simpl. intros Hb. discriminate.
        - split; [exact HC2|]. intros Hw. rewrite C1. destruct Hmaster2 as [Et|[i [Et Em]]].
          + subst t. simpl in Hw. discriminate.
          + subst t. simpl in En. rewrite andb_true_r in En. apply Nat.eqb_neq in En. lia. }
      assert (Hg3 : exists th3, get_thread s3 t = Some th3 /\ cs_of th3 = []).
      { assert (Hg2 : get_thread s2 t = Some x) by (eapply get_set_same; exact Hg1).
        unfold s3. destruct (Nat.eqb todo' 0 && negb (is_master t)) eqn:En; [|exists x; split; [exact Hg2 | reflexivity]].
        apply andb_true_iff in En. destruct En as [_ Enm]. destruct t as [i|]; [|discriminate].
        unfold notify_master. destruct (t_pc (q_master s2)) as [| |[|]| |]; exists x; split; try exact Hg2; try reflexivity. }
      destruct Hg3 as (th3 & Hg3 & Hc3). eapply after_cleanup_inv; eauto.
  - (* wake *)
    destruct (get_thread s t) as [th|] eqn:Hg; [|discriminate].
    destruct (t_pc th) as [| |b| |] eqn:Ep; try discriminate. destruct b; [|discriminate]. inversion Hs; subst s'. clear Hs.
    eapply after_cleanup_inv.
    + eapply Inv_ext; [|exact HI]. reflexivity.
    + exact Hg.
    + unfold cs_of. rewrite Ep. reflexivity.
  - (* run a batch *)
    destruct (get_thread s t) as [th|] eqn:Hg; [|discriminate].
    pose proof (thread_ok_get V s t th HI Hg) as Hok.
    destruct (t_pc th) as [| | |cs dw|] eqn:Ep; try discriminate.
    unfold thread_ok in Hok. rewrite Ep in Hok. destruct Hok as [Hne Hdw0].
    set (p := if dw then run_checks V cs (t_local th) else (t_local th, [])) in *.
    destruct p as [loc' ev] eqn:Epair. inversion Hs; subst s'. clear Hs.
    set (x := {| t_pc := PRet cs dw; t_local := loc' |}).
    assert (Hcs : cs_of th = cs) by (unfold cs_of; rewrite Ep; reflexivity).
    pose proof (inflight_perm s t th Hg) as P1. rewrite Hcs in P1.
    pose proof (inflight_set_perm s t th x Hg) as P2. change (cs_of x) with cs in P2.
    assert (Pin : forall c, In c (inflight (set_thread s t x)) <-> In c (inflight s)).
    { intros c. split; intros Hi.
      - eapply Permutation_in; [symmetry; exact P1|]. eapply Permutation_in; [exact P2 | exact Hi].
      - eapply Permutation_in; [symmetry; exact P2|]. eapply Permutation_in; [exact P1 | exact Hi]. }
    assert (Plen : length (inflight (set_thread s t x)) = length (inflight s)).
    { rewrite (Permutation_length P2), (Permutation_length P1). reflexivity. }
    destruct (set_thread_fields s t x) as (F1 & F2 & F3 & F4 & F5 & F6 & F7).
    assert (Hthreads : threads {| q_queue := q_queue (set_thread s t x); q_todo := q_todo (set_thread s t x); q_idle := q_idle (set_thread s t x);
                                  q_total := q_total (set_thread s t x); q_result := q_result (set_thread s t x); q_master := q_master (set_thread s t x);
                                  q_workers := q_workers (set_thread s t x); q_added := q_added (set_thread s t x); q_finished := q_finished (set_thread s t x);
                                  q_evaluated := q_evaluated (set_thread s t x) ++ ev; q_returned := q_returned (set_thread s t x) |} = threads (set_thread s t x)) by reflexivity.
    split; [constructor|]; unfold inflight; rewrite ?Hthreads; fold (inflight (set_thread s t x)); simpl; rewrite ?F1, ?F2, ?F3, ?F4, ?F5, ?F6, ?F7.
    + rewrite Plen. exact H1.
    + intros c Hc'. destruct (H2 c Hc') as [A|[A|A]]; auto. right; left. apply Pin. exact A.
    + intros c [A|[A|A]]; apply H3; auto. right; left. apply Pin. exact A.
    + exact H4.
    + intros Hn c Hc'. destruct (H5 Hn c Hc') as [A B]. split; [exact A | apply in_or_app; left; exact B].
    + eapply Forall_perm; [symmetry; eapply threads_set_perm; exact Hg|]. constructor.
      * unfold thread_ok, x. simpl. split; [exact Hne|]. split; [exact Hdw0|]. intros Hd. subst dw. unfold p in Epair.
        assert (E1 : loc' = first_fail V cs) by (rewrite <- (run_checks_nonempty V cs (t_local th) Hne); rewrite Epair; reflexivity).
        assert (E2 : ev = snd (run_checks V cs None)) by (rewrite <- (snd_run_checks_nonempty V cs (t_local th) Hne); rewrite Epair; reflexivity).
        split; [exact E1|]. intros Hn c Hc'. apply in_or_app. right. rewrite E2. destruct (ff_none V cs Hn) as [_ Hs2]. rewrite Hs2. exact Hc'.
      * assert (Hall : Forall (thread_ok V (q_result s) (q_evaluated s)) (th :: others s t)) by (eapply Forall_perm; [eapply threads_perm; exact Hg | exact H6]).
        inversion Hall as [|a l Ha Hl]; subst. eapply Forall_impl; [|exact Hl]. intros y Hy. eapply thread_ok_mono; [exact Hy | auto |].
        intros c Hc'. apply in_or_app. left; exact Hc'.
    + exact H7.
    + destruct t as [i|]; simpl; [exact H8 | intros [b Hb]; discriminate].
    + destruct t as [i|]; simpl; [exact H9 | intros Hb; discriminate].
Qed.
