(* C37: the theorems of AddrManMain instantiated with the constants of the compiled tree (model/AddrManInst.v). *)
From BV Require Import lib.Ints gen.Params_gen model.AddrMan model.AddrManInst proofs.AddrManMaps proofs.AddrManInv proofs.AddrManOps
  proofs.AddrManSteps proofs.AddrManFrames proofs.AddrManCheck proofs.AddrManMain proofs.AddrManSer.
Local Open Scope Z_scope.

(* the keyed hashes end in "% ADDRMAN_*_BUCKET_COUNT" / "% ADDRMAN_BUCKET_SIZE": their values lie inside the tables *)
Definition hash_ranges (tried_bucket : Z -> Z) (new_bucket : Z -> Z -> Z) (bucket_pos : bool -> Z -> Z -> Z) : Prop :=
  (forall k s, 0 <= new_bucket k s < ADDRMAN_NEW_BUCKET_COUNT_P) /\
  (forall k, 0 <= tried_bucket k < ADDRMAN_TRIED_BUCKET_COUNT_P) /\
  (forall f b k, 0 <= bucket_pos f b k < ADDRMAN_BUCKET_SIZE_P).

Lemma real_NB : 0 < c_NB real_cfg. Proof. reflexivity. Qed.
Lemma real_NT : 0 < c_NT real_cfg. Proof. reflexivity. Qed.
Lemma real_BS : 0 < c_BS real_cfg. Proof. reflexivity. Qed.
Lemma real_MAXREF : 1 <= c_MAXREF real_cfg. Proof. unfold real_cfg; simpl. unfold ADDRMAN_NEW_BUCKETS_PER_ADDRESS_P. lia. Qed.
Lemma real_COLL : 0 <= c_COLL real_cfg. Proof. unfold real_cfg; simpl. unfold ADDRMAN_SET_TRIED_COLLISION_SIZE_P. lia. Qed.

Section Real.
  Variable tried_bucket : Z -> Z.
  Variable new_bucket : Z -> Z -> Z.
  Variable bucket_pos : bool -> Z -> Z -> Z.
  Variable routable : Z -> bool.
  Variable valid : Z -> bool.
  Variable network : Z -> Z.
  Variable netclass : Z -> Z.
  Variable addr_of : Z -> Z.
  Hypothesis HR : hash_ranges tried_bucket new_bucket bucket_pos.
  Set Default Proof Using "All".

  Definition reachable : st -> Prop := reach real_cfg tried_bucket new_bucket bucket_pos routable valid network netclass addr_of.
  Definition step (s : st) (o : op) : res st := apply_op real_cfg tried_bucket new_bucket bucket_pos routable valid network netclass addr_of s o.
  Definition full_inv : st -> Prop := FullInv real_cfg tried_bucket bucket_pos routable network.

  Notation MAIN l := (l real_cfg tried_bucket new_bucket bucket_pos routable valid network netclass addr_of real_NB real_NT real_BS real_MAXREF real_COLL
                        (proj1 HR) (proj1 (proj2 HR)) (proj2 (proj2 HR))) (only parsing).

  Lemma real_reach_inv s : reachable s -> full_inv s.
  Proof. apply (MAIN reach_inv). Qed.
  Lemma real_step_ok s o : full_inv s -> s_idcount s < IDLIM -> op_ok s o -> exists s', step s o = Ok s' /\ full_inv s' /\ s_idcount s <= s_idcount s'.
  Proof. apply (MAIN step_ok). Qed.
  Lemma real_no_assert s o : reachable s -> s_idcount s < IDLIM -> op_ok s o -> exists s', step s o = Ok s'.
  Proof. apply (MAIN reach_no_assert). Qed.
  Lemma real_check s : reachable s -> s_idcount s <= IDLIM -> check_addrman real_cfg tried_bucket bucket_pos network s = 0.
  Proof. apply (MAIN reach_check). Qed.
  Lemma real_bounds s : reachable s ->
    s_nnew s <= zlen (s_new s) /\ zlen (s_new s) <= ADDRMAN_NEW_BUCKET_COUNT_P * ADDRMAN_BUCKET_SIZE_P /\
    s_ntried s <= zlen (s_tried s) /\ zlen (s_tried s) <= ADDRMAN_TRIED_BUCKET_COUNT_P * ADDRMAN_BUCKET_SIZE_P /\
    zlen (s_random s) = s_nnew s + s_ntried s /\ zlen (s_coll s) <= ADDRMAN_SET_TRIED_COLLISION_SIZE_P /\
    (forall id a, zfind id (s_info s) = Some a ->
       if a_tried a then refs id (s_new s) = 0 /\ (forall sl, sfind sl (s_tried s) = Some id <-> sl = tslot tried_bucket bucket_pos (a_key a))
       else 1 <= refs id (s_new s) <= ADDRMAN_NEW_BUCKETS_PER_ADDRESS_P /\ (forall sl, sfind sl (s_tried s) <> Some id)).
  Proof. intros R. destruct (real_reach_inv s R) as (G & _). apply (MAIN inv_bounds s G). Qed.
  Lemma real_good_effect s k time s' :
    reachable s -> s_idcount s < IDLIM -> 0 < time ->
    good real_cfg tried_bucket new_bucket bucket_pos network s k true time = Ok (s', true) ->
    (exists id a a', find_addr s k = Some (id, a) /\ a_tried a = false /\ find_addr s' k = Some (id, a') /\ a_tried a' = true /\
                     a_last_success a' = time /\ a_attempts a' = 0 /\ a_src a' = a_src a /\ a_time a' = a_time a /\ a_services a' = a_services a /\
                     sfind (tslot tried_bucket bucket_pos k) (s_tried s') = Some id) /\
    (forall k0 id0 a0, k0 <> k -> find_addr s k0 = Some (id0, a0) ->
       (exists a0', find_addr s' k0 = Some (id0, a0') /\ same_stats a0 a0' /\
                    (sfind (tslot tried_bucket bucket_pos k) (s_tried s) <> Some id0 -> a_tried a0' = a_tried a0 /\ a_ref a0' <= a_ref a0) /\
                    (sfind (tslot tried_bucket bucket_pos k) (s_tried s) = Some id0 -> a_tried a0 = true /\ a_tried a0' = false /\ a_ref a0' = 1))
       \/ (find_addr s' k0 = None /\ a_tried a0 = false /\
           exists idev old, sfind (tslot tried_bucket bucket_pos k) (s_tried s) = Some idev /\ zfind idev (s_info s) = Some old /\ a_tried old = true /\
                            sfind (nslot new_bucket bucket_pos (a_key old) (a_src old)) (s_new s) = Some id0)) /\
    (forall k0, find_addr s k0 = None -> find_addr s' k0 = None).
  Proof. intros R. apply (MAIN good_effect). apply real_reach_inv; auto. Qed.
  Lemma real_select_sound s new_only nets side : reachable s -> select_plan s new_only nets = Some side ->
    exists id a, zfind id (s_info s) = Some a /\
      (nets = [] \/ In (network (a_key a)) nets) /\ (new_only = true -> a_tried a = false) /\
      match side with Some true => a_tried a = true | Some false => a_tried a = false | None => True end /\
      (if a_tried a then sfind (tslot tried_bucket bucket_pos (a_key a)) (s_tried s) = Some id else exists sl, sfind sl (s_new s) = Some id).
  Proof. intros R. destruct (real_reach_inv s R) as (G & _). apply (MAIN select_plan_sound s new_only nets side G). Qed.
  Lemma real_serialize_ok s order : reachable s -> NoDup order -> (forall id, In id order <-> In id (keys (s_info s))) ->
    exists f, serialize real_cfg s order = Ok f /\ f_nnew f = s_nnew s /\ f_ntried f = s_ntried s /\
      zlen (f_new f) = s_nnew s /\ zlen (f_tried f) = s_ntried s /\
      (forall id a, zfind id (s_info s) = Some a ->
         In (mkSentry (a_key a) (a_src a) (a_time a) (a_services a) (a_last_success a) (a_attempts a)) (if a_tried a then f_tried f else f_new f)) /\
      (forall e, In e (f_new f) \/ In e (f_tried f) -> exists id a, zfind id (s_info s) = Some a /\ e = entry_of a).
  Proof. intros R. destruct (real_reach_inv s R) as (G & _). apply (serialize_ok real_cfg tried_bucket bucket_pos routable network s order G). Qed.
End Real.
