(* LimitOrphans: it terminates without a failed Assume, leaves the pool within its global limits, only evicts
   announcements of peers whose DoS score exceeded 1 when it started, and does nothing if the pool was within its
   limits. *)
From BV Require Import lib.Ints gen.Params_gen model.Orphanage proofs.OrphanBasics proofs.OrphanInv.
Local Open Scope Z_scope.

(* ---------- sums per peer add up to the sum over all announcements ---------- *)
Lemma zsum_indicator (P : list Z) q0 c : NoDup P -> In q0 P -> zsum_map (fun q => if q =? q0 then c else 0) P = c.
Proof.
  induction P as [|x P IH]; intros N Hin; [contradiction|]. inversion N; subst. cbn [zsum_map].
  destruct Hin as [->|Hin].
  - rewrite Z.eqb_refl. assert (Z0 : zsum_map (fun q => if q =? q0 then c else 0) P = 0).
    { clear IH N H2. induction P as [|y P IHP]; [reflexivity|]. cbn [zsum_map].
      assert (y <> q0) by (intros ->; apply H1; left; auto). assert (E : (y =? q0) = false) by (apply Z.eqb_neq; auto).
      rewrite E, IHP; [lia|]. intros X. apply H1. right. auto. }
    lia.
  - assert (x <> q0) by (intros ->; contradiction). assert (E : (x =? q0) = false) by (apply Z.eqb_neq; auto).
    rewrite E, IH; auto.
Qed.

Lemma zsum_map_add {A} (f g : A -> Z) l : zsum_map (fun a => f a + g a) l = zsum_map f l + zsum_map g l.
Proof. induction l as [|x l IH]; [reflexivity|]. cbn [zsum_map]. rewrite IH. lia. Qed.

Lemma zsum_partition (f : oann -> Z) (P : list Z) (l : list oann) :
  NoDup P -> (forall a, In a l -> In (o_peer a) P) ->
  zsum_map (fun q => zsum_map f (filter (from_peer q) l)) P = zsum_map f l.
Proof.
  intros N. induction l as [|x l IH]; intros Cov.
  - assert (Z0 : forall P0 : list Z, zsum_map (fun q => zsum_map f (filter (from_peer q) [])) P0 = 0).
    { induction P0 as [|q P0 IHP]; [reflexivity|]. cbn [zsum_map]. rewrite IHP. reflexivity. }
    rewrite Z0. reflexivity.
  - cbn [zsum_map]. rewrite <- IH by (intros a Ha; apply Cov; right; auto).
    rewrite <- (zsum_indicator P (o_peer x) (f x) N (Cov x (or_introl eq_refl))).
    rewrite <- zsum_map_add. apply zsum_map_ext_in. intros q _. cbn [filter]. unfold from_peer at 1.
    rewrite (Z.eqb_sym (o_peer x) q). destruct (q =? o_peer x); cbn [zsum_map]; lia.
Qed.

(* ---------- FeeFrac comparisons ---------- *)
Definition ff_pos (a : feefrac) : Prop := 0 < ff_size a.
Lemma ff_one_pos : ff_pos FF_ONE.
Proof. unfold ff_pos. simpl. lia. Qed.

Lemma ratio_gt_one a : ratio_gt a FF_ONE = true <-> ff_size a < ff_fee a.
Proof.
  unfold ratio_gt, ratio_cmp. cbn [FF_ONE ff_fee ff_size].
  destruct (Z.compare_spec (ff_fee a * 1) (1 * ff_size a)); split; intros; try lia; try discriminate; auto.
Qed.

(* "b is at least a" under the ByRatioNegSize order implies "ratio b >= ratio a" *)
Lemma rns_not_gt_ratio a b : ff_pos a -> ff_pos b -> rns_cmp a b <> Gt -> ff_fee a * ff_size b <= ff_fee b * ff_size a.
Proof.
  unfold rns_cmp, ratio_cmp. intros Pa Pb H. destruct (Z.compare_spec (ff_fee a * ff_size b) (ff_fee b * ff_size a)); try lia.
  exfalso. apply H. reflexivity.
Qed.
Lemma rns_not_lt_ratio a b : ff_pos a -> ff_pos b -> rns_cmp a b <> Lt -> ff_fee b * ff_size a <= ff_fee a * ff_size b.
Proof.
  unfold rns_cmp, ratio_cmp. intros Pa Pb H. destruct (Z.compare_spec (ff_fee a * ff_size b) (ff_fee b * ff_size a)); try lia.
  exfalso. apply H. reflexivity.
Qed.
Lemma ratio_ge_keeps_gt_one a b : ff_pos a -> ff_pos b -> ff_fee a * ff_size b <= ff_fee b * ff_size a ->
  ratio_gt a FF_ONE = true -> ratio_gt b FF_ONE = true.
Proof. unfold ff_pos. intros Pa Pb H. rewrite !ratio_gt_one. intros G. nia. Qed.

Lemma rns_le_one a : ff_pos a -> rns_le a FF_ONE = true -> ratio_gt a FF_ONE = false.
Proof.
  intros Pa H. destruct (ratio_gt a FF_ONE) eqn:G; [|reflexivity]. exfalso.
  unfold rns_le in H. unfold ratio_gt in G. unfold rns_cmp in H. destruct (ratio_cmp a FF_ONE); try discriminate.
Qed.

(* the score is the larger (ByRatioNegSize) of the two ratios: its ratio exceeds 1 iff one of them does *)
Lemma dos_score_gt_one d max_lat max_mem : 0 < wrap32 max_lat -> 0 < wrap32 max_mem ->
  (ratio_gt (dos_score d max_lat max_mem) FF_ONE = true <->
   wrap32 max_lat < pd_latency d \/ wrap32 max_mem < pd_usage d).
Proof.
  intros Pl Pm. unfold dos_score. set (l := mkFF (pd_latency d) (wrap32 max_lat)). set (m := mkFF (pd_usage d) (wrap32 max_mem)).
  assert (Pl' : ff_pos l) by exact Pl. assert (Pm' : ff_pos m) by exact Pm.
  assert (Gl : ratio_gt l FF_ONE = true <-> wrap32 max_lat < pd_latency d) by (rewrite ratio_gt_one; reflexivity).
  assert (Gm : ratio_gt m FF_ONE = true <-> wrap32 max_mem < pd_usage d) by (rewrite ratio_gt_one; reflexivity).
  unfold rns_lt. destruct (rns_cmp l m) eqn:C.
  - rewrite Gl. split; [auto|]. intros [H|H]; [auto|]. apply Gl. apply Gm in H.
    apply (ratio_ge_keeps_gt_one m l); auto. apply rns_not_lt_ratio; auto. rewrite C. discriminate.
  - rewrite Gm. split; [auto|]. intros [H|H]; [|auto]. apply Gm. apply Gl in H.
    apply (ratio_ge_keeps_gt_one l m); auto. apply rns_not_gt_ratio; auto. rewrite C. discriminate.
  - rewrite Gl. split; [auto|]. intros [H|H]; [auto|]. apply Gl. apply Gm in H.
    apply (ratio_ge_keeps_gt_one m l); auto. apply rns_not_lt_ratio; auto. rewrite C. discriminate.
Qed.

Lemma dos_score_pos d max_lat max_mem : 0 < wrap32 max_lat -> 0 < wrap32 max_mem -> ff_pos (dos_score d max_lat max_mem).
Proof. intros Pl Pm. unfold dos_score. destruct (rns_lt _ _); assumption. Qed.

(* the front of the heap has a score above 1 if any entry has *)
Lemma score_lt_keeps x y : ff_pos (snd x) -> ff_pos (snd y) -> score_lt x y = true ->
  ratio_gt (snd x) FF_ONE = true -> ratio_gt (snd y) FF_ONE = true.
Proof.
  intros Px Py. unfold score_lt. destruct (ff_eqb (snd x) (snd y)) eqn:E; cbn [negb].
  - intros _. unfold ff_eqb in E. apply andb_true_iff in E. destruct E as [E1 E2]. apply Z.eqb_eq in E1, E2.
    rewrite !ratio_gt_one. lia.
  - unfold rns_lt. intros H. apply ratio_ge_keeps_gt_one; auto. apply rns_not_gt_ratio; auto.
    destruct (rns_cmp (snd x) (snd y)); try discriminate.
Qed.
Lemma score_not_lt_keeps x y : ff_pos (snd x) -> ff_pos (snd y) -> score_lt x y = false ->
  ratio_gt (snd y) FF_ONE = true -> ratio_gt (snd x) FF_ONE = true.
Proof.
  intros Px Py. unfold score_lt. destruct (ff_eqb (snd x) (snd y)) eqn:E; cbn [negb].
  - intros _. unfold ff_eqb in E. apply andb_true_iff in E. destruct E as [E1 E2]. apply Z.eqb_eq in E1, E2.
    rewrite !ratio_gt_one. lia.
  - unfold rns_lt. intros H. apply ratio_ge_keeps_gt_one; auto. apply rns_not_lt_ratio; auto.
    destruct (rns_cmp (snd x) (snd y)); try discriminate.
Qed.

Lemma heap_top_in h x : heap_top h = Some x -> In x h.
Proof.
  revert x. induction h as [|y h IH]; intros x; [discriminate|]. cbn [heap_top].
  destruct (heap_top h) as [t|] eqn:T.
  - destruct (score_lt y t); intros E; inversion E; subst; [right; apply IH; reflexivity|left; reflexivity].
  - intros E. inversion E. left. reflexivity.
Qed.
Lemma heap_top_none h : heap_top h = None -> h = [].
Proof. destruct h as [|y h]; [reflexivity|]. cbn [heap_top]. destruct (heap_top h); [destruct (score_lt y p)|]; discriminate. Qed.

Lemma heap_top_gt_one h x : (forall y, In y h -> ff_pos (snd y)) -> heap_top h = Some x ->
  (exists y, In y h /\ ratio_gt (snd y) FF_ONE = true) -> ratio_gt (snd x) FF_ONE = true.
Proof.
  revert x. induction h as [|y h IH]; intros x Pos; [discriminate|]. cbn [heap_top].
  assert (Pos' : forall z, In z h -> ff_pos (snd z)) by (intros z Hz; apply Pos; right; auto).
  destruct (heap_top h) as [t|] eqn:T.
  - pose proof (heap_top_in h t T) as Ht.
    destruct (score_lt y t) eqn:S; intros E [z [Hz Gz]]; inversion E; subst.
    + destruct Hz as [->|Hz]; [|apply (IH x Pos' eq_refl); exists z; auto].
      apply (score_lt_keeps z x); auto. apply Pos. left. auto.
    + destruct Hz as [->|Hz]; [exact Gz|].
      apply (score_not_lt_keeps x t); auto; [apply Pos; left; auto|]. apply (IH t Pos' eq_refl). exists z. auto.
  - apply heap_top_none in T. subst h. intros E [z [[->|[]] Gz]]. inversion E. subst. exact Gz.
Qed.

Lemma first_of_some lt (l : list oann) : l <> [] -> exists a, first_of lt l = Some a /\ In a l.
Proof.
  induction l as [|x l IH]; intros N; [contradiction|]. cbn [first_of].
  destruct l as [|y l'].
  - exists x. split; [reflexivity|left; auto].
  - destruct IH as [b [Eb Hb]]; [discriminate|]. rewrite Eb. destruct (lt b x).
    + exists b. split; auto. right. auto.
    + exists x. split; auto. left. auto.
Qed.

Lemma filter_filter_and2 {A} (P Q : A -> bool) l : filter P (filter Q l) = filter (fun a => Q a && P a) l.
Proof. induction l as [|x l IH]; [reflexivity|]. cbn [filter]. destruct (Q x); cbn [filter andb]; rewrite IH; reflexivity. Qed.

Lemma filter_all_true_o {A} (P : A -> bool) l : (forall a, In a l -> P a = true) -> filter P l = l.
Proof.
  induction l as [|x l IH]; intros H; [reflexivity|]. cbn [filter]. rewrite (H x) by (left; auto).
  f_equal. apply IH. intros a Ha. apply H. right. auto.
Qed.

Section Limit.
Variable tx_of : Z -> otx.
Hypothesis tx_wtxid : forall w, x_wtxid (tx_of w) = w.
Hypothesis tx_inputs_weight : forall w, 164 * Z.of_nat (length (x_inputs (tx_of w))) <= x_weight (tx_of w).
Hypothesis tx_weight_nonneg : forall w, 0 <= x_weight (tx_of w).
Notation OWF := (OWF tx_of).

(* the entries of m_peer_orphanage_info, as determined by the announcements *)
Lemma entry_present g q : OWF g -> (In q (map fst (g_peers g)) <-> exists a, In a (g_anns g) /\ o_peer a = q).
Proof.
  intros W. rewrite <- peer_find_in. rewrite (ow_peers _ _ W q).
  destruct (length (filter (from_peer q) (g_anns g)) =? 0)%nat eqn:E.
  - apply Nat.eqb_eq in E. split; [congruence|]. intros [a [Ha Ea]]. exfalso.
    assert (In a (filter (from_peer q) (g_anns g))) by (apply filter_In; split; auto; apply from_peer_true; auto).
    destruct (filter (from_peer q) (g_anns g)); [contradiction|discriminate].
  - apply Nat.eqb_neq in E. split; [|discriminate]. intros _.
    destruct (filter (from_peer q) (g_anns g)) as [|a m] eqn:F; [contradiction|].
    assert (In a (filter (from_peer q) (g_anns g))) by (rewrite F; left; auto). apply filter_In in H. exists a.
    destruct H as [H1 H2]. apply from_peer_true in H2. auto.
Qed.
Lemma entry_value g q d : OWF g -> peer_find q (g_peers g) = Some d -> d = recompute_peer (g_anns g) q.
Proof.
  intros W F. rewrite (ow_peers _ _ W q) in F. destruct (length (filter (from_peer q) (g_anns g)) =? 0)%nat; congruence.
Qed.
Lemma entry_found g q : OWF g -> In q (map fst (g_peers g)) -> peer_find q (g_peers g) = Some (recompute_peer (g_anns g) q).
Proof.
  intros W Hq. apply peer_find_in in Hq. destruct (peer_find q (g_peers g)) as [d|] eqn:F; [|contradiction].
  f_equal. eapply entry_value; eauto.
Qed.

Lemma zsum_latency_lsc l : txs_ok tx_of l -> zsum_map latency_score l = zsum_map (fun a => lsc tx_of (o_wtxid a)) l.
Proof.
  intros T. apply zsum_map_ext_in. intros a Ha.
  destruct (ann_bounds tx_of tx_wtxid tx_inputs_weight tx_weight_nonneg l a T Ha) as [_ [E _]]. exact E.
Qed.
Lemma zsum_map_comp (f : Z -> Z) (l : list oann) : zsum_map f (map o_wtxid l) = zsum_map (fun a => f (o_wtxid a)) l.
Proof. induction l as [|x l IH]; [reflexivity|]. cbn [map zsum_map]. rewrite IH. reflexivity. Qed.

(* If no peer is over its share (with the per-peer limits max_lat / max_mem that were computed for at least as many
   peers as there are now), the pool is within its global limits.  This is the fact behind
   Assume(!heap_peer_dos.empty()). *)
Lemma within_if_no_dosy g max_lat :
  OWF g -> 0 < max_lat -> max_lat * n_peers g <= g_maxlat g ->
  (forall q d, peer_find q (g_peers g) = Some d -> ratio_gt (dos_score d max_lat (g_reserved g)) FF_ONE = false) ->
  needs_trim g = false.
Proof.
  intros W Pl Hn Hall. pose proof W as [Hbad Hk Ht Hpn Hp Hu Hus Hin Hom Hon Hr Hrn Hro Hlen Hml Hres].
  unfold MAXLAT_LIMIT in Hml. set (L := g_anns g) in *. set (P := map fst (g_peers g)).
  assert (NP : n_peers g = Z.of_nat (length P)) by (unfold n_peers, P; rewrite map_length; reflexivity).
  assert (Cov : forall a, In a L -> In (o_peer a) P).
  { intros a Ha. apply (entry_present g (o_peer a) W). exists a. auto. }
  destruct (Z.eq_dec (n_peers g) 0) as [E0|N0].
  { (* no peers, hence no announcements *)
    assert (LE : L = []).
    { destruct L as [|a L0] eqn:EL; [reflexivity|]. exfalso. specialize (Cov a (or_introl eq_refl)).
      rewrite NP in E0. destruct P; [contradiction|discriminate]. }
    unfold needs_trim, total_latency, max_global_usage. fold L. rewrite Hin, Hus, LE. cbn [length dsum wtxids_of map dedup zsum_map Z.of_nat].
    unfold dsum. cbn [wtxids_of map dedup zsum_map]. rewrite E0. cbn [Z.max].
    rewrite (wrapu32_id 0) by (unfold UINT32_MAX; lia). rewrite (wrapu32_id (0 + 0)) by (unfold UINT32_MAX; lia).
    rewrite wrap64_id by (unfold INT64_MIN, INT64_MAX, INT32_MAX in *; lia).
    apply orb_false_iff. split; apply Z.ltb_ge; lia. }
  assert (N1 : 1 <= n_peers g) by (rewrite NP in *; lia).
  assert (Wl : wrap32 max_lat = max_lat).
  { apply wrap32_id. unfold INT32_MIN, INT32_MAX. assert (max_lat <= g_maxlat g) by nia. lia. }
  assert (Wm : wrap32 (g_reserved g) = g_reserved g) by (apply wrap32_id; unfold INT32_MIN, INT32_MAX in *; lia).
  assert (PerPeer : forall q, In q P -> zsum_map latency_score (filter (from_peer q) L) <= max_lat /\
                                       zsum_map mem_usage (filter (from_peer q) L) <= g_reserved g).
  { intros q Hq. pose proof (entry_found g q W Hq) as F. specialize (Hall q _ F). fold L in Hall.
    assert (X : ~ (wrap32 max_lat < pd_latency (recompute_peer L q) \/ wrap32 (g_reserved g) < pd_usage (recompute_peer L q))).
    { intros Y. apply (dos_score_gt_one (recompute_peer L q) max_lat (g_reserved g)) in Y; [congruence| |]; lia. }
    unfold recompute_peer in X. cbn [pd_latency pd_usage] in X. lia. }
  assert (SumL : zsum_map latency_score L <= max_lat * Z.of_nat (length P)).
  { rewrite <- (zsum_partition latency_score P L Hpn Cov). apply zsum_map_le. intros q Hq. apply PerPeer. exact Hq. }
  assert (SumU : zsum_map mem_usage L <= g_reserved g * Z.of_nat (length P)).
  { rewrite <- (zsum_partition mem_usage P L Hpn Cov). apply zsum_map_le. intros q Hq. apply PerPeer. exact Hq. }
  (* deduplicated totals are below the per-announcement sums *)
  assert (LsN : forall x, 0 <= lsc tx_of x - 1).
  { intros x. unfold lsc. assert (0 <= Z.of_nat (length (x_inputs (tx_of x))) / 10) by (apply Z.div_pos; lia). lia. }
  assert (TotL : g_inscores g + Z.of_nat (length L) <= zsum_map latency_score L).
  { rewrite Hin, (zsum_latency_lsc L Ht). unfold dsum, wtxids_of.
    eapply Z.le_trans; [apply Z.add_le_mono_r; apply dedup_sum_le; intros; apply LsN|].
    rewrite zsum_map_comp. rewrite <- (zsum_map_const1 L), <- zsum_map_add. apply Z.eq_le_incl.
    apply zsum_map_ext_in. intros a _. lia. }
  assert (TotU : g_usage g <= zsum_map mem_usage L).
  { rewrite Hus. unfold dsum, wtxids_of.
    eapply Z.le_trans; [apply dedup_sum_le; intros; apply tx_weight_nonneg|].
    rewrite zsum_map_comp. apply Z.eq_le_incl. apply zsum_map_ext_in. intros a Ha.
    destruct (ann_bounds tx_of tx_wtxid tx_inputs_weight tx_weight_nonneg L a Ht Ha) as [_ [_ [_ E]]]. symmetry. exact E. }
  assert (InsN : 0 <= g_inscores g).
  { rewrite Hin. unfold dsum. apply zsum_map_nonneg. intros. apply LsN. }
  assert (UsN : 0 <= g_usage g).
  { rewrite Hus. unfold dsum. apply zsum_map_nonneg. intros. apply tx_weight_nonneg. }
  unfold needs_trim. apply orb_false_iff. split.
  - apply Z.ltb_ge. unfold total_latency. fold L.
    rewrite (wrapu32_id (Z.of_nat (length L))) by (unfold UINT32_MAX; lia).
    assert (g_inscores g + Z.of_nat (length L) <= g_maxlat g) by (rewrite NP in Hn; lia).
    rewrite wrapu32_id by (unfold UINT32_MAX; lia). lia.
  - apply Z.ltb_ge. unfold max_global_usage. rewrite NP.
    assert (Z.of_nat (length P) <= Z.of_nat (length L)).
    { (* one announcement per peer at least *)
      assert (X : incl P (map o_peer L)).
      { intros q Hq. apply (entry_present g q W) in Hq. destruct Hq as [a [Ha Ea]]. apply in_map_iff. exists a. auto. }
      pose proof (NoDup_incl_length Hpn X) as Y. rewrite (map_length o_peer L) in Y. fold P in Y. lia. }
    rewrite wrap64_id by (unfold INT64_MIN, INT64_MAX, INT32_MAX in *; nia).
    destruct (Z.max_spec (Z.of_nat (length P)) 1) as [[A ->]|[A ->]]; [lia|]. nia.
Qed.

(* what LimitOrphans keeps fixed *)
Definition same_params (g g' : orph) : Prop :=
  g_maxlat g' = g_maxlat g /\ g_reserved g' = g_reserved g /\ g_seq g' = g_seq g.

Lemma drop_key_length l a : okeys l -> In a l -> S (length (drop_key a l)) = length l.
Proof.
  intros N Ha. destruct (okeys_split l a N Ha) as [l1 [l2 [-> [D _]]]]. rewrite D, !app_length. cbn [length]. lia.
Qed.

Lemma peers_shrink g g' keep : OWF g -> OWF g' -> g_anns g' = filter keep (g_anns g) -> n_peers g' <= n_peers g.
Proof.
  intros W W' E. unfold n_peers.
  assert (X : incl (map fst (g_peers g')) (map fst (g_peers g))).
  { intros q Hq. apply (entry_present g' q W') in Hq. destruct Hq as [a [Ha Ea]]. apply (entry_present g q W).
    exists a. split; auto. rewrite E in Ha. apply filter_In in Ha. tauto. }
  pose proof (NoDup_incl_length (ow_pnodup _ _ W') X) as Y. rewrite !map_length in Y. lia.
Qed.

(* an untouched peer keeps its entry *)
Lemma entry_kept g g' keep q : OWF g -> OWF g' -> g_anns g' = filter keep (g_anns g) ->
  (forall b, In b (g_anns g) -> o_peer b = q -> keep b = true) ->
  peer_find q (g_peers g') = peer_find q (g_peers g).
Proof.
  intros W W' E K. rewrite (ow_peers _ _ W' q), (ow_peers _ _ W q).
  assert (F : filter (from_peer q) (g_anns g') = filter (from_peer q) (g_anns g)).
  { rewrite E, filter_filter_and2. apply filter_ext_in. intros b Hb. destruct (from_peer q b) eqn:Fb; [|apply andb_false_r].
    apply from_peer_true in Fb. rewrite (K b Hb Fb). reflexivity. }
  unfold recompute_peer. rewrite F. reflexivity.
Qed.

Lemma limit_inner_spec worst max_lat max_mem thr : forall fuel g,
  OWF g -> (length (g_anns g) <= fuel)%nat -> In worst (map fst (g_peers g)) ->
  let g' := limit_inner fuel g worst max_lat max_mem thr in
  OWF g' /\ same_params g g' /\
  (exists keep, g_anns g' = filter keep (g_anns g) /\ (forall b, In b (g_anns g) -> keep b = false -> o_peer b = worst)) /\
  (needs_trim g = true -> (length (g_anns g') < length (g_anns g))%nat) /\
  (needs_trim g = false -> g' = g) /\
  (needs_trim g' = false \/ ~ In worst (map fst (g_peers g')) \/
   exists d, peer_find worst (g_peers g') = Some d /\ rns_le (dos_score d max_lat max_mem) thr = true).
Proof.
  induction fuel as [|f IH]; intros g W Hf Hw; cbn [limit_inner]; cbv zeta.
  - (* no fuel: the pool is empty, which contradicts the presence of `worst` *)
    exfalso. apply (entry_present g worst W) in Hw. destruct Hw as [a [Ha _]]. destruct (g_anns g); [contradiction|cbn in Hf; lia].
  - destruct (needs_trim g) eqn:NT; cbn [negb].
    2:{ split; [exact W|]. split; [repeat split; reflexivity|]. split.
        { exists (fun _ => true). split; [|discriminate]. symmetry. apply filter_all_true_o. auto. }
        split; [discriminate|]. split; [reflexivity|]. left. exact NT. }
    pose proof Hw as Hw'. apply (entry_present g worst W) in Hw'. destruct Hw' as [a0 [Ha0 Ea0]].
    assert (NE : filter (from_peer worst) (g_anns g) <> []).
    { intros E. assert (X : In a0 (filter (from_peer worst) (g_anns g))) by (apply filter_In; split; auto; apply from_peer_true; auto).
      rewrite E in X. contradiction. }
    destruct (first_of_some peer_order_lt _ NE) as [a [Fa Ha]]. unfold first_of_peer. rewrite Fa.
    apply filter_In in Ha. destruct Ha as [Ha Pa]. apply from_peer_true in Pa.
    destruct (erase_ann_spec tx_of tx_wtxid tx_inputs_weight tx_weight_nonneg g a W Ha) as [I1 [W1 [S1 [M1 R1]]]].
    pose proof (drop_key_length (g_anns g) a (ow_keys _ _ W) Ha) as DL.
    assert (K1 : exists keep, g_anns (erase_ann g a) = filter keep (g_anns g) /\ (forall b, In b (g_anns g) -> keep b = false -> o_peer b = worst)).
    { exists (fun b => negb (is_oann (o_wtxid a) (o_peer a) b)). split; [exact I1|].
      intros b Hb Kb. apply negb_false_iff, is_oann_true in Kb. unfold akey in Kb. inversion Kb. congruence. }
    assert (Shorter : (length (g_anns (erase_ann g a)) < length (g_anns g))%nat) by (rewrite I1; lia).
    destruct (peer_find worst (g_peers (erase_ann g a))) as [d|] eqn:Fd.
    + destruct (rns_le (dos_score d max_lat max_mem) thr) eqn:RL.
      * split; [exact W1|]. split; [repeat split; auto|]. split; [exact K1|]. split; [auto|]. split; [discriminate|].
        right. right. exists d. auto.
      * assert (Hw1 : In worst (map fst (g_peers (erase_ann g a)))) by (apply peer_find_in; rewrite Fd; discriminate).
        assert (Hf1 : (length (g_anns (erase_ann g a)) <= f)%nat) by lia.
        destruct (IH (erase_ann g a) W1 Hf1 Hw1) as [W2 [[P1 [P2 P3]] [[keep2 [I2 K2]] [L2 [_ EX]]]]].
        split; [exact W2|]. split; [repeat split; congruence|]. split.
        { destruct K1 as [keep1 [I1' K1']]. exists (fun b => keep1 b && keep2 b). split.
          - rewrite I2, I1', filter_filter_and2. reflexivity.
          - intros b Hb Kb. destruct (keep1 b) eqn:E1; [|apply K1'; auto]. cbn [andb] in Kb.
            apply K2; auto. rewrite I1'. apply filter_In. auto. }
        split; [intros _; destruct (needs_trim (erase_ann g a)) eqn:NT1; [specialize (L2 eq_refl); lia|]|].
        { (* the recursive call did nothing *)
          destruct (IH (erase_ann g a) W1 Hf1 Hw1) as [_ [_ [_ [_ [Same _]]]]]. rewrite (Same NT1). exact Shorter. }
        split; [discriminate|exact EX].
    + split; [exact W1|]. split; [repeat split; auto|]. split; [exact K1|]. split; [auto|]. split; [discriminate|].
      right. left. intros X. apply peer_find_in in X. congruence.
Qed.

(* the heap of LimitOrphans: its entries are present peers with their current score, all from the initial set D0 of
   peers over their share, and every present peer over its share is in it *)
Definition heap_ok (g : orph) (max_lat max_mem : Z) (D0 : Z -> Prop) (h : list (Z * feefrac)) : Prop :=
  NoDup (map fst h) /\
  (forall q s, In (q, s) h -> D0 q /\ exists d, peer_find q (g_peers g) = Some d /\ s = dos_score d max_lat max_mem) /\
  (forall q d, peer_find q (g_peers g) = Some d -> ratio_gt (dos_score d max_lat max_mem) FF_ONE = true -> In q (map fst h)).

Lemma heap_remove_spec p h x : In x (heap_remove p h) <-> In x h /\ fst x <> p.
Proof. unfold heap_remove. rewrite filter_In, negb_true_iff, Z.eqb_neq. tauto. Qed.

Lemma nodup_map_filter {A B} (f : A -> B) (P : A -> bool) l : NoDup (map f l) -> NoDup (map f (filter P l)).
Proof.
  induction l as [|x l IH]; intros N; [constructor|]. simpl in N. inversion N; subst. cbn [filter].
  destruct (P x); [|auto]. simpl. constructor; [|auto]. intros H. apply H1. apply in_map_iff in H.
  destruct H as [y [Ey Hy]]. apply filter_In in Hy. apply in_map_iff. exists y. tauto.
Qed.

Lemma limit_outer_spec max_lat D0 : forall fuel g h,
  OWF g -> needs_trim g = true -> heap_ok g max_lat (g_reserved g) D0 h ->
  (length (g_anns g) < fuel)%nat -> 0 < max_lat -> max_lat * n_peers g <= g_maxlat g ->
  let g' := limit_outer fuel g h max_lat (g_reserved g) in
  OWF g' /\ same_params g g' /\ needs_trim g' = false /\
  (exists keep, g_anns g' = filter keep (g_anns g) /\ (forall b, In b (g_anns g) -> keep b = false -> D0 (o_peer b))).
Proof.
  induction fuel as [|f IH]; intros g h W NT HO Hf Pl Hn; [lia|]. cbn [limit_outer]; cbv zeta.
  destruct HO as [HN [HE HC]].
  pose proof (ow_maxlat _ _ W) as Hml. pose proof (ow_reserved _ _ W) as Hres. unfold MAXLAT_LIMIT in Hml.
  (* some peer is over its share *)
  assert (Dosy : exists q d, peer_find q (g_peers g) = Some d /\ ratio_gt (dos_score d max_lat (g_reserved g)) FF_ONE = true).
  { destruct (existsb (fun e => ratio_gt (dos_score (snd e) max_lat (g_reserved g)) FF_ONE) (g_peers g)) eqn:E.
    - apply existsb_exists in E. destruct E as [[q d] [He Hs]]. exists q, d. split; [|exact Hs].
      rewrite (entry_found g q W) by (apply in_map_iff; exists (q, d); auto). f_equal.
      (* the entry found is the entry listed (keys are unique) *)
      assert (F : peer_find q (g_peers g) = Some d).
      { clear -He W. pose proof (ow_pnodup _ _ W) as N. induction (g_peers g) as [|[r e] l IHl]; [contradiction|].
        simpl in N. inversion N; subst. cbn [peer_find]. destruct He as [He|He].
        - inversion He; subst. rewrite Z.eqb_refl. reflexivity.
        - destruct (r =? q) eqn:Er; [|apply IHl; auto]. apply Z.eqb_eq in Er. subst r. exfalso. apply H1.
          apply in_map_iff. exists (q, d). auto. }
      symmetry. eapply entry_value; eauto.
    - exfalso. assert (X : needs_trim g = false); [|congruence].
      apply (within_if_no_dosy g max_lat W Pl Hn). intros q d F.
      destruct (ratio_gt (dos_score d max_lat (g_reserved g)) FF_ONE) eqn:G; [|reflexivity].
      assert (Y : existsb (fun e => ratio_gt (dos_score (snd e) max_lat (g_reserved g)) FF_ONE) (g_peers g) = true).
      { apply existsb_exists. exists (q, d). split; [|exact G]. clear -F. induction (g_peers g) as [|[r e] l IHl]; [discriminate|].
        cbn [peer_find] in F. destruct (r =? q) eqn:Er; [apply Z.eqb_eq in Er; inversion F; subst; left; reflexivity|right; auto]. }
      congruence. }
  destruct Dosy as [q0 [d0 [F0 G0]]]. pose proof (HC q0 d0 F0 G0) as Hq0.
  assert (Wl : wrap32 max_lat = max_lat).
  { apply wrap32_id. unfold INT32_MIN, INT32_MAX.
    assert (1 <= n_peers g).
    { unfold n_peers. assert (In q0 (map fst (g_peers g))) by (apply peer_find_in; rewrite F0; discriminate).
      destruct (g_peers g); [contradiction|cbn [length]; lia]. }
    assert (max_lat <= g_maxlat g) by nia. lia. }
  assert (Wm : wrap32 (g_reserved g) = g_reserved g) by (apply wrap32_id; unfold INT32_MIN, INT32_MAX in *; lia).
  assert (Pos : forall y, In y h -> ff_pos (snd y)).
  { intros [q s] Hy. destruct (HE q s Hy) as [_ [d [_ ->]]]. apply dos_score_pos; lia. }
  destruct (heap_top h) as [[worst score]|] eqn:HT.
  2:{ apply heap_top_none in HT. subst h. contradiction. }
  pose proof (heap_top_in h _ HT) as Hin. destruct (HE worst score Hin) as [Dw [dw [Fw Sw]]].
  assert (Gs : ratio_gt score FF_ONE = true).
  { apply (heap_top_gt_one h (worst, score) Pos HT). apply in_map_iff in Hq0. destruct Hq0 as [[q s] [Eq Hq]]. cbn [fst] in Eq. subst q.
    exists (q0, s). split; auto. destruct (HE q0 s Hq) as [_ [d [Fd ->]]]. cbn [snd]. rewrite F0 in Fd. inversion Fd; subst. exact G0. }
  rewrite Gs. set (h1 := heap_remove worst h).
  set (thr := match heap_top h1 with Some (_, s) => s | None => FF_ONE end).
  assert (Hw : In worst (map fst (g_peers g))) by (apply peer_find_in; rewrite Fw; discriminate).
  destruct (limit_inner_spec worst max_lat (g_reserved g) thr (length (g_anns g)) g W (le_n _) Hw)
    as [W1 [[P1 [P2 P3]] [[keep1 [I1 K1]] [L1 [_ EX]]]]].
  set (g1 := limit_inner (length (g_anns g)) g worst max_lat (g_reserved g) thr) in *.
  assert (KD : forall b, In b (g_anns g) -> keep1 b = false -> D0 (o_peer b)).
  { intros b Hb Kb. rewrite (K1 b Hb Kb). exact Dw. }
  destruct (needs_trim g1) eqn:NT1; cbn [negb].
  2:{ split; [exact W1|]. split; [repeat split; auto|]. split; [exact NT1|]. exists keep1. auto. }
  (* continue with the heap after the push-back *)
  set (h2 := match peer_find worst (g_peers g1) with
             | Some d => if 0 <? pd_count d then (worst, dos_score d max_lat (g_reserved g)) :: h1 else h1
             | None => h1 end).
  assert (Kept : forall q, q <> worst -> peer_find q (g_peers g1) = peer_find q (g_peers g)).
  { intros q Nq. apply (entry_kept g g1 keep1 q W W1 I1). intros b Hb Eb.
    destruct (keep1 b) eqn:Kb; [reflexivity|]. exfalso. apply Nq. rewrite <- Eb. apply K1; auto. }
  assert (H1in : forall x, In x h1 <-> In x h /\ fst x <> worst) by (intros; apply heap_remove_spec).
  assert (N1 : NoDup (map fst h1)) by (apply nodup_map_filter; exact HN).
  assert (NW1 : ~ In worst (map fst h1)).
  { intros X. apply in_map_iff in X. destruct X as [x [Ex Hx]]. apply H1in in Hx. tauto. }
  assert (HO2 : heap_ok g1 max_lat (g_reserved g1) D0 h2).
  { rewrite P2. split; [|split].
    - unfold h2. destruct (peer_find worst (g_peers g1)) as [d|]; [|exact N1].
      destruct (0 <? pd_count d); [|exact N1]. cbn [map fst]. constructor; auto.
    - intros q s Hqs.
      assert (Old : In (q, s) h1 -> D0 q /\ exists d, peer_find q (g_peers g1) = Some d /\ s = dos_score d max_lat (g_reserved g)).
      { intros X. apply H1in in X. destruct X as [X Nq]. cbn [fst] in Nq. destruct (HE q s X) as [A [d [B C]]].
        split; auto. exists d. rewrite Kept by auto. auto. }
      unfold h2 in Hqs. destruct (peer_find worst (g_peers g1)) as [d|] eqn:Fd; [|auto].
      destruct (0 <? pd_count d); [|auto]. destruct Hqs as [E|X]; [|auto]. inversion E; subst. split; auto. exists d. auto.
    - intros q d Fd Gd. destruct (Z.eq_dec q worst) as [->|Nq].
      + unfold h2. rewrite Fd.
        assert (Cd : 0 < pd_count d).
        { rewrite (entry_value g1 worst d W1 Fd). unfold recompute_peer. cbn [pd_count].
          assert (X : In worst (map fst (g_peers g1))) by (apply peer_find_in; rewrite Fd; discriminate).
          apply (entry_present g1 worst W1) in X. destruct X as [a [Ha Ea]].
          assert (Y : In a (filter (from_peer worst) (g_anns g1))) by (apply filter_In; split; auto; apply from_peer_true; auto).
          destruct (filter (from_peer worst) (g_anns g1)); [contradiction|cbn [length]; lia]. }
        apply Z.ltb_lt in Cd. rewrite Cd. left. reflexivity.
      + rewrite Kept in Fd by auto. pose proof (HC q d Fd Gd) as X. apply in_map_iff in X. destruct X as [[q' s] [Eq Hx]].
        cbn [fst] in Eq. subst q'. assert (Y : In (q, s) h1) by (apply H1in; split; auto).
        unfold h2. destruct (peer_find worst (g_peers g1)) as [dw'|]; [destruct (0 <? pd_count dw')|];
          try (right); apply in_map_iff; exists (q, s); auto. }
  assert (Hf2 : (length (g_anns g1) < f)%nat) by (specialize (L1 NT); lia).
  assert (Hn2 : max_lat * n_peers g1 <= g_maxlat g1).
  { rewrite P1. pose proof (peers_shrink g g1 keep1 W W1 I1). assert (0 <= n_peers g1) by (unfold n_peers; lia). nia. }
  destruct (IH g1 h2 W1 NT1 HO2 Hf2 Pl Hn2) as [W2 [[Q1 [Q2 Q3]] [NT2 [keep2 [I2 K2]]]]].
  rewrite P2 in *. fold h2. split; [exact W2|]. split; [repeat split; congruence|]. split; [exact NT2|].
  exists (fun b => keep1 b && keep2 b). split.
  - rewrite I2, I1, filter_filter_and2. reflexivity.
  - intros b Hb Kb. destruct (keep1 b) eqn:E1; [|apply KD; auto]. cbn [andb] in Kb.
    apply K2; auto. rewrite I1. apply filter_In. auto.
Qed.

(* LimitOrphans *)
Definition dosy_at (g : orph) (q : Z) : Prop :=
  exists d, peer_find q (g_peers g) = Some d /\
            ratio_gt (dos_score d (max_peer_latency g) (g_reserved g)) FF_ONE = true.

Theorem limit_orphans_spec g : OWF g -> n_peers g <= g_maxlat g ->
  let g' := limit_orphans g in
  OWF g' /\ same_params g g' /\ needs_trim g' = false /\
  (exists keep, g_anns g' = filter keep (g_anns g) /\ (forall b, In b (g_anns g) -> keep b = false -> dosy_at g (o_peer b))) /\
  (needs_trim g = false -> g' = g).
Proof.
  intros W Hnp. unfold limit_orphans. destruct (needs_trim g) eqn:NT; cbn [negb].
  2:{ split; [exact W|]. split; [repeat split; reflexivity|]. split; [exact NT|]. split; [|reflexivity].
      exists (fun _ => true). split; [symmetry; apply filter_all_true_o; auto|discriminate]. }
  pose proof (ow_maxlat _ _ W) as Hml. pose proof (ow_reserved _ _ W) as Hres. unfold MAXLAT_LIMIT in Hml.
  assert (Nn : 0 <= n_peers g) by (unfold n_peers; lia).
  assert (Wn : wrapu32 (n_peers g) = n_peers g) by (apply wrapu32_id; unfold UINT32_MAX; lia).
  set (max_lat := max_peer_latency g).
  assert (Pl : 0 < max_lat).
  { unfold max_lat, max_peer_latency. rewrite Wn. apply Z.div_str_pos. lia. }
  assert (Hn : max_lat * n_peers g <= g_maxlat g).
  { unfold max_lat, max_peer_latency. rewrite Wn. destruct (Z.max_spec (n_peers g) 1) as [[A ->]|[A ->]].
    - assert (n_peers g = 0) by lia. nia.
    - rewrite Z.mul_comm. apply Z.mul_div_le. lia. }
  assert (Pm : (0 <? g_reserved g) = true) by (apply Z.ltb_lt; lia).
  assert (Plb : (0 <? max_lat) = true) by (apply Z.ltb_lt; lia).
  rewrite Plb, Pm. cbn [andb].
  set (h := filter (fun x => ratio_gt (snd x) FF_ONE) (map (fun e => (fst e, dos_score (snd e) max_lat (g_reserved g))) (g_peers g))).
  assert (PF : forall q d, In (q, d) (g_peers g) <-> peer_find q (g_peers g) = Some d).
  { pose proof (ow_pnodup _ _ W) as N. clear -N. induction (g_peers g) as [|[r e] l IHl]; intros q d.
    - split; [contradiction|discriminate].
    - simpl in N. inversion N; subst. cbn [peer_find]. split.
      + intros [E|E]; [inversion E; subst; rewrite Z.eqb_refl; reflexivity|].
        destruct (r =? q) eqn:Er; [|apply IHl; auto]. apply Z.eqb_eq in Er. subst. exfalso. apply H1. apply in_map_iff. exists (q, d). auto.
      + destruct (r =? q) eqn:Er; [apply Z.eqb_eq in Er; intros E; inversion E; subst; left; reflexivity|].
        intros E. right. apply IHl; auto. }
  assert (HO : heap_ok g max_lat (g_reserved g) (dosy_at g) h).
  { split; [|split].
    - unfold h. apply nodup_map_filter. rewrite map_map. cbn [fst]. apply (ow_pnodup _ _ W).
    - intros q s Hqs. unfold h in Hqs. apply filter_In in Hqs. destruct Hqs as [Hm Gs]. apply in_map_iff in Hm.
      destruct Hm as [[q' d] [E Hd]]. cbn [fst snd] in E. inversion E; subst. apply PF in Hd. cbn [snd] in Gs.
      split; [exists d; auto|exists d; auto].
    - intros q d Fd Gd. apply in_map_iff. exists (q, dos_score d max_lat (g_reserved g)). split; [reflexivity|].
      unfold h. apply filter_In. split; [|exact Gd]. apply in_map_iff. exists (q, d). split; [reflexivity|]. apply PF. exact Fd. }
  destruct (limit_outer_spec max_lat (dosy_at g) (S (length (g_anns g))) g h W NT HO (Nat.lt_succ_diag_r _) Pl Hn)
    as [W' [SP [NT' KK]]].
  split; [exact W'|]. split; [exact SP|]. split; [exact NT'|]. split; [exact KK|discriminate].
Qed.

End Limit.
