(* C45 — proofs about the bech32 model (model/Bech32.v): GF(2)-linearity of PolyMod, checksum creation /
   verification, Encode/Decode round trip, canonical-form soundness of Decode. *)
From Coq Require Import NArith Btauto Lia.
From BV Require Import lib.Ints model.Bech32.
Local Open Scope N_scope.

(* ---------------------------------------------------------------------------------------------- *)
(* bit-level helpers *)

Lemma testbit_gsel : forall b g k, N.testbit (gsel b g) k = b && N.testbit g k.
Proof. intros [] g k; simpl; auto using N.bits_0. Qed.

Lemma testbit_shiftl5 : forall x k, N.testbit (N.shiftl x 5) k = negb (k <? 5) && N.testbit x (k - 5).
Proof.
  intros x k. destruct (N.ltb_spec k 5) as [H|H]; simpl.
  - apply N.shiftl_spec_low; assumption.
  - apply N.shiftl_spec_high'; assumption.
Qed.

Lemma polymod_step_bit : forall c v k,
  N.testbit (polymod_step c v) k =
  xorb (xorb (xorb (xorb (xorb (xorb (negb (k <? 5) && (N.testbit c (k - 5) && N.testbit 0x1ffffff (k - 5))) (N.testbit v k))
    (N.testbit c 25 && N.testbit GEN0 k)) (N.testbit c 26 && N.testbit GEN1 k)) (N.testbit c 27 && N.testbit GEN2 k))
    (N.testbit c 28 && N.testbit GEN3 k)) (N.testbit c 29 && N.testbit GEN4 k).
Proof.
  intros c v k. unfold polymod_step.
  rewrite !N.lxor_spec, !testbit_gsel, testbit_shiftl5, N.land_spec, !N.shiftr_spec by apply N.le_0_l.
  reflexivity.
Qed.

(* PolyMod's step is linear over GF(2): XOR of states and symbols commutes with the step *)
Lemma polymod_step_lxor : forall c1 c2 v1 v2,
  polymod_step (N.lxor c1 c2) (N.lxor v1 v2) = N.lxor (polymod_step c1 v1) (polymod_step c2 v2).
Proof.
  intros. apply N.bits_inj; intro k.
  rewrite N.lxor_spec, !polymod_step_bit, !N.lxor_spec. btauto.
Qed.

Lemma polymod_step_0_0 : polymod_step 0 0 = 0.
Proof. reflexivity. Qed.

(* element-wise XOR of two symbol strings *)
Fixpoint xorl (a b : list N) : list N :=
  match a, b with x :: a', y :: b' => N.lxor x y :: xorl a' b' | _, _ => [] end.

Lemma polymod_from_lxor : forall l1 l2 c1 c2, length l1 = length l2 ->
  polymod_from (N.lxor c1 c2) (xorl l1 l2) = N.lxor (polymod_from c1 l1) (polymod_from c2 l2).
Proof.
  unfold polymod_from.
  induction l1 as [|x l1 IH]; intros [|y l2] c1 c2 Hlen; simpl in *; try discriminate; auto.
  rewrite polymod_step_lxor. apply IH. lia.
Qed.

Lemma polymod_from_app : forall l1 l2 c, polymod_from c (l1 ++ l2) = polymod_from (polymod_from c l1) l2.
Proof. intros. unfold polymod_from. apply fold_left_app. Qed.

Lemma polymod_from_zeros : forall n, polymod_from 0 (repeat 0 n) = 0.
Proof. induction n; simpl; auto. Qed.

Lemma xorl_zeros_l : forall l, xorl (repeat 0 (length l)) l = l.
Proof. induction l; simpl; auto. rewrite IHl. reflexivity. Qed.
Lemma xorl_zeros_r : forall l, xorl l (repeat 0 (length l)) = l.
Proof. induction l; simpl; auto. rewrite IHl, N.lxor_0_r. reflexivity. Qed.

(* the state after a suffix = state as if the suffix were zeros, XOR the contribution of the suffix alone *)
Lemma polymod_from_suffix : forall c l,
  polymod_from c l = N.lxor (polymod_from c (repeat 0 (length l))) (polymod_from 0 l).
Proof.
  intros c l.
  rewrite <- polymod_from_lxor by (rewrite repeat_length; reflexivity).
  rewrite N.lxor_0_r, xorl_zeros_l. reflexivity.
Qed.

(* ---------------------------------------------------------------------------------------------- *)
(* small values: bits above the bound are clear *)
Lemma testbit_small : forall a n k, a < 2 ^ n -> n <= k -> N.testbit a k = false.
Proof.
  intros a n k Ha Hk. destruct (N.eq_dec a 0) as [->|Hz]; [apply N.bits_0|].
  apply N.bits_above_log2. apply N.log2_lt_pow2 in Ha; lia.
Qed.

Lemma small_of_bits : forall a n, (forall k, n <= k -> N.testbit a k = false) -> a < 2 ^ n.
Proof.
  intros a n H. destruct (N.eq_dec a 0) as [->|Hz].
  - apply N.neq_0_lt_0, N.pow_nonzero; discriminate.
  - apply N.log2_lt_pow2; [lia|].
    destruct (N.lt_ge_cases (N.log2 a) n) as [|Hge]; auto.
    specialize (H _ Hge). rewrite N.bit_log2 in H by assumption. discriminate.
Qed.

Lemma lxor_small : forall a b n, a < 2 ^ n -> b < 2 ^ n -> N.lxor a b < 2 ^ n.
Proof.
  intros a b n Ha Hb. apply small_of_bits. intros k Hk.
  rewrite N.lxor_spec, (testbit_small a n k), (testbit_small b n k); auto.
Qed.

Lemma gsel_small : forall b g, g < 2 ^ 30 -> gsel b g < 2 ^ 30.
Proof. intros [] g H; simpl; auto. reflexivity. Qed.

(* the uint32_t state never needs more than 30 bits *)
Lemma polymod_step_lt : forall c v, v < 2 ^ 30 -> polymod_step c v < 2 ^ 30.
Proof.
  intros c v Hv. unfold polymod_step.
  repeat apply lxor_small; auto; try (apply gsel_small; reflexivity).
  apply small_of_bits. intros k Hk.
  rewrite testbit_shiftl5, N.land_spec.
  change 0x1ffffff with (N.ones 25).
  destruct (N.ltb_spec k 5) as [Hk5|Hk5]; [reflexivity|].
  rewrite N.ones_spec_high by (change (2 ^ 30) with 1073741824 in *; lia).
  rewrite Bool.andb_false_r. reflexivity.
Qed.

Lemma polymod_from_lt : forall l c, c < 2 ^ 30 -> Forall (fun v => v < 2 ^ 30) l -> polymod_from c l < 2 ^ 30.
Proof.
  unfold polymod_from. induction l as [|v l IH]; intros c Hc Hl; simpl; auto.
  inversion Hl; subst. apply IH; auto. apply polymod_step_lt; auto.
Qed.

(* with the top five bits clear the step is a plain shift-and-insert *)
Lemma polymod_step_small : forall c v, c < 2 ^ 25 -> polymod_step c v = N.lxor (N.shiftl c 5) v.
Proof.
  intros c v Hc. apply N.bits_inj; intro k.
  rewrite polymod_step_bit, N.lxor_spec, testbit_shiftl5.
  rewrite (testbit_small c 25 25), (testbit_small c 25 26), (testbit_small c 25 27),
          (testbit_small c 25 28), (testbit_small c 25 29) by (auto; lia).
  change 0x1ffffff with (N.ones 25).
  rewrite !Bool.andb_false_l, !Bool.xorb_false_r. f_equal. f_equal.
  destruct (N.lt_ge_cases (k - 5) 25) as [Hlt|Hge].
  - rewrite N.ones_spec_low by assumption. apply Bool.andb_true_r.
  - rewrite (testbit_small c 25) by auto. reflexivity.
Qed.

Lemma shiftl5_lxor_add : forall x s, s < 32 -> N.lxor (N.shiftl x 5) s = x * 32 + s.
Proof.
  intros x s Hs. rewrite N.shiftl_mul_pow2. change (2 ^ 5) with 32.
  symmetry. apply N.add_nocarry_lxor.
  apply N.bits_inj; intro k. rewrite N.land_spec, N.bits_0.
  destruct (N.lt_ge_cases k 5) as [Hlt|Hge].
  - change 32 with (2 ^ 5). rewrite N.mul_pow2_bits_low by assumption. reflexivity.
  - rewrite (testbit_small s 5) by (auto; exact Hs). apply Bool.andb_false_r.
Qed.

Lemma polymod_step_small_add : forall c v, c < 2 ^ 25 -> v < 32 -> polymod_step c v = c * 32 + v.
Proof. intros. rewrite polymod_step_small, shiftl5_lxor_add; auto. Qed.

(* six symbols fed into a zero state are simply packed, most significant first *)
Definition pack6 (a b c d e f : N) : N := ((((a * 32 + b) * 32 + c) * 32 + d) * 32 + e) * 32 + f.

Lemma polymod_from_0_six : forall a b c d e f, a < 32 -> b < 32 -> c < 32 -> d < 32 -> e < 32 -> f < 32 ->
  polymod_from 0 [a; b; c; d; e; f] = pack6 a b c d e f.
Proof.
  intros. unfold polymod_from, pack6. simpl fold_left.
  rewrite (polymod_step_small_add 0 a) by (auto; reflexivity).
  rewrite N.mul_0_l, N.add_0_l.
  rewrite (polymod_step_small_add a b) by (auto; change (2 ^ 25) with 33554432; lia).
  rewrite (polymod_step_small_add (a * 32 + b) c) by (auto; change (2 ^ 25) with 33554432; lia).
  rewrite (polymod_step_small_add ((a * 32 + b) * 32 + c) d) by (auto; change (2 ^ 25) with 33554432; lia).
  rewrite (polymod_step_small_add (((a * 32 + b) * 32 + c) * 32 + d) e) by (auto; change (2 ^ 25) with 33554432; lia).
  rewrite (polymod_step_small_add ((((a * 32 + b) * 32 + c) * 32 + d) * 32 + e) f) by (auto; change (2 ^ 25) with 33554432; lia).
  reflexivity.
Qed.

Definition sym (md i : N) : N := N.land (N.shiftr md (5 * (5 - i))) 31.
Lemma sym_spec : forall md i, sym md i = (md / 2 ^ (5 * (5 - i))) mod 32.
Proof. intros. unfold sym. rewrite N.shiftr_div_pow2. change 31 with (N.ones 5). rewrite N.land_ones. reflexivity. Qed.

Lemma sym_lt : forall md i, sym md i < 32.
Proof. intros. rewrite sym_spec. apply N.mod_lt. discriminate. Qed.

(* lia does not know N.div / N.modulo: name quotient and remainder and give it the defining facts *)
Ltac ndivmod x d :=
  let q := fresh "q" in let r := fresh "r" in
  let H1 := fresh "Hdm" in let H2 := fresh "Hlt" in
  assert (H1 := N.div_mod x d ltac:(discriminate)); assert (H2 := N.mod_lt x d ltac:(discriminate));
  set (q := x / d) in *; set (r := x mod d) in *; clearbody q r.

Lemma pow32_chain : forall md,
  md / 2 ^ (5 * (5 - 0)) = md / 32 / 32 / 32 / 32 / 32 /\ md / 2 ^ (5 * (5 - 1)) = md / 32 / 32 / 32 / 32 /\
  md / 2 ^ (5 * (5 - 2)) = md / 32 / 32 / 32 /\ md / 2 ^ (5 * (5 - 3)) = md / 32 / 32 /\
  md / 2 ^ (5 * (5 - 4)) = md / 32 /\ md / 2 ^ (5 * (5 - 5)) = md.
Proof.
  intros md. rewrite !N.div_div by discriminate.
  change (2 ^ (5 * (5 - 0))) with (32 * 32 * 32 * 32 * 32). change (2 ^ (5 * (5 - 1))) with (32 * 32 * 32 * 32).
  change (2 ^ (5 * (5 - 2))) with (32 * 32 * 32). change (2 ^ (5 * (5 - 3))) with (32 * 32).
  change (2 ^ (5 * (5 - 4))) with 32. change (2 ^ (5 * (5 - 5))) with 1.
  rewrite N.div_1_r. repeat split; reflexivity.
Qed.

Lemma pack_unpack : forall md, md < 2 ^ 30 ->
  pack6 (sym md 0) (sym md 1) (sym md 2) (sym md 3) (sym md 4) (sym md 5) = md.
Proof.
  intros md H. rewrite !sym_spec. unfold pack6.
  destruct (pow32_chain md) as (-> & -> & -> & -> & -> & ->).
  change (2 ^ 30) with 1073741824 in H.
  ndivmod md 32. ndivmod q 32. ndivmod q0 32. ndivmod q1 32. ndivmod q2 32. ndivmod q3 32. lia.
Qed.

Lemma div32_step : forall x f, f < 32 -> (x * 32 + f) / 32 = x.
Proof. intros. rewrite N.div_add_l by discriminate. rewrite N.div_small by assumption. apply N.add_0_r. Qed.
Lemma mod32_step : forall x f, f < 32 -> (x * 32 + f) mod 32 = f.
Proof. intros. rewrite N.add_comm, N.mod_add by discriminate. apply N.mod_small; assumption. Qed.

Lemma unpack_pack : forall a b c d e f, a < 32 -> b < 32 -> c < 32 -> d < 32 -> e < 32 -> f < 32 ->
  let md := pack6 a b c d e f in
  [sym md 0; sym md 1; sym md 2; sym md 3; sym md 4; sym md 5] = [a; b; c; d; e; f].
Proof.
  intros a b c d e f Ha Hb Hc Hd He Hf md. rewrite !sym_spec.
  destruct (pow32_chain md) as (-> & -> & -> & -> & -> & ->).
  subst md. unfold pack6.
  rewrite !div32_step by assumption. rewrite !mod32_step by assumption.
  rewrite (N.mod_small a 32) by assumption. reflexivity.
Qed.

(* ---------------------------------------------------------------------------------------------- *)
(* CreateChecksum / VerifyChecksum *)
Definition chars_ok (l : list N) : Prop := Forall (fun c => c < 256) l.
Definition syms_ok (l : list N) : Prop := Forall (fun v => v < 32) l.

Lemma prepare_app : forall hrp v w, prepare hrp (v ++ w) = prepare hrp v ++ w.
Proof. intros. unfold prepare. rewrite app_assoc. simpl. rewrite <- !app_assoc. simpl. rewrite <- app_assoc. reflexivity. Qed.

Lemma hrp_hi_lt : forall c, c < 256 -> hrp_hi c < 2 ^ 30.
Proof.
  intros c Hc. unfold hrp_hi. rewrite N.shiftr_div_pow2. change (2 ^ 5) with 32. change (2 ^ 30) with 1073741824.
  assert (c / 32 <= c) by (apply N.div_le_upper_bound; lia).
  destruct (c <? 128); lia.
Qed.
Lemma hrp_lo_lt : forall c, hrp_lo c < 32.
Proof. intros. unfold hrp_lo. change 31 with (N.ones 5). rewrite N.land_ones. apply N.mod_lt. discriminate. Qed.

Lemma prepare_small : forall hrp values, chars_ok hrp -> syms_ok values ->
  Forall (fun v => v < 2 ^ 30) (prepare hrp values).
Proof.
  intros hrp values Hh Hv. unfold prepare.
  apply Forall_app; split.
  - apply Forall_map. eapply Forall_impl; [|exact Hh]. intros; apply hrp_hi_lt; assumption.
  - constructor; [reflexivity|]. apply Forall_app; split.
    + apply Forall_map. eapply Forall_impl; [|exact Hh]. intros a _. pose proof (hrp_lo_lt a). change (2 ^ 30) with 1073741824. lia.
    + eapply Forall_impl; [|exact Hv]. intros a Ha. simpl in Ha. change (2 ^ 30) with 1073741824. lia.
Qed.

Definition checksum_md (e : encoding) (hrp values : list N) : N :=
  N.lxor (polymod (prepare hrp values ++ repeat 0 CHECKSUM_SIZE_N)) (encoding_constant e).

Lemma create_checksum_syms : forall e hrp values,
  create_checksum e hrp values =
  let md := checksum_md e hrp values in [sym md 0; sym md 1; sym md 2; sym md 3; sym md 4; sym md 5].
Proof. reflexivity. Qed.

Lemma create_checksum_ok : forall e hrp values, syms_ok (create_checksum e hrp values).
Proof. intros. rewrite create_checksum_syms. cbv zeta. repeat constructor; apply sym_lt. Qed.

Lemma create_checksum_length : forall e hrp values, length (create_checksum e hrp values) = 6%nat.
Proof. reflexivity. Qed.

Lemma encoding_constant_lt : forall e, encoding_constant e < 2 ^ 30.
Proof. intros []; reflexivity. Qed.

Lemma checksum_md_lt : forall e hrp values, chars_ok hrp -> syms_ok values -> checksum_md e hrp values < 2 ^ 30.
Proof.
  intros. unfold checksum_md. apply lxor_small; [|apply encoding_constant_lt].
  unfold polymod. apply polymod_from_lt; [reflexivity|].
  apply Forall_app; split; [apply prepare_small; assumption|].
  unfold CHECKSUM_SIZE_N. repeat constructor.
Qed.

(* the PolyMod value of hrp/values followed by any six symbols *)
Lemma polymod_with_six : forall hrp values a b c d e f,
  a < 32 -> b < 32 -> c < 32 -> d < 32 -> e < 32 -> f < 32 ->
  polymod (prepare hrp (values ++ [a; b; c; d; e; f])) =
  N.lxor (polymod (prepare hrp values ++ repeat 0 CHECKSUM_SIZE_N)) (pack6 a b c d e f).
Proof.
  intros. unfold polymod. rewrite prepare_app, !polymod_from_app.
  rewrite (polymod_from_suffix _ [a; b; c; d; e; f]).
  rewrite polymod_from_0_six by assumption. reflexivity.
Qed.

(* VerifyChecksum accepts what CreateChecksum made, as exactly the encoding it was made for *)
Theorem verify_create_checksum : forall e hrp values, chars_ok hrp -> syms_ok values ->
  verify_checksum hrp (values ++ create_checksum e hrp values) = VEnc e.
Proof.
  intros e hrp values Hh Hv. unfold verify_checksum.
  rewrite create_checksum_syms. cbv zeta.
  rewrite polymod_with_six by apply sym_lt.
  rewrite pack_unpack by (apply checksum_md_lt; assumption).
  unfold checksum_md. rewrite <- N.lxor_assoc, N.lxor_nilpotent, N.lxor_0_l.
  destruct e; reflexivity.
Qed.

Lemma verdict_constant : forall check e,
  (if check =? encoding_constant BECH32 then VEnc BECH32
   else if check =? encoding_constant BECH32M then VEnc BECH32M else VInvalid) = VEnc e ->
  check = encoding_constant e.
Proof.
  intros check e. destruct (N.eqb_spec check (encoding_constant BECH32)) as [E|_].
  - intros [= <-]; assumption.
  - destruct (N.eqb_spec check (encoding_constant BECH32M)) as [E|_]; [|discriminate].
    intros [= <-]; assumption.
Qed.

(* ... and nothing else: six symbols that verify as encoding e ARE CreateChecksum(e) *)
Theorem verify_checksum_unique : forall e hrp values six, syms_ok six -> length six = 6%nat ->
  verify_checksum hrp (values ++ six) = VEnc e -> six = create_checksum e hrp values.
Proof.
  intros e hrp values six Hs Hlen Hv.
  destruct six as [|a [|b [|c [|d [|e0 [|f [|]]]]]]]; try discriminate.
  inversion Hs as [|? ? Ha Hs1]; subst. inversion Hs1 as [|? ? Hb Hs2]; subst. inversion Hs2 as [|? ? Hc Hs3]; subst.
  inversion Hs3 as [|? ? Hd Hs4]; subst. inversion Hs4 as [|? ? He Hs5]; subst. inversion Hs5 as [|? ? Hf _]; subst.
  simpl in Ha, Hb, Hc, Hd, He, Hf.
  unfold verify_checksum in Hv. apply verdict_constant in Hv.
  rewrite polymod_with_six in Hv by assumption.
  assert (Hp : pack6 a b c d e0 f = checksum_md e hrp values).
  { unfold checksum_md. rewrite <- Hv. rewrite <- N.lxor_assoc, N.lxor_nilpotent, N.lxor_0_l. reflexivity. }
  rewrite create_checksum_syms. cbv zeta. rewrite <- Hp.
  symmetry. apply unpack_pack; assumption.
Qed.

(* in particular a checksum made for one variant never verifies as the other *)
Corollary verify_never_other : forall e e' hrp values, chars_ok hrp -> syms_ok values ->
  verify_checksum hrp (values ++ create_checksum e hrp values) = VEnc e' -> e' = e.
Proof. intros e e' hrp values Hh Hv H. rewrite verify_create_checksum in H by assumption. congruence. Qed.

(* ---------------------------------------------------------------------------------------------- *)
(* Encode / Decode round trip *)

Definition char_of (i : N) : N := nth (N.to_nat i) CHARSET 0.

Lemma forall_below : forall (n : nat) (P : N -> bool),
  forallb P (map N.of_nat (seq 0 n)) = true -> forall i, i < N.of_nat n -> P i = true.
Proof.
  intros n P H i Hi. rewrite forallb_forall in H. apply H.
  apply in_map_iff. exists (N.to_nat i). split; [apply N2Nat.id|].
  apply in_seq. lia.
Qed.

(* facts about the two character tables, checked on all 32 symbols / all 128 codes *)
Definition charset_fact (i : N) : bool :=
  let c := char_of i in
  match nth_error CHARSET (N.to_nat i), nth_error CHARSET_REV (N.to_nat c) with
  | Some c', Some v => (c' =? c) && (v =? Z.of_N i)%Z && negb (is_upper c) && (33 <=? c) && (c <=? 126) && negb (c =? SEPARATOR)
                       && (lower_case c =? c)
  | _, _ => false
  end.
Lemma charset_facts : forall i, i < 32 -> charset_fact i = true.
Proof. apply (forall_below 32). vm_compute. reflexivity. Qed.

Lemma charset_nth : forall i, i < 32 -> nth_error CHARSET (N.to_nat i) = Some (char_of i).
Proof.
  intros i Hi. pose proof (charset_facts i Hi) as H. unfold charset_fact in H.
  destruct (nth_error CHARSET (N.to_nat i)) as [c'|]; [|discriminate].
  destruct (nth_error CHARSET_REV (N.to_nat (char_of i))); [|discriminate].
  repeat (apply Bool.andb_true_iff in H; destruct H as [H ?]).
  apply N.eqb_eq in H. congruence.
Qed.

Lemma charset_rev_nth : forall i, i < 32 -> nth_error CHARSET_REV (N.to_nat (char_of i)) = Some (Z.of_N i).
Proof.
  intros i Hi. pose proof (charset_facts i Hi) as H. unfold charset_fact in H.
  destruct (nth_error CHARSET (N.to_nat i)) as [c'|]; [|discriminate].
  destruct (nth_error CHARSET_REV (N.to_nat (char_of i))); [|discriminate].
  repeat (apply Bool.andb_true_iff in H; destruct H as [H ?]).
  match goal with E : (_ =? _)%Z = true |- _ => apply Z.eqb_eq in E; congruence end.
Qed.

(* a character that can stand in a lower-case bech32 string *)
Definition fine (c : N) : Prop := is_upper c = false /\ 33 <= c /\ c <= 126.

Lemma char_of_props : forall i, i < 32 ->
  fine (char_of i) /\ char_of i <> SEPARATOR /\ lower_case (char_of i) = char_of i.
Proof.
  intros i Hi. pose proof (charset_facts i Hi) as H. unfold charset_fact in H.
  destruct (nth_error CHARSET (N.to_nat i)) as [c'|]; [|discriminate].
  destruct (nth_error CHARSET_REV (N.to_nat (char_of i))); [|discriminate].
  repeat (apply Bool.andb_true_iff in H; destruct H as [H ?]).
  repeat match goal with
         | E : negb _ = true |- _ => apply Bool.negb_true_iff in E
         | E : (_ <=? _) = true |- _ => apply N.leb_le in E
         | E : (_ =? _) = true |- _ => apply N.eqb_eq in E
         | E : (_ =? _) = false |- _ => apply N.eqb_neq in E
         end.
  unfold fine. auto.
Qed.

Lemma charset_chars_ok : forall l, syms_ok l -> charset_chars l = Some (map char_of l).
Proof.
  induction l as [|i l IH]; intros H; simpl; auto.
  inversion H; subst. rewrite charset_nth by assumption. rewrite IH by assumption. reflexivity.
Qed.

Lemma rev_chars_charset : forall l, syms_ok l -> rev_chars (map char_of l) = RevOk l.
Proof.
  induction l as [|i l IH]; intros H; simpl; auto.
  inversion H as [|? ? Hi Hl]; subst. rewrite charset_rev_nth by assumption.
  destruct (Z.eqb_spec (Z.of_N i) (-1)) as [E|_]; [lia|].
  rewrite IH by assumption. rewrite N2Z.id. reflexivity.
Qed.

(* CheckCharacters on strings without upper-case letters and within 33..126 *)
Lemma check_char_step_fine : forall lo up err c, fine c -> up = false ->
  exists lo', check_char_step (lo, up, err) c = (lo', up, err).
Proof.
  intros lo up err c (Hu & H33 & H126) ->. unfold check_char_step. rewrite Hu.
  destruct (is_lower c); [eexists; reflexivity|].
  destruct (N.ltb_spec c 33); [lia|]. destruct (N.ltb_spec 126 c); [lia|]. simpl. eexists; reflexivity.
Qed.

Lemma check_fold_fine : forall s lo err, Forall fine s ->
  exists lo', fold_left check_char_step s (lo, false, err) = (lo', false, err).
Proof.
  induction s as [|c s IH]; intros lo err H; cbn [fold_left]; [eexists; reflexivity|].
  inversion H; subst. destruct (check_char_step_fine lo false err c) as [lo' E]; auto.
  rewrite E. apply IH; assumption.
Qed.

Lemma check_characters_fine : forall s, Forall fine s -> check_characters s = true.
Proof.
  intros s H. unfold check_characters. destruct (check_fold_fine s false false H) as [lo' E]. rewrite E. reflexivity.
Qed.

(* rfind *)
Lemma rfind_from_nosep : forall s i found, Forall (fun c => c <> SEPARATOR) s -> rfind_from i s found = found.
Proof.
  induction s as [|c s IH]; intros i found H; simpl; auto.
  inversion H; subst. destruct (N.eqb_spec c SEPARATOR); [contradiction|]. apply IH; assumption.
Qed.

Lemma rfind_from_app : forall a b i found,
  rfind_from i (a ++ b) found = rfind_from (i + length a) b (rfind_from i a found).
Proof.
  induction a as [|c a IH]; intros b i found; simpl.
  - rewrite Nat.add_0_r. reflexivity.
  - rewrite IH. f_equal. lia.
Qed.

Lemma rfind_sep_encoded : forall hrp cs, Forall (fun c => c <> SEPARATOR) cs ->
  rfind_sep (hrp ++ SEPARATOR :: cs) = Some (length hrp).
Proof.
  intros hrp cs H. unfold rfind_sep. rewrite rfind_from_app. cbn [rfind_from].
  rewrite N.eqb_refl. rewrite rfind_from_nosep by assumption. f_equal.
Qed.

Definition hrp_ok (hrp : list N) : Prop := hrp <> [] /\ Forall fine hrp.

Lemma fine_lower : forall c, fine c -> lower_case c = c.
Proof. intros c (Hu & _). unfold lower_case. rewrite Hu. reflexivity. Qed.

Lemma fine_chars_ok : forall l, Forall fine l -> chars_ok l.
Proof. intros l H. eapply Forall_impl; [|exact H]. intros a (_ & _ & Ha). simpl. lia. Qed.

Lemma existsb_upper_fine : forall l, Forall fine l -> existsb is_upper l = false.
Proof. induction l; intros H; simpl; auto. inversion H as [|? ? (Hu & _) ?]; subst. rewrite Hu. auto. Qed.

Lemma encode_ok : forall e hrp data, Forall fine hrp -> syms_ok data ->
  encode e hrp data = EncOk (hrp ++ SEPARATOR :: map char_of (data ++ create_checksum e hrp data)).
Proof.
  intros e hrp data Hh Hd. unfold encode. rewrite existsb_upper_fine by assumption.
  rewrite charset_chars_ok; [reflexivity|].
  apply Forall_app; split; [assumption|apply create_checksum_ok].
Qed.

(* Decode (Encode x) = x on the whole valid domain: any HRP of printable non-upper-case characters,
   any 5-bit data, total length within the limit *)
Theorem decode_encode : forall limit e hrp data s, hrp_ok hrp -> syms_ok data ->
  (length hrp + 1 + length data + 6 <= limit)%nat ->
  encode e hrp data = EncOk s -> decode limit s = DecOk e hrp data.
Proof.
  intros limit e hrp data s (Hne & Hh) Hd Hlen Henc.
  rewrite encode_ok in Henc by assumption. injection Henc as <-.
  set (vals := data ++ create_checksum e hrp data).
  assert (Hvals : syms_ok vals) by (apply Forall_app; split; [assumption|apply create_checksum_ok]).
  assert (Hcs : Forall (fun c => fine c /\ c <> SEPARATOR /\ lower_case c = c) (map char_of vals)).
  { apply Forall_map. eapply Forall_impl; [|exact Hvals]. intros a Ha. apply char_of_props; assumption. }
  assert (Hlenv : length vals = (length data + 6)%nat) by (unfold vals; rewrite app_length; reflexivity).
  unfold decode.
  rewrite check_characters_fine.
  2:{ apply Forall_app; split; [assumption|]. constructor.
      - unfold fine, SEPARATOR. repeat split; try reflexivity; lia.
      - eapply Forall_impl; [|exact Hcs]. intros a Ha; apply Ha. }
  simpl negb. cbv iota.
  assert (Hslen : length (hrp ++ SEPARATOR :: map char_of vals) = (length hrp + 1 + length data + 6)%nat).
  { rewrite app_length. simpl. rewrite map_length, Hlenv. lia. }
  rewrite Hslen.
  destruct (Nat.ltb_spec limit (length hrp + 1 + length data + 6)) as [Hbad|_]; [lia|].
  rewrite rfind_sep_encoded by (eapply Forall_impl; [|exact Hcs]; intros a Ha; apply Ha).
  destruct hrp as [|h0 hrp']; [contradiction|].
  set (hrp := h0 :: hrp') in *.
  assert (Hpos : (length hrp =? 0)%nat = false) by reflexivity.
  rewrite Hpos. unfold CHECKSUM_SIZE_N.
  destruct (Nat.leb_spec (length hrp + 1 + length data + 6) (length hrp + 6)) as [Hbad|_]; [lia|].
  simpl orb. cbv iota.
  assert (Hskip : skipn (S (length hrp)) (hrp ++ SEPARATOR :: map char_of vals) = map char_of vals).
  { replace (S (length hrp)) with (length (hrp ++ [SEPARATOR])) by (rewrite app_length; simpl; lia).
    replace (hrp ++ SEPARATOR :: map char_of vals) with ((hrp ++ [SEPARATOR]) ++ map char_of vals) by (rewrite <- app_assoc; reflexivity).
    rewrite skipn_app, skipn_all, Nat.sub_diag. reflexivity. }
  rewrite Hskip, rev_chars_charset by assumption.
  assert (Hfirst : firstn (length hrp) (hrp ++ SEPARATOR :: map char_of vals) = hrp).
  { rewrite firstn_app, Nat.sub_diag, firstn_all, firstn_O. apply app_nil_r. }
  rewrite Hfirst.
  assert (Hlow : map lower_case hrp = hrp).
  { clear -Hh. induction Hh; simpl; auto. rewrite fine_lower by assumption. f_equal. assumption. }
  rewrite Hlow. unfold vals at 1.
  rewrite verify_create_checksum by (auto using fine_chars_ok).
  f_equal. rewrite Hlenv. replace (length data + 6 - 6)%nat with (length data) by lia.
  unfold vals. rewrite firstn_app, Nat.sub_diag, firstn_all, firstn_O. apply app_nil_r.
Qed.

(* ---------------------------------------------------------------------------------------------- *)
(* Decode accepts only canonical strings: whatever it returns re-encodes to the (lower-cased) input *)

Definition rev_fact (c : N) : bool :=
  match nth_error CHARSET_REV (N.to_nat c) with
  | Some v => (v =? -1)%Z ||
              ((0 <=? v)%Z && (v <? 32)%Z &&
               match nth_error CHARSET (Z.to_nat v) with Some c' => c' =? lower_case c | None => false end)
  | None => false
  end.
Lemma rev_facts : forall c, c < 128 -> rev_fact c = true.
Proof. apply (forall_below 128). vm_compute. reflexivity. Qed.

Lemma rev_table_oob : forall c, 128 <= c -> nth_error CHARSET_REV (N.to_nat c) = None.
Proof. intros c H. apply nth_error_None. change (length CHARSET_REV) with 128%nat. lia. Qed.

Lemma rev_chars_sound : forall cs vals, rev_chars cs = RevOk vals ->
  syms_ok vals /\ charset_chars vals = Some (map lower_case cs) /\ length vals = length cs.
Proof.
  induction cs as [|c cs IH]; intros vals H; simpl in H.
  - injection H as <-. repeat split; constructor.
  - destruct (N.lt_ge_cases c 128) as [Hc|Hc].
    2:{ rewrite rev_table_oob in H by assumption. discriminate. }
    pose proof (rev_facts c Hc) as F. unfold rev_fact in F.
    destruct (nth_error CHARSET_REV (N.to_nat c)) as [v|]; [|discriminate].
    destruct (Z.eqb_spec v (-1)) as [|Hv]; [discriminate|]. simpl in F.
    destruct (rev_chars cs) as [vs| |]; try discriminate. injection H as <-.
    destruct (IH vs eq_refl) as (IH1 & IH2 & IH3).
    apply Bool.andb_true_iff in F. destruct F as [F F3].
    apply Bool.andb_true_iff in F. destruct F as [F1 F2].
    apply Z.leb_le in F1. apply Z.ltb_lt in F2.
    repeat split.
    + constructor; [lia|assumption].
    + simpl. rewrite Z_N_nat. destruct (nth_error CHARSET (Z.to_nat v)) as [c'|]; [|discriminate].
      apply N.eqb_eq in F3. subst c'. rewrite IH2. reflexivity.
    + simpl. f_equal. assumption.
Qed.

Lemma rfind_from_some : forall s i found pos, rfind_from i s found = Some pos ->
  (found = Some pos /\ Forall (fun c => c <> SEPARATOR) s) \/
  (exists k, pos = (i + k)%nat /\ nth_error s k = Some SEPARATOR /\ Forall (fun c => c <> SEPARATOR) (skipn (S k) s)).
Proof.
  induction s as [|c s IH]; intros i found pos H; simpl in H.
  - left. split; [assumption|constructor].
  - apply IH in H. destruct H as [[H1 H2]|(k & -> & Hk & Hs)].
    + destruct (N.eqb_spec c SEPARATOR) as [->|Hne].
      * injection H1 as <-. right. exists 0%nat. repeat split; [lia|assumption].
      * left. split; [assumption|]. constructor; assumption.
    + right. exists (S k). repeat split; [lia|assumption|assumption].
Qed.

Lemma rfind_sep_split : forall s pos, rfind_sep s = Some pos ->
  s = firstn pos s ++ SEPARATOR :: skipn (S pos) s /\ Forall (fun c => c <> SEPARATOR) (skipn (S pos) s) /\ (pos < length s)%nat.
Proof.
  intros s pos H. unfold rfind_sep in H. apply rfind_from_some in H.
  destruct H as [[H _]|(k & -> & Hk & Hs)]; [discriminate|]. simpl.
  assert (Hlt : (k < length s)%nat) by (apply nth_error_Some; congruence).
  repeat split; auto.
  rewrite <- (firstn_skipn k s) at 1. f_equal.
  clear Hs. revert k Hk Hlt. induction s as [|a s IH]; intros [|k] Hk Hlt; simpl in *; try lia; try discriminate.
  - congruence.
  - apply IH; [assumption|lia].
Qed.

Lemma is_upper_lower_case : forall c, is_upper (lower_case c) = false.
Proof.
  intros c. unfold lower_case. destruct (is_upper c) eqn:E; [|assumption].
  unfold is_upper in *. apply Bool.andb_true_iff in E. destruct E as [E1 E2].
  apply N.leb_le in E1. apply N.leb_le in E2.
  apply Bool.andb_false_iff. right. apply N.leb_gt. lia.
Qed.

Lemma no_upper_lowered : forall l, existsb is_upper (map lower_case l) = false.
Proof. induction l as [|a l IHl]; simpl; auto. rewrite is_upper_lower_case. exact IHl. Qed.

Theorem decode_sound : forall limit s e hrp data, decode limit s = DecOk e hrp data ->
  (length s <= limit)%nat /\ check_characters s = true /\ hrp <> [] /\ syms_ok data /\
  encode e hrp data = EncOk (map lower_case s).
Proof.
  intros limit s e hrp data H. unfold decode in H.
  destruct (check_characters s) eqn:Hcc; [|discriminate]. cbn [negb] in H.
  destruct (Nat.ltb_spec limit (length s)) as [|Hlim]; [discriminate|].
  destruct (rfind_sep s) as [pos|] eqn:Hpos; [|discriminate].
  destruct (Nat.eqb_spec pos 0) as [|Hp0]; [discriminate|]. cbn [orb] in H.
  destruct (Nat.leb_spec (length s) (pos + CHECKSUM_SIZE_N)) as [|Hp6]; [discriminate|].
  destruct (rev_chars (skipn (S pos) s)) as [values| |] eqn:Hrev; try discriminate.
  destruct (verify_checksum (map lower_case (firstn pos s)) values) as [|e'] eqn:Hv; [discriminate|].
  injection H as <- <- <-.
  destruct (rfind_sep_split s pos Hpos) as (Hs & Hnosep & Hlt).
  destruct (rev_chars_sound _ _ Hrev) as (Hvals & Hchars & Hlenv).
  rewrite skipn_length in Hlenv. unfold CHECKSUM_SIZE_N in *.
  set (n := (length values - 6)%nat).
  assert (Hsplit : values = firstn n values ++ skipn n values) by (symmetry; apply firstn_skipn).
  assert (Hsix : length (skipn n values) = 6%nat) by (rewrite skipn_length; unfold n; lia).
  assert (Hok1 : syms_ok (firstn n values)).
  { rewrite Hsplit in Hvals. apply Forall_app in Hvals. apply Hvals. }
  assert (Hok2 : syms_ok (skipn n values)).
  { rewrite Hsplit in Hvals. apply Forall_app in Hvals. apply Hvals. }
  rewrite Hsplit in Hv. apply verify_checksum_unique in Hv; auto.
  repeat split; auto.
  - intro E. apply map_eq_nil in E. apply (f_equal (@length N)) in E. rewrite firstn_length in E. simpl in E. lia.
  - unfold encode.
    rewrite no_upper_lowered, <- Hv, <- Hsplit, Hchars.
    rewrite Hs at 3. rewrite map_app. reflexivity.
Qed.

(* ---------------------------------------------------------------------------------------------- *)
(* CheckCharacters rejects every character outside 33..126, so CHARSET_REV is never indexed out of range *)
Lemma check_step_err : forall lo up c, exists lo' up', check_char_step (lo, up, true) c = (lo', up', true).
Proof.
  intros lo up c. unfold check_char_step.
  destruct (is_lower c); [destruct up; eauto|].
  destruct (is_upper c); [destruct lo; eauto|].
  destruct ((c <? 33) || (126 <? c)); eauto.
Qed.

Lemma check_fold_err : forall s lo up, exists lo' up', fold_left check_char_step s (lo, up, true) = (lo', up', true).
Proof.
  induction s as [|c s IH]; intros lo up; cbn [fold_left]; eauto.
  destruct (check_step_err lo up c) as (lo' & up' & ->). apply IH.
Qed.

Lemma check_step_range : forall lo up err c lo' up', check_char_step (lo, up, err) c = (lo', up', false) ->
  err = false /\ 33 <= c /\ c <= 126.
Proof.
  intros lo up err c lo' up' H. unfold check_char_step in H.
  destruct (is_lower c) eqn:El.
  - unfold is_lower in El. apply Bool.andb_true_iff in El. destruct El as [E1 E2]. apply N.leb_le in E1. apply N.leb_le in E2.
    destruct up; [discriminate|]. injection H as _ _ <-. repeat split; lia.
  - destruct (is_upper c) eqn:Eu.
    + unfold is_upper in Eu. apply Bool.andb_true_iff in Eu. destruct Eu as [E1 E2]. apply N.leb_le in E1. apply N.leb_le in E2.
      destruct lo; [discriminate|]. injection H as _ _ <-. repeat split; lia.
    + destruct (N.ltb_spec c 33); simpl in H; [discriminate|].
      destruct (N.ltb_spec 126 c); simpl in H; [discriminate|].
      injection H as _ _ <-. repeat split; lia.
Qed.

Lemma check_fold_range : forall s lo up err lo' up',
  fold_left check_char_step s (lo, up, err) = (lo', up', false) -> Forall (fun c => 33 <= c /\ c <= 126) s.
Proof.
  induction s as [|c s IH]; intros lo up err lo' up' H; cbn [fold_left] in H; [constructor|].
  destruct (check_char_step (lo, up, err) c) as [[lo1 up1] err1] eqn:E.
  destruct err1.
  - destruct (check_fold_err s lo1 up1) as (a & b & E2). rewrite E2 in H. discriminate.
  - apply check_step_range in E. constructor; [tauto|]. eapply IH; eassumption.
Qed.

Lemma check_characters_range : forall s, check_characters s = true -> Forall (fun c => 33 <= c /\ c <= 126) s.
Proof.
  intros s H. unfold check_characters in H.
  destruct (fold_left check_char_step s (false, false, false)) as [[lo up] err] eqn:E.
  destruct err; [discriminate|]. eapply check_fold_range; eassumption.
Qed.

Lemma rev_chars_no_oob : forall cs, Forall (fun c => 33 <= c /\ c <= 126) cs -> rev_chars cs <> RevOOB.
Proof.
  induction cs as [|c cs IH]; intros H; simpl; [discriminate|].
  inversion H as [|? ? Hc Hcs]; subst.
  destruct (nth_error CHARSET_REV (N.to_nat c)) as [v|] eqn:E.
  - destruct (v =? -1)%Z; [discriminate|]. specialize (IH Hcs). destruct (rev_chars cs); try discriminate. contradiction.
  - apply nth_error_None in E. change (length CHARSET_REV) with 128%nat in E. lia.
Qed.

Theorem decode_never_oob : forall limit s, decode limit s <> DecRevOOB.
Proof.
  intros limit s. unfold decode.
  destruct (check_characters s) eqn:Hcc; [|discriminate]. cbn [negb].
  destruct (limit <? length s)%nat; [discriminate|].
  destruct (rfind_sep s) as [pos|]; [|discriminate].
  destruct ((pos =? 0)%nat || (length s <=? pos + CHECKSUM_SIZE_N)%nat); [discriminate|].
  pose proof (check_characters_range s Hcc) as Hr.
  assert (Hr' : Forall (fun c => 33 <= c /\ c <= 126) (skipn (S pos) s)).
  { rewrite <- (firstn_skipn (S pos) s) in Hr. apply Forall_app in Hr. apply Hr. }
  pose proof (rev_chars_no_oob _ Hr') as Hno.
  destruct (rev_chars (skipn (S pos) s)); try discriminate; try contradiction.
  destruct (verify_checksum _ _); discriminate.
Qed.

(* ---------------------------------------------------------------------------------------------- *)
(* The letter of "a string with 1 to 4 substituted characters never passes the checksum" is false when the
   substitution only changes the case of the only letter(s) of the string: "219460f373" -> "219460F373"
   (bech32 is case-insensitive by design; this is why the detection theorem is about symbols, not characters) *)
Theorem bech32_case_substitution_refuted :
  exists (s s' : list N) e hrp data, length s = length s' /\
    length (filter (fun p => negb (N.eqb (fst p) (snd p))) (combine s s')) = 1%nat /\
    decode 90 s = DecOk e hrp data /\ decode 90 s' = DecOk e hrp data.
Proof.
  exists [50; 49; 57; 52; 54; 48; 102; 51; 55; 51], [50; 49; 57; 52; 54; 48; 70; 51; 55; 51], BECH32, [50], [5; 21].
  vm_compute. repeat split; reflexivity.
Qed.
