(* ChainSel: ResetBlockFailureFlags (reconsiderblock) keeps the invariant and candidate completeness. *)
From BV Require Import lib.Ints gen.Params_gen model.ChainSel proofs.ChainSelBase proofs.ChainSelFrame proofs.ChainSelInv
  proofs.ChainSelDeliver proofs.ChainSelFmw.
Local Open Scope Z_scope.
#[local] Arguments Z.eqb : simpl never.
#[local] Arguments Z.ltb : simpl never.
#[local] Arguments Z.gtb : simpl never.
#[local] Arguments Z.geb : simpl never.
#[local] Arguments Z.leb : simpl never.
#[local] Arguments Z.add : simpl never.
#[local] Arguments Z.sub : simpl never.

Section Reconsider.
Variable parent_of : id -> id.
Variable proof_of : id -> Z.
Variable kind_of : id -> kind.
Hypothesis proof_pos : forall b, 0 < proof_of b.
Set Default Proof Using "All".

Notation Inv := (Inv parent_of proof_of kind_of).

(* one iteration of the loop over m_block_index *)
Definition reset_step (b : id) (s' : state) (x : id) : state :=
  if st_failed s' x && (is_desc s' x b || is_desc s' b x) then
    let s1 := set_failed s' (upd (st_failed s') x false) in
    if is_valid_tx s1 x && st_chaintx s1 x && worse s1 (st_tip s1) x then insert_cand s1 x else s1
  else s'.

Lemma reset_unfold s b : reset_block_failure_flags s b = fold_left (reset_step b) (ids s) s.
Proof. reflexivity. Qed.

(* everything but the failure flags and the candidate set is untouched *)
Definition same_rest (s s' : state) : Prop :=
  st_index s' = st_index s /\ st_data s' = st_data s /\ st_chaintx s' = st_chaintx s /\ st_seq s' = st_seq s /\
  st_tip s' = st_tip s /\ st_unlinked s' = st_unlinked s /\ st_next_seq s' = st_next_seq s /\ st_min_work s' = st_min_work s.

Lemma same_rest_refl s : same_rest s s.
Proof. repeat split. Qed.

Lemma reset_step_same s b s' x : same_rest s s' -> same_rest s (reset_step b s' x).
Proof.
  intros H. unfold reset_step. destruct (st_failed s' x && _); [|assumption].
  cbv zeta. destruct (_ && _ && _); exact H.
Qed.

Section Fold.
Variable s : state.
Variable b : id.
Let related (x : id) : bool := is_desc s x b || is_desc s b x.

Lemma same_rest_is_desc s' x a : same_rest s s' -> is_desc s' x a = is_desc s x a.
Proof. intros [E _]. unfold is_desc, path. rewrite E. reflexivity. Qed.
Lemma same_rest_worse s' a c : same_rest s s' -> worse s' a c = worse s a c.
Proof. intros [E1 [_ [_ [E2 _]]]]. unfold worse, work. rewrite E1, E2. reflexivity. Qed.

(* the effect of the fold over a list l of ids *)
Lemma reset_fold l : forall s', same_rest s s' -> NoDup (st_cands s') ->
  let r := fold_left (reset_step b) l s' in
  same_rest s r /\ NoDup (st_cands r) /\
  (forall x, st_failed r x = if mem x l && related x then false else st_failed s' x) /\
  (forall c, In c (st_cands r) <->
     In c (st_cands s') \/
     (In c l /\ st_failed s' c = true /\ related c = true /\ st_data s c = true /\ st_chaintx s c = true /\
      worse s (st_tip s) c = true)).
Proof.
  induction l as [|a l IH]; intros s' Hs Hnd.
  - cbn. split; [assumption|]. split; [assumption|]. split; [reflexivity|]. intros c. split; [auto|]. intros [H|[[] _]]. assumption.
  - cbn [fold_left].
    pose proof (reset_step_same s b s' a Hs) as Hs1.
    assert (Hnd1 : NoDup (st_cands (reset_step b s' a))).
    { unfold reset_step. destruct (st_failed s' a && _); [|assumption]. cbv zeta.
      destruct (_ && _ && _); [apply cand_insert_NoDup|]; assumption. }
    destruct (IH _ Hs1 Hnd1) as [H1 [H2 [H3 H4]]]. split; [assumption|]. split; [assumption|].
    assert (Hfa : forall x, st_failed (reset_step b s' a) x = if (x =? a) && st_failed s' a && related a then false else st_failed s' x).
    { intros x. unfold reset_step, related. rewrite !(same_rest_is_desc s' _ _ Hs).
      destruct (st_failed s' a) eqn:Ea; cbn [andb].
      - destruct (is_desc s a b || is_desc s b a) eqn:Er.
        + cbv zeta. assert (E : forall z : bool, st_failed (if z then insert_cand (set_failed s' (upd (st_failed s') a false)) a
                                           else set_failed s' (upd (st_failed s') a false)) x = upd (st_failed s') a false x)
            by (intros []; reflexivity).
          rewrite E. unfold upd. destruct (x =? a); reflexivity.
        + rewrite andb_false_r. reflexivity.
      - rewrite andb_false_r. reflexivity. }
    split.
    + intros x. rewrite H3, Hfa, mem_cons.
      destruct (Z.eqb_spec x a) as [->|N]; cbn [orb andb].
      * destruct (related a); [|rewrite !andb_false_r; reflexivity].
        rewrite !andb_true_r. destruct (st_failed s' a); destruct (mem a l); reflexivity.
      * reflexivity.
    + intros c. rewrite H4. clear H3 H4 IH.
      assert (Hca : In c (st_cands (reset_step b s' a)) <->
                    In c (st_cands s') \/ (c = a /\ st_failed s' a = true /\ related a = true /\ st_data s a = true /\
                                          st_chaintx s a = true /\ worse s (st_tip s) a = true)).
      { unfold reset_step, related. rewrite !(same_rest_is_desc s' _ _ Hs).
        destruct (st_failed s' a) eqn:Ea; cbn [andb]; [|intuition congruence].
        destruct (is_desc s a b || is_desc s b a) eqn:Er; [|intuition congruence].
        cbv zeta. unfold is_valid_tx. ssimpl. rewrite upd_same. cbn [negb andb].
        destruct Hs as [Ei' [Ed [Ec [Es [Et _]]]]].
        assert (Ew : worse s' (st_tip s') a = worse s (st_tip s) a).
        { unfold worse, work. rewrite Ei', Es, Et. reflexivity. }
        rewrite Ew, Ed, Ec.
        destruct (st_data s a && st_chaintx s a && worse s (st_tip s) a) eqn:Ecnd.
        - rewrite st_cands_insert_cand. ssimpl. rewrite cand_insert_In.
          apply andb_prop in Ecnd. destruct Ecnd as [Ecnd E3]. apply andb_prop in Ecnd. destruct Ecnd as [E1 E2].
          intuition congruence.
        - ssimpl. split; [auto|]. intros [H|[-> [_ [_ [E1 [E2 E3]]]]]]; [assumption|].
          rewrite E1, E2, E3 in Ecnd. discriminate. }
      rewrite Hca, Hfa. split.
      * intros [[H|[-> H]]|[Hin [Hf H]]].
        -- left. assumption.
        -- right. split; [left; reflexivity|tauto].
        -- destruct (Z.eqb_spec c a) as [->|N]; cbn [andb] in Hf.
           ++ destruct (st_failed s' a && related a); [discriminate|]. right. split; [left; reflexivity|tauto].
           ++ right. split; [right; assumption|tauto].
      * intros [H|[[<-|Hin] [Hf H]]].
        -- left. left. assumption.
        -- left. right. tauto.
        -- destruct (Z.eq_dec c a) as [->|N]; [left; right; tauto|].
           right. split; [assumption|]. destruct (Z.eqb_spec c a); [contradiction|]. cbn [andb]. tauto.
Qed.
End Fold.

(* ---------------------------------------------------------------------------------------------- *)
Theorem reset_spec s b : Inv s -> complete s -> known s b = true ->
  Inv (reset_block_failure_flags s b) /\ complete (reset_block_failure_flags s b).
Proof.
  intros HI HC Hkb. rewrite reset_unfold.
  pose proof (reset_fold s b (ids s) s (same_rest_refl s) (i_cands_nodup _ _ _ _ HI)) as HF. cbv zeta in HF.
  set (r := fold_left (reset_step b) (ids s) s) in *.
  destruct HF as [[Ei [Ed [Ec [Es [Et [Eu [En Em]]]]]]] [Hnd [Hf Hc]]].
  assert (Hkn : forall x, known r x = known s x) by (intros x; unfold known; rewrite Ei; reflexivity).
  assert (Hpa : forall x, path r x = path s x) by (intros x; unfold path; rewrite Ei; reflexivity).
  assert (Hwo : forall a c, worse r a c = worse s a c) by (intros a c; unfold worse, work; rewrite Ei, Es; reflexivity).
  assert (Hf' : forall x, known s x = true -> st_failed r x = if is_desc s x b || is_desc s b x then false else st_failed s x).
  { intros x Hk. rewrite Hf. assert (mem x (ids s) = true) by (apply mem_In; apply (iknown_iff _ _ _ proof_pos _ HI); assumption).
    rewrite H. reflexivity. }
  assert (Hmono : forall x, st_failed r x = true -> st_failed s x = true).
  { intros x. rewrite Hf. destruct (mem x (ids s) && _); [discriminate|auto]. }
  assert (HIr : Inv r).
  { constructor.
    - rewrite Ei. apply (i_wf _ _ _ _ HI).
    - rewrite Hkn, Et. apply (i_tip_known _ _ _ _ HI).
    - rewrite Et, Hpa, Ed, Ec. intros x Hx. destruct (i_chain _ _ _ _ HI _ Hx) as [H1 [H2 [H3 H4]]].
      repeat split; try assumption. destruct (st_failed r x) eqn:E; [|reflexivity]. apply Hmono in E. congruence.
    - intros y. rewrite Hkn. intros Hk N Hp.
      destruct (ipath_unfold _ _ _ proof_pos _ HI _ Hk N) as [Hkp [Hpath _]].
      rewrite (Hf' _ Hkp) in Hp. rewrite (Hf' _ Hk).
      destruct (is_desc s (parent_of y) b || is_desc s b (parent_of y)) eqn:Er; [discriminate|].
      apply orb_false_elim in Er. destruct Er as [Er1 Er2].
      rewrite (i_failed_closed _ _ _ _ HI _ Hk N Hp).
      destruct (is_desc s y b || is_desc s b y) eqn:Ery; [|reflexivity]. exfalso.
      apply orb_prop in Ery. destruct Ery as [E|E]; apply (iis_desc_iff _ _ _ proof_pos _ HI) in E.
      + (* b is an ancestor-or-self of y *)
        rewrite Hpath in E. destruct E as [E|E].
        * subst b. assert (is_desc s y (parent_of y) = true).
          { apply (iis_desc_iff _ _ _ proof_pos _ HI). apply (iparent_in_path _ _ _ proof_pos _ HI); assumption. }
          congruence.
        * apply (iis_desc_iff _ _ _ proof_pos _ HI) in E. congruence.
      + (* y is an ancestor-or-self of b: so is its parent *)
        assert (is_desc s b (parent_of y) = true).
        { apply (iis_desc_iff _ _ _ proof_pos _ HI). eapply (ipath_trans _ _ _ proof_pos _ HI); [|exact E].
          apply (iparent_in_path _ _ _ proof_pos _ HI); assumption. }
        congruence.
    - intros y. rewrite Hkn, Ed, Ec. apply (i_chaintx _ _ _ _ HI).
    - assumption.
    - intros c Hcc. rewrite Hkn, Ec, Et, Hwo. apply Hc in Hcc. destruct Hcc as [Hcc|[Hin [_ [_ [_ [H2 H3]]]]]].
      + apply (i_cands _ _ _ _ HI). assumption.
      + split; [apply (iknown_iff _ _ _ proof_pos _ HI); assumption|]. split; [assumption|]. apply worse_asym. assumption.
    - rewrite Eu. apply (i_unl_nodup _ _ _ _ HI).
    - intros p c. rewrite Eu, Hkn, Ed, Ec. apply (i_unl_sound _ _ _ _ HI).
    - intros c. rewrite Eu, Hkn, Ed, Ec. apply (i_unl_complete _ _ _ _ HI).
    - intros y. rewrite Hkn, Ec, Es, En. apply (i_seq_range _ _ _ _ HI).
    - intros x y. rewrite !Hkn, Ec, Es. apply (i_seq_inj _ _ _ _ HI).
    - intros y. rewrite Hkn, Ed. apply (i_data_kind _ _ _ _ HI). }
  split; [assumption|].
  intros x [Hk [Hcx Hfx]] Hw. rewrite Hkn in Hk. rewrite Ec in Hcx. rewrite Et, Hwo in Hw.
  apply Hc. destruct (st_failed s x) eqn:Efx.
  - right. rewrite (Hf' _ Hk) in Hfx.
    destruct (is_desc s x b || is_desc s b x) eqn:Er; [|congruence].
    split; [apply (iknown_iff _ _ _ proof_pos _ HI); assumption|]. split; [reflexivity|]. split; [first [reflexivity|assumption]|].
    split; [apply (i_chaintx _ _ _ _ HI _ Hk); assumption|]. split; [assumption|].
    assert (N : st_tip s <> x).
    { intros E. destruct (tip_eligible _ _ _ proof_pos s HI) as [_ [_ E']]. rewrite E in E'. congruence. }
    destruct (worse_total s _ _ N) as [H|H]; [assumption|congruence].
  - left. apply HC; [repeat split; assumption|assumption].
Qed.

End Reconsider.
