(* C14 -- the prevout fetcher: for every schedule, what FetchCoinFromBase returns is what the base view holds, the
   assertions never fire, and the main thread never waits for ever. *)
From BV Require Import lib.Ints model.ConcFetch.
Local Open Scope nat_scope.

Lemma updn_length {A} (l : list A) i x : i < length l -> length (updn l i x) = length l.
Proof.
  intros H. unfold updn. rewrite app_length. change (length (x :: skipn (S i) l)) with (S (length (skipn (S i) l))).
  rewrite firstn_length, skipn_length. lia.
Qed.

Lemma updn_same {A} (l : list A) i x : i < length l -> nth_error (updn l i x) i = Some x.
Proof.
  intros H. unfold updn. rewrite nth_error_app2; rewrite firstn_length; [|lia].
  replace (i - Nat.min i (length l)) with 0 by lia. reflexivity.
Qed.

Lemma updn_other {A} (l : list A) i j x : i < length l -> j <> i -> nth_error (updn l i x) j = nth_error l j.
Proof.
  unfold updn. revert i j. induction l as [|a l IH]; intros i j H Hj; [simpl in H; lia|].
  destruct i as [|i]; destruct j as [|j]; simpl; try congruence; try reflexivity.
  apply IH; [simpl in H; lia | congruence].
Qed.

Lemma nth_error_lt {A} (l : list A) i x : nth_error l i = Some x -> i < length l.
Proof. intros H. apply nth_error_Some. congruence. Qed.

Definition holds_ix (p : wpc) (i : nat) : Prop := p = WClaimed i \/ p = WWrote i.

Record FI (base : outpoint -> option coin) (s : fs) : Prop := {
  fi_len : length (f_slots s) = length (f_inputs s);
  fi_slot : forall i sl o, nth_error (f_slots s) i = Some sl -> nth_error (f_inputs s) i = Some o ->
              (forall c, sl_coin sl = Some c -> c = base o) /\ (sl_ready sl = true -> sl_coin sl <> None) /\
              (f_head s <= i -> sl_coin sl = None /\ sl_ready sl = false);
  fi_claimed : forall w i, nth_error (f_workers s) w = Some (WClaimed i) ->
              i < f_head s /\ exists sl, nth_error (f_slots s) i = Some sl /\ sl_coin sl = None /\ sl_ready sl = false;
  fi_wrote : forall w i, nth_error (f_workers s) w = Some (WWrote i) ->
              i < f_head s /\ exists sl, nth_error (f_slots s) i = Some sl /\ sl_coin sl <> None /\ sl_ready sl = false;
  fi_uniq : forall w1 w2 p1 p2 i, nth_error (f_workers s) w1 = Some p1 -> nth_error (f_workers s) w2 = Some p2 ->
              holds_ix p1 i -> holds_ix p2 i -> w1 = w2;
  fi_done : forall w, nth_error (f_workers s) w = Some WDone -> length (f_inputs s) < f_head s;
  fi_main : forall i, f_main s = MWaiting i -> i < length (f_inputs s) /\ i < f_tail s;
  fi_bug : f_bug s = false;
  fi_res : forall o r, In (o, r) (f_results s) -> r = base o;
  fi_prog : forall i, i < f_head s -> i < length (f_inputs s) ->
              (exists sl, nth_error (f_slots s) i = Some sl /\ sl_ready sl = true) \/
              (exists w p, nth_error (f_workers s) w = Some p /\ holds_ix p i)
}.

Lemma FI_init base inputs n : FI base (finit inputs n).
Proof.
  constructor; simpl.
  - apply repeat_length.
  - intros i sl o Hs _. apply nth_error_In in Hs. apply repeat_spec in Hs. subst sl. simpl. repeat split; auto; discriminate.
  - intros w i H. apply nth_error_In in H. apply repeat_spec in H. discriminate.
  - intros w i H. apply nth_error_In in H. apply repeat_spec in H. discriminate.
  - intros w1 w2 p1 p2 i H1 _ [E|E] _; apply nth_error_In in H1; apply repeat_spec in H1; subst p1; discriminate.
  - intros w H. apply nth_error_In in H. apply repeat_spec in H. discriminate.
  - intros i H; discriminate.
  - reflexivity.
  - intros o r [].
  - intros i H; lia.
Qed.

(* worker-list bookkeeping *)
Lemma workers_upd_cases (l : list wpc) w p w' q :
  w < length l -> nth_error (updn l w p) w' = Some q -> (w' = w /\ q = p) \/ (w' <> w /\ nth_error l w' = Some q).
Proof.
  intros Hw H. destruct (Nat.eq_dec w' w) as [E|E].
  - subst. rewrite updn_same in H by exact Hw. inversion H. left; auto.
  - rewrite updn_other in H by assumption. right; auto.
Qed.

Lemma fstep_FI base s a s' : FI base s -> fstep base s a = Some s' -> FI base s'.
Proof.
  intros [H1 H2 H3 H4 H5 Hd H6 H7 H8 H9] Hs. destruct a as [w|w|w|o|]; simpl in Hs.
  - (* claim *)
    destruct (nth_error (f_workers s) w) as [[| | |]|] eqn:Ew; try discriminate. inversion Hs; subst s'; clear Hs.
    pose proof (nth_error_lt _ _ _ Ew) as Hwl. set (i := f_head s) in *.
    constructor; simpl.
    + exact H1.
    + intros j sl o Hj Ho. destruct (H2 j sl o Hj Ho) as (A & B & C). split; [exact A|]. split; [exact B|]. intros Hle. apply C. unfold i in Hle. lia.
    + intros w' j Hw'. apply workers_upd_cases in Hw'; [|exact Hwl]. destruct Hw' as [[E1 E2]|[E1 E2]].
      * destruct (Nat.ltb i (length (f_inputs s))) eqn:El; [|discriminate]. inversion E2; subst j. apply Nat.ltb_lt in El.
        split; [lia|]. assert (Hsl : i < length (f_slots s)) by lia. destruct (nth_error (f_slots s) i) as [sl|] eqn:Es; [|apply nth_error_None in Es; lia].
        destruct (nth_error (f_inputs s) i) as [o|] eqn:Eo; [|apply nth_error_None in Eo; lia].
        destruct (H2 i sl o Es Eo) as (_ & _ & C). destruct (C (Nat.le_refl _)) as [C1 C2]. exists sl. auto.
      * destruct (H3 w' j E2) as [A B]. split; [lia | exact B].
    + intros w' j Hw'. apply workers_upd_cases in Hw'; [|exact Hwl]. destruct Hw' as [[E1 E2]|[E1 E2]].
      * destruct (Nat.ltb i (length (f_inputs s))); discriminate.
      * destruct (H4 w' j E2) as [A B]. split; [lia | exact B].
    + intros w1 w2 p1 p2 j Hp1 Hp2 Hh1 Hh2.
      apply workers_upd_cases in Hp1; [|exact Hwl]. apply workers_upd_cases in Hp2; [|exact Hwl].
      assert (Hold : forall w0 p0, nth_error (f_workers s) w0 = Some p0 -> holds_ix p0 j -> j < i).
      { intros w0 p0 Hp0 [E|E]; subst p0; [apply (H3 w0 j Hp0) | apply (H4 w0 j Hp0)]. }
      assert (Hnew : forall p0, p0 = (if Nat.ltb i (length (f_inputs s)) then WClaimed i else WDone) -> holds_ix p0 j -> j = i).
      { intros p0 E [E'|E']; subst p0; destruct (Nat.ltb i (length (f_inputs s))); try discriminate; inversion E'; reflexivity. }
      destruct Hp1 as [[A1 B1]|[A1 B1]], Hp2 as [[A2 B2]|[A2 B2]].
      * congruence.
      * exfalso. pose proof (Hnew p1 B1 Hh1). pose proof (Hold w2 p2 B2 Hh2). lia.
      * exfalso. pose proof (Hnew p2 B2 Hh2). pose proof (Hold w1 p1 B1 Hh1). lia.
      * eapply H5; eauto.
    + intros w' Hw'. apply workers_upd_cases in Hw'; [|exact Hwl]. destruct Hw' as [[E1 E2]|[E1 E2]].
      * destruct (Nat.ltb i (length (f_inputs s))) eqn:El; [discriminate|]. apply Nat.ltb_ge in El. lia.
      * specialize (Hd w' E2). lia.
    + exact H6.
    + exact H7.
    + exact H8.
    + intros j Hj Hjl. destruct (Nat.eq_dec j i) as [E|E].
      * subst j. right. exists w, (WClaimed i). split; [|left; reflexivity].
        rewrite updn_same by exact Hwl. assert (El : Nat.ltb i (length (f_inputs s)) = true) by (apply Nat.ltb_lt; exact Hjl). rewrite El. reflexivity.
      * destruct (H9 j) as [A|(w0 & p0 & A & B)]; [lia | exact Hjl | left; exact A |].
        right. exists w0, p0. split; [|exact B]. rewrite updn_other; [exact A | exact Hwl |].
        intro E'. subst w0. rewrite Ew in A. inversion A; subst p0. destruct B; discriminate.
  - (* write the coin *)
    destruct (nth_error (f_workers s) w) as [[|i| |]|] eqn:Ew; try discriminate.
    destruct (nth_error (f_inputs s) i) as [o|] eqn:Eo; [|discriminate].
    destruct (nth_error (f_slots s) i) as [sl|] eqn:Es; [|discriminate]. inversion Hs; subst s'; clear Hs.
    pose proof (nth_error_lt _ _ _ Ew) as Hwl. pose proof (nth_error_lt _ _ _ Es) as Hil.
    destruct (H3 w i Ew) as [Hih (sl0 & Es0 & Hc0 & Hr0)]. rewrite Es in Es0. inversion Es0; subst sl0. clear Es0.
    set (nsl := {| sl_coin := Some (base o); sl_ready := sl_ready sl |}).
    assert (Hslots : forall j x, nth_error (updn (f_slots s) i nsl) j = Some x -> (j = i /\ x = nsl) \/ (j <> i /\ nth_error (f_slots s) j = Some x)).
    { intros j x H. destruct (Nat.eq_dec j i) as [E|E]; [subst; rewrite updn_same in H by exact Hil; inversion H; left; auto | rewrite updn_other in H by assumption; right; auto]. }
    assert (Hother : forall w0 p0 j, w0 <> w -> nth_error (f_workers s) w0 = Some p0 -> holds_ix p0 j -> j <> i).
    { intros w0 p0 j Hne Hp0 Hh E. subst j. apply Hne. eapply (H5 w0 w p0 (WClaimed i) i); eauto. left; reflexivity. }
    constructor; simpl.
    + rewrite updn_length by exact Hil. exact H1.
    + intros j x o' Hj Ho'. apply Hslots in Hj. destruct Hj as [[E1 E2]|[E1 E2]].
      * subst j x. rewrite Eo in Ho'. inversion Ho'; subst o'. unfold nsl; simpl. repeat split.
        -- intros c Hc. inversion Hc; reflexivity.
        -- intros _; discriminate.
        -- lia.
        -- lia.
      * exact (H2 j x o' E2 Ho').
    + intros w' j Hw'. apply workers_upd_cases in Hw'; [|exact Hwl]. destruct Hw' as [[E1 E2]|[E1 E2]]; [discriminate|].
      destruct (H3 w' j E2) as [A (x & B & C)]. split; [exact A|]. exists x. split; [|exact C].
      rewrite updn_other; [exact B | exact Hil | eapply Hother; eauto; left; reflexivity].
    + intros w' j Hw'. apply workers_upd_cases in Hw'; [|exact Hwl]. destruct Hw' as [[E1 E2]|[E1 E2]].
      * inversion E2; subst j. split; [exact Hih|]. exists nsl. split; [apply updn_same; exact Hil|]. unfold nsl; simpl. split; [discriminate | exact Hr0].
      * destruct (H4 w' j E2) as [A (x & B & C)]. split; [exact A|]. exists x. split; [|exact C].
        rewrite updn_other; [exact B | exact Hil | eapply Hother; eauto; right; reflexivity].
    + intros w1 w2 p1 p2 j Hp1 Hp2 Hh1 Hh2.
      apply workers_upd_cases in Hp1; [|exact Hwl]. apply workers_upd_cases in Hp2; [|exact Hwl].
      destruct Hp1 as [[A1 B1]|[A1 B1]], Hp2 as [[A2 B2]|[A2 B2]].
      * congruence.
      * exfalso. subst p1. assert (j = i) by (destruct Hh1 as [E|E]; inversion E; reflexivity). subst j. eapply (Hother w2 p2 i); eauto.
      * exfalso. subst p2. assert (j = i) by (destruct Hh2 as [E|E]; inversion E; reflexivity). subst j. eapply (Hother w1 p1 i); eauto.
      * eapply H5; eauto.
    + intros w' Hw'. apply workers_upd_cases in Hw'; [|exact Hwl]. destruct Hw' as [[E1 E2]|[E1 E2]]; [discriminate | exact (Hd w' E2)].
    + exact H6.
    + exact H7.
    + exact H8.
    + intros j Hj Hjl. destruct (Nat.eq_dec j i) as [E|E].
      * subst j. right. exists w, (WWrote i). split; [apply updn_same; exact Hwl | right; reflexivity].
      * destruct (H9 j Hj Hjl) as [(x & A & B)|(w0 & p0 & A & B)].
        -- left. exists x. split; [rewrite updn_other; assumption | exact B].
        -- right. exists w0, p0. split; [|exact B]. rewrite updn_other; [exact A | exact Hwl |].
           intro E'. subst w0. rewrite Ew in A. inversion A; subst p0. destruct B as [B|B]; inversion B; congruence.
  - (* set ready *)
    destruct (nth_error (f_workers s) w) as [[| |i|]|] eqn:Ew; try discriminate.
    destruct (nth_error (f_slots s) i) as [sl|] eqn:Es; [|discriminate]. inversion Hs; subst s'; clear Hs.
    pose proof (nth_error_lt _ _ _ Ew) as Hwl. pose proof (nth_error_lt _ _ _ Es) as Hil.
    destruct (H4 w i Ew) as [Hih (sl0 & Es0 & Hc0 & Hr0)]. rewrite Es in Es0. inversion Es0; subst sl0. clear Es0.
    set (nsl := {| sl_coin := sl_coin sl; sl_ready := true |}).
    assert (Hslots : forall j x, nth_error (updn (f_slots s) i nsl) j = Some x -> (j = i /\ x = nsl) \/ (j <> i /\ nth_error (f_slots s) j = Some x)).
    { intros j x H. destruct (Nat.eq_dec j i) as [E|E]; [subst; rewrite updn_same in H by exact Hil; inversion H; left; auto | rewrite updn_other in H by assumption; right; auto]. }
    assert (Hother : forall w0 p0 j, w0 <> w -> nth_error (f_workers s) w0 = Some p0 -> holds_ix p0 j -> j <> i).
    { intros w0 p0 j Hne Hp0 Hh E. subst j. apply Hne. eapply (H5 w0 w p0 (WWrote i) i); eauto. right; reflexivity. }
    constructor; simpl.
    + rewrite updn_length by exact Hil. exact H1.
    + intros j x o' Hj Ho'. apply Hslots in Hj. destruct Hj as [[E1 E2]|[E1 E2]].
      * subst j x. destruct (H2 i sl o' Es Ho') as (A & B & C). unfold nsl; simpl. repeat split; auto; lia.
      * exact (H2 j x o' E2 Ho').
    + intros w' j Hw'. apply workers_upd_cases in Hw'; [|exact Hwl]. destruct Hw' as [[E1 E2]|[E1 E2]]; [discriminate|].
      destruct (H3 w' j E2) as [A (x & B & C)]. split; [exact A|]. exists x. split; [|exact C].
      rewrite updn_other; [exact B | exact Hil | eapply Hother; eauto; left; reflexivity].
    + intros w' j Hw'. apply workers_upd_cases in Hw'; [|exact Hwl]. destruct Hw' as [[E1 E2]|[E1 E2]]; [discriminate|].
      destruct (H4 w' j E2) as [A (x & B & C)]. split; [exact A|]. exists x. split; [|exact C].
      rewrite updn_other; [exact B | exact Hil | eapply Hother; eauto; right; reflexivity].
    + intros w1 w2 p1 p2 j Hp1 Hp2 Hh1 Hh2.
      apply workers_upd_cases in Hp1; [|exact Hwl]. apply workers_upd_cases in Hp2; [|exact Hwl].
      destruct Hp1 as [[A1 B1]|[A1 B1]], Hp2 as [[A2 B2]|[A2 B2]].
      * congruence.
      * exfalso. subst p1. destruct Hh1; discriminate.
      * exfalso. subst p2. destruct Hh2; discriminate.
      * eapply H5; eauto.
    + intros w' Hw'. apply workers_upd_cases in Hw'; [|exact Hwl]. destruct Hw' as [[E1 E2]|[E1 E2]]; [discriminate | exact (Hd w' E2)].
    + exact H6.
    + rewrite H7, Hr0. reflexivity.
    + exact H8.
    + intros j Hj Hjl. destruct (Nat.eq_dec j i) as [E|E].
      * subst j. left. exists nsl. split; [apply updn_same; exact Hil | reflexivity].
      * destruct (H9 j Hj Hjl) as [(x & A & B)|(w0 & p0 & A & B)].
        -- left. exists x. split; [rewrite updn_other; assumption | exact B].
        -- right. exists w0, p0. split; [|exact B]. rewrite updn_other; [exact A | exact Hwl |].
           intro E'. subst w0. rewrite Ew in A. inversion A; subst p0. destruct B as [B|B]; inversion B; congruence.
  - (* the main thread asks for a coin *)
    destruct (f_main s) eqn:Em; [|discriminate].
    destruct (nth_error (f_inputs s) (f_tail s)) as [o'|] eqn:Et.
    + destruct (Z.eqb o' o) eqn:Eo.
      * inversion Hs; subst s'; clear Hs. constructor; simpl; auto.
        intros i E. inversion E; subst i. split; [eapply nth_error_lt; eauto | lia].
      * inversion Hs; subst s'; clear Hs. constructor; simpl; auto.
        all: try (intros i E; discriminate).
        all: intros o0 r Hin; apply in_app_or in Hin; destruct Hin as [Hin|[Hin|[]]]; [eauto | inversion Hin; reflexivity].
    + inversion Hs; subst s'; clear Hs. constructor; simpl; auto.
      all: try (intros i E; discriminate).
      all: intros o0 r Hin; apply in_app_or in Hin; destruct Hin as [Hin|[Hin|[]]]; [eauto | inversion Hin; reflexivity].
  - (* the main thread's wait returns *)
    destruct (f_main s) as [|i] eqn:Em; [discriminate|].
    destruct (nth_error (f_inputs s) i) as [o|] eqn:Eo; [|discriminate].
    destruct (nth_error (f_slots s) i) as [sl|] eqn:Es; [|discriminate].
    destruct (sl_ready sl) eqn:Er; [|discriminate].
    destruct (H2 i sl o Es Eo) as (A & B & _).
    destruct (sl_coin sl) as [c|] eqn:Ec; [|exfalso; apply (B Er); reflexivity].
    inversion Hs; subst s'; clear Hs. constructor; simpl; auto.
    all: try (intros j E; discriminate).
    all: intros o0 r Hin; apply in_app_or in Hin; destruct Hin as [Hin|[Hin|[]]]; [eauto|]; inversion Hin; subst; apply A; reflexivity.
Qed.

Lemma frun_FI base : forall l s s', FI base s -> frun base s l = Some s' -> FI base s'.
Proof.
  induction l as [|a l IH]; intros s s' HI H; simpl in H; [inversion H; subst; exact HI|].
  destruct (fstep base s a) as [s1|] eqn:E; [|discriminate]. eapply IH; [|exact H]. eapply fstep_FI; eauto.
Qed.

(* ---- the statements ---- *)

(* every value FetchCoinFromBase returned, in any schedule with any number of workers, is base's *)
Theorem fetch_returns_base_coin base inputs n l s o r :
  frun base (finit inputs n) l = Some s -> In (o, r) (f_results s) -> r = base o.
Proof. intros H. apply (fi_res base s). eapply frun_FI; [apply FI_init | exact H]. Qed.

(* the assertion on `ready` never fires and no coin is read before it has been written *)
Theorem fetch_never_asserts base inputs n l s : frun base (finit inputs n) l = Some s -> f_bug s = false.
Proof. intros H. apply (fi_bug base s). eapply frun_FI; [apply FI_init | exact H]. Qed.

(* no index is fetched by two workers *)
Theorem fetch_claims_are_exclusive base inputs n l s w1 w2 p1 p2 i :
  frun base (finit inputs n) l = Some s -> nth_error (f_workers s) w1 = Some p1 -> nth_error (f_workers s) w2 = Some p2 ->
  holds_ix p1 i -> holds_ix p2 i -> w1 = w2.
Proof. intros H. apply (fi_uniq base s). eapply frun_FI; [apply FI_init | exact H]. Qed.

(* the main thread never waits for ever: while it waits (and there is at least one worker), some step is enabled *)
Theorem fetch_wait_makes_progress base inputs n l s i :
  0 < n -> frun base (finit inputs n) l = Some s -> f_main s = MWaiting i -> length (f_workers s) = n ->
  exists a s', fstep base s a = Some s'.
Proof.
  intros Hn H Hm Hlen. assert (HI : FI base s) by (eapply frun_FI; [apply FI_init | exact H]).
  destruct HI as [H1 H2 H3 H4 H5 Hd H6 H7 H8 H9]. destruct (H6 i Hm) as [Hil Hit].
  assert (Hsl : i < length (f_slots s)) by lia.
  destruct (nth_error (f_slots s) i) as [sl|] eqn:Es; [|apply nth_error_None in Es; lia].
  destruct (nth_error (f_inputs s) i) as [o|] eqn:Eo; [|apply nth_error_None in Eo; lia].
  destruct (sl_ready sl) eqn:Er.
  - exists FRead. simpl. rewrite Hm, Eo, Es, Er. destruct (sl_coin sl); eexists; reflexivity.
  - destruct (Nat.lt_ge_cases i (f_head s)) as [Hlt|Hge].
    + destruct (H9 i Hlt Hil) as [(x & A & B)|(w & p & A & B)]; [rewrite Es in A; inversion A; subst; congruence|].
      destruct B as [B|B]; subst p.
      * exists (FWrite w). simpl. rewrite A, Eo, Es. eexists. reflexivity.
      * exists (FReady w). simpl. rewrite A, Es. eexists. reflexivity.
    + (* nobody has claimed i yet: a worker is idle or still busy with an earlier index *)
      assert (Hw0 : exists p, nth_error (f_workers s) 0 = Some p).
      { destruct (nth_error (f_workers s) 0) eqn:E; [eauto|]. apply nth_error_None in E. lia. }
      destruct Hw0 as [p A]. destruct p as [|j|j|].
      * exists (FClaim 0). unfold fstep. rewrite A. eexists. reflexivity.
      * destruct (H3 0 j A) as [Hj (x & B & _)]. pose proof (nth_error_lt _ _ _ B) as Hjl.
        destruct (nth_error (f_inputs s) j) as [oj|] eqn:Eoj; [|apply nth_error_None in Eoj; lia].
        exists (FWrite 0). unfold fstep. rewrite A, Eoj, B. eexists. reflexivity.
      * destruct (H4 0 j A) as [Hj (x & B & _)].
        exists (FReady 0). unfold fstep. rewrite A, B. eexists. reflexivity.
      * (* a worker is done only after the head has passed the end of the inputs *)
        exfalso. specialize (Hd 0 A). lia.
Qed.
