(* C57 -- proofs about model/AssumeValid.v *)
From BV Require Import lib.Ints model.Pow model.AssumeValid.
Local Open Scope Z_scope.

Lemma bits256_gt63 x : 0 <= x -> (bits256 x >? 63) = (2 ^ 63 <=? x).
Proof.
  intros Hx. unfold bits256. destruct (x =? 0) eqn:E0.
  - apply Z.eqb_eq in E0. subst. reflexivity.
  - apply Z.eqb_neq in E0. assert (Hpos : 0 < x) by lia.
    destruct (2 ^ 63 <=? x) eqn:E.
    + apply Z.leb_le in E. apply Z.gtb_lt. assert (63 <= Z.log2 x) by (apply Z.log2_le_pow2; lia). lia.
    + apply Z.leb_gt in E. assert (Z.log2 x < 63) by (apply Z.log2_lt_pow2; lia).
      destruct (Z.log2 x + 1 >? 63) eqn:G; [apply Z.gtb_lt in G; lia | reflexivity].
Qed.

Definition TW := TWO_WEEKS_IN_SECONDS.

Lemma two_weeks_value : TWO_WEEKS_IN_SECONDS = 1209600.
Proof. reflexivity. Qed.

(* the value computed when nothing wraps: floor(|to - from| * spacing / proof), clamped at INT64_MAX, with the sign *)
Lemma equiv_time_spec to_w from_w proof s :
  0 < proof -> 0 <= s <= UINT64_MAX ->
  Z.abs (to_w - from_w) * s < 2 ^ 256 ->
  equiv_time to_w from_w proof s =
    EptOk ((if to_w >? from_w then 1 else -1) * Z.min INT64_MAX (Z.abs (to_w - from_w) * s / proof)).
Proof.
  intros Hp Hs Hnw. unfold equiv_time.
  assert (E0 : (proof =? 0) = false) by (apply Z.eqb_neq; lia). rewrite E0.
  rewrite (wrapu64_id s) by exact Hs.
  set (r := if to_w >? from_w then to_w - from_w else from_w - to_w).
  assert (Hr : r = Z.abs (to_w - from_w)).
  { unfold r. destruct (to_w >? from_w) eqn:E; [apply Z.gtb_lt in E | rewrite Z.gtb_ltb in E; apply Z.ltb_ge in E]; lia. }
  rewrite Hr. set (a := Z.abs (to_w - from_w)) in *.
  assert (Ha : 0 <= a) by (unfold a; lia).
  assert (Has : 0 <= a * s) by (apply Z.mul_nonneg_nonneg; lia).
  unfold wrap256. rewrite (Z.mod_small (a * s)) by lia.
  set (q := a * s / proof).
  assert (Hq : 0 <= q) by (unfold q; apply Z.div_pos; lia).
  rewrite (bits256_gt63 q Hq).
  destruct (2 ^ 63 <=? q) eqn:E.
  - apply Z.leb_le in E. f_equal. f_equal. unfold INT64_MAX in *. change (2 ^ 63) with 9223372036854775808 in E. lia.
  - apply Z.leb_gt in E. change (2 ^ 63) with 9223372036854775808 in E.
    rewrite (Z.mod_small q) by (change (2 ^ 64) with 18446744073709551616; lia).
    rewrite wrap64_id by (unfold INT64_MIN, INT64_MAX; lia). f_equal. f_equal. unfold INT64_MAX. lia.
Qed.

Lemma bits_proof_spec nbits :
  let d := set_compact nbits in
  cd_negative d = false -> cd_overflow d = false -> 0 < cd_value d < 2 ^ 256 - 1 ->
  bits_proof nbits = 2 ^ 256 / (cd_value d + 1).
Proof.
  intros d Hn Ho Hv. unfold bits_proof. fold d. rewrite Hn, Ho. cbn [orb].
  assert (E : (cd_value d =? 0) = false) by (apply Z.eqb_neq; lia). rewrite E.
  unfold wrap256. set (t := cd_value d) in *.
  assert (HP : 0 < 2 ^ 256) by (apply Z.pow_pos_nonneg; lia).
  remember (2 ^ 256) as P eqn:EP. clear EP.
  rewrite (Z.mod_small (t + 1)) by lia.
  set (a := P - 1 - t). assert (Ha : 0 <= a) by (unfold a; lia).
  assert (H1 : P = a + 1 * (t + 1)) by (unfold a; lia).
  assert (H2 : P / (t + 1) = a / (t + 1) + 1).
  { rewrite H1 at 1. rewrite Z.div_add by lia. reflexivity. }
  rewrite H2. apply Z.mod_small.
  assert (0 <= a / (t + 1)) by (apply Z.div_pos; lia).
  assert (a / (t + 1) <= a) by (apply Z.div_le_upper_bound; [lia | nia]).
  unfold a in *. lia.
Qed.

(* ---- the five conditions ---- *)

Definition c_ancestor (I : index) (cfg : av_cfg) (p : Z) : bool :=
  match I p, av_hash cfg with
  | Some pe, Some av => match I av with Some _ => opt_is (get_ancestor I av (be_height pe)) p | None => false end
  | _, _ => false
  end.
Definition c_best_chain (I : index) (cfg : av_cfg) (p : Z) : bool :=
  match I p with Some pe => opt_is (get_ancestor I (av_best_header cfg) (be_height pe)) p | None => false end.
Definition c_min_work (I : index) (cfg : av_cfg) : bool :=
  match I (av_best_header cfg) with Some he => av_min_work cfg <=? be_work he | None => false end.
Definition c_buried (I : index) (cfg : av_cfg) (p : Z) : bool :=
  match I p, I (av_best_header cfg) with
  | Some pe, Some he =>
      let pr := bits_proof (be_bits he) in
      negb (pr =? 0) && (TWO_WEEKS_IN_SECONDS * pr + pr <=? (be_work he - be_work pe) * av_spacing cfg)
  | _, _ => false
  end.

Lemma skip_allowed_conj I cfg p :
  skip_allowed I cfg p = c_ancestor I cfg p && c_best_chain I cfg p && c_min_work I cfg && c_buried I cfg p.
Proof.
  unfold skip_allowed, c_ancestor, c_best_chain, c_min_work, c_buried.
  destruct (I p) as [pe|]; [|reflexivity].
  destruct (I (av_best_header cfg)) as [he|].
  - destruct (av_hash cfg) as [av|]; [|reflexivity]. destruct (I av); [|reflexivity].
    rewrite <- !andb_assoc. reflexivity.
  - destruct (av_hash cfg) as [av|]; [|reflexivity]. destruct (I av); [|reflexivity].
    rewrite !andb_false_r. reflexivity.
Qed.

Definition wf_works (I : index) (cfg : av_cfg) (p : Z) : Prop :=
  0 <= av_spacing cfg <= UINT64_MAX /\
  forall pe he, I p = Some pe -> I (av_best_header cfg) = Some he ->
    Z.abs (be_work he - be_work pe) * av_spacing cfg < 2 ^ 256 /\ 0 <= bits_proof (be_bits he).

Lemma bits_proof_nonneg nbits : 0 <= bits_proof nbits.
Proof.
  unfold bits_proof. destruct (_ || _ || _); [lia|]. unfold wrap256.
  assert (HP : 0 < 2 ^ 256) by (apply Z.pow_pos_nonneg; lia).
  remember (2 ^ 256) as P eqn:EP. clear EP. match goal with |- 0 <= ?x mod P => pose proof (Z.mod_pos_bound x P HP) end. lia.
Qed.

(* scripts are skipped if and only if all the conditions hold *)
Lemma equiv_time_zero a b s : equiv_time a b 0 s = EptDivZero.
Proof. unfold equiv_time. rewrite Z.eqb_refl. reflexivity. Qed.

Theorem skip_iff I cfg p :
  wf_works I cfg p ->
  (script_check I cfg p = VSkip <-> skip_allowed I cfg p = true).
Proof.
  intros [Hs Hw]. unfold script_check, skip_allowed.
  destruct (I p) as [pe|] eqn:Ep; [|split; discriminate].
  destruct (I (av_best_header cfg)) as [he|] eqn:Eh; [|split; discriminate].
  destruct (av_hash cfg) as [av|]; [|split; discriminate].
  destruct (I av); [|split; discriminate].
  destruct (opt_is (get_ancestor I av (be_height pe)) p); cbn [negb andb]; [|split; discriminate].
  destruct (opt_is (get_ancestor I (av_best_header cfg) (be_height pe)) p); cbn [negb andb]; [|split; discriminate].
  destruct (Hw pe he eq_refl eq_refl) as [Hnw Hpr0].
  rewrite Z.ltb_antisym. destruct (av_min_work cfg <=? be_work he); cbn [negb andb]; [|split; discriminate].
  set (pr := bits_proof (be_bits he)) in *. clearbody pr.
  destruct (pr =? 0) eqn:E0; cbn [negb andb].
  - apply Z.eqb_eq in E0. subst pr. rewrite equiv_time_zero. split; discriminate.
  - apply Z.eqb_neq in E0. assert (Hpr : 0 < pr) by lia.
    rewrite (equiv_time_spec _ _ pr _ Hpr Hs Hnw).
    set (d := be_work he - be_work pe) in *. set (s := av_spacing cfg) in *.
    assert (HTW : TWO_WEEKS_IN_SECONDS = 1209600) by reflexivity.
    remember TWO_WEEKS_IN_SECONDS as W eqn:EW. clear EW.
    assert (HM : INT64_MAX = 9223372036854775807) by reflexivity.
    remember INT64_MAX as M eqn:EM. clear EM.
    destruct (be_work he >? be_work pe) eqn:Eg.
    + apply Z.gtb_lt in Eg. assert (Hd : 0 < d) by (unfold d; lia). rewrite (Z.abs_eq d) by lia.
      assert (Hds : 0 <= d * s) by (apply Z.mul_nonneg_nonneg; lia).
      rewrite Z.mul_1_l.
      assert (Hfl : W < d * s / pr <-> W * pr + pr <= d * s).
      { split; intros H.
        - assert (W + 1 <= d * s / pr) by lia.
          assert (pr * (d * s / pr) <= d * s) by (apply Z.mul_div_le; lia). nia.
        - assert ((W + 1) <= d * s / pr) by (apply Z.div_le_lower_bound; [lia | nia]). lia. }
      destruct (Z.min M (d * s / pr) <=? W) eqn:Ec.
      * apply Z.leb_le in Ec. split; [discriminate|]. intros H. apply Z.leb_le in H. apply Hfl in H. lia.
      * apply Z.leb_gt in Ec. split; [intros _ | reflexivity]. apply Z.leb_le. apply Hfl. lia.
    + rewrite Z.gtb_ltb in Eg. apply Z.ltb_ge in Eg. assert (Hd : d <= 0) by (unfold d; lia).
      assert (Hmin : 0 <= Z.min M (Z.abs d * s / pr)).
      { apply Z.min_glb; [lia | apply Z.div_pos; [apply Z.mul_nonneg_nonneg; lia | lia]]. }
      assert (Ec : (-1 * Z.min M (Z.abs d * s / pr) <=? W) = true) by (apply Z.leb_le; lia).
      rewrite Ec. split; [discriminate|]. intros H. apply Z.leb_le in H.
      assert (d * s <= 0) by nia. nia.
Qed.

(* every other verdict verifies the scripts (VErr is not a run of the code) *)
Lemma verdict_cases I cfg p :
  script_check I cfg p = VSkip \/ script_check I cfg p = VErr \/ scripts_verified (script_check I cfg p) = true.
Proof. destruct (script_check I cfg p); simpl; auto. Qed.

Theorem not_skip_verified I cfg p :
  wf_works I cfg p -> skip_allowed I cfg p = false -> script_check I cfg p <> VErr ->
  scripts_verified (script_check I cfg p) = true.
Proof.
  intros Hw Hs He. destruct (verdict_cases I cfg p) as [H|[H|H]]; auto.
  apply (skip_iff I cfg p Hw) in H. congruence.
Qed.

(* a block that is not on the best header chain (a competing branch) is verified *)
Theorem other_branch_verified I cfg p :
  c_best_chain I cfg p = false -> script_check I cfg p <> VSkip.
Proof.
  unfold c_best_chain, script_check. destruct (I p) as [pe|]; [|intros _; destruct (I (av_best_header cfg)); discriminate].
  intros H. destruct (I (av_best_header cfg)); [|discriminate]. destruct (av_hash cfg) as [av|]; [|discriminate].
  destruct (I av); [|discriminate]. destruct (negb (opt_is (get_ancestor I av (be_height pe)) p)); [discriminate|].
  rewrite H. cbn [negb]. discriminate.
Qed.

(* a skipped block is buried under more than two weeks' worth of work at the best header's difficulty *)
Theorem skip_implies_buried I cfg p pe he :
  wf_works I cfg p -> I p = Some pe -> I (av_best_header cfg) = Some he ->
  script_check I cfg p = VSkip ->
  TWO_WEEKS_IN_SECONDS * bits_proof (be_bits he) < (be_work he - be_work pe) * av_spacing cfg /\ 0 < bits_proof (be_bits he).
Proof.
  intros Hw Ep Eh H. apply (skip_iff I cfg p Hw) in H. rewrite skip_allowed_conj in H.
  apply andb_true_iff in H. destruct H as [_ H]. unfold c_buried in H. rewrite Ep, Eh in H.
  apply andb_true_iff in H. destruct H as [H0 H1]. apply negb_true_iff, Z.eqb_neq in H0. apply Z.leb_le in H1.
  pose proof (bits_proof_nonneg (be_bits he)). lia.
Qed.

(* with 600 s spacing: more than 2016 blocks of the best header's difficulty *)
Corollary skip_implies_2016_blocks I cfg p pe he :
  wf_works I cfg p -> av_spacing cfg = 600 -> I p = Some pe -> I (av_best_header cfg) = Some he ->
  script_check I cfg p = VSkip ->
  2016 * bits_proof (be_bits he) < be_work he - be_work pe.
Proof.
  intros Hw Hs Ep Eh H. destruct (skip_implies_buried I cfg p pe he Hw Ep Eh H) as [H1 H2].
  rewrite Hs in H1. unfold TWO_WEEKS_IN_SECONDS in H1. lia.
Qed.

(* ---- each condition is needed: witnesses where the other conditions hold and the scripts are verified ---- *)

Definition RB : Z := 0x207fffff.   (* regtest nBits: proof 2 *)
Definition wI : index := fun b =>
  if b =? 0 then Some {| be_parent := None; be_height := 0; be_work := 2; be_bits := RB |} else
  if b =? 1 then Some {| be_parent := Some 0; be_height := 1; be_work := 4; be_bits := RB |} else
  if b =? 2 then Some {| be_parent := Some 1; be_height := 2; be_work := 6; be_bits := RB |} else
  if b =? 3 then Some {| be_parent := Some 2; be_height := 3; be_work := 6000; be_bits := RB |} else
  if b =? 4 then Some {| be_parent := Some 3; be_height := 4; be_work := 6002; be_bits := RB |} else
  if b =? 12 then Some {| be_parent := Some 1; be_height := 2; be_work := 7000; be_bits := RB |} else
  if b =? 13 then Some {| be_parent := Some 12; be_height := 3; be_work := 9000; be_bits := RB |} else None.
Definition wcfg (av : option Z) (minw best : Z) : av_cfg := {| av_hash := av; av_min_work := minw; av_best_header := best; av_spacing := 600 |}.

Lemma witness_skip : script_check wI (wcfg (Some 4) 100 4) 2 = VSkip /\ skip_allowed wI (wcfg (Some 4) 100 4) 2 = true.
Proof. split; vm_compute; reflexivity. Qed.

Lemma configured_needed : script_check wI (wcfg None 100 4) 2 = VNotConfigured
  /\ c_best_chain wI (wcfg None 100 4) 2 = true /\ c_min_work wI (wcfg None 100 4) = true /\ c_buried wI (wcfg None 100 4) 2 = true.
Proof. repeat split; vm_compute; reflexivity. Qed.

Lemma in_index_needed : script_check wI (wcfg (Some 99) 100 4) 2 = VNotInIndex
  /\ c_best_chain wI (wcfg (Some 99) 100 4) 2 = true /\ c_min_work wI (wcfg (Some 99) 100 4) = true /\ c_buried wI (wcfg (Some 99) 100 4) 2 = true.
Proof. repeat split; vm_compute; reflexivity. Qed.

Lemma ancestor_needed : script_check wI (wcfg (Some 13) 100 4) 2 = VNotAncestor
  /\ c_ancestor wI (wcfg (Some 13) 100 4) 2 = false
  /\ c_best_chain wI (wcfg (Some 13) 100 4) 2 = true /\ c_min_work wI (wcfg (Some 13) 100 4) = true /\ c_buried wI (wcfg (Some 13) 100 4) 2 = true.
Proof. repeat split; vm_compute; reflexivity. Qed.

Lemma best_chain_needed : script_check wI (wcfg (Some 4) 100 13) 2 = VNotBestChain
  /\ c_best_chain wI (wcfg (Some 4) 100 13) 2 = false
  /\ c_ancestor wI (wcfg (Some 4) 100 13) 2 = true /\ c_min_work wI (wcfg (Some 4) 100 13) = true /\ c_buried wI (wcfg (Some 4) 100 13) 2 = true.
Proof. repeat split; vm_compute; reflexivity. Qed.

Lemma min_work_needed : script_check wI (wcfg (Some 4) 7000 4) 2 = VBelowMinWork
  /\ c_min_work wI (wcfg (Some 4) 7000 4) = false
  /\ c_ancestor wI (wcfg (Some 4) 7000 4) 2 = true /\ c_best_chain wI (wcfg (Some 4) 7000 4) 2 = true /\ c_buried wI (wcfg (Some 4) 7000 4) 2 = true.
Proof. repeat split; vm_compute; reflexivity. Qed.

Lemma buried_needed : script_check wI (wcfg (Some 4) 100 4) 3 = VTooRecent
  /\ c_buried wI (wcfg (Some 4) 100 4) 3 = false
  /\ c_ancestor wI (wcfg (Some 4) 100 4) 3 = true /\ c_best_chain wI (wcfg (Some 4) 100 4) 3 = true /\ c_min_work wI (wcfg (Some 4) 100 4) = true.
Proof. repeat split; vm_compute; reflexivity. Qed.

(* the two-week boundary in regtest blocks: 2016 blocks on top are not enough, 2017 are *)
Lemma regtest_boundary :
  equiv_time (2 * 2016 + 10) 10 (bits_proof RB) 600 = EptOk 1209600 /\
  equiv_time (2 * 2017 + 10) 10 (bits_proof RB) 600 = EptOk 1210200 /\ bits_proof RB = 2.
Proof. repeat split; vm_compute; reflexivity. Qed.

Lemma witness_wf : wf_works wI (wcfg (Some 4) 100 4) 2.
Proof.
  split; [unfold wcfg, UINT64_MAX; simpl; lia|]. intros pe he Hp Hh.
  vm_compute in Hp. vm_compute in Hh. inversion Hp; subst pe. inversion Hh; subst he. split; vm_compute; [reflexivity | discriminate].
Qed.
