(* C41: soundness of the executable checker of wallet-created transactions (model/WalletSpend.v), the arithmetic
   of the subtract-fee-from-amount distribution, and the fee bounds that follow from what the checker accepts. *)
From BV Require Import lib.Ints model.WalletSpend.
From Coq Require Import NArith.
Local Open Scope Z_scope.

(* ---------------------------------------------------------------------------------------------- *)
(* get_fee *)

Lemma get_fee_mono rate a b : 0 <= rate -> a <= b -> get_fee rate a <= get_fee rate b.
Proof.
  intros Hr Hab. unfold get_fee. apply Z.div_le_mono; [lia|]. nia.
Qed.

Lemma get_fee_rate_mono r1 r2 b : 0 <= b -> r1 <= r2 -> get_fee r1 b <= get_fee r2 b.
Proof.
  intros Hb Hr. unfold get_fee. apply Z.div_le_mono; [lia|]. nia.
Qed.

Lemma get_fee_nonneg rate b : 0 <= rate -> 0 <= b -> 0 <= get_fee rate b.
Proof. intros. unfold get_fee. apply Z.div_pos; nia. Qed.

(* ceil(rate*b/1000): the least integer fee f with 1000 f >= rate * b *)
Lemma get_fee_ceil rate b : rate * b <= 1000 * get_fee rate b < rate * b + 1000.
Proof. unfold get_fee. lia. Qed.

(* sum of per-piece fees against the fee of the whole: rounding costs at most one unit per piece *)
Lemma get_fee_add rate a b :
  get_fee rate (a + b) <= get_fee rate a + get_fee rate b <= get_fee rate (a + b) + 1.
Proof.
  pose proof (get_fee_ceil rate a). pose proof (get_fee_ceil rate b). pose proof (get_fee_ceil rate (a + b)). nia.
Qed.

Lemma get_fee_zero rate : get_fee rate 0 = 0.
Proof. unfold get_fee. rewrite Z.mul_0_r. reflexivity. Qed.

Lemma get_fee_sum rate (l : list Z) :
  get_fee rate (zsum l) <= zsum (map (get_fee rate) l) <= get_fee rate (zsum l) + Z.of_nat (length l).
Proof.
  induction l as [|x t IH]; simpl zsum; simpl map; simpl length.
  - rewrite get_fee_zero. simpl. lia.
  - pose proof (get_fee_add rate x (zsum t)). lia.
Qed.

(* ---------------------------------------------------------------------------------------------- *)
(* reflection of the small boolean helpers *)

Lemma mem_z_In x l : mem_z x l = true <-> In x l.
Proof.
  unfold mem_z. rewrite existsb_exists. split.
  - intros [y [Hy He]]. apply Z.eqb_eq in He. subst. exact Hy.
  - intros H. exists x. split; [exact H|apply Z.eqb_refl].
Qed.

Lemma distinct_z_NoDup l : distinct_z l = true <-> NoDup l.
Proof.
  induction l as [|x t IH]; simpl.
  - split; [constructor|reflexivity].
  - rewrite andb_true_iff, negb_true_iff, IH. split.
    + intros [Hm Hn]. constructor; [|exact Hn]. intro Hin. apply mem_z_In in Hin. congruence.
    + intros H. inversion H as [|? ? Hni Hnd]; subst. split; [|exact Hnd].
      destruct (mem_z x t) eqn:E; [|reflexivity]. apply mem_z_In in E. contradiction.
Qed.

Lemma find_coin_Some w id c : find_coin w id = Some c -> In c w /\ wc_id c = id.
Proof.
  induction w as [|d t IH]; simpl; [discriminate|].
  destruct (wc_id d =? id) eqn:E.
  - intros H. inversion H; subst. apply Z.eqb_eq in E. auto.
  - intros H. destruct (IH H). auto.
Qed.

Lemma script_eqb_eq a b : script_eqb a b = true <-> a = b.
Proof.
  unfold script_eqb. revert b. induction a as [|x t IH]; intros [|y u]; simpl; split; intros H; try reflexivity; try discriminate.
  - apply andb_true_iff in H. destruct H as [Hl Hf]. simpl in Hf. apply andb_true_iff in Hf. destruct Hf as [Hx Hf].
    apply N.eqb_eq in Hx. subst. f_equal. apply IH. rewrite Hl, Hf. reflexivity.
  - inversion H; subst. assert (E : u = u) by reflexivity. apply IH in E. apply andb_true_iff in E. destruct E as [El Ef].
    simpl. rewrite El, N.eqb_refl, Ef. reflexivity.
Qed.

(* ---------------------------------------------------------------------------------------------- *)
(* the subtract-fee-from-amount distribution *)

Lemma shares_length q r f rcps : length (shares q r f rcps) = length rcps.
Proof. revert f. induction rcps as [|rc t IH]; intros f; simpl; [reflexivity|]. destruct (rc_sffo rc); simpl; rewrite IH; reflexivity. Qed.

Lemma shares_sum_notfirst q r rcps : zsum (shares q r false rcps) = q * n_sffo rcps.
Proof.
  unfold n_sffo. induction rcps as [|rc t IH]; simpl; [lia|].
  destruct (rc_sffo rc); simpl zsum; simpl filter; simpl length; rewrite IH; lia.
Qed.

Lemma shares_sum_first q r rcps :
  zsum (shares q r true rcps) = q * n_sffo rcps + (if any_sffo rcps then r else 0).
Proof.
  unfold n_sffo, any_sffo. induction rcps as [|rc t IH]; simpl; [lia|].
  destruct (rc_sffo rc) eqn:E; simpl zsum; simpl filter; simpl length; simpl orb.
  - pose proof (shares_sum_notfirst q r t) as H. unfold n_sffo in H. rewrite H. lia.
  - rewrite IH. lia.
Qed.

Lemma any_sffo_n rcps : any_sffo rcps = true <-> 0 < n_sffo rcps.
Proof.
  unfold any_sffo, n_sffo. induction rcps as [|rc t IH]; simpl.
  - split; [discriminate|lia].
  - destruct (rc_sffo rc); simpl; [split; [lia|reflexivity]|]. exact IH.
Qed.

(* the shares add up to exactly the amount to be taken from the recipients, whatever its sign *)
Lemma sffo_shares_sum t rcps : any_sffo rcps = true -> zsum (sffo_shares t rcps) = t.
Proof.
  intros H. unfold sffo_shares. rewrite shares_sum_first, H.
  apply any_sffo_n in H. unfold cdiv, cmod.
  pose proof (Z.quot_rem' t (n_sffo rcps)). lia.
Qed.

(* position by position: a recipient that does not subtract pays nothing; the FIRST subtracting recipient pays
   quotient + remainder, every later one the quotient *)
Definition share_spec (t : Z) (rcps : list recipient) (k : nat) (s : Z) : Prop :=
  match nth_error rcps k with
  | None => False
  | Some rc =>
      if rc_sffo rc
      then if existsb rc_sffo (firstn k rcps) then s = cdiv t (n_sffo rcps)
           else s = cdiv t (n_sffo rcps) + cmod t (n_sffo rcps)
      else s = 0
  end.

Lemma shares_nth q r rcps : forall f k s,
  nth_error (shares q r f rcps) k = Some s ->
  match nth_error rcps k with
  | None => False
  | Some rc => if rc_sffo rc then (if negb f || existsb rc_sffo (firstn k rcps) then s = q else s = q + r) else s = 0
  end.
Proof.
  induction rcps as [|rc t IH]; intros f k s H.
  - destruct k; discriminate.
  - simpl in H. destruct k as [|k].
    + simpl. destruct (rc_sffo rc); simpl in H; inversion H; subst.
      * destruct f; simpl; reflexivity.
      * reflexivity.
    + simpl nth_error. simpl firstn. simpl existsb.
      destruct (rc_sffo rc) eqn:E; simpl in H.
      * specialize (IH false k s H). destruct (nth_error t k) as [rc'|]; [|exact IH].
        destruct (rc_sffo rc'); [|exact IH]. simpl in IH. rewrite orb_true_r. exact IH.
      * specialize (IH f k s H). destruct (nth_error t k) as [rc'|]; [|exact IH].
        destruct (rc_sffo rc'); exact IH.
Qed.

Lemma sffo_shares_spec t rcps k s : nth_error (sffo_shares t rcps) k = Some s -> share_spec t rcps k s.
Proof.
  intros H. unfold sffo_shares in H. apply shares_nth in H. unfold share_spec.
  destruct (nth_error rcps k) as [rc|]; [|exact H]. destruct (rc_sffo rc); [|exact H].
  simpl in H. destruct (existsb rc_sffo (firstn k rcps)); exact H.
Qed.

(* ---------------------------------------------------------------------------------------------- *)
(* Prop-level statement of the property for one created transaction *)

Definition spendable_prop (e : env) (rq : request) (c : wcoin) : Prop :=
  wc_immature c = false /\ 0 <= wc_depth c /\ (wc_depth c = 0 -> wc_inmempool c = true) /\
  (rq_include_unsafe rq = false -> wc_trusted c = true /\ (wc_depth c = 0 -> wc_replace c = false)) /\
  rq_min_depth rq <= wc_depth c <= rq_max_depth rq /\
  wc_locked c = false /\ wc_spent c = false /\
  (e_spend_zc e = false -> 1 <= wc_depth c).

Lemma spendable_sound e rq c : spendable e rq c = true -> spendable_prop e rq c.
Proof.
  unfold spendable, spendable_prop, coin_safe. intros H.
  repeat (apply andb_true_iff in H; destruct H as [H ?]).
  repeat match goal with
         | h : negb _ = true |- _ => apply negb_true_iff in h
         | h : (_ <=? _) = true |- _ => apply Z.leb_le in h
         end.
  split; [exact H|]. split; [exact H7|]. split.
  { intros Hd. rewrite Hd in H6. simpl in H6. exact H6. }
  split.
  { intros Hu. rewrite Hu in H5. simpl in H5. apply andb_true_iff in H5. destruct H5 as [Ht Hr]. split; [exact Ht|].
    intros Hd. rewrite Hd in Hr. simpl in Hr. apply negb_true_iff in Hr. exact Hr. }
  split; [lia|]. split; [exact H2|]. split; [exact H1|].
  intros Hz. rewrite Hz in H0. simpl in H0. apply Z.leb_le in H0. exact H0.
Qed.

(* recipient rc with share s is paid by output o *)
Definition pays (rc : recipient) (s : Z) (o : txout) : Prop :=
  to_spk o = rc_spk rc /\ to_value o = rc_amount rc - s.

Inductive paid_all : list recipient -> list Z -> list txout -> Prop :=
| paid_nil : paid_all [] [] []
| paid_cons rc s o rt st ot : pays rc s o -> paid_all rt st ot -> paid_all (rc :: rt) (s :: st) (o :: ot).

Lemma paid_ok_sound rcps sh ps : paid_ok rcps sh ps = true -> paid_all rcps sh ps.
Proof.
  revert sh ps. induction rcps as [|rc rt IH]; intros [|s st] [|o ot] H; simpl in H; try discriminate.
  - constructor.
  - apply andb_true_iff in H. destruct H as [H H3]. apply andb_true_iff in H. destruct H as [H1 H2].
    constructor; [|apply IH; exact H3]. split.
    + symmetry. apply script_eqb_eq. exact H1.
    + apply Z.eqb_eq in H2. exact H2.
Qed.

Lemma paid_all_lengths rcps sh ps : paid_all rcps sh ps -> length sh = length rcps /\ length ps = length rcps.
Proof. induction 1; simpl; [auto|]. destruct IHpaid_all. auto. Qed.

Lemma paid_all_sum rcps sh ps : paid_all rcps sh ps -> zsum (map to_value ps) = sum_requested rcps - zsum sh.
Proof.
  unfold sum_requested. induction 1 as [|rc s o rt st ot [_ Hv] _ IH]; simpl; [reflexivity|]. rewrite IH, Hv. lia.
Qed.

(* k-th recipient, its share and its output *)
Lemma paid_all_nth rcps sh ps : paid_all rcps sh ps ->
  forall k rc, nth_error rcps k = Some rc -> exists s o, nth_error sh k = Some s /\ nth_error ps k = Some o /\ pays rc s o.
Proof.
  induction 1 as [|rc0 s0 o0 rt st ot Hp _ IH]; intros k rc Hk.
  - destruct k; discriminate.
  - destruct k as [|k]; simpl in *.
    + inversion Hk; subst. exists s0, o0. auto.
    + apply IH. exact Hk.
Qed.

Definition the_shares (rq : request) (res : result) : list Z :=
  if any_sffo (rq_rcps rq)
  then sffo_shares (total_reduction (rq_rcps rq) (payouts res)) (rq_rcps rq)
  else map (fun _ => 0) (rq_rcps rq).

Record funding_ok (w : list wcoin) (e : env) (rq : request) (res : result) : Prop := {
  (* inputs: at least one, pairwise distinct *)
  fo_distinct : NoDup (in_ids res);
  fo_nonempty : r_ins res <> [];
  (* each one explicitly supplied by the caller, or a spendable wallet coin (and then automatic selection was allowed) *)
  fo_inputs : forall i, In i (r_ins res) ->
      In (ti_id i) (rq_preset rq) \/
      (rq_allow_other rq = true /\
       exists c, In c w /\ wc_id c = ti_id i /\ wc_value c = ti_value i /\ spendable_prop e rq c);
  (* a wallet coin that is spent is spent at its true value *)
  fo_values : forall i c, In i (r_ins res) -> find_coin w (ti_id i) = Some c -> wc_value c = ti_value i;
  (* every supplied input is used *)
  fo_presets : forall id, In id (rq_preset rq) -> In id (in_ids res);
  (* value conservation *)
  fo_conservation : sum_in res = sum_out res + r_fee res;
  (* the outputs other than the change are the recipients', in order, each paid its amount minus its share *)
  fo_recipients : paid_all (rq_rcps rq) (the_shares rq res) (payouts res);
  fo_change_pos : forall p, r_change_pos res = Some p -> (p < length (r_outs res))%nat;
  (* how much the subtracting recipients pay together *)
  fo_sffo_change : any_sffo (rq_rcps rq) = true -> r_change_pos res <> None ->
      total_reduction (rq_rcps rq) (payouts res) = r_fee res;
  fo_sffo_nochange : any_sffo (rq_rcps rq) = true -> r_change_pos res = None ->
      r_fee res - min_viable_change e < total_reduction (rq_rcps rq) (payouts res) <= r_fee res;
  (* no output is dust *)
  fo_no_dust : forall o, In o (r_outs res) -> dust_threshold (e_dust_rate e) (to_spk o) <= to_value o;
  (* change goes to the wallet (or to the script the caller chose) and is worth creating *)
  fo_change : forall p, r_change_pos res = Some p ->
      exists o, nth_error (r_outs res) p = Some o /\
                match rq_dest_change rq with Some s => to_spk o = s | None => to_mine o = true end /\
                min_viable_change e <= to_value o;
  (* fee *)
  fo_rate_ok : 0 <= effective_rate e rq /\ (forall r, rq_feerate rq = Some r -> effective_rate e rq <= r);
  fo_sizes : 0 < r_vsize res <= r_max_vsize res /\ 0 <= r_bump res;
  fo_slack : r_signed res = true -> r_max_vsize res <= r_vsize res + SIG_SLACK * Z.of_nat (length (r_ins res));
  fo_fee_min : get_fee (effective_rate e rq) (r_max_vsize res) + r_bump res <= r_fee res;
  fo_fee_max : r_fee res <= e_max_fee e;
  fo_fee_exact : r_change_pos res <> None \/ any_sffo (rq_rcps rq) = true ->
      r_fee res = get_fee (effective_rate e rq) (r_max_vsize res) + r_bump res;
  fo_fee_nochange : r_change_pos res = None -> any_sffo (rq_rcps rq) = false ->
      r_fee res <= max_fee_without_change e rq res
}.

Lemma forallb_In {A} (f : A -> bool) l : forallb f l = true -> forall x, In x l -> f x = true.
Proof. intros H. apply forallb_forall. exact H. Qed.

Theorem valid_funding_sound w e rq res : valid_funding w e rq res = true -> funding_ok w e rq res.
Proof.
  unfold valid_funding. intros H.
  apply andb_true_iff in H; destruct H as [H Hfee].
  apply andb_true_iff in H; destruct H as [H Hrate].
  apply andb_true_iff in H; destruct H as [H Hsz].
  apply andb_true_iff in H; destruct H as [H Hchg].
  apply andb_true_iff in H; destruct H as [H Hdust].
  apply andb_true_iff in H; destruct H as [H Hsffo].
  apply andb_true_iff in H; destruct H as [H Hrcp].
  apply andb_true_iff in H; destruct H as [H Hcp].
  apply andb_true_iff in H; destruct H as [H Hcons].
  apply andb_true_iff in H; destruct H as [H Hpre].
  apply andb_true_iff in H; destruct H as [H Hallowed].
  rename H into Hdist.
  unfold ck_inputs_distinct in Hdist. apply andb_true_iff in Hdist. destruct Hdist as [Hd Hne].
  unfold ck_conservation in Hcons. apply andb_true_iff in Hcons. destruct Hcons as [Hcons _].
  apply andb_true_iff in Hcons. destruct Hcons as [Hcons _]. apply Z.eqb_eq in Hcons.
  unfold ck_sizes in Hsz. repeat (apply andb_true_iff in Hsz; destruct Hsz as [Hsz ?]).
  unfold ck_rate in Hrate. repeat (apply andb_true_iff in Hrate; destruct Hrate as [Hrate ?]).
  unfold ck_fee in Hfee. repeat (apply andb_true_iff in Hfee; destruct Hfee as [Hfee ?]).
  constructor.
  - apply distinct_z_NoDup. exact Hd.
  - destruct (r_ins res); [discriminate|discriminate].
  - intros i Hi. pose proof (forallb_In _ _ Hallowed i Hi) as Ha. unfold input_allowed in Ha.
    destruct (find_coin w (ti_id i)) as [c|] eqn:Ef.
    + apply andb_true_iff in Ha. destruct Ha as [Hv Ha]. apply orb_true_iff in Ha. destruct Ha as [Ha|Ha].
      * left. apply mem_z_In. exact Ha.
      * right. apply andb_true_iff in Ha. destruct Ha as [Hao Hs]. split; [exact Hao|].
        apply find_coin_Some in Ef. destruct Ef as [Hin Hid]. exists c. apply Z.eqb_eq in Hv.
        split; [exact Hin|]. split; [exact Hid|]. split; [exact Hv|]. apply spendable_sound. exact Hs.
    + left. apply mem_z_In. exact Ha.
  - intros i c Hi Hf. pose proof (forallb_In _ _ Hallowed i Hi) as Ha. unfold input_allowed in Ha. rewrite Hf in Ha.
    apply andb_true_iff in Ha. destruct Ha as [Hv _]. apply Z.eqb_eq in Hv. exact Hv.
  - intros id Hid. unfold ck_presets_used in Hpre. pose proof (forallb_In _ _ Hpre id Hid) as Hm. apply mem_z_In. exact Hm.
  - exact Hcons.
  - unfold ck_recipients in Hrcp. unfold the_shares. destruct (any_sffo (rq_rcps rq)); apply paid_ok_sound; exact Hrcp.
  - intros p Hp. unfold ck_change_pos in Hcp. rewrite Hp in Hcp. apply Nat.ltb_lt. exact Hcp.
  - intros Hs Hp. unfold ck_sffo_amount in Hsffo. rewrite Hs in Hsffo. destruct (r_change_pos res); [|congruence].
    apply Z.eqb_eq. exact Hsffo.
  - intros Hs Hp. unfold ck_sffo_amount in Hsffo. rewrite Hs, Hp in Hsffo.
    apply andb_true_iff in Hsffo. destruct Hsffo as [Ha Hb]. apply Z.leb_le in Ha. apply Z.ltb_lt in Hb. lia.
  - intros o Ho. unfold ck_no_dust in Hdust. pose proof (forallb_In _ _ Hdust o Ho) as Hx. apply Z.leb_le. exact Hx.
  - intros p Hp. unfold ck_change in Hchg. rewrite Hp in Hchg. destruct (nth_error (r_outs res) p) as [o|]; [|discriminate].
    exists o. split; [reflexivity|]. repeat (apply andb_true_iff in Hchg; destruct Hchg as [Hchg ?]).
    split.
    + destruct (rq_dest_change rq) as [s|]; [|exact Hchg]. symmetry. apply script_eqb_eq. exact Hchg.
    + apply Z.leb_le. assumption.
  - split; [apply Z.leb_le; exact Hrate|]. intros r Hr. unfold rate_acceptable in *. rewrite Hr in *.
    match goal with h : (effective_rate e rq <=? r) = true |- _ => apply Z.leb_le in h; exact h end.
  - repeat match goal with h : (_ <=? _) = true |- _ => apply Z.leb_le in h | h : (_ <? _) = true |- _ => apply Z.ltb_lt in h end.
    lia.
  - intros Hsg. rewrite Hsg in *. simpl in *. apply Z.leb_le. assumption.
  - apply Z.leb_le. exact Hfee.
  - apply Z.leb_le. assumption.
  - intros Hor. destruct (r_change_pos res) as [p|].
    + apply Z.eqb_eq. assumption.
    + destruct Hor as [Hor|Hor]; [congruence|]. rewrite Hor in *. apply Z.eqb_eq. assumption.
  - intros Hp Hs. rewrite Hp, Hs in *. apply Z.leb_le. assumption.
Qed.

(* ---------------------------------------------------------------------------------------------- *)
(* consequences *)

(* the fee is at least the requested feerate times the final (signed) size *)
Theorem fee_covers_requested_rate w e rq res r :
  funding_ok w e rq res -> rq_feerate rq = Some r -> 0 <= r -> get_fee r (r_vsize res) <= r_fee res.
Proof.
  intros F Hr H0. destruct (fo_rate_ok _ _ _ _ F) as [He Hle]. specialize (Hle r Hr).
  pose proof (fo_fee_min _ _ _ _ F) as Hmin. destruct (fo_sizes _ _ _ _ F) as [[Hv1 Hv2] Hb].
  assert (Hge : r <= effective_rate e rq).
  { unfold effective_rate. rewrite Hr. destruct (rq_override rq); lia. }
  assert (effective_rate e rq = r) by lia.
  pose proof (get_fee_mono r (r_vsize res) (r_max_vsize res) H0 Hv2). rewrite H in Hmin. lia.
Qed.

Theorem fee_covers_effective_rate w e rq res :
  funding_ok w e rq res -> get_fee (effective_rate e rq) (r_vsize res) <= r_fee res.
Proof.
  intros F. destruct (fo_rate_ok _ _ _ _ F) as [He _]. pose proof (fo_fee_min _ _ _ _ F) as Hmin.
  destruct (fo_sizes _ _ _ _ F) as [[Hv1 Hv2] Hb].
  pose proof (get_fee_mono _ _ _ He Hv2). lia.
Qed.

(* the effective feerate is never below what the caller asked for, nor (unless overridden) below the required one *)
Lemma effective_rate_ge_requested e rq r : rq_feerate rq = Some r -> r <= effective_rate e rq.
Proof. intros H. unfold effective_rate. rewrite H. destruct (rq_override rq); lia. Qed.

Lemma effective_rate_ge_required e rq :
  rq_override rq = false -> (rq_feerate rq = None -> e_fallback e <> 0) -> required_rate e <= effective_rate e rq.
Proof.
  intros Ho Hf. unfold effective_rate. rewrite Ho. destruct (rq_feerate rq) as [r|]; [lia|].
  destruct (e_fallback e =? 0) eqn:E; [apply Z.eqb_eq in E; specialize (Hf eq_refl); contradiction|lia].
Qed.

(* value conservation seen from the recipients: together they receive what was requested minus the total reduction,
   and inputs = that + change + fee *)
Lemma sum_remove_nth (l : list txout) p o : nth_error l p = Some o ->
  zsum (map to_value l) = zsum (map to_value (remove_nth p l)) + to_value o.
Proof.
  unfold remove_nth. revert p. induction l as [|x t IH]; intros [|p] H; simpl in *; try discriminate.
  - inversion H; subst. lia.
  - rewrite (IH p H). lia.
Qed.

Theorem funding_balance w e rq res :
  funding_ok w e rq res ->
  sum_in res = (sum_requested (rq_rcps rq) - total_reduction (rq_rcps rq) (payouts res)) + change_value res + r_fee res.
Proof.
  intros F. rewrite (fo_conservation _ _ _ _ F). unfold total_reduction, sum_out, change_value, change_out, payouts.
  destruct (r_change_pos res) as [p|] eqn:Ep.
  - destruct (fo_change _ _ _ _ F p Ep) as [o [Ho _]]. rewrite Ho. rewrite (sum_remove_nth _ _ _ Ho). lia.
  - lia.
Qed.

(* without subtract-fee recipients nobody is reduced *)
Lemma zsum_zeros {A} (l : list A) : zsum (map (fun _ => 0) l) = 0.
Proof. induction l; simpl; lia. Qed.

Theorem recipients_paid_in_full w e rq res :
  funding_ok w e rq res -> any_sffo (rq_rcps rq) = false ->
  forall k rc, nth_error (rq_rcps rq) k = Some rc ->
  exists o, nth_error (payouts res) k = Some o /\ to_spk o = rc_spk rc /\ to_value o = rc_amount rc.
Proof.
  intros F Hs k rc Hk. pose proof (fo_recipients _ _ _ _ F) as P. unfold the_shares in P. rewrite Hs in P.
  destruct (paid_all_nth _ _ _ P k rc Hk) as [s [o [Hsh [Ho [Hspk Hv]]]]].
  exists o. split; [exact Ho|]. split; [exact Hspk|].
  assert (s = 0).
  { clear -Hsh. revert k Hsh. induction (rq_rcps rq) as [|x t IH]; intros [|k] H; simpl in H; try discriminate.
    - inversion H. reflexivity.
    - eapply IH. exact H. }
  lia.
Qed.

(* with subtract-fee recipients: each is paid its amount minus its share; the shares follow the documented rule (the first
   subtracting recipient pays the remainder) and add up to the total reduction *)
Theorem recipients_paid_minus_share w e rq res :
  funding_ok w e rq res -> any_sffo (rq_rcps rq) = true ->
  let t := total_reduction (rq_rcps rq) (payouts res) in
  (forall k rc, nth_error (rq_rcps rq) k = Some rc ->
     exists s o, nth_error (payouts res) k = Some o /\ to_spk o = rc_spk rc /\ to_value o = rc_amount rc - s /\
                 share_spec t (rq_rcps rq) k s) /\
  zsum (sffo_shares t (rq_rcps rq)) = t.
Proof.
  intros F Hs t. split.
  - intros k rc Hk. pose proof (fo_recipients _ _ _ _ F) as P. unfold the_shares in P. rewrite Hs in P.
    destruct (paid_all_nth _ _ _ P k rc Hk) as [s [o [Hsh [Ho [Hspk Hv]]]]].
    exists s, o. repeat split; try assumption. apply sffo_shares_spec. exact Hsh.
  - apply sffo_shares_sum. exact Hs.
Qed.

(* Exact overpayment bounds.
   (a) with a change output, or when recipients pay the fee: the fee is EXACTLY the effective feerate on the maximum signed
       size (plus ancestor bump fees); in terms of the real size of a signed transaction it exceeds the feerate by at most
       SIG_SLACK bytes per input.
   (b) without change and without subtracting recipients: bounded by the per-piece fees plus what GetChange may drop. *)
Theorem overpayment_bound_exact w e rq res :
  funding_ok w e rq res -> r_signed res = true ->
  r_change_pos res <> None \/ any_sffo (rq_rcps rq) = true ->
  r_fee res <= get_fee (effective_rate e rq) (r_vsize res + SIG_SLACK * Z.of_nat (length (r_ins res))) + r_bump res.
Proof.
  intros F Hsig Hor.
  rewrite (fo_fee_exact _ _ _ _ F Hor). destruct (fo_rate_ok _ _ _ _ F) as [He _].
  pose proof (fo_slack _ _ _ _ F Hsig) as Hs.
  pose proof (get_fee_mono _ _ _ He Hs). lia.
Qed.

Theorem overpayment_bound_nochange w e rq res :
  funding_ok w e rq res -> r_change_pos res = None -> any_sffo (rq_rcps rq) = false ->
  let rate := effective_rate e rq in
  r_fee res <= get_fee rate (zsum (map ti_size (r_ins res)) + noinputs_size (rq_rcps rq))
               + Z.of_nat (length (r_ins res)) + 1 + r_bump res
               + change_fee e rate + min_viable_change e - 1.
Proof.
  intros F Hp Hs rate. pose proof (fo_fee_nochange _ _ _ _ F Hp Hs) as H. unfold max_fee_without_change in H.
  fold rate in H. unfold input_fees in H.
  pose proof (get_fee_sum rate (map ti_size (r_ins res))) as Hsum. rewrite map_map in Hsum. rewrite map_length in Hsum.
  pose proof (get_fee_add rate (zsum (map ti_size (r_ins res))) (noinputs_size (rq_rcps rq))) as Hadd.
  lia.
Qed.

(* ---------------------------------------------------------------------------------------------- *)
(* the statement of C41 for one created transaction, spelled out *)

Definition created_tx_statement (w : list wcoin) (e : env) (rq : request) (res : result) : Prop :=
  (* distinct inputs, each explicitly supplied or a spendable wallet coin, at its true value; supplied ones all used *)
  NoDup (map ti_id (r_ins res)) /\ r_ins res <> [] /\
  (forall i, In i (r_ins res) ->
     In (ti_id i) (rq_preset rq) \/
     (rq_allow_other rq = true /\
      exists c, In c w /\ wc_id c = ti_id i /\ wc_value c = ti_value i /\
        wc_immature c = false /\ 0 <= wc_depth c /\ (wc_depth c = 0 -> wc_inmempool c = true) /\
        (rq_include_unsafe rq = false -> wc_trusted c = true /\ (wc_depth c = 0 -> wc_replace c = false)) /\
        rq_min_depth rq <= wc_depth c <= rq_max_depth rq /\
        wc_locked c = false /\ wc_spent c = false /\ (e_spend_zc e = false -> 1 <= wc_depth c))) /\
  (forall id, In id (rq_preset rq) -> In id (map ti_id (r_ins res))) /\
  (* value conservation *)
  zsum (map ti_value (r_ins res)) = zsum (map to_value (r_outs res)) + r_fee res /\
  (* recipients: the k-th output that is not the change pays the k-th recipient's script its amount minus its share *)
  length (payouts res) = length (rq_rcps rq) /\
  (forall k rc, nth_error (rq_rcps rq) k = Some rc ->
     exists s o, nth_error (payouts res) k = Some o /\ to_spk o = rc_spk rc /\ to_value o = rc_amount rc - s /\
       (any_sffo (rq_rcps rq) = false -> s = 0) /\
       (any_sffo (rq_rcps rq) = true -> share_spec (total_reduction (rq_rcps rq) (payouts res)) (rq_rcps rq) k s)) /\
  (any_sffo (rq_rcps rq) = true ->
     match r_change_pos res with
     | Some _ => total_reduction (rq_rcps rq) (payouts res) = r_fee res
     | None => r_fee res - min_viable_change e < total_reduction (rq_rcps rq) (payouts res) <= r_fee res
     end) /\
  (* no dust; change to the wallet (or the caller's script), at least min_viable_change *)
  (forall o, In o (r_outs res) -> dust_threshold (e_dust_rate e) (to_spk o) <= to_value o) /\
  (forall p, r_change_pos res = Some p ->
     exists o, nth_error (r_outs res) p = Some o /\
       match rq_dest_change rq with Some s => to_spk o = s | None => to_mine o = true end /\
       min_viable_change e <= to_value o) /\
  (* fee *)
  get_fee (effective_rate e rq) (r_vsize res) <= r_fee res /\
  (forall r, rq_feerate rq = Some r -> 0 <= r -> get_fee r (r_vsize res) <= r_fee res) /\
  r_fee res <= e_max_fee e.

Theorem created_tx_valid_sound w e rq res : valid_funding w e rq res = true -> created_tx_statement w e rq res.
Proof.
  intros V. pose proof (valid_funding_sound _ _ _ _ V) as F. unfold created_tx_statement.
  split; [exact (fo_distinct _ _ _ _ F)|]. split; [exact (fo_nonempty _ _ _ _ F)|].
  split; [exact (fo_inputs _ _ _ _ F)|]. split; [exact (fo_presets _ _ _ _ F)|].
  split; [exact (fo_conservation _ _ _ _ F)|].
  pose proof (fo_recipients _ _ _ _ F) as P.
  split; [apply (paid_all_lengths _ _ _ P)|].
  split.
  { intros k rc Hk. destruct (any_sffo (rq_rcps rq)) eqn:Hs.
    - destruct (recipients_paid_minus_share _ _ _ _ F Hs) as [H _]. destruct (H k rc Hk) as [s [o [Ho [Hspk [Hv Hsp]]]]].
      exists s, o. split; [exact Ho|]. split; [exact Hspk|]. split; [exact Hv|]. split; [discriminate|]. intros _. exact Hsp.
    - destruct (recipients_paid_in_full _ _ _ _ F Hs k rc Hk) as [o [Ho [Hspk Hv]]].
      exists 0, o. split; [exact Ho|]. split; [exact Hspk|]. split; [lia|]. split; [reflexivity|]. discriminate. }
  split.
  { intros Hs. destruct (r_change_pos res) as [p|] eqn:Ep.
    - apply (fo_sffo_change _ _ _ _ F Hs). congruence.
    - apply (fo_sffo_nochange _ _ _ _ F Hs Ep). }
  split; [exact (fo_no_dust _ _ _ _ F)|]. split; [exact (fo_change _ _ _ _ F)|].
  split; [exact (fee_covers_effective_rate _ _ _ _ F)|].
  split; [intros r Hr H0; exact (fee_covers_requested_rate _ _ _ _ r F Hr H0)|].
  exact (fo_fee_max _ _ _ _ F).
Qed.

(* the distribution rule itself *)
Theorem subtract_share_spec t rcps : any_sffo rcps = true ->
  zsum (sffo_shares t rcps) = t /\ length (sffo_shares t rcps) = length rcps /\
  (forall k s, nth_error (sffo_shares t rcps) k = Some s -> share_spec t rcps k s).
Proof.
  intros H. split; [apply sffo_shares_sum; exact H|]. split; [apply shares_length|]. intros k s. apply sffo_shares_spec.
Qed.
