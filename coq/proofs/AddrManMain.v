(* C37: the invariant over all operation sequences, its consequences (CheckAddrman passes, bounds), the effect of Good. *)
From Coq Require Import Sorted.
From BV Require Import lib.Ints model.AddrMan proofs.AddrManMaps proofs.AddrManInv proofs.AddrManOps proofs.AddrManSteps
  proofs.AddrManFrames proofs.AddrManCheck.
Local Open Scope Z_scope.

(* operations of the public interface, with the clock, the random draws and the caller's arguments made explicit *)
Inductive op : Type :=
| OAdd (k time services src penalty now draw : Z)           (* Add({addr}, source, time_penalty) *)
| OAddMany (l : list (Z * Z * Z * Z)) (src penalty now : Z) (* Add(vAddr, source, time_penalty), one draw per address *)
| OGood (k time : Z)                                        (* Good(addr, time) (test-before-evict) *)
| OAttempt (k : Z) (count_failure : bool) (time : Z)
| OConnected (k time : Z)
| OSetServices (k services : Z)
| OResolve (now : Z)                                        (* ResolveCollisions() *)
| OSelectColl (draw : Z)                                    (* SelectTriedCollision() *)
| OGetAddr (max_addresses max_pct net : Z) (filtered : bool) (now : Z) (draws : list Z).

Section Main.
  Variable c : cfg.
  Variable tried_bucket : Z -> Z.
  Variable new_bucket : Z -> Z -> Z.
  Variable bucket_pos : bool -> Z -> Z -> Z.
  Variable routable : Z -> bool.
  Variable valid : Z -> bool.
  Variable network : Z -> Z.
  Variable netclass : Z -> Z.
  Variable addr_of : Z -> Z.
  Hypothesis H_NB : 0 < c_NB c.
  Hypothesis H_NT : 0 < c_NT c.
  Hypothesis H_BS : 0 < c_BS c.
  Hypothesis H_MAXREF : 1 <= c_MAXREF c.
  Hypothesis H_COLL : 0 <= c_COLL c.
  Hypothesis H_nb : forall k s, 0 <= new_bucket k s < c_NB c.
  Hypothesis H_tb : forall k, 0 <= tried_bucket k < c_NT c.
  Hypothesis H_bp : forall f b k, 0 <= bucket_pos f b k < c_BS c.
  Set Default Proof Using "All".

  Notation tslot := (tslot tried_bucket bucket_pos).
  Notation nslot := (nslot new_bucket bucket_pos).
  Notation Inv := (Inv c tried_bucket bucket_pos routable network).
  Notation CollInv := (CollInv tried_bucket bucket_pos).
  Notation STEPS l := (l c tried_bucket new_bucket bucket_pos routable valid network netclass addr_of H_NB H_MAXREF H_nb) (only parsing).

  Definition FullInv (s : st) : Prop := Inv s /\ CollInv s /\ (forall id, In id (s_coll s) -> id < s_idcount s).

  Definition apply_op (s : st) (o : op) : res st :=
    match o with
    | OAdd k time services src penalty now draw =>
      do (s', _) <- add_single c new_bucket bucket_pos routable network addr_of s k time services src penalty now draw; Ok s'
    | OAddMany l src penalty now =>
      do (s', _) <- add_many c new_bucket bucket_pos routable network addr_of s l src penalty now false; Ok s'
    | OGood k time => do (s', _) <- good c tried_bucket new_bucket bucket_pos network s k true time; Ok s'
    | OAttempt k cf time => Ok (attempt s k cf time)
    | OConnected k time => Ok (connected s k time)
    | OSetServices k sv => Ok (set_services_op s k sv)
    | OResolve now => resolve_collisions c tried_bucket new_bucket bucket_pos valid network s now
    | OSelectColl draw => do (s', _) <- select_tried_collision tried_bucket bucket_pos s draw; Ok s'
    | OGetAddr maxa pct net filtered now draws => do (s', _) <- getaddr c netclass s maxa pct net filtered now draws; Ok s'
    end.

  (* what the callers guarantee: clock values are positive, address timestamps fit the uint32 they travel in,
     the draws are in the range randrange() was asked for, nIdCount (int64) stays below 2^62 *)
  Definition op_ok (s : st) (o : op) : Prop :=
    match o with
    | OAdd k time services src penalty now draw => s_idcount s < IDLIM /\ add_args_ok time penalty
    | OAddMany l src penalty now => s_idcount s + zlen l <= IDLIM /\ 0 <= penalty /\ Forall (fun x => 0 <= snd (fst (fst x)) < 4294967296) l
    | OGood k time => 0 < time
    | OAttempt k cf time => 0 <= time
    | OConnected k time => 0 <= time < 4294967296
    | OSetServices k sv => True
    | OResolve now => 0 < now
    | OSelectColl draw => True
    | OGetAddr maxa pct net filtered now draws => draws_ok (zlen (s_random s)) draws
    end.

  Lemma FullInv_init : FullInv init_state.
  Proof.
    split; [|split]; [|intros id a []|intros id []].
    split; [|split; [|split]].
    - constructor; simpl; try (intros; discriminate); try constructor; try lia. constructor. unfold zlen; simpl; lia.
    - constructor; simpl; try (intros; discriminate); auto. intros i id H. unfold znth in H. destruct (i <? 0); [discriminate|]. destruct (Z.to_nat i); discriminate.
    - constructor; simpl; auto. constructor.
    - intros id a H. discriminate.
  Qed.

  Lemma coll_from_kb s s' : FullInv s -> Inv s' -> kb s s' -> FullInv s'.
  Proof.
    intros (G & CI & CL) G' (K1 & K2 & K3 & K4). split; [auto|]. split.
    - intros id a I F. rewrite K2 in I. rewrite K1. destruct (K4 _ _ F) as [(a0 & F0 & E0)|Q]; [|specialize (CL _ I); lia].
      rewrite <- E0. apply (CI id a0); auto.
    - intros id I. rewrite K2 in I. specialize (CL _ I). lia.
  Qed.
  Lemma coll_from_frames s s' : FullInv s -> Inv s' -> occ_mono s s' -> kback s s' -> s_idcount s <= s_idcount s' ->
    (forall x, In x (s_coll s') -> In x (s_coll s)) -> FullInv s'.
  Proof.
    intros (G & CI & CL) G' OM KB LE SUB. split; [auto|]. split.
    - intros id a I F. destruct (KB _ _ F) as (a0 & F0 & E0). destruct (CI id a0 (SUB _ I) F0) as (o & FO). rewrite <- E0. apply (OM _ _ FO).
    - intros id I. specialize (CL _ (SUB _ I)). lia.
  Qed.
  Lemma kback_upd s id a a' : zfind id (s_info s) = Some a -> a_key a' = a_key a -> kback s (set_info (zset id a' (s_info s)) s).
  Proof. intros F K id0 x Q. simpl in Q. rewrite zfind_zset in Q. destruct (id =? id0) eqn:E; [|eauto]. apply Z.eqb_eq in E. subst id0. injection Q as <-. eauto. Qed.

  Lemma upd_full s id a a' : FullInv s -> zfind id (s_info s) = Some a -> a_key a' = a_key a ->
    Inv (set_info (zset id a' (s_info s)) s) -> FullInv (set_info (zset id a' (s_info s)) s).
  Proof.
    intros FI F K G'. apply (coll_from_frames s _); auto; simpl; try lia.
    - intros sl o Q. simpl. eauto.
    - apply kback_upd with (a := a); auto.
  Qed.

  Lemma add_many_ok l : forall s src penalty now added,
    FullInv s -> s_idcount s + zlen l <= IDLIM -> 0 <= penalty -> Forall (fun x => 0 <= snd (fst (fst x)) < 4294967296) l ->
    exists s' b, add_many c new_bucket bucket_pos routable network addr_of s l src penalty now added = Ok (s', b) /\ FullInv s' /\
                 s_idcount s <= s_idcount s' <= s_idcount s + zlen l.
  Proof.
    induction l as [|[[[k time] services] draw] r IH]; intros s src penalty now added FI LIM PN FA.
    - exists s, added. split; [reflexivity|]. split; [auto|]. unfold zlen; simpl; lia.
    - cbn [add_many]. unfold zlen in LIM. cbn [length] in LIM. inversion FA as [|x y FA1 FA2]; subst. simpl in FA1.
      destruct FI as (G & CI & CL).
      destruct (STEPS add_single_ok s k time services src penalty now draw G) as (s1 & b & AS & G1 & LE1); [lia | split; auto|].
      rewrite AS. cbn [bind].
      assert (FI1 : FullInv s1) by (apply (coll_from_kb s s1); [split; auto | auto | eapply kb_add_single; eauto]).
      destruct (IH s1 src penalty now (added || b) FI1) as (s' & b' & AM & FI' & LE'); auto; [unfold zlen; lia|].
      exists s', b'. split; [exact AM|]. split; [auto|]. unfold zlen in *. cbn [length]. lia.
  Qed.

  (* ---------- one step ---------- *)
  Theorem step_ok s o : FullInv s -> s_idcount s < IDLIM -> op_ok s o ->
    exists s', apply_op s o = Ok s' /\ FullInv s' /\ s_idcount s <= s_idcount s'.
  Proof.
    intros FI LIM OK. pose proof FI as (G & CI & CL). destruct o; simpl in OK; cbn [apply_op].
    - destruct OK as [L A]. destruct (STEPS add_single_ok s k time services src penalty now draw G L A) as (s' & b & AS & G' & LE).
      rewrite AS. cbn [bind]. exists s'. split; [reflexivity|]. split; [|lia]. apply (coll_from_kb s s'); auto. eapply kb_add_single; eauto.
    - destruct OK as (L & PN & FA). destruct (add_many_ok l s src penalty now false FI L PN FA) as (s' & b & AM & FI' & LE).
      rewrite AM. cbn [bind]. exists s'. split; [reflexivity|]. split; [auto | lia].
    - destruct (STEPS good_ok s k true time G) as (s' & b & GD & G' & e1 & e2 & e3 & EFF); [lia | auto|].
      destruct (STEPS good_frames s k true time s' b G) as (OM & KB); [lia | auto | auto|].
      rewrite GD. cbn [bind]. exists s'. split; [reflexivity|]. split; [|lia].
      destruct e3 as [e3|(_ & _ & id & a & o & FA & NT & FO & e3)].
      + apply (coll_from_frames s s'); auto; [lia | rewrite e3; auto].
      + split; [auto|]. split.
        * intros id0 a0 I F. rewrite e3 in I. apply set_insert_In in I. destruct (KB _ _ F) as (x & F0 & E0). rewrite <- E0.
          destruct I as [->|I].
          -- destruct G as (HA & _). destruct (find_addr_some c tried_bucket bucket_pos routable s k id a HA FA) as (F1 & K1).
             rewrite F1 in F0. injection F0 as <-. rewrite K1. apply (OM _ _ FO).
          -- destruct (CI id0 x I F0) as (o' & FO'). apply (OM _ _ FO').
        * intros id0 I. rewrite e3 in I. apply set_insert_In in I. rewrite e1. destruct I as [->|I]; [|auto].
          destruct G as (HA & _). destruct (find_addr_some c tried_bucket bucket_pos routable s k id a HA FA) as (F1 & K1).
          apply (S_ids _ _ _ _ _ HA _ _ F1).
    - destruct (STEPS attempt_ok s k count_failure time G OK) as (G' & e). eexists. split; [reflexivity|]. split; [|lia].
      unfold attempt in *. destruct (find_addr s k) as [[id a]|] eqn:FA; [|exact FI].
      destruct G as (HA & _). destruct (find_addr_some c tried_bucket bucket_pos routable s k id a HA FA) as (F1 & K1).
      apply (upd_full s id a); auto. destruct (count_failure && _); reflexivity.
    - destruct (STEPS connected_ok s k time G OK) as (G' & e). eexists. split; [reflexivity|]. split; [|lia].
      unfold connected in *. destruct (find_addr s k) as [[id a]|] eqn:FA; [|exact FI].
      destruct (time - a_time a >? 1200); [|exact FI].
      destruct G as (HA & _). destruct (find_addr_some c tried_bucket bucket_pos routable s k id a HA FA) as (F1 & K1).
      apply (upd_full s id a); auto.
    - destruct (STEPS set_services_ok s k services G) as (G' & e). eexists. split; [reflexivity|]. split; [|lia].
      unfold set_services_op in *. destruct (find_addr s k) as [[id a]|] eqn:FA; [|exact FI].
      destruct G as (HA & _). destruct (find_addr_some c tried_bucket bucket_pos routable s k id a HA FA) as (F1 & K1).
      apply (upd_full s id a); auto.
    - destruct (STEPS resolve_collisions_ok s now G CI) as (s' & RC & G' & CI' & e & SUB); [lia | auto|].
      exists s'. split; [exact RC|]. split; [|lia]. split; [auto|]. split; [auto|]. intros id I. rewrite e. auto.
    - destruct (STEPS select_tried_collision_ok s draw G CI) as (s' & r & SC & G' & CI' & e & SUB).
      rewrite SC. cbn [bind]. exists s'. split; [reflexivity|]. split; [|lia]. split; [auto|]. split; [auto|]. intros id I. rewrite e. auto.
    - destruct (STEPS getaddr_ok s max_addresses max_pct net filtered now draws G OK) as (s' & l & GA & G' & SF & KB).
      rewrite GA. cbn [bind]. destruct SF as (f1 & f2 & f3 & f4 & f5 & f6 & f7 & f8 & f9).
      exists s'. split; [reflexivity|]. split; [|lia].
      apply (coll_from_frames s s'); auto; try lia; [intros sl o F; rewrite f5; eauto | rewrite f8; auto].
  Qed.

  (* ---------- all operation sequences ---------- *)
  Inductive reach : st -> Prop :=
  | reach_init : reach init_state
  | reach_step s o s' : reach s -> s_idcount s < IDLIM -> op_ok s o -> apply_op s o = Ok s' -> reach s'.

  Theorem reach_inv s : reach s -> FullInv s.
  Proof.
    induction 1 as [|s o s' R IH L OK AP]; [apply FullInv_init|].
    destruct (step_ok s o IH L OK) as (s'' & AP' & FI' & _). rewrite AP in AP'. injection AP' as <-. auto.
  Qed.

  (* no assertion of the C++ can fire *)
  Theorem reach_no_assert s o : reach s -> s_idcount s < IDLIM -> op_ok s o -> exists s', apply_op s o = Ok s'.
  Proof. intros R L OK. destruct (step_ok s o (reach_inv s R) L OK) as (s' & AP & _). eauto. Qed.

  (* CheckAddrman() passes in every reachable state *)
  Theorem reach_check s : reach s -> s_idcount s <= IDLIM -> check_addrman c tried_bucket bucket_pos network s = 0.
  Proof. intros R L. destruct (reach_inv s R) as (G & _). apply check_addrman_zero with (routable := routable); auto. Qed.

  (* ---------- bounds ---------- *)
  Lemma nodup_map_inj {A B} (f : A -> B) (l : list A) :
    NoDup l -> (forall x y, In x l -> In y l -> f x = f y -> x = y) -> NoDup (map f l).
  Proof.
    induction l as [|x r IH]; intros ND INJ; [constructor|]. cbn [map]. constructor.
    - intros I. apply in_map_iff in I. destruct I as (y & E & I). assert (y = x) by (apply INJ; simpl; auto). subst y. inversion ND; auto.
    - apply IH; [inversion ND; auto|]. intros a b Ia Ib. apply INJ; simpl; auto.
  Qed.
  Lemma slots_bound (t : list (slot * Z)) nb :
    0 <= nb -> NoDup (keys t) -> (forall b p id, In ((b, p), id) t -> 0 <= b < nb /\ 0 <= p < c_BS c) -> zlen t <= nb * c_BS c.
  Proof.
    intros NB ND RG. replace (zlen t) with (zlen (map (fun sl : slot => fst sl * c_BS c + snd sl) (keys t))) by (unfold zlen, keys; rewrite !map_length; auto).
    apply nodup_range_len; [nia| |].
    - apply nodup_map_inj; auto. intros [b1 p1] [b2 p2] I1 I2 E. simpl in E.
      apply in_map_iff in I1. destruct I1 as ([sl1 i1] & E1 & I1). simpl in E1. subst sl1.
      apply in_map_iff in I2. destruct I2 as ([sl2 i2] & E2 & I2). simpl in E2. subst sl2.
      destruct (RG _ _ _ I1), (RG _ _ _ I2). assert (b1 = b2) by nia. subst b2. assert (p1 = p2) by lia. subst. reflexivity.
    - intros x I. apply in_map_iff in I. destruct I as ([b p] & E & I). simpl in E. subst x.
      apply in_map_iff in I. destruct I as ([sl i] & E & I). simpl in E. subst sl. destruct (RG _ _ _ I). nia.
  Qed.
  Lemma ids_bound (info : list (Z * ainfo)) (f : Z * ainfo -> bool) (t : list (slot * Z)) :
    NoDup (keys info) -> (forall id a, In (id, a) info -> f (id, a) = true -> In id (map snd t)) -> mcount f info <= zlen t.
  Proof.
    intros ND H. unfold mcount. replace (zlen (filter f info)) with (zlen (map fst (filter f info))) by (unfold zlen; rewrite map_length; auto).
    replace (zlen t) with (zlen (map snd t)) by (unfold zlen; rewrite map_length; auto).
    unfold zlen. apply inj_le. apply NoDup_incl_length.
    - clear H. induction info as [|[k v] r IH]; [constructor|]. cbn [filter]. assert (ND2 : NoDup (keys r)) by (inversion ND; auto).
      assert (ND1 : ~ In k (keys r)) by (inversion ND; auto). destruct (f (k, v)); [|auto]. cbn [map fst]. constructor; [|auto].
      intros I. apply ND1. apply in_map_iff in I. destruct I as ([k' v'] & E & I). simpl in E. subst k'. apply filter_In in I. destruct I as [I _].
      apply in_map_iff. exists (k, v'). auto.
    - intros x I. apply in_map_iff in I. destruct I as ([k v] & E & I). simpl in E. subst k. apply filter_In in I. destruct I. eapply H; eauto.
  Qed.

  Theorem inv_bounds s : Inv s ->
    s_nnew s <= zlen (s_new s) /\ zlen (s_new s) <= c_NB c * c_BS c /\
    s_ntried s <= zlen (s_tried s) /\ zlen (s_tried s) <= c_NT c * c_BS c /\
    zlen (s_random s) = s_nnew s + s_ntried s /\ zlen (s_coll s) <= c_COLL c /\
    (forall id a, zfind id (s_info s) = Some a ->
       if a_tried a then refs id (s_new s) = 0 /\ (forall sl, sfind sl (s_tried s) = Some id <-> sl = tslot (a_key a))
       else 1 <= refs id (s_new s) <= c_MAXREF c /\ (forall sl, sfind sl (s_tried s) <> Some id)).
  Proof.
    intros (HA & HR & HC & HX).
    assert (B1 : s_nnew s <= zlen (s_new s)).
    { rewrite (C_new _ _ _ HC). apply ids_bound; [apply (S_nd_info _ _ _ _ _ HA)|]. intros id a I F.
      assert (F0 : zfind id (s_info s) = Some a) by (apply z_In_find; auto; apply (S_nd_info _ _ _ _ _ HA)).
      unfold is_new in F. simpl in F. rewrite andb_true_r in F. apply negb_true_iff in F.
      pose proof (HX id a F0 F (fun x => x)) as RP. destruct (S_ref _ _ _ _ _ HA _ _ F0) as [Q _].
      destruct (refs_pos_find id (s_new s)) as (sl & FS); [apply (S_nd_new _ _ _ _ _ HA) | lia |].
      apply s_find_In in FS. apply in_map_iff. exists (sl, id). auto. }
    assert (B2 : zlen (s_new s) <= c_NB c * c_BS c).
    { apply slots_bound; [lia | apply (S_nd_new _ _ _ _ _ HA)|]. intros b p id I. apply s_In_find in I; [|apply (S_nd_new _ _ _ _ _ HA)].
      destruct (S_new _ _ _ _ _ HA _ _ _ I) as (a & F & T & E & RB). subst p. split; auto. }
    assert (B3 : s_ntried s <= zlen (s_tried s)).
    { rewrite (C_tried _ _ _ HC). apply ids_bound; [apply (S_nd_info _ _ _ _ _ HA)|]. intros id a I F.
      assert (F0 : zfind id (s_info s) = Some a) by (apply z_In_find; auto; apply (S_nd_info _ _ _ _ _ HA)).
      pose proof (S_tried2 _ _ _ _ _ HA _ _ F0 F) as FS. apply s_find_In in FS. apply in_map_iff. exists (tslot (a_key a), id). auto. }
    assert (B4 : zlen (s_tried s) <= c_NT c * c_BS c).
    { apply slots_bound; [lia | apply (S_nd_tried _ _ _ _ _ HA)|]. intros b p id I. apply s_In_find in I; [|apply (S_nd_tried _ _ _ _ _ HA)].
      destruct (S_tried1 _ _ _ _ _ HA _ _ I) as (a & F & T & E). unfold AddrMan.tslot in E. injection E as -> ->. split; auto. }
    split; [auto|]. split; [auto|]. split; [auto|]. split; [auto|]. split; [|split].
    - rewrite (S_randlen _ HR), (C_new _ _ _ HC), (C_tried _ _ _ HC).
      pose proof (mcount_partition (fun e : Z * ainfo => a_tried (snd e)) (s_info s)) as P. cbv beta in P. rewrite <- P.
      assert (mcount (is_new []) (s_info s) = mcount (fun e : Z * ainfo => negb (a_tried (snd e))) (s_info s)) as ->; [|unfold is_tried; lia].
      apply z_count_ext; [|apply (S_nd_info _ _ _ _ _ HA)]. intros k v _. unfold is_new. simpl. rewrite andb_true_r. auto.
    - apply (S_coll _ _ _ _ _ HA).
    - intros id a F. destruct (S_ref _ _ _ _ _ HA _ _ F) as [Q1 Q2]. destruct (a_tried a) eqn:T.
      + split; [rewrite <- Q1; eapply tried_ref0; eauto|]. intros sl. split.
        * intros FS. destruct (S_tried1 _ _ _ _ _ HA _ _ FS) as (a' & F' & _ & E). rewrite F in F'. injection F' as <-. auto.
        * intros ->. apply (S_tried2 _ _ _ _ _ HA _ _ F T).
      + split; [pose proof (HX id a F T (fun x => x)); lia|]. intros sl FS.
        destruct (S_tried1 _ _ _ _ _ HA _ _ FS) as (a' & F' & T' & _). rewrite F in F'. injection F' as <-. congruence.
  Qed.

  (* ---------- the effect of Good ---------- *)
  (* Good(addr) returning true: addr is now in the tried table at its slot; every other address keeps its entry and statistics,
     except that the previous occupant of that tried slot is moved back to the new table (one reference), and the address that
     held (with its last reference) the new-table slot this occupant returns to is dropped. *)
  Theorem good_effect s k time s' :
    FullInv s -> s_idcount s < IDLIM -> 0 < time ->
    good c tried_bucket new_bucket bucket_pos network s k true time = Ok (s', true) ->
    (exists id a a', find_addr s k = Some (id, a) /\ a_tried a = false /\ find_addr s' k = Some (id, a') /\ a_tried a' = true /\
                     a_last_success a' = time /\ a_attempts a' = 0 /\ a_src a' = a_src a /\ a_time a' = a_time a /\ a_services a' = a_services a /\
                     sfind (tslot k) (s_tried s') = Some id) /\
    (forall k0 id0 a0, k0 <> k -> find_addr s k0 = Some (id0, a0) ->
       (exists a0', find_addr s' k0 = Some (id0, a0') /\ same_stats a0 a0' /\
                    (sfind (tslot k) (s_tried s) <> Some id0 -> a_tried a0' = a_tried a0 /\ a_ref a0' <= a_ref a0) /\
                    (sfind (tslot k) (s_tried s) = Some id0 -> a_tried a0 = true /\ a_tried a0' = false /\ a_ref a0' = 1))
       \/ (find_addr s' k0 = None /\ a_tried a0 = false /\
           exists idev old, sfind (tslot k) (s_tried s) = Some idev /\ zfind idev (s_info s) = Some old /\ a_tried old = true /\
                            sfind (nslot (a_key old) (a_src old)) (s_new s) = Some id0)) /\
    (forall k0, find_addr s k0 = None -> find_addr s' k0 = None).
  Proof.
    intros (G & CI & CL) LIM TP GD.
    destruct (STEPS good_ok s k true time G) as (s'' & b & GD' & G' & e1 & e2 & e3 & EFF); [lia | auto|].
    rewrite GD in GD'. injection GD' as <- <-.
    pose proof G as (HA & _). pose proof G' as (HA' & _).
    destruct (find_addr s k) as [[id a]|] eqn:FA; [|destruct EFF; discriminate].
    destruct (find_addr_some c tried_bucket bucket_pos routable s k id a HA FA) as (F & K).
    destruct EFF as (NT & (r & FI) & FT & TO & OTH & FN).
    split; [|split].
    - eexists id, a, _. split; [reflexivity|]. split; [auto|]. split.
      + rewrite <- K. change (a_key a) with (a_key (set_rpos r (set_tried true (set_ref 0 (set_attempts 0 (set_last_try time (set_last_success time a))))))).
        apply (find_addr_of_info c tried_bucket bucket_pos routable s' id _ HA' FI).
      + simpl. auto 10.
    - intros k0 id0 a0 NK FA0. destruct (find_addr_some c tried_bucket bucket_pos routable s k0 id0 a0 HA FA0) as (F0 & K0).
      assert (NI : id0 <> id) by (intros E; subst id0; rewrite F in F0; injection F0 as <-; congruence).
      destruct (OTH id0 a0 NI F0) as [(a0' & Q1 & Q2 & Q3 & Q4)|(Q1 & Q2 & idev & old & Q3 & Q4 & Q5)].
      + left. exists a0'. split; [|split; [auto|split; [auto|]]].
        * rewrite <- K0. destruct Q2 as (Q2 & _). rewrite <- Q2. apply (find_addr_of_info c tried_bucket bucket_pos routable s' id0 a0' HA' Q1).
        * intros FS. destruct (Q4 FS). split; auto. destruct (S_tried1 _ _ _ _ _ HA _ _ FS) as (x & X1 & X2 & _). rewrite F0 in X1. injection X1 as <-. auto.
      + right. split; [|split; [auto|]].
        * destruct (find_addr s' k0) as [[i x]|] eqn:FA'; auto. exfalso.
          destruct (find_addr_some c tried_bucket bucket_pos routable s' k0 i x HA' FA') as (Fx & Kx).
          destruct (zfind i (s_info s)) as [y|] eqn:Fy; [|rewrite (FN _ Fy) in Fx; discriminate].
          destruct (Z.eq_dec i id) as [->|NE].
          -- rewrite FI in Fx. injection Fx as <-. simpl in Kx. congruence.
          -- destruct (OTH i y NE Fy) as [(y' & R1 & R2 & _)|(R1 & _)]; [|congruence].
             rewrite Fx in R1. injection R1 as <-. destruct R2 as (R2 & _). assert (i = id0) by (eapply (key_unique c tried_bucket bucket_pos routable s i id0 y a0); eauto; congruence).
             subst i. congruence.
        * exists idev, old. split; [auto|]. split; [auto|]. split; [|auto].
          destruct (S_tried1 _ _ _ _ _ HA _ _ Q3) as (x & X1 & X2 & _). rewrite Q4 in X1. injection X1 as <-. auto.
    - intros k0 FA0. destruct (find_addr s' k0) as [[i x]|] eqn:FA'; auto. exfalso.
      destruct (find_addr_some c tried_bucket bucket_pos routable s' k0 i x HA' FA') as (Fx & Kx).
      destruct (zfind i (s_info s)) as [y|] eqn:Fy; [|rewrite (FN _ Fy) in Fx; discriminate].
      assert (a_key y = k0).
      { destruct (Z.eq_dec i id) as [->|NE].
        - rewrite FI in Fx. injection Fx as <-. simpl in Kx. rewrite F in Fy. injection Fy as <-. auto.
        - destruct (OTH i y NE Fy) as [(y' & R1 & R2 & _)|(R1 & _)]; [|congruence]. rewrite Fx in R1. injection R1 as <-. destruct R2 as (R2 & _). congruence. }
      pose proof (find_addr_of_info c tried_bucket bucket_pos routable s i y HA Fy) as Q. rewrite H in Q. congruence.
  Qed.

  (* ---------- Select_: the counts it consults before its random search are sound ---------- *)
  (* The search loop of Select_ draws buckets until it meets an entry of a requested network in the table it decided to search; it
     can only end if such an entry exists.  Under the invariant it does: whenever the early exits are not taken, the table that will
     be searched holds an eligible entry. *)
  Lemma select_counts_sum s nets : nets <> [] ->
    select_counts s nets = (fold_left (fun acc net => acc + fst (nc_get (s_netcnt s) net)) nets 0,
                            fold_left (fun acc net => acc + snd (nc_get (s_netcnt s) net)) nets 0).
  Proof.
    intros NE. unfold select_counts. destruct nets as [|n0 r]; [congruence|]. generalize (n0 :: r) as l. clear.
    assert (G : forall l a b, fold_left (fun acc net => match zfind net (s_netcnt s) with Some (n, t) => (fst acc + n, snd acc + t) | None => acc end) l (a, b) =
                (fold_left (fun acc net => acc + fst (nc_get (s_netcnt s) net)) l a, fold_left (fun acc net => acc + snd (nc_get (s_netcnt s) net)) l b)).
    { induction l as [|x r IH]; intros a b; simpl; auto.
      assert (ST : match zfind x (s_netcnt s) with Some (n, t) => (a + n, b + t) | None => (a, b) end =
                   (a + fst (nc_get (s_netcnt s) x), b + snd (nc_get (s_netcnt s) x))).
      { unfold nc_get. destruct (zfind x (s_netcnt s)) as [[n t]|]; simpl; f_equal; lia. }
      rewrite ST. apply IH. }
    intros l. apply G.
  Qed.
  Lemma fold_sum_pos (f : Z -> Z) l : (forall x, 0 <= f x) -> forall a, 0 <= a -> a < fold_left (fun acc x => acc + f x) l a -> exists x, In x l /\ 0 < f x.
  Proof.
    intros NN. induction l as [|x r IH]; intros a A H; simpl in H; [lia|]. destruct (Z_lt_le_dec 0 (f x)) as [P|P]; [exists x; simpl; auto|].
    pose proof (NN x). assert (f x = 0) by lia. rewrite H1, Z.add_0_r in H. destruct (IH a A H) as (y & I & Q). exists y. simpl. auto.
  Qed.

  Theorem select_plan_sound s new_only nets side : Inv s -> select_plan s new_only nets = Some side ->
    exists id a, zfind id (s_info s) = Some a /\
      (nets = [] \/ In (network (a_key a)) nets) /\
      (new_only = true -> a_tried a = false) /\
      match side with Some true => a_tried a = true | Some false => a_tried a = false | None => True end /\
      (if a_tried a then sfind (tslot (a_key a)) (s_tried s) = Some id else exists sl, sfind sl (s_new s) = Some id).
  Proof.
    intros (HA & HR & HC & HX) SP.
    (* an entry of the wanted kind (tried or new) in the wanted networks exists as soon as its count is positive *)
    assert (NEWX : forall net, 0 < fst (nc_get (s_netcnt s) net) -> exists id a, zfind id (s_info s) = Some a /\ a_tried a = false /\ network (a_key a) = net).
    { intros net P. rewrite (C_net _ _ _ HC) in P. simpl in P. apply (mcount_pos_ex Z.eqb zeqb_spec) in P. destruct P as (id & a & I & Q).
      apply andb_true_iff in Q. destruct Q as [Q1 Q2]. unfold is_new in Q1. simpl in Q1. rewrite andb_true_r in Q1. apply negb_true_iff in Q1.
      unfold on_net in Q2. simpl in Q2. apply Z.eqb_eq in Q2. exists id, a. split; [apply z_In_find; auto; apply (S_nd_info _ _ _ _ _ HA) | auto]. }
    assert (TRIEDX : forall net, 0 < snd (nc_get (s_netcnt s) net) -> exists id a, zfind id (s_info s) = Some a /\ a_tried a = true /\ network (a_key a) = net).
    { intros net P. rewrite (C_net _ _ _ HC) in P. simpl in P. apply (mcount_pos_ex Z.eqb zeqb_spec) in P. destruct P as (id & a & I & Q).
      apply andb_true_iff in Q. destruct Q as [Q1 Q2]. unfold is_tried in Q1. simpl in Q1.
      unfold on_net in Q2. simpl in Q2. apply Z.eqb_eq in Q2. exists id, a. split; [apply z_In_find; auto; apply (S_nd_info _ _ _ _ _ HA) | auto]. }
    assert (NEWALL : 0 < s_nnew s -> exists id a, zfind id (s_info s) = Some a /\ a_tried a = false).
    { intros P. rewrite (C_new _ _ _ HC) in P. apply (mcount_pos_ex Z.eqb zeqb_spec) in P. destruct P as (id & a & I & Q).
      unfold is_new in Q. simpl in Q. rewrite andb_true_r in Q. apply negb_true_iff in Q. exists id, a. split; [apply z_In_find; auto; apply (S_nd_info _ _ _ _ _ HA) | auto]. }
    assert (TRIEDALL : 0 < s_ntried s -> exists id a, zfind id (s_info s) = Some a /\ a_tried a = true).
    { intros P. rewrite (C_tried _ _ _ HC) in P. apply (mcount_pos_ex Z.eqb zeqb_spec) in P. destruct P as (id & a & I & Q).
      unfold is_tried in Q. simpl in Q. exists id, a. split; [apply z_In_find; auto; apply (S_nd_info _ _ _ _ _ HA) | auto]. }
    assert (NN1 : forall net, 0 <= fst (nc_get (s_netcnt s) net)) by (intros net; rewrite (C_net _ _ _ HC); simpl; apply mcount_nonneg).
    assert (NN2 : forall net, 0 <= snd (nc_get (s_netcnt s) net)) by (intros net; rewrite (C_net _ _ _ HC); simpl; apply mcount_nonneg).
    (* which table has an eligible entry *)
    assert (PICKN : forall nc tc, select_counts s nets = (nc, tc) -> 0 < nc -> exists id a, zfind id (s_info s) = Some a /\ a_tried a = false /\ (nets = [] \/ In (network (a_key a)) nets)).
    { intros nc tc SC P. destruct nets as [|n0 r].
      - simpl in SC. injection SC as <- <-. destruct (NEWALL P) as (id & a & F & T). exists id, a. split; [auto|]. split; [auto|]. left. reflexivity.
      - rewrite select_counts_sum in SC by discriminate. injection SC as <- <-.
        assert (P' : 0 < fold_left (fun acc x => acc + fst (nc_get (s_netcnt s) x)) (n0 :: r) 0) by exact P.
        destruct (fold_sum_pos _ _ NN1 0 ltac:(lia) P') as (x & I & Q).
        destruct (NEWX x Q) as (id & a & F & T & E). exists id, a. rewrite E. auto. }
    assert (PICKT : forall nc tc, select_counts s nets = (nc, tc) -> 0 < tc -> exists id a, zfind id (s_info s) = Some a /\ a_tried a = true /\ (nets = [] \/ In (network (a_key a)) nets)).
    { intros nc tc SC P. destruct nets as [|n0 r].
      - simpl in SC. injection SC as <- <-. destruct (TRIEDALL P) as (id & a & F & T). exists id, a. split; [auto|]. split; [auto|]. left. reflexivity.
      - rewrite select_counts_sum in SC by discriminate. injection SC as <- <-.
        assert (P' : 0 < fold_left (fun acc x => acc + snd (nc_get (s_netcnt s) x)) (n0 :: r) 0) by exact P.
        destruct (fold_sum_pos _ _ NN2 0 ltac:(lia) P') as (x & I & Q).
        destruct (TRIEDX x Q) as (id & a & F & T & E). exists id, a. rewrite E. auto. }
    assert (NNC : forall nc tc, select_counts s nets = (nc, tc) -> 0 <= nc /\ 0 <= tc).
    { intros nc tc SC. destruct nets as [|n0 r].
      - simpl in SC. injection SC as <- <-. rewrite (C_new _ _ _ HC), (C_tried _ _ _ HC). split; apply mcount_nonneg.
      - rewrite select_counts_sum in SC by discriminate. injection SC as <- <-.
        assert (G : forall (f : Z -> Z) l a, (forall x, 0 <= f x) -> 0 <= a -> 0 <= fold_left (fun acc x => acc + f x) l a).
        { intros f l. induction l as [|x r0 IH]; intros a Hf A; simpl; auto. apply IH; auto. specialize (Hf x). lia. }
        split; apply G; auto; lia. }
    (* the entry found sits in its table *)
    assert (PLACE : forall id a, zfind id (s_info s) = Some a -> if a_tried a then sfind (tslot (a_key a)) (s_tried s) = Some id else exists sl, sfind sl (s_new s) = Some id).
    { intros id a F. destruct (a_tried a) eqn:T; [apply (S_tried2 _ _ _ _ _ HA _ _ F T)|].
      pose proof (HX id a F T (fun x => x)) as RP. destruct (S_ref _ _ _ _ _ HA _ _ F) as [Q _]. apply refs_pos_find; [apply (S_nd_new _ _ _ _ _ HA) | lia]. }
    unfold select_plan in SP. destruct (s_random s) eqn:ER; [discriminate|]. clear ER.
    destruct (select_counts s nets) as [nc tc] eqn:SC. destruct (NNC nc tc eq_refl) as [N1 N2].
    destruct new_only; cbn [andb orb] in SP.
    - destruct (nc =? 0) eqn:E0; [discriminate|]. apply Z.eqb_neq in E0. destruct (nc + tc =? 0); [discriminate|]. injection SP as <-.
      destruct (PICKN nc tc eq_refl ltac:(lia)) as (id & a & F & T & NET). exists id, a. pose proof (PLACE id a F) as PL. rewrite T in *. auto 10.
    - destruct (nc + tc =? 0) eqn:E0; [discriminate|]. apply Z.eqb_neq in E0.
      destruct (tc =? 0) eqn:ET.
      + apply Z.eqb_eq in ET. injection SP as <-. destruct (PICKN nc tc eq_refl ltac:(lia)) as (id & a & F & T & NET).
        exists id, a. pose proof (PLACE id a F) as PL. rewrite T in *. split; [auto|]. split; [auto|]. split; [discriminate|]. auto.
      + apply Z.eqb_neq in ET. destruct (nc =? 0) eqn:EN.
        * injection SP as <-. destruct (PICKT nc tc eq_refl ltac:(lia)) as (id & a & F & T & NET).
          exists id, a. pose proof (PLACE id a F) as PL. rewrite T in *. split; [auto|]. split; [auto|]. split; [discriminate|]. auto.
        * apply Z.eqb_neq in EN. injection SP as <-. destruct (PICKN nc tc eq_refl ltac:(lia)) as (id & a & F & T & NET).
          exists id, a. pose proof (PLACE id a F) as PL. rewrite T in *. split; [auto|]. split; [auto|]. split; [discriminate|]. auto.
  Qed.
End Main.
