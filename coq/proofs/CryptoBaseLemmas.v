(* C49 — basic facts about the word / byte vocabulary of model/CryptoBase.v *)
From Coq Require Import NArith Arith.
From BV Require Import lib.Ints model.CryptoBase.
Local Open Scope Z_scope.

Lemma w32_is_mod x : w32 x = x mod 2 ^ 32.
Proof. unfold w32. change MASK32 with (Z.ones 32). apply Z.land_ones. lia. Qed.

Lemma w64_is_mod x : w64 x = x mod 2 ^ 64.
Proof. unfold w64. change MASK64 with (Z.ones 64). apply Z.land_ones. lia. Qed.

Lemma w32_is_wrapu32 x : w32 x = wrapu32 x.
Proof. apply w32_is_mod. Qed.

Lemma w64_is_wrapu64 x : w64 x = wrapu64 x.
Proof. apply w64_is_mod. Qed.

Lemma le_bytes_length k : forall v, length (le_bytes k v) = k.
Proof. induction k as [|k IH]; intros v; simpl; [reflexivity | rewrite IH; reflexivity]. Qed.

Lemma be_bytes_length k v : length (be_bytes k v) = k.
Proof. unfold be_bytes. rewrite rev_length. apply le_bytes_length. Qed.

Lemma le_bytes_ok k : forall v, bytes_ok (le_bytes k v).
Proof.
  induction k as [|k IH]; intros v; simpl; constructor; [|apply IH].
  pose proof (Z.mod_pos_bound v 256 ltac:(lia)). lia.
Qed.

Lemma be_bytes_ok k v : bytes_ok (be_bytes k v).
Proof. unfold be_bytes, bytes_ok. apply Forall_rev. apply le_bytes_ok. Qed.

(* WriteLE then ReadLE is the identity on k-byte values *)
Lemma le_value_le_bytes k : forall v, le_value (le_bytes k v) = v mod 2 ^ (8 * Z.of_nat k).
Proof.
  induction k as [|k IH]; intros v.
  - simpl. rewrite Z.mod_1_r. reflexivity.
  - cbn [le_bytes le_value]. rewrite IH. rewrite Z2N.id by (pose proof (Z.mod_pos_bound v 256 ltac:(lia)); lia).
    replace (8 * Z.of_nat (S k)) with (8 + 8 * Z.of_nat k) by lia.
    rewrite Z.pow_add_r by lia. change (2 ^ 8) with 256.
    rewrite Z.rem_mul_r by lia. lia.
Qed.
