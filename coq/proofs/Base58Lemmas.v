(* C45 — base58 / base58check (model/Base58.v): the conversion loops compute positional representations,
   the buffer sizes 138/100 and 733/1000 always suffice (assert(carry == 0) never fires), and
   Decode (Encode x) = x for every byte string, leading zero bytes <-> leading '1' characters. *)
From Coq Require Import NArith Lia.
From BV Require Import lib.Ints model.Bech32 model.Base58.
Local Open Scope N_scope.

(* little-endian value of a digit list *)
Fixpoint le_val (base : N) (ds : list N) : N :=
  match ds with [] => 0 | d :: r => d + base * le_val base r end.

Definition digits_lt (base : N) (ds : list N) : Prop := Forall (fun d => d < base) ds.
(* no superfluous most-significant zero digit *)
Definition minimal (ds : list N) : Prop := last ds 1 <> 0.

Lemma le_val_app : forall base a b, le_val base (a ++ b) = le_val base a + base ^ N.of_nat (length a) * le_val base b.
Proof.
  induction a as [|d a IH]; intros b; cbn [le_val app length].
  - change (N.of_nat 0) with 0. rewrite N.pow_0_r. lia.
  - rewrite IH, Nat2N.inj_succ, N.pow_succ_r'. lia.
Qed.

Lemma le_val_bound : forall base ds, 1 < base -> digits_lt base ds -> le_val base ds < base ^ N.of_nat (length ds).
Proof.
  induction ds as [|d r IH]; intros Hb H; cbn [le_val length].
  - simpl. lia.
  - inversion H; subst. rewrite Nat2N.inj_succ, N.pow_succ_r'. specialize (IH Hb H3). nia.
Qed.

Lemma last_cons_ne : forall (d : N) r x, r <> [] -> last (d :: r) x = last r x.
Proof. intros d [|e r] x H; [contradiction|reflexivity]. Qed.

Lemma minimal_lower_bound : forall base ds, 1 < base -> ds <> [] -> minimal ds ->
  base ^ N.of_nat (length ds - 1) <= le_val base ds.
Proof.
  induction ds as [|d r IH]; intros Hb Hne Hm; [contradiction|].
  destruct r as [|e r'].
  - cbn [le_val length]. unfold minimal in Hm. simpl in Hm. simpl. lia.
  - assert (Hm' : minimal (e :: r')) by (unfold minimal in *; rewrite last_cons_ne in Hm by discriminate; exact Hm).
    specialize (IH Hb ltac:(discriminate) Hm').
    cbn [length] in *. replace (S (S (length r')) - 1)%nat with (S (length r')) by lia.
    replace (S (length r') - 1)%nat with (length r') in IH by lia.
    rewrite Nat2N.inj_succ, N.pow_succ_r'. change (le_val base (d :: e :: r')) with (d + base * le_val base (e :: r')). nia.
Qed.

(* two minimal representations of the same number coincide *)
Lemma le_val_inj_len : forall base a b, 1 < base -> digits_lt base a -> digits_lt base b -> length a = length b ->
  le_val base a = le_val base b -> a = b.
Proof.
  induction a as [|x a IH]; intros [|y b] Hb Ha Hbb Hl E; try discriminate; [reflexivity|].
  inversion Ha; inversion Hbb; subst. cbn [le_val] in E. cbn [length] in Hl.
  assert (x = y).
  { apply (f_equal (fun z => z mod base)) in E.
    rewrite !(N.mul_comm base), !N.mod_add in E by lia. rewrite !N.mod_small in E by assumption. exact E. }
  subst y. f_equal. apply (IH b Hb); auto. nia.
Qed.

Lemma minimal_length_unique : forall base a b, 1 < base -> digits_lt base a -> digits_lt base b ->
  minimal a -> minimal b -> a <> [] -> b <> [] -> le_val base a = le_val base b -> length a = length b.
Proof.
  intros base a b Hb Ha Hbb Ma Mb Na Nb E.
  pose proof (minimal_lower_bound base a Hb Na Ma) as La. pose proof (minimal_lower_bound base b Hb Nb Mb) as Lb.
  pose proof (le_val_bound base a Hb Ha) as Ua. pose proof (le_val_bound base b Hb Hbb) as Ub.
  destruct (Nat.lt_trichotomy (length a) (length b)) as [H|[H|H]]; [|assumption|]; exfalso.
  - assert (base ^ N.of_nat (length a) <= base ^ N.of_nat (length b - 1)) by (apply N.pow_le_mono_r; lia). lia.
  - assert (base ^ N.of_nat (length b) <= base ^ N.of_nat (length a - 1)) by (apply N.pow_le_mono_r; lia). lia.
Qed.

Lemma minimal_nonzero : forall base ds, 1 < base -> ds <> [] -> minimal ds -> le_val base ds <> 0.
Proof.
  intros base ds Hb Hne Hm. pose proof (minimal_lower_bound base ds Hb Hne Hm).
  assert (0 < base ^ N.of_nat (length ds - 1)) by (apply N.neq_0_lt_0; apply N.pow_nonzero; lia). lia.
Qed.

Theorem minimal_repr_unique : forall base a b, 1 < base -> digits_lt base a -> digits_lt base b ->
  minimal a -> minimal b -> le_val base a = le_val base b -> a = b.
Proof.
  intros base a b Hb Ha Hbb Ma Mb E.
  destruct a as [|x a'], b as [|y b']; [reflexivity| | |].
  - exfalso. apply (minimal_nonzero base (y :: b') Hb ltac:(discriminate) Mb). rewrite <- E. reflexivity.
  - exfalso. apply (minimal_nonzero base (x :: a') Hb ltac:(discriminate) Ma). rewrite E. reflexivity.
  - apply (le_val_inj_len base); auto. apply (minimal_length_unique base); auto; discriminate.
Qed.

(* ---------------------------------------------------------------------------------------------- *)
(* the inner loop: b = b * mult + carry *)
Lemma b_extend_spec : forall base room carry ds, 1 < base -> b_extend base carry room = Some ds ->
  le_val base ds = carry /\ digits_lt base ds /\ (length ds <= room)%nat /\ (ds <> [] -> minimal ds) /\ (carry <> 0 -> ds <> []).
Proof.
  induction room as [|room IH]; intros carry ds Hb H; cbn [b_extend] in H.
  - destruct (N.eqb_spec carry 0) as [->|]; [|discriminate]. injection H as <-.
    split; [reflexivity|]. split; [constructor|]. split; [simpl; lia|]. split; intros Hx; contradiction.
  - destruct (N.eqb_spec carry 0) as [->|Hnz].
    + injection H as <-.
      split; [reflexivity|]. split; [constructor|]. split; [simpl; lia|]. split; intros Hx; contradiction.
    + destruct (b_extend base (carry / base) room) as [ds'|] eqn:E; [|discriminate]. injection H as <-.
      destruct (IH _ _ Hb E) as (Hv & Hd & Hl & Hm & Hn).
      split; [|split; [|split; [|split]]].
      * cbn [le_val]. rewrite Hv. rewrite (N.div_mod carry base) at 3 by lia. lia.
      * constructor; [apply N.mod_lt; lia|assumption].
      * cbn [length]. lia.
      * intros _. unfold minimal. destruct ds' as [|e r].
        -- simpl. intros Hz. assert (carry / base = 0) by (simpl in Hv; lia).
           assert (carry = 0) by (rewrite (N.div_mod carry base) by lia; lia). contradiction.
        -- rewrite last_cons_ne by discriminate. apply Hm. discriminate.
      * intros _. discriminate.
Qed.

Lemma b_extend_succeeds : forall base room carry, 1 < base -> carry < base ^ N.of_nat room ->
  exists ds, b_extend base carry room = Some ds.
Proof.
  induction room as [|room IH]; intros carry Hb H; cbn [b_extend].
  - simpl in H. assert (carry = 0) by lia. subst. eexists; reflexivity.
  - destruct (N.eqb_spec carry 0); [eexists; reflexivity|].
    destruct (IH (carry / base) Hb) as [ds E].
    { rewrite Nat2N.inj_succ, N.pow_succ_r' in H. apply N.div_lt_upper_bound; lia. }
    rewrite E. eexists; reflexivity.
Qed.

Lemma b_muladd_spec : forall base mult digs carry room ds, 1 < base -> 0 < mult ->
  b_muladd base mult digs carry room = Some ds ->
  le_val base ds = carry + mult * le_val base digs /\ digits_lt base ds /\
  (length digs <= length ds <= length digs + room)%nat /\
  ((digs <> [] -> minimal digs) -> ds <> [] -> minimal ds).
Proof.
  induction digs as [|d r IH]; intros carry room ds Hb Hm H; cbn [b_muladd] in H.
  - destruct (b_extend_spec base room carry ds Hb H) as (Hv & Hd & Hl & Hmin & _).
    cbn [le_val length]. split; [rewrite Hv; lia|]. split; [assumption|]. split; [lia|]. intros _ Hne. apply Hmin. assumption.
  - destruct (b_muladd base mult r ((carry + mult * d) / base) room) as [ds'|] eqn:E; [|discriminate]. injection H as <-.
    destruct (IH _ _ _ Hb Hm E) as (Hv & Hd & Hl & Hmin).
    split; [|split; [|split]].
    + cbn [le_val]. rewrite Hv. pose proof (N.div_mod (carry + mult * d) base ltac:(lia)). lia.
    + constructor; [apply N.mod_lt; lia|assumption].
    + cbn [length]. lia.
    + intros Hdm _. unfold minimal. destruct ds' as [|e ds''].
      * (* no higher digit: r = [] and the carry out is 0, so this digit is carry + mult * d with d <> 0 *)
        assert (r = []) by (destruct r; [reflexivity|cbn [length] in Hl; lia]). subst r.
        cbn [le_val] in Hv. simpl. intros Hz.
        assert (Hq : (carry + mult * d) / base = 0) by lia.
        assert (Hc : carry + mult * d = 0) by (rewrite (N.div_mod (carry + mult * d) base) by lia; lia).
        assert (d <> 0) by (specialize (Hdm ltac:(discriminate)); unfold minimal in Hdm; simpl in Hdm; exact Hdm).
        nia.
      * rewrite last_cons_ne by discriminate. apply Hmin; [|discriminate].
        intros Hr. specialize (Hdm ltac:(discriminate)). unfold minimal in *. rewrite last_cons_ne in Hdm by assumption. exact Hdm.
Qed.

Lemma b_muladd_succeeds : forall base mult digs carry room, 1 < base ->
  carry + mult * le_val base digs < base ^ N.of_nat (length digs + room) ->
  exists ds, b_muladd base mult digs carry room = Some ds.
Proof.
  induction digs as [|d r IH]; intros carry room Hb H; cbn [b_muladd].
  - cbn [le_val length] in H. apply b_extend_succeeds; [assumption|]. simpl in H. lia.
  - destruct (IH ((carry + mult * d) / base) room Hb) as [ds E].
    { cbn [le_val length] in H. rewrite Nat.add_succ_l, Nat2N.inj_succ, N.pow_succ_r' in H.
      set (X := base ^ N.of_nat (length r + room)) in *.
      pose proof (N.div_mod (carry + mult * d) base ltac:(lia)) as Hdm.
      pose proof (N.mod_lt (carry + mult * d) base ltac:(lia)).
      set (q := (carry + mult * d) / base) in *. set (m := (carry + mult * d) mod base) in *.
      set (V := le_val base r) in *. clearbody q m V X. nia. }
    rewrite E. eexists; reflexivity.
Qed.

(* ---------------------------------------------------------------------------------------------- *)
(* buffer sizes: a^n <= b^(n*p/q + 1) whenever a^q <= b^p *)
Lemma pow_size : forall a b p q n, 1 < a -> 1 < b -> 0 < q -> a ^ q <= b ^ p -> a ^ n <= b ^ (n * p / q + 1).
Proof.
  intros a b p q n Ha Hb Hq H.
  set (m := n * p / q).
  assert (Hm : n * p < q * (m + 1)).
  { unfold m. pose proof (N.div_mod (n * p) q ltac:(lia)). pose proof (N.mod_lt (n * p) q ltac:(lia)). lia. }
  apply (N.pow_le_mono_l_iff _ _ q); [lia|].
  rewrite <- !N.pow_mul_r.
  apply N.le_trans with (b ^ (p * n)).
  - rewrite (N.mul_comm n q), !N.pow_mul_r. apply N.pow_le_mono_l. exact H.
  - apply N.pow_le_mono_r; lia.
Qed.

Lemma size_enc_ok : forall n : nat, 256 ^ N.of_nat n <= 58 ^ N.of_nat (n * 138 / 100 + 1).
Proof.
  intros n. replace (N.of_nat (n * 138 / 100 + 1)) with (N.of_nat n * 138 / 100 + 1).
  - apply pow_size; try lia; try (vm_compute; discriminate).
  - rewrite Nat2N.inj_add, Nat2N.inj_div, Nat2N.inj_mul. reflexivity.
Qed.

Lemma size_dec_ok : forall n : nat, 58 ^ N.of_nat n <= 256 ^ N.of_nat (n * 733 / 1000 + 1).
Proof.
  intros n. replace (N.of_nat (n * 733 / 1000 + 1)) with (N.of_nat n * 733 / 1000 + 1).
  - apply pow_size; try lia; try (vm_compute; discriminate).
  - rewrite Nat2N.inj_add, Nat2N.inj_div, Nat2N.inj_mul. reflexivity.
Qed.

(* ---------------------------------------------------------------------------------------------- *)
(* the outer loops: Horner evaluation of the input in the other base *)
Definition horner (mult : N) (v : N) (input : list N) : N := fold_left (fun a b => b + mult * a) input v.

Lemma horner_app : forall mult v a b, horner mult v (a ++ b) = horner mult (horner mult v a) b.
Proof. intros. unfold horner. apply fold_left_app. Qed.

Lemma horner_bound : forall mult input v, 0 < mult -> Forall (fun b => b < mult) input ->
  horner mult v input + 1 <= (v + 1) * mult ^ N.of_nat (length input).
Proof.
  induction input as [|b r IH]; intros v Hm H; cbn [length].
  - simpl. lia.
  - inversion H; subst. change (horner mult v (b :: r)) with (horner mult (b + mult * v) r).
    specialize (IH (b + mult * v) Hm H3). rewrite Nat2N.inj_succ, N.pow_succ_r'.
    set (X := mult ^ N.of_nat (length r)) in *. clearbody X. nia.
Qed.

Lemma horner_mono : forall mult input v, v <= horner mult v input \/ True.
Proof. auto. Qed.

(* both outer loops are instances of: for each input digit, b = b * mult + digit *)
Fixpoint gen_loop (base mult : N) (size : nat) (input : list N) (digs : list N) : option (list N) :=
  match input with
  | [] => Some digs
  | b :: r => match b_muladd base mult digs b (size - length digs) with
              | Some digs' => gen_loop base mult size r digs'
              | None => None
              end
  end.

Lemma enc_loop_gen : forall size input digs, enc_loop size input digs = gen_loop 58 256 size input digs.
Proof. induction input; intros; cbn [enc_loop gen_loop]; auto. destruct (b_muladd 58 256 digs a _); auto. Qed.

Lemma gen_loop_spec : forall base mult size input digs ds, 1 < base -> 0 < mult ->
  gen_loop base mult size input digs = Some ds ->
  le_val base ds = horner mult (le_val base digs) input /\ (input <> [] -> digits_lt base ds) /\
  (length digs <= length ds)%nat /\ ((digs <> [] -> minimal digs) -> ds <> [] -> minimal ds).
Proof.
  intros base mult size. induction input as [|b r IH]; intros digs ds Hb Hm H; cbn [gen_loop] in H.
  - injection H as <-. repeat split; auto. intros Hx; contradiction.
  - destruct (b_muladd base mult digs b (size - length digs)) as [d1|] eqn:E; [|discriminate].
    destruct (b_muladd_spec base mult digs b _ d1 Hb Hm E) as (Hv & Hd & Hl & Hmin).
    destruct (IH _ _ Hb Hm H) as (Hv2 & Hd2 & Hl2 & Hm2).
    split; [|split; [|split]].
    + rewrite Hv2, Hv. reflexivity.
    + intros _. destruct r; [cbn [gen_loop] in H; injection H as <-; assumption|apply Hd2; discriminate].
    + lia.
    + intros Hmn Hne. apply Hm2; [|assumption]. intros Hne1. apply Hmin; assumption.
Qed.

Lemma gen_loop_succeeds : forall base mult size input digs, 1 < base -> 0 < mult ->
  Forall (fun b => b < mult) input -> (length digs <= size)%nat ->
  (le_val base digs + 1) * mult ^ N.of_nat (length input) <= base ^ N.of_nat size ->
  exists ds, gen_loop base mult size input digs = Some ds.
Proof.
  intros base mult size. induction input as [|b r IH]; intros digs Hb Hm Hin Hlen Hv; cbn [gen_loop].
  - eexists; reflexivity.
  - inversion Hin; subst. cbn [length] in Hv. rewrite Nat2N.inj_succ, N.pow_succ_r' in Hv.
    destruct (b_muladd_succeeds base mult digs b (size - length digs) Hb) as [d1 E].
    { replace (length digs + (size - length digs))%nat with size by lia.
      set (X := mult ^ N.of_nat (length r)) in *. assert (0 < X) by (apply N.neq_0_lt_0; apply N.pow_nonzero; lia).
      clearbody X. nia. }
    rewrite E. destruct (b_muladd_spec base mult digs b _ d1 Hb Hm E) as (Hv1 & Hd1 & Hl1 & _).
    apply IH; auto; [lia|]. rewrite Hv1.
    set (X := mult ^ N.of_nat (length r)) in *. clearbody X. nia.
Qed.

(* the loop cut after a prefix of the input has no more digits than the whole run *)
Lemma gen_loop_app : forall base mult size a b digs,
  gen_loop base mult size (a ++ b) digs =
  match gen_loop base mult size a digs with Some d1 => gen_loop base mult size b d1 | None => None end.
Proof.
  induction a as [|x a IH]; intros b digs; cbn [app gen_loop]; [reflexivity|].
  destruct (b_muladd base mult digs x (size - length digs)); [apply IH|reflexivity].
Qed.

(* ---------------------------------------------------------------------------------------------- *)
(* character tables *)
Definition c58 (d : N) : N := nth (N.to_nat d) pszBase58 0.

Lemma forall_below : forall (n : nat) (P : N -> bool),
  forallb P (map N.of_nat (seq 0 n)) = true -> forall i, i < N.of_nat n -> P i = true.
Proof.
  intros n P H i Hi. rewrite forallb_forall in H. apply H.
  apply in_map_iff. exists (N.to_nat i). split; [apply N2Nat.id|]. apply in_seq. lia.
Qed.

Definition c58_fact (d : N) : bool :=
  let c := c58 d in
  match nth_error pszBase58 (N.to_nat d), nth_error mapBase58 (N.to_nat c) with
  | Some c', Some v => (c' =? c) && (v =? Z.of_N d)%Z && negb (c =? 0) && negb (is_space c) && (Bool.eqb (c =? 49) (d =? 0))
  | _, _ => false
  end.
Lemma c58_facts : forall d, d < 58 -> c58_fact d = true.
Proof. apply (forall_below 58). vm_compute. reflexivity. Qed.

Lemma c58_props : forall d, d < 58 ->
  nth_error pszBase58 (N.to_nat d) = Some (c58 d) /\ nth_error mapBase58 (N.to_nat (c58 d)) = Some (Z.of_N d) /\
  c58 d <> 0 /\ is_space (c58 d) = false /\ (c58 d = 49 <-> d = 0).
Proof.
  intros d Hd. pose proof (c58_facts d Hd) as F. unfold c58_fact in F.
  destruct (nth_error pszBase58 (N.to_nat d)) as [c'|]; [|discriminate].
  destruct (nth_error mapBase58 (N.to_nat (c58 d))) as [v|]; [|discriminate].
  repeat (apply Bool.andb_true_iff in F; destruct F as [F ?]).
  apply N.eqb_eq in F. subst c'.
  repeat match goal with
         | E : negb _ = true |- _ => apply Bool.negb_true_iff in E
         | E : (_ =? _)%Z = true |- _ => apply Z.eqb_eq in E
         | E : (_ =? 0) = false |- _ => apply N.eqb_neq in E
         end.
  subst v.
  match goal with Hq : Bool.eqb _ _ = true |- _ => apply Bool.eqb_prop in Hq; rename Hq into Heq end.
  repeat split; auto.
  - intros E. rewrite E, N.eqb_refl in Heq. symmetry in Heq. apply N.eqb_eq in Heq. exact Heq.
  - intros E. subst d. change (0 =? 0) with true in Heq. apply N.eqb_eq in Heq. exact Heq.
Qed.

Lemma b58_chars_ok : forall ds, digits_lt 58 ds -> b58_chars ds = Some (map c58 ds).
Proof.
  induction ds as [|d r IH]; intros H; cbn [b58_chars map]; [reflexivity|].
  inversion H; subst. destruct (c58_props d H2) as (E & _). rewrite E, IH by assumption. reflexivity.
Qed.

(* ---------------------------------------------------------------------------------------------- *)
Definition bytes_ok (l : list N) : Prop := Forall (fun b => b < 256) l.
Definition head_nonzero (l : list N) : Prop := match l with 0 :: _ => False | _ => True end.

Lemma skip_zero_bytes_spec : forall l,
  l = repeat 0 (fst (skip_zero_bytes l)) ++ snd (skip_zero_bytes l) /\ head_nonzero (snd (skip_zero_bytes l)).
Proof.
  induction l as [|b l IH]; cbn [skip_zero_bytes]; [split; [reflexivity|exact I]|].
  destruct b as [|p].
  - destruct (skip_zero_bytes l) as [z t]. cbn [fst snd] in *. destruct IH as [E H]. split; [simpl; f_equal; exact E|exact H].
  - cbn [fst snd]. split; [reflexivity|exact I].
Qed.

Lemma horner_le_val : forall mult l v, horner mult v l = le_val mult (rev l) + mult ^ N.of_nat (length l) * v.
Proof.
  induction l as [|b r IH]; intros v; cbn [rev length].
  - change (N.of_nat 0) with 0. rewrite N.pow_0_r. cbn [horner fold_left le_val]. lia.
  - change (horner mult v (b :: r)) with (horner mult (b + mult * v) r). rewrite IH, le_val_app, rev_length.
    cbn [le_val]. rewrite Nat2N.inj_succ, N.pow_succ_r'. lia.
Qed.

Lemma strip_minimal : forall ds, (ds <> [] -> minimal ds) -> strip_zero_digits (rev ds) = rev ds.
Proof.
  intros ds Hm. destruct ds as [|d r] using rev_ind; [reflexivity|]. clear IHr.
  rewrite rev_app_distr. cbn [rev app]. specialize (Hm ltac:(intros E; apply app_eq_nil in E; destruct E; discriminate)).
  unfold minimal in Hm. rewrite last_last in Hm. destruct d; [contradiction|reflexivity].
Qed.

(* EncodeBase58 never hits its assertion; the string is z ones followed by the digits of the remaining bytes *)
Theorem encode_base58_spec : forall input, bytes_ok input ->
  exists z rest digs, input = repeat 0 z ++ rest /\ head_nonzero rest /\
    encode_base58 input = B58Str (repeat 49 z ++ map c58 (rev digs)) /\
    digits_lt 58 digs /\ (digs <> [] -> minimal digs) /\ le_val 58 digs = le_val 256 (rev rest).
Proof.
  intros input Hin. destruct (skip_zero_bytes_spec input) as [Ein Hnz].
  unfold encode_base58. destruct (skip_zero_bytes input) as [z rest]. cbn [fst snd] in *.
  assert (Hrest : bytes_ok rest) by (rewrite Ein in Hin; apply Forall_app in Hin; apply Hin).
  set (size := (length rest * 138 / 100 + 1)%nat).
  destruct (gen_loop_succeeds 58 256 size rest [] ltac:(lia) ltac:(lia) Hrest ltac:(simpl; lia)) as [digs E].
  { cbn [le_val]. rewrite N.add_0_l, N.mul_1_l. apply size_enc_ok. }
  rewrite enc_loop_gen, E.
  destruct (gen_loop_spec 58 256 size rest [] digs ltac:(lia) ltac:(lia) E) as (Hv & Hd & _ & Hm).
  assert (Hdig : digits_lt 58 digs).
  { destruct rest; [cbn [gen_loop] in E; injection E as <-; constructor|apply Hd; discriminate]. }
  assert (Hmin : digs <> [] -> minimal digs) by (apply Hm; intros Hx; contradiction).
  rewrite strip_minimal by assumption.
  rewrite b58_chars_ok by (apply Forall_rev; assumption).
  exists z, rest, digs. repeat split; auto.
  rewrite Hv, horner_le_val. cbn [le_val]. lia.
Qed.

Theorem encode_base58_never_asserts : forall input, bytes_ok input -> exists s, encode_base58 input = B58Str s.
Proof. intros input H. destruct (encode_base58_spec input H) as (z & rest & digs & _ & _ & E & _). eauto. Qed.

(* ---------------------------------------------------------------------------------------------- *)
(* DecodeBase58 (EncodeBase58 x) = x *)
Definition hd_not_one (cs : list N) : Prop := forall r, cs <> 49 :: r.

Lemma count_ones_stop : forall cs k mx, hd_not_one cs -> count_ones cs k mx = Some (k, cs).
Proof.
  intros cs k mx H. destruct cs as [|c r]; [reflexivity|].
  assert (Hc : c <> 49) by (intros ->; apply (H r); reflexivity).
  cbn [count_ones]. destruct c as [|p]; [reflexivity|].
  destruct p as [p|p|]; try reflexivity. destruct p as [p|p|]; try reflexivity. destruct p as [p|p|]; try reflexivity.
  destruct p as [p|p|]; try reflexivity. destruct p as [p|p|]; try reflexivity. destruct p as [p|p|]; try reflexivity.
  contradiction Hc. reflexivity.
Qed.

Lemma count_ones_run : forall z cs k mx, N.of_nat (k + z) <= mx -> hd_not_one cs ->
  count_ones (repeat 49 z ++ cs) k mx = Some ((k + z)%nat, cs).
Proof.
  induction z as [|z IH]; intros cs k mx Hmx Hcs; cbn [repeat app].
  - rewrite Nat.add_0_r. apply count_ones_stop. assumption.
  - cbn [count_ones]. destruct (N.ltb_spec mx (N.of_nat (S k))); [lia|].
    rewrite IH by (auto; lia). f_equal. f_equal. lia.
Qed.

Lemma dec_loop_run : forall size z mx ds acc final, digits_lt 58 ds ->
  gen_loop 256 58 size ds acc = Some final -> N.of_nat (length final + z) <= mx ->
  dec_loop size z mx (map c58 ds) acc = Some (Some (final, [])).
Proof.
  induction ds as [|d r IH]; intros acc final Hd Hg Hmx; cbn [map dec_loop].
  - cbn [gen_loop] in Hg. injection Hg as <-. reflexivity.
  - inversion Hd; subst. destruct (c58_props d H1) as (_ & Hmap & _ & Hsp & _).
    rewrite Hsp, Hmap. destruct (Z.eqb_spec (Z.of_N d) (-1)); [lia|]. rewrite N2Z.id.
    cbn [gen_loop] in Hg. destruct (b_muladd 256 58 acc d (size - length acc)) as [a1|] eqn:E; [|discriminate].
    destruct (gen_loop_spec 256 58 size r a1 final ltac:(lia) ltac:(lia) Hg) as (_ & _ & Hl & _).
    destruct (N.ltb_spec mx (N.of_nat (length a1 + z))); [lia|].
    apply IH; assumption.
Qed.

Lemma no_nul : forall z ds, digits_lt 58 ds -> existsb (fun c => c =? 0) (repeat 49 z ++ map c58 ds) = false.
Proof.
  intros z ds Hd. rewrite existsb_app. apply Bool.orb_false_iff. split.
  - induction z; simpl; auto.
  - induction ds as [|d r IH]; simpl; auto. inversion Hd; subst. destruct (c58_props d H1) as (_ & _ & Hnz & _).
    destruct (N.eqb_spec (c58 d) 0); [contradiction|]. apply IH; assumption.
Qed.

Lemma skip_spaces_id : forall z ds, digits_lt 58 ds -> skip_spaces (repeat 49 z ++ map c58 ds) = repeat 49 z ++ map c58 ds.
Proof.
  intros [|z] ds Hd; cbn [repeat app].
  - destruct ds as [|d r]; [reflexivity|]. cbn [map skip_spaces]. inversion Hd; subst.
    destruct (c58_props d H1) as (_ & _ & _ & Hsp & _). rewrite Hsp. reflexivity.
  - reflexivity.
Qed.

Theorem decode_encode_base58 : forall input mx s, bytes_ok input -> N.of_nat (length input) <= mx ->
  encode_base58 input = B58Str s -> decode_base58 s mx = B58Bytes input.
Proof.
  intros input mx s Hin Hmx Henc.
  destruct (encode_base58_spec input Hin) as (z & rest & digs & Ein & Hnz & Es & Hdig & Hmin & Hval).
  rewrite Es in Henc. injection Henc as <-.
  assert (Hrd : digits_lt 58 (rev digs)) by (apply Forall_rev; exact Hdig).
  assert (Hrest : bytes_ok rest) by (rewrite Ein in Hin; apply Forall_app in Hin; apply Hin).
  assert (Hlen : length input = (z + length rest)%nat) by (rewrite Ein, app_length, repeat_length; reflexivity).
  unfold decode_base58. rewrite no_nul, skip_spaces_id by assumption.
  (* the first character after the ones is not a one: the top digit is non-zero *)
  assert (Hhead : hd_not_one (map c58 (rev digs))).
  { intros r0 E0. destruct digs as [|d0 ds0] using rev_ind; [discriminate|]. clear IHds0.
    rewrite rev_app_distr in E0. cbn [rev app map] in E0. injection E0 as E0 _.
    specialize (Hmin ltac:(intros E; apply app_eq_nil in E; destruct E; discriminate)).
    unfold minimal in Hmin. rewrite last_last in Hmin.
    apply Forall_app in Hdig. destruct Hdig as [_ Hd0]. inversion Hd0; subst.
    destruct (c58_props d0 H1) as (_ & _ & _ & _ & H49). apply H49 in E0. contradiction. }
  rewrite (count_ones_run z (map c58 (rev digs)) 0 mx) by (auto; simpl; lia). cbn [Nat.add].
  set (size := (length (map c58 (rev digs)) * 733 / 1000 + 1)%nat).
  (* the base-256 digits computed by the loop *)
  destruct (gen_loop_succeeds 256 58 size (rev digs) [] ltac:(lia) ltac:(lia) Hrd ltac:(simpl; lia)) as [d256 E].
  { cbn [le_val]. rewrite N.add_0_l, N.mul_1_l. unfold size. rewrite map_length. apply size_dec_ok. }
  destruct (gen_loop_spec 256 58 size (rev digs) [] d256 ltac:(lia) ltac:(lia) E) as (Hv & Hd & _ & Hm).
  assert (Hd256 : digits_lt 256 d256).
  { destruct (rev digs); [cbn [gen_loop] in E; injection E as <-; constructor|apply Hd; discriminate]. }
  assert (Hmin256 : d256 <> [] -> minimal d256) by (apply Hm; intros Hx; contradiction).
  assert (Hvv : le_val 256 d256 = le_val 256 (rev rest)).
  { rewrite Hv, horner_le_val, rev_involutive. cbn [le_val]. lia. }
  assert (Hmr : rev rest <> [] -> minimal (rev rest)).
  { intros _. unfold minimal. destruct rest as [|b0 r0]; [simpl; discriminate|]. cbn [rev]. rewrite last_last.
    destruct b0; [contradiction|discriminate]. }
  assert (Eq : d256 = rev rest).
  { destruct d256 as [|x xs], (rev rest) as [|y ys] eqn:Er; [reflexivity| | |].
    - exfalso. apply (minimal_nonzero 256 (y :: ys) ltac:(lia) ltac:(discriminate)); [apply Hmr; discriminate|]. rewrite <- Hvv. reflexivity.
    - exfalso. apply (minimal_nonzero 256 (x :: xs) ltac:(lia) ltac:(discriminate)); [apply Hmin256; discriminate|]. rewrite Hvv. reflexivity.
    - apply (minimal_repr_unique 256); auto; try lia.
      + rewrite <- Er. apply Forall_rev. exact Hrest.
      + apply Hmin256. discriminate.
      + apply Hmr. discriminate. }
  rewrite (dec_loop_run size z mx (rev digs) [] d256 Hrd E).
  2:{ rewrite Eq, rev_length. lia. }
  cbn [skip_spaces]. rewrite Eq, rev_involutive, <- Ein. reflexivity.
Qed.

(* ---------------------------------------------------------------------------------------------- *)
(* base58check *)
Section Check.
  Variable hash256 : list N -> list N.
  Hypothesis hash_len : forall x, length (hash256 x) = 32%nat.
  Hypothesis hash_bytes : forall x, bytes_ok (hash256 x).

  Lemma checksum4 : forall x, length (firstn 4 (hash256 x)) = 4%nat /\ bytes_ok (firstn 4 (hash256 x)).
  Proof.
    intros x. split.
    - rewrite firstn_length, hash_len. reflexivity.
    - pose proof (hash_bytes x) as H. rewrite <- (firstn_skipn 4 (hash256 x)) in H. apply Forall_app in H. apply H.
  Qed.

  Theorem encode_base58check_never_asserts : forall payload, bytes_ok payload ->
    exists s, encode_base58check hash256 payload = B58Str s.
  Proof.
    intros payload H. unfold encode_base58check. apply encode_base58_never_asserts.
    apply Forall_app. split; [assumption|apply checksum4].
  Qed.

  Theorem decode_encode_base58check : forall payload mx s, bytes_ok payload ->
    N.of_nat (length payload) <= mx -> mx <= 2147483643 ->
    encode_base58check hash256 payload = B58Str s -> decode_base58check hash256 s mx = B58Bytes payload.
  Proof.
    intros payload mx s Hp Hmx Hmax Henc. unfold encode_base58check in Henc. unfold decode_base58check.
    destruct (checksum4 payload) as [L4 B4].
    destruct (N.ltb_spec (2147483647 - 4) mx); [lia|].
    rewrite (decode_encode_base58 (payload ++ firstn 4 (hash256 payload)) (mx + 4) s); auto.
    - rewrite app_length, L4. destruct (Nat.ltb_spec (length payload + 4) 4); [lia|].
      replace (length payload + 4 - 4)%nat with (length payload) by lia.
      rewrite firstn_app, Nat.sub_diag, firstn_all, firstn_O, app_nil_r.
      rewrite skipn_app, Nat.sub_diag, skipn_all. cbn [skipn app].
      destruct (list_eq_dec N.eq_dec (firstn 4 (hash256 payload)) (firstn 4 (hash256 payload))); [reflexivity|contradiction].
    - apply Forall_app. split; assumption.
    - rewrite app_length, L4. lia.
  Qed.
End Check.

(* ---------------------------------------------------------------------------------------------- *)
(* the first character of an encoded string *)
Lemma minimal_top_digit : forall ds, 1 < 58 -> digits_lt 58 ds -> ds <> [] -> minimal ds ->
  last ds 1 = le_val 58 ds / 58 ^ N.of_nat (length ds - 1).
Proof.
  intros ds _ Hd Hne Hm. destruct ds as [|d r] using rev_ind; [contradiction|]. clear IHr.
  rewrite last_last, le_val_app, app_length. cbn [length le_val].
  replace (length r + 1 - 1)%nat with (length r) by lia.
  apply Forall_app in Hd. destruct Hd as [Hr Hd0].
  pose proof (le_val_bound 58 r ltac:(lia) Hr) as Hb.
  rewrite N.mul_0_r, N.add_0_r, N.add_comm, N.mul_comm, N.div_add_l by (apply N.pow_nonzero; lia).
  rewrite N.div_small by assumption. lia.
Qed.

Lemma digits_count : forall ds L, digits_lt 58 ds -> ds <> [] -> minimal ds ->
  58 ^ (L - 1) <= le_val 58 ds -> le_val 58 ds < 58 ^ L -> 0 < L -> N.of_nat (length ds) = L.
Proof.
  intros ds L Hd Hne Hm Hlo Hhi HL.
  pose proof (minimal_lower_bound 58 ds ltac:(lia) Hne Hm) as H1.
  pose proof (le_val_bound 58 ds ltac:(lia) Hd) as H2.
  assert (Hl : (0 < length ds)%nat) by (destruct ds; [contradiction|simpl; lia]).
  destruct (N.lt_trichotomy (N.of_nat (length ds)) L) as [H|[H|H]]; [|assumption|]; exfalso.
  - assert (58 ^ N.of_nat (length ds) <= 58 ^ (L - 1)) by (apply N.pow_le_mono_r; lia). lia.
  - assert (58 ^ L <= 58 ^ N.of_nat (length ds - 1)) by (apply N.pow_le_mono_r; lia). lia.
Qed.

(* bounds of the value of prefix ++ tail *)
Lemma le_val_rev_app : forall a b, le_val 256 (rev (a ++ b)) = le_val 256 (rev a) * 256 ^ N.of_nat (length b) + le_val 256 (rev b).
Proof. intros. rewrite rev_app_distr, le_val_app, rev_length. lia. Qed.

(* prefix p (first byte non-zero) followed by n arbitrary bytes: the string has exactly L characters and its first
   character is c58 of a digit between the two bounds *)
Theorem encode_base58_first_char : forall prefix tail s L,
  bytes_ok prefix -> bytes_ok tail -> head_nonzero prefix -> prefix <> [] -> 0 < L ->
  let P := le_val 256 (rev prefix) in let n := N.of_nat (length tail) in
  58 ^ (L - 1) <= P * 256 ^ n -> (P + 1) * 256 ^ n <= 58 ^ L ->
  encode_base58 (prefix ++ tail) = B58Str s ->
  exists d r, s = c58 d :: r /\ P * 256 ^ n / 58 ^ (L - 1) <= d <= ((P + 1) * 256 ^ n - 1) / 58 ^ (L - 1) /\ d < 58.
Proof.
  intros prefix tail s L Hp Ht Hnz Hne HL P n Hlo Hhi Henc.
  assert (Hin : bytes_ok (prefix ++ tail)) by (apply Forall_app; split; assumption).
  destruct (encode_base58_spec (prefix ++ tail) Hin) as (z & rest & digs & Ein & Hnz' & Es & Hdig & Hmin & Hval).
  rewrite Es in Henc. injection Henc as <-.
  (* no leading zero byte: z = 0 *)
  assert (Hz : z = 0%nat).
  { destruct z as [|z]; [reflexivity|]. exfalso. destruct prefix as [|b p']; [contradiction|].
    cbn [repeat app] in Ein. injection Ein as Eb _. subst b. exact Hnz. }
  subst z. cbn [repeat app] in *. subst rest.
  assert (Hv : le_val 58 digs = P * 256 ^ n + le_val 256 (rev tail)) by (rewrite Hval, le_val_rev_app; reflexivity).
  assert (Htl : le_val 256 (rev tail) < 256 ^ n).
  { unfold n. rewrite <- rev_length. apply le_val_bound; [lia|apply Forall_rev; exact Ht]. }
  assert (Hpos : 0 < 58 ^ (L - 1)) by (apply N.neq_0_lt_0; apply N.pow_nonzero; lia).
  assert (Hdne : digs <> []).
  { intros ->. cbn [le_val] in Hv. lia. }
  specialize (Hmin Hdne).
  assert (Hlen : N.of_nat (length digs) = L) by (apply digits_count; auto; lia).
  pose proof (minimal_top_digit digs ltac:(lia) Hdig Hdne Hmin) as Htop.
  assert (EL : N.of_nat (length digs - 1) = L - 1) by lia. rewrite EL in Htop.
  pose proof (app_removelast_last 1 Hdne) as Esplit.
  assert (Hd58 : last digs 1 < 58).
  { rewrite Esplit in Hdig. apply Forall_app in Hdig. destruct Hdig as [_ Hd0]. inversion Hd0; assumption. }
  exists (last digs 1), (map c58 (rev (removelast digs))). split.
  - rewrite Esplit at 1. rewrite rev_app_distr. reflexivity.
  - split; [|assumption]. rewrite Htop, Hv. split; apply N.div_le_mono; lia.
Qed.

Theorem encode_base58_first_char_zero : forall input s, bytes_ok (0 :: input) ->
  encode_base58 (0 :: input) = B58Str s -> exists r, s = 49 :: r.
Proof.
  intros input s Hin Henc. destruct (encode_base58_spec (0 :: input) Hin) as (z & rest & digs & Ein & Hnz & Es & _).
  rewrite Es in Henc. injection Henc as <-.
  destruct z as [|z]; [|eexists; reflexivity]. exfalso. cbn [repeat app] in Ein. subst rest. exact Hnz.
Qed.
