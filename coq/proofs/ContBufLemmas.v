(* Lemmas about raw buffers: every list combinator the container models use is characterised by
   `nth_error` and `length`, so that equalities between buffer contents are proved by extensionality
   (tactic `list_ext`) with linear arithmetic on the indices. *)
From Coq Require Import List Arith Bool Lia.
Unset Lia Cache.
From BV Require Import model.ContBuf.
Import ListNotations.

Section L.
  Context {T : Type}.
  Implicit Types (l b : list T) (i n k : nat).

  Lemma nth_error_ext l1 l2 : (forall i, nth_error l1 i = nth_error l2 i) -> l1 = l2.
  Proof.
    revert l2. induction l1 as [|x l1 IH]; intros [|y l2] H; auto.
    - specialize (H 0). discriminate.
    - specialize (H 0). discriminate.
    - f_equal. { specialize (H 0). simpl in H. congruence. }
      apply IH. intros i. exact (H (S i)).
  Qed.

  Lemma nth_error_firstn' l n i :
    nth_error (firstn n l) i = if i <? n then nth_error l i else None.
  Proof.
    revert n i. induction l as [|x l IH]; intros [|n] [|i]; simpl; auto.
    - destruct (_ <? _); auto.
    - rewrite IH. reflexivity.
  Qed.

  Lemma nth_error_skipn' l n i : nth_error (skipn n l) i = nth_error l (n + i).
  Proof.
    revert n. induction l as [|x l IH]; intros [|n]; simpl; auto.
    destruct i; reflexivity.
  Qed.

  Lemma nth_error_app' l1 l2 i :
    nth_error (l1 ++ l2) i = if i <? length l1 then nth_error l1 i else nth_error l2 (i - length l1).
  Proof.
    destruct (i <? length l1) eqn:E.
    - apply nth_error_app1. apply Nat.ltb_lt; auto.
    - apply nth_error_app2. apply Nat.ltb_ge; auto.
  Qed.

  Lemma nth_error_repeat' (x : T) n i : nth_error (repeat x n) i = if i <? n then Some x else None.
  Proof.
    revert i. induction n as [|n IH]; intros [|i]; simpl; auto. rewrite IH. reflexivity.
  Qed.

  Lemma nth_error_nil' i : nth_error (@nil T) i = None.
  Proof. destruct i; reflexivity. Qed.

  Lemma nth_error_cons' (x : T) l i :
    nth_error (x :: l) i = if i =? 0 then Some x else nth_error l (i - 1).
  Proof. destruct i; simpl; auto. rewrite Nat.sub_0_r. reflexivity. Qed.

  Lemma nth_error_beyond l i : length l <= i -> nth_error l i = None.
  Proof. apply nth_error_None. Qed.

  Lemma length_bw b pos data : pos + length data <= length b -> length (bw b pos data) = length b.
  Proof.
    intros H. unfold bw. rewrite !app_length, firstn_length, skipn_length. lia.
  Qed.

  Lemma length_br b pos n : pos + n <= length b -> length (br b pos n) = n.
  Proof. intros H. unfold br. rewrite firstn_length, skipn_length. lia. Qed.

  Lemma length_realloc (junk : T) b n : length (realloc junk b n) = n.
  Proof. unfold realloc. rewrite app_length, firstn_length, repeat_length. lia. Qed.

  Lemma buf_write_some b pos data :
    pos + length data <= length b -> buf_write b pos data = Some (bw b pos data).
  Proof. intros H. unfold buf_write. apply Nat.leb_le in H. rewrite H. reflexivity. Qed.

  Lemma buf_read_some b pos n : pos + n <= length b -> buf_read b pos n = Some (br b pos n).
  Proof. intros H. unfold buf_read. apply Nat.leb_le in H. rewrite H. reflexivity. Qed.

  Lemma buf_set_some b i (v : T) : i < length b -> buf_set b i v = Some (bw b i [v]).
  Proof. intros H. unfold buf_set. apply buf_write_some. simpl. lia. Qed.
End L.

(* nth_error of every combinator, as rewrite rules *)
Global Hint Rewrite @nth_error_firstn' @nth_error_skipn' @nth_error_app' @nth_error_repeat'
  @nth_error_nil' @nth_error_cons' : nthe.
Global Hint Rewrite @app_length @firstn_length @skipn_length @repeat_length @rev_length @map_length
  @seq_length @length_realloc : len.

(* case analysis on every boolean comparison in the goal, closing arithmetic side goals *)
Ltac split_cmp :=
  repeat match goal with
  | |- context [?a <? ?b] => let E := fresh "E" in destruct (a <? b) eqn:E;
        [apply Nat.ltb_lt in E | apply Nat.ltb_ge in E]
  | |- context [?a <=? ?b] => let E := fresh "E" in destruct (a <=? b) eqn:E;
        [apply Nat.leb_le in E | apply Nat.leb_gt in E]
  | |- context [?a =? ?b] => let E := fresh "E" in destruct (a =? b) eqn:E;
        [apply Nat.eqb_eq in E | apply Nat.eqb_neq in E]
  end.

Ltac len_simpl := autorewrite with len in *; simpl length in *.

(* close goals  nth_error l a = nth_error l b  /  Some x = Some x  /  contradiction by arithmetic *)
Ltac idx_done :=
  try reflexivity; try lia;
  try (exfalso; lia);
  try (f_equal; lia);
  try (rewrite !nth_error_beyond by (len_simpl; lia); reflexivity);
  try (symmetry; rewrite !nth_error_beyond by (len_simpl; lia); reflexivity).

Ltac list_ext :=
  apply nth_error_ext; let i := fresh "i" in intros i;
  unfold bw, br, realloc;
  autorewrite with nthe; len_simpl; split_cmp; idx_done.

(* ---- firstn/skipn views of bw/br: the facts the container proofs rewrite with ---- *)
Section G.
  Context {T : Type}.
  Implicit Types (buf data : list T).

  Lemma firstn_app_exact (l1 l2 : list T) n : n = length l1 -> firstn n (l1 ++ l2) = l1.
  Proof. intros ->. rewrite firstn_app, Nat.sub_diag, firstn_all. simpl. apply app_nil_r. Qed.
  Lemma skipn_app_exact (l1 l2 : list T) n : n = length l1 -> skipn n (l1 ++ l2) = l2.
  Proof. intros ->. rewrite skipn_app, Nat.sub_diag, skipn_all. reflexivity. Qed.
  Lemma firstn_app_ge (l1 l2 : list T) n : length l1 <= n -> firstn n (l1 ++ l2) = l1 ++ firstn (n - length l1) l2.
  Proof. intros H. rewrite firstn_app. f_equal. apply firstn_all2; auto. Qed.
  Lemma firstn_app_le (l1 l2 : list T) n : n <= length l1 -> firstn n (l1 ++ l2) = firstn n l1.
  Proof. intros H. rewrite firstn_app. replace (n - length l1) with 0 by lia. simpl. apply app_nil_r. Qed.
  Lemma skipn_app_ge (l1 l2 : list T) n : length l1 <= n -> skipn n (l1 ++ l2) = skipn (n - length l1) l2.
  Proof. intros H. rewrite skipn_app. rewrite skipn_all2 by auto. reflexivity. Qed.

  (* k slots starting at or after the end of the written run *)
  Lemma firstn_bw_ge (b : list T) pos data k : pos <= length b -> pos + length data <= k ->
    firstn k (bw b pos data) = firstn pos b ++ data ++ firstn (k - pos - length data) (skipn (pos + length data) b).
  Proof.
    intros Hp Hk. unfold bw.
    rewrite firstn_app_ge by (rewrite firstn_length; lia). rewrite firstn_length, Nat.min_l by lia.
    f_equal. rewrite firstn_app_ge by lia. reflexivity.
  Qed.
  Lemma firstn_bw_exact (b : list T) pos data : pos <= length b ->
    firstn (pos + length data) (bw b pos data) = firstn pos b ++ data.
  Proof.
    intros Hp. rewrite firstn_bw_ge by lia.
    replace (pos + length data - pos - length data) with 0 by lia. simpl. rewrite app_nil_r. reflexivity.
  Qed.
  Lemma firstn_bw_le (b : list T) pos data k : pos <= length b -> k <= pos -> firstn k (bw b pos data) = firstn k b.
  Proof.
    intros Hp Hk. unfold bw. rewrite firstn_app_le by (rewrite firstn_length; lia).
    rewrite firstn_firstn. f_equal. lia.
  Qed.
  Lemma skipn_bw (b : list T) pos data : pos <= length b ->
    skipn pos (bw b pos data) = data ++ skipn (pos + length data) b.
  Proof. intros Hp. unfold bw. apply skipn_app_exact. rewrite firstn_length; lia. Qed.
  Lemma br_as_skipn_firstn (b : list T) p n : p <= n -> br b p (n - p) = skipn p (firstn n b).
  Proof. intros. unfold br. rewrite skipn_firstn_comm. reflexivity. Qed.

  Lemma firstn_erase buf a b n : a <= b -> b <= n -> n <= length buf ->
    firstn (n - (b - a)) (bw buf a (br buf b (n - b))) = firstn a (firstn n buf) ++ skipn b (firstn n buf).
  Proof.
    intros. rewrite br_as_skipn_firstn by lia.
    assert (L : length (skipn b (firstn n buf)) = n - b) by (rewrite skipn_length, firstn_length; lia).
    replace (n - (b - a)) with (a + length (skipn b (firstn n buf))) by lia.
    rewrite firstn_bw_exact by lia. rewrite firstn_firstn, Nat.min_l by lia. reflexivity.
  Qed.
  Lemma firstn_append buf n data : n <= length buf ->
    firstn (n + length data) (bw buf n data) = firstn n buf ++ data.
  Proof. apply firstn_bw_exact. Qed.
  Lemma firstn_insert buf p n data : p <= n -> n + length data <= length buf ->
    firstn (n + length data) (bw (bw buf (p + length data) (br buf p (n - p))) p data)
    = firstn p (firstn n buf) ++ data ++ skipn p (firstn n buf).
  Proof.
    intros Hp Hn. rewrite br_as_skipn_firstn by lia.
    set (M := skipn p (firstn n buf)).
    assert (LM : length M = n - p) by (unfold M; rewrite skipn_length, firstn_length; lia).
    assert (L1 : length (bw buf (p + length data) M) = length buf) by (apply length_bw; lia).
    rewrite firstn_bw_ge by lia.
    rewrite firstn_bw_le by lia. rewrite firstn_firstn, Nat.min_l by lia.
    f_equal. f_equal.
    rewrite skipn_bw by lia.
    rewrite firstn_app_exact by lia. reflexivity.
  Qed.
  Lemma firstn_copy (src dst : list T) n : n <= length src -> n <= length dst ->
    firstn n (bw dst 0 (br src 0 n)) = firstn n src.
  Proof.
    intros. assert (L : length (br src 0 n) = n) by (apply length_br; lia).
    replace (firstn n (bw dst 0 (br src 0 n))) with (firstn (0 + length (br src 0 n)) (bw dst 0 (br src 0 n))) by (f_equal; lia).
    rewrite firstn_bw_exact by lia. reflexivity.
  Qed.
  Lemma firstn_realloc (junk : T) buf n m : n <= m -> n <= length buf ->
    firstn n (realloc junk buf m) = firstn n buf.
  Proof.
    intros. unfold realloc. rewrite firstn_app_le by (rewrite firstn_length; lia).
    rewrite firstn_firstn. f_equal. lia.
  Qed.
  Lemma firstn_update buf p n (v : T) : p < n -> n <= length buf ->
    firstn n (bw buf p [v]) = firstn p (firstn n buf) ++ v :: skipn (S p) (firstn n buf).
  Proof.
    intros. rewrite firstn_bw_ge by (simpl; lia). change (length [v]) with 1.
    rewrite firstn_firstn, Nat.min_l by lia. f_equal. cbn [app]. f_equal.
    rewrite skipn_firstn_comm. replace (p + 1) with (S p) by lia. f_equal. lia.
  Qed.
End G.

Section G2.
  Context {T : Type}.
  Lemma bw_nil (b : list T) pos : pos <= length b -> bw b pos [] = b.
  Proof. intros. unfold bw. simpl. rewrite Nat.add_0_r. apply firstn_skipn. Qed.
  Lemma bw_app_l (A B d : list T) pos : pos + length d <= length A -> bw (A ++ B) pos d = bw A pos d ++ B.
  Proof.
    intros H. unfold bw. rewrite firstn_app_le by lia. rewrite skipn_app.
    replace (pos + length d - length A) with 0 by lia. simpl. rewrite <- !app_assoc. reflexivity.
  Qed.
  Lemma bw_app_r (A B d : list T) i : bw (A ++ B) (length A + i) d = A ++ bw B i d.
  Proof.
    unfold bw. rewrite firstn_app_ge by lia. rewrite skipn_app_ge by lia.
    replace (length A + i - length A) with i by lia.
    replace (length A + i + length d - length A) with (i + length d) by lia.
    rewrite <- !app_assoc. reflexivity.
  Qed.
  Lemma firstn_app_prefix (X Y : list T) n k : n <= length X + k -> firstn n (X ++ firstn k Y) = firstn n (X ++ Y).
  Proof.
    intros H. rewrite !firstn_app. f_equal. rewrite firstn_firstn. f_equal. lia.
  Qed.
  Lemma skipn_skipn_plus (l : list T) a b : skipn a (skipn b l) = skipn (b + a) l.
  Proof.
    revert l. induction b as [|b IH]; intros l; [reflexivity|].
    destruct l as [|x l]; [rewrite !skipn_nil; reflexivity|]. simpl. apply IH.
  Qed.
End G2.
