(* C49 — SHA-256: the FIPS 180-4 test vectors pin the specification; the generic streaming theorem
   is instantiated for CSHA256; TransformD64Wrapper (three compressions with constant paddings)
   is the double hash of a 64-byte block. *)
From Coq Require Import NArith Arith.
From BV Require Import lib.Ints model.CryptoBase model.CryptoMD model.CryptoSHA256 proofs.CryptoBaseLemmas proofs.CryptoMDLemmas.
Local Open Scope Z_scope.

(* ---- FIPS 180-4 / NIST example vectors (byte strings given as character codes) ---- *)
Definition hexdigest (l : list N) : Z := be_value l.

(* "abc" *)
Example sha256_vector_abc :
  hexdigest (sha256_spec [97; 98; 99]%N) = 0xba7816bf8f01cfea414140de5dae2223b00361a396177a9cb410ff61f20015ad.
Proof. vm_compute. reflexivity. Qed.

(* "" *)
Example sha256_vector_empty :
  hexdigest (sha256_spec []) = 0xe3b0c44298fc1c149afbf4c8996fb92427ae41e4649b934ca495991b7852b855.
Proof. vm_compute. reflexivity. Qed.

(* "abcdbcdecdefdefgefghfghighijhijkijkljklmklmnlmnomnopnopq" (448 bits: padding spills into a second block) *)
Example sha256_vector_448 :
  hexdigest (sha256_spec [97;98;99;100; 98;99;100;101; 99;100;101;102; 100;101;102;103; 101;102;103;104;
                          102;103;104;105; 103;104;105;106; 104;105;106;107; 105;106;107;108; 106;107;108;109;
                          107;108;109;110; 108;109;110;111; 109;110;111;112; 110;111;112;113]%N)
  = 0x248d6a61d20638b8e5c026930c3e6039a33ce45964ff2167f6ecedd419db06c1.
Proof. vm_compute. reflexivity. Qed.

(* 896-bit message "abcdefghbcdefghicdefghij...nopqrstu" *)
Example sha256_vector_896 :
  hexdigest (sha256_spec [97;98;99;100;101;102;103;104; 98;99;100;101;102;103;104;105; 99;100;101;102;103;104;105;106;
                          100;101;102;103;104;105;106;107; 101;102;103;104;105;106;107;108; 102;103;104;105;106;107;108;109;
                          103;104;105;106;107;108;109;110; 104;105;106;107;108;109;110;111; 105;106;107;108;109;110;111;112;
                          106;107;108;109;110;111;112;113; 107;108;109;110;111;112;113;114; 108;109;110;111;112;113;114;115;
                          109;110;111;112;113;114;115;116; 110;111;112;113;114;115;116;117]%N)
  = 0xcf5b16a778af8380036ce59e7b0492370b249b11e8f07a51afac45037afee9d1.
Proof. vm_compute. reflexivity. Qed.

(* 1000 x 'a' (16 blocks) *)
Example sha256_vector_1000a :
  hexdigest (sha256_spec (repeat 97%N 1000)) = 0x41edece42d63e8d9bf515a9ba6932e1c20cbc9f5a5d134645adb5db1b9737ea3.
Proof. vm_compute. reflexivity. Qed.

(* ---- CSHA256: any fragmentation = one shot ---- *)
Theorem csha256_stream_eq_spec ubuf chunks :
  length ubuf = 64%nat -> 8 * Z.of_nat (length (concat chunks)) < 2 ^ 64 ->
  csha256_finalize (fold_left csha256_write chunks (csha256_init ubuf)) = sha256_spec (concat chunks).
Proof.
  intros Hu Hlt.
  apply (md_stream_eq_spec sha256_state 64 sha256_compress sha256_iv sha256_out 8 (be_bytes 8) 119 (be_bytes 8));
    try assumption; try reflexivity; try lia; try (vm_compute; discriminate);
    try (intros v; apply be_bytes_length).
Qed.

Lemma sha256_padded_length msg :
  (length (md_padded 64 8 (be_bytes 8) msg) mod 64 = 0)%nat.
Proof. apply md_padded_length; [lia | intros v; apply be_bytes_length]. Qed.

Lemma sha256_out_length s : length (sha256_out s) = 32%nat.
Proof.
  destruct s as [[[[[[[a b] c] d] e] f] g] h]. unfold sha256_out.
  rewrite !app_length, !be_bytes_length. reflexivity.
Qed.

Lemma sha256_spec_length msg : length (sha256_spec msg) = 32%nat.
Proof. unfold sha256_spec, md_spec. apply sha256_out_length. Qed.
