(* Invariants of the HeadersSyncState model (model/HeadersSync.v); C33. *)
From BV Require Import lib.Ints lib.ChainParams gen.Params_gen model.Pow model.HeadersSync.
Local Open Scope Z_scope.

(* a list of headers in which each header's prevhash is the hash of the one before, starting after [x] *)
Fixpoint chain_from (x : Z) (l : list hdr) : Prop :=
  match l with
  | [] => True
  | h :: t => h_prev h = x /\ chain_from (h_id h) t
  end.
(* ... and ending at hash [last] *)
Fixpoint linked (x : Z) (l : list hdr) (last : Z) : Prop :=
  match l with
  | [] => x = last
  | h :: t => h_prev h = x /\ linked (h_id h) t last
  end.

Lemma linked_snoc x l last h : linked x l last -> h_prev h = last -> linked x (l ++ [h]) (h_id h).
Proof.
  revert x. induction l as [|a l IH]; intros x; simpl.
  - intros -> Hp. auto.
  - intros [H1 H2] Hp. split; [exact H1 | now apply IH].
Qed.

Lemma linked_chain x l last : linked x l last -> chain_from x l.
Proof. revert x. induction l as [|a l IH]; intros x; simpl; [trivial|]. intros [H1 H2]. split; auto. Qed.

Lemma chain_from_app x a b : chain_from x a -> (forall y, linked x a y -> chain_from y b) -> chain_from x (a ++ b).
Proof.
  revert x. induction a as [|h a IH]; intros x; simpl.
  - intros _ H. now apply H.
  - intros [H1 H2] H. split; [exact H1|]. apply IH; [exact H2|]. intros y Hy. apply H. split; assumption.
Qed.

Section Lemmas.
  Variable permitted : Z -> Z -> Z -> bool.
  Variable proof_of : Z -> Z.
  Variable p : hs_params.
  Hypothesis max_nonneg : 0 <= p_max_commitments p.
  Hypothesis buffer_nonneg : 0 <= p_buffer p.

  Notation process_single := (process_single permitted proof_of p).
  Notation process_all_single := (process_all_single permitted proof_of p).
  Notation validate := (validate_and_store_commitments permitted proof_of p).
  Notation store := (store_redownloaded permitted proof_of p).
  Notation store_all := (store_all_redownloaded permitted proof_of p).
  Notation pnh := (process_next_headers permitted proof_of p).

  Definition zlen {A} (l : list A) : Z := Z.of_nat (length l).

  (* what holds between calls *)
  Definition inv (s : hss) : Prop :=
    zlen (s_commitments s) <= p_max_commitments p /\
    match s_state s with
    | PRESYNC => s_buf s = [] /\ s_all s = false
    | REDOWNLOAD => p_min_work p <= s_work s /\ linked (s_rfirst_prev s) (s_buf s) (s_rlast_hash s) /\
                    zlen (s_buf s) <= p_buffer p
    | FINAL => s_buf s = [] /\ s_commitments s = []
    end.

  Lemma inv_init : inv (hs_init p).
  Proof. unfold inv, hs_init, zlen. simpl. split; [lia | auto]. Qed.

  Lemma inv_finalize s : inv (finalize s).
  Proof. unfold inv, finalize, zlen. simpl. split; [lia | auto]. Qed.

  (* --- first pass --- *)
  Lemma process_single_spec s h ok s' : process_single s h = (ok, s') -> s_state s = PRESYNC ->
    zlen (s_commitments s) <= p_max_commitments p ->
    s_state s' = PRESYNC /\ s_buf s' = s_buf s /\ s_all s' = s_all s /\
    (ok = true -> zlen (s_commitments s') <= p_max_commitments p).
  Proof.
    unfold HeadersSync.process_single. intros H Hst Hc. rewrite Hst in H.
    destruct (negb (permitted _ _ _)); [injection H as <- <-; repeat split; auto; discriminate|].
    destruct (is_commitment_height p (wrap32 (s_height s + 1))) eqn:Ech.
    - cbn [andb] in H.
      destruct (p_max_commitments p <? Z.of_nat (length (s_commitments s ++ [h_cbit h]))) eqn:Em;
        injection H as <- <-; cbn; repeat split; auto; try discriminate.
      intros _. unfold zlen. lia.
    - cbn [andb] in H. injection H as <- <-. cbn. repeat split; auto.
  Qed.

  Lemma process_all_single_spec : forall hs s ok s', process_all_single s hs = (ok, s') -> s_state s = PRESYNC ->
    zlen (s_commitments s) <= p_max_commitments p ->
    s_state s' = PRESYNC /\ s_buf s' = s_buf s /\ s_all s' = s_all s /\
    (ok = true -> zlen (s_commitments s') <= p_max_commitments p).
  Proof.
    induction hs as [|h hs IH]; intros s ok s' H Hst Hc; simpl in H.
    - injection H as <- <-. auto.
    - destruct (process_single s h) as [[|] s1] eqn:E1.
      + destruct (process_single_spec s h true s1 E1 Hst Hc) as (A & B & C & D).
        destruct (IH s1 ok s' H A (D eq_refl)) as (A' & B' & C' & D'). repeat split; try congruence. exact D'.
      + injection H as <- <-. destruct (process_single_spec s h false s1 E1 Hst Hc) as (A & B & C & D).
        repeat split; auto; discriminate.
  Qed.

  Lemma validate_spec s hs ok s' : validate s hs = (ok, s') -> inv s -> s_state s = PRESYNC ->
    (ok = true -> inv s') /\ (s_state s' = PRESYNC \/ (s_state s' = REDOWNLOAD /\ s_buf s' = [] /\ s_rfirst_prev s' = p_start_hash p)).
  Proof.
    unfold validate_and_store_commitments. intros H [Hc Hi] Hst. rewrite Hst in Hi. destruct Hi as [Hb Ha].
    destruct hs as [|first rest]; [injection H as <- <-; split; [intros _; split; [exact Hc | rewrite Hst; auto] | now left]|].
    rewrite Hst in H.
    destruct (negb (h_prev first =? s_last_hash s)).
    { injection H as <- <-. split; [discriminate | now left]. }
    destruct (process_all_single s (first :: rest)) as [[|] s1] eqn:E1.
    - destruct (process_all_single_spec _ _ _ _ E1 Hst Hc) as (A & B & C & D). specialize (D eq_refl).
      destruct (p_min_work p <=? s_work s1) eqn:Ew; injection H as <- <-.
      + split; [|right; cbn; auto]. intros _. unfold inv. cbn. split; [exact D|]. split; [lia|]. split; [reflexivity|].
        unfold zlen. simpl. lia.
      + split; [|now left]. intros _. unfold inv. split; [exact D|]. rewrite A. split; congruence.
    - injection H as <- <-. split; [discriminate|]. left.
      now destruct (process_all_single_spec _ _ _ _ E1 Hst Hc) as (A & _).
  Qed.

  (* --- second pass --- *)
  Lemma store_spec s h s' : store s h = (true, s') -> s_state s = REDOWNLOAD ->
    s_state s' = REDOWNLOAD /\ s_work s' = s_work s /\ s_buf s' = s_buf s ++ [h] /\
    h_prev h = s_rlast_hash s /\ s_rlast_hash s' = h_id h /\ s_rfirst_prev s' = s_rfirst_prev s /\
    permitted (wrap64 (s_rlast_height s + 1)) (previous_bits p s) (h_bits h) = true /\
    (s_all s = true -> s_all s' = true) /\
    (* the commitment check *)
    (s_all s' = false -> is_commitment_height p (wrap64 (s_rlast_height s + 1)) = true ->
       s_commitments s = h_cbit h :: s_commitments s') /\
    zlen (s_commitments s') <= zlen (s_commitments s).
  Proof.
    unfold store_redownloaded. intros H Hst. rewrite Hst in H.
    destruct (negb (h_prev h =? s_rlast_hash s)) eqn:Ep; [discriminate|].
    destruct (negb (permitted _ _ _)) eqn:Eperm; [discriminate|].
    apply negb_false_iff in Ep, Eperm. apply Z.eqb_eq in Ep.
    set (rwork := wrap256 (s_rwork s + proof_of (h_bits h))) in *.
    set (all := if p_min_work p <=? rwork then true else s_all s) in *.
    assert (Hall : s_all s = true -> all = true) by (intros Ha; unfold all; rewrite Ha; now destruct (_ <=? _)).
    destruct (negb all && is_commitment_height p (wrap64 (s_rlast_height s + 1))) eqn:Ec.
    - apply andb_true_iff in Ec. destruct Ec as [Ea Ech]. apply negb_true_iff in Ea.
      destruct (s_commitments s) as [|expected remaining] eqn:Ecm; [discriminate|].
      destruct (negb (Bool.eqb (h_cbit h) expected)) eqn:Eb; [discriminate|].
      apply negb_false_iff, Bool.eqb_prop in Eb. injection H as <-. cbn.
      repeat split; auto; try congruence. unfold zlen. simpl. lia.
    - injection H as <-. cbn. repeat split; auto; try lia.
      intros Ha Hch. rewrite Ha, Hch in Ec. discriminate.
  Qed.

  Lemma store_all_spec : forall hs s s', store_all s hs = (true, s') -> s_state s = REDOWNLOAD ->
    s_state s' = REDOWNLOAD /\ s_work s' = s_work s /\ s_buf s' = s_buf s ++ hs /\
    s_rfirst_prev s' = s_rfirst_prev s /\
    (forall fp, linked fp (s_buf s) (s_rlast_hash s) -> linked fp (s_buf s') (s_rlast_hash s')) /\
    zlen (s_commitments s') <= zlen (s_commitments s).
  Proof.
    induction hs as [|h hs IH]; intros s s' H Hst; simpl in H.
    - injection H as <-. rewrite app_nil_r. repeat split; auto. lia.
    - destruct (store s h) as [[|] s1] eqn:E1; [|discriminate].
      destruct (store_spec s h s1 E1 Hst) as (A & B & C & D & E & F & _ & _ & _ & G).
      destruct (IH s1 s' H A) as (A' & B' & C' & D' & E' & G').
      repeat split; try congruence.
      + rewrite C', C, <- app_assoc. reflexivity.
      + intros fp Hl. apply E'. rewrite C, E. apply (linked_snoc fp (s_buf s) (s_rlast_hash s) h Hl D).
      + lia.
  Qed.

  (* --- releasing --- *)
  Lemma release_linked front fp : h_prev front = fp -> release front fp = front.
  Proof. intros H. unfold release. destruct front as [i pr b c]. simpl in *. subst. now rewrite Z.eqb_refl. Qed.

  Lemma linked_split : forall k buf fp last, linked fp buf last ->
    exists mid, linked fp (firstn k buf) mid /\ linked mid (skipn k buf) last.
  Proof.
    induction k as [|k IH]; intros buf fp last Hl.
    - exists fp. simpl. split; [reflexivity | exact Hl].
    - destruct buf as [|h t]; simpl in *.
      + exists fp. auto.
      + destruct Hl as [H1 H2]. destruct (IH t (h_id h) last H2) as [mid [A B]]. exists mid. auto.
  Qed.

  Lemma pop_all : forall buf fp last, linked fp buf last -> pop_loop (p_buffer p) true buf fp = (buf, [], last).
  Proof.
    induction buf as [|front rest IH]; intros fp last Hl.
    - simpl in *. now subst.
    - cbn [pop_loop]. destruct Hl as [Hp Hl]. rewrite orb_true_r. rewrite (release_linked front fp Hp).
      rewrite (IH (h_id front) last Hl). reflexivity.
  Qed.

  Lemma pop_some : forall buf fp last, linked fp buf last ->
    exists k fp', pop_loop (p_buffer p) false buf fp = (firstn k buf, skipn k buf, fp') /\
      linked fp (firstn k buf) fp' /\ linked fp' (skipn k buf) last /\
      (k = 0%nat -> zlen buf <= p_buffer p) /\ (k <> 0%nat -> zlen (skipn k buf) = p_buffer p).
  Proof.
    induction buf as [|front rest IH]; intros fp last Hl.
    - exists 0%nat, fp. simpl. repeat split; auto. intros H. contradiction.
    - cbn [pop_loop]. destruct Hl as [Hp Hl]. rewrite orb_false_r.
      destruct (p_buffer p <? Z.of_nat (length (front :: rest))) eqn:Ec.
      + rewrite (release_linked front fp Hp).
        destruct (IH (h_id front) last Hl) as (k & fp' & E & A & B & C & D). rewrite E.
        exists (Datatypes.S k), fp'. simpl. split; [reflexivity|]. split; [split; assumption|]. split; [exact B|].
        split; [discriminate|]. intros _. apply Z.ltb_lt in Ec.
        destruct k as [|k']; [|apply D; discriminate].
        specialize (C eq_refl). simpl. unfold zlen in *. simpl length in Ec. lia.
      + apply Z.ltb_ge in Ec. exists 0%nat, fp. simpl. split; [reflexivity|]. split; [reflexivity|].
        split; [split; assumption|]. split; [intros _; unfold zlen; exact Ec | intros H; contradiction].
  Qed.
End Lemmas.
