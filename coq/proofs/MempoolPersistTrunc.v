(* C55: every strict prefix of a dumped file is reported as a failed load, and what stays in the pool
   is the effect of a prefix of the saved records (Part 5 of the lemmas). *)
From Coq Require Import NArith Lia.
From BV Require Import lib.Ints gen.Params_gen model.SerBase model.SerTx model.CryptoSHA256 model.MempoolPersist
                       proofs.SerBaseLemmas proofs.SerTxLemmas proofs.MempoolPersistLemmas proofs.MempoolPersistPool.
Local Open Scope Z_scope.

Lemma firstn_app_lt {A} n (a b : list A) : (n <= length a)%nat -> firstn n (a ++ b) = firstn n a.
Proof. intros H. rewrite firstn_app. replace (n - length a)%nat with 0%nat by lia. cbn. apply app_nil_r. Qed.

Lemma firstn_app_ge {A} n (a b : list A) : (length a <= n)%nat -> firstn n (a ++ b) = a ++ firstn (n - length a) b.
Proof. intros H. rewrite firstn_app. rewrite firstn_all2 by exact H. reflexivity. Qed.

Lemma read_le_short k s : (length s < k)%nat -> read_le k s = Err EEof.
Proof. intros H. unfold read_le. rewrite read_bytes_short by exact H. reflexivity. Qed.

Lemma read_bytes_app_n a rest n : length a = n -> read_bytes n (a ++ rest) = Ok a rest.
Proof. intros <-. apply read_bytes_app. Qed.

Lemma firstn_length_lt {A} n (l : list A) : (n < length l)%nat -> length (firstn n l) = n.
Proof. intros H. rewrite firstn_length. lia. Qed.

(* a strict prefix of a CompactSize does not parse *)
Lemma cs_prefix n j : 0 <= n <= MAX_SIZE -> (j < length (write_compact_size n))%nat ->
  exists e, read_compact_size true (firstn j (write_compact_size n)) = Err e.
Proof.
  intros Hn Hj. rewrite max_size_value in Hn. unfold write_compact_size in *.
  destruct (n <? 253).
  - rewrite write_le_length in Hj. assert (j = 0%nat) by lia. subst. exists EEof. reflexivity.
  - assert (G : forall tag k w, (tag = 253%N /\ k = 2%nat) \/ (tag = 254%N /\ k = 4%nat) -> length w = k -> (j < length (tag :: w))%nat ->
                exists e, read_compact_size true (firstn j (tag :: w)) = Err e).
    { intros tag k w Htag Lw Hj'. destruct j as [|j]; [exists EEof; reflexivity|].
      cbn [firstn]. unfold read_compact_size. rewrite read_le1_byte by (destruct Htag as [[-> _]|[-> _]]; lia). cbn [bind].
      cbn [length] in Hj'.
      destruct Htag as [[-> ->]|[-> ->]]; cbn -[read_le firstn]; rewrite read_le_short by (rewrite firstn_length; lia); cbn [bind]; exists EEof; reflexivity. }
    destruct (n <=? 65535).
    + apply (G 253%N 2%nat); [left; auto|apply write_le_length|exact Hj].
    + destruct (n <=? UINT32_MAX) eqn:E; [|unfold UINT32_MAX in E; lia].
      apply (G 254%N 4%nat); [right; auto|apply write_le_length|exact Hj].
Qed.

(* ---- vectors of elements whose strict prefixes do not parse ---- *)
Section VectorCut.
  Context {A : Type}.
  Variable f : A -> list N.
  Variable rd : list N -> res A.

  Lemma read_n_cut (l : list A) : forall k n,
    (forall x r, In x l -> rd (f x ++ r) = Ok x r) ->
    (forall x, In x l -> (1 <= length (f x))%nat) ->
    (forall x j, In x l -> (j < length (f x))%nat -> exists e, rd (firstn j (f x)) = Err e) ->
    (n < length (concat (map f l)))%nat -> (Nat.min (length l) (n + 1) <= k)%nat ->
    exists e, read_n rd k (firstn n (concat (map f l))) = Err e.
  Proof.
    induction l as [|x l IH]; intros k n RT NE PF Hn Hk; [cbn in Hn; lia|].
    cbn [map concat] in *. rewrite app_length in Hn.
    destruct k as [|k]; [cbn [length] in Hk; lia|].
    cbn [read_n].
    destruct (Nat.lt_ge_cases n (length (f x))) as [C|C].
    - rewrite firstn_app_lt by lia. destruct (PF x n (or_introl eq_refl) C) as [e E]. rewrite E. exists e. reflexivity.
    - rewrite firstn_app_ge by exact C. rewrite RT by (left; reflexivity). cbn [bind].
      pose proof (NE x (or_introl eq_refl)) as N1.
      destruct (IH k (n - length (f x))%nat) as [e E].
      + intros y r Hy. apply RT. right. exact Hy.
      + intros y Hy. apply NE. right. exact Hy.
      + intros y j Hy. apply PF. right. exact Hy.
      + lia.
      + cbn [length] in Hk. lia.
      + rewrite E. exists e. reflexivity.
  Qed.

  Lemma vector_cut (l : list A) j :
    Z.of_nat (length l) <= MAX_SIZE ->
    (forall x r, In x l -> rd (f x ++ r) = Ok x r) ->
    (forall x, In x l -> (1 <= length (f x))%nat) ->
    (forall x j, In x l -> (j < length (f x))%nat -> exists e, rd (firstn j (f x)) = Err e) ->
    (j < length (ser_vector f l))%nat ->
    exists e, unser_vector rd (firstn j (ser_vector f l)) = Err e.
  Proof.
    intros L RT NE PF Hj. unfold ser_vector in *. unfold unser_vector.
    set (c := write_compact_size (Z.of_nat (length l))) in *.
    destruct (Nat.lt_ge_cases j (length c)) as [C|C].
    - rewrite firstn_app_lt by lia. destruct (cs_prefix (Z.of_nat (length l)) j) as [e E]; [lia|exact C|]. fold c in E. rewrite E. exists e. reflexivity.
    - rewrite firstn_app_ge by exact C. unfold c at 1. rewrite compact_size_roundtrip by lia. cbn [bind].
      rewrite app_length in Hj.
      set (n := (j - length c)%nat) in *.
      assert (Hn : (n < length (concat (map f l)))%nat) by lia.
      rewrite firstn_length_lt by exact Hn.
      destruct (read_n_cut l (Z.to_nat (Z.min (Z.of_nat (length l)) (Z.of_nat n + 1))) n RT NE PF Hn) as [e E]; [lia|].
      rewrite E. exists e. reflexivity.
  Qed.
End VectorCut.

Section Trunc.
  Variable T : Type.
  Variable ser : T -> list N.
  Variable unser : list N -> res T.
  Variable txid : T -> list N.
  Variable wfT : T -> Prop.
  Variable accept : pool -> T -> Z -> bool.
  Variables now expiry : Z.
  Variable opts : load_opts.
  (* PREMISES about the transaction codec: round trip, and a strict prefix of a serialized transaction does not parse *)
  Hypothesis unser_ser : forall t rest, wfT t -> unser (ser t ++ rest) = Ok t rest.
  Hypothesis unser_prefix : forall t n, wfT t -> (n < length (ser t))%nat -> exists e, unser (firstn n (ser t)) = Err e.

  Notation rec_wf := (rec_wf T wfT).
  Notation apply_rec := (apply_rec T txid accept now expiry opts).
  Notation load_recs := (load_recs T unser txid accept now expiry opts).

  Lemma rec_prefix r n : rec_wf r -> (n < length (ser_rec T ser r))%nat -> exists e, unser_rec T unser (firstn n (ser_rec T ser r)) = Err e.
  Proof.
    intros [Wt _] Hn. unfold ser_rec in *. unfold unser_rec. rewrite !app_length, !write_le_length in Hn.
    destruct (Nat.lt_ge_cases n (length (ser (r_tx r)))) as [C|C].
    - rewrite firstn_app_lt by lia. destruct (unser_prefix (r_tx r) n Wt C) as [e E]. rewrite E. exists e. reflexivity.
    - rewrite firstn_app_ge by exact C. rewrite unser_ser by exact Wt. cbn [bind].
      set (j := (n - length (ser (r_tx r)))%nat).
      destruct (Nat.lt_ge_cases j 8) as [D|D].
      + rewrite read_le_short; [exists EEof; reflexivity|]. rewrite firstn_length, app_length, !write_le_length. lia.
      + rewrite firstn_app_ge by (rewrite write_le_length; exact D). rewrite read_le_write. cbn [bind].
        rewrite read_le_short; [exists EEof; reflexivity|]. rewrite firstn_length, !write_le_length. lia.
  Qed.

  Lemma pair_prefix kv n : pair_wf kv -> (n < length (ser_pair kv))%nat -> exists e, unser_pair (firstn n (ser_pair kv)) = Err e.
  Proof.
    intros [L _] Hn. unfold ser_pair in *. unfold unser_pair. rewrite app_length, write_le_length in Hn.
    destruct (Nat.lt_ge_cases n 32) as [C|C].
    - rewrite read_bytes_short; [exists EEof; reflexivity|]. rewrite firstn_length. lia.
    - rewrite firstn_app_ge by lia. rewrite (read_bytes_app_n _ _ _ L). cbn [bind].
      rewrite read_le_short; [exists EEof; reflexivity|]. rewrite firstn_length, write_le_length. lia.
  Qed.

  Lemma id_prefix k n : length k = 32%nat -> (n < length (ser_id k))%nat -> exists e, unser_id (firstn n (ser_id k)) = Err e.
  Proof.
    intros L Hn. unfold ser_id, unser_id in *. rewrite read_bytes_short; [exists EEof; reflexivity|]. rewrite firstn_length. lia.
  Qed.

  (* the records loop on a stream cut inside the records *)
  Lemma load_recs_cut recs : forall p k n tail,
    Forall rec_wf recs -> (n < length (concat (map (ser_rec T ser) recs)))%nat -> (Nat.min (length recs) (n + 1) <= k)%nat ->
    exists m e, (m < length recs)%nat /\
      load_recs k (firstn n (concat (map (ser_rec T ser) recs) ++ tail)) p = LFail (fold_left apply_rec (firstn m recs) p) e.
  Proof.
    induction recs as [|r recs IH]; intros p k n tail W Hn Hk; [cbn in Hn; lia|].
    inversion W as [|? ? W1 W']; subst.
    cbn [map concat] in *. rewrite app_length in Hn.
    destruct k as [|k]; [cbn [length] in Hk; lia|].
    cbn [MempoolPersist.load_recs]. rewrite <- app_assoc.
    destruct (Nat.lt_ge_cases n (length (ser_rec T ser r))) as [C|C].
    - rewrite firstn_app_lt by lia. destruct (rec_prefix r n W1 C) as [e E]. rewrite E.
      exists 0%nat, e. cbn [length firstn fold_left]. split; [lia|reflexivity].
    - rewrite firstn_app_ge by exact C. rewrite (rec_roundtrip T ser unser wfT unser_ser) by exact W1.
      pose proof (ser_rec_nonempty T ser r) as N1.
      destruct (IH (apply_rec p r) k (n - length (ser_rec T ser r))%nat tail W') as [m [e [Hm E]]].
      + lia.
      + cbn [length] in Hk. lia.
      + exists (S m), e. cbn [length firstn fold_left]. split; [lia|exact E].
  Qed.

  Definition tail_bytes (d : snapshot T) : list N := ser_vector ser_pair (sn_deltas d) ++ ser_vector ser_id (sn_unb d).

  Lemma load_tail_cut d q j : snapshot_wf T wfT d -> (j < length (tail_bytes d))%nat ->
    exists e, load_tail opts (firstn j (tail_bytes d)) q = LFail q e \/
              load_tail opts (firstn j (tail_bytes d)) q = LFail (apply_deltas opts q (sn_deltas d)) e.
  Proof.
    intros [_ [_ [Wd [Wp [Wdn [Wu [Wul Wun]]]]]]] Hj. unfold tail_bytes in *. unfold load_tail. rewrite app_length in Hj.
    rewrite Forall_forall in Wp, Wul.
    destruct (Nat.lt_ge_cases j (length (ser_vector ser_pair (sn_deltas d)))) as [C|C].
    - rewrite firstn_app_lt by lia.
      destruct (vector_cut ser_pair unser_pair (sn_deltas d) j Wdn) as [e E].
      + intros x r Hin. apply pair_roundtrip. apply Wp. exact Hin.
      + intros x _. apply ser_pair_nonempty.
      + intros x n Hin. apply pair_prefix. apply Wp. exact Hin.
      + exact C.
      + rewrite E. exists e. left. reflexivity.
    - rewrite firstn_app_ge by exact C.
      rewrite (vector_roundtrip ser_pair unser_pair).
      2: exact Wdn. 2: intros x _; apply ser_pair_nonempty.
      2:{ intros x r Hin. apply pair_roundtrip. apply Wp. exact Hin. }
      rewrite dm_of_list_sorted by exact Wd.
      destruct (vector_cut ser_id unser_id (sn_unb d) (j - length (ser_vector ser_pair (sn_deltas d)))%nat Wun) as [e E].
      + intros x r Hin. apply id_roundtrip. apply Wul. exact Hin.
      + intros x Hin. unfold ser_id. rewrite (Wul x Hin). lia.
      + intros x n Hin. apply id_prefix. apply Wul. exact Hin.
      + lia.
      + rewrite E. exists e. right. reflexivity.
  Qed.

  (* what can stay in the pool after a failed load of a truncated file: the effect of the first m records,
     or of all records and the saved mapDeltas *)
  Definition partial_state (d : snapshot T) (p q : pool) : Prop :=
    (exists m, (m <= length (sn_recs d))%nat /\ q = fold_left apply_rec (firstn m (sn_recs d)) p)
    \/ q = apply_deltas opts (fold_left apply_rec (sn_recs d) p) (sn_deltas d).

  Lemma load_body_cut d p n : snapshot_wf T wfT d -> (n < length (encode_body T ser d))%nat ->
    exists q e, load_body T unser txid accept now expiry opts (firstn n (encode_body T ser d)) p = LFail q e /\ partial_state d p q.
  Proof.
    intros W Hn. pose proof W as [Wr [Wn _]]. unfold encode_body in *. fold (tail_bytes d) in *.
    unfold load_body. rewrite !app_length, write_le_length in Hn.
    destruct (Nat.lt_ge_cases n 8) as [C|C].
    - rewrite read_le_short by (rewrite firstn_length; lia).
      exists p, EEof. split; [reflexivity|]. left. exists 0%nat. split; [lia|reflexivity].
    - rewrite firstn_app_ge by (rewrite write_le_length; exact C). rewrite write_le_length.
      rewrite read_le8_u64 by lia.
      set (cr := concat (map (ser_rec T ser) (sn_recs d))) in *.
      set (n1 := (n - 8)%nat).
      pose proof (concat_length_ge (ser_rec T ser) (sn_recs d) (fun x _ => ser_rec_nonempty T ser x)) as Hlen. fold cr in Hlen.
      destruct (Nat.lt_ge_cases n1 (length cr)) as [D|D].
      + assert (L1 : length (firstn n1 (cr ++ tail_bytes d)) = n1) by (apply firstn_length_lt; rewrite app_length; lia).
        rewrite L1.
        destruct (load_recs_cut (sn_recs d) p (Z.to_nat (Z.min (Z.of_nat (length (sn_recs d))) (Z.of_nat n1 + 1))) n1 (tail_bytes d) Wr D) as [m [e [Hm E]]]; [lia|].
        fold cr in E. rewrite E. exists (fold_left apply_rec (firstn m (sn_recs d)) p), e. split; [reflexivity|].
        left. exists m. split; [lia|reflexivity].
      + rewrite firstn_app_ge by exact D.
        set (j := (n1 - length cr)%nat).
        assert (Hj : (j < length (tail_bytes d))%nat) by lia.
        assert (Ek : Z.min (Z.of_nat (length (sn_recs d))) (Z.of_nat (length (cr ++ firstn j (tail_bytes d))) + 1) = Z.of_nat (length (sn_recs d)))
          by (rewrite app_length; lia).
        rewrite Ek, Nat2Z.id.
        pose proof (load_recs_spec T unser txid accept now expiry opts (length (sn_recs d)) (cr ++ firstn j (tail_bytes d)) p) as LS.
        unfold cr in LS at 1. rewrite (read_n_roundtrip (ser_rec T ser) (unser_rec T unser)) in LS.
        2:{ intros x r Hin. apply (rec_roundtrip T ser unser wfT unser_ser). rewrite Forall_forall in Wr. apply Wr. exact Hin. }
        fold cr in LS. rewrite LS. rewrite Z.ltb_irrefl.
        destruct (load_tail_cut d (fold_left apply_rec (sn_recs d) p) j W Hj) as [e [E|E]]; rewrite E.
        * eexists _, e. split; [reflexivity|]. left. exists (length (sn_recs d)). split; [lia|]. rewrite firstn_all. reflexivity.
        * eexists _, e. split; [reflexivity|]. right. reflexivity.
  Qed.

  (* THE TRUNCATION THEOREM *)
  Theorem load_truncated v1 key d p n :
    snapshot_wf T wfT d -> length key = 8%nat ->
    (n < length (encode_file T ser v1 key d))%nat ->
    exists q e, load_file T unser txid accept now expiry opts (firstn n (encode_file T ser v1 key d)) p = LFail q e /\ partial_state d p q.
  Proof.
    intros W K Hn. unfold encode_file in *. unfold load_file.
    assert (P0 : partial_state d p p) by (left; exists 0%nat; split; [lia|reflexivity]).
    destruct v1.
    - rewrite app_length, write_le_length in Hn.
      destruct (Nat.lt_ge_cases n 8) as [C|C].
      + rewrite read_le_short by (rewrite firstn_length; lia). exists p, EEof. split; [reflexivity|exact P0].
      + rewrite firstn_app_ge by (rewrite write_le_length; exact C). rewrite write_le_length.
        rewrite read_le8_u64 by (unfold MEMPOOL_DUMP_VERSION_NO_XOR_KEY, UINT64_MAX; lia). rewrite Z.eqb_refl.
        apply load_body_cut; [exact W|lia].
    - cbv zeta in Hn. cbv zeta. pose proof (v2_header_length key K) as HL. rewrite HL in *.
      rewrite <- app_assoc in *. rewrite !app_length, write_le_length, xor_at_length in Hn.
      destruct (Nat.lt_ge_cases n 8) as [C|C].
      + rewrite read_le_short by (rewrite firstn_length; lia). exists p, EEof. split; [reflexivity|exact P0].
      + rewrite firstn_app_ge by (rewrite write_le_length; exact C). rewrite write_le_length.
        rewrite read_le8_u64 by (unfold MEMPOOL_DUMP_VERSION, UINT64_MAX; lia).
        change (MEMPOOL_DUMP_VERSION =? MEMPOOL_DUMP_VERSION_NO_XOR_KEY) with false. rewrite Z.eqb_refl. cbv iota.
        assert (LK : length (ser_bytes key) = 9%nat) by (unfold ser_bytes; rewrite app_length, K; reflexivity).
        destruct (Nat.lt_ge_cases (n - 8) 9) as [D|D].
        * (* cut inside the key vector *)
          assert (E : exists e, unser_bytes (firstn (n - 8) (ser_bytes key ++ xor_at key 17 (encode_body T ser d))) = Err e).
          { rewrite firstn_app_lt by lia. unfold ser_bytes, unser_bytes. rewrite K. change (write_compact_size (Z.of_nat 8)) with [8%N].
            destruct (n - 8)%nat as [|j] eqn:J; [exists EEof; reflexivity|].
            cbn [app firstn]. unfold read_compact_size. rewrite read_le1_byte by lia. cbn -[read_bytes_z firstn].
            exists EEof. unfold read_bytes_z. rewrite firstn_length.
            assert (X : (8 <=? Z.of_nat (Nat.min j (length key))) = false) by lia. rewrite X. reflexivity. }
          destruct E as [e E]. rewrite E. exists p, e. split; [reflexivity|exact P0].
        * rewrite firstn_app_ge by lia. rewrite ser_bytes_roundtrip by (rewrite K, max_size_value; lia).
          rewrite K. cbn [Nat.eqb negb]. rewrite LK.
          set (n2 := (n - 8 - 9)%nat).
          assert (Hn2 : (n2 < length (encode_body T ser d))%nat) by lia.
          assert (EP : (length (write_le 8 MEMPOOL_DUMP_VERSION ++ ser_bytes key ++ firstn n2 (xor_at key 17 (encode_body T ser d)))
                        - length (firstn n2 (xor_at key 17 (encode_body T ser d))))%nat = 17%nat).
          { rewrite !app_length, write_le_length, LK. lia. }
          rewrite EP. rewrite <- xor_at_firstn. rewrite xor_at_involutive.
          apply load_body_cut; assumption.
  Qed.

  Corollary load_truncated_fails v1 key d p n :
    snapshot_wf T wfT d -> length key = 8%nat -> (n < length (encode_file T ser v1 key d))%nat ->
    lres_ok (load_file T unser txid accept now expiry opts (firstn n (encode_file T ser v1 key d)) p) = false.
  Proof.
    intros W K Hn. destruct (load_truncated v1 key d p n W K Hn) as [q [e [E _]]]. rewrite E. reflexivity.
  Qed.
End Trunc.
