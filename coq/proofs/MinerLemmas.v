(* Block template assembly (C23): the counters of addChunks are the reserved values plus the sums over the selected
   transactions, they stay within the limits, every selected transaction is final, the coinbase value is subsidy + fees, the
   selection is parent-closed and topologically ordered when the block builder only offers chunks whose parents were
   included, and the template passes the predicate `holds` evaluates on the implementation's templates. *)
From BV Require Import lib.Ints gen.Params_gen model.Locks model.Amount model.Miner.
Local Open Scope Z_scope.

Definition sel_weight (l : list ctx) : Z := zsum (map c_weight l).
Definition sel_sigops (l : list ctx) : Z := zsum (map c_sigops l).
Definition sel_fees (l : list ctx) : Z := zsum (map c_fee l).
Definition chunks_fees (ks : list chunk) : Z := zsum (map (fun k => sel_fees (k_txs k)) ks).

Lemma sel_weight_app a b : sel_weight (a ++ b) = sel_weight a + sel_weight b.
Proof. unfold sel_weight. rewrite map_app, zsum_app. reflexivity. Qed.
Lemma sel_sigops_app a b : sel_sigops (a ++ b) = sel_sigops a + sel_sigops b.
Proof. unfold sel_sigops. rewrite map_app, zsum_app. reflexivity. Qed.
Lemma sel_fees_app a b : sel_fees (a ++ b) = sel_fees a + sel_fees b.
Proof. unfold sel_fees. rewrite map_app, zsum_app. reflexivity. Qed.

Definition tx_nonneg (t : ctx) : Prop := 0 <= c_weight t /\ 0 <= c_sigops t /\ 0 <= c_fee t.
Lemma chunk_wf_spec k : chunk_wf k = true ->
  sel_weight (k_txs k) <= k_size k /\ k_size k <= INT32_MAX /\ sel_sigops (k_txs k) <= INT32_MAX /\ Forall tx_nonneg (k_txs k).
Proof.
  unfold chunk_wf. rewrite !andb_true_iff, !Z.leb_le, forallb_forall. intros [[[A B] C] D]. repeat split; auto.
  apply Forall_forall. intros t Ht. specialize (D t Ht). rewrite !andb_true_iff, !Z.leb_le in D. unfold tx_nonneg. tauto.
Qed.
Lemma nonneg_sums l : Forall tx_nonneg l -> 0 <= sel_weight l /\ 0 <= sel_sigops l /\ 0 <= sel_fees l.
Proof.
  unfold sel_weight, sel_sigops, sel_fees. induction 1 as [|t l [A [B C]] _ IH]; simpl; [lia|]. lia.
Qed.

(* AddToBlock over a chunk, when nothing can wrap *)
Lemma fold_add_to_block txs : forall a, Forall tx_nonneg txs ->
  0 <= a_weight a -> a_weight a + sel_weight txs <= UINT64_MAX ->
  0 <= a_sigops a -> a_sigops a + sel_sigops txs <= UINT64_MAX ->
  0 <= a_fees a -> a_fees a + sel_fees txs <= INT64_MAX ->
  let a' := fold_left add_to_block txs a in
  a_weight a' = a_weight a + sel_weight txs /\ a_sigops a' = a_sigops a + sel_sigops txs /\
  a_fees a' = a_fees a + sel_fees txs /\ a_sel a' = a_sel a ++ txs /\ a_failed a' = a_failed a.
Proof.
  induction txs as [|t r IH]; intros a Hn Hw Hw' Hs Hs' Hf Hf'; simpl.
  - unfold sel_weight, sel_sigops, sel_fees. simpl. rewrite app_nil_r. repeat split; lia.
  - inversion Hn as [|? ? [N1 [N2 N3]] Hr]; subst.
    destruct (nonneg_sums r Hr) as (R1 & R2 & R3).
    unfold sel_weight, sel_sigops, sel_fees in *. simpl in *.
    assert (a_weight (add_to_block a t) = a_weight a + c_weight t) as E1 by (simpl; apply wrapu64_id; lia).
    assert (a_sigops (add_to_block a t) = a_sigops a + c_sigops t) as E2 by (simpl; apply wrapu64_id; lia).
    assert (a_fees (add_to_block a t) = a_fees a + c_fee t) as E3 by (simpl; apply wrap64_id; unfold INT64_MIN; lia).
    destruct (IH (add_to_block a t) Hr) as (A & B & C & D & E); try (rewrite ?E1, ?E2, ?E3; lia).
    rewrite A, B, C, D, E, E1, E2, E3. simpl. rewrite <- app_assoc. simpl. repeat split; lia.
Qed.

Section Assemble.
Variables (o : opts) (height cutoff : Z).
Hypothesis Hopt : check_options o = true.

Lemma opts_facts : MINER_MINIMUM_BLOCK_RESERVED_WEIGHT <= o_reserved o <= o_max_weight o /\ o_max_weight o <= MAX_BLOCK_WEIGHT /\
                   o_cb_sigops o <= MAX_BLOCK_SIGOPS_COST.
Proof.
  unfold check_options in Hopt. rewrite !andb_true_iff, !negb_true_iff in Hopt.
  destruct Hopt as [[[[A B] C] D] E]. lia.
Qed.

(* the invariant of the loop *)
Record AI (a : astate) : Prop := {
  ai_w : a_weight a = o_reserved o + sel_weight (a_sel a);
  ai_s : a_sigops a = o_cb_sigops o + sel_sigops (a_sel a);
  ai_f : a_fees a = sel_fees (a_sel a);
  ai_lim : a_sel a = [] \/ (a_weight a < o_max_weight o /\ a_sigops a < MAX_BLOCK_SIGOPS_COST);
  ai_final : forall t, In t (a_sel a) -> is_final_tx (c_ltx t) height cutoff = true;
  ai_nonneg : Forall tx_nonneg (a_sel a) }.

Hypothesis Hcb : 0 <= o_cb_sigops o.

Lemma AI_bounds a : AI a -> 0 <= a_weight a <= MAX_BLOCK_WEIGHT /\ 0 <= a_sigops a <= MAX_BLOCK_SIGOPS_COST /\ 0 <= a_fees a.
Proof.
  intros [W S F L _ N]. destruct (nonneg_sums _ N) as (N1 & N2 & N3). pose proof opts_facts as (O1 & O2 & O3).
  unfold MINER_MINIMUM_BLOCK_RESERVED_WEIGHT in O1.
  destruct L as [L|[L1 L2]].
  - rewrite L in *. unfold sel_weight, sel_sigops, sel_fees in *. simpl in *. lia.
  - lia.
Qed.

Definition skipped (a : astate) : astate :=
  {| a_weight := a_weight a; a_sigops := a_sigops a; a_fees := a_fees a; a_sel := a_sel a; a_failed := a_failed a + 1 |}.
Definition reset_failed (a : astate) : astate :=
  {| a_weight := a_weight a; a_sigops := a_sigops a; a_fees := a_fees a; a_sel := a_sel a; a_failed := 0 |}.

Lemma AI_skipped a : AI a -> AI (skipped a).
Proof. intros [W S F L Fin N]. constructor; assumption. Qed.

(* a chunk that passes TestChunkBlockLimits and TestChunkTransactions is added whole *)
Lemma include_step a k : AI a -> chunk_wf k = true -> a_fees a + sel_fees (k_txs k) <= MAX_MONEY ->
  test_chunk_block_limits o a (k_size k) (wrap64 (zsum (map c_sigops (k_txs k)))) = true ->
  test_chunk_transactions height cutoff (k_txs k) = true ->
  let a1 := fold_left add_to_block (k_txs k) (reset_failed a) in
  AI a1 /\ a_sel a1 = a_sel a ++ k_txs k /\ a_fees a1 = a_fees a + sel_fees (k_txs k).
Proof.
  intros Ha Hk Hfee T1 T2.
  destruct (chunk_wf_spec k Hk) as (K1 & K2 & K3 & K4). destruct (nonneg_sums _ K4) as (P1 & P2 & P3).
  destruct (AI_bounds a Ha) as (B1 & B2 & B3).
  fold (sel_sigops (k_txs k)) in T1. unfold INT32_MAX in *. unfold MAX_BLOCK_WEIGHT, MAX_BLOCK_SIGOPS_COST in *.
  rewrite (wrap64_id (sel_sigops (k_txs k))) in T1 by (unfold INT64_MIN, INT64_MAX; lia).
  unfold test_chunk_block_limits in T1.
  rewrite (wrapu64_id (a_weight a + k_size k)) in T1 by (unfold UINT64_MAX; lia).
  rewrite (wrapu64_id (a_sigops a + sel_sigops (k_txs k))) in T1 by (unfold UINT64_MAX; lia).
  destruct (a_weight a + k_size k >=? o_max_weight o) eqn:Lw; [discriminate|].
  destruct (a_sigops a + sel_sigops (k_txs k) >=? MAX_BLOCK_SIGOPS_COST) eqn:Ls; [discriminate|].
  assert (a_weight a + k_size k < o_max_weight o) as Lw' by lia.
  assert (a_sigops a + sel_sigops (k_txs k) < 80000) as Ls' by (unfold MAX_BLOCK_SIGOPS_COST in Ls; lia).
  clear Lw Ls.
  destruct (fold_add_to_block (k_txs k) (reset_failed a) K4) as (E1 & E2 & E3 & E4 & _); simpl;
    try (unfold UINT64_MAX, INT64_MAX, MAX_MONEY, COIN in *; lia).
  simpl in E1, E2, E3, E4. split; [|split; [exact E4|exact E3]].
  destruct Ha as [W S F L Fin N]. constructor.
  - rewrite E1, E4, sel_weight_app. lia.
  - rewrite E2, E4, sel_sigops_app. lia.
  - rewrite E3, E4, sel_fees_app. lia.
  - right. rewrite E1, E2. change MAX_BLOCK_SIGOPS_COST with 80000. lia.
  - rewrite E4. intros t Ht. apply in_app_iff in Ht. destruct Ht as [Ht|Ht]; [apply Fin; exact Ht|].
    unfold test_chunk_transactions in T2. rewrite forallb_forall in T2. apply T2. exact Ht.
  - rewrite E4. apply Forall_app. split; assumption.
Qed.

Lemma chunks_fees_nonneg r : Forall (fun k => chunk_wf k = true) r -> 0 <= chunks_fees r.
Proof.
  unfold chunks_fees. induction 1 as [|x l Hx _ IHl]; simpl; [lia|].
  destruct (chunk_wf_spec x Hx) as (_ & _ & _ & X). destruct (nonneg_sums _ X) as (_ & _ & X3). lia.
Qed.
Lemma chunks_fees_cons k r : chunks_fees (k :: r) = sel_fees (k_txs k) + chunks_fees r.
Proof. reflexivity. Qed.

(* parent-closed and topologically ordered *)
Lemma mem_id_In x l : mem_id x l = true <-> In x l.
Proof.
  unfold mem_id. rewrite existsb_exists. split.
  - intros (y & Hy & E). apply Z.eqb_eq in E. subst. exact Hy.
  - intros H. exists x. split; [exact H|apply Z.eqb_refl].
Qed.
Lemma chunk_parents_topo pool txs : forall have, chunk_parents_ok pool have txs = true -> topo_ok pool have txs = true.
Proof. induction txs as [|t r IH]; simpl; intros have H; [reflexivity|]. apply andb_true_iff in H. destruct H as [A B]. rewrite A. simpl. apply IH. exact B. Qed.
Lemma topo_ok_ext pool txs : forall h1 h2, (forall x, In x h1 -> In x h2) -> topo_ok pool h1 txs = true -> topo_ok pool h2 txs = true.
Proof.
  induction txs as [|t r IH]; simpl; intros h1 h2 Hi H; [reflexivity|].
  apply andb_true_iff in H. destruct H as [A B]. apply andb_true_iff. split.
  - rewrite forallb_forall in *. intros p Hp. specialize (A p Hp). apply orb_true_iff in A. apply orb_true_iff.
    destruct A as [A|A]; [left; exact A|right]. apply mem_id_In. apply Hi. apply mem_id_In. exact A.
  - apply (IH (c_id t :: h1)); [|exact B]. intros x [<-|Hx]; [left; reflexivity|right; apply Hi; exact Hx].
Qed.
Lemma topo_app pool a b : forall have, topo_ok pool have a = true -> topo_ok pool (rev (map c_id a) ++ have) b = true ->
  topo_ok pool have (a ++ b) = true.
Proof.
  induction a as [|t r IH]; simpl; intros have Ha Hb; [exact Hb|].
  apply andb_true_iff in Ha. destruct Ha as [A1 A2]. rewrite A1. simpl. apply IH; [exact A2|].
  rewrite <- app_assoc in Hb. exact Hb.
Qed.

(* the loop: the invariant, and - if the builder only offers chunks whose in-pool parents are selected or earlier in the
   chunk - the selection lists every transaction after its in-pool parents, all of which are selected *)
Lemma add_chunks_inv pool ks : forall a, AI a -> Forall (fun k => chunk_wf k = true) ks -> a_fees a + chunks_fees ks <= MAX_MONEY ->
  AI (add_chunks o height cutoff a ks) /\
   (topo_ok pool [] (a_sel a) = true -> offered_ok pool o height cutoff a ks = true ->
   topo_ok pool [] (a_sel (add_chunks o height cutoff a ks)) = true) /\
   (exists more, a_sel (add_chunks o height cutoff a ks) = a_sel a ++ more /\
                 forall t, In t more -> exists k, In k ks /\ In t (k_txs k)) /\
   a_fees (add_chunks o height cutoff a ks) <= a_fees a + chunks_fees ks.
Proof.
  induction ks as [|k r IH]; intros a Ha Hwf Hfee.
  { simpl. split; [exact Ha|]. split; [auto|]. split; [|unfold chunks_fees; simpl; lia].
    exists []. rewrite app_nil_r. split; [reflexivity|intros t []]. }
  inversion Hwf as [|? ? Hk Hr]; subst. rewrite chunks_fees_cons in *.
  pose proof (chunks_fees_nonneg r Hr) as Pr.
  destruct (chunk_wf_spec k Hk) as (_ & _ & _ & K4). destruct (nonneg_sums _ K4) as (_ & _ & P3).
  assert (forall (X : Prop), X -> AI a /\ (topo_ok pool [] (a_sel a) = true -> X -> topo_ok pool [] (a_sel a) = true) /\
           (exists more, a_sel a = a_sel a ++ more /\ forall t, In t more -> exists k0, In k0 (k :: r) /\ In t (k_txs k0)) /\
           a_fees a <= a_fees a + (sel_fees (k_txs k) + chunks_fees r)) as Hstop.
  { intros X _. split; [exact Ha|]. split; [auto|]. split; [|lia]. exists []. rewrite app_nil_r. split; [reflexivity|intros t []]. }
  assert (let res := add_chunks o height cutoff (skipped a) r in
          AI res /\ (topo_ok pool [] (a_sel a) = true -> offered_ok pool o height cutoff (skipped a) r = true -> topo_ok pool [] (a_sel res) = true) /\
           (exists more, a_sel res = a_sel a ++ more /\ forall t, In t more -> exists k0, In k0 (k :: r) /\ In t (k_txs k0)) /\
           a_fees res <= a_fees a + (sel_fees (k_txs k) + chunks_fees r)) as Hskip.
  { destruct (IH (skipped a) (AI_skipped a Ha) Hr ltac:(simpl; lia)) as (I1 & I2 & (more & I3 & I4) & I5).
    split; [exact I1|]. split; [exact I2|]. split; [|simpl in I5; lia].
    exists more. split; [exact I3|]. intros t Ht. destruct (I4 t Ht) as (k' & Hk' & Ht'). exists k'. split; [right; exact Hk'|exact Ht']. }
  simpl. destruct (_ <? _).
  { split; [exact Ha|]. split; [auto|]. split; [|lia]. exists []. rewrite app_nil_r. split; [reflexivity|intros t []]. }
  destruct (test_chunk_block_limits o a (k_size k) (wrap64 (zsum (map c_sigops (k_txs k))))) eqn:T1; simpl.
  2:{ fold (skipped a). destruct (_ && _).
      - split; [apply AI_skipped; exact Ha|]. split; [auto|]. split; [|simpl; lia]. exists []. rewrite app_nil_r. split; [reflexivity|intros t []].
      - destruct Hskip as (I1 & I2 & I3 & I5). split; [exact I1|]. split; [|split; [exact I3|exact I5]].
        intros Ht Ho. apply andb_true_iff in Ho. apply I2; [exact Ht|apply Ho]. }
  destruct (test_chunk_transactions height cutoff (k_txs k)) eqn:T2; simpl.
  2:{ fold (skipped a). destruct (_ && _).
      - split; [apply AI_skipped; exact Ha|]. split; [auto|]. split; [|simpl; lia]. exists []. rewrite app_nil_r. split; [reflexivity|intros t []].
      - destruct Hskip as (I1 & I2 & I3 & I5). split; [exact I1|]. split; [|split; [exact I3|exact I5]].
        intros Ht Ho. apply andb_true_iff in Ho. apply I2; [exact Ht|apply Ho]. }
  fold (reset_failed a).
  destruct (include_step a k Ha Hk ltac:(lia) T1 T2) as (Hai & Esel & Efee).
  destruct (IH _ Hai Hr ltac:(rewrite Efee; lia)) as (I1 & I2 & (more & I3 & I4) & I5).
  split; [exact I1|]. split; [|split].
  - intros Ht Ho. apply andb_true_iff in Ho. destruct Ho as [Hp Ho]. apply I2; [|exact Ho].
    rewrite Esel. apply topo_app; [exact Ht|]. eapply (topo_ok_ext pool (k_txs k)); [|apply chunk_parents_topo; exact Hp].
    intros x Hx. apply in_app_iff. left. apply in_rev. rewrite rev_involutive. exact Hx.
  - exists (k_txs k ++ more). rewrite I3, Esel, <- app_assoc. split; [reflexivity|].
    intros t Ht. apply in_app_iff in Ht. destruct Ht as [Ht|Ht].
    + exists k. split; [left; reflexivity|exact Ht].
    + destruct (I4 t Ht) as (k' & Hk' & Ht'). exists k'. split; [right; exact Hk'|exact Ht'].
  - rewrite Efee in I5. lia.
Qed.

Lemma AI_init : AI {| a_weight := o_reserved o; a_sigops := o_cb_sigops o; a_fees := 0; a_sel := []; a_failed := 0 |}.
Proof.
  constructor; simpl; unfold sel_weight, sel_sigops, sel_fees; simpl; try lia.
  - left. reflexivity.
  - constructor.
Qed.

End Assemble.

(* ------------------------------------------------------------------------------------------ *)
(* the template *)

Definition init_state (o : opts) : astate :=
  {| a_weight := o_reserved o; a_sigops := o_cb_sigops o; a_fees := 0; a_sel := []; a_failed := 0 |}.

Section Template.
Variables (o : opts) (interval height cutoff : Z) (ks : list chunk) (tp : template).
Hypothesis Hasm : assemble o interval height cutoff ks = Some tp.
Hypothesis Hcb : 0 <= o_cb_sigops o.
Hypothesis Hwf : Forall (fun k => chunk_wf k = true) ks.
Hypothesis Hfees : chunks_fees ks <= MAX_MONEY.            (* the pool's fees do not exceed the money supply (C01) *)

Lemma assemble_facts : check_options o = true /\
   tp = let a := add_chunks o height cutoff (init_state o) ks in
       {| tp_txs := a_sel a; tp_weight := a_weight a; tp_sigops := a_sigops a; tp_fees := a_fees a;
          tp_coinbase_value := wrap64 (a_fees a + get_block_subsidy interval height) |}.
Proof.
  unfold assemble in Hasm. destruct (check_options o) eqn:Ho; simpl in Hasm; [|discriminate].
  split; [reflexivity|]. inversion Hasm; reflexivity.
Qed.

Lemma final_state_facts pool :
  let a := add_chunks o height cutoff (init_state o) ks in
  AI o height cutoff a /\
   (offered_ok pool o height cutoff (init_state o) ks = true -> topo_ok pool [] (a_sel a) = true) /\
   (forall t, In t (a_sel a) -> exists k, In k ks /\ In t (k_txs k)) /\ a_fees a <= chunks_fees ks.
Proof.
  destruct assemble_facts as (Ho & _).
  destruct (add_chunks_inv o height cutoff Ho Hcb pool ks (init_state o) (AI_init o height cutoff) Hwf ltac:(simpl; lia))
    as (I1 & I2 & (more & I3 & I4) & I5).
  simpl. split; [exact I1|]. split; [intros H; apply I2; [reflexivity|exact H]|]. split; [|simpl in I5; lia].
  intros t Ht. rewrite I3 in Ht. simpl in Ht. apply I4. exact Ht.
Qed.

(* weight and sigops: the counters are reserved + selected, and within the limits (strictly below once anything is selected) *)
Theorem template_limits :
  tp_weight tp = o_reserved o + sel_weight (tp_txs tp) /\ tp_weight tp <= o_max_weight o /\ o_max_weight o <= MAX_BLOCK_WEIGHT /\
   tp_sigops tp = o_cb_sigops o + sel_sigops (tp_txs tp) /\ tp_sigops tp <= MAX_BLOCK_SIGOPS_COST /\
   (tp_txs tp <> [] -> tp_weight tp < o_max_weight o /\ tp_sigops tp < MAX_BLOCK_SIGOPS_COST).
Proof.
  destruct assemble_facts as (Ho & Etp). rewrite Etp. destruct (final_state_facts []) as (Ha & _). simpl.
  pose proof (opts_facts o Ho) as (O1 & O2 & O3).
  destruct Ha as [W S F L _ N]. destruct (nonneg_sums _ N) as (N1 & N2 & N3).
  split; [exact W|]. split; [destruct L as [L|L]; [rewrite W, L; unfold sel_weight; simpl; lia|lia]|].
  split; [exact O2|]. split; [exact S|]. split; [destruct L as [L|L]; [rewrite S, L; unfold sel_sigops; simpl; lia|lia]|].
  intros Hne. destruct L as [L|L]; [contradiction|exact L].
Qed.

Theorem template_final : forall t, In t (tp_txs tp) -> is_final_tx (c_ltx t) height cutoff = true.
Proof. destruct assemble_facts as (Ho & Etp). rewrite Etp. destruct (final_state_facts []) as (Ha & _). simpl. exact (ai_final _ _ _ _ Ha). Qed.

Lemma subsidy_bounds : 0 < interval -> 0 <= height -> 0 <= get_block_subsidy interval height <= 50 * COIN.
Proof.
  intros Hi Hh. unfold get_block_subsidy. rewrite cdiv_nonneg by lia. destruct (_ >=? 64) eqn:E; [unfold COIN; lia|].
  rewrite wrap64_id by (unfold COIN, INT64_MIN, INT64_MAX; lia). rewrite Z.shiftr_div_pow2 by (apply Z.div_pos; lia).
  assert (0 < 2 ^ (height / interval)) by (apply Z.pow_pos_nonneg; [lia|apply Z.div_pos; lia]).
  split; [apply Z.div_pos; unfold COIN; lia|]. apply Z.div_le_upper_bound; [lia|]. unfold COIN. nia.
Qed.

Theorem template_coinbase : 0 < interval -> 0 <= height ->
  tp_coinbase_value tp = get_block_subsidy interval height + sel_fees (tp_txs tp) /\ tp_fees tp = sel_fees (tp_txs tp).
Proof.
  intros Hi Hh. destruct assemble_facts as (Ho & Etp). rewrite Etp. destruct (final_state_facts []) as (Ha & _ & _ & Hle). simpl.
  pose proof (subsidy_bounds Hi Hh) as Sb. pose proof (ai_f _ _ _ _ Ha) as F. split; [|exact F].
  destruct (nonneg_sums _ (ai_nonneg _ _ _ _ Ha)) as (_ & _ & N3).
  rewrite wrap64_id; [rewrite F; lia|]. rewrite F in Hle. unfold INT64_MIN, INT64_MAX, MAX_MONEY, COIN in *. lia.
Qed.

(* every selected transaction follows its in-pool parents, all of which are selected (so the selection is closed under
   in-pool ancestors), provided the block builder behaves (offered_ok); and every selected transaction comes from a chunk *)
Theorem template_topological pool : offered_ok pool o height cutoff (init_state o) ks = true -> topo_ok pool [] (tp_txs tp) = true.
Proof. destruct assemble_facts as (Ho & Etp). rewrite Etp. destruct (final_state_facts pool) as (_ & H & _). simpl. exact H. Qed.
Theorem template_from_chunks : forall t, In t (tp_txs tp) -> exists k, In k ks /\ In t (k_txs k).
Proof. destruct assemble_facts as (Ho & Etp). rewrite Etp. destruct (final_state_facts []) as (_ & _ & H & _). simpl. exact H. Qed.

(* the template passes the predicate `holds` evaluates on the implementation's templates (with the counter as block weight) *)
Theorem template_passes_check pool : 0 < interval -> 0 <= height ->
  offered_ok pool o height cutoff (init_state o) ks = true -> nodup_ids (map c_id (tp_txs tp)) = true ->
  check_template pool o interval height cutoff (tp_txs tp) (tp_weight tp) (tp_coinbase_value tp) = None.
Proof.
  intros Hi Hh Hoff Hnd. unfold check_template. rewrite Hnd. simpl. rewrite (template_topological pool Hoff). simpl.
  destruct template_limits as (W & Wl & Wm & S & Sl & _). destruct (template_coinbase Hi Hh) as (C & _).
  fold (sel_weight (tp_txs tp)) (sel_sigops (tp_txs tp)) (sel_fees (tp_txs tp)).
  assert ((o_reserved o + sel_weight (tp_txs tp) <=? o_max_weight o) && (tp_weight tp <=? o_max_weight o) && (o_max_weight o <=? MAX_BLOCK_WEIGHT) = true) as E1.
  { rewrite !andb_true_iff, !Z.leb_le. lia. }
  rewrite E1. simpl.
  assert ((o_cb_sigops o + sel_sigops (tp_txs tp) <=? MAX_BLOCK_SIGOPS_COST) = true) as E2 by (apply Z.leb_le; lia).
  rewrite E2. simpl.
  assert (forallb (fun t => is_final_tx (c_ltx t) height cutoff) (tp_txs tp) = true) as E3 by (apply forallb_forall; exact template_final).
  rewrite E3. simpl. rewrite C, Z.eqb_refl. reflexivity.
Qed.

End Template.

(* the predicate is sound for the clauses of the property *)
Theorem check_template_sound pool o interval height cutoff txs bw cbv :
  check_template pool o interval height cutoff txs bw cbv = None ->
  topo_ok pool [] txs = true /\
   o_reserved o + sel_weight txs <= o_max_weight o /\ bw <= o_max_weight o /\ o_max_weight o <= MAX_BLOCK_WEIGHT /\
   o_cb_sigops o + sel_sigops txs <= MAX_BLOCK_SIGOPS_COST /\
   (forall t, In t txs -> is_final_tx (c_ltx t) height cutoff = true) /\
   cbv = get_block_subsidy interval height + sel_fees txs.
Proof.
  unfold check_template.
  destruct (nodup_ids (map c_id txs)); simpl; [|discriminate].
  destruct (topo_ok pool [] txs) eqn:E1; simpl; [|discriminate].
  destruct (_ && _ && _) eqn:E2; simpl; [|discriminate].
  destruct (_ <=? MAX_BLOCK_SIGOPS_COST) eqn:E3; simpl; [|discriminate].
  destruct (forallb _ txs) eqn:E4; simpl; [|discriminate].
  destruct (cbv =? _) eqn:E5; simpl; [|discriminate].
  intros _. rewrite !andb_true_iff, !Z.leb_le in E2. apply Z.leb_le in E3. apply Z.eqb_eq in E5. rewrite forallb_forall in E4.
  unfold sel_weight, sel_sigops, sel_fees. repeat split; try tauto; try lia.
Qed.

(* what topo_ok means: every in-pool parent of a listed transaction is listed before it *)
Lemma topo_ok_spec pool : forall txs have, topo_ok pool have txs = true ->
  forall pre t post, txs = pre ++ t :: post -> forall p, In p (c_parents t) -> In p pool -> In p have \/ In p (map c_id pre).
Proof.
  induction txs as [|a r IH]; intros have H pre t post E p Hp Hpool; [destruct pre; discriminate|].
  simpl in H. apply andb_true_iff in H. destruct H as [A B].
  destruct pre as [|a' pre]; simpl in E; inversion E; subst.
  - left. rewrite forallb_forall in A. specialize (A p Hp). apply orb_true_iff in A. destruct A as [A|A].
    + apply negb_true_iff in A. rewrite <- not_true_iff_false in A. exfalso. apply A. apply mem_id_In. exact Hpool.
    + apply mem_id_In. exact A.
  - destruct (IH (c_id a' :: have) B pre t post eq_refl p Hp Hpool) as [[<-|X]|X].
    + right. left. reflexivity.
    + left. exact X.
    + right. right. exact X.
Qed.
