(* C37: every public operation of AddrManImpl preserves the invariant and fires no assertion. *)
From Coq Require Import Sorted.
From BV Require Import lib.Ints model.AddrMan proofs.AddrManMaps proofs.AddrManInv proofs.AddrManOps.
Local Open Scope Z_scope.

Section Steps.
  Variable c : cfg.
  Variable tried_bucket : Z -> Z.
  Variable new_bucket : Z -> Z -> Z.
  Variable bucket_pos : bool -> Z -> Z -> Z.
  Variable routable : Z -> bool.
  Variable valid : Z -> bool.
  Variable network : Z -> Z.
  Variable netclass : Z -> Z.
  Variable addr_of : Z -> Z.
  Hypothesis H_NB : 0 < c_NB c.
  Hypothesis H_MAXREF : 1 <= c_MAXREF c.
  Hypothesis H_nb : forall k s, 0 <= new_bucket k s < c_NB c.

  Notation tslot := (tslot tried_bucket bucket_pos).
  Notation nslot := (nslot new_bucket bucket_pos).
  Notation SA := (SA c tried_bucket bucket_pos routable).
  Notation Cnt := (Cnt network).
  Notation GInv := (GInv c tried_bucket bucket_pos routable network).
  Notation Inv := (Inv c tried_bucket bucket_pos routable network).
  Notation info_ok := (info_ok routable).

  (* ---------- AddSingle ---------- *)
  Lemma add_insert_ok s1 id p X1 b :
    GInv [] X1 s1 -> s_idcount s1 <= IDLIM -> zfind id (s_info s1) = Some p -> a_tried p = false -> a_ref p + 1 <= c_MAXREF c ->
    0 <= b < c_NB c -> sfind (b, bucket_pos true b (a_key p)) (s_new s1) <> Some id -> (forall x, In x X1 -> x = id) ->
    exists s', add_insert network s1 id (b, bucket_pos true b (a_key p)) = Ok (s', true) /\ Inv s' /\ s_idcount s' = s_idcount s1.
  Proof.
    intros G LIM F NT MX RB NS HX1. set (us := (b, bucket_pos true b (a_key p))) in *. unfold add_insert.
    destruct (clear_new_ok c tried_bucket new_bucket bucket_pos routable network H_NB H_MAXREF H_nb [] X1 s1 us G LIM) as (s2 & CN & G2 & FS & FO & FI & FN & e1 & e2 & e3 & e4 & e5 & OCC).
    { intros j _ []. }
    rewrite CN. cbn [bind]. destruct (FI _ _ F NS) as (r & F2). rewrite F2.
    pose proof (new_insert_ok c tried_bucket new_bucket bucket_pos routable network [] X1 s2 b id (set_rpos r p) G2 F2 NT RB) as NI.
    cbn [a_key a_ref set_rpos] in NI. fold us in NI. specialize (NI FS MX []).
    eexists. split; [reflexivity|]. split; [|simpl; auto].
    apply NI. intros x I. left. auto.
  Qed.
End Steps.
