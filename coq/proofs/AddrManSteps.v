(* C37: every public operation of AddrManImpl preserves the invariant and fires no assertion. *)
From Coq Require Import Sorted.
From BV Require Import lib.Ints model.AddrMan proofs.AddrManMaps proofs.AddrManInv proofs.AddrManOps.
Local Open Scope Z_scope.

(* std::set operations on strictly increasing lists *)
Lemma set_insert_In x y l : In y (set_insert x l) <-> y = x \/ In y l.
Proof. induction l as [|z r IH]; simpl; [intuition|]. destruct (x <? z) eqn:E1; [simpl; intuition|].
  destruct (x =? z) eqn:E2; [apply Z.eqb_eq in E2; subst; simpl; intuition|]. simpl. rewrite IH. intuition. Qed.
Lemma set_insert_sorted x l : StronglySorted Z.lt l -> StronglySorted Z.lt (set_insert x l).
Proof. induction l as [|z r IH]; simpl; intros H; [repeat constructor|].
  apply StronglySorted_inv in H. destruct H as [H1 H2].
  destruct (x <? z) eqn:E1.
  - apply Z.ltb_lt in E1. constructor; [constructor; auto|]. constructor; auto. rewrite Forall_forall in *. intros y I. specialize (H2 y I). lia.
  - destruct (x =? z) eqn:E2; [constructor; auto|]. apply Z.ltb_ge in E1. apply Z.eqb_neq in E2.
    constructor; auto. rewrite Forall_forall in *. intros y I. apply set_insert_In in I. destruct I as [->|I]; [lia | auto]. Qed.
Lemma set_insert_len x l : zlen (set_insert x l) <= zlen l + 1.
Proof. induction l as [|z r IH]; unfold zlen in *; simpl; [lia|]. destruct (x <? z); [simpl; lia|]. destruct (x =? z); simpl; lia. Qed.
Lemma set_remove_In x y l : In y (set_remove x l) -> In y l.
Proof. induction l as [|z r IH]; simpl; auto. destruct (x =? z); simpl; intuition. Qed.
Lemma set_remove_sorted x l : StronglySorted Z.lt l -> StronglySorted Z.lt (set_remove x l).
Proof. induction l as [|z r IH]; simpl; intros H; [constructor|]. apply StronglySorted_inv in H. destruct H as [H1 H2].
  destruct (x =? z); auto. constructor; auto. rewrite Forall_forall in *. intros y I. apply H2. eapply set_remove_In; eauto. Qed.
Lemma set_remove_len x l : zlen (set_remove x l) <= zlen l.
Proof. induction l as [|z r IH]; unfold zlen in *; simpl; [lia|]. destruct (x =? z); simpl; lia. Qed.

Section Steps.
  Variable c : cfg.
  Variable tried_bucket : Z -> Z.
  Variable new_bucket : Z -> Z -> Z.
  Variable bucket_pos : bool -> Z -> Z -> Z.
  Variable routable : Z -> bool.
  Variable valid : Z -> bool.
  Variable network : Z -> Z.
  Variable netclass : Z -> Z.
  Variable addr_of : Z -> Z.
  Hypothesis H_NB : 0 < c_NB c.
  Hypothesis H_MAXREF : 1 <= c_MAXREF c.
  Hypothesis H_nb : forall k s, 0 <= new_bucket k s < c_NB c.
  Set Default Proof Using "All".

  Notation tslot := (tslot tried_bucket bucket_pos).
  Notation nslot := (nslot new_bucket bucket_pos).
  Notation SA := (SA c tried_bucket bucket_pos routable).
  Notation Cnt := (Cnt network).
  Notation GInv := (GInv c tried_bucket bucket_pos routable network).
  Notation Inv := (Inv c tried_bucket bucket_pos routable network).
  Notation info_ok := (info_ok routable).

  Notation OPS l := (l c tried_bucket new_bucket bucket_pos routable network H_NB H_MAXREF H_nb) (only parsing).

  (* ---------- AddSingle ---------- *)
  Lemma add_insert_ok s1 id p X1 b :
    GInv [] X1 s1 -> s_idcount s1 <= IDLIM -> zfind id (s_info s1) = Some p -> a_tried p = false -> a_ref p + 1 <= c_MAXREF c ->
    0 <= b < c_NB c -> sfind (b, bucket_pos true b (a_key p)) (s_new s1) <> Some id -> (forall x, In x X1 -> x = id) ->
    exists s', add_insert network s1 id (b, bucket_pos true b (a_key p)) = Ok (s', true) /\ Inv s' /\ s_idcount s' = s_idcount s1.
  Proof.
    intros G LIM F NT MX RB NS HX1. set (us := (b, bucket_pos true b (a_key p))) in *. unfold add_insert.
    destruct (OPS clear_new_ok [] X1 s1 us G LIM) as (s2 & CN & G2 & FS & FO & FI & FN & e1 & e2 & e3 & e4 & e5 & OCC).
    { intros j _ []. }
    rewrite CN. cbn [bind]. destruct (FI _ _ F NS) as (r & F2). rewrite F2.
    pose proof (OPS new_insert_ok [] X1 s2 b id (set_rpos r p) G2 F2 NT RB) as NI.
    cbn [a_key a_ref set_rpos] in NI. fold us in NI. specialize (NI FS MX []).
    eexists. split; [reflexivity|]. split; [|simpl; auto].
    apply NI. intros x I. left. auto.
  Qed.

  Lemma add_place_ok s1 id p k src now X1 :
    GInv [] X1 s1 -> s_idcount s1 <= IDLIM -> zfind id (s_info s1) = Some p -> a_key p = k -> a_tried p = false ->
    a_ref p + 1 <= c_MAXREF c -> (X1 = [] \/ (X1 = [id] /\ a_ref p = 0)) ->
    exists s' b, add_place c new_bucket bucket_pos network s1 id k src now = Ok (s', b) /\ Inv s' /\ s_idcount s' = s_idcount s1.
  Proof.
    intros G LIM F K NT MX HX1. pose proof G as (HA & HR & HC & HX). unfold add_place. rewrite F.
    assert (XID : forall x, In x X1 -> x = id) by (destruct HX1 as [->|[-> _]]; simpl; intros x []; auto; tauto).
    assert (RB : 0 <= new_bucket k src < c_NB c) by apply H_nb.
    assert (US : nslot k src = (new_bucket k src, bucket_pos true (new_bucket k src) (a_key p))) by (rewrite K; reflexivity).
    destruct (sfind (nslot k src) (s_new s1)) as [cur|] eqn:FS.
    - zeq cur id.
      + subst cur. exists s1, false. split; [reflexivity|]. split; [|reflexivity].
        destruct HX1 as [->|[-> R0]]; [exact G|]. exfalso. apply find_refs_pos in FS. destruct (S_ref _ _ _ _ _ HA _ _ F). lia.
      + assert (exists ex, zfind cur (s_info s1) = Some ex) as (ex & FE).
        { destruct (nslot k src) as [b0 p0]. destruct (S_new _ _ _ _ _ HA _ _ _ FS) as (a0 & A0 & _). eauto. }
        rewrite FE. destruct (is_terrible c now ex || (a_ref ex >? 1) && (a_ref p =? 0)).
        * rewrite US in *. destruct (add_insert_ok s1 id p X1 (new_bucket k src) G LIM F NT MX RB) as (s' & AI & I' & e); auto.
          { rewrite FS. congruence. }
          exists s', true. auto.
        * zeq (a_ref p) 0.
          -- destruct (OPS delete_ok [] X1 s1 id p G LIM F NT E0) as (s' & D & GD & _ & _ & _ & e1 & _); [intros []|].
             rewrite D. cbn [bind]. exists s', false. split; [reflexivity|]. split; [|auto].
             apply GD. intros x I. left. auto.
          -- exists s1, false. split; [reflexivity|]. split; [|reflexivity].
             destruct HX1 as [->|[-> R0]]; [exact G | contradiction].
    - rewrite US in *. destruct (add_insert_ok s1 id p X1 (new_bucket k src) G LIM F NT MX RB) as (s' & AI & I' & e); auto.
      { rewrite FS. discriminate. }
      exists s', true. auto.
  Qed.

  Definition add_args_ok (time penalty : Z) : Prop := 0 <= time < 4294967296 /\ 0 <= penalty.

  Lemma add_single_ok s k time services src penalty now draw :
    Inv s -> s_idcount s < IDLIM -> add_args_ok time penalty ->
    exists s' b, add_single c new_bucket bucket_pos routable network addr_of s k time services src penalty now draw = Ok (s', b) /\ Inv s' /\
                 s_idcount s <= s_idcount s' <= s_idcount s + 1.
  Proof.
    intros G LIM (TM & PN). pose proof G as (HA & HR & HC & HX). unfold add_single.
    destruct (routable k) eqn:RT; cbn [negb]; [|exists s, false; split; [reflexivity|]; split; [auto | lia]].
    set (pen := if addr_of k =? src then 0 else penalty).
    assert (PN' : 0 <= pen) by (unfold pen; destruct (addr_of k =? src); lia).
    assert (TM' : 0 <= Z.max 0 (time - pen) < 4294967296) by lia.
    destruct (find_addr s k) as [[id a]|] eqn:FA.
    - destruct (find_addr_some c tried_bucket bucket_pos routable s k id a HA FA) as (F & K).
      set (a1 := if a_time a <? time - (if now - time <? 86400 then 3600 else 86400) - pen then set_time (Z.max 0 (time - pen)) a else a).
      set (a2 := set_services (Z.lor (a_services a1) services) a1).
      assert (CORE : a_key a2 = a_key a /\ a_tried a2 = a_tried a /\ a_ref a2 = a_ref a /\ a_rpos a2 = a_rpos a).
      { unfold a2, a1. destruct (a_time a <? _); simpl; auto. }
      destruct CORE as (K2 & T2 & R2 & PP2).
      assert (OK2 : info_ok a2).
      { destruct (S_stats _ _ _ _ _ HA _ _ F) as (Q1 & Q2 & Q3 & Q4 & Q5). unfold a2, a1, AddrManInv.info_ok.
        destruct (a_time a <? _); simpl; repeat split; auto; lia. }
      pose proof (OPS G_upd [] [] s id a a2 F K2 T2 R2 PP2 OK2 G) as G1.
      set (s1 := set_info (zset id a2 (s_info s)) s) in *.
      assert (e1 : s_idcount s1 = s_idcount s) by reflexivity.
      destruct (time <=? a_time a2); [exists s1, false; split; [reflexivity|]; split; [auto | lia]|].
      destruct (a_tried a2) eqn:T2'; [exists s1, false; split; [reflexivity|]; split; [auto | lia]|].
      zeq (a_ref a2) (c_MAXREF c); [exists s1, false; split; [reflexivity|]; split; [auto | lia]|].
      destruct ((a_ref a2 >? 0) && negb (draw =? 0)); [exists s1, false; split; [reflexivity|]; split; [auto | lia]|].
      assert (F1 : zfind id (s_info s1) = Some a2) by (unfold s1; simpl; rewrite zfind_zset, Z.eqb_refl; auto).
      assert (P1 : s_idcount s1 <= IDLIM) by lia.
      assert (P2 : a_key a2 = k) by congruence.
      assert (P3 : a_ref a2 + 1 <= c_MAXREF c) by (destruct G1 as (A1 & _); destruct (S_ref _ _ _ _ _ A1 _ _ F1); lia).
      destruct (add_place_ok s1 id a2 k src now [] G1 P1 F1 P2 T2' P3 (or_introl eq_refl)) as (s' & b & AP & I' & e).
      exists s', b. split; [exact AP|]. split; [auto | lia].
    - destruct (create network s k src (Z.max 0 (time - pen)) services) as [s1 id] eqn:CR.
      destruct (OPS create_ok [] s k src (Z.max 0 (time - pen)) services s1 id G LIM) as (EID & G1 & F1 & FO & e1 & e2 & e3 & e4 & e5); auto.
      { intros id0 a0 F0. eapply find_addr_none; eauto. }
      assert (P1 : s_idcount s1 <= IDLIM) by lia.
      assert (P3 : 0 + 1 <= c_MAXREF c) by lia.
      destruct (add_place_ok s1 id _ k src now [id] G1 P1 F1 eq_refl eq_refl P3 (or_intror (conj eq_refl eq_refl))) as (s' & b & AP & I' & e).
      exists s', b. split; [exact AP|]. split; [auto | lia].
  Qed.

  (* ---------- frames for the fields the invariant does not read / reads alone ---------- *)
  Lemma G_last_good L X s t : GInv L X s -> GInv L X (set_last_good t s).
  Proof. intros (A & B & C & D). split; [|split; [|split]].
    - eapply (OPS SA_frame); [| | | | | | exact A]; reflexivity.
    - eapply (OPS SR_frame); [| | exact B]; reflexivity.
    - eapply (OPS Cnt_frame); [| | | | exact C]; reflexivity.
    - eapply (OPS R_frame); [| exact D]; reflexivity.
  Qed.
  Lemma G_coll L X s l : GInv L X s -> coll_ok c l -> GInv L X (set_coll l s).
  Proof. intros (A & B & C & D) OK. split; [|split; [|split]].
    - destruct A. constructor; auto.
    - eapply (OPS SR_frame); [| | exact B]; reflexivity.
    - eapply (OPS Cnt_frame); [| | | | exact C]; reflexivity.
    - eapply (OPS R_frame); [| exact D]; reflexivity.
  Qed.

  (* entries of s and s' agree on everything but the memory-only position in vRandom *)
  Definition same_entries (s s' : st) : Prop :=
    forall id0, match zfind id0 (s_info s), zfind id0 (s_info s') with
                | Some a0, Some a0' => same_stats a0 a0' /\ a_tried a0' = a_tried a0 /\ a_ref a0' = a_ref a0
                | None, None => True
                | _, _ => False
                end.

  (* ---------- Good_ ---------- *)
  Lemma good_ok s k tbe time :
    Inv s -> s_idcount s <= IDLIM -> 0 < time ->
    exists s' b, good c tried_bucket new_bucket bucket_pos network s k tbe time = Ok (s', b) /\ Inv s' /\ s_idcount s' = s_idcount s /\
      s_last_good s' = time /\
      (s_coll s' = s_coll s \/
       (tbe = true /\ b = false /\ exists id a o, find_addr s k = Some (id, a) /\ a_tried a = false /\
          sfind (tslot k) (s_tried s) = Some o /\ s_coll s' = set_insert id (s_coll s))) /\
      match find_addr s k with
      | None => b = false /\ s' = set_last_good time s
      | Some (id, a) =>
        let a1 := set_attempts 0 (set_last_try time (set_last_success time a)) in
        if b then
          a_tried a = false /\
          (exists r, zfind id (s_info s') = Some (set_rpos r (set_tried true (set_ref 0 a1)))) /\
          sfind (tslot k) (s_tried s') = Some id /\
          (forall sl, sl <> tslot k -> sfind sl (s_tried s') = sfind sl (s_tried s)) /\
          (forall id0 a0, id0 <> id -> zfind id0 (s_info s) = Some a0 ->
             (exists a0', zfind id0 (s_info s') = Some a0' /\ same_stats a0 a0' /\
                          (sfind (tslot k) (s_tried s) <> Some id0 -> a_tried a0' = a_tried a0 /\ a_ref a0' <= a_ref a0) /\
                          (sfind (tslot k) (s_tried s) = Some id0 -> a_tried a0' = false /\ a_ref a0' = 1))
             \/ (zfind id0 (s_info s') = None /\ a_tried a0 = false /\
                 exists idev old, sfind (tslot k) (s_tried s) = Some idev /\ zfind idev (s_info s) = Some old /\
                                  sfind (nslot (a_key old) (a_src old)) (s_new s) = Some id0)) /\
          (forall id0, zfind id0 (s_info s) = None -> zfind id0 (s_info s') = None)
        else
          s_info s' = zset id a1 (s_info s) /\ s_new s' = s_new s /\ s_tried s' = s_tried s /\
          (a_tried a = true \/ (tbe = true /\ exists o, sfind (tslot k) (s_tried s) = Some o))
      end.
  Proof.
    intros G LIM TP. unfold good.
    pose proof (G_last_good [] [] s time G) as G0. set (s0 := set_last_good time s) in *.
    assert (FA0 : find_addr s0 k = find_addr s k) by reflexivity. rewrite FA0.
    destruct (find_addr s k) as [[id a]|] eqn:FA.
    2:{ exists s0, false. split; [reflexivity|]. split; [auto|]. split; [reflexivity|]. split; [reflexivity|]. split; [left; reflexivity|]. auto. }
    pose proof G0 as (HA & HR & HC & HX).
    destruct (find_addr_some c tried_bucket bucket_pos routable s0 k id a HA FA0) as (F & K).
    set (a1 := set_attempts 0 (set_last_try time (set_last_success time a))).
    assert (OK1 : info_ok a1).
    { destruct (S_stats _ _ _ _ _ HA _ _ F) as (Q1 & Q2 & Q3 & Q4 & Q5). unfold a1, AddrManInv.info_ok. simpl. repeat split; auto; lia. }
    pose proof (OPS G_upd [] [] s0 id a a1 F eq_refl eq_refl eq_refl eq_refl OK1 G0) as G1.
    set (s1 := set_info (zset id a1 (s_info s0)) s0) in *.
    assert (F1 : zfind id (s_info s1) = Some a1) by (unfold s1; simpl; rewrite zfind_zset, Z.eqb_refl; auto).
    change (a_tried a1) with (a_tried a). change (a_ref a1) with (a_ref a). change (a_key a1) with (a_key a). rewrite K.
    destruct (a_tried a) eqn:T.
    { exists s1, false. split; [reflexivity|]. split; [auto|]. split; [reflexivity|]. split; [reflexivity|]. split; [left; reflexivity|]. simpl. auto 10. }
    assert (RP : 1 <= a_ref a) by (apply (HX id a F T); intros []).
    replace (a_ref a >? 0) with true by (symmetry; apply Z.gtb_lt; lia). cbn [negb].
    assert (MT : exists s' , make_tried c tried_bucket new_bucket bucket_pos network s1 id = Ok s' /\ Inv s' /\ s_idcount s' = s_idcount s /\ s_last_good s' = time /\
               s_coll s' = s_coll s /\ a_tried a = false /\
               (exists r, zfind id (s_info s') = Some (set_rpos r (set_tried true (set_ref 0 a1)))) /\
               sfind (tslot k) (s_tried s') = Some id /\
               (forall sl, sl <> tslot k -> sfind sl (s_tried s') = sfind sl (s_tried s)) /\
               (forall id0 a0, id0 <> id -> zfind id0 (s_info s) = Some a0 ->
                  (exists a0', zfind id0 (s_info s') = Some a0' /\ same_stats a0 a0' /\
                               (sfind (tslot k) (s_tried s) <> Some id0 -> a_tried a0' = a_tried a0 /\ a_ref a0' <= a_ref a0) /\
                               (sfind (tslot k) (s_tried s) = Some id0 -> a_tried a0' = false /\ a_ref a0' = 1))
                  \/ (zfind id0 (s_info s') = None /\ a_tried a0 = false /\
                      exists idev old, sfind (tslot k) (s_tried s) = Some idev /\ zfind idev (s_info s) = Some old /\
                                       sfind (nslot (a_key old) (a_src old)) (s_new s) = Some id0)) /\
               (forall id0, zfind id0 (s_info s) = None -> zfind id0 (s_info s') = None)).
    { destruct (OPS make_tried_ok s1 id a1 G1 LIM F1 T) as (s' & M & I' & FI & FT & TO & OTH & FN & e1 & e2 & e3).
      { simpl. lia. }
      change (a_key a1) with (a_key a) in *. rewrite K in *.
      exists s'. split; [exact M|]. split; [auto|]. split; [rewrite e1; reflexivity|]. split; [rewrite e3; reflexivity|].
      split; [rewrite e2; reflexivity|]. split; [auto|]. split; [auto|]. split; [auto|]. split; [exact TO|]. split.
      - intros id0 a0 N0 F0. assert (F01 : zfind id0 (s_info s1) = Some a0) by (unfold s1; simpl; rewrite zfind_zset, (proj2 (Z.eqb_neq id id0)) by auto; auto).
        destruct (OTH id0 a0 N0 F01) as [Q|(Q1 & Q2 & idev & old & Q3 & Q4 & Q5)]; [left; exact Q|].
        right. split; [auto|]. split; [auto|]. exists idev.
        assert (NEI : idev <> id).
        { intros E. subst idev. destruct G1 as (A1 & _). destruct (S_tried1 _ _ _ _ _ A1 _ _ Q3) as (x & X1 & X2 & _). rewrite F1 in X1. injection X1 as <-. simpl in X2. congruence. }
        unfold s1 in Q4; simpl in Q4. rewrite zfind_zset, (proj2 (Z.eqb_neq id idev)) in Q4 by auto. exists old. auto.
      - intros id0 F0. apply FN. unfold s1; simpl. rewrite zfind_zset. destruct (id =? id0) eqn:E; [apply Z.eqb_eq in E; subst; simpl in F; congruence | auto]. }
    change (s_tried s1) with (s_tried s). change (s_coll s1) with (s_coll s).
    destruct (sfind (tslot k) (s_tried s)) as [o|] eqn:FT.
    - destruct tbe.
      + eexists _, false. split; [reflexivity|]. split; [|split; [|split; [|split]]].
        * destruct (zlen (s_coll s) <? c_COLL c) eqn:LC; [|exact G1]. apply Z.ltb_lt in LC.
          apply G_coll; auto. destruct G1 as (A1 & _). destruct (S_coll _ _ _ _ _ A1) as [Q1 Q2]. simpl in Q1, Q2.
          split; [apply set_insert_sorted; auto|]. pose proof (set_insert_len id (s_coll s)). lia.
        * destruct (zlen (s_coll s) <? c_COLL c); reflexivity.
        * destruct (zlen (s_coll s) <? c_COLL c); reflexivity.
        * destruct (zlen (s_coll s) <? c_COLL c); [right | left; reflexivity].
          split; [auto|]. split; [auto|]. exists id, a, o. auto 10.
        * destruct (zlen (s_coll s) <? c_COLL c); simpl; eauto 10.
      + destruct MT as (s' & M & Q). rewrite M. cbn [bind]. exists s', true. split; [reflexivity|]. tauto.
    - destruct MT as (s' & M & Q). rewrite M. cbn [bind]. exists s', true. split; [reflexivity|]. tauto.
  Qed.

  (* ---------- Attempt_, Connected_, SetServices_ ---------- *)
  Lemma attempt_ok s k cf time : Inv s -> 0 <= time -> Inv (attempt s k cf time) /\ s_idcount (attempt s k cf time) = s_idcount s.
  Proof.
    intros G TP. unfold attempt. destruct (find_addr s k) as [[id a]|] eqn:FA; [|auto].
    pose proof G as (HA & _). destruct (find_addr_some c tried_bucket bucket_pos routable s k id a HA FA) as (F & K).
    split; [|reflexivity]. apply (OPS G_upd [] [] s id a); auto;
      try (destruct (cf && (a_last_count (set_last_try time a) <? s_last_good s)); reflexivity).
    destruct (S_stats _ _ _ _ _ HA _ _ F) as (Q1 & Q2 & Q3 & Q4 & Q5).
    destruct (cf && (a_last_count (set_last_try time a) <? s_last_good s)); unfold AddrManInv.info_ok; simpl; repeat split; auto; lia.
  Qed.
  Lemma connected_ok s k time : Inv s -> 0 <= time < 4294967296 -> Inv (connected s k time) /\ s_idcount (connected s k time) = s_idcount s.
  Proof.
    intros G TP. unfold connected. destruct (find_addr s k) as [[id a]|] eqn:FA; [|auto].
    pose proof G as (HA & _). destruct (find_addr_some c tried_bucket bucket_pos routable s k id a HA FA) as (F & K).
    destruct (time - a_time a >? 1200); [|auto]. split; [|reflexivity]. apply (OPS G_upd [] [] s id a); auto.
    destruct (S_stats _ _ _ _ _ HA _ _ F) as (Q1 & Q2 & Q3 & Q4 & Q5). unfold AddrManInv.info_ok; simpl; repeat split; auto; lia.
  Qed.
  Lemma set_services_ok s k sv : Inv s -> Inv (set_services_op s k sv) /\ s_idcount (set_services_op s k sv) = s_idcount s.
  Proof.
    intros G. unfold set_services_op. destruct (find_addr s k) as [[id a]|] eqn:FA; [|auto].
    pose proof G as (HA & _). destruct (find_addr_some c tried_bucket bucket_pos routable s k id a HA FA) as (F & K).
    split; [|reflexivity]. apply (OPS G_upd [] [] s id a); auto. apply (S_stats _ _ _ _ _ HA _ _ F).
  Qed.

  (* ---------- frames used for the pending-collision invariant ---------- *)
  Definition occ_mono (s s' : st) : Prop := forall sl o, sfind sl (s_tried s) = Some o -> exists o', sfind sl (s_tried s') = Some o'.
  Definition kback (s s' : st) : Prop :=
    forall id0 a', zfind id0 (s_info s') = Some a' -> exists a0, zfind id0 (s_info s) = Some a0 /\ a_key a0 = a_key a'.
  (* a pending collision whose entry still exists points at an occupied tried slot *)
  Definition CollInv (s : st) : Prop :=
    forall id a, In id (s_coll s) -> zfind id (s_info s) = Some a -> exists o, sfind (tslot (a_key a)) (s_tried s) = Some o.

  Lemma occ_mono_refl s : occ_mono s s. Proof. intros sl o H. eauto. Qed.
  Lemma kback_refl s : kback s s. Proof. intros id a H. eauto. Qed.
  Lemma occ_mono_trans a b d : occ_mono a b -> occ_mono b d -> occ_mono a d.
  Proof. intros H1 H2 sl o Q. destruct (H1 _ _ Q) as (o' & Q'). eauto. Qed.
  Lemma kback_trans a b d : kback a b -> kback b d -> kback a d.
  Proof. intros H1 H2 id x Q. destruct (H2 _ _ Q) as (y & Q1 & Q2). destruct (H1 _ _ Q1) as (z & Q3 & Q4). exists z. split; auto. congruence. Qed.

  Lemma good_frames s k tbe time s' b :
    Inv s -> s_idcount s <= IDLIM -> 0 < time ->
    good c tried_bucket new_bucket bucket_pos network s k tbe time = Ok (s', b) -> occ_mono s s' /\ kback s s'.
  Proof.
    intros G LIM TP GD. destruct (good_ok s k tbe time G LIM TP) as (s'' & b'' & GD' & I' & e1 & e2 & e3 & EFF).
    rewrite GD in GD'. injection GD' as <- <-.
    destruct (find_addr s k) as [[id a]|] eqn:FA.
    - pose proof G as (HA & _). destruct (find_addr_some c tried_bucket bucket_pos routable s k id a HA FA) as (F & K).
      destruct b.
      + destruct EFF as (NT & (r & FI) & FT & TO & OTH & FN). split.
        * intros sl o Q. destruct (sloteqb (tslot k) sl) eqn:E; [apply sloteqb_true in E; subst sl; eauto|].
          rewrite TO; [eauto|]. intros E2. subst sl. rewrite sloteqb_refl in E. discriminate.
        * intros id0 a' Q. destruct (zfind id0 (s_info s)) as [a0|] eqn:F0; [|rewrite (FN _ F0) in Q; discriminate].
          exists a0. split; auto. destruct (id =? id0) eqn:E; [apply Z.eqb_eq in E; subst id0|apply Z.eqb_neq in E].
          -- rewrite FI in Q. injection Q as <-. rewrite F in F0. injection F0 as <-. reflexivity.
          -- destruct (OTH id0 a0 (not_eq_sym E) F0) as [(a0' & Q1 & Q2 & _)|(Q1 & _)]; [|congruence].
             rewrite Q in Q1. injection Q1 as <-. destruct Q2 as (Q2 & _). auto.
      + destruct EFF as (EI & EN & ET & _). split.
        * intros sl o Q. rewrite ET. eauto.
        * intros id0 a' Q. rewrite EI, zfind_zset in Q. destruct (id =? id0) eqn:E; [apply Z.eqb_eq in E; subst id0|eauto].
          injection Q as <-. exists a. auto.
    - destruct EFF as (-> & ->). split; [intros sl o Q; simpl; eauto | intros id0 a' Q; simpl in Q; eauto].
  Qed.

  (* ---------- ResolveCollisions_ ---------- *)
  Lemma resolve_one_ok s idn now :
    Inv s -> s_idcount s <= IDLIM -> 0 < now ->
    (forall a, zfind idn (s_info s) = Some a -> exists o, sfind (tslot (a_key a)) (s_tried s) = Some o) ->
    exists s' e, resolve_one c tried_bucket new_bucket bucket_pos valid network s idn now = Ok (s', e) /\ Inv s' /\
      s_idcount s' = s_idcount s /\ s_coll s' = s_coll s /\ occ_mono s s' /\ kback s s'.
  Proof.
    intros G LIM TP CI. unfold resolve_one.
    assert (SAME : exists s' e, Ok (s, true) = Ok (s', e) /\ Inv s' /\ s_idcount s' = s_idcount s /\ s_coll s' = s_coll s /\ occ_mono s s' /\ kback s s').
    { exists s, true. split; [reflexivity|]. split; [auto|]. split; [auto|]. split; [auto|]. split; [apply occ_mono_refl | apply kback_refl]. }
    assert (SAMEF : exists s' e, Ok (s, false) = Ok (s', e) /\ Inv s' /\ s_idcount s' = s_idcount s /\ s_coll s' = s_coll s /\ occ_mono s s' /\ kback s s').
    { exists s, false. split; [reflexivity|]. split; [auto|]. split; [auto|]. split; [auto|]. split; [apply occ_mono_refl | apply kback_refl]. }
    assert (GOOD : forall k, exists s' e, (do (s1, _) <- good c tried_bucket new_bucket bucket_pos network s k false now; Ok (s1, true)) = Ok (s', e) /\ Inv s' /\
                     s_idcount s' = s_idcount s /\ s_coll s' = s_coll s /\ occ_mono s s' /\ kback s s').
    { intros k. destruct (good_ok s k false now G LIM TP) as (s' & b & GD & I' & e1 & e2 & e3 & _).
      assert (e3' : s_coll s' = s_coll s) by (destruct e3 as [e3|(e3 & _)]; [auto | discriminate]).
      destruct (good_frames s k false now s' b G LIM TP GD) as (O & KB).
      rewrite GD. cbn [bind]. exists s', true. split; [reflexivity|]. auto 10. }
    destruct (zfind idn (s_info s)) as [inew|] eqn:FN; [|exact SAME].
    destruct (valid (a_key inew)); cbn [negb]; [|exact SAME].
    destruct (CI _ eq_refl) as (o & FO). rewrite FO.
    pose proof G as (HA & _). destruct (S_tried1 _ _ _ _ _ HA _ _ FO) as (iold & FI & _). rewrite FI.
    destruct (now - a_last_success iold <? c_REPLACEMENT c); [exact SAME|].
    destruct (now - a_last_try iold <? c_REPLACEMENT c).
    - destruct (now - a_last_try iold >? 60); [apply GOOD | exact SAMEF].
    - destruct (now - a_last_success inew >? c_TESTWIN c); [apply GOOD | exact SAMEF].
  Qed.

  Lemma coll_ok_remove l x : coll_ok c l -> coll_ok c (set_remove x l).
  Proof. intros [A B]. split; [apply set_remove_sorted; auto|]. pose proof (set_remove_len x l). lia. Qed.

  Lemma resolve_loop_ok ids s now :
    Inv s -> s_idcount s <= IDLIM -> 0 < now ->
    (forall id a, In id ids \/ In id (s_coll s) -> zfind id (s_info s) = Some a -> exists o, sfind (tslot (a_key a)) (s_tried s) = Some o) ->
    exists s', resolve_loop c tried_bucket new_bucket bucket_pos valid network ids s now = Ok s' /\ Inv s' /\ CollInv s' /\
      s_idcount s' = s_idcount s /\ (forall x, In x (s_coll s') -> In x (s_coll s)).
  Proof.
    revert s. induction ids as [|idn r IH]; intros s G LIM TP CI.
    - exists s. split; [reflexivity|]. split; [auto|]. split; [intros id a I F; apply (CI id a); auto|]. auto.
    - cbn [resolve_loop].
      destruct (resolve_one_ok s idn now G LIM TP) as (s1 & e & RO & I1 & e1 & e2 & OM & KB).
      { intros a F. apply (CI idn a); simpl; auto. }
      rewrite RO. cbn [bind].
      set (s1' := if e then set_coll (set_remove idn (s_coll s1)) s1 else s1).
      assert (I1' : Inv s1').
      { unfold s1'. destruct e; auto. apply G_coll; auto. apply coll_ok_remove. destruct I1 as (A1 & _). apply (S_coll _ _ _ _ _ A1). }
      assert (SUB : forall x, In x (s_coll s1') -> In x (s_coll s)).
      { unfold s1'. destruct e; simpl; rewrite <- e2; auto. intros x I. eapply set_remove_In; eauto. }
      assert (EI : s_info s1' = s_info s1 /\ s_tried s1' = s_tried s1 /\ s_idcount s1' = s_idcount s1) by (unfold s1'; destruct e; auto).
      destruct EI as (EI1 & EI2 & EI3).
      destruct (IH s1' I1') as (s' & RL & I' & CI' & e3 & SUB').
      + rewrite EI3, e1. auto.
      + auto.
      + intros id a I F. rewrite EI1 in F. rewrite EI2. destruct (KB _ _ F) as (a0 & F0 & K0).
        assert (exists o, sfind (tslot (a_key a0)) (s_tried s) = Some o) as (o & FO).
        { apply (CI id a0); auto. destruct I as [I|I]; [left; right; auto | right; auto]. }
        rewrite <- K0. apply (OM _ _ FO).
      + exists s'. split; [exact RL|]. split; [auto|]. split; [auto|]. split; [rewrite e3, EI3, e1; auto|]. auto.
  Qed.

  Lemma resolve_collisions_ok s now :
    Inv s -> CollInv s -> s_idcount s <= IDLIM -> 0 < now ->
    exists s', resolve_collisions c tried_bucket new_bucket bucket_pos valid network s now = Ok s' /\ Inv s' /\ CollInv s' /\ s_idcount s' = s_idcount s /\
      (forall x, In x (s_coll s') -> In x (s_coll s)).
  Proof.
    intros G CI LIM TP. unfold resolve_collisions.
    destruct (resolve_loop_ok (s_coll s) s now G LIM TP) as (s' & RL & I' & CI' & e & SUB).
    { intros id a [I|I] F; apply (CI id a); auto. }
    exists s'. auto.
  Qed.

  (* ---------- SelectTriedCollision_ ---------- *)
  Lemma select_tried_collision_ok s draw :
    Inv s -> CollInv s ->
    exists s' r, select_tried_collision tried_bucket bucket_pos s draw = Ok (s', r) /\ Inv s' /\ CollInv s' /\ s_idcount s' = s_idcount s /\
      (forall x, In x (s_coll s') -> In x (s_coll s)).
  Proof.
    intros G CI. unfold select_tried_collision.
    destruct (s_coll s) as [|x l] eqn:EC; [exists s, None; rewrite EC; auto 10|]. rewrite <- EC.
    destruct (znth draw (s_coll s)) as [idn|] eqn:ZN; [|exists s, None; auto 10].
    assert (IN : In idn (s_coll s)).
    { unfold znth in ZN. destruct (draw <? 0); [discriminate|]. eapply nth_error_In; eauto. }
    destruct (zfind idn (s_info s)) as [inew|] eqn:FN.
    - destruct (CI _ _ IN FN) as (o & FO). rewrite FO.
      pose proof G as (HA & _). destruct (S_tried1 _ _ _ _ _ HA _ _ FO) as (iold & FI & _). rewrite FI.
      eexists s, _. split; [reflexivity|]. auto 10.
    - eexists _, None. split; [reflexivity|]. split; [|split; [|split; [reflexivity | simpl; intros y I; eapply set_remove_In; eauto]]].
      + apply G_coll; auto. apply coll_ok_remove. destruct G as (A1 & _). apply (S_coll _ _ _ _ _ A1).
      + intros id a I F. simpl in *. apply (CI id a); auto. eapply set_remove_In; eauto.
  Qed.

  (* ---------- GetAddr_ ---------- *)
  Lemma getaddr_loop_ok fuel : forall n draws s nnodes net filtered now acc,
    Inv s -> 0 <= n -> Z.of_nat fuel + n <= zlen (s_random s) ->
    (forall i d, nth_error draws i = Some d -> 0 <= d < zlen (s_random s) - (n + Z.of_nat i)) ->
    exists s' l, getaddr_loop c netclass fuel n draws s nnodes net filtered now acc = Ok (s', l) /\ Inv s' /\ same_fields s s' /\ kback s s'.
  Proof.
    induction fuel as [|fuel IH]; intros n draws s nnodes net filtered now acc G N0 FU DR.
    - exists s, (rev acc). split; [reflexivity|]. split; [auto|]. split; [unfold same_fields; tauto | apply kback_refl].
    - cbn [getaddr_loop].
      destruct (zlen acc >=? nnodes); [exists s, (rev acc); split; [reflexivity|]; split; [auto|]; split; [unfold same_fields; tauto | apply kback_refl]|].
      destruct draws as [|d draws']; [exists s, (rev acc); split; [reflexivity|]; split; [auto|]; split; [unfold same_fields; tauto | apply kback_refl]|].
      pose proof (DR 0%nat d eq_refl) as D0. simpl in D0.
      destruct (OPS swap_random_ok [] [] s n (d + n) G) as (s1 & SW & G1 & SF & LN & Z2 & Z1 & Z3 & FI & FN); [lia | lia |].
      rewrite SW. cbn [bind].
      assert (RG : 0 <= n < zlen (s_random s1)) by lia.
      destruct (znth_range n _ RG) as (id & ZN). rewrite ZN.
      destruct G1 as (A1 & R1 & C1 & X1). destruct (S_rand2 _ R1 _ _ ZN) as (a & F & _). rewrite F.
      assert (I1 : Inv s1) by (split; [|split; [|split]]; auto).
      assert (P1 : 0 <= n + 1) by lia.
      assert (P2 : Z.of_nat fuel + (n + 1) <= zlen (s_random s1)) by lia.
      assert (P3 : forall i d', nth_error draws' i = Some d' -> 0 <= d' < zlen (s_random s1) - (n + 1 + Z.of_nat i)).
      { intros i d' Q. pose proof (DR (S i) d' Q) as Q2. lia. }
      destruct (IH (n + 1) draws' s1 nnodes net filtered now
                   (if (0 <=? net) && negb (netclass (a_key a) =? net) || is_terrible c now a && filtered then acc else a_key a :: acc)
                   I1 P1 P2 P3) as (s' & l & GL & I' & SF' & KB').
      clear IH.
      assert (DONE : True) by exact I.
      exists s', l. split; [exact GL|]. split; [auto|]. split.
        * unfold same_fields in *. destruct SF as (f1 & f2 & f3 & f4 & f5 & f6 & f7 & f8 & f9).
          destruct SF' as (g1 & g2 & g3 & g4 & g5 & g6 & g7 & g8 & g9). repeat split; congruence.
        * apply (kback_trans s s1 s'); auto. intros id0 a' Q.
          destruct (zfind id0 (s_info s)) as [a0|] eqn:F0; [|rewrite (FN _ F0) in Q; discriminate].
          exists a0. split; auto. destruct (FI _ _ F0) as (r & Q2). rewrite Q in Q2. injection Q2 as ->. reflexivity.
  Qed.

  Definition draws_ok (len : Z) (draws : list Z) : Prop := forall i d, nth_error draws i = Some d -> 0 <= d < len - Z.of_nat i.

  Lemma getaddr_ok s maxa pct net filtered now draws :
    Inv s -> draws_ok (zlen (s_random s)) draws ->
    exists s' l, getaddr c netclass s maxa pct net filtered now draws = Ok (s', l) /\ Inv s' /\ same_fields s s' /\ kback s s'.
  Proof.
    intros G DR. unfold getaddr.
    apply getaddr_loop_ok; [exact G | lia | unfold zlen; lia | intros i d Q; specialize (DR i d Q); lia].
  Qed.
End Steps.
