From Coq Require Import ZifyBool.
From BV Require Import lib.Ints model.Pow proofs.PowLemmas model.ChainNav.
Local Open Scope Z_scope.

(* ------------------------------------------------------------------------------------------ *)
(* GetSkipHeight                                                                               *)

Lemma land_le_r a b : 0 <= a -> 0 <= b -> Z.land a b <= b.
Proof.
  intros Ha Hb.
  assert (E : b = Z.ldiff b a + Z.land b a).
  { rewrite <- (Z.lor_ldiff_and b a) at 1.
    assert (D : Z.land (Z.ldiff b a) (Z.land b a) = 0).
    { apply Z.bits_inj'. intros n Hn. rewrite !Z.land_spec, Z.ldiff_spec, Z.bits_0.
      destruct (Z.testbit b n), (Z.testbit a n); reflexivity. }
    rewrite <- Z.lxor_lor by exact D. symmetry. apply Z.add_nocarry_lxor. exact D. }
  assert (0 <= Z.ldiff b a) by (apply Z.ldiff_nonneg; left; exact Hb).
  rewrite Z.land_comm. lia.
Qed.

Lemma ilo_bounds n : 1 <= n -> 0 <= invert_lowest_one n < n.
Proof.
  intros Hn. unfold invert_lowest_one. split.
  - apply Z.land_nonneg. left. lia.
  - pose proof (land_le_r n (n - 1) ltac:(lia) ltac:(lia)). lia.
Qed.

Lemma skip_height_small h : h < 2 -> get_skip_height h = 0.
Proof. intros H. unfold get_skip_height. replace (h <? 2) with true by lia. reflexivity. Qed.

(* the skip pointer always points strictly down, never below genesis *)
Lemma skip_height_bounds h : 1 <= h -> 0 <= get_skip_height h < h.
Proof.
  intros Hh. unfold get_skip_height. destruct (h <? 2) eqn:E2; [lia|].
  destruct (negb (Z.land h 1 =? 0)).
  - pose proof (ilo_bounds (h - 1) ltac:(lia)) as B1.
    destruct (Z.eq_dec (invert_lowest_one (h - 1)) 0) as [E0|N0].
    + rewrite E0. change (invert_lowest_one 0) with 0. lia.
    + pose proof (ilo_bounds (invert_lowest_one (h - 1)) ltac:(lia)). lia.
  - pose proof (ilo_bounds h ltac:(lia)). lia.
Qed.

(* ------------------------------------------------------------------------------------------ *)
(* well-formed trees and the naive parent walk                                                 *)

Definition wf_node (t : tree) (i : nat) (nd : node) : Prop :=
  0 <= nd_height nd /\
  match nd_parent nd with
  | None => nd_height nd = 0 /\ nd_skip nd = None
  | Some p => (p < i)%nat /\ exists pn, get_node t p = Some pn /\ nd_height nd = nd_height pn + 1 /\
              nd_skip nd = ancestor_spec t p (get_skip_height (nd_height nd))
  end.
Definition wf_tree (t : tree) : Prop := forall i nd, get_node t i = Some nd -> wf_node t i nd.

Lemma get_node_lt t i nd : get_node t i = Some nd -> (i < length t)%nat.
Proof. unfold get_node. intros H. apply nth_error_Some. congruence. Qed.

Lemma walk_up_add t : forall k1 b k2,
  walk_up t b (k1 + k2) = match walk_up t b k1 with Some a => walk_up t a k2 | None => None end.
Proof.
  induction k1 as [|k1 IH]; intros b k2; [reflexivity|].
  cbn [walk_up Nat.add]. destruct (get_node t b) as [nd|]; [|reflexivity].
  destruct (nd_parent nd) as [p|]; [apply IH|reflexivity].
Qed.

Lemma walk_up_height t : wf_tree t -> forall k b nd, get_node t b = Some nd ->
  Z.of_nat k <= nd_height nd ->
  exists a na, walk_up t b k = Some a /\ get_node t a = Some na /\ nd_height na = nd_height nd - Z.of_nat k
               /\ (a <= b)%nat.
Proof.
  intros Hwf. induction k as [|k IH]; intros b nd Hb Hk.
  - exists b, nd. cbn [walk_up]. repeat split; try assumption; lia.
  - cbn [walk_up]. rewrite Hb. destruct (Hwf b nd Hb) as [H0 Hp].
    destruct (nd_parent nd) as [p|].
    + destruct Hp as (Hlt & pn & Hpn & Hh & _).
      destruct (IH p pn Hpn ltac:(lia)) as (a & na & Ha & Hna & Hha & Hle).
      exists a, na. repeat split; try assumption; lia.
    + destruct Hp as [E0 _]. lia.
Qed.

Lemma ancestor_spec_some t : wf_tree t -> forall b nd h, get_node t b = Some nd -> 0 <= h <= nd_height nd ->
  exists a na, ancestor_spec t b h = Some a /\ get_node t a = Some na /\ nd_height na = h /\ (a <= b)%nat.
Proof.
  intros Hwf b nd h Hb Hh. unfold ancestor_spec. rewrite Hb.
  replace ((0 <=? h) && (h <=? nd_height nd)) with true by lia.
  destruct (walk_up_height t Hwf (Z.to_nat (nd_height nd - h)) b nd Hb ltac:(lia)) as (a & na & Ha & Hna & Hha & Hle).
  exists a, na. repeat split; try assumption; lia.
Qed.

Lemma ancestor_spec_self t b nd : get_node t b = Some nd -> 0 <= nd_height nd -> ancestor_spec t b (nd_height nd) = Some b.
Proof.
  intros Hb H0. unfold ancestor_spec. rewrite Hb. replace (_ && _) with true by lia.
  replace (nd_height nd - nd_height nd) with 0 by lia. reflexivity.
Qed.

(* ancestors of ancestors are ancestors *)
Lemma ancestor_spec_trans t : wf_tree t -> forall b nd h1 a h2, get_node t b = Some nd ->
  ancestor_spec t b h1 = Some a -> 0 <= h2 <= h1 -> ancestor_spec t a h2 = ancestor_spec t b h2.
Proof.
  intros Hwf b nd h1 a h2 Hb Ha Hh.
  assert (Hr : 0 <= h1 <= nd_height nd).
  { unfold ancestor_spec in Ha. rewrite Hb in Ha. destruct (_ && _) eqn:E in Ha; [lia|discriminate]. }
  destruct (ancestor_spec_some t Hwf b nd h1 Hb Hr) as (a' & na & Ha' & Hna & Hha & _).
  rewrite Ha in Ha'. injection Ha' as <-.
  unfold ancestor_spec in *. rewrite Hb in *. rewrite Hna, Hha.
  replace ((0 <=? h1) && (h1 <=? nd_height nd)) with true in Ha by lia.
  replace ((0 <=? h2) && (h2 <=? h1)) with true by lia.
  replace ((0 <=? h2) && (h2 <=? nd_height nd)) with true by lia.
  replace (Z.to_nat (nd_height nd - h2)) with (Z.to_nat (nd_height nd - h1) + Z.to_nat (h1 - h2))%nat by lia.
  rewrite walk_up_add, Ha. reflexivity.
Qed.

(* the ancestor of b at a height below b's own is the same ancestor of b's parent *)
Lemma ancestor_spec_parent t b nd p pn h : get_node t b = Some nd -> nd_parent nd = Some p ->
  get_node t p = Some pn -> nd_height nd = nd_height pn + 1 -> 0 <= h <= nd_height pn ->
  ancestor_spec t b h = ancestor_spec t p h.
Proof.
  intros Hb Hp Hpn Hh Hr. unfold ancestor_spec. rewrite Hb, Hpn.
  replace ((0 <=? h) && (h <=? nd_height nd)) with true by lia.
  replace ((0 <=? h) && (h <=? nd_height pn)) with true by lia.
  replace (Z.to_nat (nd_height nd - h)) with (S (Z.to_nat (nd_height pn - h))) by lia.
  cbn [walk_up]. rewrite Hb, Hp. reflexivity.
Qed.

(* ------------------------------------------------------------------------------------------ *)
(* GetAncestor computes the naive ancestor and terminates within nHeight+1 iterations          *)

Lemma get_ancestor_loop_correct t : wf_tree t -> forall fuel walk hw h nd,
  get_node t walk = Some nd -> nd_height nd = hw -> 0 <= h <= hw -> hw - h < Z.of_nat fuel ->
  exists a, ancestor_spec t walk h = Some a /\ get_ancestor_loop t fuel walk hw h = PBlock a.
Proof.
  intros Hwf. induction fuel as [|f IH]; intros walk hw h nd Hw Hhw Hh Hf; [lia|].
  cbn [get_ancestor_loop]. destruct (hw >? h) eqn:Egt.
  - rewrite Hw. destruct (Hwf walk nd Hw) as [H0 Hp].
    destruct (nd_parent nd) as [p|] eqn:Ep; [|destruct Hp; lia].
    destruct Hp as (Hlt & pn & Hpn & Hhp & Hskip).
    assert (Hprev : exists a, ancestor_spec t walk h = Some a /\ get_ancestor_loop t f p (hw - 1) h = PBlock a).
    { destruct (IH p (hw - 1) h pn Hpn ltac:(lia) ltac:(lia) ltac:(lia)) as (a & Ha & Hl).
      exists a. split; [|exact Hl].
      rewrite (ancestor_spec_parent t walk nd p pn h Hw Ep Hpn Hhp ltac:(lia)). exact Ha. }
    destruct (nd_skip nd) as [sk|] eqn:Esk; [|exact Hprev].
    destruct (_ || _) eqn:Econd; [|exact Hprev].
    pose proof (skip_height_bounds hw ltac:(lia)) as Hsb.
    rewrite Hhw in Hskip.
    destruct (ancestor_spec_some t Hwf p pn (get_skip_height hw) Hpn ltac:(lia)) as (s & ns & Hs & Hns & Hhs & _).
    rewrite Hs in Hskip. injection Hskip as ->.
    assert (Hge : h <= get_skip_height hw) by lia.
    destruct (IH s (get_skip_height hw) h ns Hns Hhs ltac:(lia) ltac:(lia)) as (a & Ha & Hl).
    exists a. split; [|exact Hl].
    rewrite <- Ha. symmetry.
    apply (ancestor_spec_trans t Hwf walk nd (get_skip_height hw) s h Hw); [|lia].
    rewrite (ancestor_spec_parent t walk nd p pn (get_skip_height hw) Hw Ep Hpn Hhp ltac:(lia)). exact Hs.
  - assert (hw = h) by lia. subst h. exists walk. split; [|reflexivity].
    rewrite <- Hhw. apply ancestor_spec_self; [exact Hw|lia].
Qed.

Lemma get_ancestor_correct t : wf_tree t -> forall b nd h, get_node t b = Some nd ->
  (0 <= h <= nd_height nd ->
   exists a na, get_ancestor t b h = PBlock a /\ ancestor_spec t b h = Some a /\
                get_node t a = Some na /\ nd_height na = h) /\
  (~ (0 <= h <= nd_height nd) -> get_ancestor t b h = PNull /\ ancestor_spec t b h = None).
Proof.
  intros Hwf b nd h Hb. unfold get_ancestor. rewrite Hb. split; intros Hh.
  - replace ((h >? nd_height nd) || (h <? 0)) with false by lia.
    destruct (get_ancestor_loop_correct t Hwf (S (Z.to_nat (nd_height nd))) b (nd_height nd) h nd Hb eq_refl Hh ltac:(lia))
      as (a & Ha & Hl).
    destruct (ancestor_spec_some t Hwf b nd h Hb Hh) as (a' & na & Ha' & Hna & Hha & _).
    rewrite Ha in Ha'. injection Ha' as <-.
    exists a, na. repeat split; assumption.
  - replace ((h >? nd_height nd) || (h <? 0)) with true by lia. split; [reflexivity|].
    unfold ancestor_spec. rewrite Hb. replace (_ && _) with false by lia. reflexivity.
Qed.

(* ------------------------------------------------------------------------------------------ *)
(* every tree built by adding blocks is well formed (BuildSkip stores the right pointer)        *)

Lemma get_node_app_old t x i : (i < length t)%nat -> get_node (t ++ x) i = get_node t i.
Proof. intros H. unfold get_node. apply nth_error_app1. exact H. Qed.

Lemma get_node_app_new t n : get_node (t ++ [n]) (length t) = Some n.
Proof. unfold get_node. rewrite nth_error_app2 by lia. rewrite Nat.sub_diag. reflexivity. Qed.

Lemma walk_up_app t x : wf_tree t -> forall k b, (b < length t)%nat -> walk_up (t ++ x) b k = walk_up t b k.
Proof.
  intros Hwf. induction k as [|k IH]; intros b Hb; [reflexivity|].
  cbn [walk_up]. rewrite get_node_app_old by exact Hb.
  destruct (get_node t b) as [nd|] eqn:E; [|reflexivity].
  destruct (Hwf b nd E) as [_ Hp]. destruct (nd_parent nd) as [p|]; [|reflexivity].
  destruct Hp as (Hlt & _). apply IH. lia.
Qed.

Lemma ancestor_spec_app t x b h : wf_tree t -> (b < length t)%nat ->
  ancestor_spec (t ++ x) b h = ancestor_spec t b h.
Proof.
  intros Hwf Hb. unfold ancestor_spec. rewrite get_node_app_old by exact Hb.
  destruct (get_node t b); [|reflexivity]. destruct (_ && _); [|reflexivity].
  apply walk_up_app; assumption.
Qed.

Lemma wf_tree_nil : wf_tree [].
Proof. intros i nd H. unfold get_node in H. destruct i; discriminate. Qed.

Lemma add_block_wf t parent bits : wf_tree t -> wf_tree (add_block t parent bits).
Proof.
  intros Hwf. unfold add_block.
  assert (Hext : forall n, wf_node (t ++ [n]) (length t) n -> wf_tree (t ++ [n])).
  { intros n Hn i nd Hi.
    destruct (Nat.lt_ge_cases i (length t)) as [Hlt|Hge].
    - rewrite get_node_app_old in Hi by exact Hlt.
      destruct (Hwf i nd Hi) as [H0 Hp]. split; [exact H0|].
      destruct (nd_parent nd) as [p|]; [|exact Hp].
      destruct Hp as (Hpl & pn & Hpn & Hh & Hs).
      split; [exact Hpl|]. exists pn. rewrite get_node_app_old by lia.
      rewrite ancestor_spec_app by (try assumption; lia). repeat split; assumption.
    - pose proof (get_node_lt _ _ _ Hi) as Hl. rewrite app_length in Hl. cbn [length] in Hl.
      assert (i = length t) by lia. subst i. rewrite get_node_app_new in Hi. injection Hi as <-. exact Hn. }
  destruct parent as [p|].
  - destruct (get_node t p) as [pn|] eqn:Hpn; [|exact Hwf].
    apply Hext. destruct (Hwf p pn Hpn) as [H0 _].
    split; cbn [nd_height nd_parent nd_skip]; [lia|].
    split; [apply (get_node_lt _ _ _ Hpn)|].
    exists pn. rewrite get_node_app_old by (apply (get_node_lt _ _ _ Hpn)).
    split; [exact Hpn|]. split; [reflexivity|].
    rewrite ancestor_spec_app by (try assumption; apply (get_node_lt _ _ _ Hpn)).
    pose proof (skip_height_bounds (nd_height pn + 1) ltac:(lia)) as Hsb.
    destruct (get_ancestor_correct t Hwf p pn (get_skip_height (nd_height pn + 1)) Hpn) as [Hin _].
    destruct (Hin ltac:(lia)) as (a & na & Hga & Hspec & _). rewrite Hga, Hspec. reflexivity.
  - apply Hext. split; cbn [nd_height nd_parent nd_skip]; [lia|]. split; reflexivity.
Qed.

Lemma build_tree_wf blocks : wf_tree (build_tree blocks).
Proof.
  unfold build_tree.
  assert (G : forall t, wf_tree t -> wf_tree (fold_left (fun t pb => add_block t (fst pb) (snd pb)) blocks t)).
  { induction blocks as [|pb r IH]; intros t Ht; [exact Ht|]. cbn [fold_left]. apply IH. apply add_block_wf. exact Ht. }
  apply G. exact wf_tree_nil.
Qed.

(* ------------------------------------------------------------------------------------------ *)
(* GetBitsProof = floor(2^256 / (target + 1))                                                  *)

Lemma magnitude_not_all_ones c : 0 <= c < 2 ^ 32 -> compact_magnitude c < 2 ^ 256 -> compact_magnitude c + 1 < 2 ^ 256.
Proof.
  intros Hc Hlt. pose proof (compact_fields c Hc) as [Hs Hm].
  destruct (Z_le_gt_dec (compact_size c) 32) as [H32|H32].
  - pose proof (magnitude_small c Hc H32). assert (2 ^ 255 + 1 < 2 ^ 256) by (vm_compute; reflexivity). lia.
  - unfold compact_magnitude in *. replace (compact_size c <=? 3) with false in * by lia.
    set (s := compact_size c) in *. set (m := compact_mantissa c) in *.
    assert (E : 256 ^ (s - 3) = 256 * 256 ^ (s - 4)).
    { replace (s - 3) with ((s - 4) + 1) by lia. apply pow256_succ. lia. }
    assert (HM : (m * 256 ^ (s - 3)) mod 256 = 0).
    { rewrite E. replace (m * (256 * 256 ^ (s - 4))) with ((m * 256 ^ (s - 4)) * 256) by lia. apply Z.mod_mul. lia. }
    assert (H255 : (2 ^ 256 - 1) mod 256 = 255) by (vm_compute; reflexivity).
    assert (m * 256 ^ (s - 3) <> 2 ^ 256 - 1) by congruence. lia.
Qed.

Lemma get_bits_proof_spec bits : 0 <= bits < 2 ^ 32 ->
  get_bits_proof bits =
    Some (if compact_sign bits || (compact_magnitude bits =? 0) || (2 ^ 256 <=? compact_magnitude bits) then 0
          else 2 ^ 256 / (compact_magnitude bits + 1)).
Proof.
  intros Hb. unfold get_bits_proof.
  destruct (set_compact_holds bits Hb) as (Hv & Ho & Hn). rewrite Hv, Ho, Hn.
  pose proof (magnitude_nonneg bits Hb) as HM. set (M := compact_magnitude bits) in *.
  destruct (Z_lt_le_dec M (2 ^ 256)) as [Hlt|Hge].
  - rewrite Z.mod_small by lia.
    destruct (compact_sign bits && negb (M =? 0) || (2 ^ 256 <=? M) || (M =? 0)) eqn:E1.
    + f_equal. destruct (compact_sign bits); cbn [andb orb negb] in *; destruct (M =? 0) eqn:E0; cbn [orb negb] in *; try reflexivity; lia.
    + assert (E2 : compact_sign bits || (M =? 0) || (2 ^ 256 <=? M) = false).
      { destruct (compact_sign bits); cbn [andb orb negb] in *; lia. }
      rewrite E2.
      pose proof (magnitude_not_all_ones bits Hb Hlt) as Hn1. fold M in Hn1.
      unfold wrap256. rewrite (Z.mod_small (M + 1)) by lia. replace (M + 1 =? 0) with false by lia.
      f_equal. unfold not256.
      assert (EM : M <> 0) by lia.
      assert (Ediv : (2 ^ 256 - 1 - M) / (M + 1) + 1 = 2 ^ 256 / (M + 1)).
      { replace (2 ^ 256) with ((2 ^ 256 - 1 - M) + 1 * (M + 1)) at 2 by lia.
        rewrite Z.div_add by lia. reflexivity. }
      rewrite Ediv. apply Z.mod_small. split; [apply Z.div_pos; lia|].
      apply Z.div_lt_upper_bound; [lia|]. nia.
  - replace (2 ^ 256 <=? M) with true by lia. rewrite !orb_true_r. cbn [orb]. reflexivity.
Qed.

(* ------------------------------------------------------------------------------------------ *)
(* block locators                                                                              *)

(* the heights: entry i+1 is max(entry i - 2^max(0, i-10), 0), strictly below entry i *)
Lemma locator_heights_from_step : forall fuel h step count i a b,
  0 <= h -> h < Z.of_nat fuel -> 0 <= count -> step = 2 ^ Z.max 0 (count - 10) ->
  nth_error (locator_heights_from fuel h step count) i = Some a ->
  nth_error (locator_heights_from fuel h step count) (S i) = Some b ->
  b = Z.max (a - 2 ^ Z.max 0 (count + Z.of_nat i - 10)) 0 /\ 0 <= b < a.
Proof.
  induction fuel as [|f IH]; intros h step count i a b Hh Hf Hc Hs Ha Hb; [lia|].
  cbn [locator_heights_from] in *. destruct (h =? 0) eqn:E0.
  - destruct i; cbn in Hb; [discriminate|destruct i; discriminate].
  - assert (Hpos : 0 < step) by (subst step; apply Z.pow_pos_nonneg; lia).
    set (h' := Z.max (h - step) 0) in *.
    set (step' := if count + 1 >? 10 then step * 2 else step) in *.
    assert (Hs' : step' = 2 ^ Z.max 0 (count + 1 - 10)).
    { unfold step'. destruct (count + 1 >? 10) eqn:E.
      - rewrite Hs. replace (Z.max 0 (count + 1 - 10)) with (Z.max 0 (count - 10) + 1) by lia.
        rewrite Z.pow_add_r by lia. reflexivity.
      - rewrite Hs. f_equal. lia. }
    destruct i as [|i].
    + change (Some h = Some a) in Ha.
      change (nth_error (locator_heights_from f h' step' (count + 1)) 0 = Some b) in Hb.
      injection Ha as <-.
      (* head of the recursive list is h' *)
      assert (Hhd : nth_error (locator_heights_from f h' step' (count + 1)) 0 = Some h').
      { destruct f as [|f']; [lia|]. cbn [locator_heights_from]. destruct (h' =? 0) eqn:E; cbn [nth_error]; f_equal; lia. }
      rewrite Hhd in Hb. injection Hb as <-. replace (count + Z.of_nat 0 - 10) with (count - 10) by lia.
      rewrite <- Hs. unfold h'. lia.
    + change (nth_error (locator_heights_from f h' step' (count + 1)) i = Some a) in Ha.
      change (nth_error (locator_heights_from f h' step' (count + 1)) (S i) = Some b) in Hb.
      destruct (IH h' step' (count + 1) i a b ltac:(lia) ltac:(lia) ltac:(lia) Hs' Ha Hb) as [E B].
      split; [|exact B]. rewrite E. f_equal. f_equal. f_equal. lia.
Qed.

Lemma locator_heights_from_head fuel h step count : 0 <= h -> (0 < fuel)%nat ->
  nth_error (locator_heights_from fuel h step count) 0 = Some h.
Proof.
  intros Hh Hf. destruct fuel as [|f]; [lia|]. cbn [locator_heights_from].
  destruct (h =? 0) eqn:E; cbn [nth_error]; f_equal; lia.
Qed.

Lemma locator_heights_from_last : forall fuel h step count, 0 <= h -> h < Z.of_nat fuel -> 0 < step ->
  last (locator_heights_from fuel h step count) 1 = 0.
Proof.
  induction fuel as [|f IH]; intros h step count Hh Hf Hs; [lia|].
  cbn [locator_heights_from]. destruct (h =? 0) eqn:E0; [reflexivity|].
  set (h' := Z.max (h - step) 0). set (step' := if count + 1 >? 10 then step * 2 else step).
  assert (Hne : locator_heights_from f h' step' (count + 1) <> []).
  { destruct f as [|f']; [lia|]. cbn [locator_heights_from]. destruct (h' =? 0); discriminate. }
  destruct (locator_heights_from f h' step' (count + 1)) as [|x r] eqn:El; [contradiction|].
  change (last (h :: x :: r) 1) with (last (x :: r) 1). rewrite <- El.
  apply IH; unfold h', step'; try lia. destruct (count + 1 >? 10); lia.
Qed.

(* the loop of LocatorEntries produces, for every well-formed tree, exactly the ancestors of the
   start block at the heights locator_heights lists *)
Lemma locator_loop_spec t : wf_tree t -> forall fuel b nb index nd step have_rev h0,
  get_node t b = Some nb -> nd_height nb = h0 -> h0 <= 2 ^ 30 - 2 ->
  get_node t index = Some nd -> ancestor_spec t b (nd_height nd) = Some index ->
  nd_height nd < Z.of_nat fuel -> 0 < step ->
  (step <= h0 - nd_height nd + 1 \/ nd_height nd = 0) ->
  exists l, locator_loop t fuel index step have_rev = Some (rev have_rev ++ l) /\
            map (fun x => height_of_block t x) l =
              map Some (locator_heights_from fuel (nd_height nd) step (Z.of_nat (length have_rev))) /\
            Forall (fun x => exists h, height_of_block t x = Some h /\ ancestor_spec t b h = Some x) l.
Proof.
  intros Hwf. induction fuel as [|f IH]; intros b nb index nd step have_rev h0 Hb Hh0 Hbound Hi Hanc Hf Hstep Hinv;
    [destruct (Hwf index nd Hi) as [Hnn0 _]; lia|].
  cbn [locator_loop locator_heights_from]. rewrite Hi.
  destruct (Hwf index nd Hi) as [Hnn _].
  assert (Hself : exists h, height_of_block t index = Some h /\ ancestor_spec t b h = Some index).
  { exists (nd_height nd). unfold height_of_block. rewrite Hi. split; [reflexivity|exact Hanc]. }
  destruct (nd_height nd =? 0) eqn:E0.
  - exists [index]. cbn [rev]. split; [reflexivity|]. split.
    + cbn [map]. unfold height_of_block. rewrite Hi. cbn [option_map]. do 2 f_equal. lia.
    + constructor; [exact Hself|constructor].
  - set (hn := Z.max (nd_height nd - step) 0).
    destruct (get_ancestor_correct t Hwf index nd hn Hi) as [Hin _].
    destruct (Hin ltac:(unfold hn; lia)) as (a & na & Hga & Hspec & Hna & Hha).
    rewrite Hga.
    assert (Hanc' : ancestor_spec t b (nd_height na) = Some a).
    { rewrite Hha. rewrite <- Hspec.
      symmetry. apply (ancestor_spec_trans t Hwf b nb (nd_height nd) index hn Hb Hanc). unfold hn. lia. }
    assert (Hlen : Z.of_nat (length (index :: have_rev)) = Z.of_nat (length have_rev) + 1) by (cbn [length]; lia).
    assert (Hnowrap : wrap32 (step * 2) = step * 2).
    { apply wrap32_id. unfold INT32_MIN, INT32_MAX. change (2 ^ 30) with 1073741824 in Hbound.
      destruct Hinv as [Hinv|Hinv]; lia. }
    set (step' := if Z.of_nat (length (index :: have_rev)) >? 10 then wrap32 (step * 2) else step).
    assert (Hstep'eq : step' = if Z.of_nat (length have_rev) + 1 >? 10 then step * 2 else step).
    { unfold step'. rewrite Hlen, Hnowrap. reflexivity. }
    assert (Hinv' : step' <= h0 - nd_height na + 1 \/ nd_height na = 0).
    { rewrite Hha. unfold hn. destruct (Z_le_gt_dec (nd_height nd - step) 0) as [Hcl|Hncl]; [right; lia|left].
      rewrite Hstep'eq. destruct Hinv as [Hinv|Hinv]; [|lia].
      destruct (_ >? 10); lia. }
    destruct (IH b nb a na step' (index :: have_rev) h0 Hb Hh0 Hbound Hna Hanc' ltac:(rewrite Hha; unfold hn; lia)
                 ltac:(rewrite Hstep'eq; destruct (_ >? 10); lia) Hinv') as (l & Hl & Hmap & Hall).
    exists (index :: l). split.
    + rewrite Hl. cbn [rev]. rewrite <- app_assoc. reflexivity.
    + split.
      * cbn [map]. f_equal.
        -- unfold height_of_block. rewrite Hi. reflexivity.
        -- rewrite Hmap. rewrite Hha, Hlen, Hstep'eq. reflexivity.
      * constructor; assumption.
Qed.

Lemma locator_entries_spec t b nb : wf_tree t -> get_node t b = Some nb -> nd_height nb <= 2 ^ 30 - 2 ->
  exists l, locator_entries t b = Some l /\
            map (fun x => height_of_block t x) l = map Some (locator_heights (nd_height nb)) /\
            Forall (fun x => exists h, height_of_block t x = Some h /\ ancestor_spec t b h = Some x) l.
Proof.
  intros Hwf Hb Hbound. unfold locator_entries, locator_heights. rewrite Hb.
  destruct (Hwf b nb Hb) as [Hnn _].
  destruct (locator_loop_spec t Hwf (S (Z.to_nat (nd_height nb))) b nb b nb 1 [] (nd_height nb) Hb eq_refl Hbound Hb
              (ancestor_spec_self t b nb Hb Hnn) ltac:(lia) ltac:(lia) ltac:(left; lia)) as (l & Hl & Hmap & Hall).
  exists l. cbn [rev app length] in *. repeat split; assumption.
Qed.

(* ------------------------------------------------------------------------------------------ *)
(* common ancestors: LastCommonAncestor and CChain::FindFork                                   *)

Definition rooted (t : tree) : Prop := forall i nd, get_node t i = Some nd -> nd_parent nd = None -> i = 0%nat.

Definition common_at (t : tree) (a b : nat) (h : Z) (r : nat) : Prop :=
  ancestor_spec t a h = Some r /\ ancestor_spec t b h = Some r.
Definition no_common_above (t : tree) (a b : nat) (k : Z) : Prop :=
  forall h r, k < h -> ~ common_at t a b h r.

Lemma ancestor_spec_range t b nd h r : get_node t b = Some nd -> ancestor_spec t b h = Some r -> 0 <= h <= nd_height nd.
Proof. unfold ancestor_spec. intros Hb H. rewrite Hb in H. destruct (_ && _) eqn:E in H; [lia|discriminate]. Qed.

Lemma ancestor_0 t b nd : wf_tree t -> rooted t -> get_node t b = Some nd -> ancestor_spec t b 0 = Some 0%nat.
Proof.
  intros Hwf Hroot Hb. destruct (Hwf b nd Hb) as [H0 _].
  destruct (ancestor_spec_some t Hwf b nd 0 Hb ltac:(lia)) as (a & na & Ha & Hna & Hha & _).
  rewrite Ha. f_equal. apply (Hroot a na Hna).
  destruct (Hwf a na Hna) as [_ Hp]. destruct (nd_parent na) as [p|]; [|reflexivity].
  destruct Hp as (_ & pn & Hpn & Hh & _). destruct (Hwf p pn Hpn) as [Hp0 _]. lia.
Qed.

(* one step down along the path of a: the ancestor at k-1 is the parent of the ancestor at k *)
Lemma ancestor_step t a na x nx k : wf_tree t -> get_node t a = Some na ->
  ancestor_spec t a k = Some x -> get_node t x = Some nx -> 1 <= k ->
  exists p pn, nd_parent nx = Some p /\ get_node t p = Some pn /\ nd_height nx = k /\ nd_height pn = k - 1 /\
               ancestor_spec t a (k - 1) = Some p /\
               nd_skip nx = ancestor_spec t a (get_skip_height k) /\
               exists s, ancestor_spec t a (get_skip_height k) = Some s.
Proof.
  intros Hwf Ha Hx Hnx Hk.
  pose proof (ancestor_spec_range t a na k x Ha Hx) as Hr.
  destruct (ancestor_spec_some t Hwf a na k Ha Hr) as (x' & nx' & Hx' & Hnx' & Hhx & _).
  rewrite Hx in Hx'. injection Hx' as <-. rewrite Hnx in Hnx'. injection Hnx' as <-.
  destruct (Hwf x nx Hnx) as [H0 Hp]. destruct (nd_parent nx) as [p|] eqn:Ep; [|destruct Hp; lia].
  destruct Hp as (Hlt & pn & Hpn & Hh & Hskip).
  pose proof (skip_height_bounds k Hk) as Hsb.
  assert (Edown : forall h, 0 <= h <= k - 1 -> ancestor_spec t a h = ancestor_spec t p h).
  { intros h Hh'. rewrite <- (ancestor_spec_trans t Hwf a na k x h Ha Hx ltac:(lia)).
    apply (ancestor_spec_parent t x nx p pn h Hnx Ep Hpn Hh). lia. }
  exists p, pn. split; [reflexivity|]. split; [exact Hpn|]. split; [exact Hhx|]. split; [lia|]. split.
  - rewrite Edown by lia. replace (k - 1) with (nd_height pn) by lia.
    apply ancestor_spec_self; [exact Hpn|]. destruct (Hwf p pn Hpn). lia.
  - rewrite Hhx in Hskip. rewrite Edown by lia. split; [exact Hskip|].
    destruct (ancestor_spec_some t Hwf p pn (get_skip_height k) Hpn ltac:(lia)) as (s & _ & Hs & _).
    exists s. exact Hs.
Qed.

Lemma common_propagates_down t a na b nb h r k : wf_tree t -> get_node t a = Some na -> get_node t b = Some nb ->
  common_at t a b h r -> 0 <= k <= h -> ancestor_spec t a k = ancestor_spec t b k.
Proof.
  intros Hwf Ha Hb [H1 H2] Hk.
  rewrite <- (ancestor_spec_trans t Hwf a na h r k Ha H1 Hk).
  rewrite <- (ancestor_spec_trans t Hwf b nb h r k Hb H2 Hk). reflexivity.
Qed.

Lemma lca_loop_correct t a na b nb : wf_tree t -> rooted t -> get_node t a = Some na -> get_node t b = Some nb ->
  forall fuel x y k, ancestor_spec t a k = Some x -> ancestor_spec t b k = Some y ->
  no_common_above t a b k -> k < Z.of_nat fuel ->
  exists r kr, lca_loop t fuel (Some x) (Some y) = PBlock r /\ common_at t a b kr r /\ no_common_above t a b kr.
Proof.
  intros Hwf Hroot Ha Hb. induction fuel as [|f IH]; intros x y k Hx Hy Hno Hf.
  { pose proof (ancestor_spec_range t a na k x Ha Hx). lia. }
  pose proof (ancestor_spec_range t a na k x Ha Hx) as Hra.
  pose proof (ancestor_spec_range t b nb k y Hb Hy) as Hrb.
  cbn [lca_loop opt_nat_eqb]. destruct (Nat.eqb x y) eqn:Exy.
  - apply Nat.eqb_eq in Exy. subst y. exists x, k. split; [reflexivity|]. split; [split; assumption|exact Hno].
  - apply Nat.eqb_neq in Exy.
    assert (Hk1 : 1 <= k).
    { destruct (Z.eq_dec k 0) as [->|]; [|lia]. rewrite (ancestor_0 t a na Hwf Hroot Ha) in Hx.
      rewrite (ancestor_0 t b nb Hwf Hroot Hb) in Hy. congruence. }
    destruct (ancestor_spec_some t Hwf a na k Ha Hra) as (x' & nx & Hx' & Hnx & _).
    rewrite Hx in Hx'. injection Hx' as <-.
    destruct (ancestor_spec_some t Hwf b nb k Hb Hrb) as (y' & ny & Hy' & Hny & _).
    rewrite Hy in Hy'. injection Hy' as <-.
    rewrite Hnx, Hny.
    destruct (ancestor_step t a na x nx k Hwf Ha Hx Hnx Hk1) as (px & pnx & Epx & Hpnx & Hhx & Hhpx & Hax & Hsx & sx & Hsx').
    destruct (ancestor_step t b nb y ny k Hwf Hb Hy Hny Hk1) as (py & pny & Epy & Hpny & Hhy & Hhpy & Hay & Hsy & sy & Hsy').
    pose proof (skip_height_bounds k Hk1) as Hsb.
    rewrite Hsx, Hsy, Hsx', Hsy'. cbn [opt_nat_eqb].
    destruct (Nat.eqb sx sy) eqn:Es; cbn [negb].
    + (* same skip: step to the parents *)
      rewrite Epx, Epy. apply (IH px py (k - 1) Hax Hay); [|lia].
      intros h r Hh Hc. destruct (Z.eq_dec h k) as [->|Hne].
      * destruct Hc as [C1 C2]. congruence.
      * apply (Hno h r ltac:(lia) Hc).
    + (* different skip: both jump *)
      apply Nat.eqb_neq in Es.
      apply (IH sx sy (get_skip_height k) Hsx' Hsy'); [|lia].
      intros h r Hh Hc. destruct (Z_le_gt_dec h k) as [Hle|Hgt]; [|apply (Hno h r ltac:(lia) Hc)].
      pose proof (common_propagates_down t a na b nb h r (get_skip_height k) Hwf Ha Hb Hc ltac:(lia)) as E.
      rewrite Hsx', Hsy' in E. congruence.
Qed.

Lemma start_at_min t a na h : wf_tree t -> get_node t a = Some na -> 0 <= h ->
  exists x, (if nd_height na >? h then get_ancestor t a h else PBlock a) = PBlock x /\
            ancestor_spec t a (Z.min (nd_height na) h) = Some x.
Proof.
  intros Hwf Ha Hh. destruct (Hwf a na Ha) as [H0 _]. destruct (nd_height na >? h) eqn:E.
  - destruct (get_ancestor_correct t Hwf a na h Ha) as [Hin _].
    destruct (Hin ltac:(lia)) as (x & _ & Hg & Hs & _). exists x. split; [exact Hg|].
    replace (Z.min (nd_height na) h) with h by lia. exact Hs.
  - exists a. split; [reflexivity|]. replace (Z.min (nd_height na) h) with (nd_height na) by lia.
    apply ancestor_spec_self; assumption.
Qed.

Lemma no_common_above_min t a na b nb : get_node t a = Some na -> get_node t b = Some nb ->
  no_common_above t a b (Z.min (nd_height na) (nd_height nb)).
Proof.
  intros Ha Hb h r Hh [C1 C2].
  pose proof (ancestor_spec_range t a na h r Ha C1). pose proof (ancestor_spec_range t b nb h r Hb C2). lia.
Qed.

Lemma last_common_ancestor_correct t a na b nb : wf_tree t -> rooted t ->
  get_node t a = Some na -> get_node t b = Some nb ->
  exists r kr, last_common_ancestor t a b = PBlock r /\ common_at t a b kr r /\ no_common_above t a b kr.
Proof.
  intros Hwf Hroot Ha Hb. unfold last_common_ancestor. rewrite Ha, Hb.
  destruct (Hwf a na Ha) as [Ha0 _]. destruct (Hwf b nb Hb) as [Hb0 _].
  destruct (start_at_min t a na (nd_height nb) Hwf Ha Hb0) as (x & Ex & Hx).
  destruct (start_at_min t b nb (nd_height na) Hwf Hb Ha0) as (y & Ey & Hy).
  rewrite Ex, Ey. rewrite (Z.min_comm (nd_height nb)) in Hy.
  apply (lca_loop_correct t a na b nb Hwf Hroot Ha Hb _ x y _ Hx Hy).
  - apply no_common_above_min; assumption.
  - lia.
Qed.

(* ---- CChain ---- *)
Lemma nth_error_rev {A} (l : list A) n : (n < length l)%nat -> nth_error (rev l) n = nth_error l (length l - S n).
Proof.
  induction l as [|x r IH]; intros Hn; [cbn in Hn; lia|].
  cbn [rev length] in *. destruct (Nat.eq_dec n (length r)) as [->|Hne].
  - rewrite nth_error_app2 by (rewrite rev_length; lia). rewrite rev_length, Nat.sub_diag.
    replace (S (length r) - S (length r))%nat with 0%nat by lia. reflexivity.
  - rewrite nth_error_app1 by (rewrite rev_length; lia). rewrite IH by lia.
    replace (S (length r) - S n)%nat with (S (length r - S n)) by lia. reflexivity.
Qed.

Lemma path_down_spec t : wf_tree t -> forall fuel b nd, get_node t b = Some nd -> nd_height nd < Z.of_nat fuel ->
  Z.of_nat (length (path_down t fuel b)) = nd_height nd + 1 /\
  forall k, Z.of_nat k <= nd_height nd -> nth_error (path_down t fuel b) k = walk_up t b k.
Proof.
  intros Hwf. induction fuel as [|f IH]; intros b nd Hb Hf.
  { destruct (Hwf b nd Hb). lia. }
  cbn [path_down]. rewrite Hb. destruct (Hwf b nd Hb) as [H0 Hp].
  destruct (nd_parent nd) as [p|] eqn:Ep.
  - destruct Hp as (_ & pn & Hpn & Hh & _).
    destruct (IH p pn Hpn ltac:(lia)) as [Hlen Hnth]. split; [cbn [length]; lia|].
    intros [|k] Hk; [reflexivity|]. cbn [nth_error walk_up]. rewrite Hb, Ep. apply Hnth. lia.
  - destruct Hp as [E0 _]. split; [cbn [length]; lia|].
    intros [|k] Hk; [reflexivity|lia].
Qed.

Lemma set_tip_at t tip nt h : wf_tree t -> get_node t tip = Some nt ->
  chain_at (set_tip t tip) h = ancestor_spec t tip h /\ chain_height (set_tip t tip) = nd_height nt.
Proof.
  intros Hwf Ht. unfold set_tip, chain_at, chain_height, ancestor_spec. rewrite Ht.
  destruct (path_down_spec t Hwf (S (Z.to_nat (nd_height nt))) tip nt Ht ltac:(destruct (Hwf tip nt Ht); lia)) as [Hlen Hnth].
  rewrite rev_length. split; [|lia].
  destruct ((h <? 0) || (h >=? Z.of_nat (length (path_down t (S (Z.to_nat (nd_height nt))) tip)))) eqn:E.
  - replace ((0 <=? h) && (h <=? nd_height nt)) with false by lia. reflexivity.
  - replace ((0 <=? h) && (h <=? nd_height nt)) with true by lia.
    rewrite nth_error_rev by lia. rewrite Hnth by lia. f_equal. lia.
Qed.

Lemma find_fork_loop_correct t tip nt b nb : wf_tree t -> rooted t -> get_node t tip = Some nt -> get_node t b = Some nb ->
  forall fuel p k, ancestor_spec t b k = Some p -> no_common_above t tip b k -> k < Z.of_nat fuel ->
  exists r kr, find_fork_loop t (set_tip t tip) fuel p = PBlock r /\ common_at t tip b kr r /\ no_common_above t tip b kr.
Proof.
  intros Hwf Hroot Ht Hb. induction fuel as [|f IH]; intros p k Hp Hno Hf.
  { pose proof (ancestor_spec_range t b nb k p Hb Hp). lia. }
  pose proof (ancestor_spec_range t b nb k p Hb Hp) as Hr.
  destruct (ancestor_spec_some t Hwf b nb k Hb Hr) as (p' & np & Hp' & Hnp & Hhp & _).
  rewrite Hp in Hp'. injection Hp' as <-.
  cbn [find_fork_loop]. unfold chain_contains. rewrite Hnp.
  destruct (set_tip_at t tip nt (nd_height np) Hwf Ht) as [Eat _]. rewrite Eat, Hhp.
  destruct (ancestor_spec t tip k) as [x|] eqn:Ex.
  - destruct (Nat.eqb x p) eqn:Exp.
    + apply Nat.eqb_eq in Exp. subst x. exists p, k. split; [reflexivity|]. split; [split; assumption|exact Hno].
    + apply Nat.eqb_neq in Exp.
      assert (Hk1 : 1 <= k).
      { destruct (Z.eq_dec k 0) as [->|]; [|lia]. rewrite (ancestor_0 t tip nt Hwf Hroot Ht) in Ex.
        rewrite (ancestor_0 t b nb Hwf Hroot Hb) in Hp. congruence. }
      destruct (ancestor_step t b nb p np k Hwf Hb Hp Hnp Hk1) as (q & qn & Eq & Hqn & _ & _ & Haq & _).
      rewrite Eq. apply (IH q (k - 1) Haq); [|lia].
      intros h r Hh Hc. destruct (Z.eq_dec h k) as [->|Hne]; [|apply (Hno h r ltac:(lia) Hc)].
      destruct Hc as [C1 C2]. congruence.
  - (* the chain has no block at this height: impossible below the start height, handled by the parent step *)
    assert (Hk1 : 1 <= k).
    { destruct (Z.eq_dec k 0) as [->|]; [|lia]. rewrite (ancestor_0 t tip nt Hwf Hroot Ht) in Ex. discriminate. }
    destruct (ancestor_step t b nb p np k Hwf Hb Hp Hnp Hk1) as (q & qn & Eq & Hqn & _ & _ & Haq & _).
    rewrite Eq. apply (IH q (k - 1) Haq); [|lia].
    intros h r Hh Hc. destruct (Z.eq_dec h k) as [->|Hne]; [|apply (Hno h r ltac:(lia) Hc)].
    destruct Hc as [C1 C2]. congruence.
Qed.

Lemma find_fork_correct t tip nt b nb : wf_tree t -> rooted t -> get_node t tip = Some nt -> get_node t b = Some nb ->
  exists r kr, find_fork t (set_tip t tip) b = PBlock r /\ common_at t tip b kr r /\ no_common_above t tip b kr.
Proof.
  intros Hwf Hroot Ht Hb. unfold find_fork. rewrite Hb.
  destruct (set_tip_at t tip nt 0 Hwf Ht) as [_ EH]. rewrite EH.
  destruct (Hwf tip nt Ht) as [Ht0 _]. destruct (Hwf b nb Hb) as [Hb0 _].
  destruct (start_at_min t b nb (nd_height nt) Hwf Hb Ht0) as (p & Ep & Hp). rewrite Ep.
  apply (find_fork_loop_correct t tip nt b nb Hwf Hroot Ht Hb _ p _ Hp).
  - rewrite Z.min_comm. apply no_common_above_min; assumption.
  - lia.
Qed.

(* trees built from one genesis block and blocks with parents are rooted *)
Definition valid_blocks (blocks : list (option nat * Z)) : Prop :=
  match blocks with
  | (None, _) :: rest => Forall (fun pb => fst pb <> None) rest
  | _ => False
  end.

Lemma add_block_rooted t p bits : rooted t -> (length t > 0)%nat -> rooted (add_block t (Some p) bits) /\ (length (add_block t (Some p) bits) > 0)%nat.
Proof.
  intros Hr Hl. unfold add_block. destruct (get_node t p) as [pn|]; [|split; assumption].
  split; [|rewrite app_length; lia].
  intros i nd Hi Hp. destruct (Nat.lt_ge_cases i (length t)) as [Hlt|Hge].
  - rewrite get_node_app_old in Hi by exact Hlt. apply (Hr i nd Hi Hp).
  - pose proof (get_node_lt _ _ _ Hi) as Hl2. rewrite app_length in Hl2. cbn [length] in Hl2.
    assert (i = length t) by lia. subst i. rewrite get_node_app_new in Hi.
    apply (f_equal (option_map nd_parent)) in Hi. cbn [option_map nd_parent] in Hi. congruence.
Qed.

Lemma build_tree_rooted blocks : valid_blocks blocks -> rooted (build_tree blocks).
Proof.
  unfold valid_blocks, build_tree. destruct blocks as [|[[p|] bits] rest]; try contradiction.
  intros Hall. cbn [fold_left fst snd].
  set (t0 := add_block [] None bits).
  assert (H0 : rooted t0 /\ (length t0 > 0)%nat).
  { unfold t0, add_block. cbn [app]. split; [|cbn; lia].
    intros i nd Hi _. destruct i; [reflexivity|]. unfold get_node in Hi. destruct i; discriminate. }
  clearbody t0. revert t0 H0. induction Hall as [|[p b2] r Hp Hr IH]; intros t0 [Hr0 Hl0]; [exact Hr0|].
  cbn [fold_left fst snd]. cbn [fst] in Hp. destruct p as [p|]; [|contradiction].
  apply IH. apply add_block_rooted; assumption.
Qed.

(* ------------------------------------------------------------------------------------------ *)
(* accumulated chain work                                                                      *)
Definition block_proof (bits : Z) : Z := match get_bits_proof bits with Some p => p | None => 0 end.

(* sum of the proofs over the ancestry of b (b itself included), no wrap *)
Fixpoint work_sum (t : tree) (fuel : nat) (b : nat) : Z :=
  match fuel with
  | O => 0
  | S f => match get_node t b with
           | Some nd => block_proof (nd_bits nd) + match nd_parent nd with Some p => work_sum t f p | None => 0 end
           | None => 0
           end
  end.

Definition work_ok (t : tree) : Prop := forall i nd, get_node t i = Some nd ->
  nd_work nd = wrap256 (match nd_parent nd with
                        | Some p => match get_node t p with Some pn => nd_work pn | None => 0 end
                        | None => 0 end + block_proof (nd_bits nd)).

Lemma add_block_work_ok t parent bits : wf_tree t -> work_ok t -> work_ok (add_block t parent bits).
Proof.
  intros Hwf Hok. unfold add_block.
  assert (Hext : forall n, (match nd_parent n with Some p => (p < length t)%nat | None => True end) ->
                 nd_work n = wrap256 (match nd_parent n with
                        | Some p => match get_node t p with Some pn => nd_work pn | None => 0 end
                        | None => 0 end + block_proof (nd_bits n)) -> work_ok (t ++ [n])).
  { intros n Hpl Hn i nd Hi. destruct (Nat.lt_ge_cases i (length t)) as [Hlt|Hge].
    - rewrite get_node_app_old in Hi by exact Hlt. rewrite (Hok i nd Hi).
      destruct (Hwf i nd Hi) as [_ Hp]. destruct (nd_parent nd) as [p|]; [|reflexivity].
      destruct Hp as (Hpl2 & _). rewrite get_node_app_old by lia. reflexivity.
    - pose proof (get_node_lt _ _ _ Hi) as Hl. rewrite app_length in Hl. cbn [length] in Hl.
      assert (i = length t) by lia. subst i. rewrite get_node_app_new in Hi. injection Hi as <-.
      rewrite Hn. destruct (nd_parent n) as [p|]; [|reflexivity]. rewrite get_node_app_old by exact Hpl. reflexivity. }
  destruct parent as [p|].
  - destruct (get_node t p) as [pn|] eqn:Hpn; [|exact Hok].
    apply Hext; cbn [nd_parent nd_work nd_bits].
    + apply (get_node_lt _ _ _ Hpn).
    + rewrite Hpn. reflexivity.
  - apply Hext; cbn [nd_parent nd_work nd_bits]; [exact I|reflexivity].
Qed.

Lemma build_tree_work_ok blocks : work_ok (build_tree blocks).
Proof.
  unfold build_tree.
  assert (G : forall t, wf_tree t -> work_ok t ->
              work_ok (fold_left (fun t pb => add_block t (fst pb) (snd pb)) blocks t)).
  { induction blocks as [|pb r IH]; intros t Ht Hw; [exact Hw|]. cbn [fold_left].
    apply IH; [apply add_block_wf; exact Ht|apply add_block_work_ok; assumption]. }
  apply G; [exact wf_tree_nil|]. intros i nd H. destruct i; discriminate.
Qed.

Lemma block_proof_range bits : 0 <= bits < 2 ^ 32 -> 0 <= block_proof bits < 2 ^ 256.
Proof.
  intros Hb. unfold block_proof. rewrite get_bits_proof_spec by exact Hb.
  destruct (_ || _) eqn:E; [lia|].
  pose proof (magnitude_nonneg bits Hb). split; [apply Z.div_pos; lia|].
  apply Z.div_lt_upper_bound; [lia|]. nia.
Qed.

(* nChainWork is the sum of the block proofs over the ancestry, as long as that sum fits 256 bits *)
Lemma chain_work_is_sum t : wf_tree t -> work_ok t ->
  (forall i nd, get_node t i = Some nd -> 0 <= nd_bits nd < 2 ^ 32) ->
  forall fuel b nd, get_node t b = Some nd -> nd_height nd < Z.of_nat fuel ->
  0 <= work_sum t fuel b /\ (work_sum t fuel b < 2 ^ 256 -> nd_work nd = work_sum t fuel b).
Proof.
  intros Hwf Hok Hbits. induction fuel as [|f IH]; intros b nd Hb Hf.
  { destruct (Hwf b nd Hb). lia. }
  cbn [work_sum]. rewrite Hb. pose proof (block_proof_range _ (Hbits b nd Hb)) as Hp.
  rewrite (Hok b nd Hb). destruct (Hwf b nd Hb) as [H0 Hpar].
  destruct (nd_parent nd) as [p|].
  - destruct Hpar as (_ & pn & Hpn & Hh & _). rewrite Hpn.
    destruct (IH p pn Hpn ltac:(lia)) as [Hs0 Hs]. split; [lia|].
    intros Hlt. rewrite Hs by lia. unfold wrap256. rewrite Z.mod_small by lia. lia.
  - split; [lia|]. intros Hlt. unfold wrap256. rewrite Z.mod_small by lia. lia.
Qed.

(* ---- statements in the form used by props/Properties_C54.v ---- *)
Lemma walk_up_some_height t : wf_tree t -> forall k b nd a na, get_node t b = Some nd ->
  walk_up t b k = Some a -> get_node t a = Some na -> nd_height na = nd_height nd - Z.of_nat k.
Proof.
  intros Hwf. induction k as [|k IH]; intros b nd a na Hb Hw Hna.
  - cbn [walk_up] in Hw. injection Hw as <-. rewrite Hb in Hna. injection Hna as <-. lia.
  - cbn [walk_up] in Hw. rewrite Hb in Hw. destruct (Hwf b nd Hb) as [_ Hp].
    destruct (nd_parent nd) as [p|]; [|discriminate].
    destruct Hp as (_ & pn & Hpn & Hh & _). rewrite (IH p pn a na Hpn Hw Hna). lia.
Qed.

Lemma ancestor_unique t : wf_tree t -> forall b nd k a na, get_node t b = Some nd ->
  walk_up t b k = Some a -> get_node t a = Some na -> ancestor_spec t b (nd_height na) = Some a.
Proof.
  intros Hwf b nd k a na Hb Hw Hna.
  pose proof (walk_up_some_height t Hwf k b nd a na Hb Hw Hna) as Hh.
  destruct (Hwf a na Hna) as [H0 _]. unfold ancestor_spec. rewrite Hb.
  replace ((0 <=? nd_height na) && (nd_height na <=? nd_height nd)) with true by lia.
  replace (Z.to_nat (nd_height nd - nd_height na)) with k by lia. exact Hw.
Qed.

Lemma locator_shape h : 0 <= h ->
  nth_error (locator_heights h) 0 = Some h /\ last (locator_heights h) 1 = 0 /\
  forall i a b, nth_error (locator_heights h) i = Some a -> nth_error (locator_heights h) (S i) = Some b ->
                b = Z.max (a - 2 ^ Z.max 0 (Z.of_nat i - 10)) 0 /\ 0 <= b < a.
Proof.
  intros Hh. unfold locator_heights. split; [apply locator_heights_from_head; lia|].
  split; [apply locator_heights_from_last; lia|].
  intros i a b Ha Hb.
  destruct (locator_heights_from_step (S (Z.to_nat h)) h 1 0 i a b Hh ltac:(lia) ltac:(lia) eq_refl Ha Hb) as [E B].
  split; [|exact B]. rewrite E. do 3 f_equal.
Qed.

Lemma add_block_bits t parent bits : (forall i nd, get_node t i = Some nd -> 0 <= nd_bits nd < 2 ^ 32) ->
  0 <= bits < 2 ^ 32 -> forall i nd, get_node (add_block t parent bits) i = Some nd -> 0 <= nd_bits nd < 2 ^ 32.
Proof.
  intros Hall Hb i nd Hi. unfold add_block in Hi.
  assert (Hext : forall n, nd_bits n = bits -> get_node (t ++ [n]) i = Some nd -> 0 <= nd_bits nd < 2 ^ 32).
  { intros n Hn Hi'. destruct (Nat.lt_ge_cases i (length t)) as [Hlt|Hge].
    - rewrite get_node_app_old in Hi' by exact Hlt. apply (Hall i nd Hi').
    - pose proof (get_node_lt _ _ _ Hi') as Hl. rewrite app_length in Hl. cbn [length] in Hl.
      assert (i = length t) by lia. subst i. rewrite get_node_app_new in Hi'.
      apply (f_equal (option_map nd_bits)) in Hi'. cbn [option_map] in Hi'. injection Hi' as E. rewrite <- E, Hn. exact Hb. }
  destruct parent as [p|].
  - destruct (get_node t p) as [pn|]; [|apply (Hall i nd Hi)]. eapply Hext; [|exact Hi]. reflexivity.
  - eapply Hext; [|exact Hi]. reflexivity.
Qed.

Lemma build_tree_bits blocks : Forall (fun pb => 0 <= snd pb < 2 ^ 32) blocks ->
  forall i nd, get_node (build_tree blocks) i = Some nd -> 0 <= nd_bits nd < 2 ^ 32.
Proof.
  unfold build_tree. intros Hall.
  assert (G : forall t, (forall i nd, get_node t i = Some nd -> 0 <= nd_bits nd < 2 ^ 32) ->
              forall i nd, get_node (fold_left (fun t pb => add_block t (fst pb) (snd pb)) blocks t) i = Some nd ->
                           0 <= nd_bits nd < 2 ^ 32).
  { induction Hall as [|pb r Hpb Hr IH]; intros t Ht; [exact Ht|]. cbn [fold_left]. apply IH.
    apply add_block_bits; assumption. }
  apply G. intros i nd H. destruct i; discriminate.
Qed.

Lemma chain_work_sum blocks b nd : Forall (fun pb => 0 <= snd pb < 2 ^ 32) blocks ->
  get_node (build_tree blocks) b = Some nd ->
  work_sum (build_tree blocks) (S (Z.to_nat (nd_height nd))) b < 2 ^ 256 ->
  nd_work nd = work_sum (build_tree blocks) (S (Z.to_nat (nd_height nd))) b.
Proof.
  intros Hall Hb Hlt.
  destruct (build_tree_wf blocks b nd Hb) as [H0 _].
  destruct (chain_work_is_sum (build_tree blocks) (build_tree_wf blocks) (build_tree_work_ok blocks)
              (build_tree_bits blocks Hall) (S (Z.to_nat (nd_height nd))) b nd Hb ltac:(lia)) as [_ H].
  apply H. exact Hlt.
Qed.
