(* Proofs about model/SigOps.v (C06). *)
From BV Require Import lib.Ints gen.Params_gen model.SigOps.
Local Open Scope Z_scope.

(* ------------------------------------------------------------------------------------------ *)
(* get_op consumes at least the opcode byte; data and rest are what follows it *)

Lemma zlen_nonneg {A} (l : list A) : 0 <= zlen l.
Proof. unfold zlen. lia. Qed.
Lemma zlen_cons {A} (x : A) l : zlen (x :: l) = zlen l + 1.
Proof. unfold zlen. simpl length. lia. Qed.
Lemma zlen_app {A} (a b : list A) : zlen (a ++ b) = zlen a + zlen b.
Proof. unfold zlen. rewrite app_length. lia. Qed.
Lemma zlen_nil {A} : zlen (@nil A) = 0.
Proof. reflexivity. Qed.

Lemma read_push_size_len opcode r n r1 : read_push_size opcode r = Some (n, r1) -> (length r1 <= length r)%nat.
Proof.
  unfold read_push_size. intros H.
  destruct (opcode <? SIGOPS_OP_PUSHDATA1); [inversion H; subst; lia|].
  destruct (opcode =? SIGOPS_OP_PUSHDATA1).
  { destruct r as [|b0 r]; inversion H; subst; simpl; lia. }
  destruct (opcode =? SIGOPS_OP_PUSHDATA2).
  { destruct r as [|b0 [|b1 r]]; inversion H; subst; simpl; lia. }
  destruct r as [|b0 [|b1 [|b2 [|b3 r]]]]; inversion H; subst; simpl; lia.
Qed.

Lemma get_op_len s o rest : get_op s = Some (o, rest) ->
  (length (op_data o) + length rest < length s)%nat.
Proof.
  unfold get_op. destruct s as [|opcode r]; [discriminate|].
  destruct (opcode <=? SIGOPS_OP_PUSHDATA4).
  - destruct (read_push_size opcode r) as [[n r1]|] eqn:E; [|discriminate].
    apply read_push_size_len in E.
    destruct (zlen r1 <? n); [discriminate|]. intros H. inversion H; subst. simpl op_data.
    rewrite <- (firstn_skipn (Z.to_nat n) r1) in E. rewrite app_length in E. simpl length. lia.
  - intros H. inversion H; subst. simpl. lia.
Qed.

Lemma get_op_rest_shorter s o rest : get_op s = Some (o, rest) -> (length rest < length s)%nat.
Proof. intros H. apply get_op_len in H. lia. Qed.

(* ------------------------------------------------------------------------------------------ *)
(* parse: fuel irrelevance and the fuel-free unfolding *)
Arguments get_op : simpl never.

Lemma parse_ops_fuel : forall f1 f2 s, (length s <= f1)%nat -> (length s <= f2)%nat -> parse_ops f1 s = parse_ops f2 s.
Proof.
  induction f1 as [|f1 IH]; intros f2 s H1 H2.
  - destruct s; [|simpl in H1; lia]. destruct f2; reflexivity.
  - destruct f2 as [|f2].
    + destruct s; [reflexivity|simpl in H2; lia].
    + simpl. destruct s as [|b s']; [reflexivity|].
      destruct (get_op (b :: s')) as [[o rest]|] eqn:E; [|reflexivity].
      pose proof (get_op_rest_shorter _ _ _ E) as L.
      rewrite (IH f2 rest); [reflexivity| |]; simpl in *; lia.
Qed.

Lemma parse_unfold s :
  parse s = match s with
            | [] => ([], true)
            | _ => match get_op s with
                   | None => ([], false)
                   | Some (o, rest) => let (l, ok) := parse rest in (o :: l, ok)
                   end
            end.
Proof.
  unfold parse. destruct s as [|b s']; [reflexivity|].
  simpl parse_ops at 1. destruct (get_op (b :: s')) as [[o rest]|] eqn:E; [|reflexivity].
  pose proof (get_op_rest_shorter _ _ _ E) as L.
  rewrite (parse_ops_fuel (length s') (length rest) rest); [reflexivity| |]; simpl in *; lia.
Qed.

(* ------------------------------------------------------------------------------------------ *)
(* GetSigOpCount(fAccurate) = the declarative count over the parsed operations *)

Lemma op_weight_bounds a prev cur : 0 <= op_weight a prev cur <= 20.
Proof.
  unfold op_weight.
  destruct ((cur =? 172) || (cur =? 173)); [lia|].
  destruct ((cur =? 174) || (cur =? 175)); [|lia].
  destruct a; simpl; [|lia].
  destruct (Z.leb_spec 81 prev); simpl; [|lia].
  destruct (Z.leb_spec prev 96); simpl; lia.
Qed.

Lemma sigop_loop_spec : forall fuel a s last n,
  0 <= n -> n + 20 * zlen s <= UINT32_MAX ->
  sigop_loop fuel a s last n = n + count_ops a last (fst (parse_ops fuel s)).
Proof.
  induction fuel as [|f IH]; intros a s last n Hn Hb.
  - simpl. lia.
  - simpl. destruct s as [|b s']; [simpl; lia|].
    destruct (get_op (b :: s')) as [[o rest]|] eqn:E; [|simpl; lia].
    pose proof (get_op_rest_shorter _ _ _ E) as L.
    assert (zlen rest + 1 <= zlen (b :: s')) as L' by (unfold zlen; lia).
    destruct (parse_ops f rest) as [l ok] eqn:Ep. simpl fst. simpl count_ops.
    pose proof (op_weight_bounds a last (op_code o)) as Wb.
    assert (forall x, 0 <= x <= 20 -> wrapu32 (n + x) = n + x) as Wr.
    { intros x Hx. pose proof (zlen_nonneg rest). apply wrapu32_id. lia. }
    match goal with |- sigop_loop f a rest (op_code o) ?n' = _ =>
      assert (n' = n + op_weight a last (op_code o)) as En' end.
    { unfold op_weight.
      change SIGOPS_OP_CHECKSIG with 172. change SIGOPS_OP_CHECKSIGVERIFY with 173.
      change SIGOPS_OP_CHECKMULTISIG with 174. change SIGOPS_OP_CHECKMULTISIGVERIFY with 175.
      change SIGOPS_OP_1 with 81. change SIGOPS_OP_16 with 96. change MAX_PUBKEYS_PER_MULTISIG with 20.
      destruct ((op_code o =? 172) || (op_code o =? 173)); [apply Wr; lia|].
      destruct ((op_code o =? 174) || (op_code o =? 175)); [|lia].
      replace (last >=? 81) with (81 <=? last) by (rewrite Z.geb_leb; reflexivity).
      destruct a; cbn [andb]; [|apply Wr; lia].
      destruct (Z.leb_spec 81 last); cbn [andb]; [|apply Wr; lia].
      destruct (Z.leb_spec last 96); cbn [andb]; [|apply Wr; lia].
      unfold decode_op_n. change SIGOPS_OP_0 with 0. change (SIGOPS_OP_1 - 1) with 80.
      destruct (Z.eqb_spec last 0); [lia|]. apply Wr. lia. }
    rewrite En'. rewrite IH; [rewrite Ep; simpl fst; lia|lia|lia].
Qed.

Theorem get_sigop_count_spec a s : zlen s <= 200000000 -> get_sigop_count a s = spec_sigops a s.
Proof.
  intros Hs. unfold get_sigop_count, spec_sigops, parse.
  change SIGOPS_OP_INVALIDOPCODE with 255.
  rewrite sigop_loop_spec; [lia|lia|unfold UINT32_MAX; lia].
Qed.

Lemma count_ops_bounds a : forall ops prev, 0 <= count_ops a prev ops <= 20 * zlen ops.
Proof.
  induction ops as [|o r IH]; intros prev; simpl count_ops.
  - unfold zlen; simpl; lia.
  - rewrite zlen_cons. pose proof (op_weight_bounds a prev (op_code o)). specialize (IH (op_code o)). lia.
Qed.

Lemma parse_ops_count_len : forall fuel s, zlen (fst (parse_ops fuel s)) <= zlen s.
Proof.
  induction fuel as [|f IH]; intros s; simpl.
  - exact (zlen_nonneg s).
  - destruct s as [|b s']; [apply Z.le_refl|].
    destruct (get_op (b :: s')) as [[o rest]|] eqn:E; [|simpl; exact (zlen_nonneg (b :: s'))].
    pose proof (get_op_rest_shorter _ _ _ E) as L. specialize (IH rest).
    destruct (parse_ops f rest) as [l ok]. simpl fst in *. rewrite zlen_cons. unfold zlen in *. lia.
Qed.

Lemma spec_sigops_bounds a s : 0 <= spec_sigops a s <= 20 * zlen s.
Proof.
  unfold spec_sigops, parse. pose proof (count_ops_bounds a (fst (parse_ops (length s) s)) 255).
  pose proof (parse_ops_count_len (length s) s). lia.
Qed.

(* ------------------------------------------------------------------------------------------ *)
(* the last push of a push-only scriptSig *)

Definition last_data_from (v : list Z) (ops : list op) : list Z := fold_left (fun _ o => op_data o) ops v.

Lemma last_data_fold ops : last_data ops = last_data_from [] ops.
Proof.
  unfold last_data, last_data_from. induction ops as [|o l IH] using rev_ind; [reflexivity|].
  rewrite rev_app_distr. simpl. rewrite fold_left_app. reflexivity.
Qed.

Lemma last_push_loop_spec : forall fuel s v, (length s <= fuel)%nat ->
  last_push_loop fuel s v =
  (let (ops, ok) := parse_ops fuel s in
   if ok && forallb (fun o => op_code o <=? 96) ops then Some (last_data_from v ops) else None).
Proof.
  induction fuel as [|f IH]; intros s v Hf.
  - destruct s; [reflexivity|simpl in Hf; lia].
  - simpl. destruct s as [|b s']; [reflexivity|].
    destruct (get_op (b :: s')) as [[o rest]|] eqn:E; [|reflexivity].
    pose proof (get_op_rest_shorter _ _ _ E) as L.
    change SIGOPS_OP_16 with 96.
    specialize (IH rest (op_data o)). destruct (parse_ops f rest) as [l ok] eqn:Ep.
    cbn [forallb]. replace (op_code o >? 96) with (negb (op_code o <=? 96)) by (rewrite Z.gtb_ltb, Z.ltb_antisym; reflexivity).
    destruct (op_code o <=? 96); cbn [negb andb].
    + rewrite IH by (simpl in *; lia). reflexivity.
    + rewrite andb_false_r. reflexivity.
Qed.

Lemma last_push_loop_redeem s : last_push_loop (length s) s [] = redeem_script s.
Proof.
  rewrite last_push_loop_spec by lia. unfold redeem_script, parse.
  destruct (parse_ops (length s) s) as [ops ok]. rewrite last_data_fold. reflexivity.
Qed.

(* the redeem script is part of the scriptSig: it is not longer *)
Lemma last_push_loop_len : forall fuel s v d, last_push_loop fuel s v = Some d -> (length d <= Nat.max (length v) (length s))%nat.
Proof.
  induction fuel as [|f IH]; intros s v d H.
  - simpl in H. inversion H; subst. lia.
  - simpl in H. destruct s as [|b s']; [inversion H; subst; lia|].
    destruct (get_op (b :: s')) as [[o rest]|] eqn:E; [|discriminate].
    pose proof (get_op_len _ _ _ E) as L.
    destruct (op_code o >? SIGOPS_OP_16); [discriminate|].
    apply IH in H. lia.
Qed.

Lemma redeem_script_len s d : redeem_script s = Some d -> zlen d <= zlen s.
Proof.
  rewrite <- last_push_loop_redeem. intros H. apply last_push_loop_len in H. simpl in H. unfold zlen. lia.
Qed.

(* ------------------------------------------------------------------------------------------ *)
(* P2SH recognition and GetSigOpCount(scriptSig) *)

Lemma is_p2sh_spec s : is_p2sh s = spec_is_p2sh s.
Proof.
  unfold is_p2sh, spec_is_p2sh. change SIGOPS_OP_HASH160 with 169. change SIGOPS_OP_EQUAL with 135.
  destruct s as [|a [|b r]].
  - reflexivity.
  - unfold zlen. simpl. destruct (a =? 169); reflexivity.
  - unfold byte_is at 1 2. simpl nth_error.
    replace (byte_is (a :: b :: r) 22 135) with (byte_is r 20 135) by reflexivity.
    replace (zlen (a :: b :: r) =? 23) with ((length r =? 21)%nat).
    2:{ unfold zlen. simpl length. destruct (Nat.eqb_spec (length r) 21); destruct (Z.eqb_spec (Z.of_nat (S (S (length r)))) 23); lia. }
    destruct ((length r =? 21)%nat); destruct (a =? 169); destruct (b =? 20); reflexivity.
Qed.

Theorem p2sh_sigop_count_spec spk scriptSig :
  zlen spk <= 200000000 -> zlen scriptSig <= 200000000 ->
  p2sh_sigop_count spk scriptSig = spec_p2sh_sigops spk scriptSig.
Proof.
  intros H1 H2. unfold p2sh_sigop_count, spec_p2sh_sigops. rewrite is_p2sh_spec.
  destruct (spec_is_p2sh spk); cbn [negb].
  - rewrite last_push_loop_redeem. destruct (redeem_script scriptSig) as [d|] eqn:E; [|reflexivity].
    apply get_sigop_count_spec. apply redeem_script_len in E. lia.
  - apply get_sigop_count_spec. exact H1.
Qed.

Lemma is_push_only_spec s : is_push_only s = match redeem_script s with Some _ => true | None => false end.
Proof. unfold is_push_only. rewrite last_push_loop_redeem. reflexivity. Qed.

(* ------------------------------------------------------------------------------------------ *)
(* witness programs *)

Lemma is_witness_program_spec s : script_bytes_ok s -> is_witness_program s = spec_witness_program s.
Proof.
  intros Hb. unfold is_witness_program, spec_witness_program.
  change SIGOPS_OP_0 with 0. change SIGOPS_OP_1 with 81. change SIGOPS_OP_16 with 96.
  destruct s as [|v [|n prog]].
  - reflexivity.
  - unfold zlen. simpl. reflexivity.
  - rewrite !zlen_cons. pose proof (zlen_nonneg prog) as Hp.
    unfold decode_op_n. change SIGOPS_OP_0 with 0. change (SIGOPS_OP_1 - 1) with 80.
    assert (0 <= n <= 255) as Hn.
    { unfold script_bytes_ok in Hb. inversion Hb as [|? ? _ Hb']; subst. inversion Hb'; subst. assumption. }
    destruct (Z.eqb_spec v 0) as [Ev|Nv]; cbn [negb andb orb].
    + destruct (Z.ltb_spec (zlen prog + 1 + 1) 4); destruct (Z.gtb_spec (zlen prog + 1 + 1) 42);
        destruct (Z.eqb_spec (n + 2) (zlen prog + 1 + 1)); destruct (Z.eqb_spec n (zlen prog));
        destruct (Z.leb_spec 2 n); destruct (Z.leb_spec n 40); cbn [negb andb orb]; try reflexivity; lia.
    + destruct (Z.ltb_spec v 81); destruct (Z.gtb_spec v 96); destruct (Z.leb_spec 81 v); destruct (Z.leb_spec v 96);
        try lia; cbn [negb andb orb];
        destruct (Z.ltb_spec (zlen prog + 1 + 1) 4); destruct (Z.gtb_spec (zlen prog + 1 + 1) 42);
        destruct (Z.eqb_spec (n + 2) (zlen prog + 1 + 1)); destruct (Z.eqb_spec n (zlen prog));
        destruct (Z.leb_spec 2 n); destruct (Z.leb_spec n 40); cbn [negb andb orb]; try reflexivity; lia.
Qed.

Lemma witness_sigops_spec v p stack :
  (forall top, In top stack -> zlen top <= 200000000) ->
  witness_sigops v p stack = spec_program_sigops (v, p) stack.
Proof.
  intros Hs. unfold witness_sigops, spec_program_sigops.
  change SIGOPS_WITNESS_V0_KEYHASH_SIZE with 20. change SIGOPS_WITNESS_V0_SCRIPTHASH_SIZE with 32.
  destruct (v =? 0); cbn [andb]; [|reflexivity].
  destruct (zlen p =? 20); [reflexivity|].
  destruct (zlen p =? 32); [|reflexivity].
  destruct (rev stack) as [|top r] eqn:E; [reflexivity|].
  apply get_sigop_count_spec. apply Hs. apply in_rev. rewrite E. left. reflexivity.
Qed.

Theorem count_witness_sigops_spec scriptSig spk stack :
  script_bytes_ok spk -> script_bytes_ok scriptSig ->
  (forall top, In top stack -> zlen top <= 200000000) ->
  count_witness_sigops true true scriptSig spk stack = Some (spec_witness_sigops scriptSig spk stack).
Proof.
  intros Hb1 Hb2 Hs. unfold count_witness_sigops, spec_witness_sigops. cbn [negb].
  rewrite is_witness_program_spec by exact Hb1.
  destruct (spec_witness_program spk) as [[v p]|].
  - rewrite witness_sigops_spec by exact Hs. reflexivity.
  - rewrite is_p2sh_spec. destruct (spec_is_p2sh spk); [|reflexivity].
    rewrite last_push_loop_redeem. destruct (redeem_script scriptSig) as [d|] eqn:E; [|reflexivity].
    assert (script_bytes_ok d) as Hd.
    { (* the redeem script's bytes are bytes of the scriptSig *)
      clear - E Hb2. rewrite <- last_push_loop_redeem in E.
      assert (forall fuel s v d, script_bytes_ok s -> script_bytes_ok v -> last_push_loop fuel s v = Some d -> script_bytes_ok d) as G.
      { induction fuel as [|f IH]; intros s v d0 Hs Hv H; simpl in H.
        - inversion H; subst; exact Hv.
        - destruct s as [|b s']; [inversion H; subst; exact Hv|].
          destruct (get_op (b :: s')) as [[o rest]|] eqn:Eg; [|discriminate].
          destruct (op_code o >? SIGOPS_OP_16); [discriminate|].
          assert (script_bytes_ok (op_data o) /\ script_bytes_ok rest) as [Ho Hr].
          { unfold get_op in Eg. unfold script_bytes_ok in *. inversion Hs as [|? ? Hb Hs']; subst.
            destruct (b <=? SIGOPS_OP_PUSHDATA4).
            - destruct (read_push_size b s') as [[n r1]|] eqn:Er; [|discriminate].
              assert (Forall (fun b => 0 <= b <= 255) r1) as Hr1.
              { unfold read_push_size in Er.
                destruct (b <? SIGOPS_OP_PUSHDATA1); [inversion Er; subst; exact Hs'|].
                destruct (b =? SIGOPS_OP_PUSHDATA1).
                { destruct s' as [|b0 r]; inversion Er; subst. inversion Hs'; assumption. }
                destruct (b =? SIGOPS_OP_PUSHDATA2).
                { destruct s' as [|b0 [|b1 r]]; inversion Er; subst. inversion Hs' as [|? ? _ X]; inversion X; assumption. }
                destruct s' as [|b0 [|b1 [|b2 [|b3 r]]]]; inversion Er; subst.
                inversion Hs' as [|? ? _ X1]; inversion X1 as [|? ? _ X2]; inversion X2 as [|? ? _ X3]; inversion X3; assumption. }
              destruct (zlen r1 <? n); [discriminate|]. inversion Eg; subst. simpl op_data.
              rewrite <- (firstn_skipn (Z.to_nat n) r1) in Hr1. apply Forall_app in Hr1. exact Hr1.
            - inversion Eg; subst. simpl. split; [constructor|exact Hs']. }
          exact (IH rest (op_data o) d0 Hr Ho H). }
      eapply G; [exact Hb2|constructor|exact E]. }
    rewrite is_witness_program_spec by exact Hd.
    destruct (spec_witness_program d) as [[v p]|]; [|reflexivity].
    rewrite witness_sigops_spec by exact Hs. reflexivity.
Qed.

(* without SCRIPT_VERIFY_WITNESS nothing is counted *)
Lemma count_witness_sigops_off flag_p2sh scriptSig spk stack : count_witness_sigops flag_p2sh false scriptSig spk stack = Some 0.
Proof. reflexivity. Qed.

(* ------------------------------------------------------------------------------------------ *)
(* transactions *)

Lemma zsum_nonneg l : (forall x, In x l -> 0 <= x) -> 0 <= zsum l.
Proof.
  induction l as [|a l IH]; intros H; simpl; [lia|].
  assert (0 <= a) by (apply H; left; reflexivity).
  assert (0 <= zsum l) by (apply IH; intros; apply H; right; assumption). lia.
Qed.

Lemma zsum_map_le {A} (f g : A -> Z) l : (forall x, In x l -> f x <= g x) -> zsum (map f l) <= zsum (map g l).
Proof.
  induction l as [|a l IH]; intros H; simpl; [lia|].
  assert (f a <= g a) by (apply H; left; reflexivity).
  assert (zsum (map f l) <= zsum (map g l)) by (apply IH; intros; apply H; right; assumption). lia.
Qed.

Lemma zsum_map_nonneg {A} (f : A -> Z) l : (forall x, In x l -> 0 <= f x) -> 0 <= zsum (map f l).
Proof.
  intros H. apply zsum_nonneg. intros x Hx. apply in_map_iff in Hx. destruct Hx as (y & <- & Hy). auto.
Qed.

Lemma zsum_map_scale {A} (f : A -> Z) k l : zsum (map (fun x => k * f x) l) = k * zsum (map f l).
Proof. induction l as [|a l IH]; simpl; [lia|]. rewrite IH. lia. Qed.

Lemma zsum_map_in_le {A} (f : A -> Z) l x : (forall y, In y l -> 0 <= f y) -> In x l -> f x <= zsum (map f l).
Proof.
  induction l as [|a l IH]; intros Hn Hx; [destruct Hx|]. simpl.
  assert (0 <= f a) by (apply Hn; left; reflexivity).
  assert (0 <= zsum (map f l)) by (apply zsum_map_nonneg; intros; apply Hn; right; assumption).
  destruct Hx as [->|Hx]; [lia|]. specialize (IH (fun y Hy => Hn y (or_intror Hy)) Hx). lia.
Qed.

Lemma fold_wrapu32_sum {A} (f g : A -> Z) : forall l acc,
  (forall x, In x l -> f x = g x) -> (forall x, In x l -> 0 <= g x) ->
  0 <= acc -> acc + zsum (map g l) <= UINT32_MAX ->
  fold_left (fun n x => wrapu32 (n + f x)) l acc = acc + zsum (map g l).
Proof.
  induction l as [|a l IH]; intros acc Hfg Hg Ha Hb; simpl; [lia|].
  assert (0 <= g a) by (apply Hg; left; reflexivity).
  assert (0 <= zsum (map g l)) by (apply zsum_map_nonneg; intros; apply Hg; right; assumption).
  simpl in Hb. rewrite (Hfg a (or_introl eq_refl)). rewrite wrapu32_id by lia.
  rewrite IH; [lia| | |lia|lia]; intros; [apply Hfg|apply Hg]; right; assumption.
Qed.

Definition in_bytes (i : sin) : Z := zlen (si_script_sig i) + zlen (si_prev_spk i) + zsum (map zlen (si_witness i)).

Lemma tx_script_bytes_eq t : tx_script_bytes t = zsum (map in_bytes (st_ins t)) + zsum (map zlen (st_outs t)).
Proof. reflexivity. Qed.

Lemma in_bytes_nonneg i : 0 <= in_bytes i.
Proof.
  unfold in_bytes. pose proof (zlen_nonneg (si_script_sig i)). pose proof (zlen_nonneg (si_prev_spk i)).
  assert (0 <= zsum (map zlen (si_witness i))) by (apply zsum_map_nonneg; intros; apply zlen_nonneg). lia.
Qed.

Lemma tx_parts_bounds t :
  0 <= zsum (map in_bytes (st_ins t)) /\ 0 <= zsum (map zlen (st_outs t)) /\
  (forall i, In i (st_ins t) -> in_bytes i <= zsum (map in_bytes (st_ins t))) /\
  (forall o, In o (st_outs t) -> zlen o <= zsum (map zlen (st_outs t))).
Proof.
  split; [apply zsum_map_nonneg; intros; apply in_bytes_nonneg|].
  split; [apply zsum_map_nonneg; intros; apply zlen_nonneg|].
  split; intros x Hx; apply zsum_map_in_le; auto; intros; [apply in_bytes_nonneg|apply zlen_nonneg].
Qed.

Theorem legacy_sigop_count_spec t : tx_script_bytes t <= 50000000 -> legacy_sigop_count t = spec_legacy t.
Proof.
  intros Hb. rewrite tx_script_bytes_eq in Hb. destruct (tx_parts_bounds t) as (B1 & B2 & B3 & B4).
  unfold legacy_sigop_count, spec_legacy.
  assert (zsum (map (fun i => spec_sigops false (si_script_sig i)) (st_ins t)) <= 20 * zsum (map in_bytes (st_ins t))) as L1.
  { rewrite <- zsum_map_scale. apply zsum_map_le. intros i Hi.
    pose proof (spec_sigops_bounds false (si_script_sig i)). pose proof (in_bytes_nonneg i). unfold in_bytes in *.
    pose proof (zlen_nonneg (si_prev_spk i)).
    assert (0 <= zsum (map zlen (si_witness i))) by (apply zsum_map_nonneg; intros; apply zlen_nonneg). lia. }
  assert (zsum (map (spec_sigops false) (st_outs t)) <= 20 * zsum (map zlen (st_outs t))) as L2.
  { rewrite <- zsum_map_scale. apply zsum_map_le. intros o Ho. apply spec_sigops_bounds. }
  assert (0 <= zsum (map (fun i => spec_sigops false (si_script_sig i)) (st_ins t))) as N1.
  { apply zsum_map_nonneg. intros. apply spec_sigops_bounds. }
  assert (0 <= zsum (map (spec_sigops false) (st_outs t))) as N2.
  { apply zsum_map_nonneg. intros. apply spec_sigops_bounds. }
  rewrite (fold_wrapu32_sum (fun i => get_sigop_count false (si_script_sig i)) (fun i => spec_sigops false (si_script_sig i))).
  - rewrite (fold_wrapu32_sum (get_sigop_count false) (spec_sigops false)); [lia| | |lia|unfold UINT32_MAX; lia].
    + intros o Ho. apply get_sigop_count_spec. specialize (B4 o Ho). lia.
    + intros o Ho. apply spec_sigops_bounds.
  - intros i Hi. apply get_sigop_count_spec. specialize (B3 i Hi). pose proof (in_bytes_nonneg i). unfold in_bytes in *.
    pose proof (zlen_nonneg (si_prev_spk i)).
    assert (0 <= zsum (map zlen (si_witness i))) by (apply zsum_map_nonneg; intros; apply zlen_nonneg). lia.
  - intros i Hi. apply spec_sigops_bounds.
  - lia.
  - unfold UINT32_MAX; lia.
Qed.

Lemma spec_legacy_bounds t : 0 <= spec_legacy t <= 20 * tx_script_bytes t.
Proof.
  rewrite tx_script_bytes_eq. unfold spec_legacy. split.
  - assert (0 <= zsum (map (fun i => spec_sigops false (si_script_sig i)) (st_ins t))) by (apply zsum_map_nonneg; intros; apply spec_sigops_bounds).
    assert (0 <= zsum (map (spec_sigops false) (st_outs t))) by (apply zsum_map_nonneg; intros; apply spec_sigops_bounds). lia.
  - assert (zsum (map (fun i => spec_sigops false (si_script_sig i)) (st_ins t)) <= 20 * zsum (map in_bytes (st_ins t))).
    { rewrite <- zsum_map_scale. apply zsum_map_le. intros i Hi.
      pose proof (spec_sigops_bounds false (si_script_sig i)). unfold in_bytes.
      pose proof (zlen_nonneg (si_prev_spk i)).
      assert (0 <= zsum (map zlen (si_witness i))) by (apply zsum_map_nonneg; intros; apply zlen_nonneg). lia. }
    assert (zsum (map (spec_sigops false) (st_outs t)) <= 20 * zsum (map zlen (st_outs t))).
    { rewrite <- zsum_map_scale. apply zsum_map_le. intros o Ho. apply spec_sigops_bounds. }
    lia.
Qed.

Lemma spec_p2sh_sigops_bounds spk ss : 0 <= spec_p2sh_sigops spk ss <= 20 * (zlen spk + zlen ss).
Proof.
  unfold spec_p2sh_sigops. pose proof (zlen_nonneg spk). pose proof (zlen_nonneg ss).
  destruct (spec_is_p2sh spk).
  - destruct (redeem_script ss) as [d|] eqn:E; [|lia].
    apply redeem_script_len in E. pose proof (spec_sigops_bounds true d). lia.
  - pose proof (spec_sigops_bounds true spk). lia.
Qed.

Definition p2sh_term (i : sin) : Z := if spec_is_p2sh (si_prev_spk i) then spec_p2sh_sigops (si_prev_spk i) (si_script_sig i) else 0.

Lemma p2sh_term_bounds i : 0 <= p2sh_term i <= 20 * in_bytes i.
Proof.
  unfold p2sh_term, in_bytes. pose proof (spec_p2sh_sigops_bounds (si_prev_spk i) (si_script_sig i)).
  pose proof (zlen_nonneg (si_prev_spk i)). pose proof (zlen_nonneg (si_script_sig i)).
  assert (0 <= zsum (map zlen (si_witness i))) by (apply zsum_map_nonneg; intros; apply zlen_nonneg).
  destruct (spec_is_p2sh (si_prev_spk i)); lia.
Qed.

Lemma p2sh_fold_spec : forall l acc,
  (forall i, In i l -> in_bytes i <= 200000000) ->
  0 <= acc -> acc + 20 * zsum (map in_bytes l) <= UINT32_MAX ->
  fold_left (fun n i => if is_p2sh (si_prev_spk i) then wrapu32 (n + p2sh_sigop_count (si_prev_spk i) (si_script_sig i)) else n) l acc
  = acc + zsum (map p2sh_term l).
Proof.
  induction l as [|i l IH]; intros acc Hsz Ha Hb; simpl; [lia|].
  pose proof (p2sh_term_bounds i) as Pb. pose proof (in_bytes_nonneg i) as Ib.
  assert (0 <= zsum (map in_bytes l)) by (apply zsum_map_nonneg; intros; apply in_bytes_nonneg).
  cbn [map zsum] in Hb.
  assert (in_bytes i <= 200000000) as Hi by (apply Hsz; left; reflexivity).
  unfold p2sh_term in *. rewrite is_p2sh_spec. destruct (spec_is_p2sh (si_prev_spk i)) eqn:Ep.
  - rewrite p2sh_sigop_count_spec.
    2:{ unfold in_bytes in Hi. pose proof (zlen_nonneg (si_script_sig i)).
        assert (0 <= zsum (map zlen (si_witness i))) by (apply zsum_map_nonneg; intros; apply zlen_nonneg). lia. }
    2:{ unfold in_bytes in Hi. pose proof (zlen_nonneg (si_prev_spk i)).
        assert (0 <= zsum (map zlen (si_witness i))) by (apply zsum_map_nonneg; intros; apply zlen_nonneg). lia. }
    rewrite wrapu32_id by lia. rewrite IH; [lia| |lia|lia]. intros; apply Hsz; right; assumption.
  - rewrite IH; [lia| |lia|lia]. intros; apply Hsz; right; assumption.
Qed.

Theorem p2sh_sigop_count_tx_spec t : tx_script_bytes t <= 50000000 ->
  p2sh_sigop_count_tx t = if st_coinbase t then 0 else spec_p2sh_tx t.
Proof.
  intros Hb. rewrite tx_script_bytes_eq in Hb. destruct (tx_parts_bounds t) as (B1 & B2 & B3 & B4).
  unfold p2sh_sigop_count_tx. destruct (st_coinbase t); [reflexivity|].
  rewrite p2sh_fold_spec; [reflexivity| |lia|unfold UINT32_MAX; lia].
  intros i Hi. specialize (B3 i Hi). lia.
Qed.

Lemma spec_p2sh_tx_bounds t : 0 <= spec_p2sh_tx t <= 20 * tx_script_bytes t.
Proof.
  rewrite tx_script_bytes_eq. destruct (tx_parts_bounds t) as (B1 & B2 & _ & _).
  change (spec_p2sh_tx t) with (zsum (map p2sh_term (st_ins t))). split.
  - apply zsum_map_nonneg. intros; apply p2sh_term_bounds.
  - assert (zsum (map p2sh_term (st_ins t)) <= 20 * zsum (map in_bytes (st_ins t))).
    { rewrite <- zsum_map_scale. apply zsum_map_le. intros; apply p2sh_term_bounds. }
    lia.
Qed.

Lemma spec_witness_program_nonempty s vp : spec_witness_program s = Some vp -> 1 <= zlen s.
Proof. destruct s; [discriminate|]. intros _. rewrite zlen_cons. pose proof (zlen_nonneg s). lia. Qed.

Lemma spec_is_p2sh_nonempty s : spec_is_p2sh s = true -> 1 <= zlen s.
Proof. destruct s; [discriminate|]. intros _. rewrite zlen_cons. pose proof (zlen_nonneg s). lia. Qed.

Lemma spec_program_sigops_bounds vp stack : 0 <= spec_program_sigops vp stack <= Z.max 1 (20 * zsum (map zlen stack)).
Proof.
  destruct vp as [v p]. unfold spec_program_sigops.
  assert (0 <= zsum (map zlen stack)) by (apply zsum_map_nonneg; intros; apply zlen_nonneg).
  destruct ((v =? 0) && (zlen p =? 20)); [lia|].
  destruct ((v =? 0) && (zlen p =? 32)); [|lia].
  destruct (rev stack) as [|top r] eqn:E; [lia|].
  assert (In top stack) as Hin by (apply in_rev; rewrite E; left; reflexivity).
  pose proof (zsum_map_in_le zlen stack top (fun y _ => zlen_nonneg y) Hin).
  pose proof (spec_sigops_bounds true top). lia.
Qed.

Lemma spec_witness_sigops_bounds i : 0 <= spec_witness_sigops (si_script_sig i) (si_prev_spk i) (si_witness i) <= 20 * in_bytes i.
Proof.
  unfold spec_witness_sigops, in_bytes.
  pose proof (zlen_nonneg (si_script_sig i)). pose proof (zlen_nonneg (si_prev_spk i)).
  assert (0 <= zsum (map zlen (si_witness i))) by (apply zsum_map_nonneg; intros; apply zlen_nonneg).
  destruct (spec_witness_program (si_prev_spk i)) as [vp|] eqn:E.
  - apply spec_witness_program_nonempty in E. pose proof (spec_program_sigops_bounds vp (si_witness i)). lia.
  - destruct (spec_is_p2sh (si_prev_spk i)) eqn:Ep; [|lia]. apply spec_is_p2sh_nonempty in Ep.
    destruct (redeem_script (si_script_sig i)) as [d|]; [|lia].
    destruct (spec_witness_program d) as [vp|]; [|lia].
    pose proof (spec_program_sigops_bounds vp (si_witness i)). lia.
Qed.

Definition ins_bytes_ok (l : list sin) : Prop :=
  forall i, In i l -> script_bytes_ok (si_script_sig i) /\ script_bytes_ok (si_prev_spk i).

Lemma witness_cost_loop_on : forall l n,
  ins_bytes_ok l -> (forall i, In i l -> in_bytes i <= 200000000) ->
  0 <= n -> n + 20 * zsum (map in_bytes l) <= INT64_MAX ->
  witness_cost_loop true true l n =
  Some (n + zsum (map (fun i => spec_witness_sigops (si_script_sig i) (si_prev_spk i) (si_witness i)) l)).
Proof.
  induction l as [|i l IH]; intros n Hok Hsz Hn Hb; simpl; [f_equal; lia|].
  destruct (Hok i (or_introl eq_refl)) as [Ok1 Ok2].
  assert (in_bytes i <= 200000000) as Hi by (apply Hsz; left; reflexivity).
  pose proof (in_bytes_nonneg i) as Ib.
  assert (0 <= zsum (map in_bytes l)) by (apply zsum_map_nonneg; intros; apply in_bytes_nonneg).
  cbn [map zsum] in Hb.
  rewrite count_witness_sigops_spec; [|exact Ok2|exact Ok1|].
  2:{ intros top Ht. pose proof (zsum_map_in_le zlen (si_witness i) top (fun y _ => zlen_nonneg y) Ht).
      unfold in_bytes in Hi. pose proof (zlen_nonneg (si_script_sig i)). pose proof (zlen_nonneg (si_prev_spk i)). lia. }
  pose proof (spec_witness_sigops_bounds i) as Wb.
  rewrite wrap64_id by (unfold INT64_MIN; lia).
  rewrite IH; [f_equal; lia| | |lia|lia].
  - intros j Hj. apply Hok. right. exact Hj.
  - intros j Hj. apply Hsz. right. exact Hj.
Qed.

Lemma witness_cost_loop_off flag_p2sh : forall l n, INT64_MIN <= n <= INT64_MAX -> witness_cost_loop flag_p2sh false l n = Some n.
Proof.
  induction l as [|i l IH]; intros n Hn; simpl; [reflexivity|].
  rewrite Z.add_0_r, wrap64_id by exact Hn. apply IH. exact Hn.
Qed.

(* GetTransactionSigOpCost = 4*legacy + 4*P2SH + witness (SCRIPT_VERIFY_WITNESS is only ever set together with P2SH) *)
Theorem tx_sigop_cost_spec flag_p2sh flag_witness t :
  (flag_witness = true -> flag_p2sh = true) ->
  ins_bytes_ok (st_ins t) -> tx_script_bytes t <= 50000000 ->
  tx_sigop_cost flag_p2sh flag_witness t = Some (spec_tx_cost flag_p2sh flag_witness t).
Proof.
  intros Hfl Hok Hb. unfold tx_sigop_cost, spec_tx_cost.
  rewrite legacy_sigop_count_spec by exact Hb.
  pose proof (spec_legacy_bounds t) as Lb. pose proof (spec_p2sh_tx_bounds t) as Pb.
  change WITNESS_SCALE_FACTOR with 4.
  rewrite wrapu32_id by (unfold UINT32_MAX; lia).
  destruct (st_coinbase t) eqn:Ecb; [f_equal; lia|].
  rewrite p2sh_sigop_count_tx_spec by exact Hb. rewrite Ecb.
  rewrite wrapu32_id by (unfold UINT32_MAX; lia).
  pose proof (tx_script_bytes_eq t) as Eb. destruct (tx_parts_bounds t) as (B1 & B2 & B3 & B4).
  destruct flag_p2sh.
  - rewrite wrap64_id by (unfold INT64_MIN, INT64_MAX; lia).
    destruct flag_witness.
    + rewrite witness_cost_loop_on; [f_equal; unfold spec_witness_tx; lia|exact Hok| |lia|unfold INT64_MAX; lia].
      intros i Hi. specialize (B3 i Hi). lia.
    + rewrite witness_cost_loop_off by (unfold INT64_MIN, INT64_MAX; lia). f_equal. lia.
  - destruct flag_witness; [specialize (Hfl eq_refl); discriminate|].
    rewrite witness_cost_loop_off by (unfold INT64_MIN, INT64_MAX; lia). f_equal. lia.
Qed.
