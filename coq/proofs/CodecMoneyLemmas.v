(* Proofs about model/CodecMoney.v: ParseMoney (FormatMoney n) = n on [0, MAX_MONEY]. *)
From Coq Require Import NArith.
From BV Require Import lib.Ints gen.Params_gen model.SerBase model.Codec model.CodecMoney proofs.SerBaseLemmas.
Local Open Scope Z_scope.

Lemma coin_value : COIN = 100000000. Proof. reflexivity. Qed.
Lemma max_money_value : MAX_MONEY = 2100000000000000. Proof. reflexivity. Qed.

(* a decimal digit character *)
Definition dchar (c : N) : Prop := is_digit c = true.
Lemma digit_char_facts d : 0 <= d <= 9 ->
  is_digit (digit_char d) = true /\ Z.of_N (digit_char d) - 48 = d /\ is_space (digit_char d) = false /\
  (digit_char d =? 46)%N = false /\ (digit_char d =? 0)%N = false.
Proof.
  intros H. assert (C : d = 0 \/ d = 1 \/ d = 2 \/ d = 3 \/ d = 4 \/ d = 5 \/ d = 6 \/ d = 7 \/ d = 8 \/ d = 9) by lia.
  destruct C as [->|[->|[->|[->|[->|[->|[->|[->|[->| ->]]]]]]]]]; vm_compute; repeat split; reflexivity.
Qed.

(* all characters of a string are digits, none is a NUL, a space or a '.' *)
Definition plain_digits (s : list N) : Prop :=
  Forall (fun c => is_digit c = true /\ is_space c = false /\ (c =? 46)%N = false /\ (c =? 0)%N = false) s.

Lemma digit_plain d : 0 <= d <= 9 -> plain_digits [digit_char d].
Proof. intros H. destruct (digit_char_facts d H) as [A [_ [B [C D]]]]. constructor; [tauto|constructor]. Qed.

Definition atoi_from (a : Z) (s : list N) : Z := fold_left (fun a c => a * 10 + (Z.of_N c - 48)) s a.
Lemma atoi_from_app a x y : atoi_from a (x ++ y) = atoi_from (atoi_from a x) y.
Proof. unfold atoi_from. apply fold_left_app. Qed.

(* "%d" *)
Lemma dec_str_spec fuel : forall k, 0 <= k < 10 ^ Z.of_nat fuel -> (1 <= fuel)%nat ->
  plain_digits (dec_str fuel k) /\ (1 <= length (dec_str fuel k) <= fuel)%nat /\
  forall a, atoi_from a (dec_str fuel k) = a * 10 ^ Z.of_nat (length (dec_str fuel k)) + k.
Proof.
  induction fuel as [|f IH]; intros k Hk Hf; [lia|].
  cbn [dec_str]. destruct (k <? 10) eqn:E.
  - split; [apply digit_plain; lia|]. split; [cbn; lia|]. intros a. cbn [atoi_from fold_left length].
    destruct (digit_char_facts k ltac:(lia)) as [_ [V _]]. rewrite V. change (10 ^ Z.of_nat 1) with 10. lia.
  - assert (Hf' : (1 <= f)%nat).
    { destruct f; [|lia]. change (10 ^ Z.of_nat 1) with 10 in Hk. lia. }
    rewrite Nat2Z.inj_succ, Z.pow_succ_r in Hk by lia.
    destruct (IH (k / 10) ltac:(lia) Hf') as [P [L A]].
    pose proof (Z.mod_pos_bound k 10 ltac:(lia)) as Hm.
    split; [apply Forall_app; split; [exact P|apply digit_plain; lia]|].
    split; [rewrite app_length; cbn [length]; lia|].
    intros a. rewrite atoi_from_app, A. cbn [atoi_from fold_left].
    destruct (digit_char_facts (k mod 10) ltac:(lia)) as [_ [V _]]. rewrite V.
    rewrite app_length. cbn [length]. rewrite Nat2Z.inj_add. change (Z.of_nat 1) with 1.
    rewrite Z.pow_add_r by lia. change (10 ^ 1) with 10. lia.
Qed.

Lemma dec_str_len fuel : forall k j, 0 <= k < 10 ^ Z.of_nat j -> (1 <= j)%nat -> (length (dec_str fuel k) <= j)%nat.
Proof.
  induction fuel as [|f IH]; intros k j Hk Hj; [cbn; lia|].
  cbn [dec_str]. destruct (k <? 10) eqn:E; [cbn; lia|].
  rewrite app_length. cbn [length].
  destruct j as [|j]; [lia|]. destruct j as [|j]; [change (10 ^ Z.of_nat 1) with 10 in Hk; lia|].
  rewrite Nat2Z.inj_succ, Z.pow_succ_r in Hk by lia.
  specialize (IH (k / 10) (S j) ltac:(lia) ltac:(lia)). lia.
Qed.

(* "%0<w>d": most significant digit first *)
Lemma dec_fixed_plain w : forall k, 0 <= k -> plain_digits (dec_fixed w k) /\ length (dec_fixed w k) = w.
Proof.
  induction w as [|w IH]; intros k Hk; [split; [constructor|reflexivity]|].
  cbn [dec_fixed]. destruct (IH (k / 10) ltac:(apply Z.div_pos; lia)) as [P L].
  pose proof (Z.mod_pos_bound k 10 ltac:(lia)) as Hm.
  split; [apply Forall_app; split; [exact P|apply digit_plain; lia]|]. rewrite app_length, L. cbn. lia.
Qed.

(* value of the decimals as ParseMoney accumulates it: the first digit weighs m, the next m/10, ... *)
Fixpoint uval (s : list N) (m : Z) : Z :=
  match s with [] => 0 | c :: r => m * (Z.of_N c - 48) + uval r (m / 10) end.

Lemma uval_snoc s : forall j c, (length s <= j)%nat ->
  uval (s ++ [c]) (10 ^ Z.of_nat j) = uval s (10 ^ Z.of_nat j) + 10 ^ Z.of_nat (j - length s) * (Z.of_N c - 48).
Proof.
  induction s as [|x s IH]; intros j c L.
  - cbn [app uval length]. rewrite Nat.sub_0_r. lia.
  - cbn [app uval length] in *. destruct j as [|j]; [lia|].
    assert (E : 10 ^ Z.of_nat (S j) / 10 = 10 ^ Z.of_nat j).
    { rewrite Nat2Z.inj_succ, Z.pow_succ_r by lia. rewrite Z.mul_comm, Z.div_mul by lia. reflexivity. }
    rewrite E. rewrite IH by lia. replace (S j - S (length s))%nat with (j - length s)%nat by lia. lia.
Qed.

Lemma uval_dec_fixed w : forall k, 0 <= k < 10 ^ Z.of_nat w -> forall j, (w <= S j)%nat ->
  uval (dec_fixed w k) (10 ^ Z.of_nat j) = k * 10 ^ Z.of_nat (j + 1 - w).
Proof.
  induction w as [|w IH]; intros k Hk j Hj.
  - change (10 ^ Z.of_nat 0) with 1 in Hk. cbn [dec_fixed uval]. lia.
  - cbn [dec_fixed]. rewrite Nat2Z.inj_succ, Z.pow_succ_r in Hk by lia.
    destruct (dec_fixed_plain w (k / 10) ltac:(apply Z.div_pos; lia)) as [_ L].
    rewrite uval_snoc by lia. rewrite L. rewrite IH by lia.
    pose proof (Z.mod_pos_bound k 10 ltac:(lia)) as Hm.
    destruct (digit_char_facts (k mod 10) ltac:(lia)) as [_ [V _]]. rewrite V.
    replace (j + 1 - w)%nat with (S (j - w)) by lia. replace (j + 1 - S w)%nat with (j - w)%nat by lia.
    rewrite Nat2Z.inj_succ, Z.pow_succ_r by lia.
    pose proof (Z.div_mod k 10 ltac:(lia)). nia.
Qed.

Lemma uval_zeros t : forall s m, uval (s ++ repeat 48%N t) m = uval s m.
Proof.
  intros s. induction s as [|x s IH]; intros m.
  - cbn [app]. revert m. induction t as [|t IHt]; intros m; [reflexivity|]. cbn [repeat uval]. rewrite IHt. cbn. lia.
  - cbn [app uval]. rewrite IH. reflexivity.
Qed.

(* the decimals loop consumes a string of at most j+1 digits completely when it starts at 10^j *)
Lemma pm_units_digits s : forall j u, plain_digits s -> (length s <= S j)%nat ->
  pm_units s (10 ^ Z.of_nat j) u = (u + uval s (10 ^ Z.of_nat j), []).
Proof.
  induction s as [|c s IH]; intros j u P L; [cbn; f_equal; lia|].
  inversion P as [|? ? [Hc _] Ps]; subst. cbn [pm_units uval]. rewrite Hc.
  assert (Hp : 0 < 10 ^ Z.of_nat j) by (apply Z.pow_pos_nonneg; lia).
  assert (E : (10 ^ Z.of_nat j >? 0) = true) by lia. rewrite E. cbn [andb].
  rewrite cdiv_nonneg by lia.
  destruct s as [|c2 s2].
  - cbn [pm_units uval]. f_equal. lia.
  - cbn [length] in L. destruct j as [|j]; [lia|].
    assert (E2 : 10 ^ Z.of_nat (S j) / 10 = 10 ^ Z.of_nat j).
    { rewrite Nat2Z.inj_succ, Z.pow_succ_r by lia. rewrite Z.mul_comm, Z.div_mul by lia. reflexivity. }
    rewrite E2. rewrite IH by (try assumption; cbn [length]; lia). f_equal. lia.
Qed.

(* trimming: some trailing '0' characters are removed, nothing else *)
Lemma trim_zeros_spec k : forall l, exists t, (t <= k)%nat /\ l = repeat 48%N t ++ trim_zeros k l.
Proof.
  induction k as [|k IH]; intros l; [exists 0%nat; split; [lia|destruct l; reflexivity]|].
  destruct l as [|c r]; [exists 0%nat; split; [lia|reflexivity]|].
  cbn [trim_zeros]. destruct (c =? 48)%N eqn:E.
  - apply N.eqb_eq in E. subst c. destruct (IH r) as [t [Ht Er]]. exists (S t). split; [lia|].
    cbn [repeat app]. rewrite <- Er. reflexivity.
  - exists 0%nat. split; [lia|reflexivity].
Qed.

Lemma rev_repeat {A} (x : A) n : rev (repeat x n) = repeat x n.
Proof.
  induction n as [|n IH]; [reflexivity|]. cbn [repeat rev]. rewrite IH.
  clear IH. induction n as [|n IH]; [reflexivity|]. cbn [repeat app]. rewrite IH. reflexivity.
Qed.

Lemma drop_while_plain s : plain_digits s -> drop_while is_space s = s.
Proof. intros H. destruct s as [|c r]; [reflexivity|]. inversion H as [|? ? [_ [Hs _]] _]; subst. cbn [drop_while]. rewrite Hs. reflexivity. Qed.

Lemma pm_whole_digits w rest : plain_digits w -> pm_whole (w ++ 46%N :: rest) = Some (w, Some rest).
Proof.
  induction 1 as [|c r [Hd [Hs [Hp _]]] Hr IH]; [reflexivity|].
  cbn [app pm_whole]. rewrite Hp, Hs, Hd. cbn [negb]. rewrite IH. reflexivity.
Qed.

(* ROUND TRIP on the money range *)
Lemma money_roundtrip n : 0 <= n <= MAX_MONEY -> parse_money (format_money n) = Some n.
Proof.
  rewrite max_money_value. intros Hn. unfold format_money. rewrite coin_value.
  assert (En : (n <? 0) = false) by lia. rewrite En. cbn [app].
  rewrite !cdiv_nonneg by lia. unfold cmod. rewrite Z.rem_mod_nonneg by lia.
  set (q := n / 100000000). set (r := n mod 100000000).
  assert (Hq : 0 <= q <= 21000000) by (unfold q; lia).
  assert (Hr : 0 <= r < 100000000) by (unfold r; lia).
  destruct (dec_str_spec 20 q ltac:(change (10 ^ Z.of_nat 20) with 100000000000000000000; lia) ltac:(lia)) as [PW [LW AW]].
  assert (LW8 : (length (dec_str 20 q) <= 10)%nat).
  { pose proof (dec_str_len 20 q 8 ltac:(change (10 ^ Z.of_nat 8) with 100000000; lia) ltac:(lia)). lia. }
  destruct (dec_fixed_plain 8 r ltac:(lia)) as [PD LD].
  destruct (trim_zeros_spec 6 (rev (dec_fixed 8 r))) as [t [Ht Et]].
  set (dec := rev (trim_zeros 6 (rev (dec_fixed 8 r)))) in *.
  assert (Edec : dec_fixed 8 r = dec ++ repeat 48%N t).
  { rewrite <- (rev_involutive (dec_fixed 8 r)). rewrite Et at 1. rewrite rev_app_distr, rev_repeat. reflexivity. }
  assert (Pdec : plain_digits dec).
  { rewrite Edec in PD. apply Forall_app in PD. tauto. }
  assert (Ldec : (length dec <= 8)%nat).
  { rewrite <- LD. rewrite Edec, app_length. lia. }
  (* the whole string: digits '.' digits *)
  set (s := dec_str 20 q ++ 46%N :: dec).
  assert (Ps : Forall (fun c => is_space c = false /\ (c =? 0)%N = false) s).
  { unfold s. apply Forall_app. split; [eapply Forall_impl; [|exact PW]; cbv beta; tauto|].
    constructor; [split; reflexivity|]. eapply Forall_impl; [|exact Pdec]. cbv beta. tauto. }
  unfold parse_money. rewrite !coin_value, !max_money_value.
  assert (Hnul : existsb (fun c => (c =? 0)%N) s = false).
  { clear -Ps. induction Ps as [|c l [_ Hc] Hl IH]; [reflexivity|]. cbn [existsb]. rewrite Hc, IH. reflexivity. }
  rewrite Hnul.
  (* no white space at either end *)
  assert (Htrim : trim_string s = s).
  { unfold trim_string.
    assert (D1 : drop_while is_space s = s).
    { unfold s. destruct (dec_str 20 q) as [|c0 r0] eqn:Ew; [cbn in LW; lia|].
      cbn [app drop_while]. inversion PW as [|? ? [_ [Hs0 _]] _]; subst. rewrite Hs0. reflexivity. }
    rewrite D1.
    assert (D2 : drop_while is_space (rev s) = rev s).
    { destruct (rev s) as [|c0 r0] eqn:Er; [reflexivity|]. cbn [drop_while].
      assert (Hin : In c0 s) by (apply in_rev; rewrite Er; left; reflexivity).
      rewrite Forall_forall in Ps. destruct (Ps c0 Hin) as [Hs0 _]. rewrite Hs0. reflexivity. }
    rewrite D2. apply rev_involutive. }
  rewrite Htrim.
  destruct s as [|c0 s0] eqn:Es; [unfold s in Es; destruct (dec_str 20 q); discriminate|]. rewrite <- Es. clear Es.
  unfold s at 1. rewrite pm_whole_digits by exact PW.
  change (cdiv 100000000 10) with (10 ^ Z.of_nat 7).
  rewrite pm_units_digits by (try exact Pdec; lia).
  assert (Hu : uval dec (10 ^ Z.of_nat 7) = r).
  { rewrite <- (uval_zeros t dec). rewrite <- Edec. rewrite uval_dec_fixed by (try lia; change (10 ^ Z.of_nat 8) with 100000000; lia).
    change (10 ^ Z.of_nat (7 + 1 - 8)) with 1. lia. }
  rewrite Hu. cbn [Z.add].
  assert (E10 : (10 <? length (dec_str 20 q))%nat = false) by (apply Nat.ltb_ge; lia). rewrite E10.
  assert (Eu : (r <? 0) || (r >? 100000000) = false) by lia. rewrite Eu.
  assert (Ea : atoi_digits (dec_str 20 q) = q).
  { unfold atoi_digits. fold (atoi_from 0 (dec_str 20 q)). rewrite AW. lia. }
  rewrite Ea.
  rewrite (wrap64_id (q * 100000000)) by (unfold INT64_MIN, INT64_MAX; lia).
  rewrite wrap64_id by (unfold INT64_MIN, INT64_MAX; lia).
  assert (Ev : q * 100000000 + r = n) by (unfold q, r; lia). rewrite Ev.
  assert (Er : (0 <=? n) && (n <=? 2100000000000000) = true) by lia. rewrite Er. reflexivity.
Qed.
