(* The hash premises of the C10 commitment theorems (32-byte output, injective, never the all-zero
   value, never uint256::ONE) are jointly satisfiable: an explicit injective function from byte lists
   to 32-element lists (list elements are unbounded N, so no pigeonhole applies).  Used only by the
   non-vacuity example; it says nothing about SHA-256. *)
From Coq Require Import NArith.
From BV Require Import lib.Ints model.SerBase model.SigHash.
Local Open Scope N_scope.

(* pairing N x N -> N: 2^a * (2b+1) *)
Definition npair (a b : N) : N := 2 ^ a * (2 * b + 1).

Lemma npair_pos a b : 0 < npair a b.
Proof. unfold npair. apply N.mul_pos_pos; [apply N.neq_0_lt_0; apply N.pow_nonzero; discriminate | lia]. Qed.

Lemma odd_not_even_pow k x y : 0 < k -> 2 * x + 1 <> 2 ^ k * y.
Proof.
  intros Hk E. replace k with (N.succ (N.pred k)) in E by (apply N.succ_pred; lia).
  rewrite N.pow_succ_r' in E. lia.
Qed.

Lemma npair_inj a b a' b' : npair a b = npair a' b' -> a = a' /\ b = b'.
Proof.
  unfold npair. intros E.
  destruct (N.lt_trichotomy a a') as [Hlt|[Heq|Hgt]].
  - exfalso. replace a' with (a + (a' - a)) in E by lia. rewrite N.pow_add_r, <- N.mul_assoc in E.
    apply N.mul_cancel_l in E; [|apply N.pow_nonzero; discriminate].
    apply (odd_not_even_pow (a' - a) b (2 * b' + 1)); [lia | exact E].
  - subst a'. apply N.mul_cancel_l in E; [|apply N.pow_nonzero; discriminate]. split; [reflexivity | lia].
  - exfalso. replace a with (a' + (a - a')) in E by lia. rewrite N.pow_add_r, <- N.mul_assoc in E.
    apply N.mul_cancel_l in E; [|apply N.pow_nonzero; discriminate].
    apply (odd_not_even_pow (a - a') b' (2 * b + 1)); [lia | symmetry; exact E].
Qed.

(* lists: [] -> 3 (odd), a :: r -> 2 * pair a (code r) (even, >= 2): never 0 or 1 *)
Fixpoint ncode (l : list N) : N := match l with [] => 3 | a :: r => 2 * npair a (ncode r) end.

Lemma ncode_inj l : forall l', ncode l = ncode l' -> l = l'.
Proof.
  induction l as [|a r IH]; intros [|a' r'] E; cbn [ncode] in E.
  - reflexivity.
  - exfalso. lia.
  - exfalso. lia.
  - assert (E' : npair a (ncode r) = npair a' (ncode r')) by lia.
    apply npair_inj in E'. destruct E' as [-> E']. f_equal. apply IH. exact E'.
Qed.

Lemma ncode_ge2 l : 2 <= ncode l.
Proof. destruct l as [|a r]; cbn [ncode]; [lia|]. pose proof (npair_pos a (ncode r)). lia. Qed.

Definition toy_hash (x : list N) : list N := ncode x :: repeat 0 31.

Lemma toy_hash_len x : length (toy_hash x) = 32%nat.
Proof. reflexivity. Qed.
Lemma toy_hash_inj x y : toy_hash x = toy_hash y -> x = y.
Proof. unfold toy_hash. intros E. injection E as E. apply ncode_inj. exact E. Qed.
Lemma toy_hash_nz x : toy_hash x <> zero32.
Proof. unfold toy_hash, zero32. cbn [repeat]. intros E. injection E as E. pose proof (ncode_ge2 x). lia. Qed.
Lemma toy_hash_not_one x : toy_hash x <> one32.
Proof. unfold toy_hash, one32. intros E. injection E as E. pose proof (ncode_ge2 x). lia. Qed.
