(* Proofs about the byte-level primitives of model/SerBase.v *)
From Coq Require Import NArith.
From BV Require Import lib.Ints gen.Params_gen model.SerBase.
Local Open Scope Z_scope.

(* ------------------------------------------------------------------------------------------ *)
(* bit operations as arithmetic *)

Lemma land_shiftl_small a b k : 0 <= k -> 0 <= b < 2 ^ k -> Z.land (Z.shiftl a k) b = 0.
Proof.
  intros Hk Hb. apply Z.bits_inj'. intros n Hn. rewrite Z.land_spec, Z.bits_0.
  destruct (Z_lt_le_dec n k) as [Hlt|Hge].
  - rewrite Z.shiftl_spec_low by lia. reflexivity.
  - assert (Hbit : Z.testbit b n = false).
    { destruct (Z.eq_dec b 0) as [->|Hnz]; [apply Z.bits_0|].
      apply Z.bits_above_log2; [lia|].
      assert (Z.log2 b < k) by (apply Z.log2_lt_pow2; lia). lia. }
    rewrite Hbit. apply andb_false_r.
Qed.

Lemma lor_shiftl_small a b k : 0 <= k -> 0 <= b < 2 ^ k -> Z.lor (Z.shiftl a k) b = a * 2 ^ k + b.
Proof.
  intros Hk Hb. rewrite <- Z.lxor_lor by (apply land_shiftl_small; lia).
  rewrite <- Z.add_nocarry_lxor by (apply land_shiftl_small; lia).
  rewrite Z.shiftl_mul_pow2 by lia. reflexivity.
Qed.

Lemma lor_mul128 a b : 0 <= b < 128 -> Z.lor (a * 128) b = a * 128 + b.
Proof.
  intros Hb. pose proof (lor_shiftl_small a b 7 ltac:(lia)) as H. change (2 ^ 7) with 128 in H.
  rewrite Z.shiftl_mul_pow2 in H by lia. change (2 ^ 7) with 128 in H. apply H. lia.
Qed.

Lemma land127 n : 0 <= n -> Z.land n 127 = n mod 128.
Proof. intros. change 127 with (Z.ones 7). rewrite Z.land_ones by lia. reflexivity. Qed.

Lemma lor_128_small b : 0 <= b < 128 -> Z.lor b 128 = b + 128.
Proof. intros. rewrite Z.lor_comm. change 128 with (1 * 128). rewrite lor_mul128 by lia. lia. Qed.

(* facts about one byte, by running through all 256 values *)
Definition all_bytes : list Z := map Z.of_nat (seq 0 256).
Lemma all_bytes_complete ch : 0 <= ch < 256 -> In ch all_bytes.
Proof.
  intros. unfold all_bytes. apply in_map_iff. exists (Z.to_nat ch). split; [lia|]. apply in_seq. lia.
Qed.
Lemma byte_forall (P : Z -> bool) : forallb P all_bytes = true -> forall ch, 0 <= ch < 256 -> P ch = true.
Proof. intros H ch Hc. rewrite forallb_forall in H. apply H, all_bytes_complete, Hc. Qed.

Lemma byte_land128 ch : 0 <= ch < 256 -> (Z.land ch 128 =? 0) = (ch <? 128).
Proof.
  intros H. apply eqb_prop.
  apply (byte_forall (fun ch => Bool.eqb (Z.land ch 128 =? 0) (ch <? 128))); [vm_compute; reflexivity | exact H].
Qed.

(* ------------------------------------------------------------------------------------------ *)
(* byte lists *)

Lemma bytes_ok_app a b : bytes_ok (a ++ b) <-> bytes_ok a /\ bytes_ok b.
Proof. unfold bytes_ok. apply Forall_app. Qed.

Lemma in_firstn {A} (x : A) n l : In x (firstn n l) -> In x l.
Proof.
  revert l. induction n as [|n IH]; intros l H; [destruct H|].
  destruct l as [|y l]; [destruct H|]. simpl in H. destruct H as [->|H]; [left; reflexivity|right; auto].
Qed.
Lemma in_skipn {A} (x : A) n l : In x (skipn n l) -> In x l.
Proof.
  revert l. induction n as [|n IH]; intros l H; [exact H|].
  destruct l as [|y l]; [destruct H|]. right. apply IH. exact H.
Qed.
Lemma bytes_ok_firstn n l : bytes_ok l -> bytes_ok (firstn n l).
Proof. unfold bytes_ok. rewrite !Forall_forall. intros H x Hx. apply H. eapply in_firstn; eauto. Qed.
Lemma bytes_ok_skipn n l : bytes_ok l -> bytes_ok (skipn n l).
Proof. unfold bytes_ok. rewrite !Forall_forall. intros H x Hx. apply H. eapply in_skipn; eauto. Qed.

Lemma bytes_okb_ok l : bytes_okb l = true <-> bytes_ok l.
Proof.
  unfold bytes_okb, bytes_ok. rewrite forallb_forall, Forall_forall.
  split; intros H x Hx; specialize (H x Hx); [apply N.ltb_lt in H | apply N.ltb_lt]; exact H.
Qed.

(* ------------------------------------------------------------------------------------------ *)
(* read_bytes *)

Lemma read_bytes_app a rest : read_bytes (length a) (a ++ rest) = Ok a rest.
Proof.
  unfold read_bytes. rewrite app_length.
  assert (E : (length a <=? length a + length rest)%nat = true) by (apply Nat.leb_le; lia).
  rewrite E. rewrite firstn_app, Nat.sub_diag, firstn_all. simpl. rewrite app_nil_r.
  rewrite skipn_app, Nat.sub_diag, skipn_all. reflexivity.
Qed.

Lemma read_bytes_inv n s b rest : read_bytes n s = Ok b rest -> s = b ++ rest /\ length b = n.
Proof.
  unfold read_bytes. destruct (n <=? length s)%nat eqn:E; [|discriminate].
  intros H. inversion H; subst. apply Nat.leb_le in E. split.
  - symmetry. apply firstn_skipn.
  - apply firstn_length_le. exact E.
Qed.

Lemma read_bytes_short n s : (length s < n)%nat -> read_bytes n s = Err EEof.
Proof. intros H. unfold read_bytes. assert (E : (n <=? length s)%nat = false) by (apply Nat.leb_gt; lia). rewrite E. reflexivity. Qed.

Lemma read_bytes_z_eq n s : 0 <= n -> read_bytes_z n s = read_bytes (Z.to_nat n) s.
Proof.
  intros Hn. unfold read_bytes_z. destruct (n <=? Z.of_nat (length s)) eqn:E; [reflexivity|].
  symmetry. apply read_bytes_short. lia.
Qed.

(* ------------------------------------------------------------------------------------------ *)
(* little endian *)

Lemma le_bytes_length k v : length (le_bytes k v) = k.
Proof. revert v. induction k as [|k IH]; intros v; simpl; [reflexivity | rewrite IH; reflexivity]. Qed.

Lemma le_bytes_ok k v : bytes_ok (le_bytes k v).
Proof.
  revert v. induction k as [|k IH]; intros v; simpl; [constructor|].
  constructor; [|apply IH]. pose proof (Z.mod_pos_bound v 256 ltac:(lia)). lia.
Qed.

Lemma le_value_bytes k v : 0 <= v -> le_value (le_bytes k v) = v mod 2 ^ (8 * Z.of_nat k).
Proof.
  revert v. induction k as [|k IH]; intros v Hv.
  - simpl. rewrite Z.mod_1_r. reflexivity.
  - cbn [le_bytes le_value]. rewrite IH by (apply Z.div_pos; lia).
    replace (8 * Z.of_nat (S k)) with (8 + 8 * Z.of_nat k) by lia.
    rewrite Z.pow_add_r by lia. change (2 ^ 8) with 256.
    rewrite Z.rem_mul_r by (try lia; apply Z.pow_pos_nonneg; lia).
    rewrite Z2N.id by (pose proof (Z.mod_pos_bound v 256 ltac:(lia)); lia). reflexivity.
Qed.

Lemma le_value_range l : bytes_ok l -> 0 <= le_value l < 2 ^ (8 * Z.of_nat (length l)).
Proof.
  induction 1 as [|b r Hb Hr IH]; [simpl; lia|].
  cbn [le_value length]. replace (8 * Z.of_nat (S (length r))) with (8 + 8 * Z.of_nat (length r)) by lia.
  rewrite Z.pow_add_r by lia. change (2 ^ 8) with 256. lia.
Qed.

Lemma le_bytes_value l : bytes_ok l -> le_bytes (length l) (le_value l) = l.
Proof.
  induction 1 as [|b r Hb Hr IH]; [reflexivity|].
  cbn [le_value length le_bytes].
  assert (E1 : (Z.of_N b + 256 * le_value r) mod 256 = Z.of_N b).
  { symmetry. apply Z.mod_unique with (q := le_value r); lia. }
  assert (E2 : (Z.of_N b + 256 * le_value r) / 256 = le_value r).
  { symmetry. apply Z.div_unique with (r := Z.of_N b); lia. }
  rewrite E1, E2, IH, N2Z.id. reflexivity.
Qed.

Lemma read_le_write k v rest : read_le k (write_le k v ++ rest) = Ok (wrapu (8 * Z.of_nat k) v) rest.
Proof.
  unfold read_le, write_le.
  pose proof (le_bytes_length k (wrapu (8 * Z.of_nat k) v)) as L.
  rewrite <- L at 1. rewrite read_bytes_app. cbn [bind].
  assert (Hp : 0 < 2 ^ (8 * Z.of_nat k)) by (apply Z.pow_pos_nonneg; lia).
  rewrite le_value_bytes.
  - unfold wrapu. rewrite Z.mod_mod by lia. reflexivity.
  - unfold wrapu. pose proof (Z.mod_pos_bound v _ Hp). lia.
Qed.

Lemma read_le_inv k s v rest : bytes_ok s -> read_le k s = Ok v rest ->
  s = write_le k v ++ rest /\ 0 <= v < 2 ^ (8 * Z.of_nat k).
Proof.
  intros Hs H. unfold read_le in H. destruct (read_bytes k s) as [b r|e] eqn:E; [|discriminate].
  simpl in H. inversion H; subst. apply read_bytes_inv in E. destruct E as [-> L].
  apply bytes_ok_app in Hs. destruct Hs as [Hb _].
  pose proof (le_value_range b Hb) as R. rewrite L in R.
  split; [|exact R]. unfold write_le. rewrite wrapu_id by exact R.
  rewrite <- L. rewrite le_bytes_value by exact Hb. reflexivity.
Qed.

(* ------------------------------------------------------------------------------------------ *)
(* CompactSize *)

Lemma max_size_value : MAX_SIZE = 33554432.
Proof. vm_compute. reflexivity. Qed.

Lemma wrapu_pow_id k v : 0 <= v < 2 ^ k -> wrapu k v = v.
Proof. apply wrapu_id. Qed.

(* decoding what the encoder wrote gives the number back, for every uint64 (no range check) *)
Lemma compact_size_roundtrip_norange n rest : 0 <= n <= UINT64_MAX ->
  read_compact_size false (write_compact_size n ++ rest) = Ok n rest.
Proof.
  unfold UINT64_MAX. intros Hn. unfold write_compact_size, read_compact_size, UINT32_MAX.
  destruct (n <? 253) eqn:E1.
  - rewrite read_le_write. cbn [bind]. rewrite wrapu_id by (change (2 ^ (8 * Z.of_nat 1)) with 256; lia).
    rewrite E1. simpl. reflexivity.
  - destruct (n <=? 65535) eqn:E2; [|destruct (n <=? 4294967295) eqn:E3].
    + change ((253%N :: write_le 2 n) ++ rest) with (write_le 1 253 ++ (write_le 2 n ++ rest)).
      rewrite read_le_write. cbn [bind]. change (wrapu (8 * Z.of_nat 1) 253) with 253.
      change (253 <? 253) with false. change (253 =? 253) with true. cbv iota.
      rewrite read_le_write. cbn [bind]. rewrite wrapu_id by (change (2 ^ (8 * Z.of_nat 2)) with 65536; lia).
      rewrite E1. simpl. reflexivity.
    + change ((254%N :: write_le 4 n) ++ rest) with (write_le 1 254 ++ (write_le 4 n ++ rest)).
      rewrite read_le_write. cbn [bind]. change (wrapu (8 * Z.of_nat 1) 254) with 254.
      change (254 <? 253) with false. change (254 =? 253) with false. change (254 =? 254) with true. cbv iota.
      rewrite read_le_write. cbn [bind]. rewrite wrapu_id by (change (2 ^ (8 * Z.of_nat 4)) with 4294967296; lia).
      assert (E4 : (n <? 65536) = false) by lia. rewrite E4. simpl. reflexivity.
    + change ((255%N :: write_le 8 n) ++ rest) with (write_le 1 255 ++ (write_le 8 n ++ rest)).
      rewrite read_le_write. cbn [bind]. change (wrapu (8 * Z.of_nat 1) 255) with 255.
      change (255 <? 253) with false. change (255 =? 253) with false. change (255 =? 254) with false. cbv iota.
      rewrite read_le_write. cbn [bind].
      rewrite wrapu_id by (change (2 ^ (8 * Z.of_nat 8)) with 18446744073709551616; lia).
      assert (E4 : (n <? 4294967296) = false) by lia. rewrite E4. simpl. reflexivity.
Qed.

Lemma read_compact_size_range_check s :
  read_compact_size true s =
  match read_compact_size false s with
  | Ok v r => if v >? MAX_SIZE then Err ETooLarge else Ok v r
  | Err e => Err e
  end.
Proof.
  unfold read_compact_size. destruct (read_le 1 s) as [ch s1|e]; [|reflexivity]. cbn [bind].
  match goal with |- bind ?X _ = match bind ?X _ with _ => _ end => destruct X as [v s2|e] end; [|reflexivity].
  cbn [bind andb]. destruct (v >? MAX_SIZE); reflexivity.
Qed.

Lemma compact_size_roundtrip n rest : 0 <= n <= MAX_SIZE ->
  read_compact_size true (write_compact_size n ++ rest) = Ok n rest.
Proof.
  intros Hn. rewrite read_compact_size_range_check.
  rewrite compact_size_roundtrip_norange by (rewrite max_size_value in Hn; unfold UINT64_MAX; lia).
  assert (E : (n >? MAX_SIZE) = false) by lia. rewrite E. reflexivity.
Qed.

Lemma compact_size_too_large n rest : MAX_SIZE < n <= UINT64_MAX ->
  read_compact_size true (write_compact_size n ++ rest) = Err ETooLarge.
Proof.
  intros Hn. rewrite read_compact_size_range_check.
  rewrite compact_size_roundtrip_norange by (rewrite max_size_value in Hn; unfold UINT64_MAX in *; lia).
  assert (E : (n >? MAX_SIZE) = true) by lia. rewrite E. reflexivity.
Qed.

(* canonical: whatever decodes re-encodes to exactly the bytes that were consumed *)
Lemma compact_size_canonical_norange s n rest : bytes_ok s ->
  read_compact_size false s = Ok n rest ->
  s = write_compact_size n ++ rest /\ 0 <= n <= UINT64_MAX.
Proof.
  intros Hs H. unfold read_compact_size in H.
  destruct (read_le 1 s) as [ch s1|e] eqn:R1; [|discriminate]. cbn [bind] in H.
  apply read_le_inv in R1; [|exact Hs]. destruct R1 as [Es Hch]. change (2 ^ (8 * Z.of_nat 1)) with 256 in Hch.
  assert (Hs1 : bytes_ok s1) by (rewrite Es in Hs; apply bytes_ok_app in Hs; tauto).
  unfold write_compact_size, UINT64_MAX, UINT32_MAX.
  destruct (ch <? 253) eqn:C1.
  - cbn [bind andb] in H. inversion H; subst n rest. rewrite C1. split; [exact Es | lia].
  - destruct (ch =? 253) eqn:C2; [|destruct (ch =? 254) eqn:C3].
    + destruct (read_le 2 s1) as [v s2|e] eqn:R2; [|discriminate]. cbn [bind] in H.
      destruct (v <? 253) eqn:C4; [discriminate|]. cbn [bind andb] in H. inversion H; subst v s2.
      apply read_le_inv in R2; [|exact Hs1]. destruct R2 as [Es1 Hv]. change (2 ^ (8 * Z.of_nat 2)) with 65536 in Hv.
      rewrite C4. assert (E : (n <=? 65535) = true) by lia. rewrite E.
      split; [|lia]. rewrite Es, Es1. assert (ch = 253) by lia. subst ch. reflexivity.
    + destruct (read_le 4 s1) as [v s2|e] eqn:R2; [|discriminate]. cbn [bind] in H.
      destruct (v <? 65536) eqn:C4; [discriminate|]. cbn [bind andb] in H. inversion H; subst v s2.
      apply read_le_inv in R2; [|exact Hs1]. destruct R2 as [Es1 Hv]. change (2 ^ (8 * Z.of_nat 4)) with 4294967296 in Hv.
      assert (E0 : (n <? 253) = false) by lia. assert (E1 : (n <=? 65535) = false) by lia.
      assert (E2 : (n <=? 4294967295) = true) by lia. rewrite E0, E1, E2.
      split; [|lia]. rewrite Es, Es1. assert (ch = 254) by lia. subst ch. reflexivity.
    + destruct (read_le 8 s1) as [v s2|e] eqn:R2; [|discriminate]. cbn [bind] in H.
      destruct (v <? 4294967296) eqn:C4; [discriminate|]. cbn [bind andb] in H. inversion H; subst v s2.
      apply read_le_inv in R2; [|exact Hs1]. destruct R2 as [Es1 Hv].
      change (2 ^ (8 * Z.of_nat 8)) with 18446744073709551616 in Hv.
      assert (E0 : (n <? 253) = false) by lia. assert (E1 : (n <=? 65535) = false) by lia.
      assert (E2 : (n <=? 4294967295) = false) by lia. rewrite E0, E1, E2.
      split; [|lia]. rewrite Es, Es1. assert (ch = 255) by lia. subst ch. reflexivity.
Qed.

Lemma compact_size_canonical rc s n rest : bytes_ok s ->
  read_compact_size rc s = Ok n rest ->
  s = write_compact_size n ++ rest /\ 0 <= n <= UINT64_MAX /\ (rc = true -> n <= MAX_SIZE).
Proof.
  intros Hs H. destruct rc.
  - rewrite read_compact_size_range_check in H.
    destruct (read_compact_size false s) as [v r|e] eqn:E; [|discriminate].
    destruct (v >? MAX_SIZE) eqn:C; [discriminate|]. inversion H; subst v r.
    destruct (compact_size_canonical_norange s n rest Hs E) as [A B]. repeat split; try tauto; try lia.
  - destruct (compact_size_canonical_norange s n rest Hs H) as [A B]. repeat split; try tauto. discriminate.
Qed.

(* two different byte strings never decode to the same (value, rest): injectivity of the decoder *)
Lemma compact_size_decode_injective rc s1 s2 n rest : bytes_ok s1 -> bytes_ok s2 ->
  read_compact_size rc s1 = Ok n rest -> read_compact_size rc s2 = Ok n rest -> s1 = s2.
Proof.
  intros H1 H2 R1 R2.
  apply compact_size_canonical in R1; [|exact H1]. apply compact_size_canonical in R2; [|exact H2].
  destruct R1 as [-> _]. destruct R2 as [-> _]. reflexivity.
Qed.

(* ------------------------------------------------------------------------------------------ *)
(* VarInt *)

Section VarInt.
  Variable w : Z.
  Hypothesis w_ge_8 : 8 <= w.
  Let M := 2 ^ w - 1.
  Let P := 2 ^ (w - 7).

  Lemma pow_w_split : 2 ^ w = 128 * P.
  Proof. unfold P. change 128 with (2 ^ 7). rewrite <- Z.pow_add_r by lia. f_equal. lia. Qed.
  Lemma P_pos : 2 <= P.
  Proof. unfold P. change 2 with (2 ^ 1) at 1. apply Z.pow_le_mono_r; lia. Qed.
  Lemma M_shiftr : Z.shiftr M 7 = P - 1.
  Proof.
    unfold M. rewrite Z.shiftr_div_pow2 by lia. change (2 ^ 7) with 128. rewrite pow_w_split.
    pose proof P_pos. symmetry. apply Z.div_unique with (r := 127); lia.
  Qed.

  (* one step of the reader, in arithmetic *)
  Lemma read_step n c r : 0 <= n -> (c < 256)%N ->
    read_varint_loop w n (c :: r) =
      if n >? P - 1 then Err ETooLarge
      else let n1 := n * 128 + Z.of_N c mod 128 in
           if 128 <=? Z.of_N c then (if n1 =? M then Err ETooLarge else read_varint_loop w (n1 + 1) r)
           else Ok n1 r.
  Proof.
    intros Hn Hc. cbn [read_varint_loop]. fold M. rewrite M_shiftr.
    destruct (n >? P - 1) eqn:E; [reflexivity|].
    assert (Hch : 0 <= Z.of_N c < 256) by lia.
    pose proof pow_w_split as HW. pose proof P_pos as HP.
    assert (Hs : wrapu w (Z.shiftl n 7) = n * 128).
    { rewrite Z.shiftl_mul_pow2 by lia. change (2 ^ 7) with 128. apply wrapu_id. nia. }
    rewrite Hs. rewrite land127 by lia.
    pose proof (Z.mod_pos_bound (Z.of_N c) 128 ltac:(lia)) as Hm.
    rewrite lor_mul128 by lia. rewrite byte_land128 by lia.
    cbv zeta. destruct (Z.of_N c <? 128) eqn:E2.
    - assert (E3 : (128 <=? Z.of_N c) = false) by lia. rewrite E3. reflexivity.
    - assert (E3 : (128 <=? Z.of_N c) = true) by lia. rewrite E3. cbn [negb].
      destruct (n * 128 + Z.of_N c mod 128 =? M) eqn:E4; [reflexivity|].
      rewrite wrapu_id; [reflexivity|]. unfold M in *. nia.
  Qed.

  (* the byte the writer produces *)
  Definition wbyte (n : Z) (first : bool) : N := Z.to_N (Z.lor (Z.land n 127) (if first then 0 else 128)).
  Lemma wbyte_first n : 0 <= n -> Z.of_N (wbyte n true) = n mod 128.
  Proof.
    intros. unfold wbyte. rewrite land127, Z.lor_0_r by lia.
    pose proof (Z.mod_pos_bound n 128 ltac:(lia)). lia.
  Qed.
  Lemma wbyte_cont n : 0 <= n -> Z.of_N (wbyte n false) = n mod 128 + 128.
  Proof.
    intros. unfold wbyte. rewrite land127 by lia.
    pose proof (Z.mod_pos_bound n 128 ltac:(lia)). rewrite lor_128_small by lia. lia.
  Qed.
  Lemma wbyte_lt n f : 0 <= n -> (wbyte n f < 256)%N.
  Proof.
    intros. pose proof (Z.mod_pos_bound n 128 ltac:(lia)).
    destruct f; [pose proof (wbyte_first n) | pose proof (wbyte_cont n)]; lia.
  Qed.

  Lemma wv_unfold f n first acc :
    write_varint_loop (S f) n first acc =
      if n <=? 127 then Some (wbyte n first :: acc)
      else write_varint_loop f (Z.shiftr n 7 - 1) false (wbyte n first :: acc).
  Proof. reflexivity. Qed.

  Lemma wv_acc f : forall n first acc,
    write_varint_loop f n first acc = option_map (fun p => p ++ acc) (write_varint_loop f n first []).
  Proof.
    induction f as [|f IH]; intros n first acc; [reflexivity|].
    rewrite !wv_unfold. destruct (n <=? 127); [reflexivity|].
    rewrite IH. rewrite (IH _ _ [wbyte n first]).
    destruct (write_varint_loop f (Z.shiftr n 7 - 1) false []); simpl; [|reflexivity].
    rewrite <- app_assoc. reflexivity.
  Qed.

  Lemma wv_fuel_mono f g : forall n first acc out,
    write_varint_loop f n first acc = Some out -> write_varint_loop (f + g) n first acc = Some out.
  Proof.
    induction f as [|f IH]; intros n first acc out H; [discriminate|].
    change (S f + g)%nat with (S (f + g)). rewrite wv_unfold in *.
    destruct (n <=? 127); [exact H|]. apply IH. exact H.
  Qed.

  Lemma wv_fuel_sufficient f : forall n first acc, 0 <= n < 128 ^ Z.of_nat (S f) ->
    exists out, write_varint_loop (S f) n first acc = Some out.
  Proof.
    induction f as [|f IH]; intros n first acc Hn.
    - change (128 ^ Z.of_nat 1) with 128 in Hn. rewrite wv_unfold.
      assert (E : (n <=? 127) = true) by lia. rewrite E. eauto.
    - rewrite wv_unfold. destruct (n <=? 127) eqn:E; [eauto|].
      apply IH. rewrite Z.shiftr_div_pow2 by lia. change (2 ^ 7) with 128.
      replace (Z.of_nat (S (S f))) with (1 + Z.of_nat (S f)) in Hn by lia.
      rewrite Z.pow_add_r in Hn by lia. change (128 ^ 1) with 128 in Hn.
      assert (0 < 128 ^ Z.of_nat (S f)) by (apply Z.pow_pos_nonneg; lia).
      lia.
  Qed.

  Lemma wv_bytes_ok f : forall n first acc out, 0 <= n -> bytes_ok acc ->
    write_varint_loop f n first acc = Some out -> bytes_ok out.
  Proof.
    induction f as [|f IH]; intros n first acc out Hn Hacc H; [discriminate|].
    rewrite wv_unfold in H.
    assert (Hb : bytes_ok (wbyte n first :: acc)) by (constructor; [apply wbyte_lt; lia | exact Hacc]).
    destruct (n <=? 127) eqn:E.
    - inversion H; subst. exact Hb.
    - eapply IH; [|exact Hb|exact H]. rewrite Z.shiftr_div_pow2 by lia. change (2 ^ 7) with 128. lia.
  Qed.

  (* reading the continuation bytes the writer produced for k takes the reader from 0 to k+1 *)
  Lemma read_cont f : forall k pre l, 0 <= k -> k + 1 <= M ->
    write_varint_loop f k false [] = Some pre ->
    read_varint_loop w 0 (pre ++ l) = read_varint_loop w (k + 1) l.
  Proof.
    pose proof pow_w_split as HW. pose proof P_pos as HP.
    induction f as [|f IH]; intros k pre l Hk HkM H; [discriminate|].
    rewrite wv_unfold in H. destruct (k <=? 127) eqn:E.
    - inversion H; subst pre. cbn [app].
      rewrite read_step by (try lia; apply wbyte_lt; lia).
      rewrite wbyte_cont by lia.
      assert (E1 : (0 >? P - 1) = false) by lia. rewrite E1. cbv zeta.
      assert (E2 : (128 <=? k mod 128 + 128) = true) by lia. rewrite E2.
      replace ((k mod 128 + 128) mod 128) with k by lia.
      assert (E3 : (0 * 128 + k =? M) = false) by lia. rewrite E3. reflexivity.
    - rewrite wv_acc in H.
      destruct (write_varint_loop f (Z.shiftr k 7 - 1) false []) as [pre'|] eqn:W; [|discriminate].
      simpl in H. inversion H; subst pre. rewrite <- app_assoc. cbn [app].
      rewrite Z.shiftr_div_pow2 in W by lia. change (2 ^ 7) with 128 in W.
      rewrite (IH (k / 128 - 1) pre' (wbyte k false :: l)); [|lia|lia|exact W].
      replace (k / 128 - 1 + 1) with (k / 128) by lia.
      rewrite read_step by (try lia; apply wbyte_lt; lia).
      rewrite wbyte_cont by lia. unfold M in HkM.
      assert (E1 : (k / 128 >? P - 1) = false) by lia. rewrite E1. cbv zeta.
      assert (E2 : (128 <=? k mod 128 + 128) = true) by lia. rewrite E2.
      replace (k / 128 * 128 + (k mod 128 + 128) mod 128) with k by lia.
      assert (E3 : (k =? M) = false) by (unfold M; lia). rewrite E3. reflexivity.
  Qed.

  Lemma varint_loop_roundtrip f n enc l : 0 <= n <= M ->
    write_varint_loop f n true [] = Some enc ->
    read_varint_loop w 0 (enc ++ l) = Ok n l.
  Proof.
    pose proof pow_w_split as HW. pose proof P_pos as HP.
    intros Hn H. destruct f as [|f]; [discriminate|].
    rewrite wv_unfold in H. destruct (n <=? 127) eqn:E.
    - inversion H; subst enc. cbn [app].
      rewrite read_step by (try lia; apply wbyte_lt; lia).
      rewrite wbyte_first by lia.
      assert (E1 : (0 >? P - 1) = false) by lia. rewrite E1. cbv zeta.
      assert (E2 : (128 <=? n mod 128) = false) by lia. rewrite E2.
      f_equal. lia.
    - rewrite wv_acc in H.
      destruct (write_varint_loop f (Z.shiftr n 7 - 1) false []) as [pre'|] eqn:W; [|discriminate].
      simpl in H. inversion H; subst enc. rewrite <- app_assoc. cbn [app].
      rewrite Z.shiftr_div_pow2 in W by lia. change (2 ^ 7) with 128 in W. unfold M in Hn.
      rewrite (read_cont f (n / 128 - 1) pre' (wbyte n true :: l)); [|lia|unfold M; lia|exact W].
      replace (n / 128 - 1 + 1) with (n / 128) by lia.
      rewrite read_step by (try lia; apply wbyte_lt; lia).
      rewrite wbyte_first by lia.
      assert (E1 : (n / 128 >? P - 1) = false) by lia. rewrite E1. cbv zeta.
      assert (E2 : (128 <=? n mod 128) = false) by lia. rewrite E2.
      f_equal. lia.
  Qed.

  (* canonical form: the bytes the reader consumed are what the writer produces for the result *)
  Lemma read_canonical_gen : forall s a n rest, bytes_ok s -> 0 <= a ->
    read_varint_loop w a s = Ok n rest ->
    exists pre, s = pre ++ rest /\ 0 <= n <= M /\ a * 128 <= n /\
      forall f, write_varint_loop (length pre + f) n true [] =
                if a =? 0 then Some pre else write_varint_loop f (a - 1) false pre.
  Proof.
    pose proof pow_w_split as HW. pose proof P_pos as HP.
    induction s as [|c s IH]; intros a n rest Hs Ha H; [discriminate|].
    inversion Hs as [|? ? Hc Hs']; subst.
    rewrite read_step in H by assumption.
    destruct (a >? P - 1) eqn:E1; [discriminate|]. cbv zeta in H.
    set (lo := Z.of_N c mod 128) in *.
    assert (Hlo : 0 <= lo < 128) by (apply Z.mod_pos_bound; lia).
    destruct (128 <=? Z.of_N c) eqn:E2.
    - (* continuation byte *)
      destruct (a * 128 + lo =? M) eqn:E3; [discriminate|].
      destruct (IH (a * 128 + lo + 1) n rest Hs' ltac:(lia) H) as [pre' [Es [Hn [Hge Hw]]]].
      exists (c :: pre'). split; [rewrite Es; reflexivity|]. split; [exact Hn|]. split; [lia|].
      intros f. cbn [length]. replace (S (length pre') + f)%nat with (length pre' + S f)%nat by lia.
      rewrite Hw. assert (E4 : (a * 128 + lo + 1 =? 0) = false) by lia. rewrite E4.
      replace (a * 128 + lo + 1 - 1) with (a * 128 + lo) by lia.
      rewrite wv_unfold.
      assert (Ewb : wbyte (a * 128 + lo) false = c).
      { apply N2Z.inj. rewrite wbyte_cont by lia.
        replace ((a * 128 + lo) mod 128) with lo by lia. unfold lo. lia. }
      rewrite Ewb. destruct (a =? 0) eqn:E5.
      + assert (E6 : (a * 128 + lo <=? 127) = true) by lia. rewrite E6. reflexivity.
      + assert (E6 : (a * 128 + lo <=? 127) = false) by lia. rewrite E6.
        rewrite Z.shiftr_div_pow2 by lia. change (2 ^ 7) with 128.
        replace ((a * 128 + lo) / 128 - 1) with (a - 1) by lia. reflexivity.
    - (* last byte *)
      inversion H; subst n rest. exists [c]. split; [reflexivity|]. split; [unfold M; lia|]. split; [lia|].
      intros f. cbn [length]. change (1 + f)%nat with (S f). rewrite wv_unfold.
      assert (Ewb : wbyte (a * 128 + lo) true = c).
      { apply N2Z.inj. rewrite wbyte_first by lia.
        replace ((a * 128 + lo) mod 128) with lo by lia. unfold lo. lia. }
      rewrite Ewb. destruct (a =? 0) eqn:E5.
      + assert (E6 : (a * 128 + lo <=? 127) = true) by lia. rewrite E6. reflexivity.
      + assert (E6 : (a * 128 + lo <=? 127) = false) by lia. rewrite E6.
        rewrite Z.shiftr_div_pow2 by lia. change (2 ^ 7) with 128.
        replace ((a * 128 + lo) / 128 - 1) with (a - 1) by lia. reflexivity.
  Qed.

  Hypothesis tmp_fits : 2 ^ w <= 128 ^ Z.of_nat (varint_tmp_size w).
  Hypothesis tmp_pos : (1 <= varint_tmp_size w)%nat.

  (* the tmp array of WriteVarInt is never overrun *)
  Lemma varint_fuel_sufficient n : exists enc, write_varint w n = Some enc.
  Proof.
    unfold write_varint. destruct (varint_tmp_size w) as [|f] eqn:E; [lia|].
    apply wv_fuel_sufficient. unfold wrapu.
    pose proof (Z.mod_pos_bound n (2 ^ w) ltac:(apply Z.pow_pos_nonneg; lia)). lia.
  Qed.

  Lemma varint_roundtrip n enc rest : 0 <= n <= M ->
    write_varint w n = Some enc -> read_varint w (enc ++ rest) = Ok n rest.
  Proof.
    intros Hn H. unfold write_varint in H. rewrite wrapu_id in H by (unfold M in Hn; lia).
    unfold read_varint. eapply varint_loop_roundtrip; eauto.
  Qed.

  Lemma varint_bytes_ok n enc : write_varint w n = Some enc -> bytes_ok enc.
  Proof.
    unfold write_varint. intros H. eapply wv_bytes_ok; [| |exact H]; [|constructor].
    unfold wrapu. apply Z.mod_pos_bound. apply Z.pow_pos_nonneg; lia.
  Qed.

  Lemma varint_canonical s n rest : bytes_ok s ->
    read_varint w s = Ok n rest ->
    0 <= n <= M /\ exists enc, write_varint w n = Some enc /\ s = enc ++ rest.
  Proof.
    intros Hs H. unfold read_varint in H.
    destruct (read_canonical_gen s 0 n rest Hs ltac:(lia) H) as [pre [Es [Hn [_ Hw]]]].
    split; [exact Hn|]. destruct (varint_fuel_sufficient n) as [enc He]. exists enc. split; [exact He|].
    unfold write_varint in He. rewrite wrapu_id in He by (unfold M in Hn; lia).
    apply (wv_fuel_mono _ (length pre)) in He.
    specialize (Hw (varint_tmp_size w)). change (0 =? 0) with true in Hw. cbv iota in Hw.
    rewrite Nat.add_comm in Hw. rewrite Hw in He. inversion He; subst enc. exact Es.
  Qed.

End VarInt.

(* Nothing that encodes a number above the type's maximum is accepted: the reader never returns
   a wrapped value.  (enc is the writer's output for n in a type wide enough to hold n.) *)
Lemma varint_overflow_rejected w f n enc rest v r :
  8 <= w -> 2 ^ w <= 128 ^ Z.of_nat (varint_tmp_size w) -> (1 <= varint_tmp_size w)%nat ->
  2 ^ w - 1 < n ->
  write_varint_loop f n true [] = Some enc -> bytes_ok rest ->
  read_varint w (enc ++ rest) <> Ok v r.
Proof.
  intros Hw Hfit Hpos Hn Henc Hrest Hr.
  assert (H2w : 0 < 2 ^ w) by (apply Z.pow_pos_nonneg; lia).
  assert (Hn0 : 0 < n) by lia.
  assert (Hok : bytes_ok (enc ++ rest)).
  { apply bytes_ok_app. split; [|exact Hrest].
    apply (wv_bytes_ok w Hw f n true [] enc); [lia|constructor|exact Henc]. }
  destruct (varint_canonical w Hw Hfit Hpos _ _ _ Hok Hr) as [Hv [encv [Hev Es]]].
  set (W := Z.max w (Z.log2 n + 1)).
  assert (HW : 8 <= W) by (unfold W; lia).
  assert (HnW : n <= 2 ^ W - 1).
  { pose proof (Z.log2_spec n Hn0) as [_ Hl]. replace (Z.succ (Z.log2 n)) with (Z.log2 n + 1) in Hl by lia.
    assert (2 ^ (Z.log2 n + 1) <= 2 ^ W) by (apply Z.pow_le_mono_r; unfold W; lia). lia. }
  assert (HvW : v <= 2 ^ W - 1).
  { assert (2 ^ w <= 2 ^ W) by (apply Z.pow_le_mono_r; unfold W; lia). lia. }
  pose proof (varint_loop_roundtrip W HW f n enc rest ltac:(lia) Henc) as R1.
  unfold write_varint in Hev. rewrite wrapu_id in Hev by lia.
  pose proof (varint_loop_roundtrip W HW _ v encv r ltac:(lia) Hev) as R2.
  rewrite Es in R1. rewrite R1 in R2. inversion R2. lia.
Qed.

(* ---- the two instances the code uses: uint64_t and uint32_t / unsigned int ---- *)
Lemma tmp_fits_64 : 2 ^ 64 <= 128 ^ Z.of_nat (varint_tmp_size 64). Proof. vm_compute. discriminate. Qed.
Lemma tmp_fits_32 : 2 ^ 32 <= 128 ^ Z.of_nat (varint_tmp_size 32). Proof. vm_compute. discriminate. Qed.
Lemma tmp_pos_64 : (1 <= varint_tmp_size 64)%nat. Proof. vm_compute. lia. Qed.
Lemma tmp_pos_32 : (1 <= varint_tmp_size 32)%nat. Proof. vm_compute. lia. Qed.

Definition varint_width_ok (w : Z) : Prop := w = 32 \/ w = 64.

Lemma varint_total w n : varint_width_ok w -> exists enc, write_varint w n = Some enc.
Proof.
  intros [->| ->]; apply varint_fuel_sufficient; try lia;
    first [apply tmp_fits_32 | apply tmp_fits_64 | apply tmp_pos_32 | apply tmp_pos_64].
Qed.

Lemma varint_rt w n enc rest : varint_width_ok w -> 0 <= n <= 2 ^ w - 1 ->
  write_varint w n = Some enc -> read_varint w (enc ++ rest) = Ok n rest.
Proof.
  intros Hw Hn H. destruct Hw as [->| ->]; apply varint_roundtrip; try assumption; try lia;
    first [apply tmp_fits_32 | apply tmp_fits_64 | apply tmp_pos_32 | apply tmp_pos_64].
Qed.

Lemma varint_canon w s n rest : varint_width_ok w -> bytes_ok s ->
  read_varint w s = Ok n rest ->
  0 <= n <= 2 ^ w - 1 /\ exists enc, write_varint w n = Some enc /\ s = enc ++ rest.
Proof.
  intros [->| ->]; apply varint_canonical; try lia;
    first [apply tmp_fits_32 | apply tmp_fits_64 | apply tmp_pos_32 | apply tmp_pos_64].
Qed.

Lemma varint_overflow w f n enc rest v r : varint_width_ok w -> 2 ^ w - 1 < n ->
  write_varint_loop f n true [] = Some enc -> bytes_ok rest ->
  read_varint w (enc ++ rest) <> Ok v r.
Proof.
  intros [->| ->]; apply varint_overflow_rejected; try lia;
    first [apply tmp_fits_32 | apply tmp_fits_64 | apply tmp_pos_32 | apply tmp_pos_64].
Qed.

Lemma varint_enc_ok w n enc : varint_width_ok w -> write_varint w n = Some enc -> bytes_ok enc.
Proof.
  intros Hw H. destruct Hw as [->| ->]; eapply varint_bytes_ok; try eassumption; try lia;
    first [apply tmp_fits_32 | apply tmp_fits_64 | apply tmp_pos_32 | apply tmp_pos_64].
Qed.

(* the writer's output is never empty and at most CeilDiv(w,7) bytes long *)
Lemma wv_length f : forall n first acc out,
  write_varint_loop f n first acc = Some out -> (length acc < length out <= length acc + f)%nat.
Proof.
  induction f as [|f IH]; intros n first acc out H; [discriminate|].
  cbn [write_varint_loop] in H. destruct (n <=? 127).
  - inversion H; subst. cbn [length]. lia.
  - apply IH in H. cbn [length] in H. lia.
Qed.

(* a single byte below 128 is the varint of its value *)
Lemma read_varint_small w c rest : 8 <= w -> (c < 128)%N -> read_varint w (c :: rest) = Ok (Z.of_N c) rest.
Proof.
  intros Hw Hc. unfold read_varint. rewrite read_step by (try lia).
  assert (2 <= 2 ^ (w - 7)) by (change 2 with (2 ^ 1) at 1; apply Z.pow_le_mono_r; lia).
  assert (E1 : (0 >? 2 ^ (w - 7) - 1) = false) by lia. rewrite E1. cbv zeta.
  assert (E2 : (128 <=? Z.of_N c) = false) by lia. rewrite E2. f_equal. lia.
Qed.

(* The value formula documented above WriteVarInt in serialize.h,
     (a[len-1] & 0x7F) + sum(i=1..len-1, 128^i*((a[len-i-1] & 0x7F)+1)),
   is what the reader computes on the bytes it consumes, hence what the writer encodes. *)
Lemma read_varint_value w : 8 <= w -> forall s a n, bytes_ok s -> 0 <= a ->
  read_varint_loop w a s = Ok n [] -> varint_value_acc a s = n.
Proof.
  intros Hw. induction s as [|c s IH]; intros a n Hs Ha H; [discriminate|].
  inversion Hs as [|? ? Hc Hs']; subst.
  rewrite read_step in H by assumption.
  destruct (a >? 2 ^ (w - 7) - 1); [discriminate|]. cbv zeta in H.
  assert (Hch : 0 <= Z.of_N c < 256) by lia.
  destruct (128 <=? Z.of_N c) eqn:E.
  - destruct (a * 128 + Z.of_N c mod 128 =? 2 ^ w - 1); [discriminate|].
    destruct s as [|c2 s2]; [discriminate|].
    cbn [varint_value_acc]. rewrite land127 by lia.
    apply IH; [exact Hs' | pose proof (Z.mod_pos_bound (Z.of_N c) 128 ltac:(lia)); lia | exact H].
  - inversion H; subst. cbn [varint_value_acc]. rewrite land127 by lia. reflexivity.
Qed.

Lemma varint_documented_value w n enc : varint_width_ok w -> 0 <= n <= 2 ^ w - 1 ->
  write_varint w n = Some enc -> varint_value enc = n.
Proof.
  intros Hw Hn H. pose proof (varint_rt w n enc [] Hw Hn H) as R. rewrite app_nil_r in R.
  unfold varint_value. apply (read_varint_value w ltac:(destruct Hw; lia) enc 0 n); [|lia|exact R].
  apply (varint_enc_ok w n enc Hw H).
Qed.
