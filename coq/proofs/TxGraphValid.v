(* C25: soundness of the executable validators that judge what the implementation answered
   (Trim's removed set, the ordering answers of the main graph, the block-builder walk with skips,
   the main/staging diagrams). *)
From Coq Require Import List ZArith Bool Arith Lia Relations Permutation.
From BV Require Import lib.Ints model.Fee model.Lin model.TxGraph proofs.LinLemmas
  proofs.TxGraphRel proofs.TxGraphCluster proofs.TxGraphInv proofs.TxGraphSpec.
Import ListNotations.

(* ------------------------------------------------------------------------------------------- *)
(* reflection of the small boolean helpers *)
Lemma nodupb_NoDup l : nodupb l = true <-> NoDup l.
Proof.
  induction l as [| x l IH]; simpl.
  - split; [constructor | reflexivity].
  - rewrite andb_true_iff, negb_true_iff, memn_false, IH. split.
    + intros [H1 H2]. constructor; assumption.
    + intros H. inversion H. auto.
Qed.
Lemma subsetb_spec a b : subsetb a b = true <-> (forall x, In x a -> In x b).
Proof.
  unfold subsetb. rewrite forallb_forall. split; intros H x Hx; [apply memn_In | apply memn_In]; auto.
Qed.
Lemma set_eqb_spec a b : set_eqb a b = true <-> (forall x, In x a <-> In x b).
Proof.
  unfold set_eqb. rewrite andb_true_iff, !subsetb_spec. split.
  - intros [H1 H2] x. split; auto.
  - intros H. split; intros x; apply H.
Qed.
Lemma is_set_of_spec a e : is_set_of a e = true <-> NoDup a /\ (forall x, In x a <-> In x e).
Proof. unfold is_set_of. rewrite andb_true_iff, nodupb_NoDup, set_eqb_spec. tauto. Qed.
Lemma list_eqb_eq a : forall b, list_eqb a b = true <-> a = b.
Proof.
  induction a as [| x a IH]; intros [| y b]; simpl; try (split; [discriminate | discriminate]); [tauto |].
  rewrite andb_true_iff, Nat.eqb_eq, IH. split; [intros [-> ->]; reflexivity | intros H; inversion H; auto].
Qed.
Lemma ff_eqb_eq a b : ff_eqb a b = true <-> a = b.
Proof.
  destruct a as [a1 a2], b as [b1 b2]. unfold ff_eqb. simpl. rewrite andb_true_iff, !Z.eqb_eq.
  split; [intros [-> ->]; reflexivity | intros H; inversion H; auto].
Qed.
Lemma chunk_eqb_eq a b : chunk_eqb a b = true <-> a = b.
Proof.
  destruct a as [a1 a2], b as [b1 b2]. unfold chunk_eqb. simpl. rewrite andb_true_iff, list_eqb_eq, ff_eqb_eq.
  split; [intros [-> ->]; reflexivity | intros H; inversion H; auto].
Qed.
Lemma chunks_eqb_eq a : forall b, chunks_eqb a b = true <-> a = b.
Proof.
  induction a as [| x a IH]; intros [| y b]; simpl; try (split; [discriminate | discriminate]); [tauto |].
  rewrite andb_true_iff, chunk_eqb_eq, IH. split; [intros [-> ->]; reflexivity | intros H; inversion H; auto].
Qed.
Lemma is_nil_spec {A} (l : list A) : is_nil l = true <-> l = [].
Proof. destruct l; simpl; split; try reflexivity; discriminate. Qed.

(* every numbered clause of a passing check list holds *)
Lemma checks_all (l : list (nat * bool)) : forallb snd l = true -> forall k b, In (k, b) l -> b = true.
Proof. rewrite forallb_forall. intros H k b Hin. apply (H (k, b) Hin). Qed.

(* ------------------------------------------------------------------------------------------- *)
(* Trim *)
Lemma lab_live lv x : lv_wf lv -> In x (ids lv) -> exists l, lab (lv_labels lv) x = Some l.
Proof. intros W Hx. apply labels_some; [apply would_ends; exact W | exact Hx]. Qed.
Lemma same_cluster_refl lv x : lv_wf lv -> In x (ids lv) -> same_cluster (lv_labels lv) x x = true.
Proof. intros W Hx. destruct (lab_live lv x W Hx) as [l E]. unfold same_cluster. rewrite E. apply Nat.eqb_refl. Qed.

Theorem trim_checks_sound mc ms lv removed : lv_wf lv ->
  forallb snd (trim_checks mc ms lv removed) = true ->
  let lv' := fold_left (fun l i => lv_rm i l) removed lv in
  (* something is removed exactly when the graph was oversized *)
  (oversized_calc mc ms lv = true <-> removed <> []) /\
  NoDup removed /\ (forall x, In x removed -> In x (ids lv)) /\
  (* the removed set is closed under descendants: no kept child of a removed parent *)
  (forall p c, In (p, c) (would lv) -> In p removed -> In c removed) /\
  (* only oversized clusters are touched *)
  (forall x, In x removed -> over_limits mc ms (cluster_txs (l_txs lv) (lv_labels lv) x) = true) /\
  (* afterwards every cluster respects both limits *)
  (forall x, In x (ids lv') ->
     let c := cluster_txs (l_txs lv') (lv_labels lv') x in (Z.of_nat (length c) <= mc /\ total_size c <= ms)%Z) /\
  (* and the kept transactions keep exactly the ancestry they had *)
  (forall a d, In (a, d) (would lv') <-> In (a, d) (would lv) /\ ~ In a removed /\ ~ In d removed).
Proof.
  intros W H lv'. pose proof (checks_all _ H) as C. clear H. unfold trim_checks in C.
  assert (C50 := C 50%nat _ (or_introl eq_refl)).
  assert (C51 := C 51%nat _ (or_intror (or_introl eq_refl))).
  assert (C52 := C 52%nat _ (or_intror (or_intror (or_introl eq_refl)))).
  assert (C53 := C 53%nat _ (or_intror (or_intror (or_intror (or_introl eq_refl))))).
  assert (C54 := C 54%nat _ (or_intror (or_intror (or_intror (or_intror (or_introl eq_refl)))))).
  clear C. apply andb_true_iff in C51. destruct C51 as [C51a C51b].
  apply nodupb_NoDup in C51a. rewrite forallb_forall in C51b.
  assert (Live : forall x, In x removed -> In x (ids lv)) by (intros x Hx; apply live_In, C51b, Hx).
  assert (Closed : forall p c, In (p, c) (would lv) -> In p removed -> In c removed).
  { intros p c Hpc Hp. rewrite forallb_forall in C52. specialize (C52 p Hp).
    apply (proj1 (subsetb_spec _ _) C52 c). apply descs_strict_In. exact Hpc. }
  split; [| split; [exact C51a | split; [exact Live | split; [exact Closed | split; [| split]]]]].
  - apply eqb_prop in C50. rewrite C50. destruct removed; simpl; split; try discriminate; try congruence.
  - intros x Hx. rewrite forallb_forall in C53. pose proof (Live x Hx) as Lx. unfold ids in Lx. apply in_map_iff in Lx.
    destruct Lx as [t [Et Ht]]. specialize (C53 t Ht). simpl in C53. apply eqb_prop in C53. rewrite Et in C53.
    fold (ids lv) in C53. fold (lv_labels lv) in C53. rewrite C53. apply existsb_exists. exists t. split.
    + unfold cluster_txs. apply filter_In. split; [exact Ht |]. rewrite Et. apply same_cluster_refl; [exact W | apply Live, Hx].
    + apply memn_In. rewrite Et. exact Hx.
  - intros x Hx c. apply negb_true_iff in C54. fold lv' in C54.
    assert (N : ~ (mc < Z.of_nat (length c) \/ ms < total_size c)%Z).
    { intros O. assert (O' : oversized_calc mc ms lv' = true) by (apply oversized_iff; exists x; split; [exact Hx | exact O]). congruence. }
    lia.
  - intros a d. unfold lv'. rewrite fold_lv_rm.
    assert (Cl : closed_in lv (fun y => memn y removed)).
    { left. intros p c Hpc Hp. apply memn_In. apply (Closed p c Hpc). apply memn_In. exact Hp. }
    rewrite (would_rm_set _ lv a d W Cl), rm_set_In, !memn_false. tauto.
Qed.

(* ------------------------------------------------------------------------------------------- *)
(* chunks of a linearization *)
Lemma with_fees_spec txs l : forall lf, with_fees txs l = Some lf ->
  map fst lf = l /\ Forall (fun t => lookup (fst t) txs = Some (snd t)) lf.
Proof.
  induction l as [| i l IH]; intros lf H; simpl in H.
  - inversion H. split; [reflexivity | constructor].
  - destruct (lookup i txs) as [f |] eqn:E; [| discriminate]. destruct (with_fees txs l) as [q |]; [| discriminate].
    inversion H. subst. destruct (IH q eq_refl) as [H1 H2]. split; [simpl; f_equal; exact H1 | constructor; [exact E | exact H2]].
Qed.
Lemma with_fees_of lf txs : Forall (fun t => lookup (fst t) txs = Some (snd t)) lf -> with_fees txs (map fst lf) = Some lf.
Proof.
  induction 1 as [| t lf Ht _ IH]; simpl; [reflexivity |]. rewrite Ht, IH. destruct t. reflexivity.
Qed.

(* what it means for cs to be the chunks of lin: consecutive non-empty groups covering lin, each
   with the exact (unwrapped) sum of its members' fees and sizes as feerate, feerates non-increasing *)
Record chunks_spec (txs : list (nat * FF)) (lin : list nat) (cs : list chunk) : Prop := {
  cs_concat : concat (map fst cs) = lin;
  cs_nonempty : forall c, In c cs -> fst c <> [];
  cs_sum : forall c, In c cs -> exists lf, with_fees txs (fst c) = Some lf /\ snd c = fsum (map snd lf);
  cs_nonincr : nonincr (map snd cs)
}.

Lemma concat_map_map {A B} (f : A -> B) (ll : list (list A)) : concat (map (map f) ll) = map f (concat ll).
Proof. induction ll as [| l ll IH]; simpl; [reflexivity | rewrite map_app, IH; reflexivity]. Qed.

Lemma lin_chunks_spec txs lin cs : lin_chunks txs lin = Some cs -> chunks_spec txs lin cs.
Proof.
  unfold lin_chunks. destruct (with_fees txs lin) as [lf |] eqn:E; [| discriminate].
  destruct (feerates_in_range (map snd lf)) eqn:R; [| discriminate]. intros H. inversion H. clear H H1.
  apply feerates_in_range_iff in R. destruct (with_fees_spec txs lin lf E) as [Efst Hall].
  set (feeof := fun t : nat * FF => snd t) in *.
  rewrite (chunking_info_ideal feeof lf R). unfold chunking_info_I.
  pose proof R as [Rpos _].
  assert (Rpos' : sizes_pos feeof lf).
  { unfold sizes_pos. rewrite Forall_forall in *. intros t Ht. apply Rpos. apply in_map. exact Ht. }
  destruct (fold_absorb_I feeof lf [] Rpos' (Forall_nil _) I) as [G [S M]]. cbv zeta in G, S, M.
  set (r := fold_left (fun ret x => absorb_I ([x], feeof x) ret) lf []) in *.
  assert (Sub : forall c, In c (rev r) -> forall t, In t (fst c) -> In t lf).
  { intros c Hc t Ht. simpl in M. rewrite <- M. unfold members. apply in_concat. exists (fst c). split; [apply in_map; exact Hc | exact Ht]. }
  split.
  - rewrite map_map. simpl. rewrite <- (map_map fst (map fst)), concat_map_map. fold (members r). rewrite M. exact Efst.
  - intros c Hc. apply in_map_iff in Hc. destruct Hc as [c0 [<- Hc0]]. simpl. apply in_rev in Hc0.
    rewrite Forall_forall in G. destruct (G c0 Hc0) as [[Hne _] _]. intros Hm. apply map_eq_nil in Hm. contradiction.
  - intros c Hc. apply in_map_iff in Hc. destruct Hc as [c0 [<- Hc0]]. simpl. exists (fst c0). split.
    + apply with_fees_of. rewrite Forall_forall in *. intros t Ht. apply Hall. apply (Sub c0 Hc0 t Ht).
    + apply in_rev in Hc0. rewrite Forall_forall in G. destruct (G c0 Hc0) as [[_ Hs] _]. exact Hs.
  - assert (E2 : map snd (map (fun c : list (nat * FF) * FF => (map fst (fst c), snd c)) (rev r)) = chunking (map feeof lf)).
    { rewrite map_map. simpl. rewrite <- (chunking_info_snd feeof lf), (chunking_info_ideal feeof lf R). reflexivity. }
    rewrite E2. destruct (chunking_structure (map feeof lf) R) as [gs [_ [_ [_ N]]]]. exact N.
Qed.

(* ------------------------------------------------------------------------------------------- *)
(* CompareMainOrder against the positions in the total order *)
Definition cmp_is_position_order (ord exl : list nat) (rows : list (list comparison)) : Prop :=
  Forall2 (fun x row =>
    Forall2 (fun y c => exists a b, index_of x ord = Some a /\ index_of y ord = Some b /\ c = Nat.compare a b) exl row)
    exl rows.

Lemma cmp_eqb_eq a b : cmp_eqb a b = true <-> a = b.
Proof. destruct a, b; simpl; split; try reflexivity; discriminate. Qed.

Lemma cmp_row_ok_spec ord x exl : forall row, cmp_row_ok ord x exl row = true ->
  Forall2 (fun y c => exists a b, index_of x ord = Some a /\ index_of y ord = Some b /\ c = Nat.compare a b) exl row.
Proof.
  induction exl as [| y ys IH]; intros [| c cs] H; simpl in H; try discriminate; [constructor |].
  destruct (index_of x ord) as [a |] eqn:Ea; [| discriminate]. destruct (index_of y ord) as [b |] eqn:Eb; [| discriminate].
  apply andb_true_iff in H. destruct H as [H1 H2]. apply cmp_eqb_eq in H1. constructor.
  - exists a, b. auto.
  - apply IH in H2. rewrite ?Ea in H2. exact H2.
Qed.
Lemma cmp_rows_ok_spec ord exl xs : forall rows, cmp_rows_ok ord xs exl rows = true ->
  Forall2 (fun x row =>
    Forall2 (fun y c => exists a b, index_of x ord = Some a /\ index_of y ord = Some b /\ c = Nat.compare a b) exl row) xs rows.
Proof.
  induction xs as [| x r IH]; intros [| row q] H; simpl in H; try discriminate; [constructor |].
  apply andb_true_iff in H. destruct H as [H1 H2]. constructor; [apply cmp_row_ok_spec; exact H1 | apply IH; exact H2].
Qed.

(* positions in a duplicate-free list: smaller index = strictly before *)
Lemma index_of_In x l a : index_of x l = Some a -> In x l.
Proof.
  revert a. induction l as [| y l IH]; intros a H; simpl in H; [discriminate |].
  destruct (Nat.eqb x y) eqn:E; [apply Nat.eqb_eq in E; left; auto |].
  destruct (index_of x l) as [k |] eqn:Ek; [| discriminate]. right. eapply IH. reflexivity.
Qed.
Lemma index_of_lt_before l : forall x y a b, NoDup l -> index_of x l = Some a -> index_of y l = Some b ->
  (a < b)%nat -> before x y l.
Proof.
  induction l as [| z l IH]; intros x y a b N Hx Hy Hlt; simpl in *; [discriminate |].
  inversion N as [| ? ? Hz N']; subst.
  destruct (Nat.eqb x z) eqn:Exz.
  - apply Nat.eqb_eq in Exz. subst z. inversion Hx. subst a.
    destruct (Nat.eqb y x) eqn:Eyx; [inversion Hy; lia |].
    destruct (index_of y l) as [k |] eqn:Ek; [| discriminate]. apply before_head. eapply index_of_In. exact Ek.
  - destruct (index_of x l) as [ka |] eqn:Eka; [| discriminate]. inversion Hx. subst a.
    destruct (Nat.eqb y z) eqn:Eyz; [inversion Hy; lia |].
    destruct (index_of y l) as [kb |] eqn:Ekb; [| discriminate]. inversion Hy. subst b.
    apply before_cons. apply (IH x y ka kb N' Eka Ekb). lia.
Qed.

(* ------------------------------------------------------------------------------------------- *)
(* the ordering answers of the main graph *)
Record cluster_lin_ok (lv : level) (clu : list (nat * list nat)) (ord : list nat) (x : nat) (lin : list nat) : Prop := {
  cl_reported : assoc x clu = Some lin;
  cl_nodup : NoDup lin;
  cl_members : forall y, In y lin <-> In y (q_cluster lv x);
  cl_topological : forall p c, In (p, c) (would lv) -> In c lin -> before p c lin;
  cl_same_for_all : forall y, In y lin -> assoc y clu = Some lin;
  cl_is_suborder : filter (fun y => same_cluster (lv_labels lv) x y) ord = lin
}.

Lemma lin_ok_spec lv clu x : lin_ok lv clu x = true ->
  exists lin, assoc x clu = Some lin /\ NoDup lin /\ (forall y, In y lin <-> In y (q_cluster lv x)) /\
              walk_spec (would lv) [] lin /\ (forall y, In y lin -> assoc y clu = Some lin).
Proof.
  unfold lin_ok. destruct (assoc x clu) as [lin |]; [| discriminate]. intros H.
  apply andb_true_iff in H. destruct H as [H H3]. apply andb_true_iff in H. destruct H as [H1 H2].
  apply is_set_of_spec in H1. destruct H1 as [N M]. apply topo_walk_iff in H2.
  exists lin. split; [reflexivity |]. split; [exact N |]. split; [exact M |]. split; [exact H2 |].
  intros y Hy. rewrite forallb_forall in H3. specialize (H3 y Hy). destruct (assoc y clu) as [l2 |]; [| discriminate].
  apply list_eqb_eq in H3. subst. reflexivity.
Qed.

Theorem order_checks_sound lv exl clu b : lv_wf lv ->
  forallb snd (order_checks lv exl clu b) = true ->
  let ord := order_of b in
  (* one strict total order over exactly the live transactions *)
  NoDup ord /\ (forall i, In i ord <-> In i (ids lv)) /\
  (* that respects every dependency (ancestors first) *)
  (forall a d, In (a, d) (would lv) -> before a d ord) /\
  (* CompareMainOrder(x, y) = comparison of the positions of x and y in it *)
  cmp_is_position_order ord exl (b_cmp b) /\
  (* restricted to any cluster it is the linearization GetCluster reports, which is a topologically
     valid enumeration of exactly that cluster *)
  (forall x, In x (ids lv) -> exists lin, cluster_lin_ok lv clu ord x lin) /\
  (* the block builder's chunks are the chunks of that order ... *)
  chunks_spec (l_txs lv) ord (b_bb b) /\
  (* ... each is a chunk of its cluster's linearization, is connected, and GetMainChunkFeerate of
     every member is the chunk's feerate *)
  (forall c, In c (b_bb b) ->
     connected (would lv) (fst c) /\
     (forall y, In y (fst c) -> assoc y (b_cf b) = Some (snd c)) /\
     exists x lin cs, In x (fst c) /\ assoc x clu = Some lin /\ lin_chunks (l_txs lv) lin = Some cs /\ In c cs) /\
  (* GetWorstMainChunk is the last of them, reversed *)
  (match rev (b_bb b) with
   | [] => b_wc b = ([], (0, 0)%Z)
   | c :: _ => b_wc b = (rev (fst c), snd c)
   end).
Proof.
  intros W H ord. pose proof (checks_all _ H) as C. clear H. unfold order_checks in C. fold ord in C.
  assert (C21 := C 21%nat _ (or_intror (or_introl eq_refl))).
  assert (C22 := C 22%nat _ (or_intror (or_intror (or_introl eq_refl)))).
  assert (C23 := C 23%nat _ (or_intror (or_intror (or_intror (or_introl eq_refl))))).
  assert (C24 := C 24%nat _ (or_intror (or_intror (or_intror (or_intror (or_introl eq_refl)))))).
  assert (C25 := C 25%nat _ (or_intror (or_intror (or_intror (or_intror (or_intror (or_introl eq_refl))))))).
  assert (C26 := C 26%nat _ (or_intror (or_intror (or_intror (or_intror (or_intror (or_intror (or_introl eq_refl)))))))).
  assert (C27 := C 27%nat _ (or_intror (or_intror (or_intror (or_intror (or_intror (or_intror (or_intror (or_introl eq_refl))))))))).
  assert (C28 := C 28%nat _ (or_intror (or_intror (or_intror (or_intror (or_intror (or_intror (or_intror (or_intror (or_introl eq_refl)))))))))).
  assert (C30 := C 30%nat _ (or_intror (or_intror (or_intror (or_intror (or_intror (or_intror (or_intror (or_intror (or_intror (or_intror (or_introl eq_refl)))))))))))).
  clear C.
  apply is_set_of_spec in C23. destruct C23 as [Nord Mord].
  apply topo_walk_iff in C24. destruct C24 as [_ [_ Topo]].
  rewrite forallb_forall in C21, C26, C28.
  apply andb_true_iff in C22. destruct C22 as [_ C22]. rewrite forallb_forall in C22.
  assert (Chunks : chunks_spec (l_txs lv) ord (b_bb b)).
  { destruct (lin_chunks (l_txs lv) ord) as [cs |] eqn:E; [| discriminate]. apply chunks_eqb_eq in C27. subst cs.
    apply lin_chunks_spec. exact E. }
  split; [exact Nord |]. split; [exact Mord |]. split.
  { intros a d Had. destruct (Topo a d Had) as [[] | B]; [| exact B]. apply Mord. apply (would_ends lv W _ _ Had). }
  split; [apply cmp_rows_ok_spec; exact C25 |]. split.
  { intros x Hx. destruct (lin_ok_spec lv clu x (C21 x Hx)) as [lin [E [N [M [Wk Sm]]]]]. exists lin. split; try assumption.
    - intros p c Hpc Hc. destruct Wk as [_ [_ Wk]]. destruct (Wk p c Hpc Hc) as [[] | B]. exact B.
    - specialize (C26 x Hx). rewrite E in C26. apply list_eqb_eq in C26. exact C26. }
  split; [exact Chunks |]. split.
  { intros c Hc. specialize (C28 c Hc). destruct (fst c) as [| x rest] eqn:Ec; [discriminate |].
    destruct (assoc x clu) as [lin |] eqn:Elin; [| discriminate].
    destruct (lin_chunks (l_txs lv) lin) as [cs |] eqn:Ecs; [| discriminate].
    apply existsb_exists in C28. destruct C28 as [c' [Hc' Eq]]. apply chunk_eqb_eq in Eq. subst c'.
    assert (Hx : In x (ids lv)).
    { apply Mord. unfold ord, order_of. apply in_concat. exists (fst c). split; [apply in_map; exact Hc | rewrite Ec; left; reflexivity]. }
    specialize (C22 x Hx). unfold cluster_chunks_ok in C22. rewrite Elin, Ecs in C22. rewrite forallb_forall in C22.
    specialize (C22 c Hc'). apply andb_true_iff in C22. destruct C22 as [Conn Cf]. rewrite Ec in *. split; [| split].
    - apply is_connected_sound. exact Conn.
    - intros y Hy. rewrite forallb_forall in Cf. specialize (Cf y Hy). destruct (assoc y (b_cf b)) as [f |]; [| discriminate].
      apply ff_eqb_eq in Cf. subst. reflexivity.
    - exists x, lin, cs. split; [left; reflexivity |]. auto. }
  destruct (rev (b_bb b)) as [| c r].
  - apply andb_true_iff in C30. destruct C30 as [H1 H2]. apply is_nil_spec in H1. apply ff_eqb_eq in H2.
    destruct (b_wc b) as [w f]. simpl in *. subst. reflexivity.
  - apply chunk_eqb_eq in C30. exact C30.
Qed.

(* consequence: GetMainChunkFeerate(x) is the feerate of the chunk containing x in the chunking of
   the total order, and that feerate is the exact sum over the chunk's members *)
Corollary chunk_feerate_is_chunk_sum lv exl clu b x : lv_wf lv ->
  forallb snd (order_checks lv exl clu b) = true -> In x (ids lv) ->
  exists c lf, In c (b_bb b) /\ In x (fst c) /\ assoc x (b_cf b) = Some (snd c) /\
               with_fees (l_txs lv) (fst c) = Some lf /\ snd c = fsum (map snd lf).
Proof.
  intros W H Hx. destruct (order_checks_sound lv exl clu b W H) as [_ [M [_ [_ [_ [Ch [Cf _]]]]]]].
  apply M in Hx. unfold order_of in Hx. apply in_concat in Hx. destruct Hx as [l [Hl Hxl]].
  apply in_map_iff in Hl. destruct Hl as [c [<- Hc]]. destruct (cs_sum _ _ _ Ch c Hc) as [lf [E1 E2]].
  destruct (Cf c Hc) as [_ [F _]]. exists c, lf. repeat split; auto.
Qed.

(* ------------------------------------------------------------------------------------------- *)
(* the builder walk with Skip() *)
Lemma place_all_spec W : forall l placed, place_all W placed l = true ->
  forall l1 x l2, l = l1 ++ x :: l2 -> forall a, In (a, x) W -> In a (placed ++ l1).
Proof.
  induction l as [| y l IH]; intros placed H l1 x l2 E a Ha; [destruct l1; discriminate |].
  simpl in H. apply andb_true_iff in H. destruct H as [H1 H2].
  destruct l1 as [| z l1]; simpl in E; inversion E; subst.
  - rewrite app_nil_r. unfold ancestors_in in H1. rewrite forallb_forall in H1. apply memn_In. apply H1. apply ancs_strict_In. exact Ha.
  - specialize (IH (placed ++ [z]) H2 l1 x l2 eq_refl a Ha). rewrite <- app_assoc in IH. exact IH.
Qed.

Lemma in_app_or_split {A} (inc ch : list A) : forall l1 y l2, inc ++ ch = l1 ++ y :: l2 ->
  (exists l2', inc = l1 ++ y :: l2' /\ l2 = l2' ++ ch) \/ (exists l1', l1 = inc ++ l1' /\ ch = l1' ++ y :: l2).
Proof.
  induction inc as [| z inc IH]; intros l1 y l2 E.
  - right. exists l1. simpl in *. auto.
  - destruct l1 as [| z0 l1]; simpl in E; inversion E; subst.
    + left. exists inc. auto.
    + destruct (IH l1 y l2 H1) as [[l2' [E1 E2]] | [l1' [E1 E2]]].
      * left. exists l2'. subst. auto.
      * right. exists l1'. subst. auto.
Qed.

(* invariant: everything included so far has all its ancestors included before it *)
Definition closed_prefix (W : rel) (inc : list nat) : Prop :=
  forall l1 x l2, inc = l1 ++ x :: l2 -> forall a, In (a, x) W -> In a l1.

Lemma walk_ok_sound lv L cf w : forall included done excl last,
  walk_ok lv L cf included done excl last w = true -> closed_prefix (would lv) included ->
  closed_prefix (would lv) (included ++ walk_included w).
Proof.
  induction w as [| [skip c] w IH]; intros included done excl last H Cp.
  - simpl. rewrite app_nil_r. exact Cp.
  - simpl in H. destruct (fst c) as [| x rest] eqn:Ec; [discriminate |]. destruct (lab L x) as [lx |]; [| discriminate].
    repeat (apply andb_true_iff in H; destruct H as [H ?]).
    rename H0 into Hrest. rename H1 into Hplace.
    unfold walk_included. simpl. fold (walk_included w). destruct skip; simpl in *.
    + apply (IH _ _ _ _ Hrest Cp).
    + rewrite Ec. rewrite app_assoc. apply (IH _ _ _ _ Hrest).
      intros l1 y l2 E a Ha. destruct (in_app_or_split included (x :: rest) l1 y l2 E) as [[l2' [E1 E2]] | [l1' [E1 E2]]].
      * subst. apply (Cp l1 y l2' eq_refl a Ha).
      * subst l1. change (place_all (would lv) included (x :: rest) = true) in Hplace.
        apply (place_all_spec _ _ _ Hplace l1' y l2 E2 a Ha).
Qed.

Theorem walk_checks_sound lv b : b_has_walk b = true ->
  forallb snd (walk_checks lv b) = true ->
  (* the included chunks, concatenated, form a topologically valid prefix: every included
     transaction is preceded by all its ancestors *)
  closed_prefix (would lv) (walk_included (b_walk b)) /\
  (* and when nothing was skipped the walk reports every transaction exactly once *)
  (existsb fst (b_walk b) = false ->
   NoDup (walk_included (b_walk b)) /\ forall i, In i (walk_included (b_walk b)) <-> In i (ids lv)).
Proof.
  intros Hw H. unfold walk_checks in H. rewrite Hw in H. pose proof (checks_all _ H) as C. clear H.
  assert (C31 := C 31%nat _ (or_introl eq_refl)).
  assert (C32 := C 32%nat _ (or_intror (or_introl eq_refl))). clear C. split.
  - apply (walk_ok_sound lv _ _ _ [] [] [] None C31). intros l1 x l2 E. destruct l1; discriminate.
  - intros Hs. rewrite Hs in C32. simpl in C32. apply is_set_of_spec in C32. exact C32.
Qed.

(* ------------------------------------------------------------------------------------------- *)
(* GetMainStagingDiagrams *)
Lemma remove_ff_spec f l : forall r, remove_ff f l = Some r -> Permutation l (f :: r).
Proof.
  induction l as [| g l IH]; intros r H; simpl in H; [discriminate |].
  destruct (ff_eqb f g) eqn:E.
  - apply ff_eqb_eq in E. inversion H. subst. apply Permutation_refl.
  - destruct (remove_ff f l) as [q |]; [| discriminate]. inversion H. subst.
    apply perm_trans with (g :: f :: q); [apply perm_skip, IH; reflexivity | apply perm_swap].
Qed.
Lemma msub_spec part : forall full r, msub full part = Some r -> Permutation full (part ++ r).
Proof.
  induction part as [| f part IH]; intros full r H; simpl in H.
  - inversion H. apply Permutation_refl.
  - destruct (remove_ff f full) as [full' |] eqn:E; [| discriminate].
    apply perm_trans with (f :: full'); [apply remove_ff_spec; exact E |]. simpl. apply perm_skip. apply IH. exact H.
Qed.

Theorem diagram_checks_sound m st clu_m clu_s dg :
  forallb snd (diagram_checks m st clu_m clu_s dg) = true ->
  exists fm fs omitted_m omitted_s,
    (* fm / fs: the chunk feerates of all clusters of main / staging, from the linearizations
       GetCluster reports *)
    level_chunk_feerates m clu_m = Some fm /\ level_chunk_feerates st clu_s = Some fs /\
    (* each reported diagram is that multiset minus an omitted part, and the omitted parts (the
       clusters "that appear identically in both") are the same multiset on both sides *)
    Permutation fm (fst dg ++ omitted_m) /\ Permutation fs (snd dg ++ omitted_s) /\
    Permutation omitted_m omitted_s /\
    feerates_nonincreasing (fst dg) = true /\ feerates_nonincreasing (snd dg) = true.
Proof.
  intros H. pose proof (checks_all _ H) as C. clear H. unfold diagram_checks in C.
  assert (C41 := C 41%nat _ (or_intror (or_introl eq_refl))).
  assert (C42 := C 42%nat _ (or_intror (or_intror (or_introl eq_refl)))). clear C.
  destruct (level_chunk_feerates m clu_m) as [fm |]; [| discriminate].
  destruct (level_chunk_feerates st clu_s) as [fs |]; [| discriminate].
  destruct (msub fm (fst dg)) as [rm |] eqn:E1; [| discriminate].
  destruct (msub fs (snd dg)) as [rs |] eqn:E2; [| discriminate].
  destruct (msub rm rs) as [[| ? ?] |] eqn:E3; try discriminate.
  apply andb_true_iff in C41. destruct C41 as [N1 N2].
  exists fm, fs, rm, rs. repeat split; auto.
  - apply msub_spec. exact E1.
  - apply msub_spec. exact E2.
  - apply msub_spec in E3. rewrite app_nil_r in E3. exact E3.
Qed.
