(* What holds right after GetRequestable (PostGetRequestableSanityCheck), and what GetRequestable returns. *)
From BV Require Import lib.Ints model.TxRequest proofs.TxRequestBasics proofs.TxRequestInv proofs.TxRequestOps proofs.TxRequestSteps.
From Coq Require Import Sorting.Sorted.
Local Open Scope Z_scope.

(* where the elements of an updated index come from *)
Lemma in_set_st_fwd p h st l x : In x (set_st p h st l) ->
  In x l \/ exists a, In a l /\ is_key p h a = true /\ x = with_state a st.
Proof.
  unfold set_st, set_ann. intros H. apply in_map_iff in H. destruct H as [a [E Ha]].
  destruct (is_key p h a) eqn:K; [right; exists a; auto | left; subst; auto].
Qed.

Lemma in_promote_shape l p h it l' x : uniq l -> find_ann p h l = Some it -> promote_shape l p h it l' -> In x l' ->
  In x l \/ x = with_state it CANDIDATE_READY \/ x = with_state it CANDIDATE_BEST \/
  exists b, In b l /\ a_state b = CANDIDATE_BEST /\ a_txhash b = h /\ x = with_state b CANDIDATE_READY.
Proof.
  intros U F S Hx. destruct (find_ann_some _ _ _ _ F) as [Hin [Hp Hh]]. destruct S as [st Hst | b Fb Sb Nb].
  - apply (in_set_st p h st l it x U F) in Hx. destruct Hx as [->|[Hx _]]; auto. destruct Hst as [->| ->]; auto.
  - assert (U1 : uniq (set_st (a_peer b) h CANDIDATE_READY l)) by (apply set_st_uniq; auto).
    assert (F1 : find_ann p h (set_st (a_peer b) h CANDIDATE_READY l) = Some it).
    { rewrite find_set_st_other; auto. intros E. inversion E. congruence. }
    apply (in_set_st p h _ _ it x U1 F1) in Hx. destruct Hx as [->|[Hx _]]; auto.
    apply (in_set_st (a_peer b) h _ l b x U Fb) in Hx. destruct Hx as [->|[Hx _]]; auto.
    right. right. right. exists b. destruct (find_ann_some _ _ _ _ Fb) as [Hb [_ Hbh]]. auto.
Qed.

Lemma in_car_shape l p h ns it l' x : uniq l -> find_ann p h l = Some it -> car_shape l p h ns l' -> In x l' ->
  (In x l /\ x <> it) \/ x = with_state it ns \/
  exists r, In r l /\ a_state r = CANDIDATE_READY /\ a_txhash r = h /\ x = with_state r CANDIDATE_BEST.
Proof.
  intros U F S Hx. destruct (find_ann_some _ _ _ _ F) as [Hin [Hp Hh]]. destruct S as [| r Fr Sr Nr].
  - apply (in_set_st p h ns l it x U F) in Hx. destruct Hx as [->|[Hx K]]; auto.
    left. split; auto. eapply is_key_false_other; eauto.
  - assert (U1 : uniq (set_st (a_peer r) h CANDIDATE_BEST l)) by (apply set_st_uniq; auto).
    assert (F1 : find_ann p h (set_st (a_peer r) h CANDIDATE_BEST l) = Some it).
    { rewrite find_set_st_other; auto. intros E. inversion E. congruence. }
    apply (in_set_st p h _ _ it x U1 F1) in Hx. destruct Hx as [->|[Hx K]]; auto.
    apply (in_set_st (a_peer r) h _ l r x U Fr) in Hx. destruct Hx as [->|[Hx _]].
    + right. right. exists r. destruct (find_ann_some _ _ _ _ Fr) as [Hr [_ Hrh]]. auto.
    + left. split; auto. intros ->. rewrite (proj2 (is_key_true p h it)) in K by auto. discriminate.
Qed.

Lemma in_mc_l prio l p h it x : uniq l -> find_ann p h l = Some it -> In x (mc_l prio l p h it) ->
  (In x l /\ (x <> it \/ a_state it = COMPLETED)) \/ (x = with_state it COMPLETED /\ a_state it <> COMPLETED) \/
  exists r, In r l /\ a_state r = CANDIDATE_READY /\ a_txhash r = h /\ x = with_state r CANDIDATE_BEST.
Proof.
  intros U F Hx. unfold mc_l in Hx. destruct (st_is COMPLETED it) eqn:E.
  - left. split; auto. right. apply st_is_eq; auto.
  - apply st_is_neq in E. destruct (is_only_non_completed l p h).
    + left. unfold drop_tx in Hx. apply filter_In in Hx. destruct Hx as [Hx Nh]. split; auto. left. intros ->.
      destruct (find_ann_some _ _ _ _ F) as [_ [_ Hh]]. unfold has_txhash in Nh. rewrite Hh, Z.eqb_refl in Nh. discriminate.
    + destruct (in_car_shape l p h COMPLETED it _ x U F (car_l_shape prio l p h it COMPLETED U F) Hx) as [[A B]|[A|A]]; auto.
Qed.

Section Post.
Variable prio : Z -> Z -> bool -> Z.
Notation prio_of := (prio_of prio).
Notation Inv := (Inv prio).

Definition waiting_future (now : Z) (l : list ann) : Prop := forall a, In a l -> is_waiting a = true -> now < a_time a.
Definition selectable_past (now : Z) (l : list ann) : Prop := forall a, In a l -> is_selectable a = true -> a_time a <= now.

Lemma stp_loop1_post now : forall fuel t ex,
  Inv t -> cnt is_waiting (t_index t) <= Z.of_nat fuel ->
  waiting_future now (t_index (fst (stp_loop1 prio fuel now t ex))).
Proof.
  induction fuel as [|f IH]; intros t ex I Hc; rewrite stp_loop1_unfold.
  - destruct (first_by_time (t_index t)) as [it|] eqn:FB.
    + destruct (a_time it <=? now) eqn:Tm.
      * exfalso. apply first_by_time_some in FB. destruct FB as [Hin [Wi _]].
        assert (0 < cnt is_waiting (t_index t)) by (apply cnt_pos; exists it; auto). simpl in Hc. lia.
      * apply Z.leb_gt in Tm. apply first_by_time_some in FB. destruct FB as [_ [_ Hmin]].
        intros a Ha Wa. specialize (Hmin a Ha Wa). cbn [fst]. lia.
    + unfold first_by_time in FB. apply argmax_none in FB. intros a Ha Wa. cbn [fst] in Ha.
      assert (X : In a (filter is_waiting (t_index t))) by (apply filter_In; auto). rewrite FB in X. contradiction.
  - destruct (first_by_time (t_index t)) as [it|] eqn:FB.
    + destruct (a_time it <=? now) eqn:Tm.
      * apply first_by_time_some in FB. destruct FB as [Hin [Wi _]].
        destruct (st_is CANDIDATE_DELAYED it) eqn:D.
        -- apply st_is_eq in D. destruct (loop1_promote_step prio t it I Hin D) as [I' C']. apply IH; auto. lia.
        -- assert (D' : a_state it = REQUESTED).
           { destruct (waiting_states it Wi) as [X|X]; auto. apply st_is_neq in D. contradiction. }
           destruct (loop1_complete_step prio t it I Hin D') as [I' C']. apply IH; auto. lia.
      * apply Z.leb_gt in Tm. apply first_by_time_some in FB. destruct FB as [_ [_ Hmin]].
        intros a Ha Wa. specialize (Hmin a Ha Wa). cbn [fst]. lia.
    + unfold first_by_time in FB. apply argmax_none in FB. intros a Ha Wa. cbn [fst] in Ha.
      assert (X : In a (filter is_waiting (t_index t))) by (apply filter_In; auto). rewrite FB in X. contradiction.
Qed.

Lemma stp_loop2_post now : forall fuel t,
  Inv t -> cnt is_selectable (t_index t) <= Z.of_nat fuel -> waiting_future now (t_index t) ->
  waiting_future now (t_index (stp_loop2 prio fuel now t)) /\ selectable_past now (t_index (stp_loop2 prio fuel now t)).
Proof.
  assert (EXIT : forall t, waiting_future now (t_index t) ->
            (forall it, last_by_time (t_index t) = Some it -> a_time it <= now) ->
            waiting_future now (t_index t) /\ selectable_past now (t_index t)).
  { intros t WF0 H. split; auto. intros a Ha Sa. destruct (last_by_time (t_index t)) as [it|] eqn:FB.
    - specialize (H it eq_refl). apply last_by_time_some in FB. destruct FB as [_ [_ Hmax]]. specialize (Hmax a Ha Sa). lia.
    - unfold last_by_time in FB. apply argmax_none in FB.
      assert (X : In a (filter is_selectable (t_index t))) by (apply filter_In; auto). rewrite FB in X. contradiction. }
  induction fuel as [|f IH]; intros t I Hc WF0; rewrite stp_loop2_unfold.
  - destruct (last_by_time (t_index t)) as [it|] eqn:FB.
    + destruct (now <? a_time it) eqn:Tm.
      * exfalso. apply last_by_time_some in FB. destruct FB as [Hin [Si _]].
        assert (0 < cnt is_selectable (t_index t)) by (apply cnt_pos; exists it; auto). simpl in Hc. lia.
      * apply EXIT; auto. intros it' E. rewrite FB in E. inversion E. subst. apply Z.ltb_ge in Tm. lia.
    + apply EXIT; auto. intros it' E. rewrite FB in E. discriminate.
  - destruct (last_by_time (t_index t)) as [it|] eqn:FB.
    + destruct (now <? a_time it) eqn:Tm.
      * pose proof FB as FB'. apply last_by_time_some in FB'. destruct FB' as [Hin [Si _]]. apply Z.ltb_lt in Tm.
        destruct (loop2_step prio t it I Hin Si) as [I' C']. apply IH; auto; [lia|].
        pose proof I as [W _ _]. pose proof (wf_uniq _ W) as U.
        assert (F : find_ann (a_peer it) (a_txhash it) (t_index t) = Some it) by (apply find_ann_in; auto).
        destruct (car_spec prio t _ _ it CANDIDATE_DELAYED W F) as [Ix _]. rewrite Ix.
        intros x Hx Wx.
        destruct (in_car_shape _ _ _ _ it _ x U F (car_l_shape prio _ _ _ it _ U F) Hx) as [[A _]|[->|[r [_ [_ [_ ->]]]]]].
        -- apply WF0; auto.
        -- simpl. exact Tm.
        -- discriminate.
      * apply EXIT; auto. intros it' E. rewrite FB in E. inversion E. subst. apply Z.ltb_ge in Tm. lia.
    + apply EXIT; auto. intros it' E. rewrite FB in E. discriminate.
Qed.

(* PostGetRequestableSanityCheck(now) *)
Lemma set_time_point_post t now : Inv t ->
  let t' := fst (set_time_point prio t now) in
  waiting_future now (t_index t') /\ selectable_past now (t_index t').
Proof.
  intros I. unfold set_time_point.
  pose proof (stp_loop1_inv prio now (length (t_index t)) t [] I (cnt_le_length _ _)) as I1.
  pose proof (stp_loop1_post now (length (t_index t)) t [] I (cnt_le_length _ _)) as P1.
  destruct (stp_loop1 prio (length (t_index t)) now t []) as [t1 ex]. cbn [fst] in *.
  apply stp_loop2_post; auto. apply cnt_le_length.
Qed.

Lemma sort_by_seq_sorted l : StronglySorted Z.lt (map a_seq l) -> sort_by_seq l = l.
Proof.
  induction l as [|a r IH]; intros S; [reflexivity|]. cbn [sort_by_seq]. cbn [map] in S. inversion S; subst.
  rewrite IH by auto. destruct r as [|b r']; [reflexivity|]. cbn [insert_by_seq].
  inversion H2; subst. assert (X : (a_seq a <? a_seq b) = true) by (apply Z.ltb_lt; auto). rewrite X. reflexivity.
Qed.

Lemma sorted_filter_seq (P : ann -> bool) l : StronglySorted Z.lt (map a_seq l) -> StronglySorted Z.lt (map a_seq (filter P l)).
Proof. intros S. eapply subseq_sorted; [|exact S]. apply subseq_map. apply subseq_filter. Qed.

(* GetRequestable: the invariant holds afterwards, every waiting announcement has its time in the future,
   every selectable one in the past, and the answer is the list of the peer's CANDIDATE_BEST announcements
   in the order of the index (= announcement order, sequence numbers strictly increasing) *)
Lemma get_requestable_spec t p now : Inv t ->
  let t' := fst (fst (get_requestable prio t p now)) in
  let r := snd (fst (get_requestable prio t p now)) in
  Inv t' /\ waiting_future now (t_index t') /\ selectable_past now (t_index t') /\
  r = map gtxid_of (filter (fun a => has_peer p a && st_is CANDIDATE_BEST a) (t_index t')) /\
  StronglySorted Z.lt (map a_seq (filter (fun a => has_peer p a && st_is CANDIDATE_BEST a) (t_index t'))).
Proof.
  intros I. unfold get_requestable.
  pose proof (set_time_point_inv prio t now I) as I1. pose proof (set_time_point_post t now I) as [P1 P2].
  destruct (set_time_point prio t now) as [t1 ex]. cbn [fst snd] in *.
  destruct I1 as [W S [QS QF]].
  split; [constructor; auto; split; auto|]. split; auto. split; auto.
  pose proof (sorted_filter_seq (fun a => has_peer p a && st_is CANDIDATE_BEST a) _ QS) as SF.
  rewrite sort_by_seq_sorted by auto. auto.
Qed.

(* the priority computer does not give two peers the same priority for one txhash *)
Definition prio_inj : Prop := forall h p1 p2 f1 f2, prio h p1 f1 = prio h p2 f2 -> p1 = p2.

Lemma best_iff_selected l now :
  uniq l -> sched_ok prio l -> waiting_future now l -> selectable_past now l -> prio_inj ->
  forall a, In a l -> (a_state a = CANDIDATE_BEST <-> s_selected prio l now a = true).
Proof.
  intros U [T P] WFu SP PI a Ha. unfold s_selected. set (h := a_txhash a).
  destruct (T h) as [Tsel Tready _].
  pose proof (c_nonneg l h CANDIDATE_BEST). pose proof (c_nonneg l h REQUESTED).
  split.
  - intros Sa.
    assert (CB : 0 < c l h CANDIDATE_BEST) by (apply (c_pos_of l h _ a); auto).
    assert (Sel : is_selectable a = true) by (unfold is_selectable, st_is; rewrite Sa; reflexivity).
    rewrite !andb_true_iff. repeat split.
    + unfold is_candidate, st_is. rewrite Sa. reflexivity.
    + apply Z.leb_le. apply SP; auto.
    + apply negb_true_iff. apply existsb_false_cnt. fold (in_st h REQUESTED). fold (c l h REQUESTED). lia.
    + apply forallb_forall. intros b Hb.
      destruct (has_txhash h b && is_candidate b && (a_time b <=? now)) eqn:E; [|reflexivity]. cbn [negb orb].
      apply andb_true_iff in E. destruct E as [E Tb]. apply andb_true_iff in E. destruct E as [Eh Cb].
      apply has_txhash_true in Eh. apply Z.leb_le in Tb. apply Z.leb_le.
      unfold is_candidate in Cb. rewrite !orb_true_iff, !st_is_eq in Cb. destruct Cb as [[Sb|Sb]|Sb].
      * exfalso. assert (now < a_time b); [|lia]. apply WFu; auto. unfold is_waiting, st_is. rewrite Sb. reflexivity.
      * apply P; auto.
      * assert (b = a); [|subst; lia]. apply (sel_unique l h); auto; unfold is_selected, st_is; rewrite ?Sa, ?Sb; reflexivity.
  - rewrite !andb_true_iff. intros [[[Ca Ta] NR] FA]. apply Z.leb_le in Ta.
    apply negb_true_iff in NR. apply existsb_false_cnt in NR. fold (in_st h REQUESTED) in NR. fold (c l h REQUESTED) in NR.
    unfold is_candidate in Ca. rewrite !orb_true_iff, !st_is_eq in Ca. destruct Ca as [[Sa|Sa]|Sa]; auto.
    + exfalso. assert (now < a_time a); [|lia]. apply WFu; auto. unfold is_waiting, st_is. rewrite Sa. reflexivity.
    + exfalso. assert (CR : 0 < c l h CANDIDATE_READY) by (apply (c_pos_of l h _ a); auto).
      specialize (Tready CR). assert (CB : 0 < c l h CANDIDATE_BEST) by lia.
      apply c_pos_ex in CB. destruct CB as [b [Hb [Ebh Sb]]].
      assert (Tb : a_time b <= now) by (apply SP; auto; unfold is_selectable, st_is; rewrite Sb; reflexivity).
      rewrite forallb_forall in FA. specialize (FA b Hb).
      assert (E1 : has_txhash h b && is_candidate b && (a_time b <=? now) = true).
      { apply has_txhash_true in Ebh. rewrite Ebh. unfold is_candidate, st_is. rewrite Sb. cbn. apply Z.leb_le. exact Tb. }
      rewrite E1 in FA. cbn [negb orb] in FA. apply Z.leb_le in FA.
      assert (prio_of a <= prio_of b) by (apply P; auto).
      assert (Epr : prio_of b = prio_of a) by lia. unfold TxRequest.prio_of in Epr. unfold h in Ebh. rewrite Ebh in Epr. apply PI in Epr.
      assert (b = a) by (apply (uniq_same_key l); auto; unfold key; congruence). subst b. congruence.
Qed.

End Post.
