(* C16: the block-index walks of ReplayBlocks (LastCommonAncestor, the rollback loop over pprev, the
   roll-forward loop over GetAncestor) computed on a well-formed block tree. *)
From Coq Require Import List NArith Bool Arith Lia.
From BV Require Import model.CrashReplay proofs.CrashReplayBasics proofs.CrashReplayLedger.
Import ListNotations.

(* a node of a branch: block hash, block data, undo data *)
Definition node := (blockid * (block * blockundo))%type.
Definition n_id (x : node) : blockid := fst x.
Definition n_block (x : node) : block := fst (snd x).
Definition n_undo (x : node) : blockundo := snd (snd x).

(* branches are listed tip first *)
Definition tip_of (l : list node) (f : blockid) : blockid :=
  match l with [] => f | x :: _ => n_id x end.

(* the branch l (tip first) hangs off block f of height hf in the store: index entries with the
   right pprev and nHeight, block and undo data readable *)
Fixpoint stored_up (st : store) (l : list node) (f : blockid) (hf : nat) : Prop :=
  match l with
  | [] => True
  | x :: r =>
      st (n_id x) = Some (mkEntry (Some (tip_of r f)) (hf + length l) (Some (n_block x)) (Some (n_undo x)))
      /\ stored_up st r f hf
  end.

Lemma stored_up_skipn : forall st l f hf d, stored_up st l f hf -> stored_up st (skipn d l) f hf.
Proof.
  intros st l f hf d. revert l. induction d as [|d IH]; intros l H; simpl; auto.
  destruct l as [|x r]; auto. apply IH. destruct H; auto.
Qed.

Lemma tip_height : forall st l f hf ef,
  stored_up st l f hf -> st f = Some ef -> e_height ef = hf ->
  exists e, st (tip_of l f) = Some e /\ e_height e = hf + length l.
Proof.
  intros st l f hf ef H Hf Hh. destruct l as [|x r]; simpl in *.
  - exists ef. split; auto. lia.
  - destruct H as [H _]. eexists. split; eauto.
Qed.

(* ---------- GetAncestor ---------- *)
Lemma get_ancestor_up : forall st f hf ef d l fuel,
  st f = Some ef -> e_height ef = hf ->
  stored_up st l f hf -> d <= length l -> d <= fuel ->
  get_ancestor st fuel (tip_of l f) (hf + length l - d) = Some (tip_of (skipn d l) f).
Proof.
  intros st f hf ef d. induction d as [|d IH]; intros l fuel Hf Hh S Hd Hfu.
  - destruct (tip_height st l f hf ef S Hf Hh) as [e [E1 E2]].
    destruct fuel; simpl; rewrite E1; replace (hf + length l - 0) with (hf + length l) by lia;
      rewrite E2, Nat.eqb_refl; reflexivity.
  - destruct l as [|x r]; simpl in Hd; [lia|].
    destruct fuel as [|fuel]; [lia|].
    simpl in S. destruct S as [Sx Sr].
    simpl tip_of. simpl get_ancestor. rewrite Sx. simpl e_height. simpl length.
    destruct (Nat.eqb_spec (hf + S (length r)) (hf + S (length r) - S d)) as [E|E]; [lia|].
    simpl e_parent. simpl skipn.
    replace (hf + S (length r) - S d) with (hf + length r - d) by lia.
    apply IH; auto; lia.
Qed.

(* ---------- LastCommonAncestor ---------- *)
Definition bottom (l : list node) : option blockid :=
  match rev l with [] => None | x :: _ => Some (n_id x) end.
(* the two branches start with different blocks (so f is where they fork) *)
Definition diverge (lA lB : list node) : Prop :=
  forall x y, bottom lA = Some x -> bottom lB = Some y -> x <> y.

Lemma bottom_cons : forall x r, r <> [] -> bottom (x :: r) = bottom r.
Proof.
  intros x r H. unfold bottom. simpl. destruct (rev r) eqn:E.
  - exfalso. apply H. apply (f_equal (@rev node)) in E. rewrite rev_involutive in E. auto.
  - reflexivity.
Qed.
Lemma bottom_single : forall x, bottom [x] = Some (n_id x).
Proof. reflexivity. Qed.

Lemma diverge_tail : forall x y rA rB, length rA = length rB -> diverge (x :: rA) (y :: rB) -> diverge rA rB.
Proof.
  intros x y rA rB Hl D. destruct rA as [|a rA']; destruct rB as [|b rB']; simpl in Hl; try discriminate.
  intros u v Hu Hv. apply D; rewrite bottom_cons; auto; discriminate.
Qed.

Lemma tips_differ : forall st f hf lA lB,
  stored_up st lA f hf -> stored_up st lB f hf -> length lA = length lB -> lA <> [] ->
  diverge lA lB -> tip_of lA f <> tip_of lB f.
Proof.
  intros st f hf lA. induction lA as [|x rA IH]; intros lB SA SB Hl Hne D; [congruence|].
  destruct lB as [|y rB]; simpl in Hl; [discriminate|].
  simpl. intro E. simpl in SA, SB. destruct SA as [SA1 SA2]. destruct SB as [SB1 SB2].
  rewrite E in SA1. rewrite SA1 in SB1.
  assert (P : tip_of rA f = tip_of rB f) by congruence.
  destruct rA as [|a rA'].
  - destruct rB; simpl in Hl; try discriminate.
    apply (D (n_id x) (n_id y)); auto.
  - apply (IH rB SA2 SB2); auto; try discriminate.
    apply (diverge_tail x y); auto.
Qed.

Lemma lca_walk_up : forall st f hf lA lB fuel,
  stored_up st lA f hf -> stored_up st lB f hf -> length lA = length lB -> length lA <= fuel ->
  diverge lA lB ->
  lca_walk st fuel (tip_of lA f) (tip_of lB f) = Some f.
Proof.
  intros st f hf lA. induction lA as [|x rA IH]; intros lB fuel SA SB Hl Hfu D.
  - destruct lB; simpl in Hl; try discriminate. simpl. destruct fuel; simpl; rewrite N.eqb_refl; reflexivity.
  - destruct lB as [|y rB]; simpl in Hl; [discriminate|].
    pose proof (tips_differ st f hf (x :: rA) (y :: rB) SA SB) as TD.
    destruct fuel as [|fuel]; simpl in Hfu; [lia|].
    simpl tip_of in *. simpl lca_walk.
    destruct (N.eqb_spec (n_id x) (n_id y)) as [E|E].
    + exfalso. apply TD; auto; discriminate.
    + simpl in SA, SB. destruct SA as [SA1 SA2]. destruct SB as [SB1 SB2].
      rewrite SA1, SB1. simpl e_parent.
      apply IH; auto; try lia. apply (diverge_tail x y); auto.
Qed.

Lemma skipn_nonempty_bottom : forall (l : list node) d, d < length l -> bottom (skipn d l) = bottom l.
Proof.
  intros l d. revert l. induction d as [|d IH]; intros l H; simpl; auto.
  destruct l as [|x r]; simpl in *; [lia|].
  rewrite IH by lia. symmetry. apply bottom_cons. destruct r; simpl in *; [lia|discriminate].
Qed.

Lemma diverge_skipn_l : forall lA lB d, diverge lA lB -> diverge (skipn d lA) lB.
Proof.
  intros lA lB d D x y Hx Hy. destruct (Nat.lt_ge_cases d (length lA)) as [H|H].
  - rewrite skipn_nonempty_bottom in Hx by auto. apply D; auto.
  - rewrite skipn_all2 in Hx by lia. discriminate.
Qed.
Lemma diverge_sym : forall lA lB, diverge lA lB -> diverge lB lA.
Proof. intros lA lB D x y Hx Hy E. apply (D y x); auto. Qed.

Lemma last_common_ancestor_up : forall st f hf ef lA lB,
  st f = Some ef -> e_height ef = hf ->
  stored_up st lA f hf -> stored_up st lB f hf -> diverge lA lB ->
  last_common_ancestor st (tip_of lA f) (tip_of lB f) = Some f.
Proof.
  intros st f hf ef lA lB Hf Hh SA SB D.
  destruct (tip_height st lA f hf ef SA Hf Hh) as [ea [EA HA]].
  destruct (tip_height st lB f hf ef SB Hf Hh) as [eb [EB HB]].
  unfold last_common_ancestor. rewrite EA, EB. rewrite HA, HB.
  destruct (Nat.ltb_spec (hf + length lB) (hf + length lA)) as [L1|L1].
  - (* A is higher *)
    destruct (Nat.ltb_spec (hf + length lA) (hf + length lB)) as [L2|L2]; [lia|].
    replace (hf + length lB) with (hf + length lA - (length lA - length lB)) at 1 by lia.
    rewrite (get_ancestor_up st f hf ef (length lA - length lB) lA) by (auto; lia).
    apply (lca_walk_up st f hf).
    + apply stored_up_skipn; auto.
    + auto.
    + rewrite skipn_length. lia.
    + rewrite skipn_length. lia.
    + apply diverge_skipn_l; auto.
  - destruct (Nat.ltb_spec (hf + length lA) (hf + length lB)) as [L2|L2].
    + replace (hf + length lA) with (hf + length lB - (length lB - length lA)) at 1 by lia.
      rewrite (get_ancestor_up st f hf ef (length lB - length lA) lB) by (auto; lia).
      apply (lca_walk_up st f hf).
      * auto.
      * apply stored_up_skipn; auto.
      * rewrite skipn_length. lia.
      * lia.
      * apply diverge_sym. apply diverge_skipn_l. apply diverge_sym. auto.
    + apply (lca_walk_up st f hf); auto; lia.
Qed.

(* ---------- the rollback loop ---------- *)
Fixpoint rollback_up (hf : nat) (l : list node) (m : db) (ov : overlay) : option overlay :=
  match l with
  | [] => Some ov
  | x :: r =>
      match disconnect_block (hf + length l) (n_block x) (n_undo x) m ov with
      | DiscDone _ ov' => rollback_up hf r m ov'
      | _ => None
      end
  end.

Lemma rollback_up_list : forall l hf m ov,
  rollback_up hf l m ov = rollback_list (S hf) (map snd (rev l)) m ov.
Proof.
  (* by induction on l; rollback_list peels the deepest block last *)
  assert (G : forall (fw : list (block * blockundo)) h b u m ov,
             rollback_list h (fw ++ [(b, u)]) m ov =
             match disconnect_block (h + length fw) b u m ov with
             | DiscDone _ ov' => rollback_list h fw m ov'
             | _ => None
             end).
  { induction fw as [|[b0 u0] r IH]; intros h b u m ov; simpl.
    - rewrite Nat.add_0_r. destruct (disconnect_block h b u m ov); reflexivity.
    - rewrite IH. replace (S h + length r) with (h + S (length r)) by lia.
      destruct (disconnect_block (h + S (length r)) b u m ov); reflexivity. }
  induction l as [|x r IH]; intros hf m ov; simpl; auto.
  rewrite map_app. simpl. destruct x as [id [b u]]. simpl.
  rewrite G. rewrite map_length, rev_length.
  replace (S hf + length r) with (hf + S (length r)) by lia.
  unfold n_block, n_undo. simpl.
  destruct (disconnect_block (hf + S (length r)) b u m ov); auto.
Qed.

Lemma rollback_walk : forall st f hf ef l fuel m ov ov',
  st f = Some ef -> e_height ef = hf ->
  stored_up st l f hf -> length l <= fuel ->
  rollback_up hf l m ov = Some ov' ->
  rollback st fuel (tip_of l f) f m ov = inr ov'.
Proof.
  intros st f hf ef l. induction l as [|x r IH]; intros fuel m ov ov' Hf Hh S Hfu R.
  - simpl in *. inversion R. destruct fuel; simpl; rewrite N.eqb_refl; reflexivity.
  - destruct fuel as [|fuel]; simpl in Hfu; [lia|].
    simpl in S. destruct S as [Sx Sr]. simpl tip_of. simpl rollback.
    destruct (N.eqb_spec (n_id x) f) as [E|E].
    + exfalso. rewrite E in Sx. rewrite Hf in Sx. inversion Sx as [E2]. rewrite E2 in Hh. simpl in Hh. lia.
    + rewrite Sx. simpl e_height. simpl e_block. simpl e_undo. simpl e_parent.
      destruct (Nat.ltb_spec 0 (hf + S (length r))) as [_|L]; [|lia].
      simpl in R.
      destruct (disconnect_block (hf + S (length r)) (n_block x) (n_undo x) m ov) as [| |c ov1]; try discriminate.
      apply IH; auto. lia.
Qed.

(* ---------- the roll-forward loop ---------- *)
Lemma nth_error_skipn : forall (A : Type) (l : list A) j x,
  nth_error l j = Some x -> exists r, skipn j l = x :: r.
Proof.
  induction l as [|y r IH]; intros [|j] x H; simpl in *; try discriminate.
  - inversion H. eauto.
  - apply IH; auto.
Qed.

Lemma nth_error_rev : forall (A : Type) (l : list A) i x,
  nth_error (rev l) i = Some x -> nth_error l (length l - 1 - i) = Some x /\ i < length l.
Proof.
  intros A l i x H.
  assert (Hi : i < length l).
  { rewrite <- rev_length. apply nth_error_Some. congruence. }
  split; auto.
  rewrite <- (rev_involutive l) at 1.
  rewrite (nth_error_nth' (rev (rev l)) x).
  2:{ rewrite !rev_length. lia. }
  rewrite rev_nth by (rewrite rev_length; lia).
  rewrite rev_length. replace (length l - S (length l - 1 - i)) with i by lia.
  f_equal. apply nth_error_nth. auto.
Qed.

Lemma rollforward_fw : forall st new hnew (fw : list node) h0 ov,
  (forall i x, nth_error fw i = Some x ->
      get_ancestor st hnew new (h0 + i) = Some (n_id x) /\
      exists p hh u, st (n_id x) = Some (mkEntry p hh (Some (n_block x)) u)) ->
  rollforward st new hnew (length fw) h0 ov = inr (apply_chain h0 (map n_block fw) ov).
Proof.
  intros st new hnew fw. induction fw as [|x r IH]; intros h0 ov H; simpl; auto.
  destruct (H 0 x eq_refl) as [G [p [hh [u E]]]]. rewrite Nat.add_0_r in G. rewrite G, E. simpl.
  apply IH. intros i y Hy. replace (S h0 + i) with (h0 + S i) by lia. apply (H (S i) y). auto.
Qed.

Lemma stored_up_head : forall st x r f hf,
  stored_up st (x :: r) f hf ->
  st (n_id x) = Some (mkEntry (Some (tip_of r f)) (hf + S (length r)) (Some (n_block x)) (Some (n_undo x))).
Proof. intros st x r f hf [H _]. exact H. Qed.

Lemma rollforward_walk : forall st f hf ef l ov,
  st f = Some ef -> e_height ef = hf ->
  stored_up st l f hf ->
  rollforward st (tip_of l f) (hf + length l) (length l) (S hf) ov =
  inr (apply_chain (S hf) (map n_block (rev l)) ov).
Proof.
  intros st f hf ef l ov Hf Hh S.
  rewrite <- (rev_length l) at 2.
  apply rollforward_fw. intros i x Hx.
  apply nth_error_rev in Hx. destruct Hx as [Hx Hi].
  destruct (nth_error_skipn _ _ _ _ Hx) as [r Hr].
  pose proof (stored_up_skipn st l f hf (length l - 1 - i) S) as S2. rewrite Hr in S2.
  split.
  - replace (Datatypes.S hf + i) with (hf + length l - (length l - 1 - i)) by lia.
    rewrite (get_ancestor_up st f hf ef (length l - 1 - i) l) by (auto; lia).
    rewrite Hr. reflexivity.
  - rewrite (stored_up_head st x r f hf S2). eauto.
Qed.
