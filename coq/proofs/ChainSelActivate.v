(* ChainSel: ActivateBestChain from any state satisfying the mid-activation invariant ends in a state where the
   invariant holds, the tip is the only candidate and every eligible block is not better than the tip;
   |index|+1 rounds of FindMostWorkChain are enough. *)
From BV Require Import lib.Ints gen.Params_gen model.ChainSel proofs.ChainSelBase proofs.ChainSelFrame proofs.ChainSelInv
  proofs.ChainSelDeliver proofs.ChainSelFmw.
Local Open Scope Z_scope.
#[local] Arguments Z.eqb : simpl never.
#[local] Arguments Z.ltb : simpl never.
#[local] Arguments Z.gtb : simpl never.
#[local] Arguments Z.geb : simpl never.
#[local] Arguments Z.leb : simpl never.
#[local] Arguments Z.add : simpl never.
#[local] Arguments Z.sub : simpl never.

Lemma filter_length_lt {A} (f g : A -> bool) l :
  (forall x, g x = true -> f x = true) -> (exists v, In v l /\ f v = true /\ g v = false) ->
  (length (filter g l) < length (filter f l))%nat.
Proof.
  intros Hgf. induction l as [|a l IH]; intros [v [Hin [Hf Hg]]]; [destruct Hin|].
  assert (Hle : forall l', (length (filter g l') <= length (filter f l'))%nat).
  { induction l' as [|c l' IH']; cbn; [lia|]. destruct (g c) eqn:E; [rewrite (Hgf _ E); cbn; lia|]. destruct (f c); cbn; lia. }
  cbn. destruct Hin as [->|Hin].
  - rewrite Hf, Hg. cbn. pose proof (Hle l). lia.
  - assert (IH' : (length (filter g l) < length (filter f l))%nat) by (apply IH; eauto).
    destruct (g a) eqn:E; [rewrite (Hgf _ E); cbn; lia|]. destruct (f a); cbn; lia.
Qed.

Section Activate.
Variable parent_of : id -> id.
Variable proof_of : id -> Z.
Variable kind_of : id -> kind.
Hypothesis proof_pos : forall b, 0 < proof_of b.
Set Default Proof Using "All".

Notation Inv := (Inv parent_of proof_of kind_of).
Notation AInv := (AInv parent_of proof_of kind_of).
Notation Good := (Good parent_of proof_of kind_of).
Notation all_valid := (all_valid kind_of).

(* notions that only read the index are the same in two states with the same index *)
Lemma path_same s s' x : st_index s' = st_index s -> path s' x = path s x.
Proof. intros E. unfold path. rewrite E. reflexivity. Qed.
Lemma known_same s s' x : st_index s' = st_index s -> known s' x = known s x.
Proof. intros E. unfold known. rewrite E. reflexivity. Qed.
Lemma worse_same s s' a c : st_index s' = st_index s -> st_seq s' = st_seq s -> worse s' a c = worse s a c.
Proof. intros E1 E2. unfold worse, work. rewrite E1, E2. reflexivity. Qed.

(* ---------------------------------------------------------------------------------------------- *)
(* one successful ConnectTip followed by PruneBlockIndexCandidates *)
Lemma connect_one s b : AInv s -> known s b = true -> b <> GENESIS -> parent_of b = st_tip s ->
  st_data s b = true -> st_chaintx s b = true -> st_failed s b = false -> (kind_of b = KValid \/ kind_of b = KBadCtx) ->
  AInv (prune_candidates (set_tip s b)).
Proof.
  intros [HI [m [Hm [Hmv HL]]]] Hk Ng Hp Hd Hc Hf Hkind.
  destruct (ipath_unfold _ _ _ proof_pos _ HI _ Hk Ng) as [Hkp [Hpath _]].
  assert (Hkv : kind_of b = KValid).
  { destruct (i_data_kind _ _ _ _ HI _ Hk Hd) as [E|E]; [assumption|]. destruct Hkind as [E'|E']; congruence. }
  assert (HI' : Inv (prune_candidates (set_tip s b))).
  { unfold prune_candidates. ssimpl. destruct HI. constructor; ssimpl; try assumption.
    - rewrite Hpath, Hp. intros x [<-|Hx]; [auto|]. apply i_chain. assumption.
    - apply NoDup_filter. assumption.
    - intros c Hc'. apply filter_In in Hc'. destruct Hc' as [Hc1 Hc2]. destruct (i_cands c Hc1) as [H1 [H2 _]].
      split; [assumption|]. split; [assumption|]. ssimpl. destruct (worse s c b); [discriminate|reflexivity]. }
  split; [assumption|].
  assert (Hel : forall x, eligible (prune_candidates (set_tip s b)) x <-> eligible s x) by (intros x; reflexivity).
  destruct (worse s m b) eqn:Emb.
  - exists b. split; [apply Hel; repeat split; assumption|]. split.
    + intros x. change (path (prune_candidates (set_tip s b)) b) with (path s b). rewrite Hpath, Hp.
      intros [<-|Hx]; [assumption|]. apply (i_chain _ _ _ _ HI _ Hx).
    + intros x Hx Hw. apply Hel in Hx. change (worse s x b = false) in Hw.
      unfold prune_candidates. ssimpl. apply filter_In. split; [|ssimpl; rewrite Hw; reflexivity].
      apply HL; [assumption|]. apply worse_asym. eapply worse_nworse_trans; eassumption.
  - exists m. split; [apply Hel; assumption|]. split; [exact Hmv|].
    intros x Hx Hw. apply Hel in Hx. change (worse s x m = false) in Hw.
    unfold prune_candidates. ssimpl. apply filter_In. split; [apply HL; assumption|]. ssimpl.
    rewrite (nworse_trans s b m x Emb Hw). reflexivity.
Qed.

(* the failure flags only grew and at least one known block became failed *)
Definition decreased (s2 s3 : state) : Prop :=
  (forall x, st_failed s2 x = true -> st_failed s3 x = true) /\
  exists v, In v (ids s2) /\ st_failed s2 v = false /\ st_failed s3 v = true.

(* ConnectTip fails on a block that passed AcceptBlock's checks: InvalidBlockFound, then InvalidChainFound(front) *)
Lemma connect_invalid s b top : AInv s -> known s b = true -> b <> GENESIS -> parent_of b = st_tip s ->
  st_failed s b = false -> kind_of b = KBadConnect -> In b (path s top) ->
  AInv (invalid_chain_found (invalid_block_found s b false) top) /\
  decreased s (invalid_chain_found (invalid_block_found s b false) top) /\
  st_index (invalid_chain_found (invalid_block_found s b false) top) = st_index s.
Proof.
  intros [HI [m [Hm [Hmv HL]]]] Hk Ng Hp Hf Hkind Htop.
  destruct (ipath_unfold _ _ _ proof_pos _ HI _ Hk Ng) as [Hkp [Hpath Hwork]].
  assert (Hnc : ~ In b (path s (st_tip s))).
  { rewrite <- Hp. intros H. assert (N : b <> parent_of b) by (intros E; symmetry in E; revert E; apply (iparent_neq _ _ _ proof_pos _ HI); assumption).
    pose proof (ipath_work _ _ _ proof_pos _ HI _ _ H N). pose proof (proof_pos b). lia. }
  set (s1 := invalid_block_found s b false).
  assert (HI1 : Inv s1) by (apply (mark_inv parent_of proof_of kind_of proof_pos); assumption).
  assert (Hktop : known s top = true) by (eapply (ipath_nonempty_known _ _ _ proof_pos _ HI); eauto).
  assert (Hft : st_failed s1 top = true).
  { unfold s1. rewrite (mark_failed_spec parent_of proof_of kind_of proof_pos) by assumption.
    rewrite Hktop. apply (iis_desc_iff _ _ _ proof_pos _ HI) in Htop. rewrite Htop. apply orb_true_r. }
  pose proof (sbff_noop parent_of proof_of kind_of proof_pos s1 top HI1 Hft) as Hno.
  assert (Hmb : ~ In b (path s m)). { intros H. pose proof (Hmv _ H). congruence. }
  split; [|split; [|reflexivity]].
  - split.
    + unfold invalid_chain_found, set_block_failure_flags. apply (inv_failed_ext parent_of proof_of kind_of proof_pos); [assumption|]. intros x. apply Hno.
    + exists m. split; [|split].
      * unfold invalid_chain_found. destruct Hm as [H1 [H2 H3]]. repeat split; try assumption.
        rewrite Hno. unfold s1. rewrite (mark_failed_spec parent_of proof_of kind_of proof_pos) by assumption.
        rewrite H3. cbn. destruct (is_desc s m b) eqn:E; [|apply andb_false_r].
        apply (iis_desc_iff _ _ _ proof_pos _ HI) in E. contradiction.
      * exact Hmv.
      * intros x [Hx1 [Hx2 Hx3]] Hw. rewrite Hno in Hx3.
        apply (mark_complete_above parent_of proof_of kind_of proof_pos s b m HI Hk HL); [repeat split; assumption|exact Hw].
  - split.
    + intros x Hx. rewrite Hno. unfold s1. rewrite (mark_failed_spec parent_of proof_of kind_of proof_pos) by assumption.
      rewrite Hx. reflexivity.
    + exists b. split; [apply (iknown_iff _ _ _ proof_pos _ HI); assumption|]. split; [assumption|].
      rewrite Hno. unfold s1. rewrite (mark_failed_spec parent_of proof_of kind_of proof_pos) by assumption.
      rewrite Hk. assert (E : is_desc s b b = true) by (apply (iis_desc_iff _ _ _ proof_pos _ HI); apply (ipath_self _ _ _ proof_pos _ HI); assumption).
      rewrite E. apply orb_true_r.
Qed.

Lemma connect_path_app l x top : forall s,
  connect_path kind_of s (l ++ [x]) top =
  let '(s', inv) := connect_path kind_of s l top in if inv then (s', true) else connect_path kind_of s' [x] top.
Proof.
  induction l as [|a l IH]; intros s; [cbn [app connect_path]; reflexivity|].
  cbn [app]. cbn [connect_path]. destruct (kind_of a); try rewrite IH; reflexivity.
Qed.

(* what the sequence of ConnectTip calls towards w leaves behind *)
Definition CO (s2 : state) (res : state * bool) (w : id) : Prop :=
  let '(s3, inv) := res in
  AInv s3 /\ st_index s3 = st_index s2 /\ (forall c, In c (st_cands s3) -> In c (st_cands s2)) /\
  (inv = false -> st_tip s3 = w /\ st_failed s3 = st_failed s2 /\ st_data s3 = st_data s2 /\
                  st_chaintx s3 = st_chaintx s2 /\ st_seq s3 = st_seq s2) /\
  (inv = true -> decreased s2 s3).

Lemma CO_nil s2 w : AInv s2 -> st_tip s2 = w -> CO s2 (s2, false) w.
Proof.
  intros HA E. unfold CO. split; [assumption|]. split; [reflexivity|]. split; [auto|].
  split; [intros _; split; [assumption|]; split; [reflexivity|]; split; [reflexivity|]; split; reflexivity|discriminate].
Qed.
Lemma CO_true s2 s' w w' : CO s2 (s', true) w' -> CO s2 (s', true) w.
Proof.
  unfold CO. intros [H1 [H2 [H3 [_ H5]]]]. split; [assumption|]. split; [assumption|]. split; [assumption|].
  split; [discriminate|assumption].
Qed.

Section Connect.
Variable s2 : state.
Variable top : id.
Hypothesis HA : AInv s2.
Let HI2 : Inv s2 := proj1 HA.

Lemma connect_spec : forall w, known s2 w = true -> In (st_tip s2) (path s2 w) -> In w (path s2 top) ->
  (forall y, In y (path_above (path s2 w) (st_tip s2)) ->
             st_data s2 y = true /\ st_chaintx s2 y = true /\ st_failed s2 y = false) ->
  CO s2 (connect_path kind_of s2 (rev (path_above (path s2 w) (st_tip s2))) top) w.
Proof.
  intros w Hk. pattern w. revert w Hk. apply (path_ind parent_of proof_of kind_of proof_pos s2 HI2).
  - intros Hf _ _. apply (ipath_genesis_only _ _ _ proof_pos _ HI2) in Hf.
    rewrite (ipath_genesis _ _ _ proof_pos _ HI2). cbn [path_above]. rewrite Hf, Z.eqb_refl. cbn [rev connect_path].
    apply CO_nil; assumption.
  - intros w Hk Ng IH Hf Htop Hclean.
    destruct (ipath_unfold _ _ _ proof_pos _ HI2 _ Hk Ng) as [Hkp [Hpath _]].
    rewrite Hpath. cbn [path_above]. destruct (Z.eqb_spec w (st_tip s2)) as [E|N].
    { cbn [rev connect_path]. apply CO_nil; [assumption|congruence]. }
    cbn [rev]. rewrite connect_path_app.
    assert (Hf' : In (st_tip s2) (path s2 (parent_of w))).
    { rewrite Hpath in Hf. destruct Hf as [E|Hf]; [congruence|assumption]. }
    assert (Htop' : In (parent_of w) (path s2 top)).
    { eapply (ipath_trans _ _ _ proof_pos _ HI2); [|exact Htop]. apply (iparent_in_path _ _ _ proof_pos _ HI2); assumption. }
    assert (Hclean' : forall y, In y (path_above (path s2 (parent_of w)) (st_tip s2)) ->
                                st_data s2 y = true /\ st_chaintx s2 y = true /\ st_failed s2 y = false).
    { intros y Hy. apply Hclean. rewrite Hpath. cbn [path_above]. destruct (Z.eqb_spec w (st_tip s2)); [contradiction|]. right. assumption. }
    specialize (IH Hf' Htop' Hclean').
    destruct (connect_path kind_of s2 (rev (path_above (path s2 (parent_of w)) (st_tip s2))) top) as [s' inv'].
    destruct inv'.
    { eapply CO_true. exact IH. }
    destruct IH as [HA' [Ei [Hcs [Hfalse Htrue]]]].
    destruct (Hfalse eq_refl) as [Et [Ef [Ed [Ec Es]]]].
    assert (Hw : st_data s2 w = true /\ st_chaintx s2 w = true /\ st_failed s2 w = false).
    { apply Hclean. rewrite Hpath. cbn [path_above]. destruct (Z.eqb_spec w (st_tip s2)); [contradiction|]. left. reflexivity. }
    destruct Hw as [Hdw [Hcw Hfw]].
    assert (Hk' : known s' w = true) by (rewrite (known_same _ _ _ Ei); assumption).
    cbn [connect_path]. destruct (kind_of w) eqn:Ekw.
    + assert (HA3 : AInv (prune_candidates (set_tip s' w))).
      { apply connect_one; try assumption; try congruence; auto. }
      unfold CO. split; [assumption|]. split; [exact Ei|]. split.
      { intros c Hc. apply Hcs. unfold prune_candidates in Hc. ssimpl. apply filter_In in Hc. tauto. }
      split; [intros _; repeat split; assumption|discriminate].
    + pose proof (connect_invalid s' w top HA') as Hinv.
      assert (Htop3 : In w (path s' top)) by (rewrite (path_same _ _ _ Ei); assumption).
      destruct (Hinv Hk' Ng (eq_sym Et) ltac:(congruence) Ekw Htop3) as [HA3 [[Hd1 [v [Hv1 [Hv2 Hv3]]]] Ei3]].
      unfold CO. split; [assumption|]. split; [rewrite Ei3; exact Ei|]. split.
      { intros c Hc. apply Hcs. change (In c (cand_erase w (st_cands s'))) in Hc. apply cand_erase_In in Hc. tauto. }
      split; [discriminate|]. intros _. split.
      * intros x Hx. apply Hd1. rewrite Ef. assumption.
      * exists v. unfold ids in *. rewrite Ei in Hv1. rewrite Ef in Hv2. auto.
    + assert (HA3 : AInv (prune_candidates (set_tip s' w))).
      { apply connect_one; try assumption; try congruence; auto. }
      unfold CO. split; [assumption|]. split; [exact Ei|]. split.
      { intros c Hc. apply Hcs. unfold prune_candidates in Hc. ssimpl. apply filter_In in Hc. tauto. }
      split; [intros _; repeat split; assumption|discriminate].
    + exfalso. destruct (i_data_kind _ _ _ _ HI2 _ Hk Hdw); congruence.
Qed.
End Connect.

(* ---------------------------------------------------------------------------------------------- *)
(* the fork and the part of the path above it *)
Lemma fork_spec s (HI : Inv s) : forall w, known s w = true ->
  exists fork, find_fork s (path s w) = Some fork /\ In fork (path s w) /\ In fork (path s (st_tip s)) /\
    forall y, In y (path_above (path s w) fork) -> in_chain s y = false.
Proof.
  intros w Hk. pattern w. revert w Hk. apply (path_ind parent_of proof_of kind_of proof_pos s HI).
  - rewrite (ipath_genesis _ _ _ proof_pos _ HI). cbn [find_fork].
    assert (HG : in_chain s GENESIS = true).
    { apply (iin_chain_iff _ _ _ proof_pos _ HI). apply (igenesis_in_path _ _ _ proof_pos _ HI). apply (i_tip_known _ _ _ _ HI). }
    rewrite HG. exists GENESIS. split; [reflexivity|]. split; [left; reflexivity|]. split.
    + apply (iin_chain_iff _ _ _ proof_pos _ HI). assumption.
    + cbn [path_above]. rewrite Z.eqb_refl. intros y [].
  - intros w Hk Ng [fork [H1 [H2 [H3 H4]]]].
    destruct (ipath_unfold _ _ _ proof_pos _ HI _ Hk Ng) as [Hkp [Hpath _]].
    rewrite Hpath. cbn [find_fork]. destruct (in_chain s w) eqn:E.
    + exists w. split; [reflexivity|]. split; [left; reflexivity|]. split.
      * apply (iin_chain_iff _ _ _ proof_pos _ HI). assumption.
      * cbn [path_above]. rewrite Z.eqb_refl. intros y [].
    + exists fork. split; [assumption|]. split; [right; assumption|]. split; [assumption|].
      cbn [path_above]. destruct (Z.eqb_spec w fork) as [->|N].
      * apply (iin_chain_iff _ _ _ proof_pos _ HI) in H3. congruence.
      * intros y [<-|Hy]; [assumption|apply H4; assumption].
Qed.

(* number of known blocks without a failure flag: decreases with every round that finds an invalid block *)
Definition unfailed (s : state) : nat := length (filter (fun x => negb (st_failed s x)) (ids s)).

Lemma unfailed_decreased s2 s3 : st_index s3 = st_index s2 -> decreased s2 s3 -> (unfailed s3 < unfailed s2)%nat.
Proof.
  intros Ei [Hmono [v [Hv1 [Hv2 Hv3]]]]. unfold unfailed, ids. rewrite Ei. apply filter_length_lt.
  - intros x Hx. destruct (st_failed s2 x) eqn:E; [rewrite (Hmono _ E) in Hx; discriminate|reflexivity].
  - exists v. rewrite Hv2, Hv3. auto.
Qed.

Lemma abc_loop_good fuel : forall s, AInv s -> (unfailed s < fuel)%nat ->
  Good (activate_best_chain_loop parent_of kind_of s fuel) /\
  (forall x, st_failed s x = true -> st_failed (activate_best_chain_loop parent_of kind_of s fuel) x = true) /\
  st_index (activate_best_chain_loop parent_of kind_of s fuel) = st_index s.
Proof.
  induction fuel as [|f IH]; intros s HA Hfuel; [lia|].
  destruct HA as [HI [m [Hm [Hmv HL]]]].
  cbn [activate_best_chain_loop]. unfold find_most_work_chain.
  destruct (fmw_spec parent_of proof_of kind_of proof_pos (S (length (st_cands s))) s HI (Nat.lt_succ_diag_r _))
    as [cs [r [Eq [Hnd [Hsub [Hrem Hres]]]]]].
  rewrite Eq. set (s1 := set_cands s cs).
  assert (HI1 : Inv s1) by (apply (inv_cands_shrink parent_of proof_of kind_of proof_pos); assumption).
  assert (Hmcs : In m cs).
  { destruct (in_dec Z.eq_dec m cs) as [H|H]; [assumption|]. exfalso.
    assert (In m (st_cands s)) by (apply HL; [assumption|apply worse_irrefl]).
    pose proof (Hrem _ H0 H). destruct Hm as [_ [_ E]]. congruence. }
  assert (HL1 : complete_above s1 m).
  { intros x Hx Hw. change (In x cs). destruct (in_dec Z.eq_dec x cs) as [H|H]; [assumption|]. exfalso.
    assert (In x (st_cands s)) by (apply HL; assumption).
    pose proof (Hrem _ H0 H). destruct Hx as [_ [_ E]]. change (st_failed s x = false) in E. congruence. }
  destruct r as [w|]; [|subst cs; destruct Hmcs].
  destruct Hres as [Hw [Hbest Hwalk]].
  assert (Hkw : known s w = true) by (apply (i_cands _ _ _ _ HI); apply Hsub; assumption).
  assert (Hcw : st_chaintx s w = true) by (apply (i_cands _ _ _ _ HI); apply Hsub; assumption).
  change (st_tip s1) with (st_tip s).
  destruct (Z.eqb_spec w (st_tip s)) as [Ew|Nw].
  { (* nothing to do *)
    split; [|split; [auto|reflexivity]].
    split; [assumption|]. split.
    - intros x Hx Hwx. apply HL1; [assumption|]. change (worse s x (st_tip s) = false) in Hwx.
      change (worse s x m = false). rewrite <- Ew in Hwx. eapply nworse_trans; [|exact Hwx]. apply Hbest. assumption.
    - intros c Hc. change (In c cs) in Hc. change (c = st_tip s).
      destruct (i_cands _ _ _ _ HI1 _ Hc) as [_ [_ H3]]. change (worse s c (st_tip s) = false) in H3.
      rewrite <- Ew in *. apply (worse_antisym s); [assumption|apply Hbest; assumption]. }
  change (path s1 w) with (path s w).
  destruct (fork_spec s1 HI1 w Hkw) as [fork [Eff [Hfw [Hft Habove]]]].
  change (path s1 w) with (path s w) in *. change (st_tip s1) with (st_tip s) in *.
  rewrite Eff.
  set (s2 := set_tip s1 fork).
  (* the state after the disconnects *)
  assert (HI2 : Inv s2).
  { destruct HI1. unfold s2. constructor; ssimpl; try assumption.
    - apply (ipath_known _ _ _ proof_pos _ HI) in Hft. assumption.
    - intros x Hx. apply i_chain. ssimpl. eapply (ipath_trans _ _ _ proof_pos _ HI); eassumption.
    - intros c Hc. destruct (i_cands c Hc) as [H1 [H2 H3]]. ssimpl. split; [assumption|]. split; [assumption|].
      change (worse s c fork = false). change (worse s c (st_tip s) = false) in H3.
      destruct (Z.eq_dec fork (st_tip s)) as [->|N]; [assumption|].
      assert (worse s fork (st_tip s) = true) by (apply worse_work_lt; apply (ipath_work _ _ _ proof_pos _ HI); assumption).
      destruct (worse s c fork) eqn:E; [|reflexivity].
      pose proof (worse_trans s _ _ _ E H). congruence. }
  assert (HA2 : AInv s2) by (split; [assumption|exists m; auto]).
  assert (Hclean : forall y, In y (path_above (path s2 w) (st_tip s2)) ->
                             st_data s2 y = true /\ st_chaintx s2 y = true /\ st_failed s2 y = false).
  { intros y Hy. change (In y (path_above (path s w) fork)) in Hy.
    pose proof (Habove _ Hy) as Hnc. change (in_chain s y = false) in Hnc.
    destruct (above_desc parent_of proof_of kind_of proof_pos s HI fork w Hkw Hfw y Hy) as [_ [_ Hyw]].
    destruct (walk_none parent_of proof_of kind_of proof_pos s HI w Hkw Hwalk y Hyw) as [H|[H1 H2]]; [congruence|].
    destruct (inv_chaintx_anc _ _ _ proof_pos s HI _ _ Hyw Hcw) as [H3 _]. auto. }
  pose proof (connect_spec s2 w HA2 w Hkw Hfw (ipath_self _ _ _ proof_pos _ HI _ Hkw) Hclean) as HCO.
  change (path s2 w) with (path s w) in HCO. change (st_tip s2) with fork in HCO.
  destruct (connect_path kind_of s2 (rev (path_above (path s w) fork)) w) as [s3 inv].
  destruct HCO as [HA3 [Ei [Hcs [Hfalse Htrue]]]].
  destruct inv.
  - (* a block on the way was invalid: another round *)
    assert (Hlt : (unfailed s3 < f)%nat).
    { pose proof (unfailed_decreased s2 s3 Ei (Htrue eq_refl)). change (unfailed s2) with (unfailed s) in H. lia. }
    destruct (IH s3 HA3 Hlt) as [G1 [G2 G3]]. split; [assumption|]. split.
    + intros x Hx. apply G2. destruct (Htrue eq_refl) as [Hmono _]. apply Hmono. exact Hx.
    + rewrite G3. exact Ei.
  - (* w is the new tip *)
    destruct (Hfalse eq_refl) as [Et [Ef [Ed [Ec Es]]]].
    destruct HA3 as [HI3 [m3 [Hm3 [_ HL3]]]].
    assert (Ews : forall a c, worse s3 a c = worse s a c) by (intros a c; rewrite (worse_same s2 s3) by assumption; reflexivity).
    assert (Hm3w : worse s w m3 = false).
    { apply Hbest. apply Hcs. apply HL3; [assumption|apply worse_irrefl]. }
    split; [|split; [intros x Hx; rewrite Ef; exact Hx|exact Ei]].
    split; [assumption|]. split.
    + intros x Hx Hwx. apply HL3; [assumption|]. rewrite Et in Hwx. rewrite Ews in *.
      eapply nworse_trans; eassumption.
    + intros c Hc. rewrite Et. destruct (i_cands _ _ _ _ HI3 _ Hc) as [_ [_ H3]]. rewrite Et, Ews in H3.
      apply (worse_antisym s); [assumption|]. apply Hbest. apply Hcs. assumption.
Qed.

Theorem abc_good_full s : AInv s ->
  Good (activate_best_chain parent_of kind_of s) /\
  (forall x, st_failed s x = true -> st_failed (activate_best_chain parent_of kind_of s) x = true) /\
  st_index (activate_best_chain parent_of kind_of s) = st_index s.
Proof.
  intros HA. unfold activate_best_chain. apply abc_loop_good; [assumption|].
  unfold unfailed, ids. pose proof (filter_length_le (fun x => negb (st_failed s x)) (map h_id (st_index s))).
  rewrite map_length in H. lia.
Qed.

Theorem abc_good s : AInv s -> Good (activate_best_chain parent_of kind_of s).
Proof. intros HA. apply (abc_good_full s HA). Qed.

(* in a state where the tip is already the only candidate ActivateBestChain changes nothing at all *)
Theorem abc_id s : Good s -> activate_best_chain parent_of kind_of s = s.
Proof.
  intros [HI [HC HQ]]. unfold activate_best_chain. cbn [activate_best_chain_loop].
  rewrite (fmw_quiescent parent_of proof_of kind_of proof_pos s HI HC HQ). rewrite Z.eqb_refl. reflexivity.
Qed.

End Activate.
