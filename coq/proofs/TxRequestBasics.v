(* Basic facts about the list representation used by model/TxRequest.v: states, counting, keyed update
   and removal, argmax, and the two wrappers Modify / Erase (index effect + per-peer statistics stay exact). *)
From BV Require Import lib.Ints model.TxRequest.
From Coq Require Import Sorting.Sorted.
Local Open Scope Z_scope.

(* ---------- states ---------- *)
Lemma state_eqb_eq a b : state_eqb a b = true <-> a = b.
Proof. destruct a, b; simpl; split; intro H; try reflexivity; try discriminate. Qed.
Lemma state_eqb_refl a : state_eqb a a = true.
Proof. destruct a; reflexivity. Qed.
Lemma state_eqb_neq a b : state_eqb a b = false <-> a <> b.
Proof. destruct a, b; simpl; split; intro H; try reflexivity; try discriminate; try congruence. Qed.
Lemma st_is_eq st a : st_is st a = true <-> a_state a = st.
Proof. unfold st_is. apply state_eqb_eq. Qed.
Lemma st_is_neq st a : st_is st a = false <-> a_state a <> st.
Proof. unfold st_is. apply state_eqb_neq. Qed.
Lemma st_is_state a : st_is (a_state a) a = true.
Proof. apply st_is_eq. reflexivity. Qed.

Lemma b2z_range b : 0 <= b2z b <= 1.
Proof. destruct b; simpl; lia. Qed.

(* ---------- keys ---------- *)
Definition key (a : ann) : Z * Z := (a_peer a, a_txhash a).
Definition uniq (l : list ann) : Prop := NoDup (map key l).

Lemma is_key_true p h a : is_key p h a = true <-> a_peer a = p /\ a_txhash a = h.
Proof. unfold is_key. rewrite andb_true_iff, !Z.eqb_eq. tauto. Qed.
Lemma is_key_key p h a : is_key p h a = true <-> key a = (p, h).
Proof. rewrite is_key_true. unfold key. split; [intros [-> ->]; reflexivity | intros H; inversion H; auto]. Qed.
Lemma is_key_self a : is_key (a_peer a) (a_txhash a) a = true.
Proof. apply is_key_true. auto. Qed.

Definition keeps_key (f : ann -> ann) : Prop := forall a, a_peer (f a) = a_peer a /\ a_txhash (f a) = a_txhash a.
Lemma keeps_key_with_state st : keeps_key (fun a => with_state a st).
Proof. intro a. simpl. auto. Qed.
Lemma keeps_key_with_state_time st tm : keeps_key (fun a => with_state_time a st tm).
Proof. intro a. simpl. auto. Qed.
Lemma keeps_key_key f a : keeps_key f -> key (f a) = key a.
Proof. intros K. unfold key. destruct (K a) as [-> ->]. reflexivity. Qed.

Lemma uniq_cons a l : uniq (a :: l) <-> ~ In (key a) (map key l) /\ uniq l.
Proof. unfold uniq. simpl. split; [intros H; inversion H; auto | intros [H1 H2]; constructor; auto]. Qed.

Lemma uniq_same_key l a b : uniq l -> In a l -> In b l -> key a = key b -> a = b.
Proof.
  induction l as [|x l IH]; intros U Ha Hb K; [contradiction|].
  apply uniq_cons in U. destruct U as [Hn U].
  destruct Ha as [->|Ha], Hb as [->|Hb]; auto.
  - exfalso. apply Hn. rewrite K. apply in_map. exact Hb.
  - exfalso. apply Hn. rewrite <- K. apply in_map. exact Ha.
Qed.

Lemma find_ann_some p h l it : find_ann p h l = Some it -> In it l /\ a_peer it = p /\ a_txhash it = h.
Proof. unfold find_ann. intros H. apply find_some in H. destruct H as [H1 H2]. apply is_key_true in H2. tauto. Qed.

Lemma find_ann_none p h l : find_ann p h l = None <-> forall a, In a l -> is_key p h a = false.
Proof.
  unfold find_ann. split.
  - intros H a Ha. eapply find_none in H; eauto.
  - intros H. induction l as [|x l IH]; [reflexivity|]. simpl. rewrite (H x) by (left; auto).
    apply IH. intros a Ha. apply H. right. auto.
Qed.

Lemma find_ann_in l a : uniq l -> In a l -> find_ann (a_peer a) (a_txhash a) l = Some a.
Proof.
  intros U Ha. destruct (find_ann (a_peer a) (a_txhash a) l) as [b|] eqn:E.
  - apply find_ann_some in E. destruct E as [Hb [Hp Hh]]. f_equal.
    apply (uniq_same_key l); auto. unfold key. congruence.
  - rewrite find_ann_none in E. specialize (E a Ha). rewrite is_key_self in E. discriminate.
Qed.

Lemma find_ann_existsb p h l : existsb (is_key p h) l = match find_ann p h l with Some _ => true | None => false end.
Proof. unfold find_ann. induction l as [|x l IH]; simpl; [reflexivity|]. destruct (is_key p h x); auto. Qed.

(* decomposition of a list around the unique element with a given key *)
Lemma uniq_split p h l it : uniq l -> find_ann p h l = Some it ->
  exists l1 l2, l = l1 ++ it :: l2 /\ (forall a, In a l1 -> is_key p h a = false) /\ (forall a, In a l2 -> is_key p h a = false).
Proof.
  intros U F. destruct (find_ann_some _ _ _ _ F) as [Hin [Hp Hh]].
  destruct (in_split _ _ Hin) as [l1 [l2 ->]]. exists l1, l2. split; [reflexivity|].
  assert (K : forall a, In a (l1 ++ l2) -> is_key p h a = false).
  { intros a Ha. destruct (is_key p h a) eqn:E; [|reflexivity]. exfalso.
    apply is_key_true in E. destruct E as [E1 E2].
    unfold uniq in U. rewrite map_app in U. simpl in U. apply NoDup_remove_2 in U. apply U.
    rewrite <- map_app. replace (key it) with (key a) by (unfold key; congruence). apply in_map. exact Ha. }
  split; intros a Ha; apply K; apply in_or_app; auto.
Qed.

(* ---------- keyed update / removal ---------- *)
Lemma set_ann_id_on p h f l : (forall a, In a l -> is_key p h a = false) -> set_ann p h f l = l.
Proof.
  intros H. unfold set_ann. induction l as [|x l IH]; [reflexivity|]. simpl.
  rewrite (H x) by (left; auto). f_equal. apply IH. intros a Ha. apply H. right. auto.
Qed.
Lemma del_ann_id_on p h l : (forall a, In a l -> is_key p h a = false) -> del_ann p h l = l.
Proof.
  intros H. unfold del_ann. induction l as [|x l IH]; [reflexivity|]. simpl.
  rewrite (H x) by (left; auto). simpl. f_equal. apply IH. intros a Ha. apply H. right. auto.
Qed.

Lemma set_ann_split p h f l1 it l2 :
  (forall a, In a l1 -> is_key p h a = false) -> (forall a, In a l2 -> is_key p h a = false) ->
  is_key p h it = true -> set_ann p h f (l1 ++ it :: l2) = l1 ++ f it :: l2.
Proof.
  intros H1 H2 Hk. unfold set_ann. rewrite map_app. simpl. rewrite Hk.
  fold (set_ann p h f l1). fold (set_ann p h f l2). rewrite !set_ann_id_on by assumption. reflexivity.
Qed.
Lemma del_ann_split p h l1 it l2 :
  (forall a, In a l1 -> is_key p h a = false) -> (forall a, In a l2 -> is_key p h a = false) ->
  is_key p h it = true -> del_ann p h (l1 ++ it :: l2) = l1 ++ l2.
Proof.
  intros H1 H2 Hk. unfold del_ann. rewrite filter_app. simpl. rewrite Hk. simpl.
  fold (del_ann p h l1). fold (del_ann p h l2). rewrite !del_ann_id_on by assumption. reflexivity.
Qed.

Lemma set_ann_keys p h f l : keeps_key f -> map key (set_ann p h f l) = map key l.
Proof.
  intros K. unfold set_ann. rewrite map_map. apply map_ext. intros a.
  destruct (is_key p h a); [apply keeps_key_key; auto | reflexivity].
Qed.
Lemma set_ann_uniq p h f l : keeps_key f -> uniq l -> uniq (set_ann p h f l).
Proof. intros K U. unfold uniq. rewrite set_ann_keys; auto. Qed.
Lemma set_ann_length p h f l : length (set_ann p h f l) = length l.
Proof. unfold set_ann. apply map_length. Qed.

Lemma filter_uniq P l : uniq l -> uniq (filter P l).
Proof.
  induction l as [|x l IH]; intros U; [exact U|]. apply uniq_cons in U. destruct U as [Hn U]. simpl.
  destruct (P x); [|auto]. apply uniq_cons. split; [|auto].
  intros Hin. apply Hn. apply in_map_iff in Hin. destruct Hin as [y [Hy Hin]].
  apply filter_In in Hin. apply in_map_iff. exists y. tauto.
Qed.
Lemma del_ann_uniq p h l : uniq l -> uniq (del_ann p h l).
Proof. apply filter_uniq. Qed.

Lemma in_set_ann p h f l it a : uniq l -> find_ann p h l = Some it ->
  (In a (set_ann p h f l) <-> a = f it \/ (In a l /\ is_key p h a = false)).
Proof.
  intros U F. destruct (uniq_split _ _ _ _ U F) as [l1 [l2 [-> [H1 H2]]]].
  destruct (find_ann_some _ _ _ _ F) as [_ [Hp Hh]].
  rewrite set_ann_split by (auto; apply is_key_true; auto).
  rewrite !in_app_iff. simpl. split.
  - intros [H|[H|H]]; auto.
  - intros [H|[[H|[H|H]] Hk]]; auto. subst a. assert (is_key p h it = true) by (apply is_key_true; auto). congruence.
Qed.

Lemma in_del_ann p h l a : In a (del_ann p h l) <-> In a l /\ is_key p h a = false.
Proof. unfold del_ann. rewrite filter_In. rewrite negb_true_iff. tauto. Qed.

Lemma find_set_ann_same p h f l it : keeps_key f -> find_ann p h l = Some it -> find_ann p h (set_ann p h f l) = Some (f it).
Proof.
  intros K. unfold find_ann, set_ann. induction l as [|x l IH]; simpl; [discriminate|].
  destruct (is_key p h x) eqn:E.
  - intros H. inversion H. subst x. assert (E2 : is_key p h (f it) = true).
    { apply is_key_true. apply is_key_true in E. destruct (K it) as [-> ->]. exact E. }
    rewrite E2. reflexivity.
  - rewrite E. exact IH.
Qed.
Lemma find_set_ann_other p h f l p' h' : keeps_key f -> (p', h') <> (p, h) ->
  find_ann p' h' (set_ann p h f l) = find_ann p' h' l.
Proof.
  intros K N. unfold find_ann, set_ann. induction l as [|x l IH]; simpl; [reflexivity|].
  destruct (is_key p h x) eqn:E.
  - assert (E1 : is_key p' h' x = false).
    { destruct (is_key p' h' x) eqn:E1; [|reflexivity]. apply is_key_true in E. apply is_key_true in E1.
      exfalso. apply N. destruct E, E1. congruence. }
    assert (E2 : is_key p' h' (f x) = false).
    { unfold is_key in *. destruct (K x) as [-> ->]. exact E1. }
    rewrite E1, E2. exact IH.
  - destruct (is_key p' h' x); [reflexivity | exact IH].
Qed.

(* ---------- counting ---------- *)
Lemma cnt_app P l1 l2 : cnt P (l1 ++ l2) = cnt P l1 + cnt P l2.
Proof. induction l1 as [|x l1 IH]; simpl; [lia|]. rewrite IH. lia. Qed.
Lemma cnt_nonneg P l : 0 <= cnt P l.
Proof. induction l as [|x l IH]; simpl; [lia|]. destruct (P x); lia. Qed.
Lemma cnt_le_length P l : cnt P l <= Z.of_nat (length l).
Proof. induction l as [|x l IH]; [simpl; lia|]. cbn [cnt length]. destruct (P x); lia. Qed.
Lemma cnt_ext P Q l : (forall a, In a l -> P a = Q a) -> cnt P l = cnt Q l.
Proof.
  induction l as [|x l IH]; intros H; [reflexivity|]. simpl. rewrite (H x) by (left; auto).
  rewrite IH; [reflexivity|]. intros a Ha. apply H. right. auto.
Qed.
Lemma cnt_pos P l : 0 < cnt P l <-> exists a, In a l /\ P a = true.
Proof.
  induction l as [|x l IH]; simpl.
  - split; [lia | intros [a [[] _]]].
  - pose proof (cnt_nonneg P l). destruct (P x) eqn:E.
    + split; [intros _; exists x; auto | lia].
    + rewrite Z.add_0_l, IH. split.
      * intros [a [Ha Pa]]. exists a. auto.
      * intros [a [[->|Ha] Pa]]; [congruence | exists a; auto].
Qed.
Lemma cnt_zero P l : cnt P l = 0 <-> forall a, In a l -> P a = false.
Proof.
  pose proof (cnt_nonneg P l). pose proof (cnt_pos P l) as C. split.
  - intros Z a Ha. destruct (P a) eqn:E; [|reflexivity]. exfalso. assert (0 < cnt P l) by (apply C; exists a; auto). lia.
  - intros F. destruct (Z.eq_dec (cnt P l) 0); [auto|]. exfalso. assert (0 < cnt P l) by lia.
    apply C in H0. destruct H0 as [a [Ha Pa]]. rewrite F in Pa; auto. discriminate.
Qed.
Lemma cnt_existsb P l : existsb P l = (0 <? cnt P l).
Proof.
  induction l as [|x l IH]; [reflexivity|]. cbn [existsb cnt]. pose proof (cnt_nonneg P l). destruct (P x); cbn [orb].
  - symmetry. apply Z.ltb_lt. lia.
  - rewrite Z.add_0_l. exact IH.
Qed.
Lemma existsb_false_cnt P l : existsb P l = false <-> cnt P l = 0.
Proof. rewrite cnt_existsb. pose proof (cnt_nonneg P l). rewrite Z.ltb_ge. lia. Qed.
Lemma existsb_true_cnt P l : existsb P l = true <-> 0 < cnt P l.
Proof. rewrite cnt_existsb. apply Z.ltb_lt. Qed.
Lemma cnt_filter P Q l : cnt P (filter Q l) = cnt (fun a => Q a && P a) l.
Proof. induction l as [|x l IH]; [reflexivity|]. simpl. destruct (Q x); simpl; rewrite IH; reflexivity. Qed.
Lemma cnt_length_filter P l : Z.of_nat (length (filter P l)) = cnt P l.
Proof. induction l as [|x l IH]; [reflexivity|]. simpl. destruct (P x); [cbn [length]|]; lia. Qed.

Lemma cnt_set_ann P p h f l it : uniq l -> find_ann p h l = Some it ->
  cnt P (set_ann p h f l) = cnt P l - b2z (P it) + b2z (P (f it)).
Proof.
  intros U F. destruct (uniq_split _ _ _ _ U F) as [l1 [l2 [-> [H1 H2]]]].
  destruct (find_ann_some _ _ _ _ F) as [_ [Hp Hh]].
  rewrite set_ann_split by (auto; apply is_key_true; auto).
  rewrite !cnt_app. simpl. unfold b2z. destruct (P it), (P (f it)); lia.
Qed.
Lemma cnt_del_ann P p h l it : uniq l -> find_ann p h l = Some it ->
  cnt P (del_ann p h l) = cnt P l - b2z (P it).
Proof.
  intros U F. destruct (uniq_split _ _ _ _ U F) as [l1 [l2 [-> [H1 H2]]]].
  destruct (find_ann_some _ _ _ _ F) as [_ [Hp Hh]].
  rewrite del_ann_split by (auto; apply is_key_true; auto).
  rewrite !cnt_app. simpl. unfold b2z. destruct (P it); lia.
Qed.
Lemma length_del_ann p h l it : uniq l -> find_ann p h l = Some it ->
  Z.of_nat (length (del_ann p h l)) = Z.of_nat (length l) - 1.
Proof.
  intros U F. destruct (uniq_split _ _ _ _ U F) as [l1 [l2 [-> [H1 H2]]]].
  destruct (find_ann_some _ _ _ _ F) as [_ [Hp Hh]].
  rewrite del_ann_split by (auto; apply is_key_true; auto).
  rewrite !app_length. simpl. lia.
Qed.

(* ---------- argmax ---------- *)
Lemma argmax_none f l : argmax f l = None <-> l = [].
Proof.
  destruct l as [|x l]; simpl; [tauto|]. split; [|discriminate].
  destruct (argmax f l) as [b|]; [destruct (f x <? f b)|]; discriminate.
Qed.
Lemma argmax_some f l m : argmax f l = Some m -> In m l /\ forall x, In x l -> f x <= f m.
Proof.
  revert m. induction l as [|a l IH]; intros m; simpl; [discriminate|].
  destruct (argmax f l) as [b|] eqn:E.
  - destruct (IH b eq_refl) as [Hb Hmax]. destruct (f a <? f b) eqn:C; intros H; inversion H; subst m.
    + split; [auto|]. intros x [->|Hx]; [lia | auto].
    + split; [auto|]. intros x [->|Hx]; [lia|]. specialize (Hmax x Hx). lia.
  - apply argmax_none in E. subst l. intros H. inversion H. subst m. split; [auto|].
    intros x [->|[]]. lia.
Qed.

(* ---------- per-peer statistics ---------- *)
Definition SEQ_LIMIT : Z := 2 ^ 59.

(* what every reachable tracker satisfies besides the scheduling invariants: no failed assert, unique
   (peer, txhash) keys, m_peerinfo equal to its recomputation, and fewer announcements than sequence
   numbers handed out *)
Record WF (t : tracker) : Prop := mkWF {
  wf_bad : t_bad t = false;
  wf_uniq : uniq (t_index t);
  wf_pi : forall p, t_peerinfo t p = recompute_peerinfo (t_index t) p;
  wf_len : Z.of_nat (length (t_index t)) <= t_seq t;
  wf_seq : 0 <= t_seq t <= SEQ_LIMIT }.

Lemma wrapu64_small x : 0 <= x <= SEQ_LIMIT + 1 -> wrapu64 x = x.
Proof. unfold SEQ_LIMIT. intros H. apply wrapu64_id. unfold UINT64_MAX. lia. Qed.

Lemma peer_st_le p st l : cnt (peer_st p st) l <= cnt (has_peer p) l.
Proof.
  induction l as [|x l IH]; cbn [cnt]; [lia|]. unfold peer_st in *.
  destruct (has_peer p x), (st_is st x); cbn [andb]; lia.
Qed.

Lemma has_peer_true p a : has_peer p a = true <-> a_peer a = p.
Proof. unfold has_peer. apply Z.eqb_eq. Qed.
Lemma has_txhash_true h a : has_txhash h a = true <-> a_txhash a = h.
Proof. unfold has_txhash. apply Z.eqb_eq. Qed.

Lemma modify_spec t p h f it :
  WF t -> find_ann p h (t_index t) = Some it -> keeps_key f ->
  t_index (modify t p h f) = set_ann p h f (t_index t) /\ t_seq (modify t p h f) = t_seq t /\ WF (modify t p h f).
Proof.
  intros [Hb Hu Hpi Hl Hs] F K.
  destruct (find_ann_some _ _ _ _ F) as [Hin [Hp Hh]].
  assert (Htot : 0 < cnt (has_peer p) (t_index t)).
  { apply cnt_pos. exists it. split; auto. apply has_peer_true; auto. }
  assert (E0 : (cnt (has_peer p) (t_index t) =? 0) = false) by (apply Z.eqb_neq; lia).
  set (pi0 := mkPI (cnt (has_peer p) (t_index t)) (cnt (peer_st p COMPLETED) (t_index t)) (cnt (peer_st p REQUESTED) (t_index t))).
  assert (M : modify t p h f = mkT (t_seq t) (set_ann p h f (t_index t))
                (pm_set (t_peerinfo t) p (Some (pi_add (pi_sub pi0 (a_state it)) (a_state (f it))))) (t_bad t)).
  { unfold modify. rewrite F, (Hpi p). unfold recompute_peerinfo. rewrite E0. reflexivity. }
  rewrite M. cbn [t_index t_seq]. split; [reflexivity|]. split; [reflexivity|].
  constructor; cbn [t_index t_seq t_bad t_peerinfo]; auto.
  - apply set_ann_uniq; auto.
  - intros q. unfold pm_set, recompute_peerinfo.
    rewrite !(cnt_set_ann _ p h f _ it) by auto.
    destruct (K it) as [Kp Kh].
    assert (HP : forall r, has_peer r (f it) = has_peer r it) by (intros r; unfold has_peer; rewrite Kp; reflexivity).
    unfold peer_st. rewrite !HP.
    destruct (q =? p) eqn:Eq.
    + apply Z.eqb_eq in Eq. subst q.
      assert (Hpp : has_peer p it = true) by (apply has_peer_true; auto). rewrite Hpp. cbn [andb].
      replace (cnt (has_peer p) (t_index t) - b2z true + b2z true) with (cnt (has_peer p) (t_index t)) by (simpl; lia).
      rewrite E0. f_equal.
      pose proof (peer_st_le p COMPLETED (t_index t)) as L1. pose proof (peer_st_le p REQUESTED (t_index t)) as L2.
      pose proof (cnt_le_length (has_peer p) (t_index t)) as L3.
      pose proof (cnt_nonneg (peer_st p COMPLETED) (t_index t)) as N1.
      pose proof (cnt_nonneg (peer_st p REQUESTED) (t_index t)) as N2.
      assert (C1 : b2z (st_is COMPLETED it) <= cnt (peer_st p COMPLETED) (t_index t)).
      { destruct (st_is COMPLETED it) eqn:Ec; simpl; [|lia].
        assert (0 < cnt (peer_st p COMPLETED) (t_index t)); [|lia].
        apply cnt_pos. exists it. split; auto. unfold peer_st. rewrite Hpp, Ec. reflexivity. }
      assert (C2 : b2z (st_is REQUESTED it) <= cnt (peer_st p REQUESTED) (t_index t)).
      { destruct (st_is REQUESTED it) eqn:Ec; simpl; [|lia].
        assert (0 < cnt (peer_st p REQUESTED) (t_index t)); [|lia].
        apply cnt_pos. exists it. split; auto. unfold peer_st. rewrite Hpp, Ec. reflexivity. }
      unfold pi0, pi_add, pi_sub. cbn [pi_total pi_completed pi_requested]. unfold peer_st in *.
      change (state_eqb (a_state it) COMPLETED) with (st_is COMPLETED it).
      change (state_eqb (a_state it) REQUESTED) with (st_is REQUESTED it).
      change (state_eqb (a_state (f it)) COMPLETED) with (st_is COMPLETED (f it)).
      change (state_eqb (a_state (f it)) REQUESTED) with (st_is REQUESTED (f it)).
      pose proof (b2z_range (st_is COMPLETED (f it))). pose proof (b2z_range (st_is REQUESTED (f it))).
      pose proof (b2z_range (st_is COMPLETED it)). pose proof (b2z_range (st_is REQUESTED it)).
      rewrite (wrapu64_small (_ - b2z (st_is COMPLETED it))) by (unfold SEQ_LIMIT in *; lia).
      rewrite (wrapu64_small (_ - b2z (st_is REQUESTED it))) by (unfold SEQ_LIMIT in *; lia).
      rewrite !wrapu64_small by (unfold SEQ_LIMIT in *; lia).
      f_equal; lia.
    + apply Z.eqb_neq in Eq.
      assert (Hqp : has_peer q it = false) by (unfold has_peer; apply Z.eqb_neq; lia).
      rewrite Hqp. cbn [andb b2z]. rewrite !Z.sub_0_r, !Z.add_0_r. apply Hpi.
  - rewrite set_ann_length. exact Hl.
Qed.

Lemma erase_spec t p h it :
  WF t -> find_ann p h (t_index t) = Some it ->
  t_index (erase t p h) = del_ann p h (t_index t) /\ t_seq (erase t p h) = t_seq t /\ WF (erase t p h).
Proof.
  intros [Hb Hu Hpi Hl Hs] F.
  destruct (find_ann_some _ _ _ _ F) as [Hin [Hp Hh]].
  assert (Hpp : has_peer p it = true) by (apply has_peer_true; auto).
  assert (Htot : 0 < cnt (has_peer p) (t_index t)).
  { apply cnt_pos. exists it. split; auto. }
  assert (E0 : (cnt (has_peer p) (t_index t) =? 0) = false) by (apply Z.eqb_neq; lia).
  pose proof (cnt_le_length (has_peer p) (t_index t)) as L3.
  pose proof (peer_st_le p COMPLETED (t_index t)) as L1. pose proof (peer_st_le p REQUESTED (t_index t)) as L2.
  pose proof (cnt_nonneg (peer_st p COMPLETED) (t_index t)) as N1.
  pose proof (cnt_nonneg (peer_st p REQUESTED) (t_index t)) as N2.
  assert (C1 : b2z (st_is COMPLETED it) <= cnt (peer_st p COMPLETED) (t_index t)).
  { destruct (st_is COMPLETED it) eqn:Ec; simpl; [|lia].
    assert (0 < cnt (peer_st p COMPLETED) (t_index t)); [|lia].
    apply cnt_pos. exists it. split; auto. unfold peer_st. rewrite Hpp, Ec. reflexivity. }
  assert (C2 : b2z (st_is REQUESTED it) <= cnt (peer_st p REQUESTED) (t_index t)).
  { destruct (st_is REQUESTED it) eqn:Ec; simpl; [|lia].
    assert (0 < cnt (peer_st p REQUESTED) (t_index t)); [|lia].
    apply cnt_pos. exists it. split; auto. unfold peer_st. rewrite Hpp, Ec. reflexivity. }
  pose proof (b2z_range (st_is COMPLETED it)) as R1. pose proof (b2z_range (st_is REQUESTED it)) as R2.
  set (tot := cnt (has_peer p) (t_index t)) in *.
  set (cc := cnt (peer_st p COMPLETED) (t_index t)) in *.
  set (cr := cnt (peer_st p REQUESTED) (t_index t)) in *.
  assert (M : erase t p h = mkT (t_seq t) (del_ann p h (t_index t))
                (if tot - 1 =? 0 then pm_set (t_peerinfo t) p None
                 else pm_set (t_peerinfo t) p (Some (mkPI (tot - 1) (cc - b2z (st_is COMPLETED it)) (cr - b2z (st_is REQUESTED it)))))
                (t_bad t)).
  { unfold erase. rewrite F, (Hpi p). unfold recompute_peerinfo. fold tot cc cr. rewrite E0.
    unfold pi_sub. cbn [pi_total pi_completed pi_requested].
    change (state_eqb (a_state it) COMPLETED) with (st_is COMPLETED it).
    change (state_eqb (a_state it) REQUESTED) with (st_is REQUESTED it).
    rewrite !wrapu64_small by (unfold SEQ_LIMIT in *; lia). reflexivity. }
  rewrite M. cbn [t_index t_seq]. split; [reflexivity|]. split; [reflexivity|].
  constructor; cbn [t_index t_seq t_bad t_peerinfo]; auto.
  - apply del_ann_uniq; auto.
  - intros q. unfold recompute_peerinfo. rewrite !(cnt_del_ann _ p h _ it) by auto. unfold peer_st.
    destruct (Z.eq_dec q p) as [->|Nq].
    + rewrite Hpp. cbn [andb]. change (b2z true) with 1. fold tot.
      change (cnt (fun a => has_peer p a && st_is COMPLETED a) (t_index t)) with cc.
      change (cnt (fun a => has_peer p a && st_is REQUESTED a) (t_index t)) with cr.
      destruct (tot - 1 =? 0); unfold pm_set; rewrite Z.eqb_refl; reflexivity.
    + assert (Hqp : has_peer q it = false) by (unfold has_peer; apply Z.eqb_neq; lia).
      rewrite Hqp. cbn [andb b2z]. rewrite !Z.sub_0_r.
      assert (Eq : (q =? p) = false) by (apply Z.eqb_neq; auto).
      destruct (tot - 1 =? 0); unfold pm_set; rewrite Eq; apply Hpi.
  - pose proof (length_del_ann p h _ it Hu F). lia.
Qed.
