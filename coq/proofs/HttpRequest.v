(* LoadBody, ReadRequest and the connection loop resume correctly: feeding a byte stream in pieces
   gives the same connection state as feeding it at once; C52. *)
From BV Require Import lib.Ints gen.Params_gen model.Http proofs.HttpLoop proofs.HttpHeaders proofs.HttpBody.
Local Open Scope Z_scope.

(* ---------------------------------------------------------------------------------------------- *)
(* the Content-Length path *)

(* Some cl: the Content-Length checks pass and the body must have cl bytes *)
Definition cl_of (q : request) : option Z :=
  match find_all S_CONTENT_LENGTH (rq_headers q) with
  | [] => None
  | first :: others =>
    if negb (forallb (bytes_eqb first) others) then None
    else match to_integral UINT64_MAX 10 first with
         | None => None
         | Some cl => if HTTP_MAX_BODY_SIZE <? cl then None else Some cl
         end
  end.

Lemma to_integral_le tmax base s v : to_integral tmax base s = Some v -> v <= tmax.
Proof.
  unfold to_integral. destruct s as [|c s]; [discriminate|].
  destruct (digits_value base 0 (c :: s)) as [w|]; [|discriminate].
  destruct (w <=? tmax) eqn:E; [|discriminate]. intros H. injection H as <-. lia.
Qed.

Lemma cl_of_range q cl : cl_of q = Some cl -> 0 <= cl <= UINT64_MAX /\ cl <= HTTP_MAX_BODY_SIZE.
Proof.
  unfold cl_of. destruct (find_all S_CONTENT_LENGTH (rq_headers q)) as [|first others]; [discriminate|].
  destruct (negb (forallb (bytes_eqb first) others)); [discriminate|].
  destruct (to_integral UINT64_MAX 10 first) as [v|] eqn:E; [|discriminate].
  destruct (HTTP_MAX_BODY_SIZE <? v) eqn:Em; [discriminate|]. intros H. injection H as <-.
  pose proof (to_integral_le _ _ _ _ E). assert (H10 : 0 <= 10) by lia.
  pose proof (to_integral_nonneg UINT64_MAX 10 first v H10 E). lia.
Qed.

Lemma lbcl_none q : cl_of q = None ->
  (forall r, load_body_content_length q r = Ret true q r) \/ (exists e, forall r, load_body_content_length q r = Throw e q).
Proof.
  unfold cl_of, load_body_content_length.
  destruct (find_all S_CONTENT_LENGTH (rq_headers q)) as [|first others]; [now left|].
  destruct (negb (forallb (bytes_eqb first) others)); [right; now exists BadRequest|].
  destruct (to_integral UINT64_MAX 10 first) as [v|]; [|right; now exists BadRequest].
  destruct (HTTP_MAX_BODY_SIZE <? v); [right; now exists ContentTooLarge | discriminate].
Qed.

Lemma lbcl_some q cl r : cl_of q = Some cl -> Z.of_nat (length (rq_body q)) <= cl ->
  load_body_content_length q r =
    let has := Z.to_nat (Z.min (cl - Z.of_nat (length (rq_body q))) (Z.of_nat (length r))) in
    let body := rq_body q ++ firstn has r in
    Ret (Z.of_nat (length body) =? cl) (set_body_chunk body (rq_chunk_size q) (rq_chunk_read q) q) (skipn has r).
Proof.
  intros Hcl Hle. pose proof (cl_of_range q cl Hcl) as Hr. unfold cl_of in Hcl. unfold load_body_content_length.
  destruct (find_all S_CONTENT_LENGTH (rq_headers q)) as [|first others]; [discriminate|].
  destruct (negb (forallb (bytes_eqb first) others)); [discriminate|].
  destruct (to_integral UINT64_MAX 10 first) as [v|]; [|discriminate].
  destruct (HTTP_MAX_BODY_SIZE <? v); [discriminate|]. injection Hcl as ->.
  rewrite wrapu64_id by lia. reflexivity.
Qed.

Lemma cl_of_set_body_chunk b cs cr q : cl_of (set_body_chunk b cs cr q) = cl_of q.
Proof. reflexivity. Qed.

Lemma lbcl_resume q cl r y : cl_of q = Some cl -> Z.of_nat (length (rq_body q)) <= cl ->
  match load_body_content_length q r with
  | Throw e _ => False
  | Ret true q' r' => (r <> [] -> Z.of_nat (length (rq_body q)) < cl -> (length r' < length r)%nat) /\
                      (length r' <= length r)%nat /\
                      load_body_content_length q (r ++ y) = Ret true q' (r' ++ y)
  | Ret false q' r' => r' = [] /\ load_body_content_length q (r ++ y) = load_body_content_length q' y /\
                       Z.of_nat (length (rq_body q')) < cl /\ q' = set_body_chunk (rq_body q ++ r) (rq_chunk_size q) (rq_chunk_read q) q
  end.
Proof.
  intros Hcl Hle. rewrite (lbcl_some q cl r Hcl Hle). cbv zeta.
  set (need := cl - Z.of_nat (length (rq_body q))).
  destruct (Z_le_gt_dec need (Z.of_nat (length r))) as [Hfull|Hpart].
  - replace (Z.min need (Z.of_nat (length r))) with need by lia.
    assert (Hk : (Z.to_nat need <= length r)%nat) by lia.
    replace (Z.of_nat (length (rq_body q ++ firstn (Z.to_nat need) r)) =? cl) with true
      by (rewrite app_length, firstn_length; unfold need in *; lia).
    split; [|split].
    + intros Hne Hlt. rewrite skipn_length. unfold need in *. lia.
    + rewrite skipn_length. lia.
    + rewrite (lbcl_some q cl (r ++ y) Hcl Hle). cbv zeta. fold need. rewrite (app_length r y).
      replace (Z.min need (Z.of_nat (length r + length y))) with need by lia.
      rewrite firstn_app_exact, skipn_app_exact by exact Hk.
      replace (Z.of_nat (length (rq_body q ++ firstn (Z.to_nat need) r)) =? cl) with true
        by (rewrite app_length, firstn_length; unfold need in *; lia).
      reflexivity.
  - replace (Z.min need (Z.of_nat (length r))) with (Z.of_nat (length r)) by lia.
    rewrite Nat2Z.id, firstn_all, skipn_all.
    replace (Z.of_nat (length (rq_body q ++ r)) =? cl) with false by (rewrite app_length; unfold need in *; lia).
    set (q' := set_body_chunk (rq_body q ++ r) (rq_chunk_size q) (rq_chunk_read q) q).
    split; [reflexivity|]. split; [|split; [|reflexivity]].
    + assert (Hcl' : cl_of q' = Some cl) by exact Hcl.
      assert (Hle' : Z.of_nat (length (rq_body q')) <= cl) by (unfold q'; cbn; rewrite app_length; unfold need in *; lia).
      rewrite (lbcl_some q cl (r ++ y) Hcl Hle), (lbcl_some q' cl y Hcl' Hle'). cbv zeta. fold need.
      cbn [rq_body rq_chunk_size rq_chunk_read q' set_body_chunk].
      rewrite (app_length r y), (app_length (rq_body q) r).
      set (m2 := Z.min (cl - Z.of_nat (length (rq_body q) + length r)) (Z.of_nat (length y))).
      replace (Z.min need (Z.of_nat (length r + length y))) with (Z.of_nat (length r) + m2) by (unfold m2, need in *; lia).
      assert (Hm2 : 0 <= m2) by (unfold m2, need in *; lia).
      rewrite Z2Nat.inj_add by lia. rewrite Nat2Z.id.
      rewrite firstn_app_2, skipn_app, skipn_all2 by lia.
      replace (length r + Z.to_nat m2 - length r)%nat with (Z.to_nat m2) by lia.
      rewrite <- app_assoc. simpl app. reflexivity.
    + unfold q'. cbn. rewrite app_length. unfold need in *. lia.
Qed.

(* ---------------------------------------------------------------------------------------------- *)
(* LoadBody *)

Lemma is_chunked_hl q q' : h_list (rq_headers q') = h_list (rq_headers q) -> is_chunked q' = is_chunked q.
Proof. intros H. unfold is_chunked, find_first. now rewrite H. Qed.
Lemma cl_of_hl q q' : h_list (rq_headers q') = h_list (rq_headers q) -> cl_of q' = cl_of q.
Proof. intros H. unfold cl_of, find_all. now rewrite H. Qed.

Definition body_inv (q : request) : Prop :=
  chunk_inv q /\ (is_chunked q = false -> forall cl, cl_of q = Some cl -> Z.of_nat (length (rq_body q)) <= cl).
(* a request waiting in NeedsBody really waits for body bytes *)
Definition body_stuck (q : request) : Prop :=
  is_chunked q = true \/ exists cl, cl_of q = Some cl /\ Z.of_nat (length (rq_body q)) < cl.

Lemma load_body_resume q r y : body_inv q ->
  match load_body q r with
  | Throw e qf => load_body q (r ++ y) = Throw e qf
  | Ret true q' r' => load_body q (r ++ y) = Ret true q' (r' ++ y) /\
                      (r <> [] -> body_stuck q -> (length r' < length r)%nat) /\ (length r' <= length r)%nat
  | Ret false q' r' => load_body q (r ++ y) = load_body q' (r' ++ y) /\ body_inv q' /\ body_stuck q' /\
                       rq_state q' = rq_state q /\ (length r' <= length r)%nat
  end.
Proof.
  intros [Hci Hcl]. unfold load_body. destruct (is_chunked q) eqn:Ech.
  - (* chunked *)
    pose proof (chunk_loop_resume (h_list (rq_headers q)) q r y (conj Hci eq_refl)) as H.
    destruct (run_loop chunk_body q r) as [q' r'|sf e|q' r'|] eqn:E; try contradiction.
    + destruct H as ([Hci' Hhl] & Hlen & H).
      assert (Ech' : is_chunked q' = true) by (rewrite (is_chunked_hl q q' Hhl); exact Ech).
      rewrite Ech'. rewrite H. split.
      { pose proof (chunk_loop_resume (h_list (rq_headers q)) q' (r' ++ y) [] (conj Hci' Hhl)) as Hn.
        destruct (run_loop chunk_body q' (r' ++ y)); try reflexivity. contradiction. }
      split; [|split; [now left|]].
      * split; [exact Hci'|]. intros Hf. congruence.
      * split; [|exact Hlen].
        pose proof (chunk_loop_state (Datatypes.S (length r)) q r) as Hst. fold (run_loop chunk_body q r) in Hst.
        now rewrite E in Hst.
    + now rewrite H.
    + destruct H as (_ & Hlen & H). rewrite H. split; [reflexivity|]. split; [intros _ _; exact Hlen | lia].
  - (* Content-Length *)
    destruct (cl_of q) as [cl|] eqn:Ecl.
    + pose proof (lbcl_resume q cl r y Ecl (Hcl eq_refl cl eq_refl)) as H.
      destruct (load_body_content_length q r) as [[|] q' r'|e qf]; try contradiction.
      * destruct H as (Hd & Hlen & H). split; [exact H|]. split; [|exact Hlen].
        intros Hne [Hs|[cl' [Hc' Hlt]]]; [congruence|].
        rewrite Ecl in Hc'. injection Hc' as <-. now apply Hd.
      * destruct H as (-> & H & Hlt & ->). cbn [is_chunked rq_headers set_body_chunk].
        change (is_chunked (set_body_chunk (rq_body q ++ r) (rq_chunk_size q) (rq_chunk_read q) q)) with (is_chunked q).
        rewrite Ech. simpl app. split; [exact H|]. split; [|split; [|split; [reflexivity | simpl; lia]]].
        -- split; [exact Hci|]. intros _ cl' Hc'. change (cl_of q = Some cl') in Hc'. rewrite Ecl in Hc'. injection Hc' as <-.
           cbn in Hlt |- *. lia.
        -- right. exists cl. split; [exact Ecl | exact Hlt].
    + destruct (lbcl_none q Ecl) as [H|[e H]].
      * rewrite (H r), (H (r ++ y)). split; [reflexivity|]. split; [|lia]. intros _ [Hs|[cl' [Hc' _]]]; congruence.
      * now rewrite (H r), (H (r ++ y)).
Qed.

(* ---------------------------------------------------------------------------------------------- *)
(* ReadRequest: the phases *)

Definition fresh (q : request) : Prop := rq_body q = [] /\ rq_chunk_size q = None /\ rq_chunk_read q = 0.

(* what the connection knows about the request it is reading *)
Definition req_inv (q : request) : Prop :=
  match rq_state q with
  | Init | NeedsHeaders => fresh q
  | NeedsBody => body_inv q /\ body_stuck q
  | Complete | Error => False
  end.

Definition phase (q : request) (r : bytes) : outcome request :=
  match rq_state q with
  | Init => from_init q r
  | NeedsHeaders => from_needs_headers q r
  | NeedsBody => from_needs_body q r
  | Complete => Ret true q r
  | Error => Ret false q r
  end.

Lemma fresh_body_inv q : fresh q -> body_inv q.
Proof.
  intros (Hb & Hs & Hr). split.
  - unfold chunk_inv. now rewrite Hs.
  - intros _ cl Hcl. rewrite Hb. simpl. apply cl_of_range in Hcl. lia.
Qed.

Lemma fnb_resume q r y : body_inv q ->
  match from_needs_body q r with
  | Throw e qf => from_needs_body q (r ++ y) = Throw e qf
  | Ret true q' r' => from_needs_body q (r ++ y) = Ret true q' (r' ++ y) /\
                      (r <> [] -> body_stuck q -> (length r' < length r)%nat) /\ (length r' <= length r)%nat
  | Ret false q' r' => from_needs_body q (r ++ y) = from_needs_body q' (r' ++ y) /\ body_inv q' /\ body_stuck q' /\
                       rq_state q' = rq_state q /\ (length r' <= length r)%nat
  end.
Proof.
  intros Hi. unfold from_needs_body. pose proof (load_body_resume q r y Hi) as H.
  destruct (load_body q r) as [[|] q' r'|e qf].
  - destruct H as (H & Hd & Hl). rewrite H. auto.
  - destruct H as (H & H1 & H2 & H3 & H4). rewrite H. auto.
  - now rewrite H.
Qed.

Lemma fnh_resume q r y : fresh q ->
  match from_needs_headers q r with
  | Throw e qf => from_needs_headers q (r ++ y) = Throw e qf
  | Ret true q' r' => from_needs_headers q (r ++ y) = Ret true q' (r' ++ y) /\ (length r' < length r)%nat
  | Ret false q' r' =>
    (length r' <= length r)%nat /\
    ((rq_state q' = rq_state q /\ fresh q' /\ from_needs_headers q (r ++ y) = from_needs_headers q' (r' ++ y)) \/
     (rq_state q' = NeedsBody /\ body_inv q' /\ body_stuck q' /\ from_needs_headers q (r ++ y) = from_needs_body q' (r' ++ y)))
  end.
Proof.
  intros Hf. unfold from_needs_headers, load_headers.
  pose proof (headers_read_resume true (rq_headers q) r y) as Hh.
  destruct (headers_read true (rq_headers q) r) as [[|] h r1|e hf] eqn:Eh.
  - (* headers complete: on to the body *)
    rewrite Hh. pose proof (headers_read_true_decr _ _ _ _ _ Eh) as Hd.
    set (q1 := set_state NeedsBody (set_headers h q)).
    assert (Hf1 : fresh q1) by (destruct Hf as (A & B & C); repeat split; assumption).
    pose proof (fnb_resume q1 r1 y (fresh_body_inv q1 Hf1)) as H.
    destruct (from_needs_body q1 r1) as [[|] q' r'|e qf].
    + destruct H as (H & _ & Hl). split; [exact H | lia].
    + destruct H as (H & H1 & H2 & H3 & H4). split; [lia|]. right.
      split; [rewrite H3; reflexivity|]. split; [exact H1|]. split; [exact H2 | exact H].
    + exact H.
  - (* headers incomplete *)
    rewrite Hh. split; [eapply headers_read_false_len; eauto|]. left.
    split; [reflexivity|]. split; [destruct Hf as (A & B & C); repeat split; assumption|].
    cbn [rq_headers set_headers].
    destruct (headers_read true h (r1 ++ y)) as [[|] h2 r2|e2 h2]; reflexivity.
  - now rewrite Hh.
Qed.

Lemma parse_request_line_fresh l q q' : parse_request_line l q = (true, q') -> fresh q ->
  fresh q' /\ rq_state q' = rq_state q /\ rq_headers q' = rq_headers q.
Proof.
  unfold parse_request_line.
  destruct (Z.of_nat (length l) <? HTTP_MIN_REQUEST_LINE_LENGTH); [discriminate|].
  destruct (mem_byte NUL l); [discriminate|].
  destruct (split SP l) as [|p0 [|p1 [|p2 [|? ?]]]]; try discriminate.
  cbv zeta.
  destruct (rfind S_HTTP_SLASH p2) as [[|?]|]; try discriminate.
  destruct (split DOT (skipn 5 p2)) as [|v0 [|v1 [|? ?]]]; try discriminate.
  destruct (negb (Nat.eqb (length v0) 1) || negb (Nat.eqb (length v1) 1)); [discriminate|].
  destruct (to_integral UINT8_MAX 10 v0) as [major|]; [|discriminate].
  destruct (to_integral UINT8_MAX 10 v1) as [minor|]; [|discriminate].
  destruct (negb (major =? 1) || (9 <? minor)); [discriminate|].
  intros H Hf. injection H as <-. destruct Hf as (A & B & C). repeat split; assumption.
Qed.

Lemma fi_resume q r y : fresh q -> rq_state q = Init ->
  match from_init q r with
  | Throw e qf => from_init q (r ++ y) = Throw e qf
  | Ret true q' r' => from_init q (r ++ y) = Ret true q' (r' ++ y) /\ (length r' < length r)%nat
  | Ret false q' r' =>
    (length r' <= length r)%nat /\
    ((q' = q /\ r' = r) \/
     (rq_state q' = NeedsHeaders /\ fresh q' /\ from_init q (r ++ y) = from_needs_headers q' (r' ++ y)) \/
     (rq_state q' = NeedsBody /\ body_inv q' /\ body_stuck q' /\ from_init q (r ++ y) = from_needs_body q' (r' ++ y)))
  end.
Proof.
  intros Hf Hst. unfold from_init, load_control_data.
  destruct (read_line MAX_LINE r) as [| |l rest n] eqn:El.
  - split; [lia|]. now left.
  - now rewrite (read_line_toolong_ext _ _ y El).
  - rewrite (read_line_line_ext _ _ y _ _ _ El). pose proof (read_line_consumed _ _ _ _ _ El) as Hc.
    destruct (parse_request_line l q) as [[|] q0] eqn:Ep; [|reflexivity].
    destruct (parse_request_line_fresh l q q0 Ep Hf) as (Hf0 & Hs0 & Hh0).
    set (q1 := set_state NeedsHeaders q0).
    assert (Hf1 : fresh q1) by (destruct Hf0 as (A & B & C); repeat split; assumption).
    pose proof (fnh_resume q1 rest y Hf1) as H.
    destruct (from_needs_headers q1 rest) as [[|] q' r'|e qf].
    + destruct H as [H Hl]. split; [exact H | lia].
    + destruct H as [Hl [(H1 & H2 & H3)|(H1 & H2 & H3 & H4)]]; (split; [lia|]).
      * right; left. split; [rewrite H1; reflexivity|]. split; assumption.
      * right; right. split; [exact H1|]. split; [exact H2|]. split; [exact H3 | exact H4].
    + exact H.
Qed.

Lemma phase_resume q r y : req_inv q ->
  match phase q r with
  | Throw e qf => phase q (r ++ y) = Throw e qf
  | Ret true q' r' => phase q (r ++ y) = Ret true q' (r' ++ y) /\ (r <> [] -> (length r' < length r)%nat)
  | Ret false q' r' => phase q (r ++ y) = phase q' (r' ++ y) /\ req_inv q' /\ (length r' <= length r)%nat
  end.
Proof.
  unfold req_inv, phase. destruct (rq_state q) eqn:Est; try contradiction.
  - (* Init *)
    intros Hf. pose proof (fi_resume q r y Hf Est) as H.
    destruct (from_init q r) as [[|] q' r'|e qf]; auto.
    + destruct H as [H Hl]. split; [exact H | intros _; exact Hl].
    + destruct H as [Hl [[-> ->]|[(H1 & H2 & H3)|(H1 & H2 & H3 & H4)]]].
      * rewrite Est. auto.
      * rewrite H1. auto.
      * rewrite H1. auto.
  - (* NeedsHeaders *)
    intros Hf. pose proof (fnh_resume q r y Hf) as H.
    destruct (from_needs_headers q r) as [[|] q' r'|e qf]; auto.
    + destruct H as [H Hl]. split; [exact H | intros _; exact Hl].
    + destruct H as [Hl [(H1 & H2 & H3)|(H1 & H2 & H3 & H4)]].
      * rewrite H1, Est. auto.
      * rewrite H1. auto.
  - (* NeedsBody *)
    intros [Hi Hs]. pose proof (fnb_resume q r y Hi) as H.
    destruct (from_needs_body q r) as [[|] q' r'|e qf]; auto.
    + destruct H as (H & Hd & Hl). split; [exact H | intros Hne; now apply Hd].
    + destruct H as (H & H1 & H2 & H3 & H4). rewrite H3, Est. auto.
Qed.
