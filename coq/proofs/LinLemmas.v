(* Proofs for model/Lin.v: validator soundness (and completeness where stated) and the theorems
   about ChunkLinearization's chunking. *)
From Coq Require Import QArith Lqa Permutation.
From BV Require Import lib.Ints model.Fee model.Lin proofs.FeeLemmas proofs.FeeChunkLemmas.
Local Open Scope Z_scope.

(* ---------------------------------------------------------------------------------- *)
(* membership, readiness *)
Lemma memn_In x l : memn x l = true <-> In x l.
Proof.
  unfold memn. rewrite existsb_exists. split.
  - intros [y [Hy E]]. apply Nat.eqb_eq in E. subst. exact Hy.
  - intros H. exists x. split; [exact H | apply Nat.eqb_refl].
Qed.

Lemma memn_false x l : memn x l = false <-> ~ In x l.
Proof.
  rewrite <- memn_In. destruct (memn x l); split; intros H; try discriminate; try reflexivity.
  exfalso. apply H. reflexivity.
Qed.

Lemma ready_spec deps placed x : ready deps placed x = true <-> (forall p, In (p, x) deps -> In p placed).
Proof.
  unfold ready. rewrite forallb_forall. split.
  - intros H p Hp. specialize (H (p, x) Hp). cbn [fst snd] in H. rewrite Nat.eqb_refl in H. cbn in H. apply memn_In. exact H.
  - intros H [p c] Hd. cbn [fst snd]. destruct (Nat.eqb c x) eqn:E; [|reflexivity].
    apply Nat.eqb_eq in E. subst c. cbn. apply memn_In. apply H. exact Hd.
Qed.

Lemma before_cons x p c l : before p c l -> before p c (x :: l).
Proof. intros [l1 [l2 [l3 E]]]. exists (x :: l1), l2, l3. rewrite E. reflexivity. Qed.

Lemma before_head p c l : In c l -> before p c (p :: l).
Proof. intros H. apply in_split in H. destruct H as [l2 [l3 E]]. exists [], l2, l3. rewrite E. reflexivity. Qed.

Lemma before_In p c l : before p c l -> In p l /\ In c l.
Proof.
  intros [l1 [l2 [l3 E]]]. subst l. split.
  - apply in_or_app. right. left. reflexivity.
  - apply in_or_app. right. right. apply in_or_app. right. left. reflexivity.
Qed.

(* in a duplicate-free list, `before p c (x :: l)` with c <> x ... inversion used for completeness *)
Lemma before_inv x p c l : before p c (x :: l) -> (p = x /\ In c l) \/ before p c l.
Proof.
  intros [l1 [l2 [l3 E]]]. destruct l1 as [|y l1]; cbn in E; inversion E; subst.
  - left. split; [reflexivity|]. apply in_or_app. right. left. reflexivity.
  - right. exists l1, l2, l3. reflexivity.
Qed.

(* ---------------------------------------------------------------------------------- *)
(* the walk *)
Definition walk_spec (deps : list (nat * nat)) (seen lin : list nat) : Prop :=
  NoDup lin /\ (forall x, In x lin -> ~ In x seen) /\
  (forall p c, In (p, c) deps -> In c lin -> In p seen \/ before p c lin).

Lemma topo_walk_iff deps lin : forall seen, topo_walk deps seen lin = true <-> walk_spec deps seen lin.
Proof.
  induction lin as [|x r IH]; intros seen.
  - cbn. split; [|reflexivity]. intros _. split; [constructor|]. split; intros; contradiction.
  - cbn [topo_walk]. rewrite !andb_true_iff, IH, ready_spec. unfold walk_spec. split.
    + intros [[Hx Hr] [Hnd [Hns Hd]]].
      apply negb_true_iff in Hx. apply memn_false in Hx.
      split; [|split].
      * constructor; [|exact Hnd]. intros Hin. apply (Hns x Hin). left. reflexivity.
      * intros y [Hy|Hy]; [subst; exact Hx|]. intros Hs. apply (Hns y Hy). right. exact Hs.
      * intros p c Hdep [Hc|Hc].
        -- subst c. left. apply Hr. exact Hdep.
        -- destruct (Hd p c Hdep Hc) as [[Hp|Hp]|Hb].
           ++ subst p. right. apply before_head. exact Hc.
           ++ left. exact Hp.
           ++ right. apply before_cons. exact Hb.
    + intros [Hnd [Hns Hd]]. inversion Hnd as [|? ? Hxr Hnd']; subst.
      split; [split|].
      * apply negb_true_iff. apply memn_false. apply Hns. left. reflexivity.
      * intros p Hdep. destruct (Hd p x Hdep (or_introl eq_refl)) as [Hp|Hb]; [exact Hp|].
        exfalso. apply before_inv in Hb. destruct Hb as [[_ Hc]|Hb]; [exact (Hxr Hc)|].
        apply before_In in Hb. exact (Hxr (proj2 Hb)).
      * split; [exact Hnd'|]. split.
        -- intros y Hy [Hs|Hs]; [subst; exact (Hxr Hy)|]. apply (Hns y (or_intror Hy) Hs).
        -- intros p c Hdep Hc. destruct (Hd p c Hdep (or_intror Hc)) as [Hp|Hb].
           ++ left. right. exact Hp.
           ++ apply before_inv in Hb. destruct Hb as [[Hp _]|Hb]; [left; left; symmetry; exact Hp | right; exact Hb].
Qed.

Lemma seq_incl_lt n l : (forall i, In i l -> (i < n)%nat) -> incl l (seq 0 n).
Proof. intros H i Hi. apply in_seq. specialize (H i Hi). lia. Qed.

Theorem is_topological_iff n deps lin : is_topological n deps lin = true <-> topo_valid n deps lin.
Proof.
  unfold is_topological, topo_valid. rewrite !andb_true_iff, topo_walk_iff. unfold walk_spec.
  rewrite Nat.eqb_eq, !forallb_forall. split.
  - intros [[[Hlen Hlt] Hdw] [Hnd [_ Hd]]].
    assert (Hlt' : forall i, In i lin -> (i < n)%nat) by (intros i Hi; apply Nat.ltb_lt; apply Hlt; exact Hi).
    assert (Hall : forall i, (i < n)%nat -> In i lin).
    { intros i Hi. apply (NoDup_length_incl Hnd (l' := seq 0 n)).
      - rewrite seq_length. lia.
      - apply seq_incl_lt. exact Hlt'.
      - apply in_seq. lia. }
    split; [exact Hnd|]. split; [intros i; split; [apply Hlt' | apply Hall]|].
    intros p c Hdep. specialize (Hdw (p, c) Hdep). cbn [fst snd] in Hdw. apply andb_true_iff in Hdw.
    destruct Hdw as [_ Hc]. apply Nat.ltb_lt in Hc.
    destruct (Hd p c Hdep (Hall c Hc)) as [F|B]; [contradiction | exact B].
  - intros [Hnd [Hin Hd]].
    assert (Hperm : Permutation lin (seq 0 n)).
    { apply NoDup_Permutation; [exact Hnd | apply seq_NoDup|]. intros i. rewrite Hin, in_seq. lia. }
    split; [split; [split|]|].
    + rewrite (Permutation_length Hperm). apply seq_length.
    + intros i Hi. apply Nat.ltb_lt. apply Hin. exact Hi.
    + intros [p c] Hdep. cbn [fst snd]. destruct (before_In p c lin (Hd p c Hdep)) as [Hp Hc].
      apply andb_true_iff. split; apply Nat.ltb_lt; apply Hin; assumption.
    + split; [exact Hnd|]. split; [intros x _ F; exact F|].
      intros p c Hdep _. right. apply Hd. exact Hdep.
Qed.

(* ---------------------------------------------------------------------------------- *)
(* Chunking: ideal (unbounded) version of the loop, and its properties *)
Definition fadd (a b : FF) : FF := (fst a + fst b, snd a + snd b).
Definition fgt (a b : FF) : bool := fst a * snd b >? fst b * snd a.

Section Ideal.
Context {A : Type} (feeof : A -> FF).

Fixpoint absorb_I (new_chunk : list A * FF) (ret : list (list A * FF)) : list (list A * FF) :=
  match ret with
  | [] => [new_chunk]
  | back :: rest =>
      if fgt (snd new_chunk) (snd back)
      then absorb_I (fst back ++ fst new_chunk, fadd (snd new_chunk) (snd back)) rest
      else new_chunk :: ret
  end.

Definition items_sum (g : list A) : FF := fsum (map feeof g).

Lemma fsum_app g h : fsum (g ++ h) = fadd (fsum g) (fsum h).
Proof.
  induction g as [|c g IH].
  - cbn [app]. unfold fadd. change (fsum []) with (0, 0). cbn [fst snd]. destruct (fsum h) as [a b]. reflexivity.
  - cbn [app]. change (fsum (c :: g ++ h)) with (fst c + fst (fsum (g ++ h)), snd c + snd (fsum (g ++ h))).
    change (fsum (c :: g)) with (fst c + fst (fsum g), snd c + snd (fsum g)).
    rewrite IH. unfold fadd. cbn [fst snd]. f_equal; lia.
Qed.

Lemma items_sum_app g h : items_sum (g ++ h) = fadd (items_sum g) (items_sum h).
Proof. unfold items_sum. rewrite map_app. apply fsum_app. Qed.

Lemma fadd_comm a b : fadd a b = fadd b a.
Proof. unfold fadd. f_equal; lia. Qed.

(* a chunk is well formed: non-empty, and its feerate is the sum of its members' *)
Definition chunk_wf (c : list A * FF) : Prop := fst c <> [] /\ snd c = items_sum (fst c).

(* the members of all chunks, oldest chunk first (ret has back() at its head) *)
Definition members (ret : list (list A * FF)) : list A := concat (map fst (rev ret)).

Lemma members_cons c ret : members (c :: ret) = members ret ++ fst c.
Proof. unfold members. cbn [rev]. rewrite map_app, concat_app. cbn. rewrite app_nil_r. reflexivity. Qed.

Lemma absorb_I_wf ret : forall new_chunk, chunk_wf new_chunk -> Forall chunk_wf ret ->
  Forall chunk_wf (absorb_I new_chunk ret) /\ members (absorb_I new_chunk ret) = members ret ++ fst new_chunk.
Proof.
  induction ret as [|back rest IH]; intros nc Hn Hr; cbn [absorb_I].
  - split; [constructor; [exact Hn | constructor] | apply members_cons].
  - inversion Hr as [|? ? Hb Hrest]; subst. destruct (fgt (snd nc) (snd back)).
    + destruct (IH (fst back ++ fst nc, fadd (snd nc) (snd back))) as [W M]; [|exact Hrest|].
      * destruct Hn as [Hn1 Hn2], Hb as [Hb1 Hb2]. split; cbn [fst snd].
        -- intros E. apply app_eq_nil in E. destruct E as [E _]. exact (Hb1 E).
        -- rewrite items_sum_app, Hn2, Hb2. apply fadd_comm.
      * split; [exact W|]. rewrite M. cbn [fst]. rewrite members_cons, app_assoc. reflexivity.
    + split; [constructor; assumption|]. rewrite !members_cons. reflexivity.
Qed.

(* non-increasing feerates along the stack: no chunk is strictly better than the one before it *)
Fixpoint stack_sorted (ret : list (list A * FF)) : Prop :=
  match ret with
  | a :: ((b :: _) as r) => fgt (snd a) (snd b) = false /\ stack_sorted r
  | _ => True
  end.

Lemma absorb_I_sorted ret : forall new_chunk, stack_sorted ret -> stack_sorted (absorb_I new_chunk ret).
Proof.
  induction ret as [|back rest IH]; intros nc Hs; cbn [absorb_I]; [exact I|].
  destruct (fgt (snd nc) (snd back)) eqn:E.
  - apply IH. destruct rest; [exact I | exact (proj2 Hs)].
  - cbn [stack_sorted]. split; [exact E | exact Hs].
Qed.

(* every prefix of a chunk has a feerate not above the chunk's own *)
Definition prefix_ok (g : list A) : Prop :=
  forall k, let p := items_sum (firstn k g) in fst p * snd (items_sum g) <= fst (items_sum g) * snd p.
Definition sizes_pos (g : list A) : Prop := Forall (fun x => 0 < snd (feeof x)) g.

Lemma items_sum_size_nonneg g : sizes_pos g -> 0 <= snd (items_sum g).
Proof.
  unfold items_sum. induction 1 as [|x g Hx Hg IH]; cbn [map fsum fold_right snd]; [lia|].
  fold (fsum (map feeof g)). lia.
Qed.
Lemma items_sum_size_pos g : sizes_pos g -> g <> [] -> 0 < snd (items_sum g).
Proof.
  intros H Hne. destruct g as [|x g]; [contradiction|]. inversion H as [|? ? Hx Hg]; subst.
  pose proof (items_sum_size_nonneg g Hg). unfold items_sum in *. cbn [map fsum fold_right snd].
  fold (fsum (map feeof g)). lia.
Qed.
Lemma firstn_size_le k g : sizes_pos g -> snd (items_sum (firstn k g)) <= snd (items_sum g).
Proof.
  intros H. rewrite <- (firstn_skipn k g) at 2. rewrite items_sum_app. unfold fadd. cbn [snd].
  assert (sizes_pos (skipn k g)).
  { unfold sizes_pos in *. rewrite Forall_forall in *. intros x Hx. apply H.
    rewrite <- (firstn_skipn k g). apply in_or_app. right. exact Hx. }
  pose proof (items_sum_size_nonneg _ H0). lia.
Qed.
Lemma sizes_pos_firstn k g : sizes_pos g -> sizes_pos (firstn k g).
Proof.
  unfold sizes_pos. rewrite !Forall_forall. intros H x Hx. apply H.
  rewrite <- (firstn_skipn k g). apply in_or_app. left. exact Hx.
Qed.

(* merging a chunk T with a strictly better following chunk N keeps the prefix property *)
Lemma prefix_ok_merge gt gn : sizes_pos gt -> sizes_pos gn -> gt <> [] -> gn <> [] ->
  prefix_ok gt -> prefix_ok gn ->
  fgt (items_sum gn) (items_sum gt) = true -> prefix_ok (gt ++ gn).
Proof.
  intros Pt Pn Nt Nn Ht Hn Hgt k. cbv zeta.
  unfold fgt in Hgt. apply Z.gtb_lt in Hgt.
  pose proof (items_sum_size_pos gt Pt Nt) as St. pose proof (items_sum_size_pos gn Pn Nn) as Sn.
  rewrite items_sum_app. rewrite firstn_app. rewrite items_sum_app.
  set (T := items_sum gt) in *. set (N := items_sum gn) in *.
  destruct (le_lt_dec k (length gt)) as [Hk|Hk].
  - (* the prefix lies within gt *)
    replace (k - length gt)%nat with 0%nat by lia. cbn [firstn]. unfold items_sum at 2. cbn [map fsum fold_right].
    specialize (Ht k). cbv zeta in Ht. fold T in Ht.
    set (p := items_sum (firstn k gt)) in *.
    assert (Hp : 0 <= snd p) by (apply items_sum_size_nonneg; apply sizes_pos_firstn; exact Pt).
    unfold fadd. cbn [fst snd]. rewrite !Z.add_0_r.
    (* p.f*T.s <= T.f*p.s and T.f*N.s < N.f*T.s  ==>  p.f*(T.s+N.s) <= (T.f+N.f)*p.s *)
    assert (H1 : fst p * snd T * snd N <= fst T * snd p * snd N) by (apply Z.mul_le_mono_nonneg_r; lia).
    assert (H2 : fst T * snd N * snd p <= fst N * snd T * snd p) by (apply Z.mul_le_mono_nonneg_r; lia).
    assert (H3 : (fst p * snd N) * snd T <= (fst N * snd p) * snd T) by lia.
    assert (H4 : fst p * snd N <= fst N * snd p) by (apply Z.mul_le_mono_pos_r in H3; lia).
    lia.
  - (* all of gt plus a prefix q of gn *)
    rewrite (firstn_all2 (n := k) gt) by lia.
    specialize (Hn (k - length gt)%nat). cbv zeta in Hn. fold N in Hn.
    set (q := items_sum (firstn (k - length gt) gn)) in *.
    assert (Hq : 0 <= snd q) by (apply items_sum_size_nonneg; apply sizes_pos_firstn; exact Pn).
    assert (Hqle : snd q <= snd N) by (apply firstn_size_le; exact Pn).
    fold T. unfold fadd. cbn [fst snd].
    (* q.f*N.s <= N.f*q.s, b := N.f*T.s - T.f*N.s > 0, q.s <= N.s  ==>  (T.f+q.f)*(T.s+N.s) <= (T.f+N.f)*(T.s+q.s) *)
    assert (H1 : fst q * snd N * snd T <= fst N * snd q * snd T) by (apply Z.mul_le_mono_nonneg_r; lia).
    assert (H2 : snd q * (fst N * snd T - fst T * snd N) <= snd N * (fst N * snd T - fst T * snd N))
      by (apply Z.mul_le_mono_nonneg_r; lia).
    assert (H3 : snd N * (fst q * snd T - fst T * snd q) <= snd N * (fst N * snd T - fst T * snd N)) by lia.
    assert (H4 : fst q * snd T - fst T * snd q <= fst N * snd T - fst T * snd N) by (apply Z.mul_le_mono_pos_l in H3; lia).
    lia.
Qed.

Lemma prefix_ok_single x : 0 < snd (feeof x) -> prefix_ok [x].
Proof.
  intros Hx k. cbv zeta. destruct k as [|k]; cbn [firstn].
  - unfold items_sum. cbn. lia.
  - rewrite firstn_nil. lia.
Qed.

Definition chunk_good (c : list A * FF) : Prop := chunk_wf c /\ sizes_pos (fst c) /\ prefix_ok (fst c).

Lemma absorb_I_good ret : forall new_chunk, chunk_good new_chunk -> Forall chunk_good ret ->
  Forall chunk_good (absorb_I new_chunk ret).
Proof.
  induction ret as [|back rest IH]; intros nc Hn Hr; cbn [absorb_I].
  - constructor; [exact Hn | constructor].
  - inversion Hr as [|? ? Hb Hrest]; subst. destruct (fgt (snd nc) (snd back)) eqn:E.
    + apply IH; [|exact Hrest].
      destruct Hn as [[Hn1 Hn2] [Hn3 Hn4]], Hb as [[Hb1 Hb2] [Hb3 Hb4]].
      split; [split|split]; cbn [fst snd].
      * intros F. apply app_eq_nil in F. destruct F as [F _]. exact (Hb1 F).
      * rewrite items_sum_app, Hn2, Hb2. apply fadd_comm.
      * unfold sizes_pos in *. apply Forall_app. split; assumption.
      * apply prefix_ok_merge; try assumption. rewrite <- Hn2, <- Hb2. exact E.
    + constructor; assumption.
Qed.

Definition chunking_info_I (l : list A) : list (list A * FF) :=
  rev (fold_left (fun ret x => absorb_I ([x], feeof x) ret) l []).

Lemma single_good x : 0 < snd (feeof x) -> chunk_good ([x], feeof x).
Proof.
  intros Hx. split; [split|split]; cbn [fst snd].
  - discriminate.
  - unfold items_sum. cbn. destruct (feeof x). cbn. f_equal; lia.
  - constructor; [exact Hx | constructor].
  - apply prefix_ok_single. exact Hx.
Qed.

Lemma fold_absorb_I l : forall ret, sizes_pos l -> Forall chunk_good ret -> stack_sorted ret ->
  let r := fold_left (fun ret x => absorb_I ([x], feeof x) ret) l ret in
  Forall chunk_good r /\ stack_sorted r /\ members r = members ret ++ l.
Proof.
  induction l as [|x l IH]; intros ret Hp Hg Hs; cbn [fold_left].
  - cbv zeta. rewrite app_nil_r. auto.
  - inversion Hp as [|? ? Hx Hl]; subst.
    pose proof (single_good x Hx) as Gx.
    destruct (absorb_I_wf ret ([x], feeof x) (proj1 Gx)) as [_ M].
    { rewrite Forall_forall in *. intros c Hc. exact (proj1 (Hg c Hc)). }
    destruct (IH (absorb_I ([x], feeof x) ret) Hl (absorb_I_good ret _ Gx Hg) (absorb_I_sorted ret _ Hs)) as [G [S Mm]].
    cbv zeta. split; [exact G|]. split; [exact S|]. rewrite Mm, M. cbn [fst]. rewrite <- app_assoc. reflexivity.
Qed.
End Ideal.

(* ---------------------------------------------------------------------------------- *)
(* the real loop (with FeeFrac's fixed-width arithmetic) equals the ideal one when the sums are in range *)
Lemma abs_fee_sum_app g h : abs_fee_sum (g ++ h) = abs_fee_sum g + abs_fee_sum h.
Proof. induction g as [|c g IH]; cbn [app abs_fee_sum fold_right]; [reflexivity|]. fold (abs_fee_sum (g ++ h)). fold (abs_fee_sum g). lia. Qed.
Lemma size_sum_app g h : size_sum (g ++ h) = size_sum g + size_sum h.
Proof. induction g as [|c g IH]; cbn [app size_sum fold_right]; [reflexivity|]. fold (size_sum (g ++ h)). fold (size_sum g). lia. Qed.
Lemma abs_fee_sum_nonneg g : 0 <= abs_fee_sum g.
Proof. induction g as [|c g IH]; cbn [abs_fee_sum fold_right]; [lia|]. fold (abs_fee_sum g). lia. Qed.
Lemma fsum_fee_bound g : Z.abs (fst (fsum g)) <= abs_fee_sum g.
Proof.
  induction g as [|c g IH]; cbn [fsum abs_fee_sum fold_right fst]; [lia|].
  fold (fsum g). fold (abs_fee_sum g). lia.
Qed.
Lemma fsum_size g : snd (fsum g) = size_sum g.
Proof. induction g as [|c g IH]; cbn [fsum size_sum fold_right snd]; [reflexivity|]. fold (fsum g). fold (size_sum g). lia. Qed.
Lemma size_sum_nonneg g : Forall (fun c => 0 < snd c) g -> 0 <= size_sum g.
Proof. induction 1 as [|c g Hc Hg IH]; cbn [size_sum fold_right]; [lia|]. fold (size_sum g). lia. Qed.

Definition in_range (g : list FF) : Prop :=
  Forall (fun c => 0 < snd c) g /\ abs_fee_sum g < 4611686018427387904 /\ size_sum g <= INT32_MAX.

Lemma feerates_in_range_iff g : feerates_in_range g = true <-> in_range g.
Proof.
  unfold feerates_in_range, in_range. rewrite !andb_true_iff, forallb_forall, Forall_forall, Z.ltb_lt, Z.leb_le.
  split; intros [[H1 H2] H3] || intros [H1 [H2 H3]]; repeat split; try assumption; intros c Hc; specialize (H1 c Hc); lia.
Qed.

Lemma in_range_sub g1 g g2 : in_range (g1 ++ g ++ g2) -> in_range g.
Proof.
  intros [H1 [H2 H3]]. rewrite !abs_fee_sum_app in H2. rewrite !size_sum_app in H3.
  apply Forall_app in H1. destruct H1 as [P1 H1]. apply Forall_app in H1. destruct H1 as [P P2].
  pose proof (abs_fee_sum_nonneg g1). pose proof (abs_fee_sum_nonneg g2).
  pose proof (size_sum_nonneg g1 P1). pose proof (size_sum_nonneg g2 P2).
  split; [exact P|]. lia.
Qed.

Lemma in_range_fsum_ok g : in_range g -> ff_ok (fsum g) /\ pt_ok (fst (fsum g)) (snd (fsum g)).
Proof.
  intros [H1 [H2 H3]]. pose proof (fsum_fee_bound g). pose proof (size_sum_nonneg g H1). rewrite <- fsum_size in *.
  unfold ff_ok, is_i64, is_i32, pt_ok, INT64_MIN, INT64_MAX, INT32_MIN, INT32_MAX in *. lia.
Qed.

Section RealIdeal.
Context {A : Type} (feeof : A -> FF).

Lemma absorb_info_ideal ret : forall nc : list A * FF,
  chunk_wf feeof nc -> Forall (chunk_wf feeof) ret ->
  in_range (map feeof (members ret ++ fst nc)) ->
  absorb_info nc ret = absorb_I nc ret.
Proof.
  induction ret as [|back rest IH]; intros nc Hn Hr Hrange; cbn [absorb_info absorb_I]; [reflexivity|].
  inversion Hr as [|? ? Hb Hrest]; subst.
  destruct Hn as [Hn1 Hn2], Hb as [Hb1 Hb2].
  rewrite members_cons, <- app_assoc in Hrange.
  (* both operands and their sum are sums of sub-runs of the members *)
  assert (Rb : in_range (map feeof (fst back))).
  { rewrite !map_app in Hrange. apply (in_range_sub (map feeof (members rest)) _ (map feeof (fst nc))). exact Hrange. }
  assert (Rn : in_range (map feeof (fst nc))).
  { rewrite !map_app in Hrange. rewrite app_assoc in Hrange.
    apply (in_range_sub (map feeof (members rest) ++ map feeof (fst back)) (map feeof (fst nc)) []). rewrite app_nil_r. exact Hrange. }
  assert (Rbn : in_range (map feeof (fst back ++ fst nc))).
  { rewrite !map_app in Hrange. rewrite map_app.
    apply (in_range_sub (map feeof (members rest)) (map feeof (fst back) ++ map feeof (fst nc)) []). rewrite app_nil_r. exact Hrange. }
  destruct (in_range_fsum_ok _ Rb) as [Ob _]. destruct (in_range_fsum_ok _ Rn) as [On _].
  destruct (in_range_fsum_ok _ Rbn) as [_ Pbn].
  unfold items_sum in Hn2, Hb2. rewrite <- Hb2 in Ob. rewrite <- Hn2 in On.
  destruct (byratio_ops_spec (snd nc) (snd back) On Ob) as [_ [_ [Eg _]]].
  rewrite Eg. change (fst (snd nc) * snd (snd back) >? fst (snd back) * snd (snd nc)) with (fgt (snd nc) (snd back)).
  destruct (fgt (snd nc) (snd back)); [|reflexivity].
  assert (Eadd : ff_add (snd nc) (snd back) = fadd (snd nc) (snd back)).
  { rewrite map_app, fsum_app, <- Hb2, <- Hn2 in Pbn. unfold fadd in Pbn. cbn [fst snd] in Pbn.
    destruct (snd nc) as [fn sn], (snd back) as [fb sb]. cbn [fst snd] in *.
    rewrite (Z.add_comm fb fn), (Z.add_comm sb sn) in Pbn.
    rewrite (ff_add_r fb sb fn sn Pbn). reflexivity. }
  rewrite Eadd. apply IH; [|exact Hrest|cbn [fst]; exact Hrange].
  split; cbn [fst snd].
  - intros F. apply app_eq_nil in F. destruct F as [F _]. exact (Hb1 F).
  - rewrite items_sum_app. unfold items_sum. rewrite <- Hn2, <- Hb2. apply fadd_comm.
Qed.

Lemma fold_absorb_info_ideal l : forall ret,
  Forall (chunk_wf feeof) ret -> in_range (map feeof (members ret ++ l)) ->
  fold_left (fun ret x => absorb_info ([x], feeof x) ret) l ret =
  fold_left (fun ret x => absorb_I ([x], feeof x) ret) l ret.
Proof.
  induction l as [|x l IH]; intros ret Hr Hrange; cbn [fold_left]; [reflexivity|].
  assert (Wx : chunk_wf feeof ([x], feeof x)).
  { split; cbn [fst snd]; [discriminate|]. unfold items_sum. cbn. destruct (feeof x). cbn. f_equal; lia. }
  assert (Rx : in_range (map feeof (members ret ++ fst ([x], feeof x)))).
  { cbn [fst]. replace (members ret ++ x :: l) with ((members ret ++ [x]) ++ l) in Hrange by (rewrite <- app_assoc; reflexivity).
    rewrite map_app in Hrange. apply (in_range_sub [] _ (map feeof l)). exact Hrange. }
  rewrite (absorb_info_ideal ret _ Wx Hr Rx).
  destruct (absorb_I_wf feeof ret _ Wx Hr) as [W M].
  apply IH; [exact W|]. rewrite M. cbn [fst]. rewrite <- app_assoc. exact Hrange.
Qed.

Lemma chunking_info_ideal l : in_range (map feeof l) -> chunking_info feeof l = chunking_info_I feeof l.
Proof.
  intros H. unfold chunking_info, chunking_info_I. f_equal. apply fold_absorb_info_ideal; [constructor | exact H].
Qed.

(* the member lists play no role in the feerates: ChunkLinearization = feerates of ChunkLinearizationInfo *)
Lemma absorb_info_snd ret : forall nc : list A * FF, map snd (absorb_info nc ret) = absorb (snd nc) (map snd ret).
Proof.
  induction ret as [|back rest IH]; intros nc; cbn [absorb_info absorb map]; [reflexivity|].
  destruct (byratio_gt (snd nc) (snd back)); [rewrite IH; reflexivity | reflexivity].
Qed.

Lemma chunking_info_snd l : map snd (chunking_info feeof l) = chunking (map feeof l).
Proof.
  unfold chunking_info, chunking. rewrite map_rev. f_equal.
  assert (G : forall ret, map snd (fold_left (fun ret x => absorb_info ([x], feeof x) ret) l ret) =
                          fold_left (fun ret x => absorb x ret) (map feeof l) (map snd ret)).
  { induction l as [|x l IH]; intros ret; cbn [fold_left map]; [reflexivity|]. rewrite IH, absorb_info_snd. reflexivity. }
  apply (G []).
Qed.
End RealIdeal.

(* ---------------------------------------------------------------------------------- *)
(* Theorems about ChunkLinearization's result *)

(* feerates never increase from one chunk to the next (exact rational comparison) *)
Definition nonincr (l : list FF) : Prop :=
  forall l1 a b l2, l = l1 ++ a :: b :: l2 -> fst b * snd a <= fst a * snd b.

(* every prefix of the group has a feerate not above the whole group's *)
Definition group_prefix_ok (g : list FF) : Prop :=
  forall k, let p := fsum (firstn k g) in fst p * snd (fsum g) <= fst (fsum g) * snd p.

Lemma stack_sorted_adjacent {A} (r : list (list A * FF)) : stack_sorted r ->
  forall l1 a b l2, r = l1 ++ a :: b :: l2 -> fgt (snd a) (snd b) = false.
Proof.
  induction r as [|c r IH]; intros Hs l1 a b l2 E.
  - destruct l1; discriminate.
  - destruct l1 as [|c' l1]; cbn [app] in E; inversion E; subst.
    + exact (proj1 Hs).
    + apply (IH (match l1 ++ a :: b :: l2 as r0 return (stack_sorted (c' :: r0) -> stack_sorted r0) with
                 | [] => fun _ => I | _ :: _ => fun H => proj2 H end Hs) l1 a b l2 eq_refl).
Qed.

Lemma items_sum_id g : items_sum (fun x : FF => x) g = fsum g.
Proof. unfold items_sum. rewrite map_id. reflexivity. Qed.

Theorem chunking_structure l : in_range l ->
  exists gs : list (list FF),
    concat gs = l /\ chunking l = map fsum gs /\
    Forall (fun g => g <> [] /\ group_prefix_ok g) gs /\
    nonincr (chunking l).
Proof.
  intros R. pose proof R as [Rpos _].
  set (feeof := fun x : FF => x).
  assert (E1 : chunking l = map snd (chunking_info_I feeof l)).
  { rewrite <- (map_id l) at 1. fold feeof. change (fun x : FF => x) with feeof. rewrite <- chunking_info_snd. f_equal.
    apply chunking_info_ideal. unfold feeof. rewrite map_id. exact R. }
  unfold chunking_info_I in E1.
  destruct (fold_absorb_I feeof l [] Rpos (Forall_nil _) I) as [G [S M]]. cbv zeta in G, S, M.
  set (r := fold_left (fun ret x => absorb_I ([x], feeof x) ret) l []) in *.
  exists (map fst (rev r)).
  assert (Ewf : map snd (rev r) = map fsum (map fst (rev r))).
  { rewrite map_map. apply map_ext_in. intros c Hc. apply in_rev in Hc. rewrite Forall_forall in G.
    destruct (G c Hc) as [[_ W] _]. rewrite W. apply items_sum_id. }
  split; [exact M|]. split; [rewrite E1; exact Ewf|]. split.
  - rewrite Forall_forall. intros g Hg. apply in_map_iff in Hg. destruct Hg as [c [Ec Hc]]. subst g.
    apply in_rev in Hc. rewrite Forall_forall in G. destruct (G c Hc) as [[W1 W2] [_ P]].
    split; [exact W1|]. intros k. specialize (P k). cbv zeta in P. rewrite !items_sum_id in P. exact P.
  - rewrite E1. intros l1 a b l2 E.
    apply map_eq_app in E. destruct E as [r1 [r2 [Er [E1' E2]]]].
    destruct r2 as [|ca r2]; [discriminate|]. destruct r2 as [|cb r2]; [discriminate|].
    cbn [map] in E2. inversion E2; subst a b.
    assert (Er' : r = rev r2 ++ cb :: ca :: rev r1).
    { rewrite <- (rev_involutive r), Er. rewrite rev_app_distr. cbn [rev]. rewrite <- !app_assoc. reflexivity. }
    pose proof (stack_sorted_adjacent r S (rev r2) cb ca (rev r1) Er') as F.
    unfold fgt in F. lia.
Qed.

(* ---------------------------------------------------------------------------------- *)
(* the chunking of an in-range list satisfies CompareChunks' precondition *)
Lemma within_map_fsum gs : forall pre, in_range (pre ++ concat gs) -> Forall (fun g => g <> []) gs ->
  within (map fsum gs) (fst (fsum pre)) (snd (fsum pre)).
Proof.
  induction gs as [|g gs IH]; intros pre R Hne; cbn [map]; [exact I|].
  inversion Hne as [|? ? Hg Hgs]; subst. cbn [concat] in R.
  assert (Rg : in_range g) by (apply (in_range_sub pre g (concat gs)); exact R).
  assert (Rpg : in_range (pre ++ g)).
  { apply (in_range_sub [] (pre ++ g) (concat gs)). cbn [app]. rewrite <- app_assoc. exact R. }
  destruct (in_range_fsum_ok _ Rpg) as [_ P]. rewrite fsum_app in P. unfold fadd in P. cbn [fst snd] in P.
  assert (Hs : 0 < snd (fsum g)).
  { rewrite fsum_size. destruct Rg as [Pg _]. destruct g as [|c g]; [contradiction|].
    inversion Pg as [|? ? Hc Hg']; subst. cbn [size_sum fold_right]. fold (size_sum g). pose proof (size_sum_nonneg g Hg'). lia. }
  specialize (IH (pre ++ g)). rewrite fsum_app in IH. unfold fadd in IH. cbn [fst snd] in IH.
  assert (W : within (map fsum gs) (fst (fsum pre) + fst (fsum g)) (snd (fsum pre) + snd (fsum g))).
  { apply IH; [rewrite <- app_assoc; exact R | exact Hgs]. }
  destruct (fsum g) as [f s]. cbn [within fst snd] in *. split; [exact Hs|]. split; [exact P | exact W].
Qed.

Lemma chunking_in_range l : in_range l -> chunks_in_range (chunking l).
Proof.
  intros R. destruct (chunking_structure l R) as [gs [Ec [Em [Hg _]]]].
  rewrite Em. unfold chunks_in_range. apply (within_map_fsum gs []).
  - cbn [app]. rewrite Ec. exact R.
  - rewrite Forall_forall in *. intros g Hin. exact (proj1 (Hg g Hin)).
Qed.

Lemma diagram_not_worse_sound c_new c_old : chunks_in_range c_new -> chunks_in_range c_old ->
  diagram_not_worse c_new c_old = true -> diagram_ge c_new c_old.
Proof.
  intros Rn Ro H. unfold diagram_not_worse in H.
  destruct (compare_chunks_spec c_new c_old Rn Ro) as [r [Er Dr]]. rewrite Er in H.
  destruct r; try discriminate; cbn [diagram_order] in Dr.
  - intros x Hx. rewrite (Dr x Hx). apply Qle_refl.
  - exact (proj1 Dr).
Qed.

Theorem lin_not_worse_sound fr old new : lin_not_worse fr old new = true ->
  exists lo ln, lin_feerates fr old = Some lo /\ lin_feerates fr new = Some ln /\
                in_range lo /\ in_range ln /\ diagram_ge (chunking ln) (chunking lo).
Proof.
  unfold lin_not_worse. destruct (lin_feerates fr old) as [lo|]; [|discriminate].
  destruct (lin_feerates fr new) as [ln|]; [|discriminate].
  rewrite !andb_true_iff, !feerates_in_range_iff. intros [[Ro Rn] H].
  exists lo, ln. split; [reflexivity|]. split; [reflexivity|]. split; [exact Ro|]. split; [exact Rn|].
  apply diagram_not_worse_sound; [apply chunking_in_range; exact Rn | apply chunking_in_range; exact Ro | exact H].
Qed.

Theorem valid_and_not_worse_sound n fr deps old new : valid_and_not_worse n fr deps old new = true ->
  length fr = n /\ topo_valid n deps new /\
  (topo_valid n deps old ->
   exists lo ln, lin_feerates fr old = Some lo /\ lin_feerates fr new = Some ln /\
                 in_range lo /\ in_range ln /\ diagram_ge (chunking ln) (chunking lo)).
Proof.
  unfold valid_and_not_worse. rewrite !andb_true_iff, Nat.eqb_eq, is_topological_iff. intros [[Hl Hn] Ho].
  split; [exact Hl|]. split; [exact Hn|]. intros Vo. apply is_topological_iff in Vo. rewrite Vo in Ho.
  apply lin_not_worse_sound. exact Ho.
Qed.

(* ---------------------------------------------------------------------------------- *)
(* the enumeration of topological orders is complete *)
Lemma remove_nat_In x l i : In i (remove_nat x l) <-> In i l /\ i <> x.
Proof.
  induction l as [|y l IH]; cbn [remove_nat]; [tauto|].
  destruct (Nat.eqb x y) eqn:E.
  - apply Nat.eqb_eq in E. subst y. rewrite IH. cbn [In]. split; [tauto|]. intros [[H|H] N]; [congruence | tauto].
  - apply Nat.eqb_neq in E. cbn [In]. rewrite IH. split; [intros [H|H]; [subst; split; [left; reflexivity | congruence] | tauto] | tauto].
Qed.

Lemma topo_orders_complete deps lin : forall fuel placed remaining,
  (length lin <= fuel)%nat -> NoDup lin -> (forall i, In i lin <-> In i remaining) ->
  topo_walk deps placed lin = true -> In lin (topo_orders fuel deps placed remaining).
Proof.
  induction lin as [|x r IH]; intros fuel placed remaining Hf Hnd Hin Hw.
  - destruct remaining as [|y rem]; [destruct fuel; left; reflexivity|].
    exfalso. apply (proj2 (Hin y)). left. reflexivity.
  - assert (Hx : In x remaining) by (apply Hin; left; reflexivity).
    destruct remaining as [|y rem]; [contradiction|]. set (remaining := y :: rem) in *.
    destruct fuel as [|k]; [cbn [length] in Hf; lia|].
    cbn [topo_walk] in Hw. apply andb_true_iff in Hw. destruct Hw as [Hw1 Hw]. apply andb_true_iff in Hw1. destruct Hw1 as [_ Hr].
    inversion Hnd as [|? ? Hxr Hnd']; subst.
    change (topo_orders (S k) deps placed remaining) with
      (flat_map (fun x => if ready deps placed x
                          then map (cons x) (topo_orders k deps (x :: placed) (remove_nat x remaining)) else []) remaining).
    apply in_flat_map. exists x. split; [exact Hx|]. rewrite Hr. apply in_map.
    apply IH; [cbn [length] in Hf; lia | exact Hnd' | | exact Hw].
    intros i. rewrite remove_nat_In. split.
    + intros Hi. split; [apply Hin; right; exact Hi | intros E; subst; exact (Hxr Hi)].
    + intros [Hi N]. apply Hin in Hi. destruct Hi as [Hi|Hi]; [congruence | exact Hi].
Qed.

Lemma all_topo_orders_complete n deps t : topo_valid n deps t -> In t (all_topo_orders n deps).
Proof.
  intros V. pose proof V as V'. apply is_topological_iff in V'. unfold is_topological in V'.
  rewrite !andb_true_iff in V'. destruct V' as [[[Hl _] _] Hw]. apply Nat.eqb_eq in Hl.
  destruct V as [Hnd [Hin _]]. unfold all_topo_orders.
  apply topo_orders_complete; [lia | exact Hnd | | exact Hw].
  intros i. rewrite Hin, in_seq. lia.
Qed.

Theorem dominates_all_topo_sound n fr deps lin : dominates_all_topo n fr deps lin = true ->
  forall t, topo_valid n deps t ->
  exists lt ll, lin_feerates fr t = Some lt /\ lin_feerates fr lin = Some ll /\
                in_range lt /\ in_range ll /\ diagram_ge (chunking ll) (chunking lt).
Proof.
  unfold dominates_all_topo. rewrite forallb_forall. intros H t V.
  apply lin_not_worse_sound. apply H. apply all_topo_orders_complete. exact V.
Qed.

(* ---------------------------------------------------------------------------------- *)
(* connectivity check *)
Lemma linked_in_r deps M a b : linked deps M a b -> In b M.
Proof. induction 1; assumption. Qed.
Lemma linked_in_l deps M a b : linked deps M a b -> In a M.
Proof. induction 1; assumption. Qed.

Lemma linked_trans deps M a b c : linked deps M a b -> linked deps M b c -> linked deps M a c.
Proof. intros Hab Hbc. induction Hbc as [b Hb | b c d Hbc IH Hd E]; [exact Hab|]. eapply linked_step; [apply IH; exact Hab | exact Hd | exact E]. Qed.

Lemma linked_sym deps M a b : linked deps M a b -> linked deps M b a.
Proof.
  induction 1 as [a Ha | a b c Hab IH Hc E]; [apply linked_refl; exact Ha|].
  apply linked_trans with b; [|exact IH].
  eapply linked_step; [apply linked_refl; exact Hc | exact (linked_in_r _ _ _ _ Hab) | tauto].
Qed.

Lemma neighbours_spec deps M reached x : In x (neighbours deps M reached) ->
  In x M /\ exists y, In y reached /\ (In (y, x) deps \/ In (x, y) deps).
Proof.
  unfold neighbours. rewrite filter_In. intros [Hx H]. split; [exact Hx|].
  apply andb_true_iff in H. destruct H as [_ H]. apply existsb_exists in H. destruct H as [[p c] [Hd H]].
  cbn [fst snd] in H. apply orb_true_iff in H. destruct H as [H|H]; apply andb_true_iff in H; destruct H as [E Hm];
    apply Nat.eqb_eq in E; apply memn_In in Hm; subst.
  - exists c. split; [exact Hm | right; exact Hd].
  - exists p. split; [exact Hm | left; exact Hd].
Qed.

Lemma grow_linked deps M a : forall fuel reached,
  (forall y, In y reached -> linked deps M a y) ->
  forall y, In y (grow fuel deps M reached) -> linked deps M a y.
Proof.
  induction fuel as [|k IH]; intros reached Hr y Hy; cbn [grow] in Hy; [apply Hr; exact Hy|].
  destruct (neighbours deps M reached) as [|x nb] eqn:En; [apply Hr; exact Hy|].
  apply (IH (x :: reached)); [|exact Hy].
  intros z [Hz|Hz]; [subst z|apply Hr; exact Hz].
  destruct (neighbours_spec deps M reached x) as [Hx [w [Hw E]]]; [rewrite En; left; reflexivity|].
  eapply linked_step; [apply Hr; exact Hw | exact Hx | exact E].
Qed.

Theorem is_connected_sound deps M : is_connected deps M = true -> connected deps M.
Proof.
  unfold is_connected, connected. destruct M as [|a M']; [intros _ x y []|].
  set (M := a :: M'). rewrite forallb_forall. intros H.
  assert (L : forall y, In y M -> linked deps M a y).
  { intros y Hy. apply (grow_linked deps M a (length M) [a]).
    - intros z [Hz|[]]. subst z. apply linked_refl. left. reflexivity.
    - apply memn_In. apply H. exact Hy. }
  intros x y Hx Hy. apply linked_trans with a; [apply linked_sym; apply L; exact Hx | apply L; exact Hy].
Qed.

Theorem chunks_connected_sound fr deps lin : chunks_connected fr deps lin = true ->
  forall c, In c (chunking_info (fun i => nth i fr (0, 0)) lin) -> connected deps (fst c).
Proof.
  unfold chunks_connected. rewrite forallb_forall. intros H c Hc. apply is_connected_sound. apply H. exact Hc.
Qed.

(* the executable monotonicity check means what it says *)
Lemma feerates_nonincreasing_sound l : Forall (fun c => ff_ok c) l -> feerates_nonincreasing l = true -> nonincr l.
Proof.
  induction l as [|a l IH]; intros Ok H l1 x y l2 E; [destruct l1; discriminate|].
  destruct l as [|b l]; [destruct l1 as [|? [|? ?]]; discriminate|].
  cbn [feerates_nonincreasing] in H. apply andb_true_iff in H. destruct H as [H1 H2].
  inversion Ok as [|? ? Oa Ok']; subst. inversion Ok' as [|? ? Ob _]; subst.
  destruct l1 as [|c l1]; cbn [app] in E; inversion E; subst.
  - destruct (byratio_ops_spec y x Ob Oa) as [_ [_ [Eg _]]]. rewrite Eg in H1. apply negb_true_iff in H1. lia.
  - apply (IH Ok' H2 l1 x y l2). assumption.
Qed.

Lemma chunking_info_feerates (fr : list (Z * Z)) lin :
  map snd (chunking_info (fun i => nth i fr (0, 0)) lin) = chunking (map (fun i => nth i fr (0, 0)) lin).
Proof. apply chunking_info_snd. Qed.
