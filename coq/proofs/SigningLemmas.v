(* C46: the transcribed template dispatch of SignStep / ProduceSignature meets the compositional specification of the
   spend each template needs; it signs only with available keys; facts about the timelock predicates and the policy oracle. *)
From BV Require Import lib.Ints model.Signing.
Local Open Scope Z_scope.

(* ---------------------------------------------------------------------------------------------- *)
(* multisig *)

Lemma multisig_sigs_spec P m ks : forall have, (have <= m)%nat ->
  multisig_sigs P m ks have = map ESig (firstn (m - have) (avail_keys P ks)).
Proof.
  unfold avail_keys. induction ks as [|k t IH]; intros have Hle; simpl.
  - rewrite firstn_nil. reflexivity.
  - destruct (has_priv P k) eqn:Ek; simpl.
    + destruct (have <? m)%nat eqn:El.
      * apply Nat.ltb_lt in El. rewrite IH by lia. replace (m - have)%nat with (S (m - S have)) by lia. reflexivity.
      * apply Nat.ltb_ge in El. replace (m - have)%nat with 0%nat by lia. rewrite IH by lia.
        replace (m - have)%nat with 0%nat by lia. reflexivity.
    + apply IH. exact Hle.
Qed.

Lemma multisig_step P m ks :
  sign_step P (TMulti m ks) =
    ((m <=? length (avail_keys P ks))%nat,
     EEmpty :: map ESig (firstn m (avail_keys P ks)) ++ repeat EEmpty (pad_count m (length (firstn m (avail_keys P ks))))).
Proof.
  unfold sign_step. rewrite multisig_sigs_spec by lia. rewrite Nat.sub_0_r. rewrite map_length.
  f_equal. rewrite firstn_length. destruct (m <=? length (avail_keys P ks))%nat eqn:E.
  - apply Nat.leb_le in E. apply Nat.eqb_eq. lia.
  - apply Nat.leb_gt in E. apply Nat.eqb_neq. lia.
Qed.

(* the k-of-n spend: a dummy element, then exactly m signatures, by available keys, in the script's key order *)
Inductive subseq {A} : list A -> list A -> Prop :=
| subseq_nil l : subseq [] l
| subseq_take x a l : subseq a l -> subseq (x :: a) (x :: l)
| subseq_skip x a l : subseq a l -> subseq a (x :: l).

Lemma subseq_filter {A} (f : A -> bool) l : subseq (filter f l) l.
Proof. induction l as [|x t IH]; simpl; [constructor|]. destruct (f x); [apply subseq_take|apply subseq_skip]; exact IH. Qed.

Lemma subseq_firstn_filter {A} (f : A -> bool) n l : subseq (firstn n (filter f l)) l.
Proof.
  revert n. induction l as [|x t IH]; intros n; simpl.
  - rewrite firstn_nil. constructor.
  - destruct (f x).
    + destruct n; simpl; [constructor|apply subseq_take; apply IH].
    + apply subseq_skip. apply IH.
Qed.

Lemma In_firstn {A} (x : A) n l : In x (firstn n l) -> In x l.
Proof. revert n. induction l as [|y t IH]; intros [|n] H; simpl in *; try tauto. destruct H as [H|H]; [auto|right; eapply IH; exact H]. Qed.

Lemma multisig_spend_shape P m ks s :
  base_stack P (TMulti m ks) = Some s ->
  exists sel, s = EEmpty :: map ESig sel /\ length sel = m /\ subseq sel ks /\ (forall k, In k sel -> has_priv P k = true).
Proof.
  simpl. destruct (m <=? length (avail_keys P ks))%nat eqn:E; [|discriminate]. intros H. inversion H; subst. clear H.
  apply Nat.leb_le in E. exists (firstn m (avail_keys P ks)). split; [reflexivity|]. split; [rewrite firstn_length; lia|].
  split; [apply subseq_firstn_filter|]. intros k Hk. apply In_firstn in Hk. unfold avail_keys in Hk. apply filter_In in Hk. tauto.
Qed.

(* ---------------------------------------------------------------------------------------------- *)
(* ProduceSignature's control flow against the compositional specification *)

Lemma pad_count_full m : pad_count m m = 0%nat.
Proof. unfold pad_count. simpl. destruct (S m <? S m)%nat eqn:E; [apply Nat.ltb_lt in E; lia|reflexivity]. Qed.

Lemma pad_nil P m ks : (m <=? length (avail_keys P ks))%nat = true ->
  repeat EEmpty (pad_count m (length (firstn m (avail_keys P ks)))) = [].
Proof.
  intros E. apply Nat.leb_le in E. rewrite firstn_length.
  replace (Nat.min m (length (avail_keys P ks))) with m by lia. rewrite pad_count_full. reflexivity.
Qed.

Lemma len_firstn_eqb P m ks :
  (length (firstn m (avail_keys P ks)) =? m)%nat = (m <=? length (avail_keys P ks))%nat.
Proof.
  rewrite firstn_length. destruct (m <=? length (avail_keys P ks))%nat eqn:E.
  - apply Nat.leb_le in E. apply Nat.eqb_eq. lia.
  - apply Nat.leb_gt in E. apply Nat.eqb_neq. lia.
Qed.

Ltac red_all := cbn -[avail_keys firstn repeat Nat.leb Nat.sub length app map pad_count].

Ltac norm P := red_all; rewrite ?(multisig_sigs_spec P _ _ 0) by lia; rewrite ?Nat.sub_0_r, ?map_length, ?len_firstn_eqb;
  repeat match goal with
  | H : (?m <=? length (avail_keys P ?ks))%nat = true |- _ =>
      progress (rewrite ?H, ?(pad_nil P m ks H), ?app_nil_r)
  | H : (?m <=? length (avail_keys P ?ks))%nat = false |- _ => progress (rewrite ?H)
  end; red_all.

Ltac split_cases P :=
  repeat match goal with
  | |- context [knows_scripts P] => destruct (knows_scripts P) eqn:?; norm P
  | |- context [has_priv P ?k] => destruct (has_priv P k) eqn:?; norm P
  | |- context [knows_pub P ?k] => destruct (knows_pub P k) eqn:?; norm P
  | |- context [(?m <=? length (avail_keys P ?ks))%nat] =>
      let E := fresh "E" in destruct (m <=? length (avail_keys P ks))%nat eqn:E; norm P
  end.

Ltac solve_tmpl P := unfold produce, spec_spend, wit_stack, base_stack; rewrite ?multisig_step; norm P;
                     split_cases P; rewrite ?app_nil_r; try reflexivity.

(* Whenever the specification says a complete spend exists, ProduceSignature's dispatch produces exactly it and reports
   solved; whenever it says none exists (a key, a public key or a script is missing, too few keys for the multisig,
   a nesting the code does not sign) it reports unsolved. *)
Theorem produce_matches_spec P t :
  match spec_spend P t with
  | Some (ss, w) => produce P t = mkSigRes true ss w
  | None => sr_solved (produce P t) = false
  end.
Proof.
  destruct t as [k|k|m ks|k|inner|inner|]; try solve [solve_tmpl P].
  - destruct inner as [k|k|m ks|k|i2|i2|]; try solve [solve_tmpl P].
    destruct i2 as [k|k|m ks|k|i3|i3|]; solve [solve_tmpl P].
  - destruct inner as [k|k|m ks|k|i3|i3|]; solve [solve_tmpl P].
Qed.

Corollary produce_solved_iff P t : sr_solved (produce P t) = true <-> spec_spend P t <> None.
Proof.
  pose proof (produce_matches_spec P t) as H. destruct (spec_spend P t) as [[ss w]|].
  - rewrite H. simpl. split; [discriminate|reflexivity].
  - rewrite H. split; [discriminate|intros X; contradiction X; reflexivity].
Qed.

(* ---------------------------------------------------------------------------------------------- *)
(* signatures only by available keys, solved or not *)

Definition sig_ok (P : provider) (e : elem) : Prop :=
  match e with ESig k => has_priv P k = true | _ => True end.

Lemma sig_ok_multi P m ks have : Forall (sig_ok P) (multisig_sigs P m ks have).
Proof.
  revert have. induction ks as [|x t IH]; intros have; simpl; [constructor|].
  destruct (has_priv P x) eqn:Ex; simpl; [|apply IH].
  destruct (have <? m)%nat; [constructor; [exact Ex|apply IH]|apply IH].
Qed.

Lemma sig_ok_repeat P n : Forall (sig_ok P) (repeat EEmpty n).
Proof. induction n; simpl; constructor; [exact I|assumption]. Qed.

Ltac q_solve P :=
  repeat first [ apply Forall_nil | apply sig_ok_multi | apply sig_ok_repeat
               | apply Forall_app; split | apply Forall_cons; [first [exact I | assumption]|] ].

Ltac red_q := cbn -[multisig_sigs repeat app pad_count].

Ltac split_q P :=
  repeat match goal with
  | |- context [knows_scripts P] => destruct (knows_scripts P) eqn:?; red_q
  | |- context [has_priv P ?k] => destruct (has_priv P k) eqn:?; red_q
  | |- context [knows_pub P ?k] => destruct (knows_pub P k) eqn:?; red_q
  | |- context [(length (multisig_sigs P ?m ?ks 0) =? ?m)%nat] => destruct (length (multisig_sigs P m ks 0) =? m)%nat; red_q
  end.

Ltac solve_q P := unfold produce; red_q; split_q P; q_solve P.

(* every signature ProduceSignature's dispatch places in the scriptSig or the witness - solved or not (partial
   multisig signatures included) - is by a key whose private key the provider has *)
Theorem produce_signs_only_with_available_keys P t :
  Forall (sig_ok P) (sr_ss (produce P t) ++ sr_wit (produce P t)).
Proof.
  destruct t as [k|k|m ks|k|inner|inner|]; try solve [solve_q P].
  - destruct inner as [k|k|m ks|k|i2|i2|]; try solve [solve_q P].
    destruct i2 as [k|k|m ks|k|i3|i3|]; solve [solve_q P].
  - destruct inner as [k|k|m ks|k|i3|i3|]; solve [solve_q P].
Qed.

Corollary produce_sig_available P t k :
  In (ESig k) (sr_ss (produce P t) ++ sr_wit (produce P t)) -> has_priv P k = true.
Proof.
  intros H. pose proof (produce_signs_only_with_available_keys P t) as F. rewrite Forall_forall in F. exact (F _ H).
Qed.

(* ---------------------------------------------------------------------------------------------- *)
(* timelocks *)

Lemma check_locktime_sound tx n : check_locktime tx n = true ->
  n <= tx_locktime tx /\ tx_sequence tx <> SEQUENCE_FINAL /\
  ((tx_locktime tx < LOCKTIME_THRESHOLD /\ n < LOCKTIME_THRESHOLD) \/ (LOCKTIME_THRESHOLD <= tx_locktime tx /\ LOCKTIME_THRESHOLD <= n)).
Proof.
  unfold check_locktime. intros H. apply andb_true_iff in H. destruct H as [H H3]. apply andb_true_iff in H. destruct H as [H1 H2].
  apply Z.leb_le in H2. apply negb_true_iff in H3. apply Z.eqb_neq in H3. split; [exact H2|]. split; [exact H3|].
  apply orb_true_iff in H1. destruct H1 as [H1|H1]; apply andb_true_iff in H1; destruct H1 as [A B].
  - left. apply Z.ltb_lt in A. apply Z.ltb_lt in B. auto.
  - right. apply Z.leb_le in A. apply Z.leb_le in B. auto.
Qed.

Lemma check_sequence_sound tx n : check_sequence tx n = true ->
  2 <= tx_version tx /\ Z.land (tx_sequence tx) SEQ_DISABLE = 0 /\ seq_masked n <= seq_masked (tx_sequence tx).
Proof.
  unfold check_sequence. intros H. apply andb_true_iff in H. destruct H as [H H4]. apply andb_true_iff in H. destruct H as [H H3].
  apply andb_true_iff in H. destruct H as [H1 H2]. apply Z.leb_le in H1. apply Z.eqb_eq in H2. apply Z.leb_le in H4. auto.
Qed.

(* ---------------------------------------------------------------------------------------------- *)
(* the policy oracle is monotone in what is available: more keys / preimages never make a policy unsatisfiable *)

Lemma filter_length_mono {A} (f g : A -> bool) l : (forall x, f x = true -> g x = true) ->
  (length (filter f l) <= length (filter g l))%nat.
Proof.
  intros H. induction l as [|x t IH]; simpl; [lia|].
  destruct (f x) eqn:Ef.
  - rewrite (H x Ef). simpl. lia.
  - destruct (g x); simpl; lia.
Qed.

Lemma count_true_mono (l1 l2 : list bool) : Forall2 (fun a b => a = true -> b = true) l1 l2 ->
  (length (filter (fun b => b) l1) <= length (filter (fun b => b) l2))%nat.
Proof.
  induction 1 as [|a b t1 t2 Hab _ IH]; simpl; [lia|].
  destruct a.
  - rewrite (Hab eq_refl). simpl. lia.
  - destruct b; simpl; lia.
Qed.

Theorem ms_sat_monotone P P' pre pre' tx :
  (forall k, has_priv P k = true -> has_priv P' k = true) ->
  (forall h, pre h = true -> pre' h = true) ->
  forall m, ms_sat P pre tx m = true -> ms_sat P' pre' tx m = true.
Proof.
  intros Hk Hp.
  fix IH 1. intros m. destruct m as [k|n|n|h|a b|a b|k l|k ks]; simpl; intros H.
  - apply Hk. exact H.
  - exact H.
  - exact H.
  - apply Hp. exact H.
  - apply andb_true_iff in H. destruct H as [Ha Hb]. rewrite (IH a Ha), (IH b Hb). reflexivity.
  - apply orb_true_iff in H. destruct H as [Ha|Hb]; [rewrite (IH a Ha); reflexivity|rewrite (IH b Hb); apply orb_true_r].
  - apply Nat.leb_le in H. apply Nat.leb_le.
    assert (F : Forall2 (fun a b => a = true -> b = true) (map (ms_sat P pre tx) l) (map (ms_sat P' pre' tx) l)).
    { clear H. induction l as [|x t IHl]; simpl; constructor; [apply IH|exact IHl]. }
    pose proof (count_true_mono _ _ F). lia.
  - apply Nat.leb_le in H. apply Nat.leb_le. pose proof (filter_length_mono (has_priv P) (has_priv P') ks Hk).
    unfold avail_keys in *. lia.
Qed.

(* the report predicate *)
Lemma report_ok_sound complete verify_ok : report_ok complete verify_ok = true -> complete = true -> verify_ok = true.
Proof. unfold report_ok. destruct complete, verify_ok; simpl; auto; discriminate. Qed.
