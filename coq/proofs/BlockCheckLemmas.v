(* Proofs about model/BlockCheck.v (C06). *)
From BV Require Import lib.Ints gen.Params_gen model.SigOps model.BlockCheck proofs.SigOpsLemmas.
Local Open Scope Z_scope.

Lemma get_block_weight_spec stripped total :
  0 <= stripped <= 4000000000 -> 0 <= total <= 4000000000 ->
  get_block_weight stripped total = 3 * stripped + total.
Proof.
  intros Hs Ht. unfold get_block_weight. change (WITNESS_SCALE_FACTOR - 1) with 3.
  rewrite (wrapu64_id (stripped * 3)) by (unfold UINT64_MAX; lia).
  rewrite wrapu64_id by (unfold UINT64_MAX; lia).
  rewrite wrap64_id by (unfold INT64_MIN, INT64_MAX; lia). lia.
Qed.

Lemma starts_with_iff : forall p s, starts_with p s = true <-> is_prefix p s.
Proof.
  induction p as [|e p IH]; intros s; simpl; [tauto|].
  destruct s as [|b s]; [split; [discriminate|tauto]|].
  rewrite andb_true_iff, Z.eqb_eq, IH. tauto.
Qed.

Lemma is_prefix_len : forall p s, is_prefix p s -> zlen p <= zlen s.
Proof.
  induction p as [|e p IH]; intros s H; [apply zlen_nonneg|].
  destruct s as [|b s]; [destruct H|]. destruct H as [_ H]. apply IH in H. rewrite !zlen_cons. lia.
Qed.

(* the BIP34 rule: the coinbase scriptSig starts with CScript() << nHeight *)
Lemma bip34_ok_iff nHeight s : bip34_ok nHeight s = true <-> is_prefix (script_push_int64 nHeight) s.
Proof.
  unfold bip34_ok. rewrite andb_true_iff, negb_true_iff, starts_with_iff. split; [tauto|].
  intros H. split; [|exact H]. apply is_prefix_len in H. destruct (Z.ltb_spec (zlen s) (zlen (script_push_int64 nHeight))); [lia|reflexivity].
Qed.

Lemma fold_wrapu32_legacy : forall l acc,
  (forall t, In t l -> 0 <= bt_legacy_sigops t) -> 0 <= acc -> acc + zsum (map bt_legacy_sigops l) <= UINT32_MAX ->
  fold_left (fun n t => wrapu32 (n + bt_legacy_sigops t)) l acc = acc + zsum (map bt_legacy_sigops l).
Proof.
  intros l acc H Ha Hb. apply (fold_wrapu32_sum bt_legacy_sigops bt_legacy_sigops); auto.
Qed.

Lemma connect_sigops_iff : forall txs acc,
  (forall t, In t txs -> 0 <= bt_cost t) -> 0 <= acc <= 80000 -> acc + zsum (map bt_cost txs) <= INT64_MAX ->
  (connect_sigops txs acc = None <-> acc + zsum (map bt_cost txs) <= 80000).
Proof.
  induction txs as [|t r IH]; intros acc Hn Ha Hb; simpl.
  - split; [lia|reflexivity].
  - assert (0 <= bt_cost t) by (apply Hn; left; reflexivity).
    assert (0 <= zsum (map bt_cost r)) by (apply zsum_map_nonneg; intros; apply Hn; right; assumption).
    simpl in Hb. rewrite wrap64_id by (unfold INT64_MIN; lia).
    change MAX_BLOCK_SIGOPS_COST with 80000.
    destruct (Z.gtb_spec (acc + bt_cost t) 80000).
    + split; [discriminate|lia].
    + rewrite IH; [lia| |lia|lia]. intros; apply Hn; right; assumption.
Qed.

Theorem block_limits_verdict_iff bip34_active nHeight b : wf_blk b ->
  (block_limits_verdict bip34_active nHeight b = None <-> spec_block_ok_b bip34_active nHeight b = true).
Proof.
  intros (Hs & Ht & Hn & Hpos & Hleg & Hcost).
  unfold block_limits_verdict, spec_block_ok_b, check_block, contextual_check_block.
  pose proof (zlen_nonneg (b_txs b)) as Hz.
  change WITNESS_SCALE_FACTOR with 4. change MAX_BLOCK_WEIGHT with 4000000. change MAX_BLOCK_SIGOPS_COST with 80000.
  rewrite (wrapu64_id (zlen (b_txs b) * 4)) by (unfold UINT64_MAX; lia).
  rewrite (wrapu64_id (b_stripped_size b * 4)) by (unfold UINT64_MAX; lia).
  rewrite get_block_weight_spec by assumption.
  rewrite fold_wrapu32_legacy; [| |lia|unfold UINT32_MAX; lia].
  2:{ intros t Hin. apply Hpos. exact Hin. }
  assert (0 <= zsum (map bt_legacy_sigops (b_txs b))) as Hl0.
  { apply zsum_map_nonneg. intros t Hin. apply Hpos. exact Hin. }
  rewrite Z.add_0_l. rewrite wrapu32_id by (unfold UINT32_MAX; lia).
  rewrite !andb_true_iff, !Z.leb_le.
  destruct (Z.eqb_spec (zlen (b_txs b)) 0) as [E0|N0]; cbn [orb].
  { split; [discriminate|]. intros HH. lia. }
  destruct (Z.gtb_spec (zlen (b_txs b) * 4) 4000000); cbn [orb].
  { split; [discriminate|]. intros HH. lia. }
  destruct (Z.gtb_spec (b_stripped_size b * 4) 4000000); cbn [orb].
  { split; [discriminate|]. intros HH. lia. }
  destruct (b_txs b) as [|t0 r] eqn:Etx.
  { split; [discriminate|]. intros HH. decompose [and] HH. discriminate. }
  rewrite <- Etx in *.
  destruct (bt_coinbase t0); cbn [negb andb].
  2:{ split; [discriminate|]. intros HH. decompose [and] HH. discriminate. }
  destruct (existsb bt_coinbase r); cbn [negb].
  { split; [discriminate|]. intros HH. decompose [and] HH. discriminate. }
  destruct (Z.gtb_spec (zsum (map bt_legacy_sigops (b_txs b)) * 4) 80000).
  { split; [discriminate|]. intros HH. lia. }
  destruct bip34_active; cbn [andb negb orb].
  - destruct (bip34_ok nHeight (b_cb_script_sig b)); cbn [negb].
    2:{ split; [discriminate|]. intros HH. decompose [and] HH. discriminate. }
    destruct (Z.gtb_spec (3 * b_stripped_size b + b_total_size b) 4000000).
    { split; [discriminate|]. intros HH. lia. }
    rewrite connect_sigops_iff; [|intros t Hin; apply Hpos; exact Hin|lia|unfold INT64_MAX; lia].
    split; [intros; repeat split; auto; lia|intros HH; lia].
  - destruct (Z.gtb_spec (3 * b_stripped_size b + b_total_size b) 4000000).
    { split; [discriminate|]. intros HH. lia. }
    rewrite connect_sigops_iff; [|intros t Hin; apply Hpos; exact Hin|lia|unfold INT64_MAX; lia].
    split; [intros; repeat split; auto; lia|intros HH; lia].
Qed.

Lemma spec_block_ok_b_iff bip34_active nHeight b :
  spec_block_ok_b bip34_active nHeight b = true <->
  1 <= zlen (b_txs b) /\ 4 * zlen (b_txs b) <= 4000000 /\ 4 * b_stripped_size b <= 4000000 /\
  (exists t0 r, b_txs b = t0 :: r /\ bt_coinbase t0 = true /\ forall t, In t r -> bt_coinbase t = false) /\
  4 * zsum (map bt_legacy_sigops (b_txs b)) <= 80000 /\
  (bip34_active = true -> is_prefix (script_push_int64 nHeight) (b_cb_script_sig b)) /\
  3 * b_stripped_size b + b_total_size b <= 4000000 /\
  zsum (map bt_cost (b_txs b)) <= 80000.
Proof.
  unfold spec_block_ok_b. rewrite !andb_true_iff, !Z.leb_le, orb_true_iff, negb_true_iff, bip34_ok_iff.
  assert ((match b_txs b with t0 :: r => bt_coinbase t0 && negb (existsb bt_coinbase r) | [] => false end) = true <->
          (exists t0 r, b_txs b = t0 :: r /\ bt_coinbase t0 = true /\ forall t, In t r -> bt_coinbase t = false)) as Ecb.
  { destruct (b_txs b) as [|t0 r].
    - split; [discriminate|]. intros (t & r & E & _). discriminate.
    - rewrite andb_true_iff, negb_true_iff. split.
      + intros [A B]. exists t0, r. split; [reflexivity|]. split; [exact A|].
        intros t Hin. destruct (bt_coinbase t) eqn:Et; [|reflexivity].
        assert (existsb bt_coinbase r = true) by (apply existsb_exists; eauto). congruence.
      + intros (t & r' & E & A & B). inversion E; subst. split; [exact A|].
        destruct (existsb bt_coinbase r') eqn:Ee; [|reflexivity].
        apply existsb_exists in Ee. destruct Ee as (x & Hx & Ex). rewrite (B x Hx) in Ex. discriminate. }
  rewrite Ecb. destruct bip34_active; intuition congruence.
Qed.

Theorem block_accepted_iff : forall bip34_active nHeight b, wf_blk b ->
  (block_limits_verdict bip34_active nHeight b = None <->
   1 <= zlen (b_txs b) /\ 4 * zlen (b_txs b) <= 4000000 /\ 4 * b_stripped_size b <= 4000000 /\
   (exists t0 r, b_txs b = t0 :: r /\ bt_coinbase t0 = true /\ forall t, In t r -> bt_coinbase t = false) /\
   4 * zsum (map bt_legacy_sigops (b_txs b)) <= 80000 /\
   (bip34_active = true -> is_prefix (script_push_int64 nHeight) (b_cb_script_sig b)) /\
   3 * b_stripped_size b + b_total_size b <= 4000000 /\
   zsum (map bt_cost (b_txs b)) <= 80000).
Proof.
  intros a h b Hwf. rewrite (block_limits_verdict_iff a h b Hwf). apply spec_block_ok_b_iff.
Qed.

Lemma count_ops_unfold : forall accurate prev o r,
  count_ops accurate prev (o :: r) =
  (if (op_code o =? 172) || (op_code o =? 173) then 1
   else if (op_code o =? 174) || (op_code o =? 175) then (if accurate && (81 <=? prev) && (prev <=? 96) then prev - 80 else 20)
   else 0) + count_ops accurate (op_code o) r.
Proof. reflexivity. Qed.

(* which rule rejects: the reasons in the order of the code *)
Theorem block_limits_reasons bip34_active nHeight b r : wf_blk b ->
  block_limits_verdict bip34_active nHeight b = Some r ->
  match r with
  | bad_blk_length => zlen (b_txs b) = 0 \/ 4000000 < 4 * zlen (b_txs b) \/ 4000000 < 4 * b_stripped_size b
  | bad_cb_missing => match b_txs b with t0 :: _ => bt_coinbase t0 = false | [] => True end
  | bad_cb_multiple => match b_txs b with _ :: r => existsb bt_coinbase r = true | [] => False end
  | bad_blk_sigops => 80000 < 4 * zsum (map bt_legacy_sigops (b_txs b)) \/ 80000 < zsum (map bt_cost (b_txs b))
  | bad_cb_height => bip34_active = true /\ ~ is_prefix (script_push_int64 nHeight) (b_cb_script_sig b)
  | bad_blk_weight => 4000000 < 3 * b_stripped_size b + b_total_size b
  end.
Proof.
  intros (Hs & Ht & Hn & Hpos & Hleg & Hcost).
  unfold block_limits_verdict, check_block, contextual_check_block.
  pose proof (zlen_nonneg (b_txs b)) as Hz.
  change WITNESS_SCALE_FACTOR with 4. change MAX_BLOCK_WEIGHT with 4000000. change MAX_BLOCK_SIGOPS_COST with 80000.
  rewrite (wrapu64_id (zlen (b_txs b) * 4)) by (unfold UINT64_MAX; lia).
  rewrite (wrapu64_id (b_stripped_size b * 4)) by (unfold UINT64_MAX; lia).
  rewrite get_block_weight_spec by assumption.
  rewrite fold_wrapu32_legacy; [| |lia|unfold UINT32_MAX; lia].
  2:{ intros t Hin. apply Hpos. exact Hin. }
  assert (0 <= zsum (map bt_legacy_sigops (b_txs b))) as Hl0.
  { apply zsum_map_nonneg. intros t Hin. apply Hpos. exact Hin. }
  rewrite Z.add_0_l. rewrite wrapu32_id by (unfold UINT32_MAX; lia).
  destruct (Z.eqb_spec (zlen (b_txs b)) 0) as [E0|N0]; cbn [orb].
  { intros HH; inversion HH; subst. left. exact E0. }
  destruct (Z.gtb_spec (zlen (b_txs b) * 4) 4000000); cbn [orb].
  { intros HH; inversion HH; subst. right; left. lia. }
  destruct (Z.gtb_spec (b_stripped_size b * 4) 4000000); cbn [orb].
  { intros HH; inversion HH; subst. right; right. lia. }
  destruct (b_txs b) as [|t0 r0] eqn:Etx.
  { intros HH; inversion HH; subst. exact I. }
  rewrite <- Etx in *.
  destruct (bt_coinbase t0) eqn:Ecb; cbn [negb].
  2:{ intros HH; inversion HH; subst. try rewrite Etx. first [exact Ecb|reflexivity]. }
  destruct (existsb bt_coinbase r0) eqn:Eex.
  { intros HH; inversion HH; subst. try rewrite Etx. first [exact Eex|reflexivity]. }
  destruct (Z.gtb_spec (zsum (map bt_legacy_sigops (b_txs b)) * 4) 80000).
  { intros HH; inversion HH; subst. left. lia. }
  destruct (bip34_active && negb (bip34_ok nHeight (b_cb_script_sig b))) eqn:Eb.
  { intros HH; inversion HH; subst. apply andb_true_iff in Eb. destruct Eb as [Ea Eb]. split; [exact Ea|].
    rewrite <- bip34_ok_iff. apply negb_true_iff in Eb. congruence. }
  destruct (Z.gtb_spec (3 * b_stripped_size b + b_total_size b) 4000000).
  { intros HH; inversion HH; subst. lia. }
  intros HH.
  assert (connect_sigops (b_txs b) 0 <> None) as Hne by congruence.
  rewrite connect_sigops_iff in Hne; [|intros t Hin; apply Hpos; exact Hin|lia|unfold INT64_MAX; lia].
  assert (r = bad_blk_sigops) as ->.
  { clear - HH. revert HH. generalize 0. induction (b_txs b) as [|t l IH]; intros acc HH; simpl in HH; [discriminate|].
    destruct (wrap64 (acc + bt_cost t) >? MAX_BLOCK_SIGOPS_COST); [inversion HH; reflexivity|eapply IH; exact HH]. }
  right. lia.
Qed.

(* ------------------------------------------------------------------------------------------ *)
(* the per-transaction numbers a block is made of are the counters of model/SigOps.v *)
Definition btx_of (flag_p2sh flag_witness : bool) (t : stx) : option btx :=
  match tx_sigop_cost flag_p2sh flag_witness t with
  | None => None
  | Some c => Some {| bt_coinbase := st_coinbase t; bt_legacy_sigops := legacy_sigop_count t; bt_cost := c |}
  end.

Lemma btx_of_spec flag_p2sh flag_witness t :
  (flag_witness = true -> flag_p2sh = true) -> ins_bytes_ok (st_ins t) -> tx_script_bytes t <= 50000000 ->
  btx_of flag_p2sh flag_witness t =
  Some {| bt_coinbase := st_coinbase t; bt_legacy_sigops := spec_legacy t; bt_cost := spec_tx_cost flag_p2sh flag_witness t |}.
Proof.
  intros Hf Hok Hb. unfold btx_of. rewrite tx_sigop_cost_spec by assumption.
  rewrite legacy_sigop_count_spec by exact Hb. reflexivity.
Qed.
