(* Structural well-formedness of the pool (distinct txids, the spends index is exactly the inputs of the entries, totals)
   and its preservation by removeUnchecked / RemoveStaged / addNewTransaction. *)
From BV Require Import lib.Ints gen.Params_gen model.Locks model.Mempool proofs.MempoolBase.
Local Open Scope Z_scope.

Definition spends (p : pool) (id : Z) (o : outpoint) : Prop :=
  exists e, In e (p_entries p) /\ e_id e = id /\ In o (t_ins (e_tx e)).

Record pool_ok (p : pool) : Prop := {
  ok_ids : NoDup (pool_ids p);
  ok_next : forall o id, In (o, id) (p_next p) <-> spends p id o;
  ok_keys : NoDup (map fst (p_next p));
  ok_ins : forall e, In e (p_entries p) -> NoDup (t_ins (e_tx e)) /\ t_vin (e_tx e) <> [];
  ok_size : p_size p = wrapu64 (zsum (map (fun e => t_size (e_tx e)) (p_entries p)));
  ok_fee : p_fee p = wrap64 (zsum (map (fun e => t_fee (e_tx e)) (p_entries p))) }.

Lemma empty_pool_ok : pool_ok empty_pool.
Proof.
  constructor; simpl; try constructor; try reflexivity.
  - tauto.
  - intros (e & [] & _).
  - tauto.
  - tauto.
Qed.

(* no two entries spend the same outpoint *)
Lemma no_double_spend p e1 e2 o : pool_ok p -> In e1 (p_entries p) -> In e2 (p_entries p) ->
  In o (t_ins (e_tx e1)) -> In o (t_ins (e_tx e2)) -> e1 = e2.
Proof.
  intros K H1 H2 I1 I2.
  assert (In (o, e_id e1) (p_next p)) as A by (apply (ok_next p K); exists e1; auto).
  assert (In (o, e_id e2) (p_next p)) as B by (apply (ok_next p K); exists e2; auto).
  apply (next_find_In _ _ _ (ok_keys p K)) in A, B. rewrite A in B. inversion B as [E].
  pose proof (find_entry_unique p e1 (ok_ids p K) H1) as F1.
  pose proof (find_entry_unique p e2 (ok_ids p K) H2) as F2.
  rewrite E in F1. congruence.
Qed.

Lemma next_find_spends p o id : pool_ok p -> (next_find (p_next p) o = Some id <-> spends p id o).
Proof. intros K. rewrite (next_find_In _ _ _ (ok_keys p K)). apply (ok_next p K). Qed.

(* wrap arithmetic of the totals *)
Lemma wrapu64_sub a b : wrapu64 (wrapu64 a - b) = wrapu64 (a - b).
Proof. unfold wrapu64, wrapu. rewrite Zminus_mod_idemp_l. reflexivity. Qed.
Lemma wrapu64_add a b : wrapu64 (wrapu64 a + b) = wrapu64 (a + b).
Proof. unfold wrapu64, wrapu. rewrite Zplus_mod_idemp_l. reflexivity. Qed.
Lemma wraps_mod w x : 0 < w -> (wraps w x) mod 2 ^ w = x mod 2 ^ w.
Proof.
  intros Hw. unfold wraps. assert (0 < 2 ^ w) by (apply Z.pow_pos_nonneg; lia).
  destruct (_ <? _).
  - apply Z.mod_mod. lia.
  - rewrite <- (Z.mul_1_l (2 ^ w)) at 2. rewrite <- Z.add_opp_r, <- Z.mul_opp_l, Z.mod_add by lia. apply Z.mod_mod. lia.
Qed.
Lemma wraps_congr w x y : 0 < w -> x mod 2 ^ w = y mod 2 ^ w -> wraps w x = wraps w y.
Proof. intros _ E. unfold wraps. rewrite E. reflexivity. Qed.
Lemma wrap64_sub a b : wrap64 (wrap64 a - b) = wrap64 (a - b).
Proof.
  unfold wrap64. apply wraps_congr; [lia|].
  rewrite Zminus_mod, wraps_mod by lia. rewrite <- Zminus_mod. reflexivity.
Qed.
Lemma wrap64_add a b : wrap64 (wrap64 a + b) = wrap64 (a + b).
Proof.
  unfold wrap64. apply wraps_congr; [lia|].
  rewrite Zplus_mod, wraps_mod by lia. rewrite <- Zplus_mod. reflexivity.
Qed.

(* ------------------------------------------------------------------------------------------ *)
(* removeUnchecked *)

Lemma remove_unchecked_absent p id : in_pool p id = false -> remove_unchecked p id = p.
Proof. unfold remove_unchecked, in_pool. destruct (find_entry p id); simpl; [discriminate|reflexivity]. Qed.

Lemma remove_unchecked_entries p id :
  p_entries (remove_unchecked p id) = filter (fun x => negb (e_id x =? id)) (p_entries p).
Proof.
  unfold remove_unchecked. destruct (find_entry p id) eqn:F; simpl; [reflexivity|].
  apply find_entry_None in F. symmetry. apply filter_true. intros x Hx. apply negb_true_iff, Z.eqb_neq.
  intros E. apply F. rewrite <- E. apply in_map. exact Hx.
Qed.

Lemma zsum_remove_one {A} (w : A -> Z) (key : A -> Z) l e :
  NoDup (map key l) -> In e l ->
  zsum (map w (filter (fun x => negb (key x =? key e)) l)) = zsum (map w l) - w e.
Proof.
  induction l as [|a l IH]; simpl; intros N H; [tauto|].
  inversion N; subst. destruct H as [->|H].
  - rewrite Z.eqb_refl. simpl. rewrite filter_true; [lia|].
    intros x Hx. apply negb_true_iff, Z.eqb_neq. intros E. apply H2. rewrite <- E. apply in_map. exact Hx.
  - destruct (Z.eqb_spec (key a) (key e)) as [E|E]; simpl.
    + exfalso. apply H2. rewrite E. apply in_map. exact H.
    + rewrite IH by assumption. lia.
Qed.

Lemma remove_unchecked_ok p id : pool_ok p -> pool_ok (remove_unchecked p id).
Proof.
  intros K. unfold remove_unchecked. destruct (find_entry p id) as [e|] eqn:F; [|exact K].
  apply find_entry_Some in F. destruct F as [He Eid].
  assert (forall x, In x (p_entries p) -> e_id x = id -> x = e) as Uniq.
  { intros x Hx Ex. pose proof (find_entry_unique p x (ok_ids p K) Hx) as A.
    pose proof (find_entry_unique p e (ok_ids p K) He) as B. rewrite Ex in A. rewrite Eid in B. congruence. }
  constructor; simpl.
  - unfold pool_ids. simpl. apply NoDup_map_filter. exact (ok_ids p K).
  - intros o i. rewrite fold_erase_In. simpl. rewrite (ok_next p K). split.
    + intros [(x & Hx & Ex & Ox) Hn]. exists x. split; [|auto]. apply filter_In. split; [exact Hx|].
      apply negb_true_iff, Z.eqb_neq. intros E. apply Hn. rewrite <- (Uniq x Hx E). exact Ox.
    + intros (x & Hx & Ex & Ox). apply filter_In in Hx. destruct Hx as [Hx Nx]. apply negb_true_iff, Z.eqb_neq in Nx.
      split; [exists x; auto|]. intros Oe. apply Nx. rewrite (no_double_spend p x e o K Hx He Ox Oe). exact Eid.
  - apply fold_erase_keys. exact (ok_keys p K).
  - intros x Hx. apply filter_In in Hx. apply (ok_ins p K). tauto.
  - rewrite (ok_size p K), wrapu64_sub. f_equal. rewrite <- Eid.
    rewrite (zsum_remove_one (fun e => t_size (e_tx e)) e_id); [reflexivity|exact (ok_ids p K)|exact He].
  - rewrite (ok_fee p K), wrap64_sub. f_equal. rewrite <- Eid.
    rewrite (zsum_remove_one (fun e => t_fee (e_tx e)) e_id); [reflexivity|exact (ok_ids p K)|exact He].
Qed.

Lemma remove_list_ok ids : forall p, pool_ok p -> pool_ok (remove_list p ids).
Proof. induction ids as [|i r IH]; simpl; intros p K; [exact K|]. apply IH. apply remove_unchecked_ok. exact K. Qed.

Lemma remove_list_entries ids : forall p,
  p_entries (remove_list p ids) = filter (fun x => negb (memz (e_id x) ids)) (p_entries p).
Proof.
  unfold remove_list. induction ids as [|i r IH]; simpl; intros p.
  - symmetry. apply filter_true. reflexivity.
  - rewrite IH, remove_unchecked_entries, filter_filter. apply filter_ext. intros x.
    rewrite (Z.eqb_sym (e_id x) i). destruct (i =? e_id x); simpl; [reflexivity|]. reflexivity.
Qed.

Lemma remove_list_ids p ids x : In x (pool_ids (remove_list p ids)) <-> In x (pool_ids p) /\ ~ In x ids.
Proof.
  unfold pool_ids. rewrite remove_list_entries, !in_map_iff. split.
  - intros (e & E & H). apply filter_In in H. destruct H as [H1 H2]. apply negb_true_iff, memz_false in H2.
    subst. split; [exists e; auto|exact H2].
  - intros [(e & E & H) N]. exists e. split; [exact E|]. apply filter_In. split; [exact H|].
    apply negb_true_iff, memz_false. subst. exact N.
Qed.

Lemma remove_list_In p ids e : In e (p_entries (remove_list p ids)) <-> In e (p_entries p) /\ ~ In (e_id e) ids.
Proof. rewrite remove_list_entries, filter_In, negb_true_iff, memz_false. tauto. Qed.

(* ------------------------------------------------------------------------------------------ *)
(* addNewTransaction *)

Lemma add_entry_ok p e : pool_ok p -> ~ In (e_id e) (pool_ids p) -> NoDup (t_ins (e_tx e)) -> t_vin (e_tx e) <> [] ->
  (forall o, In o (t_ins (e_tx e)) -> next_find (p_next p) o = None) ->
  pool_ok (add_entry p e).
Proof.
  intros K Fresh Nd Ne Free.
  assert (forall o, In o (t_ins (e_tx e)) -> ~ In o (map fst (p_next p))) as Free'.
  { intros o Ho. apply next_find_None. auto. }
  constructor; simpl.
  - unfold pool_ids. simpl. rewrite map_app. simpl. apply NoDup_snoc; [exact (ok_ids p K)|exact Fresh].
  - intros o i. rewrite (fold_insert_In (e_id e) (t_ins (e_tx e)) (p_next p) Nd Free'). rewrite (ok_next p K).
    unfold spends. simpl. split.
    + intros [(x & Hx & Ex & Ox)|(o' & Ho' & E)].
      * exists x. rewrite in_app_iff. auto.
      * inversion E; subst. exists e. rewrite in_app_iff. simpl. auto.
    + intros (x & Hx & Ex & Ox). apply in_app_iff in Hx. destruct Hx as [Hx|[<-|[]]].
      * left. exists x. auto.
      * right. exists o. subst. auto.
  - apply fold_insert_keys. exact (ok_keys p K).
  - intros x Hx. apply in_app_iff in Hx. destruct Hx as [Hx|[<-|[]]]; [apply (ok_ins p K); exact Hx|auto].
  - rewrite (ok_size p K), wrapu64_add, map_app, zsum_app. simpl. f_equal. lia.
  - rewrite (ok_fee p K), wrap64_add, map_app, zsum_app. simpl. f_equal. lia.
Qed.

Lemma add_entry_entries p e : p_entries (add_entry p e) = p_entries p ++ [e].
Proof. reflexivity. Qed.
