(* Proofs about the coin selection model (C40): the selection checker, the brute-force reference and
   the transcription of SelectCoinsBnB. *)
From Coq Require Import Permutation.
From BV Require Import lib.Ints gen.Params_gen model.CoinSel.
Local Open Scope Z_scope.

(* ------------------------------------------------------------------------------------------- *)
(* Sub-lists: s uses elements of l, each position at most once, in pool order *)
Inductive Sub {A} : list A -> list A -> Prop :=
| Sub_nil : Sub [] []
| Sub_take x s l : Sub s l -> Sub (x :: s) (x :: l)
| Sub_skip x s l : Sub s l -> Sub s (x :: l).

Lemma Sub_nil_l {A} (l : list A) : Sub [] l.
Proof. induction l; constructor; auto. Qed.

Lemma Sub_refl {A} (l : list A) : Sub l l.
Proof. induction l; constructor; auto. Qed.

Lemma Sub_In {A} (s l : list A) x : Sub s l -> In x s -> In x l.
Proof. induction 1 as [|y s l H IH|y s l H IH]; simpl; intros Hin; auto. destruct Hin; auto. Qed.

Lemma Sub_map {A B} (f : A -> B) s l : Sub s l -> Sub (map f s) (map f l).
Proof. induction 1; simpl; constructor; auto. Qed.

Lemma Sub_NoDup {A} (s l : list A) : Sub s l -> NoDup l -> NoDup s.
Proof.
  induction 1 as [|y s l H IH|y s l H IH]; intros Hnd; auto.
  - inversion Hnd as [|? ? Hni Hnd']; subst. constructor; auto. intro Hin. apply Hni. eapply Sub_In; eauto.
  - inversion Hnd; subst; auto.
Qed.

(* a sub-list is a sub-multiset: the pool splits into the selection and a remainder *)
Lemma Sub_perm {A} (s l : list A) : Sub s l -> exists rest, Permutation l (s ++ rest).
Proof.
  induction 1 as [|y s l H [rest IH]|y s l H [rest IH]].
  - exists []. constructor.
  - exists rest. simpl. constructor. exact IH.
  - exists (y :: rest). eapply perm_trans. 2: apply Permutation_middle. constructor. exact IH.
Qed.

Lemma Sub_filter {A} (f : A -> bool) s l : Sub s (filter f l) -> Sub s l /\ Forall (fun x => f x = true) s.
Proof.
  revert s. induction l as [|x l IH]; simpl; intros s H.
  - inversion H; subst. split; constructor.
  - destruct (f x) eqn:Hf.
    + inversion H as [|y s' l' H'|y s' l' H']; subst.
      * destruct (IH _ H') as [H1 H2]. split; constructor; auto.
      * destruct (IH _ H') as [H1 H2]. split; auto. constructor; auto.
    + destruct (IH _ H) as [H1 H2]. split; auto. constructor; auto.
Qed.

Lemma Sub_into_filter {A} (f : A -> bool) s l : Sub s l -> Forall (fun x => f x = true) s -> Sub s (filter f l).
Proof.
  induction 1 as [|y s l H IH|y s l H IH]; simpl; intros Hall.
  - constructor.
  - inversion Hall as [|? ? Hy Hs]; subst. rewrite Hy. constructor; auto.
  - destruct (f y); [constructor|]; auto.
Qed.

(* ------------------------------------------------------------------------------------------- *)
(* pick_at *)
Lemma pick_at_Sub {A} (pool : list A) : forall i sel s, pick_at i pool sel = Some s -> Sub s pool.
Proof.
  induction pool as [|x r IH]; simpl; intros i sel s H.
  - destruct sel; inversion H; subst. constructor.
  - destruct sel as [|j sel'].
    + inversion H; subst. apply Sub_nil_l.
    + destruct (Nat.eqb j i).
      * destruct (pick_at (S i) r sel') as [s'|] eqn:E; simpl in H; inversion H; subst.
        constructor. eapply IH; eauto.
      * destruct (Nat.ltb j i); [discriminate|]. constructor. eapply IH; eauto.
Qed.

Lemma pick_at_ge {A} (pool : list A) : forall i sel s, pick_at i pool sel = Some s -> Forall (fun j => (i <= j)%nat) sel.
Proof.
  induction pool as [|x r IH]; simpl; intros i sel s H.
  - destruct sel; inversion H; subst. constructor.
  - destruct sel as [|j sel']; [constructor|].
    destruct (Nat.eqb j i) eqn:Ej.
    + apply Nat.eqb_eq in Ej. subst j.
      destruct (pick_at (S i) r sel') as [s'|] eqn:E; simpl in H; inversion H; subst.
      constructor; [lia|]. apply IH in E. eapply Forall_impl; [|exact E]. simpl. intros; lia.
    + destruct (Nat.ltb j i) eqn:El; [discriminate|].
      apply IH in H. eapply Forall_impl; [|exact H]. simpl. intros; lia.
Qed.

(* the elements picked are the elements at the listed positions, in order *)
Lemma pick_at_nth {A} (pool : list A) : forall i sel s, pick_at i pool sel = Some s ->
  map Some s = map (fun j => nth_error pool (j - i)) sel.
Proof.
  induction pool as [|x r IH]; simpl; intros i sel s H.
  - destruct sel; inversion H; subst. reflexivity.
  - destruct sel as [|j sel'].
    + inversion H; subst. reflexivity.
    + destruct (Nat.eqb j i) eqn:Ej.
      * apply Nat.eqb_eq in Ej. subst j.
        destruct (pick_at (S i) r sel') as [s'|] eqn:E; simpl in H; inversion H; subst.
        simpl. rewrite Nat.sub_diag. simpl. f_equal.
        rewrite (IH _ _ _ E). apply map_ext_in. intros j Hj.
        apply pick_at_ge in E. rewrite Forall_forall in E. specialize (E _ Hj).
        replace (j - i)%nat with (S (j - S i)) by lia. reflexivity.
      * destruct (Nat.ltb j i) eqn:El; [discriminate|].
        apply Nat.eqb_neq in Ej. apply Nat.ltb_ge in El.
        rewrite (IH _ _ _ H). pose proof (pick_at_ge _ _ _ _ H) as Hge. rewrite Forall_forall in Hge.
        apply map_ext_in. intros k Hk. specialize (Hge _ Hk).
        replace (k - i)%nat with (S (k - S i)) by lia. reflexivity.
Qed.

(* positions strictly increasing *)
Inductive asc : nat -> list nat -> Prop :=
| asc_nil b : asc b []
| asc_cons b i l : (b <= i)%nat -> asc (S i) l -> asc b (i :: l).

Lemma asc_weaken b b' l : asc b l -> (b' <= b)%nat -> asc b' l.
Proof. intros H Hb. inversion H; subst; constructor; auto; lia. Qed.

Lemma pick_at_asc {A} (pool : list A) : forall i sel s, pick_at i pool sel = Some s -> asc i sel.
Proof.
  induction pool as [|x r IH]; simpl; intros i sel s H.
  - destruct sel; inversion H; subst. constructor.
  - destruct sel as [|j sel']; [constructor|].
    destruct (Nat.eqb j i) eqn:Ej.
    + apply Nat.eqb_eq in Ej. subst j.
      destruct (pick_at (S i) r sel') as [s'|] eqn:E; simpl in H; inversion H; subst.
      constructor; [lia|]. eapply IH; eauto.
    + destruct (Nat.ltb j i) eqn:El; [discriminate|].
      apply Nat.eqb_neq in Ej. apply Nat.ltb_ge in El.
      eapply asc_weaken; [eapply IH; eauto|lia].
Qed.

Lemma asc_NoDup b l : asc b l -> NoDup l /\ Forall (fun j => (b <= j)%nat) l.
Proof.
  induction 1 as [|b i l Hb H [IH1 IH2]].
  - split; constructor.
  - split.
    + constructor; auto. intro Hin. rewrite Forall_forall in IH2. specialize (IH2 _ Hin). lia.
    + constructor; auto. eapply Forall_impl; [|exact IH2]. simpl; intros; lia.
Qed.

Lemma pick_at_map {A B} (f : A -> B) (pool : list A) : forall i sel,
  pick_at i (map f pool) sel = option_map (map f) (pick_at i pool sel).
Proof.
  induction pool as [|x r IH]; simpl; intros i sel.
  - destruct sel; reflexivity.
  - destruct sel as [|j sel']; [reflexivity|].
    destruct (Nat.eqb j i).
    + rewrite IH. destruct (pick_at (S i) r sel'); reflexivity.
    + destruct (Nat.ltb j i); [reflexivity|]. apply IH.
Qed.

(* ------------------------------------------------------------------------------------------- *)
(* The checker is sound *)

(* the amount bound each algorithm promises, as a proposition *)
Definition amount_spec (a : algo) (P : sparams) (pool s : list group) : Prop :=
  let x := sel_amount P s in
  match a with
  | ABnB => p_target P <= x <= p_target P + p_coc P
  | ACG => p_target P + p_change_target P <= x
  | ASRD => p_target P + CS_CHANGE_LOWER + p_change_fee P <= x
  | AKnap => p_target P <= x /\
             (x = p_target P \/ p_target P + p_change_target P <= x \/
              (knap_has_larger P pool = false /\ knap_total_lower P pool < p_target P + p_change_target P))
  end.

Lemma amount_ok_spec a P pool s : amount_ok a P pool s = true -> amount_spec a P pool s.
Proof.
  unfold amount_ok, amount_spec. destruct a; simpl; intros H.
  - lia.
  - lia.
  - lia.
  - apply andb_prop in H. destruct H as [H1 H2]. split; [lia|].
    apply orb_prop in H2. destruct H2 as [H2|H2].
    + apply orb_prop in H2. destruct H2 as [H2|H2]; [left|right; left]; lia.
    + right; right. apply andb_prop in H2. destruct H2 as [H2 H3].
      split; [destruct (knap_has_larger P pool); simpl in H2; congruence | lia].
Qed.

(* what C40's first sentence says about one reported result *)
Definition Selection_valid (a : algo) (P : sparams) (pool : list group) (r : sresult) : Prop :=
  exists s,
    pick_at 0 pool (r_sel r) = Some s /\
    Sub s pool /\                                                   (* only coins of the pool, each at most once *)
    NoDup (r_sel r) /\
    Forall (fun g => is_offered a (p_sffo P) g = true) s /\         (* only groups the algorithm was offered *)
    r_value r = sum_by g_value s /\ r_eff r = sum_by g_eff s /\ r_weight r = sel_weight s /\
    amount_spec a P pool s /\                                       (* covers the target (BnB: inside the window) *)
    sel_weight s <= p_maxw P /\                                     (* within the maximum selection weight *)
    r_waste r = waste_of P s.                                       (* reported waste is the waste formula *)

Lemma valid_selection_sound a P pool r : valid_selection a P pool r = true -> Selection_valid a P pool r.
Proof.
  unfold valid_selection, Selection_valid. destruct (pick_at 0 pool (r_sel r)) as [s|] eqn:E; [|discriminate].
  intros H.
  apply andb_prop in H. destruct H as [H Hwaste].
  apply andb_prop in H. destruct H as [H Hamt].
  apply andb_prop in H. destruct H as [H Hmaxw].
  apply andb_prop in H. destruct H as [H Hw].
  apply andb_prop in H. destruct H as [H Heff].
  apply andb_prop in H. destruct H as [Hoff Hval].
  exists s. split; [reflexivity|]. split; [eapply pick_at_Sub; eauto|].
  split; [apply pick_at_asc in E; apply asc_NoDup in E; tauto|].
  split; [apply Forall_forall; apply forallb_forall; exact Hoff|].
  repeat split; try lia. apply amount_ok_spec; auto.
Qed.

(* ------------------------------------------------------------------------------------------- *)
(* The brute-force reference *)
Lemma subsets_spec {A} (l : list A) : forall s, In s (subsets l) <-> Sub s l.
Proof.
  induction l as [|x r IH]; simpl; intros s.
  - split.
    + intros [H|[]]. subst. constructor.
    + intros H. inversion H; subst. auto.
  - rewrite in_app_iff, in_map_iff. split.
    + intros [[t [Ht Hin]]|Hin].
      * subst. constructor. apply IH; auto.
      * constructor. apply IH; auto.
    + intros H. inversion H as [|y s' l' H'|y s' l' H']; subst.
      * left. exists s'. split; auto. apply IH; auto.
      * right. apply IH; auto.
Qed.

Lemma exists_sub_spec {A} (ok : list A -> bool) pool :
  exists_sub ok pool = true <-> exists s, Sub s pool /\ ok s = true.
Proof.
  unfold exists_sub. rewrite existsb_exists. split; intros [s [H1 H2]]; exists s; split; auto; apply subsets_spec; auto.
Qed.

Lemma min_list_spec {A} (obj : list A -> Z) (ok : list A -> bool) (L : list (list A)) :
  match min_list obj ok L with
  | None => forall s, In s L -> ok s = false
  | Some m => (exists s, In s L /\ ok s = true /\ obj s = m) /\ (forall s, In s L -> ok s = true -> m <= obj s)
  end.
Proof.
  induction L as [|t L IH]; simpl.
  - intros s [].
  - destruct (ok t) eqn:Hok.
    + destruct (min_list obj ok L) as [m|]; simpl.
      * destruct IH as [[s [Hs1 [Hs2 Hs3]]] IH2]. split.
        -- destruct (Z.min_spec m (obj t)) as [[Hlt Hmin]|[Hge Hmin]].
           ++ exists s. rewrite Hmin. auto.
           ++ exists t. rewrite Hmin. auto.
        -- intros u [Hu|Hu] Hoku; [subst u; lia|]. specialize (IH2 _ Hu Hoku). lia.
      * split.
        -- exists t. auto.
        -- intros u [Hu|Hu] Hoku; [subst u; lia|]. specialize (IH _ Hu). congruence.
    + destruct (min_list obj ok L) as [m|].
      * destruct IH as [[s [Hs1 Hs2]] IH2]. split.
        -- exists s. auto.
        -- intros u [Hu|Hu] Hoku; [subst u; congruence|]. auto.
      * intros u [Hu|Hu]; [subst u; auto|auto].
Qed.

Lemma min_over_none {A} (obj : list A -> Z) ok pool :
  min_over obj ok pool = None -> forall s, Sub s pool -> ok s = false.
Proof.
  unfold min_over. intros H s Hs. pose proof (min_list_spec obj ok (subsets pool)) as F.
  rewrite H in F. apply F. apply subsets_spec; auto.
Qed.

Lemma min_over_some {A} (obj : list A -> Z) ok pool m :
  min_over obj ok pool = Some m ->
  (exists s, Sub s pool /\ ok s = true /\ obj s = m) /\ (forall s, Sub s pool -> ok s = true -> m <= obj s).
Proof.
  unfold min_over. intros H. pose proof (min_list_spec obj ok (subsets pool)) as F.
  rewrite H in F. destruct F as [[s [Hs1 Hs2]] F2]. split.
  - exists s. split; auto. apply subsets_spec; auto.
  - intros u Hu. apply F2. apply subsets_spec; auto.
Qed.

(* admissibility as propositions *)
Definition Bnb_adm (P : sparams) (s : list group) : Prop :=
  p_target P <= sel_amount P s <= p_target P + p_coc P /\ sel_weight s <= p_maxw P.
Definition Nonredundant (P : sparams) (s : list group) : Prop :=
  forall g, In g s -> sel_amount P s - amt (p_sffo P) g < p_target P.
Definition Cg_adm (P : sparams) (s : list group) : Prop :=
  p_target P + p_change_target P <= sel_amount P s /\ sel_weight s <= p_maxw P.
Definition Srd_adm (P : sparams) (s : list group) : Prop :=
  p_target P + CS_CHANGE_LOWER + p_change_fee P <= sel_amount P s /\ sel_weight s <= p_maxw P.

Lemma bnb_adm_iff P s : bnb_adm P s = true <-> Bnb_adm P s.
Proof. unfold bnb_adm, Bnb_adm. split; intros H; lia. Qed.
Lemma cg_adm_iff P s : cg_adm P s = true <-> Cg_adm P s.
Proof. unfold cg_adm, Cg_adm. split; intros H; lia. Qed.
Lemma srd_adm_iff P s : srd_adm P s = true <-> Srd_adm P s.
Proof. unfold srd_adm, Srd_adm. split; intros H; lia. Qed.
Lemma nonredundant_iff P s : nonredundant P s = true <-> Nonredundant P s.
Proof.
  unfold nonredundant, Nonredundant. rewrite forallb_forall. split; intros H g Hg; specialize (H g Hg); lia.
Qed.

(* a sub-list of the pool that uses only offered groups is a sub-list of the offered groups *)
Lemma Sub_offered a sffo pool t :
  Sub t pool -> Forall (fun g => is_offered a sffo g = true) t -> Sub t (offered_groups a sffo pool).
Proof. apply Sub_into_filter. Qed.

(* "complete search" check: no admissible sub-list of the offered groups has a strictly better objective *)
Lemma optimal_check_bnb_sound P pool r : optimal_check ABnB P pool r = true ->
  exists s, pick_at 0 pool (r_sel r) = Some s /\
    forall t, Sub t pool -> Forall (fun g => 0 < amt (p_sffo P) g) t ->
              Bnb_adm P t -> Nonredundant P t -> bnb_waste P s <= bnb_waste P t.
Proof.
  unfold optimal_check. destruct (pick_at 0 pool (r_sel r)) as [s|]; [|discriminate].
  intros H. exists s. split; auto. intros t Ht Hpos Hadm Hnr.
  assert (Hsub : Sub t (offered_groups ABnB (p_sffo P) pool)).
  { apply Sub_offered; auto. eapply Forall_impl; [|exact Hpos]. simpl. intros; lia. }
  assert (Hok : bnb_adm P t && nonredundant P t = true).
  { apply andb_true_intro. split; [apply bnb_adm_iff|apply nonredundant_iff]; auto. }
  destruct (min_over _ _ _) as [m|] eqn:E.
  - apply min_over_some in E. destruct E as [_ E]. specialize (E _ Hsub Hok). lia.
  - eapply min_over_none in E; eauto. simpl in E. congruence.
Qed.

Lemma optimal_check_cg_sound P pool r : optimal_check ACG P pool r = true ->
  exists s, pick_at 0 pool (r_sel r) = Some s /\
    forall t, Sub t pool -> Forall (fun g => 0 < amt (p_sffo P) g) t -> Cg_adm P t -> sel_weight s <= sel_weight t.
Proof.
  unfold optimal_check. destruct (pick_at 0 pool (r_sel r)) as [s|]; [|discriminate].
  intros H. exists s. split; auto. intros t Ht Hpos Hadm.
  assert (Hsub : Sub t (offered_groups ACG (p_sffo P) pool)).
  { apply Sub_offered; auto. eapply Forall_impl; [|exact Hpos]. simpl. intros; lia. }
  assert (Hok : cg_adm P t = true) by (apply cg_adm_iff; auto).
  destruct (min_over _ _ _) as [m|] eqn:E.
  - apply min_over_some in E. destruct E as [_ E]. specialize (E _ Hsub Hok). lia.
  - eapply min_over_none in E; eauto. congruence.
Qed.

(* "no result" check: then no admissible sub-list of the offered groups exists *)
Lemma none_check_bnb_sound P pool : none_check ABnB P pool = true ->
  forall t, Sub t pool -> Forall (fun g => 0 < amt (p_sffo P) g) t -> ~ Bnb_adm P t.
Proof.
  unfold none_check. intros H t Ht Hpos Hadm.
  apply negb_true_iff in H.
  assert (E : exists_sub (bnb_adm P) (offered_groups ABnB (p_sffo P) pool) = true).
  { apply exists_sub_spec. exists t. split; [|apply bnb_adm_iff; auto].
    apply Sub_offered; auto. eapply Forall_impl; [|exact Hpos]. simpl. intros; lia. }
  congruence.
Qed.

Lemma none_check_cg_sound P pool : none_check ACG P pool = true ->
  forall t, Sub t pool -> Forall (fun g => 0 < amt (p_sffo P) g) t -> ~ Cg_adm P t.
Proof.
  unfold none_check. intros H t Ht Hpos Hadm.
  apply negb_true_iff in H.
  assert (E : exists_sub (cg_adm P) (offered_groups ACG (p_sffo P) pool) = true).
  { apply exists_sub_spec. exists t. split; [|apply cg_adm_iff; auto].
    apply Sub_offered; auto. eapply Forall_impl; [|exact Hpos]. simpl. intros; lia. }
  congruence.
Qed.

Lemma none_check_srd_sound P pool : none_check ASRD P pool = true ->
  ~ Srd_adm P (offered_groups ASRD (p_sffo P) pool).
Proof.
  unfold none_check. intros H Hadm. apply negb_true_iff in H. apply srd_adm_iff in Hadm. congruence.
Qed.

(* ------------------------------------------------------------------------------------------- *)
(* The transcription of SelectCoinsBnB returns only valid selections *)
Lemma zsum_rev l : zsum (rev l) = zsum l.
Proof. induction l as [|x l IH]; simpl; auto. rewrite zsum_app. simpl. lia. Qed.

Section BnBProofs.
Variable pool : list group.
Variable sffo : bool.
Variable la : list Z.
Variables target coc maxw : Z.
Variable high : bool.

Definition gat (f : group -> Z) (i : nat) : Z := match nth_error pool i with Some g => f g | None => 0 end.
Definition sumi (f : group -> Z) (l : list nat) : Z := zsum (map (gat f) l).

(* strictly decreasing stack of positions below a bound *)
Inductive desc : nat -> list nat -> Prop :=
| desc_nil b : desc b []
| desc_cons b i l : (i < b)%nat -> desc i l -> desc b (i :: l).

Lemma desc_weaken b b' l : desc b l -> (b <= b')%nat -> desc b' l.
Proof. intros H Hb. inversion H; subst; constructor; auto; lia. Qed.

Definition best_ok (best : list nat) (bw : Z) : Prop :=
  best = [] \/
  (desc (length pool) best /\
   target <= sumi (amt sffo) best <= target + coc /\
   sumi g_weight best <= maxw /\
   bw = sumi gwaste best + (sumi (amt sffo) best - target)).

Definition inv (st : bst) : Prop :=
  desc (b_next st) (b_cs st) /\ (b_next st <= length pool)%nat /\
  b_amt st = sumi (amt sffo) (b_cs st) /\ b_w st = sumi g_weight (b_cs st) /\
  b_waste st = sumi gwaste (b_cs st) /\
  best_ok (b_best st) (b_bestw st).

Lemma sumi_cons f i l u : nth_error pool i = Some u -> sumi f (i :: l) = f u + sumi f l.
Proof. intros H. unfold sumi. simpl. unfold gat at 1. rewrite H. reflexivity. Qed.

Lemma deselect_last_inv st st1 : inv st -> deselect_last pool sffo st = Some st1 ->
  inv st1 /\ b_try st1 = b_try st /\ b_next st1 = b_next st /\
  exists i, b_cs st = i :: b_cs st1 /\ desc i (b_cs st1).
Proof.
  unfold deselect_last, inv. intros [Hd [Hn [Ha [Hw [Hwa Hb]]]]] H.
  destruct (b_cs st) as [|i rest] eqn:Ecs; [discriminate|].
  destruct (nth_error pool i) as [u|] eqn:Eu; [|discriminate].
  inversion H; subst st1; clear H. simpl.
  inversion Hd as [|? ? ? Hi Hd']; subst.
  rewrite (sumi_cons _ _ _ _ Eu) in Ha. rewrite (sumi_cons _ _ _ _ Eu) in Hw. rewrite (sumi_cons _ _ _ _ Eu) in Hwa.
  split; [|split; [reflexivity|split; [reflexivity|exists i; split; auto]]].
  split; [eapply desc_weaken; eauto; lia|]. split; [auto|].
  split; [lia|]. split; [lia|]. split; [lia|]. exact Hb.
Qed.

Lemma skip_clones_bounds : forall fuel n n' again,
  skip_clones pool sffo fuel n = Some (n', again) -> (n <= n')%nat /\ (n' < length pool)%nat.
Proof.
  induction fuel as [|f IH]; simpl; intros n n' again H; [discriminate|].
  destruct n as [|pn]; [discriminate|].
  destruct (nth_error pool pn) as [a|] eqn:Ea; [|discriminate].
  destruct (nth_error pool (S pn)) as [b|] eqn:Eb; [|discriminate].
  assert (Hlt : (S pn < length pool)%nat) by (apply nth_error_Some; congruence).
  destruct (amt sffo a =? amt sffo b).
  - destruct (Nat.leb (length pool - 1) (S pn)).
    + inversion H; subst. split; auto.
    + apply IH in H. lia.
  - inversion H; subst. split; auto.
Qed.

Lemma set_next_inv st n : (n <= length pool)%nat -> desc n (b_cs st) -> inv st -> inv (set_next st n).
Proof. unfold inv, set_next. simpl. intros Hn Hd [_ [_ H]]. split; auto. Qed.

Lemma shift_loop_inv : forall fuel st st' done,
  inv st -> shift_loop pool sffo fuel st = Some (st', done) -> inv st' /\ b_try st' = b_try st.
Proof.
  induction fuel as [|f IH]; intros st st' done Hinv H; [discriminate|].
  cbn [shift_loop] in H.
  destruct (b_cs st) as [|i rest] eqn:Ecs.
  - inversion H; subst. auto.
  - destruct (deselect_last pool sffo st) as [st1|] eqn:Ed; [|discriminate].
    destruct (deselect_last_inv _ _ Hinv Ed) as [Hinv1 [Htry1 [Hnext1 [i' [Hcs Hdesc]]]]].
    rewrite Ecs in Hcs. inversion Hcs; subst i'. clear Hcs.
    destruct (skip_clones pool sffo (S (length pool)) (S i)) as [[nxt again]|] eqn:Es; [|discriminate].
    apply skip_clones_bounds in Es. destruct Es as [Hge Hlt].
    assert (Hinv2 : inv (set_next st1 nxt)).
    { apply set_next_inv; auto; [lia|]. eapply desc_weaken; eauto. lia. }
    destruct again.
    + apply IH in H; auto. destruct H as [Hi1 Hi2]. split; auto. rewrite Hi2. simpl. auto.
    + inversion H; subst. split; auto.
Qed.

Lemma bnb_eval_best_ok st cs' amt' w' waste' lah cut shift mwe' best' bestw' :
  best_ok (b_best st) (b_bestw st) ->
  desc (length pool) cs' -> amt' = sumi (amt sffo) cs' -> w' = sumi g_weight cs' -> waste' = sumi gwaste cs' ->
  bnb_eval target coc maxw high st cs' amt' w' waste' lah = (cut, shift, mwe', best', bestw') ->
  best_ok best' bestw'.
Proof.
  intros Hb Hd Ha Hw Hwa. unfold bnb_eval.
  destruct (amt' + lah <? target) eqn:E1; [intros H; inversion H; subst; auto|].
  destruct (maxw <? w') eqn:E2; [intros H; inversion H; subst; auto|].
  destruct (target + coc <? amt') eqn:E3; [intros H; inversion H; subst; auto|].
  destruct (high && (b_bestw st <? waste')) eqn:E4; [intros H; inversion H; subst; auto|].
  destruct (target <=? amt') eqn:E5; [|intros H; inversion H; subst; auto].
  destruct (waste' + (amt' - target) <=? b_bestw st) eqn:E6; intros H; inversion H; subst; auto.
  right. split; auto. repeat split; lia.
Qed.

Lemma bnb_iter_inv st : inv st ->
  match bnb_iter pool sffo la target coc maxw high st with
  | ItCont st' => inv st' /\ b_try st' = b_try st + 1 /\ b_try st' < TOTAL_TRIES
  | ItStop st' _ => inv st'
  | ItErr => True
  | ItFuel => False
  end.
Proof.
  intros Hinv. unfold bnb_iter.
  destruct (nth_error pool (b_next st)) as [u|] eqn:Eu; [|exact I].
  destruct (nth_error la (b_next st)) as [lah|] eqn:El; [|exact I].
  assert (Hlt : (b_next st < length pool)%nat) by (apply nth_error_Some; congruence).
  destruct Hinv as [Hd [Hn [Ha [Hw [Hwa Hb]]]]].
  destruct (bnb_eval target coc maxw high st (b_next st :: b_cs st) (b_amt st + amt sffo u)
              (b_w st + g_weight u) (b_waste st + gwaste u) lah) as [[[[cut shift] mwe'] best'] bestw'] eqn:Ee.
  assert (Hsum : forall f, sumi f (b_next st :: b_cs st) = f u + sumi f (b_cs st)).
  { intros f. apply sumi_cons; auto. }
  assert (Hd1 : desc (S (b_next st)) (b_next st :: b_cs st)) by (constructor; auto).
  assert (Hb' : best_ok best' bestw').
  { eapply bnb_eval_best_ok; [exact Hb| | | | |exact Ee].
    - eapply desc_weaken; eauto.
    - rewrite Hsum; lia.
    - rewrite Hsum; lia.
    - rewrite Hsum; lia. }
  set (st1 := mkB (b_next st :: b_cs st) (b_amt st + amt sffo u) (b_w st + g_weight u) (b_waste st + gwaste u)
                  best' bestw' (S (b_next st)) (b_try st + 1) mwe').
  assert (Hinv1 : inv st1).
  { unfold inv, st1. simpl. split; auto. split; [lia|]. rewrite !Hsum. repeat split; try lia. exact Hb'. }
  destruct (TOTAL_TRIES <=? b_try st + 1) eqn:Et; [exact Hinv1|].
  assert (Htry : b_try st1 = b_try st + 1) by reflexivity.
  destruct (cut || Nat.eqb (S (b_next st)) (length pool)) eqn:Ecut.
  - destruct (deselect_last pool sffo st1) as [st2|] eqn:Ed; [|exact I].
    destruct (deselect_last_inv _ _ Hinv1 Ed) as [Hinv2 [Htry2 _]].
    cbn [orb].
    destruct (shift_loop pool sffo (S (length pool)) st2) as [[st3 done]|] eqn:Es; [|exact I].
    destruct (shift_loop_inv _ _ _ _ Hinv2 Es) as [Hinv3 Htry3].
    destruct done; [exact Hinv3|]. split; auto. split; lia.
  - cbn [orb]. destruct shift.
    + destruct (shift_loop pool sffo (S (length pool)) st1) as [[st3 done]|] eqn:Es; [|exact I].
      destruct (shift_loop_inv _ _ _ _ Hinv1 Es) as [Hinv3 Htry3].
      destruct done; [exact Hinv3|]. split; auto. split; lia.
    + split; auto. split; lia.
Qed.

Lemma bnb_loop_inv : forall fuel st st' c,
  inv st -> bnb_loop pool sffo la target coc maxw high fuel st = ItStop st' c -> inv st'.
Proof.
  induction fuel as [|f IH]; simpl; intros st st' c Hinv H; [discriminate|].
  pose proof (bnb_iter_inv st Hinv) as Hit.
  destruct (bnb_iter pool sffo la target coc maxw high st) as [| |st1|st1 c1]; try discriminate.
  - destruct Hit as [Hinv1 _]. eapply IH; eauto.
  - inversion H; subst. exact Hit.
Qed.

(* sufficient fuel: each iteration increments curr_try and the loop stops at TOTAL_TRIES *)
Lemma bnb_loop_fuel : forall fuel st,
  inv st -> b_try st < TOTAL_TRIES -> TOTAL_TRIES - b_try st <= Z.of_nat fuel ->
  bnb_loop pool sffo la target coc maxw high fuel st <> ItFuel.
Proof.
  induction fuel as [|f IH]; intros st Hinv Hlt Hfuel; [exfalso; change (Z.of_nat 0) with 0 in Hfuel; lia|].
  cbn [bnb_loop].
  pose proof (bnb_iter_inv st Hinv) as Hit.
  destruct (bnb_iter pool sffo la target coc maxw high st) as [| |st1|st1 c1]; try discriminate; [destruct Hit|].
  destruct Hit as [Hinv1 [Htry Hlt1]]. apply IH; auto. lia.
Qed.

Lemma sum_by_nth (f : group -> Z) : forall (s : list group) l,
  map Some s = map (nth_error pool) l -> sum_by f s = sumi f l.
Proof.
  induction s as [|g s IH]; intros l H; destruct l as [|i l]; simpl in H; try discriminate.
  - reflexivity.
  - inversion H as [[H1 H2]]. unfold sum_by, sumi in *. simpl. unfold gat at 1. rewrite <- H1.
    f_equal. apply IH. exact H2.
Qed.

Lemma sumi_rev f l : sumi f (rev l) = sumi f l.
Proof. unfold sumi. rewrite map_rev. apply zsum_rev. Qed.
End BnBProofs.

Lemma bnb_core_valid sffo pool target coc maxw sel s w c t :
  bnb_core sffo pool target coc maxw = BnbSome sel s w c t ->
  pick_at 0 pool sel = Some s /\
  target <= sum_by (amt sffo) s <= target + coc /\
  sum_by g_weight s <= maxw /\
  w = sum_by gwaste s + (sum_by (amt sffo) s - target).
Proof.
  unfold bnb_core. destruct (lookahead (map (amt sffo) pool)) as [la total].
  destruct (total <? target); [discriminate|].
  destruct pool as [|g0 pool'] eqn:Epool; [discriminate|]. rewrite <- Epool. clear Epool.
  set (init := mkB [] 0 0 0 [] MAX_MONEY 0%nat 0 false).
  assert (Hinit : inv pool sffo target coc maxw init).
  { unfold inv, init, sumi. simpl. split; [constructor|]. split; [lia|]. repeat split; auto. left; auto. }
  destruct (bnb_loop pool sffo la target coc maxw (g_ltf g0 <? g_fee g0) (Z.to_nat TOTAL_TRIES) init)
    as [| |st1|st1 c1] eqn:El; try discriminate.
  apply bnb_loop_inv in El; auto.
  destruct El as [_ [_ [_ [_ [_ Hb]]]]].
  destruct (b_best st1) as [|b0 best] eqn:Eb; [discriminate|].
  destruct (pick_at 0 pool (rev (b0 :: best))) as [s0|] eqn:Ep; [|discriminate].
  intros H. inversion H; subst. clear H.
  destruct Hb as [Hb|[Hd [Hwin [Hwt Hwaste]]]]; [discriminate|].
  pose proof (pick_at_nth _ _ _ _ Ep) as Hn.
  assert (Hn' : map Some s = map (nth_error pool) (rev (b0 :: best))).
  { rewrite Hn. apply map_ext. intros j. rewrite Nat.sub_0_r. reflexivity. }
  assert (Hs : forall f, sum_by f s = sumi pool f (b0 :: best)).
  { intros f. rewrite (sum_by_nth pool f _ _ Hn'). apply sumi_rev. }
  split; auto. rewrite !Hs. repeat split; lia.
Qed.

(* the model's fuel is sufficient: bnb_core never stops for lack of fuel *)
Lemma bnb_core_fuel_sufficient sffo pool la target coc maxw high :
  bnb_loop pool sffo la target coc maxw high (Z.to_nat TOTAL_TRIES) (mkB [] 0 0 0 [] MAX_MONEY 0%nat 0 false) <> ItFuel.
Proof.
  apply bnb_loop_fuel.
  - unfold inv, sumi. simpl. split; [constructor|]. split; [lia|]. repeat split; auto. left; auto.
  - cbn [b_try]. unfold TOTAL_TRIES. lia.
  - cbn [b_try]. rewrite Z2Nat.id; unfold TOTAL_TRIES; lia.
Qed.

(* ------------------------------------------------------------------------------------------- *)
(* SelectCoinsBnB on the pool as given: the sort is a permutation, positions refer to the given pool *)
Lemma insert_by_perm {A} (lt : A -> A -> bool) x l : Permutation (insert_by lt x l) (x :: l).
Proof.
  induction l as [|y r IH]; simpl; auto.
  destruct (lt x y); auto. eapply perm_trans; [apply perm_skip; exact IH|apply perm_swap].
Qed.

Lemma sort_by_perm_aux {A} (lt : A -> A -> bool) : forall l acc,
  Permutation (fold_left (fun acc x => insert_by lt x acc) l acc) (l ++ acc).
Proof.
  induction l as [|x l IH]; simpl; intros acc; auto.
  eapply perm_trans; [apply IH|]. eapply perm_trans; [apply Permutation_app_head; apply insert_by_perm|].
  apply Permutation_sym. apply Permutation_middle.
Qed.

Lemma sort_by_perm {A} (lt : A -> A -> bool) l : Permutation (sort_by lt l) l.
Proof. unfold sort_by. eapply perm_trans; [apply sort_by_perm_aux|]. rewrite app_nil_r. auto. Qed.

Lemma tag_fst : forall (l : list group) k, map fst (combine (seq k (length l)) l) = seq k (length l).
Proof. induction l as [|x l IH]; simpl; intros k; auto. f_equal. apply IH. Qed.

Lemma tag_In : forall (l : list group) k i g,
  In (i, g) (combine (seq k (length l)) l) -> (k <= i)%nat /\ nth_error l (i - k) = Some g.
Proof.
  induction l as [|x l IH]; simpl; intros k i g H; [contradiction|].
  destruct H as [H|H].
  - inversion H; subst. rewrite Nat.sub_diag. split; auto.
  - apply IH in H. destruct H as [H1 H2]. split; [lia|].
    replace (i - k)%nat with (S (i - S k)) by lia. exact H2.
Qed.

Lemma filter_Sub {A} (f : A -> bool) l : Sub (filter f l) l.
Proof. induction l as [|x l IH]; simpl; [constructor|]. destruct (f x); constructor; auto. Qed.

Lemma select_coins_bnb_valid sffo pool target coc maxw sel s w c t orig :
  select_coins_bnb sffo pool target coc maxw = (BnbSome sel s w c t, orig) ->
  NoDup orig /\
  Forall2 (fun i g => nth_error pool i = Some g) orig s /\
  Forall (fun g => 0 < amt sffo g) s /\
  target <= sum_by (amt sffo) s <= target + coc /\
  sum_by g_weight s <= maxw /\
  w = sum_by gwaste s + (sum_by (amt sffo) s - target).
Proof.
  unfold select_coins_bnb.
  set (cand := filter (fun p : nat * group => 0 <? amt sffo (snd p)) (tag_pool pool)).
  set (tagged := sort_by (fun a b : nat * group => descending sffo (snd a) (snd b)) cand).
  destruct (bnb_core sffo (map snd tagged) target coc maxw) as [|we|sel0 s0 w0 c0 t0] eqn:Ec;
    try (intros H; inversion H; fail).
  destruct (pick_at 0 tagged sel0) as [ps|] eqn:Eps; [|intros H; inversion H].
  intros H. inversion H; subst. clear H.
  apply bnb_core_valid in Ec. destruct Ec as [Hp [Hwin [Hwt Hwaste]]].
  rewrite pick_at_map, Eps in Hp. simpl in Hp. inversion Hp; subst s. clear Hp.
  assert (Hperm : Permutation tagged cand) by apply sort_by_perm.
  assert (Hsub : Sub ps tagged) by (eapply pick_at_Sub; eauto).
  assert (Hall : Forall (fun p => nth_error pool (fst p) = Some (snd p) /\ 0 < amt sffo (snd p)) ps).
  { apply Forall_forall. intros [i g] Hin.
    assert (Hc : In (i, g) cand). { eapply Permutation_in; [exact Hperm|]. eapply Sub_In; eauto. }
    unfold cand in Hc. apply filter_In in Hc. destruct Hc as [Hc1 Hc2]. simpl in *.
    unfold tag_pool in Hc1. apply tag_In in Hc1. destruct Hc1 as [_ Hc1]. rewrite Nat.sub_0_r in Hc1.
    split; auto. lia. }
  split; [|split; [|split]].
  - eapply Sub_NoDup; [apply Sub_map; exact Hsub|].
    eapply Permutation_NoDup; [apply Permutation_sym; apply Permutation_map; exact Hperm|].
    eapply Sub_NoDup; [apply Sub_map; apply filter_Sub|].
    unfold tag_pool. rewrite tag_fst. apply seq_NoDup.
  - clear -Hall. induction Hall as [|p ps [Hp _] _ IH]; simpl; constructor; auto.
  - clear -Hall. induction Hall as [|p ps [_ Hp] _ IH]; simpl; constructor; auto.
  - auto.
Qed.

(* ------------------------------------------------------------------------------------------- *)
(* The transcription of CoinGrinder returns only valid selections *)
Section CGProofs.
Variable pool : list group.
Variable sffo : bool.
Variable la mtw : list Z.
Variables total_target maxw : Z.

Definition cg_best_ok (best : list nat) (bw : Z) : Prop :=
  bw <= maxw /\
  (best = [] \/
   (desc (length pool) best /\ total_target <= sumi pool (amt sffo) best /\ sumi pool g_weight best = bw)).

Definition cinv (st : bst) : Prop :=
  desc (b_next st) (b_cs st) /\ (b_next st <= length pool)%nat /\
  b_amt st = sumi pool (amt sffo) (b_cs st) /\ b_w st = sumi pool g_weight (b_cs st) /\
  cg_best_ok (b_best st) (b_bestw st).

Lemma cg_deselect_last_inv st st1 : cinv st -> deselect_last pool sffo st = Some st1 ->
  cinv st1 /\ b_try st1 = b_try st /\ b_next st1 = b_next st /\
  exists i, b_cs st = i :: b_cs st1 /\ desc i (b_cs st1).
Proof.
  unfold deselect_last, cinv. intros [Hd [Hn [Ha [Hw Hb]]]] H.
  destruct (b_cs st) as [|i rest] eqn:Ecs; [discriminate|].
  destruct (nth_error pool i) as [u|] eqn:Eu; [|discriminate].
  inversion H; subst st1; clear H. simpl.
  inversion Hd as [|? ? ? Hi Hd']; subst.
  rewrite (sumi_cons _ _ _ _ _ Eu) in Ha. rewrite (sumi_cons _ _ _ _ _ Eu) in Hw.
  split; [|split; [reflexivity|split; [reflexivity|exists i; split; auto]]].
  split; [eapply desc_weaken; eauto; lia|]. split; [auto|].
  split; [lia|]. split; [lia|]. exact Hb.
Qed.

Lemma cg_set_next_inv st n : (n <= length pool)%nat -> desc n (b_cs st) -> cinv st -> cinv (set_next st n).
Proof. unfold cinv, set_next. simpl. intros Hn Hd [_ [_ H]]. split; auto. Qed.

Lemma cg_shift_loop_inv : forall fuel st st' done,
  cinv st -> shift_loop pool sffo fuel st = Some (st', done) -> cinv st' /\ b_try st' = b_try st.
Proof.
  induction fuel as [|f IH]; intros st st' done Hinv H; [discriminate|].
  cbn [shift_loop] in H.
  destruct (b_cs st) as [|i rest] eqn:Ecs.
  - inversion H; subst. auto.
  - destruct (deselect_last pool sffo st) as [st1|] eqn:Ed; [|discriminate].
    destruct (cg_deselect_last_inv _ _ Hinv Ed) as [Hinv1 [Htry1 [Hnext1 [i' [Hcs Hdesc]]]]].
    rewrite Ecs in Hcs. inversion Hcs; subst i'. clear Hcs.
    destruct (skip_clones pool sffo (S (length pool)) (S i)) as [[nxt again]|] eqn:Es; [|discriminate].
    apply skip_clones_bounds in Es. destruct Es as [Hge Hlt].
    assert (Hinv2 : cinv (set_next st1 nxt)).
    { apply cg_set_next_inv; auto; [lia|]. eapply desc_weaken; eauto. lia. }
    destruct again.
    + apply IH in H; auto. destruct H as [Hi1 Hi2]. split; auto. rewrite Hi2. simpl. auto.
    + inversion H; subst. split; auto.
Qed.

Lemma cg_eval_best_ok st bamt cs' amt' w' lah u mt cut shift mwe' best' bestw' bamt' :
  cg_best_ok (b_best st) (b_bestw st) ->
  desc (length pool) cs' -> amt' = sumi pool (amt sffo) cs' -> w' = sumi pool g_weight cs' ->
  cg_eval sffo total_target maxw st bamt cs' amt' w' lah u mt = (cut, shift, mwe', best', bestw', bamt') ->
  cg_best_ok best' bestw'.
Proof.
  intros Hb Hd Ha Hw. unfold cg_eval.
  destruct (amt' + lah <? total_target) eqn:E1; [intros H; inversion H; subst; auto|].
  destruct (b_bestw st <? w') eqn:E2; [intros H; inversion H; subst; auto|].
  destruct (total_target <=? amt') eqn:E3.
  - destruct ((w' <? b_bestw st) || ((w' =? b_bestw st) && (amt' <? bamt))) eqn:E4; intros H; inversion H; subst; auto.
    destruct Hb as [Hb1 _]. split; [lia|]. right. split; auto. split; [lia|reflexivity].
  - destruct (negb _ && _); intros H; inversion H; subst; auto.
Qed.

Lemma cg_iter_inv st bamt : cinv st ->
  match cg_iter pool sffo la mtw total_target maxw st bamt with
  | CgCont st' _ => cinv st' /\ b_try st' = b_try st + 1 /\ b_try st' < TOTAL_TRIES
  | CgStop st' _ _ => cinv st'
  | CgErr => True
  | CgFuel => False
  end.
Proof.
  intros Hinv. unfold cg_iter.
  destruct (nth_error pool (b_next st)) as [u|] eqn:Eu; [|exact I].
  destruct (nth_error la (b_next st)) as [lah|] eqn:El; [|exact I].
  destruct (nth_error mtw (b_next st)) as [mt|] eqn:Em; [|exact I].
  assert (Hlt : (b_next st < length pool)%nat) by (apply nth_error_Some; congruence).
  destruct Hinv as [Hd [Hn [Ha [Hw Hb]]]].
  destruct (cg_eval sffo total_target maxw st bamt (b_next st :: b_cs st) (b_amt st + amt sffo u)
              (b_w st + g_weight u) lah u mt) as [[[[[cut shift] mwe'] best'] bestw'] bamt'] eqn:Ee.
  assert (Hsum : forall f, sumi pool f (b_next st :: b_cs st) = f u + sumi pool f (b_cs st)).
  { intros f. apply sumi_cons; auto. }
  assert (Hd1 : desc (S (b_next st)) (b_next st :: b_cs st)) by (constructor; auto).
  assert (Hb' : cg_best_ok best' bestw').
  { eapply cg_eval_best_ok; [exact Hb| | | |exact Ee].
    - eapply desc_weaken; eauto.
    - rewrite Hsum; lia.
    - rewrite Hsum; lia. }
  set (st1 := mkB (b_next st :: b_cs st) (b_amt st + amt sffo u) (b_w st + g_weight u) (b_waste st + gwaste u)
                  best' bestw' (S (b_next st)) (b_try st + 1) mwe').
  assert (Hinv1 : cinv st1).
  { unfold cinv, st1. simpl. split; auto. split; [lia|]. rewrite !Hsum. repeat split; try lia; apply Hb'. }
  destruct (TOTAL_TRIES <=? b_try st + 1) eqn:Et; [exact Hinv1|].
  destruct (cut || Nat.eqb (S (b_next st)) (length pool)) eqn:Ecut.
  - destruct (deselect_last pool sffo st1) as [st2|] eqn:Ed; [|exact I].
    destruct (cg_deselect_last_inv _ _ Hinv1 Ed) as [Hinv2 [Htry2 _]].
    cbn [orb].
    destruct (shift_loop pool sffo (S (length pool)) st2) as [[st3 done]|] eqn:Es; [|exact I].
    destruct (cg_shift_loop_inv _ _ _ _ Hinv2 Es) as [Hinv3 Htry3].
    destruct done; [exact Hinv3|]. split; auto. change (b_try st1) with (b_try st + 1) in Htry2. split; lia.
  - cbn [orb]. destruct shift.
    + destruct (shift_loop pool sffo (S (length pool)) st1) as [[st3 done]|] eqn:Es; [|exact I].
      destruct (cg_shift_loop_inv _ _ _ _ Hinv1 Es) as [Hinv3 Htry3].
      destruct done; [exact Hinv3|]. split; auto. change (b_try st1) with (b_try st + 1) in Htry3. split; lia.
    + split; auto. change (b_try st1) with (b_try st + 1). split; lia.
Qed.

Lemma cg_loop_inv : forall fuel st bamt st' bamt' c,
  cinv st -> cg_loop pool sffo la mtw total_target maxw fuel st bamt = CgStop st' bamt' c -> cinv st'.
Proof.
  induction fuel as [|f IH]; simpl; intros st bamt st' bamt' c Hinv H; [discriminate|].
  pose proof (cg_iter_inv st bamt Hinv) as Hit.
  destruct (cg_iter pool sffo la mtw total_target maxw st bamt) as [| |st1 b1|st1 b1 c1]; try discriminate.
  - destruct Hit as [Hinv1 _]. eapply IH; eauto.
  - inversion H; subst. exact Hit.
Qed.

Lemma cg_loop_fuel : forall fuel st bamt,
  cinv st -> b_try st < TOTAL_TRIES -> TOTAL_TRIES - b_try st <= Z.of_nat fuel ->
  cg_loop pool sffo la mtw total_target maxw fuel st bamt <> CgFuel.
Proof.
  induction fuel as [|f IH]; intros st bamt Hinv Hlt Hfuel; [exfalso; change (Z.of_nat 0) with 0 in Hfuel; lia|].
  cbn [cg_loop].
  pose proof (cg_iter_inv st bamt Hinv) as Hit.
  destruct (cg_iter pool sffo la mtw total_target maxw st bamt) as [| |st1 b1|st1 b1 c1]; try discriminate; [destruct Hit|].
  destruct Hit as [Hinv1 [Htry Hlt1]]. apply IH; auto. lia.
Qed.
End CGProofs.

Lemma cg_core_valid sffo pool target change_target maxw sel s w c t :
  cg_core sffo pool target change_target maxw = BnbSome sel s w c t ->
  pick_at 0 pool sel = Some s /\
  target + change_target <= sum_by (amt sffo) s /\
  sum_by g_weight s <= maxw /\
  w = sum_by g_weight s.
Proof.
  unfold cg_core. destruct (lookahead (map (amt sffo) pool)) as [la total].
  destruct (min_tail (map g_weight pool)) as [mtw mm].
  destruct (total <? target + change_target); [discriminate|].
  set (init := mkB [] 0 0 0 [] maxw 0%nat 0 false).
  assert (Hinit : cinv pool sffo (target + change_target) maxw init).
  { unfold cinv, cg_best_ok, init, sumi. simpl. split; [constructor|]. split; [lia|]. repeat split; auto; lia. }
  destruct (cg_loop pool sffo la mtw (target + change_target) maxw (Z.to_nat TOTAL_TRIES) init MAX_MONEY)
    as [| |st1 b1|st1 b1 c1] eqn:El; try discriminate.
  apply cg_loop_inv in El; auto.
  destruct El as [_ [_ [_ [_ Hb]]]].
  destruct (b_best st1) as [|b0 best] eqn:Eb; [discriminate|].
  destruct (pick_at 0 pool (rev (b0 :: best))) as [s0|] eqn:Ep; [|discriminate].
  intros H. inversion H; subst. clear H.
  destruct Hb as [Hmax [Hb|[Hd [Hamt Hwt]]]]; [discriminate|].
  pose proof (pick_at_nth _ _ _ _ Ep) as Hn.
  assert (Hn' : map Some s = map (nth_error pool) (rev (b0 :: best))).
  { rewrite Hn. apply map_ext. intros j. rewrite Nat.sub_0_r. reflexivity. }
  assert (Hs : forall f, sum_by f s = sumi pool f (b0 :: best)).
  { intros f. rewrite (sum_by_nth pool f _ _ Hn'). apply sumi_rev. }
  split; auto. rewrite !Hs. repeat split; lia.
Qed.

Lemma cg_core_fuel_sufficient sffo pool la mtw total_target maxw :
  cg_loop pool sffo la mtw total_target maxw (Z.to_nat TOTAL_TRIES) (mkB [] 0 0 0 [] maxw 0%nat 0 false) MAX_MONEY <> CgFuel.
Proof.
  apply cg_loop_fuel.
  - unfold cinv, cg_best_ok, sumi. simpl. split; [constructor|]. split; [lia|]. repeat split; auto; lia.
  - cbn [b_try]. unfold TOTAL_TRIES. lia.
  - cbn [b_try]. rewrite Z2Nat.id; unfold TOTAL_TRIES; lia.
Qed.

Lemma coin_grinder_valid sffo pool target change_target maxw sel s w c t orig :
  coin_grinder sffo pool target change_target maxw = (BnbSome sel s w c t, orig) ->
  NoDup orig /\
  Forall2 (fun i g => nth_error pool i = Some g) orig s /\
  Forall (fun g => 0 < amt sffo g) s /\
  target + change_target <= sum_by (amt sffo) s /\
  sum_by g_weight s <= maxw /\
  w = sum_by g_weight s.
Proof.
  unfold coin_grinder.
  set (cand := filter (fun p : nat * group => 0 <? amt sffo (snd p)) (tag_pool pool)).
  set (tagged := sort_by (fun a b : nat * group => descending_effval_weight sffo (snd a) (snd b)) cand).
  destruct (cg_core sffo (map snd tagged) target change_target maxw) as [|we|sel0 s0 w0 c0 t0] eqn:Ec;
    try (intros H; inversion H; fail).
  destruct (pick_at 0 tagged sel0) as [ps|] eqn:Eps; [|intros H; inversion H].
  intros H. inversion H; subst. clear H.
  apply cg_core_valid in Ec. destruct Ec as [Hp [Hamt [Hwt Hw]]].
  rewrite pick_at_map, Eps in Hp. simpl in Hp. inversion Hp; subst s. clear Hp.
  assert (Hperm : Permutation tagged cand) by apply sort_by_perm.
  assert (Hsub : Sub ps tagged) by (eapply pick_at_Sub; eauto).
  assert (Hall : Forall (fun p => nth_error pool (fst p) = Some (snd p) /\ 0 < amt sffo (snd p)) ps).
  { apply Forall_forall. intros [i g] Hin.
    assert (Hc : In (i, g) cand). { eapply Permutation_in; [exact Hperm|]. eapply Sub_In; eauto. }
    unfold cand in Hc. apply filter_In in Hc. destruct Hc as [Hc1 Hc2]. simpl in *.
    unfold tag_pool in Hc1. apply tag_In in Hc1. destruct Hc1 as [_ Hc1]. rewrite Nat.sub_0_r in Hc1.
    split; auto. lia. }
  split; [|split; [|split]].
  - eapply Sub_NoDup; [apply Sub_map; exact Hsub|].
    eapply Permutation_NoDup; [apply Permutation_sym; apply Permutation_map; exact Hperm|].
    eapply Sub_NoDup; [apply Sub_map; apply filter_Sub|].
    unfold tag_pool. rewrite tag_fst. apply seq_NoDup.
  - clear -Hall. induction Hall as [|p ps [Hp _] _ IH]; simpl; constructor; auto.
  - clear -Hall. induction Hall as [|p ps [_ Hp] _ IH]; simpl; constructor; auto.
  - auto.
Qed.
