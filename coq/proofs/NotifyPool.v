(* C63 -- pool (list-as-set) lemmas, removeUnchecked runs and how the subscriber follows them. *)
From BV Require Import lib.Ints model.Notify.
Local Open Scope Z_scope.

Lemma memb_In t p : memb t p = true <-> In t p.
Proof.
  unfold memb. rewrite existsb_exists. split.
  - intros [x [Hx He]]. apply Z.eqb_eq in He. subst. exact Hx.
  - intros H. exists t. split; [exact H | apply Z.eqb_refl].
Qed.

Lemma memb_false t p : memb t p = false <-> ~ In t p.
Proof.
  rewrite <- memb_In. destruct (memb t p); split; intros H.
  - discriminate.
  - exfalso; apply H; reflexivity.
  - intro; discriminate.
  - reflexivity.
Qed.

Lemma rem1_In x t p : In x (rem1 t p) <-> In x p /\ x <> t.
Proof.
  unfold rem1. rewrite filter_In. split; intros [H1 H2]; split; auto.
  - intro E. subst. rewrite Z.eqb_refl in H2. discriminate.
  - apply negb_true_iff. apply Z.eqb_neq. exact H2.
Qed.

Lemma rem_all_filter l : forall p, rem_all l p = filter (fun x => negb (memb x l)) p.
Proof.
  induction l as [|t l IH]; intros p; simpl.
  - symmetry. induction p as [|a p IHp]; simpl; [reflexivity | f_equal; exact IHp].
  - rewrite IH. unfold rem1. induction p as [|a p IHp]; simpl; [reflexivity|].
    destruct (a =? t) eqn:E; simpl.
    + exact IHp.
    + destruct (negb (memb a l)); simpl; [f_equal|]; exact IHp.
Qed.

Lemma rem_all_In x l p : In x (rem_all l p) <-> In x p /\ ~ In x l.
Proof.
  rewrite rem_all_filter, filter_In. rewrite negb_true_iff, memb_false. tauto.
Qed.

Lemma filter_ext_In {A} (f g : A -> bool) l : (forall x, In x l -> f x = g x) -> filter f l = filter g l.
Proof.
  induction l as [|a l IH]; intros H; simpl; [reflexivity|].
  rewrite (H a (or_introl eq_refl)). rewrite IH; [reflexivity|]. intros x Hx. apply H. right; exact Hx.
Qed.

Lemma filter_filter' {A} (f g : A -> bool) l : filter f (filter g l) = filter (fun x => g x && f x) l.
Proof.
  induction l as [|a l IH]; simpl; [reflexivity|].
  destruct (g a); simpl; [destruct (f a); simpl; [f_equal|]; exact IH | exact IH].
Qed.

(* two removals from the same list agree when they remove the same members *)
Lemma rem_all_ext a b p : (forall x, In x p -> (In x a <-> In x b)) -> rem_all a p = rem_all b p.
Proof.
  intros H. rewrite !rem_all_filter. apply filter_ext_In. intros x Hx.
  destruct (memb x a) eqn:Ea, (memb x b) eqn:Eb; try reflexivity.
  - apply memb_In in Ea. apply memb_false in Eb. exfalso. apply Eb. apply (H x Hx). exact Ea.
  - apply memb_In in Eb. apply memb_false in Ea. exfalso. apply Ea. apply (H x Hx). exact Eb.
Qed.

Lemma rem_all_rem_all a b p : rem_all a (rem_all b p) = rem_all (b ++ a) p.
Proof.
  rewrite !rem_all_filter, filter_filter'. apply filter_ext_In. intros x _.
  unfold memb. rewrite existsb_app. rewrite negb_orb. reflexivity.
Qed.

Lemma rem_all_app a b p : rem_all (a ++ b) p = rem_all b (rem_all a p).
Proof. symmetry. apply rem_all_rem_all. Qed.

Lemma rem1_rem_all t p : rem1 t p = rem_all [t] p.
Proof. reflexivity. Qed.

Lemma rem_all_cons_notin l t p : ~ In t l -> rem_all l (t :: p) = t :: rem_all l p.
Proof. intros H. rewrite !rem_all_filter. simpl. apply memb_false in H. rewrite H. reflexivity. Qed.

Lemma rem_all_cons_in l t p : In t l -> rem_all l (t :: p) = rem_all l p.
Proof. intros H. rewrite !rem_all_filter. simpl. apply memb_In in H. rewrite H. reflexivity. Qed.

Lemma rem_all_id l p : (forall x, In x p -> ~ In x l) -> rem_all l p = p.
Proof.
  intros H. rewrite rem_all_filter. induction p as [|a p IH]; simpl; [reflexivity|].
  assert (Ha : memb a l = false) by (apply memb_false; apply H; left; reflexivity).
  rewrite Ha. simpl. f_equal. apply IH. intros x Hx. apply H. right; exact Hx.
Qed.

(* ---- removeUnchecked runs ---- *)

Definition rem_events (l : list (txid * reason)) : list event :=
  flat_map (fun x => if is_block_reason (snd x) then [] else [EvRem (fst x) (snd x)]) l.

Definition nonblock (l : list (txid * reason)) : list txid :=
  map fst (filter (fun x => negb (is_block_reason (snd x))) l).

Lemma apply_rems_spec : forall l p p' ev,
  apply_rems p l = Some (p', ev) ->
  p' = rem_all (map fst l) p /\ ev = rem_events l /\ NoDup (map fst l) /\ (forall t, In t (map fst l) -> In t p).
Proof.
  induction l as [|[t r] l IH]; intros p p' ev H; simpl in H.
  - inversion H; subst. repeat split; try constructor. intros t [].
  - destruct (memb t p) eqn:Em; [|discriminate].
    destruct (apply_rems (rem1 t p) l) as [[p1 e1]|] eqn:E; [|discriminate].
    inversion H; subst. destruct (IH _ _ _ E) as (Hp & He & Hn & Hi).
    repeat split.
    + simpl. exact Hp.
    + simpl. rewrite He. reflexivity.
    + simpl. constructor; [|exact Hn]. intro Hin. apply Hi in Hin. apply rem1_In in Hin. destruct Hin as [_ Hne]. apply Hne. reflexivity.
    + intros x [Hx|Hx]; [subst; apply memb_In; exact Em|]. apply Hi in Hx. apply rem1_In in Hx. tauto.
Qed.

Lemma block_removed_nonblock_split l x :
  In x (map fst l) <-> In x (block_removed l) \/ In x (nonblock l).
Proof.
  unfold block_removed, nonblock. induction l as [|[t r] l IH]; simpl; [tauto|].
  destruct (is_block_reason r); simpl; rewrite IH; tauto.
Qed.

Lemma block_removed_NoDup l : NoDup (map fst l) -> NoDup (block_removed l).
Proof.
  unfold block_removed. induction l as [|[t r] l IH]; simpl; intros H; [constructor|].
  apply NoDup_cons_iff in H. destruct H as [Hnin Hnd]. destruct (is_block_reason r); simpl; [constructor|]; auto.
  intro Hin. apply Hnin. apply in_map_iff in Hin. destruct Hin as [[t' r'] [Ht Hf]]. apply filter_In in Hf. simpl in Ht. subst.
  apply in_map_iff. exists (t, r'). split; [reflexivity | tauto].
Qed.

Lemma block_removed_disjoint l x : NoDup (map fst l) -> In x (block_removed l) -> In x (nonblock l) -> False.
Proof.
  unfold block_removed, nonblock. induction l as [|[t r] l IH]; simpl; intros H H1 H2; [exact H1|].
  apply NoDup_cons_iff in H. destruct H as [Hnin Hnd].
  assert (Hsub1 : forall y, In y (map fst (filter (fun x0 => is_block_reason (snd x0)) l)) -> In y (map fst l)).
  { intros y Hy. apply in_map_iff in Hy. destruct Hy as [[a b] [Ha Hb]]. apply filter_In in Hb. apply in_map_iff. exists (a, b). tauto. }
  assert (Hsub2 : forall y, In y (map fst (filter (fun x0 => negb (is_block_reason (snd x0))) l)) -> In y (map fst l)).
  { intros y Hy. apply in_map_iff in Hy. destruct Hy as [[a b] [Ha Hb]]. apply filter_In in Hb. apply in_map_iff. exists (a, b). tauto. }
  destruct (is_block_reason r); simpl in *.
  - destruct H1 as [H1|H1]; [subst; apply Hnin; apply Hsub2; exact H2 | eapply IH; eauto].
  - destruct H2 as [H2|H2]; [subst; apply Hnin; apply Hsub1; exact H1 | eapply IH; eauto].
Qed.

Lemma nodupb_NoDup l : nodupb l = true <-> NoDup l.
Proof.
  induction l as [|a l IH]; simpl.
  - split; [constructor | reflexivity].
  - rewrite andb_true_iff, negb_true_iff, memb_false, IH. split.
    + intros [H1 H2]. constructor; assumption.
    + intros H. apply NoDup_cons_iff in H. tauto.
Qed.

(* ---- the subscriber follows a removeUnchecked run ---- *)

Definition mk_ss chain pool pend low : sstate := {| ss_chain := chain; ss_pool := pool; ss_pend := pend; ss_low := low |}.

Lemma sub_run_app tol : forall a b s, sub_run tol s (a ++ b) = match sub_run tol s a with Some s' => sub_run tol s' b | None => None end.
Proof.
  induction a as [|e a IH]; intros b s; simpl; [reflexivity|].
  destruct (sub_step tol s e); [apply IH | reflexivity].
Qed.

(* `extra`: members of the node's pool that the subscriber does not hold (the transaction being accepted, whose
   notification is sent only after LimitMempoolSize).  Their removal is tolerated (tol) or does not happen. *)
Lemma sub_follows_rems tol : forall l p p' ev chain sp pend low extra,
  apply_rems p l = Some (p', ev) ->
  (forall x, In x p -> In x sp \/ In x extra) ->
  (forall x, In x extra -> ~ In x sp) ->
  ((tol = true /\ forall x, In x l -> is_limit_reason (snd x) = true) \/ (forall x, In x extra -> ~ In x (map fst l))) ->
  sub_run tol (mk_ss chain sp pend low) ev = Some (mk_ss chain (rem_all (nonblock l) sp) pend low).
Proof.
  induction l as [|[t r] l IH]; intros p p' ev chain sp pend low extra H Hsub Hex Htol; simpl in H.
  - inversion H; subst. reflexivity.
  - destruct (memb t p) eqn:Em; [|discriminate].
    destruct (apply_rems (rem1 t p) l) as [[p1 e1]|] eqn:E; [|discriminate].
    inversion H; subst. clear H.
    assert (Hsub' : forall x, In x (rem1 t p) -> In x (rem1 t sp) \/ In x extra).
    { intros x Hx. apply rem1_In in Hx. destruct Hx as [Hx Hne]. destruct (Hsub x Hx) as [H1|H1]; [left; apply rem1_In; tauto | right; exact H1]. }
    assert (Hex' : forall x, In x extra -> ~ In x (rem1 t sp)).
    { intros x Hx Hin. apply rem1_In in Hin. apply (Hex x Hx). tauto. }
    assert (Htol' : (tol = true /\ forall x, In x l -> is_limit_reason (snd x) = true) \/ (forall x, In x extra -> ~ In x (map fst l))).
    { destruct Htol as [[Ht Hl]|Hn]; [left; split; [exact Ht|]; intros x Hx; apply Hl; right; exact Hx | right; intros x Hx Hin; apply (Hn x Hx); right; exact Hin]. }
    destruct (is_block_reason r) eqn:Er; simpl.
    + (* silent removal: the subscriber's pool keeps t *)
      unfold nonblock. simpl. rewrite Er. simpl.
      apply IH with (p := rem1 t p) (p' := p') (extra := extra); auto.
      intros x Hx. apply rem1_In in Hx. destruct Hx as [Hx _]. exact (Hsub x Hx).
    + unfold nonblock. simpl. rewrite Er. simpl. fold (nonblock l).
      destruct (memb t sp) eqn:Es.
      * change (sub_run tol (mk_ss chain (rem1 t sp) pend low) e1 = Some (mk_ss chain (rem_all (nonblock l) (rem1 t sp)) pend low)).
        apply IH with (p := rem1 t p) (p' := p') (extra := extra); auto.
      * (* t is one of the extra members *)
        apply memb_In in Em. apply memb_false in Es.
        destruct (Hsub t Em) as [Hc|Hc]; [contradiction|].
        destruct Htol as [[Ht Hl]|Hn].
        -- rewrite Ht. pose proof (Hl (t, r) (or_introl eq_refl)) as Hlr. simpl in Hlr. rewrite Hlr. simpl.
           assert (Erem : rem1 t sp = sp).
           { rewrite rem1_rem_all. apply rem_all_id. intros x Hx [Hy|[]]. subst. contradiction. }
           rewrite Erem.
           change (sub_run true (mk_ss chain sp pend low) e1 = Some (mk_ss chain (rem_all (nonblock l) sp) pend low)).
           rewrite <- Ht.
           apply IH with (p := rem1 t p) (p' := p') (extra := extra); auto.
           intros x Hx. apply rem1_In in Hx. destruct Hx as [Hx _]. exact (Hsub x Hx).
        -- exfalso. apply (Hn t Hc). left. reflexivity.
Qed.
