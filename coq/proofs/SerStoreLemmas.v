(* Proofs about model/SerStore.v: the obfuscation layer of the block files. *)
From Coq Require Import NArith.
From BV Require Import lib.Ints gen.Params_gen model.SerBase model.SerTx model.SerStore proofs.SerBaseLemmas.
Local Open Scope Z_scope.

(* ---- XOR of little-endian numbers is XOR of their bytes ---- *)
Fixpoint zipx (a b : list N) : list N :=
  match a, b with x :: a', y :: b' => N.lxor x y :: zipx a' b' | _, _ => [] end.

Lemma zipx_length a : forall b, length a = length b -> length (zipx a b) = length a.
Proof. induction a as [|x a IH]; intros [|y b] L; cbn in *; try lia. rewrite IH; lia. Qed.

Lemma of_N_lxor x y : Z.of_N (N.lxor x y) = Z.lxor (Z.of_N x) (Z.of_N y).
Proof. destruct x, y; reflexivity. Qed.

Lemma lxor_small x y : 0 <= x < 256 -> 0 <= y < 256 -> 0 <= Z.lxor x y < 256.
Proof.
  intros Hx Hy. split; [apply Z.lxor_nonneg; lia|].
  destruct (Z.eq_dec (Z.lxor x y) 0) as [E|E]; [lia|].
  assert (0 < Z.lxor x y) by (pose proof (proj2 (Z.lxor_nonneg x y) ltac:(lia)); lia).
  change 256 with (2 ^ 8). apply Z.log2_lt_pow2; [lia|].
  eapply Z.le_lt_trans; [apply Z.log2_lxor; lia|].
  apply Z.max_lub_lt.
  - destruct (Z.eq_dec x 0) as [->|?]; [cbn; lia|]. apply Z.log2_lt_pow2; [lia|]. change (2 ^ 8) with 256. lia.
  - destruct (Z.eq_dec y 0) as [->|?]; [cbn; lia|]. apply Z.log2_lt_pow2; [lia|]. change (2 ^ 8) with 256. lia.
Qed.

Lemma lxor_byte_lt x y : (x < 256)%N -> (y < 256)%N -> (N.lxor x y < 256)%N.
Proof.
  intros Hx Hy. pose proof (lxor_small (Z.of_N x) (Z.of_N y) ltac:(lia) ltac:(lia)) as H.
  rewrite <- of_N_lxor in H. lia.
Qed.

Lemma zipx_ok a : forall b, bytes_ok a -> bytes_ok b -> bytes_ok (zipx a b).
Proof.
  induction a as [|x a IH]; intros [|y b] Ha Hb; cbn; try constructor.
  - inversion Ha; inversion Hb; subst. apply lxor_byte_lt; assumption.
  - inversion Ha; inversion Hb; subst. apply IH; assumption.
Qed.

Lemma lxor_split x y p q : 0 <= x < 256 -> 0 <= y < 256 -> 0 <= p -> 0 <= q ->
  Z.lxor (x + 256 * p) (y + 256 * q) = Z.lxor x y + 256 * Z.lxor p q.
Proof.
  intros Hx Hy Hp Hq.
  assert (Ex : forall a b, 0 <= a < 256 -> a + 256 * b = Z.lor (Z.shiftl b 8) a).
  { intros a b Ha. rewrite lor_shiftl_small by (change (2 ^ 8) with 256; lia). change (2 ^ 8) with 256. lia. }
  assert (Hxy : 0 <= Z.lxor x y < 256) by (apply lxor_small; lia).
  rewrite (Ex x p Hx), (Ex y q Hy), (Ex (Z.lxor x y) (Z.lxor p q) Hxy).
  apply Z.bits_inj'. intros n Hn.
  rewrite !Z.lxor_spec, !Z.lor_spec, !Z.lxor_spec.
  destruct (Z_lt_le_dec n 8) as [Hlt|Hge].
  - rewrite !Z.shiftl_spec_low by lia. reflexivity.
  - rewrite !Z.shiftl_spec by lia. rewrite Z.lxor_spec.
    assert (Bx : Z.testbit x n = false).
    { destruct (Z.eq_dec x 0) as [->|?]; [apply Z.bits_0|]. apply Z.bits_above_log2; [lia|].
      assert (Z.log2 x < 8) by (apply Z.log2_lt_pow2; change (2 ^ 8) with 256; lia). lia. }
    assert (By : Z.testbit y n = false).
    { destruct (Z.eq_dec y 0) as [->|?]; [apply Z.bits_0|]. apply Z.bits_above_log2; [lia|].
      assert (Z.log2 y < 8) by (apply Z.log2_lt_pow2; change (2 ^ 8) with 256; lia). lia. }
    rewrite Bx, By. cbn. rewrite !orb_false_r. reflexivity.
Qed.

Lemma le_value_nonneg l : 0 <= le_value l.
Proof. induction l as [|b r IH]; cbn [le_value]; lia. Qed.

Lemma le_value_zipx a : forall b, bytes_ok a -> bytes_ok b -> length a = length b ->
  le_value (zipx a b) = Z.lxor (le_value a) (le_value b).
Proof.
  induction a as [|x a IH]; intros [|y b] Ha Hb L; cbn in L; try lia; [reflexivity|].
  inversion Ha; inversion Hb; subst. cbn [zipx le_value].
  rewrite IH by (try assumption; lia). rewrite of_N_lxor.
  rewrite lxor_split; try lia; apply le_value_nonneg.
Qed.

Lemma le_value_app a b : le_value (a ++ b) = le_value a + 2 ^ (8 * Z.of_nat (length a)) * le_value b.
Proof.
  induction a as [|x a IH].
  { cbn [app le_value length]. change (8 * Z.of_nat 0) with 0. change (2 ^ 0) with 1. lia. }
  cbn [app le_value length]. rewrite IH.
  replace (8 * Z.of_nat (S (length a))) with (8 + 8 * Z.of_nat (length a)) by lia.
  rewrite Z.pow_add_r by lia. change (2 ^ 8) with 256. ring.
Qed.

Lemma le_value_zeros n : le_value (repeat 0%N n) = 0.
Proof. induction n as [|n IH]; [reflexivity|]. cbn [repeat le_value]. rewrite IH. reflexivity. Qed.

Lemma zipx_app a1 a2 b1 b2 : length a1 = length b1 -> zipx (a1 ++ a2) (b1 ++ b2) = zipx a1 b1 ++ zipx a2 b2.
Proof.
  revert b1. induction a1 as [|x a1 IH]; intros [|y b1] L; cbn in L; try lia; [reflexivity|].
  cbn [app zipx]. rewrite IH by lia. reflexivity.
Qed.

Lemma zipx_zero_l n b : length b = n -> zipx (repeat 0%N n) b = b.
Proof. revert b. induction n as [|n IH]; intros [|y b] L; cbn in L; try lia; [reflexivity|]. cbn [repeat zipx]. rewrite IH by lia. reflexivity. Qed.

Lemma firstn_zipx n a b : firstn n (zipx a b) = zipx (firstn n a) (firstn n b).
Proof.
  revert n b. induction a as [|x a IH]; intros n b.
  - cbn [zipx]. rewrite !firstn_nil. reflexivity.
  - destruct b as [|y b].
    + cbn [zipx]. rewrite !firstn_nil. destruct (firstn n (x :: a)); reflexivity.
    + destruct n; [reflexivity|]. cbn [firstn zipx]. rewrite IH. reflexivity.
Qed.

(* XorWord on at most 8 bytes, with the key given by its 8 bytes in memory order *)
Lemma xor_word_bytes t kb : bytes_ok t -> bytes_ok kb -> length kb = 8%nat -> (length t <= 8)%nat ->
  xor_word t (le_value kb) = zipx t (firstn (length t) kb).
Proof.
  intros Ht Hk Lk Lt. destruct t as [|b t']; [reflexivity|].
  set (t := b :: t') in *. unfold xor_word. fold t.
  set (pad := repeat 0%N (8 - length t)).
  assert (Lp : length (t ++ pad) = 8%nat) by (rewrite app_length; unfold pad; rewrite repeat_length; lia).
  assert (Hp : bytes_ok (t ++ pad)).
  { apply bytes_ok_app. split; [exact Ht|]. unfold pad, bytes_ok. apply Forall_forall. intros x Hx. apply repeat_spec in Hx. subst. lia. }
  assert (Ev : le_value t = le_value (t ++ pad)).
  { rewrite le_value_app. unfold pad. rewrite le_value_zeros. lia. }
  rewrite Ev. rewrite <- le_value_zipx by (try assumption; lia).
  assert (Lz : length (zipx (t ++ pad) kb) = 8%nat) by (rewrite zipx_length; lia).
  replace (le_bytes 8 (le_value (zipx (t ++ pad) kb))) with (le_bytes (length (zipx (t ++ pad) kb)) (le_value (zipx (t ++ pad) kb))) by (rewrite Lz; reflexivity).
  rewrite le_bytes_value by (apply zipx_ok; assumption).
  rewrite firstn_zipx. rewrite firstn_app, Nat.sub_diag, firstn_all. cbn [firstn]. rewrite app_nil_r. reflexivity.
Qed.

(* ---- rotations of the key are rotations of its bytes ---- *)
Definition rotl (i : nat) (kb : list N) : list N := skipn i kb ++ firstn i kb.

Lemma rotr64_arith k r : 0 <= k < 2 ^ 64 -> 0 < r < 64 ->
  rotr64 k r = k / 2 ^ r + (k mod 2 ^ r) * 2 ^ (64 - r).
Proof.
  intros Hk Hr. unfold rotr64. assert (E : (r =? 0) = false) by lia. rewrite E.
  rewrite Z.shiftr_div_pow2, Z.shiftl_mul_pow2 by lia. unfold wrapu64, wrapu.
  assert (P1 : 0 < 2 ^ r) by (apply Z.pow_pos_nonneg; lia).
  assert (P2 : 0 < 2 ^ (64 - r)) by (apply Z.pow_pos_nonneg; lia).
  assert (E64 : 2 ^ 64 = 2 ^ r * 2 ^ (64 - r)) by (rewrite <- Z.pow_add_r by lia; f_equal; lia).
  rewrite E64 at 1. rewrite Z.mul_mod_distr_r by lia.
  rewrite Z.lor_comm. rewrite <- Z.shiftl_mul_pow2 by lia.
  rewrite lor_shiftl_small; [rewrite Z.shiftl_mul_pow2 by lia; ring | lia |].
  split; [apply Z.div_pos; lia|]. apply Z.div_lt_upper_bound; [lia|]. rewrite <- E64. lia.
Qed.

Lemma rotation_bytes kb i : bytes_ok kb -> length kb = 8%nat -> (i < 8)%nat ->
  rotation (le_value kb) (Z.of_nat i) = le_value (rotl i kb).
Proof.
  intros Hk Lk Hi. unfold rotation, rotl.
  destruct i as [|i'].
  - cbn [Z.of_nat]. unfold rotr64. cbn [Z.mul Z.eqb]. rewrite skipn_O. cbn [firstn]. rewrite app_nil_r. reflexivity.
  - set (i := S i') in *.
    pose proof (le_value_range kb Hk) as R. rewrite Lk in R. change (2 ^ (8 * Z.of_nat 8)) with (2 ^ 64) in R.
    rewrite rotr64_arith by lia.
    rewrite <- (firstn_skipn i kb) at 1 2. rewrite le_value_app.
    assert (Lf : length (firstn i kb) = i) by (rewrite firstn_length; lia).
    rewrite Lf.
    pose proof (le_value_range (firstn i kb) (bytes_ok_firstn i kb Hk)) as Rf. rewrite Lf in Rf.
    assert (P : 0 < 2 ^ (8 * Z.of_nat i)) by (apply Z.pow_pos_nonneg; lia).
    pose proof (le_value_nonneg (skipn i kb)) as Rs.
    assert (E1 : (le_value (firstn i kb) + 2 ^ (8 * Z.of_nat i) * le_value (skipn i kb)) / 2 ^ (8 * Z.of_nat i) = le_value (skipn i kb)).
    { symmetry. apply Z.div_unique with (r := le_value (firstn i kb)); lia. }
    assert (E2 : (le_value (firstn i kb) + 2 ^ (8 * Z.of_nat i) * le_value (skipn i kb)) mod 2 ^ (8 * Z.of_nat i) = le_value (firstn i kb)).
    { symmetry. apply Z.mod_unique with (q := le_value (skipn i kb)); lia. }
    rewrite E1, E2. rewrite le_value_app. rewrite skipn_length, Lk.
    replace (8 * Z.of_nat (8 - i)) with (64 - 8 * Z.of_nat i) by lia. ring.
Qed.

(* ---- the key stream ---- *)
Lemma nth_skipn_add {A} (d : A) i : forall l j, nth j (skipn i l) d = nth (i + j) l d.
Proof. induction i as [|i IH]; intros l j; [reflexivity|]. destruct l as [|x l]; [destruct j; reflexivity|]. cbn [skipn Nat.add nth]. apply IH. Qed.

Lemma nth_firstn_lt {A} (d : A) i : forall l j, (j < i)%nat -> nth j (firstn i l) d = nth j l d.
Proof.
  induction i as [|i IH]; intros l j H; [lia|]. destruct l as [|x l]; [destruct j; reflexivity|].
  destruct j as [|j]; [reflexivity|]. cbn [firstn nth]. apply IH. lia.
Qed.

Lemma nth_rotl kb i j : length kb = 8%nat -> (i < 8)%nat -> (j < 8)%nat ->
  nth j (rotl i kb) 0%N = nth ((i + j) mod 8) kb 0%N.
Proof.
  intros Lk Hi Hj. unfold rotl.
  destruct (Nat.lt_ge_cases j (8 - i)) as [H|H].
  - rewrite app_nth1 by (rewrite skipn_length; lia). rewrite nth_skipn_add. rewrite Nat.mod_small by lia. reflexivity.
  - rewrite app_nth2 by (rewrite skipn_length; lia). rewrite skipn_length, Lk.
    rewrite nth_firstn_lt by lia.
    replace (i + j)%nat with ((j - (8 - i)) + 1 * 8)%nat by lia. rewrite Nat.mod_add by lia.
    rewrite Nat.mod_small by lia. reflexivity.
Qed.

Lemma xor_stream_length kb t : forall off, length (xor_stream kb off t) = length t.
Proof. induction t as [|b r IH]; intros off; [reflexivity|]. cbn [xor_stream length]. rewrite IH. reflexivity. Qed.

Lemma nth_xor_stream kb t : forall off j, (j < length t)%nat ->
  nth j (xor_stream kb off t) 0%N = N.lxor (nth j t 0%N) (nth (Z.to_nat ((off + Z.of_nat j) mod 8)) kb 0%N).
Proof.
  induction t as [|b r IH]; intros off j H; [cbn in H; lia|].
  destruct j as [|j]; cbn [xor_stream nth].
  - rewrite Z.add_0_r. reflexivity.
  - rewrite IH by (cbn [length] in H; lia). do 3 f_equal. lia.
Qed.

Lemma nth_zipx a : forall b j, (j < length a)%nat -> (j < length b)%nat ->
  nth j (zipx a b) 0%N = N.lxor (nth j a 0%N) (nth j b 0%N).
Proof.
  induction a as [|x a IH]; intros [|y b] j Ha Hb; cbn [length] in *; try lia.
  destruct j as [|j]; [reflexivity|]. cbn [zipx nth]. apply IH; lia.
Qed.

Lemma zipx_length_min a : forall b, length (zipx a b) = Nat.min (length a) (length b).
Proof. induction a as [|x a IH]; intros [|y b]; cbn [zipx length]; try reflexivity. rewrite IH. reflexivity. Qed.

Section Key.
  Variable kb : list N.
  Hypothesis kb_ok : bytes_ok kb.
  Hypothesis kb_len : length kb = 8%nat.
  Let key := to_key kb.

  (* one XorWord with the rotation selected by `off` is the key stream starting at off *)
  Lemma xor_word_stream t off : bytes_ok t -> (length t <= 8)%nat -> 0 <= off ->
    xor_word t (rotation key (off mod 8)) = xor_stream kb off t.
  Proof.
    intros Ht Lt Hoff. unfold key, to_key.
    pose proof (Z.mod_pos_bound off 8 ltac:(lia)) as Hm.
    replace (off mod 8) with (Z.of_nat (Z.to_nat (off mod 8))) at 1 by lia.
    rewrite rotation_bytes by (try assumption; lia).
    set (o := Z.to_nat (off mod 8)).
    assert (Lr : length (rotl o kb) = 8%nat).
    { unfold rotl. rewrite app_length, skipn_length, firstn_length. lia. }
    assert (Hr : bytes_ok (rotl o kb)).
    { unfold rotl. apply bytes_ok_app. split; [apply bytes_ok_skipn | apply bytes_ok_firstn]; assumption. }
    rewrite xor_word_bytes by assumption.
    apply (nth_ext _ _ 0%N 0%N).
    - rewrite zipx_length_min, firstn_length, Lr, xor_stream_length. lia.
    - intros j Hj. rewrite zipx_length_min, firstn_length, Lr in Hj.
      rewrite nth_zipx by (rewrite ?firstn_length, ?Lr; lia).
      rewrite nth_xor_stream by lia. f_equal.
      rewrite nth_firstn_lt by lia. rewrite nth_rotl by (try assumption; unfold o; lia).
      f_equal. unfold o.
      rewrite <- (Nat2Z.id ((Z.to_nat (off mod 8) + j) mod 8)). f_equal.
      rewrite Nat2Z.inj_mod, Nat2Z.inj_add, Z2Nat.id by lia. change (Z.of_nat 8) with 8.
      rewrite Z.add_mod_idemp_l by lia. reflexivity.
  Qed.

  Lemma rotation_period off k : rotation key ((off + 8 * k) mod 8) = rotation key (off mod 8).
  Proof. rewrite (Z.mul_comm 8 k), Z_mod_plus_full. reflexivity. Qed.

  Lemma xor_stream_app a b : forall off,
    xor_stream kb off (a ++ b) = xor_stream kb off a ++ xor_stream kb (off + Z.of_nat (length a)) b.
  Proof.
    induction a as [|x a IH]; intros off.
    - cbn [app xor_stream length]. rewrite Z.add_0_r. reflexivity.
    - cbn [app xor_stream length]. rewrite IH. do 3 f_equal. lia.
  Qed.

  (* n consecutive words of a block *)
  Lemma xor_words_in_stream n : forall block off, bytes_ok block -> length block = (8 * n)%nat -> 0 <= off ->
    xor_words_in n block (rotation key (off mod 8)) = xor_stream kb off block.
  Proof.
    induction n as [|n IH]; intros block off Hb L Hoff.
    - destruct block; [reflexivity|cbn in L; lia].
    - cbn [xor_words_in]. rewrite <- (firstn_skipn 8 block) at 3. rewrite xor_stream_app.
      rewrite xor_word_stream by (try apply bytes_ok_firstn; try assumption; rewrite firstn_length; lia).
      f_equal. rewrite firstn_length, L. replace (Nat.min 8 (8 * S n)) with 8%nat by lia.
      rewrite <- (rotation_period off 1). rewrite Z.mul_1_r. change (Z.of_nat 8) with 8.
      apply IH; [apply bytes_ok_skipn; assumption | rewrite skipn_length; lia | lia].
  Qed.

  Lemma xor_chunks64_stream fuel : forall t off d rest, bytes_ok t -> (length t <= fuel)%nat -> 0 <= off ->
    xor_chunks64 fuel t (rotation key (off mod 8)) = (d, rest) ->
    xor_stream kb off t = d ++ xor_stream kb (off + Z.of_nat (length d)) rest /\
    (exists k, Z.of_nat (length d) = 8 * k) /\ bytes_ok rest /\ (length rest <= length t)%nat.
  Proof.
    induction fuel as [|fuel IH]; intros t off d rest Ht L Hoff H.
    - destruct t; [|cbn in L; lia]. cbn in H. inversion H; subst. cbn [app xor_stream length].
      repeat split; try constructor. exists 0. reflexivity.
    - cbn [xor_chunks64] in H. destruct (64 <=? length t)%nat eqn:C.
      + apply Nat.leb_le in C.
        destruct (xor_chunks64 fuel (skipn 64 t) (rotation key (off mod 8))) as [d' rest'] eqn:E.
        assert (Hd : d = xor_words_in 8 (firstn 64 t) (rotation key (off mod 8)) ++ d') by congruence.
        assert (Hrest : rest = rest') by congruence. subst d rest. clear H.
        rewrite <- (rotation_period off 8) in E. change (8 * 8) with 64 in E.
        destruct (IH (skipn 64 t) (off + 64) d' rest' (bytes_ok_skipn 64 t Ht) ltac:(rewrite skipn_length; lia) ltac:(lia) E)
          as [S [[k Hk] [Hr Lr]]].
        rewrite skipn_length in Lr.
        assert (L64 : length (firstn 64 t) = 64%nat) by (rewrite firstn_length; lia).
        rewrite (xor_words_in_stream 8 (firstn 64 t) off (bytes_ok_firstn 64 t Ht) L64 Hoff).
        split; [|split; [|split]]; [| exists (8 + k) | exact Hr | lia].
        * rewrite <- (firstn_skipn 64 t) at 1. rewrite xor_stream_app, L64. change (Z.of_nat 64) with 64.
          rewrite S. rewrite <- app_assoc. do 2 f_equal. rewrite app_length, xor_stream_length, L64. f_equal. lia.
        * rewrite app_length, xor_stream_length, L64. lia.
      + inversion H; subst. cbn [app length]. rewrite Z.add_0_r. repeat split; auto. exists 0. lia.
  Qed.

  Lemma xor_chunks8_stream fuel : forall t off d rest, bytes_ok t -> (length t <= fuel)%nat -> 0 <= off ->
    xor_chunks8 fuel t (rotation key (off mod 8)) = (d, rest) ->
    xor_stream kb off t = d ++ xor_stream kb (off + Z.of_nat (length d)) rest /\
    (exists k, Z.of_nat (length d) = 8 * k) /\ bytes_ok rest /\ (length rest < 8)%nat.
  Proof.
    induction fuel as [|fuel IH]; intros t off d rest Ht L Hoff H.
    - destruct t; [|cbn in L; lia]. cbn in H. inversion H; subst. cbn [app xor_stream length].
      repeat split; try constructor; try lia. exists 0. reflexivity.
    - cbn [xor_chunks8] in H. destruct (8 <=? length t)%nat eqn:C.
      + apply Nat.leb_le in C.
        destruct (xor_chunks8 fuel (skipn 8 t) (rotation key (off mod 8))) as [d' rest'] eqn:E.
        assert (Hd : d = xor_word (firstn 8 t) (rotation key (off mod 8)) ++ d') by congruence.
        assert (Hrest : rest = rest') by congruence. subst d rest. clear H.
        rewrite <- (rotation_period off 1) in E. rewrite Z.mul_1_r in E.
        destruct (IH (skipn 8 t) (off + 8) d' rest' (bytes_ok_skipn 8 t Ht) ltac:(rewrite skipn_length; lia) ltac:(lia) E)
          as [S [[k Hk] [Hr Lr]]].
        assert (L8 : length (firstn 8 t) = 8%nat) by (rewrite firstn_length; lia).
        rewrite (xor_word_stream (firstn 8 t) off (bytes_ok_firstn 8 t Ht) ltac:(lia) Hoff).
        split; [|split; [|split]]; [| exists (1 + k) | exact Hr | exact Lr].
        * rewrite <- (firstn_skipn 8 t) at 1. rewrite xor_stream_app, L8. change (Z.of_nat 8) with 8.
          rewrite S. rewrite <- app_assoc. do 2 f_equal. rewrite app_length, xor_stream_length, L8. f_equal. lia.
        * rewrite app_length, xor_stream_length, L8. lia.
      + apply Nat.leb_gt in C. inversion H; subst. cbn [app length]. rewrite Z.add_0_r. repeat split; auto. exists 0. lia.
  Qed.

  Lemma zero_key_bytes : key = 0 -> forall t off, bytes_ok t -> xor_stream kb off t = t.
  Proof.
    intros K t. unfold key, to_key in K.
    assert (Z0 : forall l, bytes_ok l -> le_value l = 0 -> Forall (fun b => b = 0%N) l).
    { induction 1 as [|b r Hb Hr IH]; intros E; [constructor|]. cbn [le_value] in E.
      pose proof (le_value_nonneg r). constructor; [lia|]. apply IH. lia. }
    pose proof (Z0 kb kb_ok K) as AZ. rewrite Forall_forall in AZ.
    induction t as [|b r IH]; intros off Ht; [reflexivity|]. inversion Ht; subst.
    cbn [xor_stream]. rewrite IH by assumption. f_equal.
    pose proof (Z.mod_pos_bound off 8 ltac:(lia)).
    rewrite (AZ (nth (Z.to_nat (off mod 8)) kb 0%N)) by (apply nth_In; lia). apply N.lxor_0_r.
  Qed.

  (* OBFUSCATION SPEC: whatever the address of the buffer (misalign), byte j is XORed with key byte
     (key_offset + j) mod 8 *)
  Lemma obfuscate_spec off misalign t : bytes_ok t -> 0 <= off -> 0 <= misalign < 8 ->
    obfuscate kb off misalign t = xor_stream kb off t.
  Proof.
    intros Ht Hoff Hmis. unfold obfuscate. fold key.
    destruct (key =? 0) eqn:K0.
    { symmetry. apply zero_key_bytes; [lia|exact Ht]. }
    destruct (8 <? length t)%nat eqn:C; [|apply Nat.ltb_ge in C; apply xor_word_stream; assumption].
    apply Nat.ltb_lt in C.
    (* prologue up to the alignment boundary *)
    set (al := if misalign =? 0 then 0%nat else Z.to_nat (8 - misalign)).
    assert (Pro : (if misalign =? 0 then ([], t, rotation key (off mod 8))
                   else (xor_word (firstn (Z.to_nat (8 - misalign)) t) (rotation key (off mod 8)),
                         skipn (Z.to_nat (8 - misalign)) t, rotation key ((off + (8 - misalign)) mod 8)))
                  = (xor_stream kb off (firstn al t), skipn al t, rotation key ((off + Z.of_nat al) mod 8))).
    { unfold al. destruct (misalign =? 0) eqn:M.
      - cbn [firstn skipn xor_stream Z.of_nat]. rewrite Z.add_0_r. reflexivity.
      - rewrite xor_word_stream by (try apply bytes_ok_firstn; try assumption; rewrite firstn_length; lia).
        rewrite Z2Nat.id by lia. reflexivity. }
    rewrite Pro. clear Pro.
    assert (Hal : (al <= 7)%nat) by (unfold al; destruct (misalign =? 0) eqn:M; lia).
    set (t1 := skipn al t). set (off1 := off + Z.of_nat al).
    assert (Ht1 : bytes_ok t1) by (apply bytes_ok_skipn; exact Ht).
    destruct (xor_chunks64 (length t1) t1 (rotation key (off1 mod 8))) as [d64 t2] eqn:E64.
    destruct (xor_chunks64_stream (length t1) t1 off1 d64 t2 Ht1 ltac:(lia) ltac:(unfold off1; lia) E64) as [S64 [[k64 K64] [Ht2 L2]]].
    set (off2 := off1 + Z.of_nat (length d64)) in *.
    assert (R2 : rotation key (off1 mod 8) = rotation key (off2 mod 8)).
    { unfold off2. rewrite K64. symmetry. apply rotation_period. }
    rewrite R2.
    destruct (xor_chunks8 (length t2) t2 (rotation key (off2 mod 8))) as [d8 t3] eqn:E8.
    destruct (xor_chunks8_stream (length t2) t2 off2 d8 t3 Ht2 ltac:(lia) ltac:(unfold off2, off1; lia) E8) as [S8 [[k8 K8] [Ht3 L3]]].
    set (off3 := off2 + Z.of_nat (length d8)) in *.
    assert (R3 : rotation key (off2 mod 8) = rotation key (off3 mod 8)).
    { unfold off3. rewrite K8. symmetry. apply rotation_period. }
    rewrite R3. rewrite xor_word_stream by (try assumption; try lia; unfold off3, off2, off1; lia).
    assert (La : length (firstn al t) = al) by (rewrite firstn_length; lia).
    assert (Split : xor_stream kb off t = xor_stream kb off (firstn al t) ++ xor_stream kb off1 t1).
    { rewrite <- (firstn_skipn al t) at 1. rewrite xor_stream_app, La. reflexivity. }
    rewrite Split, S64. fold off2. rewrite S8. fold off3. reflexivity.
  Qed.

  Lemma xor_stream_involutive t : forall off, bytes_ok t -> xor_stream kb off (xor_stream kb off t) = t.
  Proof.
    induction t as [|b r IH]; intros off Ht; [reflexivity|]. inversion Ht; subst.
    cbn [xor_stream]. rewrite IH by assumption. f_equal.
    rewrite N.lxor_assoc, N.lxor_nilpotent, N.lxor_0_r. reflexivity.
  Qed.

  Lemma xor_stream_ok t : forall off, bytes_ok t -> bytes_ok (xor_stream kb off t).
  Proof.
    induction t as [|b r IH]; intros off Ht; [constructor|]. inversion Ht; subst. cbn [xor_stream].
    constructor; [|apply IH; assumption]. apply lxor_byte_lt; [assumption|].
    pose proof (Z.mod_pos_bound off 8 ltac:(lia)). unfold bytes_ok in kb_ok. rewrite Forall_forall in kb_ok.
    apply kb_ok. apply nth_In. lia.
  Qed.
End Key.

(* the three statements of the obfuscation layer *)
Lemma obf_address_independent kb off m1 m2 t : bytes_ok kb -> length kb = 8%nat -> bytes_ok t ->
  0 <= off -> 0 <= m1 < 8 -> 0 <= m2 < 8 -> obfuscate kb off m1 t = obfuscate kb off m2 t.
Proof.
  intros Hk Lk Ht Ho H1 H2.
  rewrite (obfuscate_spec kb Hk Lk off m1 t Ht Ho H1), (obfuscate_spec kb Hk Lk off m2 t Ht Ho H2). reflexivity.
Qed.

Lemma obf_involutive kb off m1 m2 t : bytes_ok kb -> length kb = 8%nat -> bytes_ok t ->
  0 <= off -> 0 <= m1 < 8 -> 0 <= m2 < 8 -> obfuscate kb off m2 (obfuscate kb off m1 t) = t.
Proof.
  intros Hk Lk Ht Ho H1 H2.
  rewrite (obfuscate_spec kb Hk Lk off m1 t Ht Ho H1).
  rewrite (obfuscate_spec kb Hk Lk off m2 _ (xor_stream_ok kb Hk Lk t off Ht) Ho H2).
  apply xor_stream_involutive; assumption.
Qed.

Lemma obf_chunked kb off m m1 m2 a b : bytes_ok kb -> length kb = 8%nat -> bytes_ok a -> bytes_ok b ->
  0 <= off -> 0 <= m < 8 -> 0 <= m1 < 8 -> 0 <= m2 < 8 ->
  obfuscate kb off m (a ++ b) = obfuscate kb off m1 a ++ obfuscate kb (off + Z.of_nat (length a)) m2 b.
Proof.
  intros Hk Lk Ha Hb Ho Hm H1 H2.
  rewrite (obfuscate_spec kb Hk Lk off m (a ++ b) ltac:(apply bytes_ok_app; auto) Ho Hm).
  rewrite (obfuscate_spec kb Hk Lk off m1 a Ha Ho H1).
  rewrite (obfuscate_spec kb Hk Lk (off + Z.of_nat (length a)) m2 b Hb ltac:(lia) H2).
  apply xor_stream_app; assumption.
Qed.

(* ------------------------------------------------------------------------------------------ *)
(* block records *)

Lemma bytes_eq_eq a : forall b, bytes_eq a b = true <-> a = b.
Proof.
  induction a as [|x a IH]; intros [|y b]; simpl; split; intros H; try reflexivity; try discriminate.
  - apply andb_prop in H. destruct H as [H1 H2]. apply N.eqb_eq in H1. apply IH in H2. subst. reflexivity.
  - inversion H; subst. rewrite N.eqb_refl. simpl. apply IH. reflexivity.
Qed.

Lemma skipn_app_exact {A} (a b : list A) : skipn (length a) (a ++ b) = b.
Proof. rewrite skipn_app, Nat.sub_diag, skipn_all. reflexivity. Qed.

(* READ AFTER WRITE: wherever the record sits in the file (any bytes before it - earlier records -
   and any bytes after it - later records or preallocated space), reading at the position WriteBlock
   returned gives exactly the payload *)
Lemma read_write_block magic pre payload post :
  length magic = 4%nat -> Z.of_nat (length payload) <= MAX_SIZE ->
  read_raw_block magic (pre ++ write_record magic payload ++ post) (Z.of_nat (length pre) + 8) = Some payload.
Proof.
  intros Lm Lp. unfold read_raw_block.
  assert (E : (Z.of_nat (length pre) + 8 <? 8) = false) by lia. rewrite E.
  replace (Z.to_nat (Z.of_nat (length pre) + 8 - 8)) with (length pre) by lia.
  rewrite skipn_app_exact. unfold write_record. rewrite <- !app_assoc.
  rewrite <- Lm at 1. rewrite read_bytes_app.
  rewrite read_le_write.
  rewrite max_size_value in Lp.
  rewrite wrapu_id by (change (2 ^ (8 * Z.of_nat 4)) with 4294967296; lia).
  assert (Em : bytes_eq magic magic = true) by (apply bytes_eq_eq; reflexivity). rewrite Em. cbn [negb].
  assert (E2 : (Z.of_nat (length payload) >? MAX_SIZE) = false) by (rewrite max_size_value; lia). rewrite E2.
  rewrite read_bytes_z_eq by lia. rewrite Nat2Z.id, read_bytes_app. reflexivity.
Qed.

(* FRAMING: whatever ReadRawBlock returns is the payload of a well-framed record at that position:
   the 4 bytes before the size are the network magic, the size field is the length of the returned
   data and is at most MAX_SIZE.  So a record whose magic differs, or whose size field exceeds
   MAX_SIZE or the bytes available, is reported as a read failure. *)
Lemma read_raw_block_framed magic file pos data : bytes_ok file ->
  read_raw_block magic file pos = Some data ->
  8 <= pos /\ Z.of_nat (length data) <= MAX_SIZE /\
  exists pre post, file = pre ++ write_record magic data ++ post /\ Z.of_nat (length pre) = pos - 8.
Proof.
  intros Hf H. unfold read_raw_block in H.
  destruct (pos <? 8) eqn:E; [discriminate|].
  set (n := Z.to_nat (pos - 8)) in *.
  assert (Hs : bytes_ok (skipn n file)) by (apply bytes_ok_skipn; exact Hf).
  destruct (read_bytes 4 (skipn n file)) as [m s1|e] eqn:R1; [|discriminate].
  apply read_bytes_inv in R1. destruct R1 as [Es Lm].
  rewrite Es in Hs. apply bytes_ok_app in Hs. destruct Hs as [_ Hs1].
  destruct (read_le 4 s1) as [size s2|e] eqn:R2; [|discriminate].
  apply read_le_inv in R2; [|exact Hs1]. destruct R2 as [Es1 Hsize].
  destruct (bytes_eq m magic) eqn:M; [|discriminate]. cbn [negb] in H. apply bytes_eq_eq in M. subst m.
  destruct (size >? MAX_SIZE) eqn:S; [discriminate|].
  destruct (read_bytes_z size s2) as [d s3|e] eqn:R3; [|discriminate]. inversion H; subst d. clear H.
  rewrite read_bytes_z_eq in R3 by lia. apply read_bytes_inv in R3. destruct R3 as [Es2 Ld].
  assert (Ln : (n <= length file)%nat).
  { destruct (Nat.le_gt_cases n (length file)) as [Hle|Hgt]; [exact Hle|].
    rewrite skipn_all2 in Es by lia. destruct magic; [cbn in Lm; lia|discriminate]. }
  split; [lia|]. split; [rewrite Ld; lia|].
  exists (firstn n file), s3. split.
  - rewrite <- (firstn_skipn n file) at 1. f_equal. rewrite Es, Es1, Es2. unfold write_record.
    rewrite Ld, Z2Nat.id by lia. rewrite <- !app_assoc. reflexivity.
  - rewrite firstn_length. unfold n in *. lia.
Qed.

(* ReadBlock succeeds only on a well-framed record whose payload starts with a block that
   deserialises and whose header passes the hash tests *)
Lemma read_block_true header_ok magic file pos : bytes_ok file ->
  read_block header_ok magic file pos = true ->
  exists data b rest, read_raw_block magic file pos = Some data /\
    unser_block true data = Ok b rest /\ header_ok (b_header b) = true.
Proof.
  intros Hf H. unfold read_block in H.
  destruct (read_raw_block magic file pos) as [data|] eqn:R; [|discriminate].
  destruct (unser_block true data) as [b rest|e] eqn:U; [|discriminate].
  exists data, b, rest. repeat split; auto.
Qed.
