(* C21 part B: after any history of CustomAppend / CustomRemove that follows a block tree, the
   coin statistics index is in the state that a replay of the current chain from genesis produces,
   and its height index holds the replay's entry for every block of the chain. *)
From Coq Require Import NArith Znumtheory Permutation.
From BV Require Import lib.Ints model.CryptoBase model.MuHash model.Index model.IndexCoinStats
  proofs.MuHashArith proofs.MuHashLemmas proofs.MuHashVal proofs.IndexCoinStatsOps.
Local Open Scope Z_scope.

(* ---------- bytes ---------- *)
Lemma bytes_eqb_refl a : bytes_eqb a a = true.
Proof. induction a as [| x a IH]; [ reflexivity | simpl; rewrite N.eqb_refl, IH; reflexivity ]. Qed.
Lemma bytes_eqb_eq a : forall b, bytes_eqb a b = true -> a = b.
Proof.
  induction a as [| x a IH]; intros [| y b] H; try discriminate; [ reflexivity | ].
  simpl in H. apply andb_prop in H. destruct H as [H1 H2]. apply N.eqb_eq in H1. subst y. f_equal. apply IH, H2.
Qed.

(* ---------- canonical MuHash objects: what Finalize leaves behind ---------- *)
Definition mh_canon (m : muhash) : Prop := mh_den m = 1 /\ 0 <= mh_num m < P3072.
Lemma canon_good m : mh_canon m -> mh_good m.
Proof.
  intros [Hd Hn]. pose proof P3072_lt_B. split; [ split | ].
  - unfold num_ok. lia.
  - rewrite Hd. exact num_ok_1.
  - rewrite Hd. exact invertible_1.
Qed.
Lemma canon_val m : mh_canon m -> mh_val m = mh_num m.
Proof.
  intros Hc. rewrite mh_val_spec by apply (canon_good m Hc). destruct Hc as [Hd Hn].
  rewrite Hd, finv_1, Z.mul_1_r. apply Z.mod_small. exact Hn.
Qed.
Lemma canon_eq m m' : mh_canon m -> mh_canon m' -> mh_val m = mh_val m' -> m = m'.
Proof.
  intros Hc Hc' E. rewrite (canon_val m Hc), (canon_val m' Hc') in E.
  destruct m as [n d], m' as [n' d']. destruct Hc as [Hd _], Hc' as [Hd' _]. simpl in *. subst. reflexivity.
Qed.
Lemma finalize_state_canon m : mh_ok m -> mh_canon (mh_finalize_state m).
Proof. intros Ho. split; [ reflexivity | ]. simpl. apply (mh_val_range m Ho). Qed.
Lemma canon_empty : mh_canon mh_empty.
Proof. split; [ reflexivity | ]. simpl. pose proof P3072_gt1. lia. Qed.
Lemma finalize_finalize_state m : mh_ok m -> mh_finalize (mh_finalize_state m) = mh_finalize m.
Proof. intros Ho. apply mh_finalize_val. apply mh_val_finalize_state, Ho. Qed.

(* ---------- CustomAppend as a function of the members ---------- *)
Definition append_core (interval : Z) (m0 : muhash) (vin : dbval) (cur : bytes) (b : block) : res (muhash * dbval) :=
  let subsidy := block_subsidy interval (b_height b) in
  let v0 := set_subsidy vin (wrap64 (v_subsidy vin + subsidy)) in
  let step :=
    if 0 <? b_height b then
      if negb (bytes_eqb cur (b_prev b)) then Err EPrevMismatch
      else Ok (fold_left (append_tx (is_bip30_unspendable (b_hash b) (b_height b)) subsidy (b_height b)) (b_txs b) (m0, v0))
    else Ok (m0, set_unsp_genesis v0 (wrap64 (v_unsp_genesis v0 + subsidy))) in
  match step with
  | Err e => Err e
  | Ok (m, v) =>
    let temp := wrap64 (wrap64 (wrap64 (v_unsp_genesis v + v_unsp_bip30 v) + v_unsp_scripts v) + v_unsp_unclaimed v) in
    let unclaimed := wrap256 (add256_amount (v_prevout_spent v) (v_subsidy v)
                              - add256_amount (wrap256 (v_new_outputs v + v_coinbase v)) temp) in
    if INT64_MAX <? unclaimed then Err EAssertUnclaimed
    else Ok (m, set_unsp_unclaimed v (wrap64 (v_unsp_unclaimed v + wrap64 (wrapu64 unclaimed))))
  end.

Lemma cs_append_unfold i x b :
  cs_append i x b =
  match append_core i (cs_mh x) (cs_v x) (cs_cur x) b with
  | Err e => Err e
  | Ok (m, v') =>
    Ok {| cs_mh := mh_finalize_state m; cs_v := v'; cs_cur := b_hash b;
          cs_dbh := (b_height b, (b_hash b, set_muhash v' (mh_finalize m))) :: cs_dbh x;
          cs_dbs := cs_dbs x; cs_db_muhash := cs_db_muhash x |}
  end.
Proof.
  unfold cs_append, append_core.
  destruct (0 <? b_height b).
  - destruct (negb (bytes_eqb (cs_cur x) (b_prev b))); [ reflexivity | ].
    destruct (fold_left _ (b_txs b) _) as [m v].
    destruct (INT64_MAX <? _); reflexivity.
  - destruct (INT64_MAX <? _); reflexivity.
Qed.

(* the MuHash before the final Finalize *)
Lemma append_core_m i m0 vin cur b m v' : append_core i m0 vin cur b = Ok (m, v') ->
  m = if 0 <? b_height b then mh_run (block_ops b) m0 else m0.
Proof.
  unfold append_core. destruct (0 <? b_height b).
  - destruct (negb (bytes_eqb cur (b_prev b))); [ discriminate | ].
    pose proof (append_txs_m (is_bip30_unspendable (b_hash b) (b_height b)) (block_subsidy i (b_height b)) (b_height b) (b_txs b) m0
                  (set_subsidy vin (wrap64 (v_subsidy vin + block_subsidy i (b_height b))))) as Hm.
    set (F := fold_left _ (b_txs b) _) in *. clearbody F. destruct F as [m1 v1]. simpl in Hm.
    destruct (INT64_MAX <? _); [ discriminate | ]. intros H. inversion H. subst. reflexivity.
  - destruct (INT64_MAX <? _); [ discriminate | ]. intros H. inversion H. reflexivity.
Qed.
Lemma append_core_prev i m0 vin cur b m v' : append_core i m0 vin cur b = Ok (m, v') ->
  0 < b_height b -> cur = b_prev b.
Proof.
  unfold append_core. intros H Hh. apply Z.ltb_lt in Hh. rewrite Hh in H.
  destruct (bytes_eqb cur (b_prev b)) eqn:E; [ apply bytes_eqb_eq, E | discriminate ].
Qed.

(* the unused digest field of the counters record is never touched by CustomAppend *)
Lemma append_out_muhash_field height t : forall outs m v j,
  v_muhash (acc_v (fold_left (append_out height t) outs (m, v, j))) = v_muhash v.
Proof.
  induction outs as [| o r IH]; intros m v j; [ reflexivity | ].
  cbn [fold_left]. unfold append_out at 2. destruct (is_unspendable (o_script o)); rewrite IH; reflexivity.
Qed.
Lemma append_in_muhash_field : forall ins m v, v_muhash (snd (fold_left append_in ins (m, v))) = v_muhash v.
Proof. induction ins as [| i r IH]; intros m v; [ reflexivity | ]. cbn [fold_left]. unfold append_in at 2. rewrite IH. reflexivity. Qed.
Lemma append_tx_muhash_field bip30 s h t m v : v_muhash (snd (append_tx bip30 s h (m, v) t)) = v_muhash v.
Proof.
  unfold append_tx. destruct (t_coinbase t && bip30); [ reflexivity | ].
  rewrite (surj3 (fold_left (append_out h t) (t_outs t) (m, v, 0))).
  destruct (t_coinbase t).
  - apply (append_out_muhash_field h t (t_outs t) m v 0).
  - rewrite append_in_muhash_field. apply (append_out_muhash_field h t (t_outs t) m v 0).
Qed.
Lemma append_txs_muhash_field bip30 s h : forall txs m v,
  v_muhash (snd (fold_left (append_tx bip30 s h) txs (m, v))) = v_muhash v.
Proof.
  induction txs as [| t r IH]; intros m v; [ reflexivity | ]. cbn [fold_left].
  rewrite (surjective_pairing (append_tx bip30 s h (m, v) t)). rewrite IH. apply append_tx_muhash_field.
Qed.
Lemma append_core_muhash_field i m0 vin cur b m v' : append_core i m0 vin cur b = Ok (m, v') -> v_muhash v' = v_muhash vin.
Proof.
  unfold append_core. destruct (0 <? b_height b).
  - destruct (negb (bytes_eqb cur (b_prev b))); [ discriminate | ].
    pose proof (append_txs_muhash_field (is_bip30_unspendable (b_hash b) (b_height b)) (block_subsidy i (b_height b)) (b_height b) (b_txs b) m0
                  (set_subsidy vin (wrap64 (v_subsidy vin + block_subsidy i (b_height b))))) as Hm.
    set (F := fold_left _ (b_txs b) _) in *. clearbody F. destruct F as [m1 v1]. simpl in Hm.
    destruct (INT64_MAX <? _); [ discriminate | ]. intros H. inversion H. subst. simpl. exact Hm.
  - destruct (INT64_MAX <? _); [ discriminate | ]. intros H. inversion H. reflexivity.
Qed.

(* ---------- replay of a chain from genesis ---------- *)
Fixpoint replay (i : Z) (c : list block) (x : cs_index) : res cs_index :=
  match c with
  | [] => Ok x
  | b :: r => match cs_append i x b with Ok x' => replay i r x' | Err e => Err e end
  end.
Definition cs_replay (i : Z) (c : list block) : res cs_index := replay i c cs_init.

Lemma replay_snoc i c b : forall x,
  replay i (c ++ [b]) x = match replay i c x with Ok y => cs_append i y b | Err e => Err e end.
Proof.
  induction c as [| a c IH]; intros x; simpl.
  - destruct (cs_append i x b); reflexivity.
  - destruct (cs_append i x a); [ apply IH | reflexivity ].
Qed.

Definition core (x : cs_index) : muhash * dbval * bytes := (cs_mh x, cs_v x, cs_cur x).
Definition entry_of (y : cs_index) : dbval := set_muhash (cs_v y) (mh_finalize (cs_mh y)).

Lemma set_muhash_set_muhash v a b : set_muhash (set_muhash v a) b = set_muhash v b.
Proof. reflexivity. Qed.
Lemma set_muhash_same v : set_muhash v (v_muhash v) = v.
Proof. destruct v; reflexivity. Qed.

Lemma append_core_ok i m0 vin cur b m v' : mh_ok m0 -> append_core i m0 vin cur b = Ok (m, v') -> mh_ok m.
Proof.
  intros Ho H. rewrite (append_core_m _ _ _ _ _ _ _ H). destruct (0 <? b_height b); [ apply mh_run_ok, Ho | exact Ho ].
Qed.

Lemma cs_append_core i x y b : core x = core y -> mh_ok (cs_mh y) ->
  match cs_append i x b, cs_append i y b with
  | Ok x', Ok y' => core x' = core y' /\
                    exists e, cs_dbh x' = (b_height b, (b_hash b, e)) :: cs_dbh x /\ cs_dbh y' = (b_height b, (b_hash b, e)) :: cs_dbh y /\
                              e = entry_of y'
  | Err _, Err _ => True
  | _, _ => False
  end.
Proof.
  intros E Hok. unfold core in E. inversion E as [[Em Ev Ec]]. rewrite !cs_append_unfold, Em, Ev, Ec.
  destruct (append_core i (cs_mh y) (cs_v y) (cs_cur y) b) as [[m v'] | e] eqn:Ea; [ | exact I ].
  split; [ reflexivity | ]. eexists. split; [ reflexivity | split; [ reflexivity | ] ].
  unfold entry_of. simpl.
  pose proof (append_core_ok _ _ _ _ _ _ _ Hok Ea) as Ho.
  rewrite (finalize_finalize_state m Ho). reflexivity.
Qed.

(* ---------- CustomRemove on a state whose database holds the chain's entries ---------- *)
Lemma cs_remove_spec x b hh hv ph pv :
  0 < b_height b ->
  dbh_read (cs_dbh x) (b_height b) = Some (hh, hv) ->
  dbh_read (cs_dbh x) (b_height b - 1) = Some (ph, pv) ->
  ph = b_prev b ->
  v_muhash pv = mh_finalize (mh_run (map mh_op_inv (block_ops b)) (cs_mh x)) ->
  cs_remove x b =
  Ok {| cs_mh := mh_finalize_state (mh_run (map mh_op_inv (block_ops b)) (cs_mh x));
        cs_v := set_muhash pv (v_muhash (cs_v x)); cs_cur := b_prev b;
        cs_dbh := cs_dbh x; cs_dbs := (hh, hv) :: cs_dbs x; cs_db_muhash := cs_db_muhash x |}.
Proof.
  intros Hh Eh Ep Eph Em. unfold cs_remove. rewrite Eh.
  apply Z.ltb_lt in Hh. rewrite Hh. rewrite Ep. subst ph. rewrite bytes_eqb_refl.
  rewrite revert_txs_m. fold (block_bip30 b). fold (block_ops b).
  rewrite Em, bytes_eqb_refl. reflexivity.
Qed.

(* ---------- well-formed chains ---------- *)
Definition chain_wf (c : list block) : Prop :=
  (forall k b, nth_error c k = Some b -> b_height b = Z.of_nat k) /\
  (forall k a b, nth_error c k = Some a -> nth_error c (S k) = Some b -> b_prev b = b_hash a) /\
  (forall b, In b c -> ops_invertible (block_ops b)).

Lemma chain_wf_snoc c b : chain_wf c ->
  b_height b = Z.of_nat (length c) ->
  (forall a, nth_error c (length c - 1) = Some a -> c <> [] -> b_prev b = b_hash a) ->
  ops_invertible (block_ops b) -> chain_wf (c ++ [b]).
Proof.
  intros [Hh [Hl Hi]] Eh El Ei. split; [ | split ].
  - intros k a Ha. destruct (Nat.lt_ge_cases k (length c)) as [Hk | Hk].
    + rewrite nth_error_app1 in Ha by exact Hk. apply Hh, Ha.
    + rewrite nth_error_app2 in Ha by exact Hk. destruct (k - length c)%nat as [| n] eqn:En.
      * simpl in Ha. inversion Ha. subst a. rewrite Eh. f_equal. lia.
      * simpl in Ha. destruct n; discriminate.
  - intros k a a' Ha Ha'. destruct (Nat.lt_ge_cases (S k) (length c)) as [Hk | Hk].
    + rewrite nth_error_app1 in Ha by lia. rewrite nth_error_app1 in Ha' by exact Hk. apply (Hl k); assumption.
    + destruct (Nat.eq_dec (S k) (length c)) as [Ek | Nk].
      * rewrite nth_error_app1 in Ha by lia. rewrite nth_error_app2 in Ha' by lia.
        replace (S k - length c)%nat with 0%nat in Ha' by lia. simpl in Ha'. inversion Ha'. subst a'.
        apply El; [ replace (length c - 1)%nat with k by lia; exact Ha | ]. intros E. rewrite E in Ek. discriminate.
      * assert (nth_error (c ++ [b]) (S k) = None) by (apply nth_error_None; rewrite app_length; simpl; lia). congruence.
  - intros a Ha. apply in_app_or in Ha. destruct Ha as [Ha | [<- | []]]; [ apply Hi, Ha | exact Ei ].
Qed.

Lemma chain_wf_prefix c b : chain_wf (c ++ [b]) -> chain_wf c.
Proof.
  intros [Hh [Hl Hi]]. split; [ | split ].
  - intros k a Ha. apply Hh. rewrite nth_error_app1; [ exact Ha | apply nth_error_Some; congruence ].
  - intros k a a' Ha Ha'. apply (Hl k); rewrite nth_error_app1; try assumption; apply nth_error_Some; congruence.
  - intros a Ha. apply Hi, in_or_app. left; exact Ha.
Qed.

(* ---------- the invariant ---------- *)
Definition db_holds (i : Z) (x : cs_index) (c : list block) : Prop :=
  forall k b, nth_error c k = Some b ->
    exists y, cs_replay i (firstn (S k) c) = Ok y /\ dbh_read (cs_dbh x) (Z.of_nat k) = Some (b_hash b, entry_of y).

Definition cs_inv (i : Z) (x : cs_index) (c : list block) : Prop :=
  exists y, cs_replay i c = Ok y /\ core x = core y /\ mh_canon (cs_mh y) /\ db_holds i x c.

Lemma cs_init_inv i : cs_inv i cs_init [].
Proof.
  exists cs_init. split; [ reflexivity | split; [ reflexivity | split; [ exact canon_empty | ] ] ].
  intros k b H. destruct k; discriminate.
Qed.

Lemma replay_canon i : forall c x y, mh_canon (cs_mh x) -> replay i c x = Ok y -> mh_canon (cs_mh y).
Proof.
  induction c as [| b r IH]; intros x y Hc H; simpl in H.
  - inversion H. subst. exact Hc.
  - destruct (cs_append i x b) as [x' |] eqn:Ea; [ | discriminate ].
    apply (IH x' y); [ | exact H ].
    rewrite cs_append_unfold in Ea. destruct (append_core i (cs_mh x) (cs_v x) (cs_cur x) b) as [[m v'] |] eqn:Ec; [ | discriminate ].
    inversion Ea. simpl. apply finalize_state_canon. apply (append_core_ok _ _ _ _ _ _ _ (proj1 (canon_good _ Hc)) Ec).
Qed.

Lemma firstn_snoc_lt {A} (c : list A) b k : (k <= length c)%nat -> firstn k (c ++ [b]) = firstn k c.
Proof. intros H. rewrite firstn_app. replace (k - length c)%nat with 0%nat by lia. simpl. apply app_nil_r. Qed.

Lemma replay_snoc_cur i c a x y : replay i (c ++ [a]) x = Ok y -> cs_cur y = b_hash a.
Proof.
  rewrite replay_snoc. destruct (replay i c x) as [y0 |]; [ | discriminate ].
  rewrite cs_append_unfold. destruct (append_core i (cs_mh y0) (cs_v y0) (cs_cur y0) a) as [[m v] |]; [ | discriminate ].
  intros H. inversion H. reflexivity.
Qed.
Lemma replay_last_cur i c a x y : nth_error c (length c - 1) = Some a -> replay i c x = Ok y -> cs_cur y = b_hash a.
Proof.
  intros Ha Hr. destruct c as [| b0 c'] using rev_ind; [ discriminate | ].
  rewrite app_length in Ha. simpl in Ha. replace (length c' + 1 - 1)%nat with (length c') in Ha by lia.
  rewrite nth_error_app2 in Ha by lia. rewrite Nat.sub_diag in Ha. simpl in Ha. inversion Ha. subst b0.
  apply (replay_snoc_cur i c' a x y Hr).
Qed.

(* CustomAppend of a block that extends the chain *)
Theorem cs_inv_append i x c b :
  cs_inv i x c -> chain_wf (c ++ [b]) ->
  (exists y', cs_replay i (c ++ [b]) = Ok y') ->
  exists x', cs_append i x b = Ok x' /\ cs_inv i x' (c ++ [b]).
Proof.
  intros [y [Ey [Ecore [Hcan Hdb]]]] Hwf [y' Ey'].
  unfold cs_replay in Ey'. rewrite replay_snoc in Ey'. fold (cs_replay i c) in Ey'. rewrite Ey in Ey'.
  pose proof (cs_append_core i x y b Ecore (proj1 (canon_good _ Hcan))) as Hc. rewrite Ey' in Hc.
  destruct (cs_append i x b) as [x' |] eqn:Ea; [ | contradiction ].
  destruct Hc as [Ecore' [e [Ex [Eyd Ee]]]].
  exists x'. split; [ reflexivity | ].
  exists y'. split; [ unfold cs_replay; rewrite replay_snoc; fold (cs_replay i c); rewrite Ey; exact Ey' | ].
  split; [ exact Ecore' | split ].
  - apply (replay_canon i [b] y y' Hcan). simpl. rewrite Ey'. reflexivity.
  - destruct Hwf as [Hh _].
    intros k a Ha. destruct (Nat.lt_ge_cases k (length c)) as [Hk | Hk].
    + rewrite nth_error_app1 in Ha by exact Hk. destruct (Hdb k a Ha) as [yk [Eyk Er]].
      exists yk. split; [ rewrite firstn_snoc_lt by lia; exact Eyk | ].
      rewrite Ex. simpl. assert (Hb : b_height b = Z.of_nat (length c)).
      { apply Hh. rewrite nth_error_app2 by lia. rewrite Nat.sub_diag. reflexivity. }
      rewrite Hb. destruct (Z.of_nat (length c) =? Z.of_nat k) eqn:E; [ apply Z.eqb_eq in E; lia | exact Er ].
    + rewrite nth_error_app2 in Ha by exact Hk. destruct (k - length c)%nat as [| n] eqn:En; [ | destruct n; discriminate ].
      simpl in Ha. inversion Ha. subst a. assert (k = length c) by lia. subst k.
      exists y'. split.
      * rewrite firstn_all2 by (rewrite app_length; simpl; lia).
        unfold cs_replay. rewrite replay_snoc. fold (cs_replay i c). rewrite Ey. exact Ey'.
      * rewrite Ex. simpl. assert (Hb : b_height b = Z.of_nat (length c)).
        { apply Hh. rewrite nth_error_app2 by lia. rewrite Nat.sub_diag. reflexivity. }
        rewrite Hb, Z.eqb_refl, Ee. reflexivity.
Qed.

(* CustomRemove of the chain's last block (not the genesis block) *)
Theorem cs_inv_remove i x c b :
  cs_inv i x (c ++ [b]) -> chain_wf (c ++ [b]) -> c <> [] ->
  exists x', cs_remove x b = Ok x' /\ cs_inv i x' c.
Proof.
  intros [y [Ey [Ecore [Hcan Hdb]]]] Hwf Hne.
  unfold cs_replay in Ey. rewrite replay_snoc in Ey. fold (cs_replay i c) in Ey.
  destruct (cs_replay i c) as [yc |] eqn:Eyc; [ | discriminate ].
  assert (Hcanc : mh_canon (cs_mh yc)) by (apply (replay_canon i c cs_init yc canon_empty Eyc)).
  destruct Hwf as [Hh [Hl Hi]].
  assert (Hb : b_height b = Z.of_nat (length c)).
  { apply Hh. rewrite nth_error_app2 by lia. rewrite Nat.sub_diag. reflexivity. }
  assert (Hlen : (0 < length c)%nat) by (destruct c; [ congruence | simpl; lia ]).
  (* the entries at the block's height and below *)
  destruct (Hdb (length c) b) as [yb [_ Erb]]; [ rewrite nth_error_app2 by lia; rewrite Nat.sub_diag; reflexivity | ].
  destruct (nth_error c (length c - 1)) as [a |] eqn:Ea; [ | apply nth_error_None in Ea; lia ].
  destruct (Hdb (length c - 1)%nat a) as [ya [Eya Era]]; [ rewrite nth_error_app1 by lia; exact Ea | ].
  replace (S (length c - 1)) with (length c) in Eya by lia.
  rewrite firstn_app, Nat.sub_diag, firstn_all in Eya. simpl in Eya. rewrite app_nil_r, Eyc in Eya. inversion Eya. subst ya.
  assert (Eprev : b_prev b = b_hash a).
  { apply (Hl (length c - 1)%nat); [ rewrite nth_error_app1 by lia; exact Ea | ].
    replace (S (length c - 1)) with (length c) by lia. rewrite nth_error_app2 by lia. rewrite Nat.sub_diag. reflexivity. }
  (* the state before the removal is the replay's *)
  unfold core in Ecore. inversion Ecore as [[Em Ev Ec]].
  rewrite cs_append_unfold in Ey.
  destruct (append_core i (cs_mh yc) (cs_v yc) (cs_cur yc) b) as [[m v'] |] eqn:Eac; [ | discriminate ].
  inversion Ey as [Ey1]. clear Ey. subst y. simpl in Em, Ev, Ec.
  pose proof (append_core_m _ _ _ _ _ _ _ Eac) as Hm.
  assert (Hpos : 0 < b_height b) by lia.
  pose proof Hpos as Hpos'. apply Z.ltb_lt in Hpos'. rewrite Hpos' in Hm.
  assert (Hinv : ops_invertible (block_ops b)) by (apply Hi, in_or_app; right; left; reflexivity).
  pose proof (canon_good _ Hcanc) as Hgood.
  destruct (mh_val_run (block_ops b) (cs_mh yc) Hgood Hinv) as [G1 V1].
  assert (Hmx : cs_mh x = mh_finalize_state m) by exact Em.
  assert (Gm : mh_good (mh_finalize_state m)) by (apply mh_good_finalize_state; rewrite Hm; apply G1).
  destruct (mh_val_run (map mh_op_inv (block_ops b)) (mh_finalize_state m) Gm (ops_invertible_inv _ Hinv)) as [G2 V2].
  assert (Vback : mh_val (mh_run (map mh_op_inv (block_ops b)) (cs_mh x)) = mh_val (cs_mh yc)).
  { rewrite Hmx, V2, mh_val_finalize_state by (rewrite Hm; apply G1). rewrite Hm, V1.
    pose proof P3072_gt1. rewrite Zmult_mod_idemp_l, <- Z.mul_assoc, <- Zmult_mod_idemp_r, (ops_factor_inv _ Hinv), Z.mul_1_r.
    apply Z.mod_small. apply mh_val_range, Hgood. }
  assert (Hrem := cs_remove_spec x b (b_hash b) (entry_of yb) (b_hash a) (entry_of yc) Hpos).
  rewrite Hb in Hrem at 1 2. replace (Z.of_nat (length c) - 1) with (Z.of_nat (length c - 1)) in Hrem by lia.
  specialize (Hrem Erb Era (eq_sym Eprev)).
  assert (Edig : v_muhash (entry_of yc) = mh_finalize (mh_run (map mh_op_inv (block_ops b)) (cs_mh x))).
  { unfold entry_of. simpl. apply mh_finalize_val. symmetry. exact Vback. }
  specialize (Hrem Edig). eexists. split; [ exact Hrem | ].
  exists yc. split; [ exact Eyc | split; [ | split; [ exact Hcanc | ] ] ].
  - unfold core. simpl. f_equal; [ f_equal | ].
    + apply canon_eq; [ apply finalize_state_canon; rewrite Hmx; apply G2 | exact Hcanc | ].
      rewrite mh_val_finalize_state by (rewrite Hmx; apply G2). exact Vback.
    + unfold entry_of. rewrite set_muhash_set_muhash. rewrite Ev.
      rewrite (append_core_muhash_field _ _ _ _ _ _ _ Eac). apply set_muhash_same.
    + rewrite Eprev.
      (* the replay of a non-empty chain ends with its last block's hash as current hash *)
      symmetry. apply (replay_last_cur i c a cs_init yc Ea Eyc).
  - intros k a' Ha'. assert (Hk : (k < length c)%nat) by (apply nth_error_Some; congruence).
    destruct (Hdb k a') as [yk [Eyk Erk]]; [ rewrite nth_error_app1 by exact Hk; exact Ha' | ].
    exists yk. split; [ rewrite firstn_snoc_lt in Eyk by lia; exact Eyk | exact Erk ].
Qed.

(* ---------- histories: blocks connected on top, blocks disconnected from the top ---------- *)
Inductive cs_step : Type := Push (b : block) | Pop.
Fixpoint run_hist (i : Z) (x : cs_index) (c : list block) (steps : list cs_step) : res (cs_index * list block) :=
  match steps with
  | [] => Ok (x, c)
  | Push b :: r => match cs_append i x b with Ok x' => run_hist i x' (c ++ [b]) r | Err e => Err e end
  | Pop :: r => match rev c with
                | b :: cr => match cs_remove x b with Ok x' => run_hist i x' (rev cr) r | Err e => Err e end
                | [] => Err ENoHeightEntry
                end
  end.
(* a history is admissible when every connected block extends the current chain (height, previous
   hash), its coin elements are invertible, the from-genesis recomputation of the chain it produces is
   defined (no assert), and the genesis block is never disconnected *)
Fixpoint hist_ok (i : Z) (c : list block) (steps : list cs_step) : Prop :=
  match steps with
  | [] => True
  | Push b :: r => chain_wf (c ++ [b]) /\ (exists y, cs_replay i (c ++ [b]) = Ok y) /\ hist_ok i (c ++ [b]) r
  | Pop :: r => exists c' b, c = c' ++ [b] /\ c' <> [] /\ hist_ok i c' r
  end.

Theorem cs_history i : forall steps x c,
  cs_inv i x c -> chain_wf c -> hist_ok i c steps ->
  exists x' c', run_hist i x c steps = Ok (x', c') /\ cs_inv i x' c' /\ chain_wf c'.
Proof.
  induction steps as [| s r IH]; intros x c Hinv Hwf Hok.
  - exists x, c. split; [ reflexivity | split; assumption ].
  - destruct s as [b |]; simpl in Hok.
    + destruct Hok as [Hwf' [Hrep Hr]].
      destruct (cs_inv_append i x c b Hinv Hwf' Hrep) as [x' [Ea Hinv']].
      simpl. rewrite Ea. apply IH; assumption.
    + destruct Hok as [c' [b [Ec [Hne Hr]]]]. subst c.
      destruct (cs_inv_remove i x c' b Hinv Hwf Hne) as [x' [Er Hinv']].
      simpl. rewrite rev_app_distr. simpl. rewrite Er, rev_involutive.
      apply IH; [ exact Hinv' | apply (chain_wf_prefix c' b Hwf) | exact Hr ].
Qed.

(* LookUpStats of any block of the current chain returns the entry of the replay up to that block *)
Theorem cs_lookup_chain i x c k b :
  cs_inv i x c -> chain_wf c -> nth_error c k = Some b ->
  exists y, cs_replay i (firstn (S k) c) = Ok y /\ cs_lookup x (b_hash b) (b_height b) = Some (entry_of y).
Proof.
  intros [y [_ [_ [_ Hdb]]]] [Hh _] Hk. destruct (Hdb k b Hk) as [yk [Eyk Er]].
  exists yk. split; [ exact Eyk | ]. unfold cs_lookup, look_up_one. rewrite (Hh k b Hk), Er, bytes_eqb_refl. reflexivity.
Qed.

(* CustomRemove after CustomAppend of the same block restores the members exactly (the MuHash object
   in its finalized representation) and leaves the height index of the chain below untouched *)
Theorem cs_append_remove_inverse i x c b x1 :
  cs_inv i x c -> chain_wf (c ++ [b]) -> c <> [] -> cs_append i x b = Ok x1 ->
  (exists y', cs_replay i (c ++ [b]) = Ok y') ->
  exists x2, cs_remove x1 b = Ok x2 /\ core x2 = core x /\ cs_dbh x2 = cs_dbh x1.
Proof.
  intros Hinv Hwf Hne Ea Hrep.
  destruct (cs_inv_append i x c b Hinv Hwf Hrep) as [x1' [Ea' Hinv1]]. rewrite Ea in Ea'. inversion Ea'. subst x1'.
  destruct (cs_inv_remove i x1 c b Hinv1 Hwf Hne) as [x2 [Er Hinv2]].
  exists x2. split; [ exact Er | ].
  destruct Hinv as [y [Ey [Ecore _]]]. destruct Hinv2 as [y2 [Ey2 [Ecore2 _]]]. rewrite Ey in Ey2. inversion Ey2. subst y2.
  split; [ rewrite Ecore, Ecore2; reflexivity | ].
  unfold cs_remove in Er.
  destruct (dbh_read (cs_dbh x1) (b_height b)) as [[hh hv] |]; [ | discriminate ].
  destruct (0 <? b_height b).
  - destruct (dbh_read (cs_dbh x1) (b_height b - 1)) as [[ph pv] |]; [ | discriminate ].
    destruct (bytes_eqb ph (b_prev b)).
    + destruct (negb _); [ discriminate | ]. inversion Er. reflexivity.
    + destruct (dbs_read _ (b_prev b)); [ | discriminate ].
      destruct (negb _); [ discriminate | ]. inversion Er. reflexivity.
  - destruct (negb _); [ discriminate | ]. inversion Er. reflexivity.
Qed.
