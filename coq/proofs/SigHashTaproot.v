(* BIP341/342 signature hash: the preimage commits to exactly taproot_view (C10). *)
From Coq Require Import NArith.
From BV Require Import lib.Ints gen.Params_gen model.SerBase model.SerTx proofs.SerBaseLemmas
                       model.SigHash model.SigHashSpec proofs.SigHashBase proofs.SigHashSegwit.
Local Open Scope Z_scope.

(* ---- optional / alternative parts of a prefix-free chain ---- *)
Definition is_some {A} (x : option A) : bool := match x with Some _ => true | None => false end.
Definition opt_all {A} (P : A -> Prop) (x : option A) : Prop := match x with Some a => P a | None => True end.
Definition opt_enc {A} (f : A -> list N) (x : option A) : list N := match x with Some a => f a | None => [] end.

Lemma pfree_opt {A} (f : A -> list N) P : pfree f P ->
  forall x y r r', is_some x = is_some y -> opt_all P x -> opt_all P y ->
  opt_enc f x ++ r = opt_enc f y ++ r' -> x = y /\ r = r'.
Proof.
  intros Hf [a|] [b|] r r' S Px Py E; cbn in *; try discriminate.
  - apply Hf in E; [|assumption ..]. destruct E as [-> ->]. split; reflexivity.
  - split; [reflexivity | exact E].
Qed.

Section WithHash.
Variable H : list N -> list N.
Hypothesis H_len : forall x, length (H x) = 32%nat.
Hypothesis H_inj : forall x y, H x = H y -> x = y.

(* a hash of an injective encoding is a 32-byte prefix-free code *)
Lemma pfree_hashed {A} (f : A -> list N) (P : A -> Prop) :
  (forall a a', P a -> P a' -> f a = f a' -> a = a') -> pfree (fun a => H (f a)) P.
Proof.
  intros I. apply pfree_fixed with (k := 32%nat); [intros; apply H_len|].
  intros a a' Pa Pa' E. apply H_inj in E. apply I; assumption.
Qed.

(* ---- the preimage as a function of the view ---- *)
Definition all_inputs_enc (x : list (list N * Z) * list Z * list (list N) * list Z) : list N :=
  let '(ops, ams, spks, sqs) := x in
  H (concat (map ser_outpoint_v ops)) ++ H (concat (map (write_le 8) ams))
  ++ H (concat (map ser_bytes spks)) ++ H (concat (map (write_le 4) sqs)).
Definition this_input_enc (x : (list N * Z) * txout * Z + nat) : list N :=
  match x with
  | inl (op, so, sq) => ser_outpoint_v op ++ ser_txout so ++ write_le 4 sq
  | inr n => write_le 4 (Z.of_nat n)
  end.
Definition leaf_enc (x : list N * Z) : list N := fst x ++ write_le 1 0 ++ write_le 4 (snd x).

Definition tap_build (v : tap_view_t) : list N :=
  write_le 1 0
  ++ write_le 1 (vt_hash_type v)
  ++ write_le 4 (vt_version v)
  ++ write_le 4 (vt_locktime v)
  ++ opt_enc all_inputs_enc (vt_all_inputs v)
  ++ opt_enc (fun outs => H (concat (map ser_txout outs))) (vt_all_outputs v)
  ++ write_le 1 (2 * (match vt_leaf v with Some _ => 1 | None => 0 end) + (match vt_annex v with Some _ => 1 | None => 0 end))
  ++ this_input_enc (vt_this_input v)
  ++ opt_enc (fun a => H (ser_bytes a)) (vt_annex v)
  ++ opt_enc (fun o => H (ser_txout o)) (vt_single_output v)
  ++ opt_enc leaf_enc (vt_leaf v).

Lemma nth_error_none_len {A} (l : list A) n : nth_error l n = None <-> (length l <=? n)%nat = true.
Proof. rewrite nth_error_None. rewrite Nat.leb_le. reflexivity. Qed.

Theorem taproot_preimage_of_view t nIn ht c :
  taproot_preimage H t nIn ht c =
  match taproot_view t nIn ht c with
  | TvAssert => ShAssert | TvMissing => ShMissing | TvFail => ShFail
  | TvOk v => ShPre (tap_build v)
  end.
Proof.
  unfold taproot_preimage, taproot_view.
  destruct (nth_error (tx_vin t) nIn) as [me|]; [|reflexivity].
  destruct (tc_spent c) as [|s0 sp] eqn:Esp; [reflexivity|].
  destruct (nth_error (s0 :: sp) nIn) as [spent_me|]; [|reflexivity].
  destruct (negb (length (s0 :: sp) =? length (tx_vin t))%nat); [reflexivity|].
  destruct (negb (tap_hash_type_valid ht)); [reflexivity|].
  destruct (tap_output_type ht =? SIGHASH_SINGLE) eqn:Es.
  - cbn [andb]. destruct (nth_error (tx_vout t) nIn) as [o|] eqn:En.
    + assert (L : (length (tx_vout t) <=? nIn)%nat = false).
      { destruct (length (tx_vout t) <=? nIn)%nat eqn:L; [|reflexivity].
        apply nth_error_none_len in L. congruence. }
      rewrite L. unfold tap_build. cbn [vt_hash_type vt_version vt_locktime vt_all_inputs vt_all_outputs vt_annex vt_this_input vt_single_output vt_leaf].
      f_equal. f_equal. f_equal. f_equal. f_equal.
      destruct (tap_acp ht); cbn [negb opt_enc all_inputs_enc this_input_enc];
        unfold sha_prevouts, sha_amounts, sha_scriptpubkeys, sha_sequences, sha_outputs, annex_hash;
        rewrite ?map_ser_outpoint, ?map_ser_sequence, ?map_map, <- ?app_assoc;
        destruct (tap_output_type ht =? SIGHASH_ALL); destruct (tc_annex c); destruct (tc_leaf c) as [[lf ps]|]; reflexivity.
    + apply nth_error_none_len in En. rewrite En. reflexivity.
  - cbn [andb]. unfold tap_build. cbn [vt_hash_type vt_version vt_locktime vt_all_inputs vt_all_outputs vt_annex vt_this_input vt_single_output vt_leaf].
    f_equal. f_equal. f_equal. f_equal. f_equal.
    destruct (tap_acp ht); cbn [negb opt_enc all_inputs_enc this_input_enc];
      unfold sha_prevouts, sha_amounts, sha_scriptpubkeys, sha_sequences, sha_outputs, annex_hash;
      rewrite ?map_ser_outpoint, ?map_ser_sequence, ?map_map, <- ?app_assoc;
      destruct (tap_output_type ht =? SIGHASH_ALL); destruct (tc_annex c); destruct (tc_leaf c) as [[lf ps]|]; reflexivity.
Qed.

(* ---- well-formed views ---- *)
Definition is_inl {A B} (x : A + B) : bool := match x with inl _ => true | inr _ => false end.
Definition u32_ok (v : Z) : Prop := 0 <= v <= UINT32_MAX.
Definition i64_ok (v : Z) : Prop := INT64_MIN <= v <= INT64_MAX.
Definition all_inputs_ok (x : list (list N * Z) * list Z * list (list N) * list Z) : Prop :=
  let '(ops, ams, spks, sqs) := x in
  Forall outpoint_ok ops /\ Forall i64_ok ams /\ Forall len_ok spks /\ Forall u32_ok sqs.
Definition this_input_ok (x : (list N * Z) * txout * Z + nat) : Prop :=
  match x with
  | inl (op, so, sq) => outpoint_ok op /\ txout_ok so /\ u32_ok sq
  | inr n => Z.of_nat n <= UINT32_MAX
  end.
Definition leaf_ok (x : list N * Z) : Prop := length (fst x) = 32%nat /\ u32_ok (snd x).

Definition tap_view_wf (v : tap_view_t) : Prop :=
  0 <= vt_hash_type v < 256 /\ u32_ok (vt_version v) /\ u32_ok (vt_locktime v) /\
  opt_all all_inputs_ok (vt_all_inputs v) /\ opt_all (Forall txout_ok) (vt_all_outputs v) /\
  opt_all len_ok (vt_annex v) /\ this_input_ok (vt_this_input v) /\ opt_all txout_ok (vt_single_output v) /\
  opt_all leaf_ok (vt_leaf v) /\
  (* which parts are present is decided by the hash type *)
  is_some (vt_all_inputs v) = negb (tap_acp (vt_hash_type v)) /\
  is_some (vt_all_outputs v) = (tap_output_type (vt_hash_type v) =? SIGHASH_ALL) /\
  is_inl (vt_this_input v) = tap_acp (vt_hash_type v) /\
  is_some (vt_single_output v) = (tap_output_type (vt_hash_type v) =? SIGHASH_SINGLE).

Lemma spent_values_ok l : Forall txout_wf l -> Forall i64_ok (map out_value l).
Proof. intros F. rewrite Forall_map. eapply Forall_impl; [|exact F]. intros o (Ho & _). exact Ho. Qed.
Lemma spent_scripts_ok l : Forall txout_wf l -> Forall len_ok (map out_script l).
Proof. intros F. rewrite Forall_map. eapply Forall_impl; [|exact F]. intros o Ho. apply txout_wf_ok in Ho. apply Ho. Qed.

Lemma taproot_view_wf t nIn ht c v :
  tx_wf t -> 0 <= ht < 256 -> tap_ctx_wf c -> taproot_view t nIn ht c = TvOk v -> tap_view_wf v.
Proof.
  intros (Hv & Hl & Hnin & _ & Fi & Fo) Hht (Fs & Han & Hlf). unfold taproot_view.
  destruct (nth_error (tx_vin t) nIn) as [me|] eqn:N1; [|discriminate].
  destruct (tc_spent c) as [|s0 sp] eqn:Esp; [discriminate|].
  destruct (nth_error (s0 :: sp) nIn) as [spent_me|] eqn:N2; [|discriminate].
  destruct (negb _); [discriminate|]. destruct (negb _); [discriminate|].
  destruct (_ && _) eqn:Eso; [discriminate|].
  intros E. injection E as <-.
  pose proof (nth_error_Forall _ _ _ _ Fi N1) as W1. pose proof (nth_error_Forall _ _ _ _ Fs N2) as W2.
  assert (Hn : Z.of_nat nIn <= UINT32_MAX).
  { assert (nIn < length (tx_vin t))%nat by (apply nth_error_Some; congruence).
    rewrite max_size_value in Hnin. unfold UINT32_MAX. lia. }
  unfold tap_view_wf. cbn [vt_hash_type vt_version vt_locktime vt_all_inputs vt_all_outputs vt_annex vt_this_input vt_single_output vt_leaf].
  split; [exact Hht|]. split; [exact Hv|]. split; [exact Hl|].
  split.
  { destruct (tap_acp ht); cbn [negb opt_all all_inputs_ok]; [exact I|].
    split; [apply vin_outpoints_ok; assumption|].
    split; [exact (spent_values_ok _ Fs)|].
    split; [exact (spent_scripts_ok _ Fs)|].
    apply vin_sequences_ok; assumption. }
  split.
  { destruct (_ =? SIGHASH_ALL); cbn [opt_all]; [apply vout_ok; assumption | exact I]. }
  split; [exact Han|].
  split.
  { destruct (tap_acp ht); cbn [this_input_ok]; [|exact Hn].
    split; [apply txin_wf_outpoint; exact W1|].
    split; [apply txout_wf_ok; exact W2|].
    destruct W1 as (_ & _ & _ & _ & _ & Q & _). exact Q. }
  split.
  { destruct (_ =? SIGHASH_SINGLE); cbn [opt_all]; [|exact I].
    destruct (nth_error (tx_vout t) nIn) as [o|] eqn:N3; cbn [opt_all]; [|exact I].
    apply txout_wf_ok. exact (nth_error_Forall _ _ _ _ Fo N3). }
  split.
  { destruct (tc_leaf c) as [[lf ps]|]; cbn [opt_all]; [|exact I]. exact Hlf. }
  split; [destruct (tap_acp ht); reflexivity|].
  split; [destruct (_ =? SIGHASH_ALL); reflexivity|].
  split; [destruct (tap_acp ht); reflexivity|].
  destruct (_ =? SIGHASH_SINGLE) eqn:Es; [|reflexivity].
  cbn [andb] in Eso. destruct (nth_error (tx_vout t) nIn) eqn:N3; [reflexivity|].
  apply nth_error_none_len in N3. congruence.
Qed.

(* ---- the encoders of the parts are prefix-free ---- *)
Lemma pfree_all_inputs : pfree all_inputs_enc all_inputs_ok.
Proof.
  apply pfree_fixed with (k := 128%nat).
  - intros [[[ops ams] spks] sqs] _. unfold all_inputs_enc. rewrite !app_length, !H_len. reflexivity.
  - intros [[[ops ams] spks] sqs] [[[ops' ams'] spks'] sqs'] (F1 & F2 & F3 & F4) (F1' & F2' & F3' & F4') E.
    unfold all_inputs_enc in E.
    apply app_inj_length in E; [|rewrite !H_len; reflexivity]. destruct E as [E1 E].
    apply app_inj_length in E; [|rewrite !H_len; reflexivity]. destruct E as [E2 E].
    apply app_inj_length in E; [|rewrite !H_len; reflexivity]. destruct E as [E3 E4].
    apply H_inj in E1, E2, E3, E4.
    apply concat_outpoints_inj in E1; [|assumption ..].
    apply concat_le8_inj in E2; [|assumption ..].
    apply concat_ser_bytes_inj in E3; [|assumption ..].
    apply concat_le4_inj in E4; [|assumption ..].
    subst. reflexivity.
Qed.

Lemma pfree_this_input : forall x y r r', is_inl x = is_inl y -> this_input_ok x -> this_input_ok y ->
  this_input_enc x ++ r = this_input_enc y ++ r' -> x = y /\ r = r'.
Proof.
  intros [[[op so] sq]|n] [[[op' so'] sq']|n'] r r' S Px Py E; cbn in S; try discriminate; cbn [this_input_enc] in E.
  - destruct Px as (P1 & P2 & P3). destruct Py as (P1' & P2' & P3'). rewrite <- !app_assoc in E.
    apply pfree_outpoint in E; [|assumption ..]. destruct E as [-> E].
    apply pfree_txout in E; [|assumption ..]. destruct E as [-> E].
    apply pfree_le4_u in E; [|assumption ..]. destruct E as [-> ->]. split; reflexivity.
  - cbn in Px, Py. apply pfree_le4_u in E; [|lia ..]. destruct E as [E ->].
    apply Nat2Z.inj in E. subst. split; reflexivity.
Qed.

Lemma pfree_leaf : pfree leaf_enc leaf_ok.
Proof.
  intros [lf ps] [lf' ps'] r r' [L Q] [L' Q'] E. unfold leaf_enc in E. cbn [fst snd] in *. rewrite <- !app_assoc in E.
  apply app_inj_length in E; [|congruence]. destruct E as [-> E].
  apply app_inj_length in E; [|reflexivity]. destruct E as [_ E].
  apply pfree_le4_u in E; [|assumption ..]. destruct E as [-> ->]. split; reflexivity.
Qed.

Lemma spend_type_inj (l1 a1 l2 a2 : bool) r r' :
  write_le 1 (2 * (if l1 then 1 else 0) + (if a1 then 1 else 0)) ++ r =
  write_le 1 (2 * (if l2 then 1 else 0) + (if a2 then 1 else 0)) ++ r' -> l1 = l2 /\ a1 = a2 /\ r = r'.
Proof.
  intros E. apply pfree_le1_u in E; [|destruct l1, a1; lia | destruct l2, a2; lia].
  destruct E as [E ->]. destruct l1, a1, l2, a2; try lia; repeat split; reflexivity.
Qed.

Lemma some_flag {A} (x : option A) : match x with Some _ => 1 | None => 0 end = if is_some x then 1 else 0.
Proof. destruct x; reflexivity. Qed.

(* the preimage determines the view *)
Theorem tap_build_inj v1 v2 : tap_view_wf v1 -> tap_view_wf v2 -> tap_build v1 = tap_build v2 -> v1 = v2.
Proof.
  destruct v1 as [ht1 ver1 lk1 ai1 ao1 an1 ti1 so1 lf1]. destruct v2 as [ht2 ver2 lk2 ai2 ao2 an2 ti2 so2 lf2].
  unfold tap_view_wf, tap_build.
  cbn [vt_hash_type vt_version vt_locktime vt_all_inputs vt_all_outputs vt_annex vt_this_input vt_single_output vt_leaf].
  intros (Hh1 & Hv1 & Hl1 & Pai1 & Pao1 & Pan1 & Pti1 & Pso1 & Plf1 & Sai1 & Sao1 & Sti1 & Sso1)
         (Hh2 & Hv2 & Hl2 & Pai2 & Pao2 & Pan2 & Pti2 & Pso2 & Plf2 & Sai2 & Sao2 & Sti2 & Sso2) E.
  apply pfree_le1_u in E; [|lia ..]. destruct E as [_ E].
  apply pfree_le1_u in E; [|assumption ..]. destruct E as [<- E].
  apply pfree_le4_u in E; [|assumption ..]. destruct E as [<- E].
  apply pfree_le4_u in E; [|assumption ..]. destruct E as [<- E].
  apply (pfree_opt _ _ pfree_all_inputs) in E; [|congruence | assumption ..]. destruct E as [<- E].
  apply (pfree_opt (fun outs => H (concat (map ser_txout outs))) (Forall txout_ok)) in E;
    [|apply pfree_hashed; intros; apply concat_txouts_inj; assumption | congruence | assumption ..].
  destruct E as [<- E].
  rewrite !some_flag in E. apply spend_type_inj in E. destruct E as (Slf & San & E).
  apply pfree_this_input in E; [|congruence | assumption ..]. destruct E as [<- E].
  apply (pfree_opt (fun a => H (ser_bytes a)) len_ok) in E;
    [|apply pfree_hashed; intros; apply (pfree_inj _ _ pfree_ser_bytes); assumption | assumption ..].
  destruct E as [<- E].
  apply (pfree_opt (fun o => H (ser_txout o)) txout_ok) in E;
    [|apply pfree_hashed; intros; apply (pfree_inj _ _ pfree_txout); assumption | congruence | assumption ..].
  destruct E as [<- E].
  assert (E' : opt_enc leaf_enc lf1 ++ [] = opt_enc leaf_enc lf2 ++ []) by (rewrite !app_nil_r; exact E).
  apply (pfree_opt _ _ pfree_leaf) in E'; [|assumption ..]. destruct E' as [<- _].
  reflexivity.
Qed.

(* BIP341 commits to exactly its view *)
Theorem taproot_commitment t1 n1 ht1 c1 t2 n2 ht2 c2 :
  tx_wf t1 -> tx_wf t2 -> 0 <= ht1 < 256 -> 0 <= ht2 < 256 -> tap_ctx_wf c1 -> tap_ctx_wf c2 ->
  (taproot_preimage H t1 n1 ht1 c1 = taproot_preimage H t2 n2 ht2 c2
   <-> taproot_view t1 n1 ht1 c1 = taproot_view t2 n2 ht2 c2).
Proof.
  intros W1 W2 Hh1 Hh2 C1 C2. rewrite !taproot_preimage_of_view.
  destruct (taproot_view t1 n1 ht1 c1) as [| | |v1] eqn:V1; destruct (taproot_view t2 n2 ht2 c2) as [| | |v2] eqn:V2;
    try (split; intros E; (discriminate || reflexivity)).
  split.
  - intros E. apply ShPre_inj in E. f_equal.
    apply tap_build_inj; [exact (taproot_view_wf _ _ _ _ _ W1 Hh1 C1 V1) | exact (taproot_view_wf _ _ _ _ _ W2 Hh2 C2 V2) | exact E].
  - intros E. injection E as ->. reflexivity.
Qed.

(* the digest inherits it: the tagged hash is H applied to a fixed 64-byte prefix followed by the preimage *)
Corollary taproot_digest_commitment t1 n1 ht1 c1 t2 n2 ht2 c2 d :
  tx_wf t1 -> tx_wf t2 -> 0 <= ht1 < 256 -> 0 <= ht2 < 256 -> tap_ctx_wf c1 -> tap_ctx_wf c2 ->
  taproot_sighash H t1 n1 ht1 c1 = ShPre d -> taproot_sighash H t2 n2 ht2 c2 = ShPre d ->
  taproot_view t1 n1 ht1 c1 = taproot_view t2 n2 ht2 c2.
Proof.
  intros W1 W2 Hh1 Hh2 C1 C2 D1 D2.
  apply (taproot_commitment t1 n1 ht1 c1 t2 n2 ht2 c2); try assumption.
  unfold taproot_sighash in D1, D2.
  destruct (taproot_preimage H t1 n1 ht1 c1) as [| | | |p1]; try discriminate.
  destruct (taproot_preimage H t2 n2 ht2 c2) as [| | | |p2]; try discriminate.
  apply ShPre_inj in D1. apply ShPre_inj in D2. rewrite <- D2 in D1. unfold tagged_hash in D1.
  apply H_inj in D1. apply app_inv_head in D1. apply app_inv_head in D1. rewrite D1. reflexivity.
Qed.

Corollary taproot_view_change_changes_digest t1 n1 ht1 c1 t2 n2 ht2 c2 d1 d2 :
  tx_wf t1 -> tx_wf t2 -> 0 <= ht1 < 256 -> 0 <= ht2 < 256 -> tap_ctx_wf c1 -> tap_ctx_wf c2 ->
  taproot_view t1 n1 ht1 c1 <> taproot_view t2 n2 ht2 c2 ->
  taproot_sighash H t1 n1 ht1 c1 = ShPre d1 -> taproot_sighash H t2 n2 ht2 c2 = ShPre d2 -> d1 <> d2.
Proof.
  intros W1 W2 Hh1 Hh2 C1 C2 Hne D1 D2 E. subst d2. apply Hne.
  exact (taproot_digest_commitment _ _ _ _ _ _ _ _ _ W1 W2 Hh1 Hh2 C1 C2 D1 D2).
Qed.

(* tapleaf hash: commits to the leaf version and the script *)
Theorem tapleaf_hash_commitment lv1 s1 lv2 s2 :
  0 <= lv1 < 256 -> 0 <= lv2 < 256 -> len_ok s1 -> len_ok s2 ->
  tapleaf_hash H lv1 s1 = tapleaf_hash H lv2 s2 -> lv1 = lv2 /\ s1 = s2.
Proof.
  intros L1 L2 S1 S2 E. unfold tapleaf_hash, tagged_hash in E. apply H_inj in E.
  apply app_inv_head in E. apply app_inv_head in E.
  assert (E' : write_le 1 lv1 ++ ser_bytes s1 ++ [] = write_le 1 lv2 ++ ser_bytes s2 ++ []) by (rewrite !app_nil_r; exact E).
  apply pfree_le1_u in E'; [|assumption ..]. destruct E' as [-> E'].
  apply pfree_ser_bytes in E'; [|assumption ..]. destruct E' as [-> _]. split; reflexivity.
Qed.

End WithHash.
