(* C42: proofs about the wallet encryption model (model/WalletCrypt.v). *)
From Coq Require Import ZArith NArith List Bool Lia.
From BV Require Import lib.Ints model.CryptoBase model.CryptoSHA512 model.CryptoAES proofs.CryptoAESLemmas model.WalletCrypt.
Import ListNotations.

Lemma bytes_eqb_refl a : bytes_eqb a a = true.
Proof. induction a as [|x r IH]; cbn; [reflexivity|]. rewrite N.eqb_refl, IH. reflexivity. Qed.

Lemma bytes_eqb_eq a : forall b, bytes_eqb a b = true -> a = b.
Proof.
  induction a as [|x r IH]; intros [|y s] H; cbn in H; try discriminate; [reflexivity|].
  apply andb_true_iff in H. destruct H as [H1 H2]. apply N.eqb_eq in H1. subst. f_equal. apply IH; exact H2.
Qed.

Lemma rkey_eqb_refl k : rkey_eqb k k = true.
Proof. destruct k; cbn; apply Nat.eqb_refl. Qed.

(* ---------------------------------------------------------------------------------------------- *)
(* database layer: inside a transaction the committed contents do not move *)

Lemma db_write_committed s k v p : pending s = Some p -> committed (db_write s k v) = committed s /\ exists p', pending (db_write s k v) = Some p'.
Proof. intros H. unfold db_write. rewrite H. cbn. split; [reflexivity|eexists; reflexivity]. Qed.

Section Cipher.
  Variable c : cipher.
  (* the mathematical premise about the cipher: decryption with the same key and IV inverts encryption *)
  Hypothesis round_trip : forall k iv p, c_dec c k iv (c_enc c k iv p) = Some p.

  Lemma decrypt_key_of_encrypted mk sec :
    length sec = 32 -> decrypt_key c mk (c_enc c mk (c_iv c (c_pub c sec)) sec) (c_pub c sec) = Some sec.
  Proof.
    intros H. unfold decrypt_key. rewrite round_trip, H, bytes_eqb_refl. reflexivity.
  Qed.

  Lemma decrypt_master_of_encrypted pass salt mk :
    decrypt_master c pass (encrypt_master c pass salt mk) = Some mk.
  Proof.
    unfold decrypt_master, encrypt_master. destruct (c_kdf c pass salt) as [k iv] eqn:E. cbn [fst snd]. rewrite E. apply round_trip.
  Qed.

  (* a manager holding its key only in encrypted form, correctly encrypted under mk *)
  Definition enc_under (mk : bytes) (s : spkm) : Prop :=
    s_plain s = None /\ exists sec, length sec = 32 /\ s_pub s = c_pub c sec /\ s_crypt s = Some (c_enc c mk (c_iv c (s_pub s)) sec).

  Lemma enc_under_check mk s : enc_under mk s -> check_decryption_key c mk s = true.
  Proof.
    intros (Hp & sec & Hl & Hpub & Hc). unfold check_decryption_key. rewrite Hp, Hc, Hpub.
    rewrite decrypt_key_of_encrypted by exact Hl. reflexivity.
  Qed.

  (* Unlock with a passphrase: soundness.  The unlocked state is only entered with a master key that (a) is what the
     passphrase-derived key decrypts from a stored master key record and (b) decrypts every manager's crypted key to a
     32-byte secret whose public key is the stored public key; no manager holds a plaintext key. *)
  Lemma unlock_mk_sound st mk st' :
    unlock_mk c st mk = Some st' ->
    w_vm st' = Some mk /\ w_spk st' = w_spk st /\ w_mk st' = w_mk st /\ w_db st' = w_db st /\ w_dirty st' = w_dirty st /\ w_dead st' = w_dead st /\ w_maxid st' = w_maxid st /\
    forall s, In s (w_spk st) -> s_plain s = None /\
      forall ct, s_crypt s = Some ct -> exists sec, c_dec c mk (c_iv c (s_pub s)) ct = Some sec /\ length sec = 32 /\ c_pub c sec = s_pub s.
  Proof.
    unfold unlock_mk. destruct (forallb (check_decryption_key c mk) (w_spk st)) eqn:F; [|discriminate].
    intros H; inversion H; subst; clear H. cbn. repeat split; try reflexivity.
    - rewrite forallb_forall in F. specialize (F s H). unfold check_decryption_key in F. destruct (s_plain s); [discriminate|reflexivity].
    - intros ct Hc. rewrite forallb_forall in F. specialize (F s H). unfold check_decryption_key in F.
      destruct (s_plain s); [discriminate|]. rewrite Hc in F. unfold decrypt_key in F.
      destruct (c_dec c mk (c_iv c (s_pub s)) ct) as [sec|]; [|discriminate].
      destruct (Nat.eqb (length sec) 32 && bytes_eqb (c_pub c sec) (s_pub s)) eqn:E; [|discriminate].
      apply andb_true_iff in E. destruct E as [E1 E2]. exists sec. split; [reflexivity|]. split; [apply Nat.eqb_eq; exact E1|apply bytes_eqb_eq; exact E2].
  Qed.

  Lemma unlock_loop_sound st pass l st' :
    unlock_pass_loop c st pass l = Some st' ->
    exists id rec mk, In (id, rec) l /\ decrypt_master c pass rec = Some mk /\ unlock_mk c st mk = Some st'.
  Proof.
    induction l as [|[id rec] r IH]; cbn; [discriminate|]. intros H.
    destruct (decrypt_master c pass rec) as [mk|] eqn:D.
    - destruct (unlock_mk c st mk) as [st1|] eqn:U.
      + inversion H; subst. exists id, rec, mk. split; [left; reflexivity|]. split; assumption.
      + destruct (IH H) as (i & r0 & m & A & B & C). exists i, r0, m. split; [right; exact A|]. split; assumption.
    - destruct (IH H) as (i & r0 & m & A & B & C). exists i, r0, m. split; [right; exact A|]. split; assumption.
  Qed.

  Lemma unlock_pass_sound st pass st' :
    unlock_pass c st pass = (st', true) ->
    exists id rec mk, In (id, rec) (w_mk st) /\ decrypt_master c pass rec = Some mk /\ w_vm st' = Some mk /\
      forall s, In s (w_spk st) -> s_plain s = None /\
        forall ct, s_crypt s = Some ct -> exists sec, c_dec c mk (c_iv c (s_pub s)) ct = Some sec /\ length sec = 32 /\ c_pub c sec = s_pub s.
  Proof.
    unfold unlock_pass. destruct (unlock_pass_loop c st pass (w_mk st)) as [st1|] eqn:L; [|discriminate].
    intros H; inversion H; subst; clear H.
    destruct (unlock_loop_sound _ _ _ _ L) as (id & rec & mk & A & B & C).
    destruct (unlock_mk_sound _ _ _ C) as (V & _ & _ & _ & _ & _ & _ & S).
    exists id, rec, mk. repeat split; try assumption; apply S; assumption.
  Qed.

  Lemma unlock_pass_fail st pass st' : unlock_pass c st pass = (st', false) -> st' = st.
  Proof. unfold unlock_pass. destruct (unlock_pass_loop c st pass (w_mk st)); intros H; inversion H; reflexivity. Qed.

  (* signing needs a key: while the wallet is locked a manager can only produce a key it holds in plaintext *)
  Lemma locked_get_key st s : is_locked st = true -> get_key c st s = s_plain s.
  Proof.
    intros H. unfold get_key. unfold is_locked in H. apply andb_true_iff in H. destruct H as [H1 H2].
    unfold is_locked. rewrite H1. cbn. destruct (w_vm st); [discriminate|]. cbn. reflexivity.
  Qed.

  Lemma locked_cannot_sign st :
    is_locked st = true -> (forall s, In s (w_spk st) -> s_plain s = None) -> can_sign c st = 0.
  Proof.
    intros L H. unfold can_sign. induction (w_spk st) as [|s r IH]; [reflexivity|].
    cbn [filter]. rewrite (locked_get_key _ _ L), (H s (or_introl eq_refl)). apply IH. intros s' Hin. apply H. right; exact Hin.
  Qed.

  (* unlocked with the master key the keys were encrypted under: every manager gives back exactly its secret *)
  Lemma unlocked_get_key st mk s sec :
    has_enc st = true -> w_vm st = Some mk ->
    s_crypt s = Some (c_enc c mk (c_iv c (c_pub c sec)) sec) -> s_pub s = c_pub c sec -> length sec = 32 ->
    get_key c st s = Some sec.
  Proof.
    intros He Hv Hc Hp Hl. unfold get_key, is_locked. rewrite He, Hv. cbn. rewrite Hc, Hp. apply decrypt_key_of_encrypted. exact Hl.
  Qed.

  (* ------------------------------------------------------------------------------------------ *)
  (* EncryptWallet *)

  (* a manager of an unencrypted wallet *)
  Definition plain_ok (s : spkm) : Prop :=
    s_crypt s = None /\ exists sec, s_plain s = Some sec /\ length sec = 32 /\ s_pub s = c_pub c sec.

  Definition in_txn (d : dbst) : Prop := exists p, pending d = Some p.

  Lemma in_txn_write d k v : in_txn d -> in_txn (db_write d k v) /\ committed (db_write d k v) = committed d.
  Proof. intros [p H]. unfold db_write, in_txn. rewrite H. cbn. split; [eexists; reflexivity|reflexivity]. Qed.

  (* what Encrypt of one manager does; `good` = its two database calls succeeded *)
  Lemma spkm_encrypt_props chk mk s d o s' d' o' :
    plain_ok s -> in_txn d -> spkm_encrypt chk c mk s d o = Some (s', d', o') ->
    enc_under mk s' /\ s_id s' = s_id s /\ in_txn d' /\ committed d' = committed d /\
    (forall p p', pending d = Some p -> pending d' = Some p' ->
       (forall k, k <> KCrypt (s_id s) -> k <> KPlain (s_id s) -> p' k = p k) /\
       ((chk = true \/ (fst (pop o) = true /\ fst (pop (snd (pop o))) = true)) -> p' (KPlain (s_id s)) = None /\ p' (KCrypt (s_id s)) <> None)).
  Proof.
    intros (Hc & sec & Hp & Hl & Hpub) [p0 Hpend] H. unfold spkm_encrypt in H. rewrite Hc, Hp in H.
    assert (EU : enc_under mk (mkS (s_id s) (s_pub s) None (Some (c_enc c mk (c_iv c (s_pub s)) sec)))).
    { split; [reflexivity|]. exists sec. cbn. repeat split; auto. }
    destruct (pop o) as [w o1] eqn:P1. destruct w.
    - destruct (pop o1) as [e o2] eqn:P2. destruct e.
      + inversion H; subst; clear H. split; [exact EU|]. split; [reflexivity|].
        unfold db_write. rewrite Hpend. cbn. split; [eexists; reflexivity|]. split; [reflexivity|].
        intros p p' E1 E2. inversion E1; subst. inversion E2; subst. split.
        * intros k Hk1 Hk2. unfold db_set. destruct (rkey_eqb k (KPlain (s_id s))) eqn:A.
          { destruct k; cbn in A; try discriminate. apply Nat.eqb_eq in A. subst. congruence. }
          destruct (rkey_eqb k (KCrypt (s_id s))) eqn:B; [|reflexivity].
          destruct k; cbn in B; try discriminate. apply Nat.eqb_eq in B. subst. congruence.
        * intros _. unfold db_set. cbn [rkey_eqb]. rewrite !Nat.eqb_refl. split; [reflexivity|discriminate].
      + destruct chk; [discriminate|]. inversion H; subst; clear H. split; [exact EU|]. split; [reflexivity|].
        unfold db_write. rewrite Hpend. cbn. split; [eexists; reflexivity|]. split; [reflexivity|].
        intros p p' E1 E2. inversion E1; subst. inversion E2; subst. split.
        * intros k Hk1 Hk2. unfold db_set. destruct (rkey_eqb k (KCrypt (s_id s))) eqn:B; [|reflexivity].
          destruct k; cbn in B; try discriminate. apply Nat.eqb_eq in B. subst. congruence.
        * intros [X|[_ X]]; [discriminate|]. cbn in X. rewrite P2 in X. cbn in X. discriminate.
    - destruct chk; [discriminate|]. inversion H; subst; clear H. split; [exact EU|]. split; [reflexivity|].
      split; [eexists; exact Hpend|]. split; [reflexivity|].
      intros p p' E1 E2. rewrite E1 in E2. inversion E2; subst. split; [reflexivity|].
      intros [X|[X _]]; discriminate.
  Qed.

  Definition good (chk : bool) (o : list bool) : Prop := chk = true \/ o = [].

  Lemma good_pop chk o : good chk o -> good chk (snd (pop o)) /\ (chk = true \/ fst (pop o) = true).
  Proof. intros [H|H]; [split; left; exact H|subst; cbn; split; right; reflexivity]. Qed.

  Lemma encrypt_all_props chk mk l : forall d o l' d' o',
    Forall plain_ok l -> NoDup (map s_id l) -> in_txn d -> good chk o ->
    encrypt_all chk c mk l d o = Some (l', d', o') ->
    Forall (enc_under mk) l' /\ map s_id l' = map s_id l /\ in_txn d' /\ committed d' = committed d /\ good chk o' /\
    forall p p', pending d = Some p -> pending d' = Some p' ->
      (forall k, (forall id, In id (map s_id l) -> k <> KCrypt id /\ k <> KPlain id) -> p' k = p k) /\
      (forall id, In id (map s_id l) -> p' (KPlain id) = None /\ p' (KCrypt id) <> None).
  Proof.
    induction l as [|s r IH]; intros d o l' d' o' Hpl Hnd Ht Hg H; cbn [encrypt_all] in H.
    - inversion H; subst. split; [constructor|]. split; [reflexivity|]. split; [exact Ht|]. split; [reflexivity|]. split; [exact Hg|].
      intros q q' E1 E2. rewrite E1 in E2. inversion E2; subst. split; [reflexivity|intros id []].
    - inversion Hpl as [|x y Hs Hr]; subst. cbn [map] in Hnd. inversion Hnd as [|x y Hni Hnd']; subst.
      destruct (spkm_encrypt chk c mk s d o) as [[[s1 d1] o1]|] eqn:E; [|discriminate].
      destruct (encrypt_all chk c mk r d1 o1) as [[[r1 d2] o2]|] eqn:R; [|discriminate].
      inversion H; subst; clear H.
      destruct (spkm_encrypt_props _ _ _ _ _ _ _ _ Hs Ht E) as (EU & Hid & Ht1 & Hc1 & Hp1).
      assert (Hg1 : good chk o1).
      { unfold spkm_encrypt in E. destruct Hs as (Hc & sec & Hp & _). rewrite Hc, Hp in E.
        destruct Hg as [Hg|Hg]; [left; exact Hg|]. subst o. cbn in E. inversion E; subst. right; reflexivity. }
      destruct (IH _ _ _ _ _ Hr Hnd' Ht1 Hg1 R) as (F2 & M2 & Ht2 & Hc2 & Hg2 & Hp2).
      split; [constructor; assumption|]. split; [cbn; rewrite Hid, M2; reflexivity|]. split; [exact Ht2|]. split; [rewrite Hc2, Hc1; reflexivity|].
      split; [exact Hg2|].
      intros p p' E1 E2. destruct Ht1 as [p1 Ep1]. destruct (Hp1 _ _ E1 Ep1) as [A1 B1]. destruct (Hp2 _ _ Ep1 E2) as [A2 B2].
      split.
      + intros k Hk. rewrite A2; [apply A1; apply (Hk (s_id s)); left; reflexivity|]. intros id Hin. apply Hk. right; exact Hin.
      + intros id [Hin|Hin].
        * subst id. assert (Hgood : chk = true \/ fst (pop o) = true /\ fst (pop (snd (pop o))) = true).
          { destruct Hg as [Hg|Hg]; [left; exact Hg|right; subst o; cbn; split; reflexivity]. }
          destruct (B1 Hgood) as [X Y].
          rewrite (A2 (KPlain (s_id s))), (A2 (KCrypt (s_id s))); [split; assumption| |];
          intros id' Hin'; split; intros Heq; inversion Heq; subst; contradiction.
        * apply B2. exact Hin.
  Qed.

  (* the wallet before encryption: unencrypted managers, distinct ids, no open transaction, and every plaintext key
     record in the database belongs to one of the managers *)
  Definition plain_wallet (st : wst) : Prop :=
    w_mk st = [] /\ Forall plain_ok (w_spk st) /\ NoDup (map s_id (w_spk st)) /\ pending (w_db st) = None /\
    forall id, committed (w_db st) (KPlain id) <> None -> In id (map s_id (w_spk st)).

  (* phase 1 ends early: nothing on disk has changed (whatever fails, whatever `chk`) *)
  Lemma spkm_encrypt_txn chk mk s d o s' d' o' :
    in_txn d -> spkm_encrypt chk c mk s d o = Some (s', d', o') -> in_txn d' /\ committed d' = committed d.
  Proof.
    intros T H. unfold spkm_encrypt in H. destruct (s_crypt s); [discriminate|].
    destruct (s_plain s) as [sec|]; [|inversion H; subst; split; [exact T|reflexivity]].
    destruct (pop o) as [w oa]. destruct w.
    - destruct (pop oa) as [e ob]. destruct e.
      + inversion H; subst. destruct (in_txn_write d (KCrypt (s_id s)) (Some (VCrypt (c_enc c mk (c_iv c (s_pub s)) sec))) T) as [Ta Ca].
        destruct (in_txn_write _ (KPlain (s_id s)) None Ta) as [Tb Cb]. split; [exact Tb|rewrite Cb, Ca; reflexivity].
      + destruct chk; [discriminate|]. inversion H; subst. apply in_txn_write; exact T.
    - destruct chk; [discriminate|]. inversion H; subst. split; [exact T|reflexivity].
  Qed.

  Lemma encrypt_all_txn chk mk l : forall d o l' d' o',
    in_txn d -> encrypt_all chk c mk l d o = Some (l', d', o') -> in_txn d' /\ committed d' = committed d.
  Proof.
    induction l as [|s r IH]; intros d o l' d' o' T H; cbn [encrypt_all] in H.
    - inversion H; subst. split; [exact T|reflexivity].
    - destruct (spkm_encrypt chk c mk s d o) as [[[s1 d1] o1]|] eqn:E; [|discriminate].
      destruct (encrypt_all chk c mk r d1 o1) as [[[r1 d2] o2]|] eqn:R; [|discriminate]. inversion H; subst.
      destruct (spkm_encrypt_txn _ _ _ _ _ _ _ _ T E) as [T1 C1]. destruct (IH _ _ _ _ _ T1 R) as [T2 C2].
      split; [exact T2|rewrite C2, C1; reflexivity].
  Qed.

  Lemma phase1_early chk st pass mk salt o st' r :
    pending (w_db st) = None -> encrypt_phase1 chk c st pass mk salt o = inl (st', r) ->
    committed (w_db st') = committed (w_db st) /\ pending (w_db st') = None.
  Proof.
    intros Hpe H. unfold encrypt_phase1 in H.
    destruct (has_enc st); [inversion H; subst; split; [reflexivity|exact Hpe]|].
    destruct (pop o) as [b o1]. destruct b; cbn [negb] in H; [|destruct chk; inversion H; subst; cbn; split; [reflexivity|exact Hpe|reflexivity|exact Hpe]].
    destruct (pop o1) as [wm o2].
    assert (T0 : in_txn (db_begin (w_db st))) by (eexists; reflexivity).
    destruct wm; cbn [negb andb] in H.
    - destruct (in_txn_write (db_begin (w_db st)) (KMaster (S (w_maxid st)))
                  (Some (VMaster (fst (encrypt_master c pass salt mk)) (snd (encrypt_master c pass salt mk)))) T0) as [T1 C1].
      destruct (encrypt_all chk c mk (w_spk st) _ o2) as [[[spk' d2] o3]|] eqn:E.
      + destruct (encrypt_all_txn _ _ _ _ _ _ _ _ T1 E) as [T2 C2].
        destruct (pop o3) as [cm o4]. destruct cm; cbn [negb] in H; [discriminate|]. inversion H; subst. cbn. split; [|reflexivity].
        rewrite C2, C1. reflexivity.
      + inversion H; subst. cbn. split; [exact C1|reflexivity].
    - destruct chk; cbn in H.
      + inversion H; subst. cbn. split; reflexivity.
      + destruct (encrypt_all false c mk (w_spk st) (db_begin (w_db st)) o2) as [[[spk' d2] o3]|] eqn:E.
        * destruct (encrypt_all_txn _ _ _ _ _ _ _ _ T0 E) as [T2 C2].
          destruct (pop o3) as [cm o4]. destruct cm; cbn [negb] in H; [discriminate|]. inversion H; subst. cbn. split; [|reflexivity].
          rewrite C2. reflexivity.
        * inversion H; subst. cbn. split; reflexivity.
  Qed.

  (* phase 1 reaches the commit: with checked writes (any failures) or without failures, the database then holds the
     master key record and no plaintext key record, every manager holds its key encrypted under the master key *)
  Lemma phase1_committed chk st pass mk salt o st2 :
    plain_wallet st -> good chk o -> encrypt_phase1 chk c st pass mk salt o = inr st2 ->
    (forall id, committed (w_db st2) (KPlain id) = None) /\
    committed (w_db st2) (KMaster (S (w_maxid st))) = Some (VMaster salt (snd (encrypt_master c pass salt mk))) /\
    pending (w_db st2) = None /\
    Forall (enc_under mk) (w_spk st2) /\ map s_id (w_spk st2) = map s_id (w_spk st) /\
    w_mk st2 = [(S (w_maxid st), encrypt_master c pass salt mk)] /\ w_vm st2 = None /\ w_dead st2 = w_dead st.
  Proof.
    intros (Hm & Hpl & Hnd & Hpe & Hsync) Hg H. unfold encrypt_phase1 in H.
    unfold has_enc in H. rewrite Hm in H.
    destruct (good_pop _ _ Hg) as [Hg1 Hb]. destruct (pop o) as [b o1]. cbn [fst snd] in *.
    destruct b; cbn [negb] in H; [|discriminate].
    destruct (good_pop _ _ Hg1) as [Hg2 Hw]. destruct (pop o1) as [wm o2]. cbn [fst snd] in *.
    assert (Hwm : wm = true).
    { destruct Hw as [Hw|Hw]; [|exact Hw]. subst chk. destruct wm; [reflexivity|]. cbn in H. discriminate. }
    subst wm. cbn [negb andb] in H.
    set (rec := encrypt_master c pass salt mk) in *.
    set (d1 := db_write (db_begin (w_db st)) (KMaster (S (w_maxid st))) (Some (VMaster (fst rec) (snd rec)))) in H.
    assert (T1 : in_txn d1) by (subst d1; apply in_txn_write; eexists; reflexivity).
    destruct (encrypt_all chk c mk (w_spk st) d1 o2) as [[[spk' d2] o3]|] eqn:E; [|discriminate].
    destruct (encrypt_all_props _ _ _ _ _ _ _ _ Hpl Hnd T1 Hg2 E) as (F & M & T2 & C2 & Hg3 & P).
    destruct (good_pop _ _ Hg3) as [_ Hc]. destruct (pop o3) as [cm o4]. cbn [fst] in Hc.
    destruct cm; cbn [negb] in H; [|discriminate]. inversion H; subst; clear H. cbn [w_db w_spk w_mk w_vm w_dead].
    destruct T2 as [p2 Ep2]. unfold db_commit. rewrite Ep2. cbn [committed pending].
    assert (Ep1 : pending d1 = Some (db_set (committed (w_db st)) (KMaster (S (w_maxid st))) (Some (VMaster (fst rec) (snd rec))))).
    { subst d1. unfold db_write, db_begin. cbn. reflexivity. }
    destruct (P _ _ Ep1 Ep2) as [A B].
    assert (Hsalt : fst rec = salt) by (subst rec; unfold encrypt_master; destruct (c_kdf c pass salt); reflexivity).
    split.
    { intros id. destruct (in_dec Nat.eq_dec id (map s_id (w_spk st))) as [Hin|Hni].
      - apply B; exact Hin.
      - rewrite A.
        + unfold db_set. cbn [rkey_eqb]. destruct (committed (w_db st) (KPlain id)) eqn:X; [|reflexivity].
          exfalso. apply Hni. apply Hsync. congruence.
        + intros id' Hin'. split; intros Heq; [discriminate|inversion Heq as [Hid]; rewrite Hid in Hni; contradiction]. }
    split.
    { rewrite A; [unfold db_set; rewrite rkey_eqb_refl, Hsalt; reflexivity|]. intros id' _. split; discriminate. }
    split; [reflexivity|]. split; [exact F|]. split; [exact M|]. repeat split; reflexivity.
  Qed.

  (* the manager after Encrypt, in terms of the manager before: same descriptor, same public key, its own secret encrypted *)
  Definition enc_of (mk : bytes) (s s' : spkm) : Prop :=
    s_id s' = s_id s /\ s_pub s' = s_pub s /\ s_plain s' = None /\
    exists sec, s_plain s = Some sec /\ s_crypt s' = Some (c_enc c mk (c_iv c (s_pub s)) sec).

  Lemma spkm_encrypt_rel chk mk s d o s' d' o' :
    plain_ok s -> spkm_encrypt chk c mk s d o = Some (s', d', o') -> enc_of mk s s'.
  Proof.
    intros (Hc & sec & Hp & Hl & Hpub) H. unfold spkm_encrypt in H. rewrite Hc, Hp in H.
    destruct (pop o) as [w o1]. destruct w.
    - destruct (pop o1) as [e o2]. destruct e; [|destruct chk; [discriminate|]]; inversion H; subst; repeat split; exists sec; split; auto.
    - destruct chk; [discriminate|]. inversion H; subst; repeat split; exists sec; split; auto.
  Qed.

  Lemma encrypt_all_rel chk mk l : forall d o l' d' o',
    Forall plain_ok l -> encrypt_all chk c mk l d o = Some (l', d', o') -> Forall2 (enc_of mk) l l'.
  Proof.
    induction l as [|s r IH]; intros d o l' d' o' Hpl H; cbn [encrypt_all] in H.
    - inversion H; subst. constructor.
    - inversion Hpl as [|x y Hs Hr]; subst.
      destruct (spkm_encrypt chk c mk s d o) as [[[s1 d1] o1]|] eqn:E; [|discriminate].
      destruct (encrypt_all chk c mk r d1 o1) as [[[r1 d2] o2]|] eqn:R; [|discriminate]. inversion H; subst.
      constructor; [eapply spkm_encrypt_rel; eassumption|eapply IH; eassumption].
  Qed.

  Lemma phase1_rel chk st pass mk salt o st2 :
    Forall plain_ok (w_spk st) -> encrypt_phase1 chk c st pass mk salt o = inr st2 -> Forall2 (enc_of mk) (w_spk st) (w_spk st2).
  Proof.
    intros Hpl H. unfold encrypt_phase1 in H.
    destruct (has_enc st); [discriminate|]. destruct (pop o) as [b o1]. destruct b; cbn [negb] in H; [|discriminate].
    destruct (pop o1) as [wm o2]. destruct (negb wm && chk); [discriminate|].
    match type of H with context [encrypt_all chk c mk (w_spk st) ?d o2] => destruct (encrypt_all chk c mk (w_spk st) d o2) as [[[spk' d2] o3]|] eqn:E end; [|discriminate].
    destruct (pop o3) as [cm o4]. destruct cm; cbn [negb] in H; [|discriminate]. inversion H; subst. cbn.
    eapply encrypt_all_rel; eassumption.
  Qed.

  Definition no_plain (p : db) : Prop := forall id, p (KPlain id) = None.

  Lemma setup_new_props mk news : forall d l d',
    Forall (fun x => length (snd x) = 32) news -> in_txn d ->
    setup_new c mk news d = (l, d') ->
    Forall (enc_under mk) l /\ in_txn d' /\ committed d' = committed d /\
    forall p p', pending d = Some p -> pending d' = Some p' ->
      (no_plain p -> no_plain p') /\ (forall i, p' (KMaster i) = p (KMaster i)).
  Proof.
    induction news as [|[id sec] r IH]; intros d l d' Hlen T H; cbn [setup_new] in H.
    - inversion H; subst. split; [constructor|]. split; [exact T|]. split; [reflexivity|].
      intros p p' E1 E2. rewrite E1 in E2. inversion E2; subst. split; auto.
    - inversion Hlen as [|x y Hx Hr]; subst. cbn in Hx.
      set (pub := c_pub c sec) in *. set (ct := c_enc c mk (c_iv c pub) sec) in *.
      destruct (in_txn_write d (KCrypt id) (Some (VCrypt ct)) T) as [T1 C1].
      destruct (in_txn_write _ (KPlain id) None T1) as [T2 C2].
      destruct (in_txn_write _ (KDescRec id) (Some (VDescRec pub)) T2) as [T3 C3].
      destruct (setup_new c mk r _) as [l0 d2] eqn:R. inversion H; subst; clear H.
      destruct (IH _ _ _ Hr T3 R) as (F & T4 & C4 & P).
      split; [constructor; [|exact F]|].
      { split; [reflexivity|]. exists sec. cbn. repeat split; auto. }
      split; [exact T4|]. split; [rewrite C4, C3, C2, C1; reflexivity|].
      intros p p' E1 E2. destruct T3 as [p3 E3]. destruct (P _ _ E3 E2) as [N K].
      assert (E3' : p3 = db_set (db_set (db_set p (KCrypt id) (Some (VCrypt ct))) (KPlain id) None) (KDescRec id) (Some (VDescRec pub))).
      { unfold db_write in E3. rewrite E1 in E3. cbn in E3. inversion E3; reflexivity. }
      split.
      + intros Hn. apply N. subst p3. intros i. unfold db_set. cbn [rkey_eqb]. destruct (Nat.eqb i id); [reflexivity|apply Hn].
      + intros i. rewrite K. subst p3. unfold db_set. cbn [rkey_eqb]. reflexivity.
  Qed.

  Lemma Forall2_in_l {A B} (R : A -> B -> Prop) l l' a : Forall2 R l l' -> In a l -> exists b, In b l' /\ R a b.
  Proof.
    induction 1 as [|x y r r' Hxy Hr IH]; intros Hin; [destruct Hin|].
    destruct Hin as [->|Hin]; [exists y; split; [left; reflexivity|exact Hxy]|].
    destruct (IH Hin) as (b & Hb & Rb). exists b. split; [right; exact Hb|exact Rb].
  Qed.

  (* EncryptWallet, the whole of it.  With the writes checked (this tree) for EVERY outcome of every database call, or
     with unchecked writes when no call fails:
     - result true: the committed database has the master key record and NO plaintext key record, no transaction is
       open, the file has been rewritten, the wallet is locked, every manager holds its key encrypted under the master
       key; and unlocking with the passphrase gives every original manager exactly its original secret back;
     - any other result (false, or the process died): the committed database is what it was. *)
  Lemma encrypt_wallet_spec chk st pass mk salt news o st' r :
    plain_wallet st -> good chk o -> Forall (fun x => length (snd x) = 32) news ->
    encrypt_wallet chk c st pass mk salt news o = (st', r) ->
    match r with
    | RTrue =>
      no_plain (committed (w_db st')) /\ pending (w_db st') = None /\ w_dirty st' = false /\ is_locked st' = true /\
      committed (w_db st') (KMaster (S (w_maxid st))) = Some (VMaster salt (snd (encrypt_master c pass salt mk))) /\
      Forall (enc_under mk) (w_spk st') /\
      exists st'', unlock_pass c st' pass = (st'', true) /\
        forall s sec, In s (w_spk st) -> s_plain s = Some sec ->
          exists s', In s' (w_spk st'') /\ s_id s' = s_id s /\ get_key c st'' s' = Some sec
    | _ => committed (w_db st') = committed (w_db st) /\ pending (w_db st') = None
    end.
  Proof.
    intros PW Hg Hlen H. pose proof PW as (Hm & Hpl & Hnd & Hpe & Hsync). unfold encrypt_wallet in H.
    destruct (encrypt_phase1 chk c st pass mk salt o) as [[st1 r1]|st2] eqn:P1.
    - inversion H; subst. destruct (phase1_early _ _ _ _ _ _ _ _ Hpe P1) as [A B].
      destruct r; [|split; assumption|split; assumption].
      (* an early exit never reports success *)
      exfalso. unfold encrypt_phase1 in P1. destruct (has_enc st); [discriminate|]. destruct (pop o) as [b o1]. destruct b; cbn [negb] in P1; [|discriminate].
      destruct (pop o1) as [wm o2]. destruct (negb wm && chk); [discriminate|].
      match type of P1 with context [encrypt_all chk c mk (w_spk st) ?d o2] => destruct (encrypt_all chk c mk (w_spk st) d o2) as [[[spk' d2] o3]|] end; [|discriminate].
      destruct (pop o3) as [cm o4]. destruct cm; discriminate.
    - destruct (phase1_committed _ _ _ _ _ _ _ PW Hg P1) as (NP & MK & PE & F & M & WM & VM & DD).
      pose proof (phase1_rel _ _ _ _ _ _ _ Hpl P1) as REL.
      unfold encrypt_phase2 in H.
      (* Unlock(pass) succeeds on the freshly encrypted wallet *)
      assert (U : exists st3, unlock_pass c st2 pass = (st3, true) /\ w_spk st3 = w_spk st2 /\ w_mk st3 = w_mk st2 /\
                                w_db st3 = w_db st2 /\ w_maxid st3 = w_maxid st2 /\ w_dead st3 = w_dead st2).
      { assert (FB : forallb (check_decryption_key c mk) (w_spk st2) = true).
        { apply forallb_forall. intros s Hin. apply enc_under_check. rewrite Forall_forall in F. apply F; exact Hin. }
        unfold unlock_pass. rewrite WM. cbn [unlock_pass_loop]. rewrite decrypt_master_of_encrypted. unfold unlock_mk.
        rewrite FB. eexists. split; [reflexivity|]. cbn. rewrite WM. repeat split; reflexivity. }
      destruct U as (st3 & U & S3 & M3 & D3 & X3 & DD3).
      rewrite U in H. rewrite S3, M3, D3, X3, DD3 in H.
      destruct (setup_new c mk news (db_begin (w_db st2))) as [newl d3] eqn:SN.
      assert (T0 : in_txn (db_begin (w_db st2))) by (eexists; reflexivity).
      destruct (setup_new_props _ _ _ _ _ Hlen T0 SN) as (FN & T3 & C3 & P3).
      inversion H; subst; clear H. cbn [w_db w_spk w_mk w_vm w_dirty w_maxid].
      destruct T3 as [p3 E3]. unfold db_commit. rewrite E3. cbn [committed pending].
      destruct (P3 _ _ eq_refl E3) as [N3 K3].
      assert (FA : Forall (enc_under mk) (w_spk st2 ++ newl)) by (apply Forall_app; split; assumption).
      split; [apply N3; exact NP|]. split; [reflexivity|]. split; [reflexivity|].
      split; [unfold is_locked, has_enc; cbn; rewrite WM; reflexivity|].
      split; [rewrite K3; exact MK|]. split; [exact FA|].
      eexists. split.
      + unfold unlock_pass. cbn [w_mk]. rewrite WM. cbn [unlock_pass_loop]. rewrite decrypt_master_of_encrypted. unfold unlock_mk. cbn [w_spk].
        assert (FB : forallb (check_decryption_key c mk) (w_spk st2 ++ newl) = true).
        { apply forallb_forall. intros s Hin. apply enc_under_check. rewrite Forall_forall in FA. apply FA; exact Hin. }
        rewrite FB. reflexivity.
      + intros s sec Hin Hsec. cbn [w_spk].
        destruct (Forall2_in_l _ _ _ _ REL Hin) as (s' & Hin' & Hid & Hpub & Hpl' & sec' & Hs' & Hct).
        rewrite Hsec in Hs'. inversion Hs'; subst sec'.
        exists s'. split; [apply in_or_app; left; exact Hin'|]. split; [exact Hid|].
        rewrite Forall_forall in Hpl. destruct (Hpl _ Hin) as (_ & sec2 & Hp2 & Hl2 & Hpub2). rewrite Hsec in Hp2. inversion Hp2; subst sec2.
        apply (unlocked_get_key _ mk).
        * unfold has_enc. cbn [w_mk]. rewrite ?WM. reflexivity.
        * reflexivity.
        * rewrite Hct, Hpub2. reflexivity.
        * rewrite Hpub. exact Hpub2.
        * exact Hl2.
  Qed.

  (* ChangeWalletPassphrase on an encrypted wallet whose single master key record opens with `old`; checked write
     (this tree) for either outcome of the write, or unchecked write that succeeds *)
  Lemma change_passphrase_spec chk st id rec mk old new o st' r :
    w_mk st = [(id, rec)] -> decrypt_master c old rec = Some mk -> Forall (enc_under mk) (w_spk st) ->
    pending (w_db st) = None -> (chk = true \/ fst (pop o) = true) ->
    change_passphrase chk c st old new o = (st', r) ->
    w_spk st' = w_spk st /\ pending (w_db st') = None /\
    (forall k, (forall i, k <> KMaster i) -> committed (w_db st') k = committed (w_db st) k) /\
    if r
    then (* the record in memory and on disk is the master key under the new passphrase, and the new passphrase opens it *)
         let rec' := encrypt_master c new (fst rec) mk in
         w_mk st' = [(id, rec')] /\ committed (w_db st') (KMaster id) = Some (VMaster (fst rec') (snd rec')) /\
         decrypt_master c new rec' = Some mk
    else (* refused (the write failed): memory and disk still hold the old record *)
         w_mk st' = w_mk st /\ committed (w_db st') = committed (w_db st).
  Proof.
    intros WM DM F PE G H. unfold change_passphrase in H.
    assert (HE : has_enc st = true) by (unfold has_enc; rewrite WM; reflexivity).
    unfold lock in H. rewrite HE in H. cbn [fst w_mk] in H. rewrite WM in H. cbn [chpass_loop] in H. rewrite DM in H.
    assert (FB : forallb (check_decryption_key c mk) (w_spk st) = true).
    { apply forallb_forall. intros s Hin. apply enc_under_check. rewrite Forall_forall in F. apply F; exact Hin. }
    unfold unlock_mk in H. cbn [w_spk] in H. rewrite FB in H. cbn [w_db w_spk w_mk w_maxid w_vm w_dirty w_dead] in H.
    destruct (pop o) as [w o1]. cbn [fst] in G. destruct w; cbn [negb andb] in H.
    - inversion H; subst; clear H. cbn [w_spk w_db w_mk]. unfold db_write. rewrite PE. cbn [committed pending].
      split; [reflexivity|]. split; [reflexivity|]. split.
      { intros k Hk. unfold db_set. destruct (rkey_eqb k (KMaster id)) eqn:E; [|reflexivity].
        destruct k; cbn in E; try discriminate. apply Nat.eqb_eq in E. subst. exfalso. eapply Hk. reflexivity. }
      rewrite Nat.eqb_refl. split; [reflexivity|]. split.
      + unfold db_set. rewrite rkey_eqb_refl. reflexivity.
      + apply decrypt_master_of_encrypted.
    - destruct G as [G|G]; [|discriminate]. subst chk. cbn in H.
      destruct (is_locked st); inversion H; subst; clear H; cbn; repeat split; auto.
  Qed.

  (* ------------------------------------------------------------------------------------------ *)
  (* once there is no plaintext key (in memory or in a record), none ever reappears *)
  Definition db_no_plain (d : dbst) : Prop := no_plain (committed d) /\ forall p, pending d = Some p -> no_plain p.

  Lemma db_write_no_plain d k v : db_no_plain d -> (forall id, k = KPlain id -> v = None) -> db_no_plain (db_write d k v).
  Proof.
    intros [A B] Hk. unfold db_write. destruct (pending d) as [p|] eqn:E; split; cbn [committed pending]; try exact A; try discriminate.
    - intros q Eq. inversion Eq; subst. intros id. unfold db_set. destruct (rkey_eqb (KPlain id) k) eqn:X; [|apply B; reflexivity].
      destruct k; cbn in X; try discriminate. apply (Hk d0). reflexivity.
    - intros id. unfold db_set. destruct (rkey_eqb (KPlain id) k) eqn:X; [|apply A].
      destruct k; cbn in X; try discriminate. apply (Hk d0). reflexivity.
  Qed.

  Lemma db_begin_no_plain d : db_no_plain d -> db_no_plain (db_begin d).
  Proof. intros [A B]. split; cbn; [exact A|intros p E; inversion E; subst; exact A]. Qed.
  Lemma db_commit_no_plain d : db_no_plain d -> db_no_plain (db_commit d).
  Proof.
    intros [A B]. unfold db_commit. destruct (pending d) as [p|] eqn:E; [|split; [exact A|intros q Eq; rewrite E in Eq; discriminate]].
    split; cbn; [apply B; reflexivity|discriminate].
  Qed.
  Lemma db_abort_no_plain d : db_no_plain d -> db_no_plain (db_abort d).
  Proof. intros [A B]. split; cbn; [exact A|discriminate]. Qed.

  Definition mem_no_plain (l : list spkm) : Prop := forall s, In s l -> s_plain s = None.

  Lemma spkm_encrypt_no_plain chk mk s d o s' d' o' :
    db_no_plain d -> spkm_encrypt chk c mk s d o = Some (s', d', o') -> s_plain s' = None /\ db_no_plain d'.
  Proof.
    intros D H. unfold spkm_encrypt in H. destruct (s_crypt s); [discriminate|].
    destruct (s_plain s) as [sec|] eqn:P; [|inversion H; subst; split; assumption].
    destruct (pop o) as [w o1]. destruct w.
    - destruct (pop o1) as [e o2]. destruct e; [|destruct chk; [discriminate|]]; inversion H; subst; split; try reflexivity.
      + apply db_write_no_plain; [apply db_write_no_plain; [exact D|intros id E; discriminate]|intros id E; reflexivity].
      + apply db_write_no_plain; [exact D|intros id E; discriminate].
    - destruct chk; [discriminate|]. inversion H; subst. split; [reflexivity|exact D].
  Qed.

  Lemma encrypt_all_no_plain chk mk l : forall d o l' d' o',
    db_no_plain d -> encrypt_all chk c mk l d o = Some (l', d', o') -> mem_no_plain l' /\ db_no_plain d'.
  Proof.
    induction l as [|s r IH]; intros d o l' d' o' D H; cbn [encrypt_all] in H.
    - inversion H; subst. split; [intros s []|exact D].
    - destruct (spkm_encrypt chk c mk s d o) as [[[s1 d1] o1]|] eqn:E; [|discriminate].
      destruct (encrypt_all chk c mk r d1 o1) as [[[r1 d2] o2]|] eqn:R; [|discriminate]. inversion H; subst.
      destruct (spkm_encrypt_no_plain _ _ _ _ _ _ _ _ D E) as [A D1]. destruct (IH _ _ _ _ _ D1 R) as [B D2].
      split; [intros x [<-|Hin]; [exact A|apply B; exact Hin]|exact D2].
  Qed.

  Lemma setup_new_no_plain mk news : forall d l d',
    db_no_plain d -> setup_new c mk news d = (l, d') -> mem_no_plain l /\ db_no_plain d'.
  Proof.
    induction news as [|[id sec] r IH]; intros d l d' D H; cbn [setup_new] in H.
    - inversion H; subst. split; [intros s []|exact D].
    - match type of H with context [setup_new c mk r ?dd] => destruct (setup_new c mk r dd) as [l0 d2] eqn:R; assert (DD : db_no_plain dd) end.
      { apply db_write_no_plain; [apply db_write_no_plain; [apply db_write_no_plain; [exact D|intros i E; discriminate]|intros i E; reflexivity]|intros i E; discriminate]. }
      inversion H; subst. destruct (IH _ _ _ DD R) as [A B]. split; [intros x [<-|Hin]; [reflexivity|apply A; exact Hin]|exact B].
  Qed.

  Definition st_no_plain (st : wst) : Prop := mem_no_plain (w_spk st) /\ db_no_plain (w_db st).

  Lemma unlock_pass_same st pass st' b : unlock_pass c st pass = (st', b) -> w_spk st' = w_spk st /\ w_db st' = w_db st.
  Proof.
    destruct b; intros H; [|apply unlock_pass_fail in H; subst; split; reflexivity].
    unfold unlock_pass in H. destruct (unlock_pass_loop c st pass (w_mk st)) as [st1|] eqn:L; [|discriminate]. inversion H; subst.
    destruct (unlock_loop_sound _ _ _ _ L) as (_ & _ & mk & _ & _ & U). destruct (unlock_mk_sound _ _ _ U) as (_ & A & _ & B & _). split; assumption.
  Qed.

  Lemma encrypt_wallet_no_plain chk st pass mk salt news o st' r :
    st_no_plain st -> encrypt_wallet chk c st pass mk salt news o = (st', r) -> st_no_plain st'.
  Proof.
    intros [M D] H. unfold encrypt_wallet in H.
    destruct (encrypt_phase1 chk c st pass mk salt o) as [[st1 r1]|st2] eqn:P1.
    - inversion H; subst; clear H. unfold encrypt_phase1 in P1.
      destruct (has_enc st); [inversion P1; subst; split; assumption|].
      destruct (pop o) as [b o1]. destruct b; cbn [negb] in P1; [|destruct chk; inversion P1; subst; split; assumption].
      destruct (pop o1) as [wm o2]. destruct (negb wm && chk); [inversion P1; subst; split; [exact M|apply db_abort_no_plain, db_begin_no_plain; exact D]|].
      match type of P1 with context [encrypt_all chk c mk (w_spk st) ?dd o2] => assert (DD : db_no_plain dd); [|destruct (encrypt_all chk c mk (w_spk st) dd o2) as [[[spk' d2] o3]|] eqn:E] end.
      { destruct wm; [apply db_write_no_plain; [apply db_begin_no_plain; exact D|intros i X; discriminate]|apply db_begin_no_plain; exact D]. }
      + destruct (encrypt_all_no_plain _ _ _ _ _ _ _ _ DD E) as [A B].
        destruct (pop o3) as [cm o4]. destruct cm; cbn [negb] in P1; [discriminate|]. inversion P1; subst. split; cbn; [exact A|apply db_abort_no_plain; exact B].
      + inversion P1; subst. split; cbn; [exact M|apply db_abort_no_plain; exact DD].
    - assert (S2 : st_no_plain st2).
      { unfold encrypt_phase1 in P1. destruct (has_enc st); [discriminate|]. destruct (pop o) as [b o1]. destruct b; cbn [negb] in P1; [|discriminate].
        destruct (pop o1) as [wm o2]. destruct (negb wm && chk); [discriminate|].
        match type of P1 with context [encrypt_all chk c mk (w_spk st) ?dd o2] => assert (DD : db_no_plain dd); [|destruct (encrypt_all chk c mk (w_spk st) dd o2) as [[[spk' d2] o3]|] eqn:E] end; [|  |discriminate].
        { destruct wm; [apply db_write_no_plain; [apply db_begin_no_plain; exact D|intros i X; discriminate]|apply db_begin_no_plain; exact D]. }
        destruct (encrypt_all_no_plain _ _ _ _ _ _ _ _ DD E) as [A B].
        destruct (pop o3) as [cm o4]. destruct cm; cbn [negb] in P1; [|discriminate]. inversion P1; subst. split; cbn; [exact A|apply db_commit_no_plain; exact B]. }
      unfold encrypt_phase2 in H. destruct (unlock_pass c st2 pass) as [st3 b] eqn:U. destruct (unlock_pass_same _ _ _ _ U) as [E1 E2].
      destruct b; [|inversion H; subst; exact S2].
      destruct (setup_new c mk news (db_begin (w_db st3))) as [newl d3] eqn:SN. inversion H; subst; clear H.
      destruct S2 as [M2 D2]. rewrite E2 in SN.
      destruct (setup_new_no_plain _ _ _ _ _ (db_begin_no_plain _ D2) SN) as [A B].
      split; cbn; [|apply db_commit_no_plain; exact B].
      intros s Hin. apply in_app_or in Hin. destruct Hin as [Hin|Hin]; [apply M2; rewrite <- E1; exact Hin|apply A; exact Hin].
  Qed.

  Lemma chpass_loop_no_plain chk was old new l : forall st o st' b,
    st_no_plain st -> chpass_loop chk c st was old new l o = (st', b) -> st_no_plain st'.
  Proof.
    induction l as [|[id rec] r IH]; intros st o st' b S H; cbn [chpass_loop] in H; [inversion H; subst; exact S|].
    destruct (decrypt_master c old rec) as [mk|]; [|inversion H; subst; exact S].
    destruct (unlock_mk c st mk) as [st1|] eqn:U; [|eapply IH; eassumption].
    destruct (unlock_mk_sound _ _ _ U) as (_ & A & _ & B & _).
    assert (S1 : st_no_plain st1) by (destruct S as [M D]; split; [rewrite A; exact M|rewrite B; exact D]).
    destruct (pop o) as [w o1]. destruct (negb w && chk).
    - destruct was; inversion H; subst; [|exact S1]. unfold lock. destruct (has_enc st1); cbn; [|exact S1]. destruct S1; split; assumption.
    - inversion H; subst. destruct S1 as [M1 D1]. split; cbn; [exact M1|].
      destruct w; [apply db_write_no_plain; [exact D1|intros i X; discriminate]|exact D1].
  Qed.

  Lemma load_spkms_no_plain d ids : forall l, no_plain d -> load_spkms d ids = Some l -> mem_no_plain l.
  Proof.
    induction ids as [|id r IH]; intros l N H; cbn [load_spkms] in H; [inversion H; subst; intros s []|].
    destruct (load_spkm d id) as [[s|]|] eqn:L; [| |discriminate]; destruct (load_spkms d r) as [l0|] eqn:R; try discriminate; inversion H; subst.
    - intros x [<-|Hin]; [|eapply IH; [exact N|reflexivity|exact Hin]].
      unfold load_spkm in L. destruct (d (KDescRec id)) as [[pub| | |]|]; try discriminate. rewrite (N id) in L.
      destruct (d (KCrypt id)) as [[| |ct|]|]; inversion L; reflexivity.
    - eapply IH; [exact N|reflexivity].
  Qed.

  Lemma step_no_plain chk st o st' x : st_no_plain st -> step chk c st o = (st', x) -> st_no_plain st'.
  Proof.
    intros S H. unfold step in H. destruct (w_dead st); [inversion H; subst; exact S|]. destruct o.
    - destruct (encrypt_wallet chk c st pass mk salt news bits) as [st1 r] eqn:E.
      pose proof (encrypt_wallet_no_plain _ _ _ _ _ _ _ _ _ S E) as S1. destruct r; inversion H; subst; exact S1.
    - unfold lock in H. destruct (has_enc st); inversion H; subst; [destruct S; split; assumption|exact S].
    - destruct (unlock_pass c st pass) as [st1 b] eqn:U. inversion H; subst. destruct (unlock_pass_same _ _ _ _ U) as [A B].
      destruct S as [M D]. split; [rewrite A; exact M|rewrite B; exact D].
    - destruct (change_passphrase chk c st old new bits) as [st1 b] eqn:C. inversion H; subst. unfold change_passphrase in C.
      eapply chpass_loop_no_plain; [|exact C]. unfold lock. destruct (has_enc st); cbn; [destruct S; split; assumption|exact S].
    - inversion H; subst; clear H. unfold reload. destruct S as [M [D _]].
      destruct (load_spkms (committed (w_db st)) ids) as [l|] eqn:L; split; cbn; try (intros s []); try (split; cbn; [exact D|discriminate]).
      eapply load_spkms_no_plain; eassumption.
  Qed.

  Lemma run_no_plain chk ops : forall st xs st', st_no_plain st -> run chk c st ops = (xs, st') -> st_no_plain st'.
  Proof.
    induction ops as [|o r IH]; intros st xs st' S H; cbn [run] in H; [inversion H; subst; exact S|].
    destruct (step chk c st o) as [st1 x] eqn:E. destruct (run chk c st1 r) as [ys st2] eqn:R. inversion H; subst.
    eapply IH; [eapply step_no_plain; eassumption|exact R].
  Qed.
End Cipher.

(* ---------------------------------------------------------------------------------------------- *)
(* Part 1: the real cipher (AES-256-CBC with PKCS#7 padding, as modelled and proved by the Crypto family) satisfies
   the round-trip premise on the values the wallet uses: a 32-byte key, a 16-byte IV, a non-empty plaintext *)
Lemma crypter_round_trip key iv pt ct :
  length key = 32 -> bytes_ok key -> length iv = 16 -> bytes_ok iv -> bytes_ok pt -> pt <> [] ->
  crypter_encrypt key iv pt = Some ct -> crypter_decrypt key iv ct = Some pt.
Proof.
  intros Hk Bk Hi Bi Bp Hne H. unfold crypter_encrypt in H. rewrite Hk, Hi in H. cbn [Nat.eqb negb orb] in H.
  change (Nat.eqb 32 32) with true in H. change (Nat.eqb 16 16) with true in H. cbn [negb orb] in H.
  destruct (Nat.ltb (length (cbc_encrypt key iv pt true)) (length pt)); [discriminate|]. inversion H; subst; clear H.
  unfold crypter_decrypt. rewrite Hk, Hi. change (Nat.eqb 32 32) with true. change (Nat.eqb 16 16) with true. cbn [negb orb].
  rewrite (cbc_roundtrip key iv Hk Bk Hi Bi pt Bp).
  destruct pt as [|x r]; [contradiction|]. reflexivity.
Qed.

Lemma in_firstn {A} (n : nat) : forall (l : list A) x, In x (firstn n l) -> In x l.
Proof. induction n as [|n IH]; intros [|a l] x H; cbn in H; try contradiction. destruct H as [->|H]; [left; reflexivity|right; apply IH; exact H]. Qed.

Lemma secret_round_trip mk secret iv32 ct :
  length mk = 32 -> bytes_ok mk -> length iv32 = 32 -> bytes_ok iv32 -> bytes_ok secret -> secret <> [] ->
  encrypt_secret mk secret iv32 = Some ct -> decrypt_secret mk ct iv32 = Some secret.
Proof.
  intros Hk Bk Hi Bi Bs Hne H. unfold encrypt_secret, decrypt_secret in *.
  apply crypter_round_trip; auto.
  - rewrite firstn_length, Hi. reflexivity.
  - unfold bytes_ok in *. apply Forall_forall. intros x Hx. rewrite Forall_forall in Bi. apply Bi. eapply in_firstn; exact Hx.
Qed.

(* the ideal cipher used in the correspondence satisfies the premise, so the theorems are not vacuous *)
Lemma ideal_round_trip k iv p : c_dec ideal_cipher k iv (c_enc ideal_cipher k iv p) = Some p.
Proof.
  cbn [ideal_cipher c_dec c_enc]. rewrite !Nat2N.id.
  repeat (rewrite ?Nat2N.id, ?firstn_app, ?skipn_app, ?Nat.sub_diag, ?firstn_all, ?skipn_all, ?app_nil_r; cbn [firstn skipn app]).
  rewrite !bytes_eqb_refl, !N.eqb_refl. reflexivity.
Qed.
