(* C42: proofs about the wallet encryption model (model/WalletCrypt.v). *)
From Coq Require Import ZArith NArith List Bool Lia.
From BV Require Import lib.Ints model.CryptoBase model.CryptoSHA512 model.CryptoAES model.WalletCrypt.
Import ListNotations.

Lemma bytes_eqb_refl a : bytes_eqb a a = true.
Proof. induction a as [|x r IH]; cbn; [reflexivity|]. rewrite N.eqb_refl, IH. reflexivity. Qed.

Lemma bytes_eqb_eq a : forall b, bytes_eqb a b = true -> a = b.
Proof.
  induction a as [|x r IH]; intros [|y s] H; cbn in H; try discriminate; [reflexivity|].
  apply andb_true_iff in H. destruct H as [H1 H2]. apply N.eqb_eq in H1. subst. f_equal. apply IH; exact H2.
Qed.

Lemma rkey_eqb_refl k : rkey_eqb k k = true.
Proof. destruct k; cbn; apply Nat.eqb_refl. Qed.

(* ---------------------------------------------------------------------------------------------- *)
(* database layer: inside a transaction the committed contents do not move *)

Lemma db_write_committed s k v p : pending s = Some p -> committed (db_write s k v) = committed s /\ exists p', pending (db_write s k v) = Some p'.
Proof. intros H. unfold db_write. rewrite H. cbn. split; [reflexivity|eexists; reflexivity]. Qed.

Section Cipher.
  Variable c : cipher.
  (* the mathematical premise about the cipher: decryption with the same key and IV inverts encryption *)
  Hypothesis round_trip : forall k iv p, c_dec c k iv (c_enc c k iv p) = Some p.

  Lemma decrypt_key_of_encrypted mk sec :
    length sec = 32 -> decrypt_key c mk (c_enc c mk (c_iv c (c_pub c sec)) sec) (c_pub c sec) = Some sec.
  Proof.
    intros H. unfold decrypt_key. rewrite round_trip, H, bytes_eqb_refl. reflexivity.
  Qed.

  Lemma decrypt_master_of_encrypted pass salt mk :
    decrypt_master c pass (encrypt_master c pass salt mk) = Some mk.
  Proof.
    unfold decrypt_master, encrypt_master. destruct (c_kdf c pass salt) as [k iv] eqn:E. cbn [fst snd]. rewrite E. apply round_trip.
  Qed.

  (* a manager holding its key only in encrypted form, correctly encrypted under mk *)
  Definition enc_under (mk : bytes) (s : spkm) : Prop :=
    s_plain s = None /\ exists sec, length sec = 32 /\ s_pub s = c_pub c sec /\ s_crypt s = Some (c_enc c mk (c_iv c (s_pub s)) sec).

  Lemma enc_under_check mk s : enc_under mk s -> check_decryption_key c mk s = true.
  Proof.
    intros (Hp & sec & Hl & Hpub & Hc). unfold check_decryption_key. rewrite Hp, Hc, Hpub.
    rewrite decrypt_key_of_encrypted by exact Hl. reflexivity.
  Qed.

  (* Unlock with a passphrase: soundness.  The unlocked state is only entered with a master key that (a) is what the
     passphrase-derived key decrypts from a stored master key record and (b) decrypts every manager's crypted key to a
     32-byte secret whose public key is the stored public key; no manager holds a plaintext key. *)
  Lemma unlock_mk_sound st mk st' :
    unlock_mk c st mk = Some st' ->
    w_vm st' = Some mk /\ w_spk st' = w_spk st /\ w_mk st' = w_mk st /\ w_db st' = w_db st /\ w_dirty st' = w_dirty st /\ w_dead st' = w_dead st /\ w_maxid st' = w_maxid st /\
    forall s, In s (w_spk st) -> s_plain s = None /\
      forall ct, s_crypt s = Some ct -> exists sec, c_dec c mk (c_iv c (s_pub s)) ct = Some sec /\ length sec = 32 /\ c_pub c sec = s_pub s.
  Proof.
    unfold unlock_mk. destruct (forallb (check_decryption_key c mk) (w_spk st)) eqn:F; [|discriminate].
    intros H; inversion H; subst; clear H. cbn. repeat split; try reflexivity.
    - rewrite forallb_forall in F. specialize (F s H). unfold check_decryption_key in F. destruct (s_plain s); [discriminate|reflexivity].
    - intros ct Hc. rewrite forallb_forall in F. specialize (F s H). unfold check_decryption_key in F.
      destruct (s_plain s); [discriminate|]. rewrite Hc in F. unfold decrypt_key in F.
      destruct (c_dec c mk (c_iv c (s_pub s)) ct) as [sec|]; [|discriminate].
      destruct (Nat.eqb (length sec) 32 && bytes_eqb (c_pub c sec) (s_pub s)) eqn:E; [|discriminate].
      apply andb_true_iff in E. destruct E as [E1 E2]. exists sec. split; [reflexivity|]. split; [apply Nat.eqb_eq; exact E1|apply bytes_eqb_eq; exact E2].
  Qed.

  Lemma unlock_loop_sound st pass l st' :
    unlock_pass_loop c st pass l = Some st' ->
    exists id rec mk, In (id, rec) l /\ decrypt_master c pass rec = Some mk /\ unlock_mk c st mk = Some st'.
  Proof.
    induction l as [|[id rec] r IH]; cbn; [discriminate|]. intros H.
    destruct (decrypt_master c pass rec) as [mk|] eqn:D.
    - destruct (unlock_mk c st mk) as [st1|] eqn:U.
      + inversion H; subst. exists id, rec, mk. split; [left; reflexivity|]. split; assumption.
      + destruct (IH H) as (i & r0 & m & A & B & C). exists i, r0, m. split; [right; exact A|]. split; assumption.
    - destruct (IH H) as (i & r0 & m & A & B & C). exists i, r0, m. split; [right; exact A|]. split; assumption.
  Qed.

  Lemma unlock_pass_sound st pass st' :
    unlock_pass c st pass = (st', true) ->
    exists id rec mk, In (id, rec) (w_mk st) /\ decrypt_master c pass rec = Some mk /\ w_vm st' = Some mk /\
      forall s, In s (w_spk st) -> s_plain s = None /\
        forall ct, s_crypt s = Some ct -> exists sec, c_dec c mk (c_iv c (s_pub s)) ct = Some sec /\ length sec = 32 /\ c_pub c sec = s_pub s.
  Proof.
    unfold unlock_pass. destruct (unlock_pass_loop c st pass (w_mk st)) as [st1|] eqn:L; [|discriminate].
    intros H; inversion H; subst; clear H.
    destruct (unlock_loop_sound _ _ _ _ L) as (id & rec & mk & A & B & C).
    destruct (unlock_mk_sound _ _ _ C) as (V & _ & _ & _ & _ & _ & _ & S).
    exists id, rec, mk. repeat split; try assumption; apply S; assumption.
  Qed.

  Lemma unlock_pass_fail st pass st' : unlock_pass c st pass = (st', false) -> st' = st.
  Proof. unfold unlock_pass. destruct (unlock_pass_loop c st pass (w_mk st)); intros H; inversion H; reflexivity. Qed.

  (* signing needs a key: while the wallet is locked a manager can only produce a key it holds in plaintext *)
  Lemma locked_get_key st s : is_locked st = true -> get_key c st s = s_plain s.
  Proof.
    intros H. unfold get_key. unfold is_locked in H. apply andb_true_iff in H. destruct H as [H1 H2].
    unfold is_locked. rewrite H1. cbn. destruct (w_vm st); [discriminate|]. cbn. reflexivity.
  Qed.

  Lemma locked_cannot_sign st :
    is_locked st = true -> (forall s, In s (w_spk st) -> s_plain s = None) -> can_sign c st = 0.
  Proof.
    intros L H. unfold can_sign. induction (w_spk st) as [|s r IH]; [reflexivity|].
    cbn [filter]. rewrite (locked_get_key _ _ L), (H s (or_introl eq_refl)). apply IH. intros s' Hin. apply H. right; exact Hin.
  Qed.

  (* unlocked with the master key the keys were encrypted under: every manager gives back exactly its secret *)
  Lemma unlocked_get_key st mk s sec :
    has_enc st = true -> w_vm st = Some mk ->
    s_crypt s = Some (c_enc c mk (c_iv c (c_pub c sec)) sec) -> s_pub s = c_pub c sec -> length sec = 32 ->
    get_key c st s = Some sec.
  Proof.
    intros He Hv Hc Hp Hl. unfold get_key, is_locked. rewrite He, Hv. cbn. rewrite Hc, Hp. apply decrypt_key_of_encrypted. exact Hl.
  Qed.

  (* ------------------------------------------------------------------------------------------ *)
  (* EncryptWallet *)

  (* a manager of an unencrypted wallet *)
  Definition plain_ok (s : spkm) : Prop :=
    s_crypt s = None /\ exists sec, s_plain s = Some sec /\ length sec = 32 /\ s_pub s = c_pub c sec.

  Definition in_txn (d : dbst) : Prop := exists p, pending d = Some p.

  Lemma in_txn_write d k v : in_txn d -> in_txn (db_write d k v) /\ committed (db_write d k v) = committed d.
  Proof. intros [p H]. unfold db_write, in_txn. rewrite H. cbn. split; [eexists; reflexivity|reflexivity]. Qed.

  (* what Encrypt of one manager does; `good` = its two database calls succeeded *)
  Lemma spkm_encrypt_props chk mk s d o s' d' o' :
    plain_ok s -> in_txn d -> spkm_encrypt chk c mk s d o = Some (s', d', o') ->
    enc_under mk s' /\ s_id s' = s_id s /\ in_txn d' /\ committed d' = committed d /\
    (forall p p', pending d = Some p -> pending d' = Some p' ->
       (forall k, k <> KCrypt (s_id s) -> k <> KPlain (s_id s) -> p' k = p k) /\
       ((chk = true \/ (fst (pop o) = true /\ fst (pop (snd (pop o))) = true)) -> p' (KPlain (s_id s)) = None /\ p' (KCrypt (s_id s)) <> None)).
  Proof.
    intros (Hc & sec & Hp & Hl & Hpub) [p0 Hpend] H. unfold spkm_encrypt in H. rewrite Hc, Hp in H.
    assert (EU : enc_under mk (mkS (s_id s) (s_pub s) None (Some (c_enc c mk (c_iv c (s_pub s)) sec)))).
    { split; [reflexivity|]. exists sec. cbn. repeat split; auto. }
    destruct (pop o) as [w o1] eqn:P1. destruct w.
    - destruct (pop o1) as [e o2] eqn:P2. destruct e.
      + inversion H; subst; clear H. split; [exact EU|]. split; [reflexivity|].
        unfold db_write. rewrite Hpend. cbn. split; [eexists; reflexivity|]. split; [reflexivity|].
        intros p p' E1 E2. inversion E1; subst. inversion E2; subst. split.
        * intros k Hk1 Hk2. unfold db_set. destruct (rkey_eqb k (KPlain (s_id s))) eqn:A.
          { destruct k; cbn in A; try discriminate. apply Nat.eqb_eq in A. subst. congruence. }
          destruct (rkey_eqb k (KCrypt (s_id s))) eqn:B; [|reflexivity].
          destruct k; cbn in B; try discriminate. apply Nat.eqb_eq in B. subst. congruence.
        * intros _. unfold db_set. cbn [rkey_eqb]. rewrite !Nat.eqb_refl. split; [reflexivity|discriminate].
      + destruct chk; [discriminate|]. inversion H; subst; clear H. split; [exact EU|]. split; [reflexivity|].
        unfold db_write. rewrite Hpend. cbn. split; [eexists; reflexivity|]. split; [reflexivity|].
        intros p p' E1 E2. inversion E1; subst. inversion E2; subst. split.
        * intros k Hk1 Hk2. unfold db_set. destruct (rkey_eqb k (KCrypt (s_id s))) eqn:B; [|reflexivity].
          destruct k; cbn in B; try discriminate. apply Nat.eqb_eq in B. subst. congruence.
        * intros [X|[_ X]]; [discriminate|]. cbn in X. rewrite P2 in X. cbn in X. discriminate.
    - destruct chk; [discriminate|]. inversion H; subst; clear H. split; [exact EU|]. split; [reflexivity|].
      split; [eexists; exact Hpend|]. split; [reflexivity|].
      intros p p' E1 E2. rewrite E1 in E2. inversion E2; subst. split; [reflexivity|].
      intros [X|[X _]]; discriminate.
  Qed.

  Definition good (chk : bool) (o : list bool) : Prop := chk = true \/ o = [].

  Lemma good_pop chk o : good chk o -> good chk (snd (pop o)) /\ (chk = true \/ fst (pop o) = true).
  Proof. intros [H|H]; [split; left; exact H|subst; cbn; split; right; reflexivity]. Qed.

  Lemma encrypt_all_props chk mk l : forall d o l' d' o',
    Forall plain_ok l -> NoDup (map s_id l) -> in_txn d -> good chk o ->
    encrypt_all chk c mk l d o = Some (l', d', o') ->
    Forall (enc_under mk) l' /\ map s_id l' = map s_id l /\ in_txn d' /\ committed d' = committed d /\ good chk o' /\
    forall p p', pending d = Some p -> pending d' = Some p' ->
      (forall k, (forall id, In id (map s_id l) -> k <> KCrypt id /\ k <> KPlain id) -> p' k = p k) /\
      (forall id, In id (map s_id l) -> p' (KPlain id) = None /\ p' (KCrypt id) <> None).
  Proof.
    induction l as [|s r IH]; intros d o l' d' o' Hpl Hnd Ht Hg H; cbn [encrypt_all] in H.
    - inversion H; subst. split; [constructor|]. split; [reflexivity|]. split; [exact Ht|]. split; [reflexivity|]. split; [exact Hg|].
      intros q q' E1 E2. rewrite E1 in E2. inversion E2; subst. split; [reflexivity|intros id []].
    - inversion Hpl as [|x y Hs Hr]; subst. cbn [map] in Hnd. inversion Hnd as [|x y Hni Hnd']; subst.
      destruct (spkm_encrypt chk c mk s d o) as [[[s1 d1] o1]|] eqn:E; [|discriminate].
      destruct (encrypt_all chk c mk r d1 o1) as [[[r1 d2] o2]|] eqn:R; [|discriminate].
      inversion H; subst; clear H.
      destruct (spkm_encrypt_props _ _ _ _ _ _ _ _ Hs Ht E) as (EU & Hid & Ht1 & Hc1 & Hp1).
      assert (Hg1 : good chk o1).
      { unfold spkm_encrypt in E. destruct Hs as (Hc & sec & Hp & _). rewrite Hc, Hp in E.
        destruct Hg as [Hg|Hg]; [left; exact Hg|]. subst o. cbn in E. inversion E; subst. right; reflexivity. }
      destruct (IH _ _ _ _ _ Hr Hnd' Ht1 Hg1 R) as (F2 & M2 & Ht2 & Hc2 & Hg2 & Hp2).
      split; [constructor; assumption|]. split; [cbn; rewrite Hid, M2; reflexivity|]. split; [exact Ht2|]. split; [rewrite Hc2, Hc1; reflexivity|].
      split; [exact Hg2|].
      intros p p' E1 E2. destruct Ht1 as [p1 Ep1]. destruct (Hp1 _ _ E1 Ep1) as [A1 B1]. destruct (Hp2 _ _ Ep1 E2) as [A2 B2].
      split.
      + intros k Hk. rewrite A2; [apply A1; apply (Hk (s_id s)); left; reflexivity|]. intros id Hin. apply Hk. right; exact Hin.
      + intros id [Hin|Hin].
        * subst id. assert (Hgood : chk = true \/ fst (pop o) = true /\ fst (pop (snd (pop o))) = true).
          { destruct Hg as [Hg|Hg]; [left; exact Hg|right; subst o; cbn; split; reflexivity]. }
          destruct (B1 Hgood) as [X Y].
          rewrite (A2 (KPlain (s_id s))), (A2 (KCrypt (s_id s))); [split; assumption| |];
          intros id' Hin'; split; intros Heq; inversion Heq; subst; contradiction.
        * apply B2. exact Hin.
  Qed.

  (* the wallet before encryption: unencrypted managers, distinct ids, no open transaction, and every plaintext key
     record in the database belongs to one of the managers *)
  Definition plain_wallet (st : wst) : Prop :=
    w_mk st = [] /\ Forall plain_ok (w_spk st) /\ NoDup (map s_id (w_spk st)) /\ pending (w_db st) = None /\
    forall id, committed (w_db st) (KPlain id) <> None -> In id (map s_id (w_spk st)).

  (* phase 1 ends early: nothing on disk has changed (whatever fails, whatever `chk`) *)
  Lemma phase1_early chk st pass mk salt o st' r :
    plain_wallet st -> encrypt_phase1 chk c st pass mk salt o = inl (st', r) ->
    committed (w_db st') = committed (w_db st) /\ pending (w_db st') = None.
  Proof.
    intros (Hm & Hpl & Hnd & Hpe & _) H. unfold encrypt_phase1 in H.
    destruct (has_enc st); [inversion H; subst; split; [reflexivity|exact Hpe]|].
    destruct (pop o) as [b o1]. destruct b; cbn [negb] in H; [|inversion H; subst; cbn; split; [reflexivity|exact Hpe]].
    destruct (pop o1) as [wm o2].
    destruct (negb wm && chk); [inversion H; subst; cbn; split; reflexivity|].
    set (d1 := if wm then _ else _) in H.
    assert (T1 : in_txn d1 /\ committed d1 = committed (w_db st)).
    { subst d1. destruct wm; [apply in_txn_write; eexists; reflexivity|split; [eexists; reflexivity|reflexivity]]. }
    destruct T1 as [T1 C1].
    destruct (encrypt_all chk c mk (w_spk st) d1 o2) as [[[spk' d2] o3]|] eqn:E.
    - destruct (pop o3) as [cm o4]. destruct cm; cbn [negb] in H; [discriminate|]. inversion H; subst. cbn. split; [|reflexivity].
      assert (C2 : committed d2 = committed d1).
      { clear H. revert d1 o2 spk' d2 o3 T1 C1 E. generalize (w_spk st) as l. induction l as [|s r0 IH]; intros d1 o2 spk' d2 o3 T1 C1 E; cbn in E.
        - inversion E; reflexivity.
        - destruct (spkm_encrypt chk c mk s d1 o2) as [[[s1 dd] oo]|] eqn:SE; [|discriminate].
          destruct (encrypt_all chk c mk r0 dd oo) as [[[r1 d3] o5]|] eqn:R; [|discriminate]. inversion E; subst.
          assert (X : in_txn dd /\ committed dd = committed d1).
          { unfold spkm_encrypt in SE. destruct (s_crypt s); [discriminate|]. destruct (s_plain s); [|inversion SE; subst; split; [exact T1|reflexivity]].
            destruct (pop o2) as [w oa]. destruct w.
            - destruct (pop oa) as [e ob]. destruct e.
              + inversion SE; subst. destruct (in_txn_write d1 (KCrypt (s_id s)) (Some (VCrypt (c_enc c mk (c_iv c (s_pub s)) b))) T1) as [Ta Ca].
                destruct (in_txn_write _ (KPlain (s_id s)) None Ta) as [Tb Cb]. split; [exact Tb|rewrite Cb, Ca; reflexivity].
              + destruct chk; [discriminate|]. inversion SE; subst. apply in_txn_write; exact T1.
            - destruct chk; [discriminate|]. inversion SE; subst. split; [exact T1|reflexivity]. }
          destruct X as [Tx Cx]. rewrite (IH _ _ _ _ _ Tx eq_refl R). exact Cx. }
      rewrite C2. exact C1.
    - inversion H; subst. cbn. split; [exact C1|reflexivity].
  Qed.

  (* phase 1 reaches the commit: with checked writes (any failures) or without failures, the database then holds the
     master key record and no plaintext key record, every manager holds its key encrypted under the master key *)
  Lemma phase1_committed chk st pass mk salt o st2 :
    plain_wallet st -> good chk o -> encrypt_phase1 chk c st pass mk salt o = inr st2 ->
    (forall id, committed (w_db st2) (KPlain id) = None) /\
    committed (w_db st2) (KMaster (S (w_maxid st))) = Some (VMaster salt (snd (encrypt_master c pass salt mk))) /\
    pending (w_db st2) = None /\
    Forall (enc_under mk) (w_spk st2) /\ map s_id (w_spk st2) = map s_id (w_spk st) /\
    w_mk st2 = [(S (w_maxid st), encrypt_master c pass salt mk)] /\ w_vm st2 = None /\ w_dead st2 = w_dead st.
  Proof.
    intros (Hm & Hpl & Hnd & Hpe & Hsync) Hg H. unfold encrypt_phase1 in H.
    unfold has_enc in H. rewrite Hm in H.
    destruct (good_pop _ _ Hg) as [Hg1 Hb]. destruct (pop o) as [b o1]. cbn [fst snd] in *.
    destruct b; cbn [negb] in H; [|discriminate].
    destruct (good_pop _ _ Hg1) as [Hg2 Hw]. destruct (pop o1) as [wm o2]. cbn [fst snd] in *.
    assert (Hwm : wm = true).
    { destruct Hw as [Hw|Hw]; [|exact Hw]. subst chk. destruct wm; [reflexivity|]. cbn in H. discriminate. }
    subst wm. cbn [negb andb] in H.
    set (rec := encrypt_master c pass salt mk) in *.
    set (d1 := db_write (db_begin (w_db st)) (KMaster (S (w_maxid st))) (Some (VMaster (fst rec) (snd rec)))) in H.
    assert (T1 : in_txn d1) by (subst d1; apply in_txn_write; eexists; reflexivity).
    destruct (encrypt_all chk c mk (w_spk st) d1 o2) as [[[spk' d2] o3]|] eqn:E; [|discriminate].
    destruct (encrypt_all_props _ _ _ _ _ _ _ _ Hpl Hnd T1 Hg2 E) as (F & M & T2 & C2 & Hg3 & P).
    destruct (good_pop _ _ Hg3) as [_ Hc]. destruct (pop o3) as [cm o4]. cbn [fst] in Hc.
    destruct cm; cbn [negb] in H; [|discriminate]. inversion H; subst; clear H. cbn [w_db w_spk w_mk w_vm w_dead].
    destruct T2 as [p2 Ep2]. unfold db_commit. rewrite Ep2. cbn [committed pending].
    assert (Ep1 : pending d1 = Some (db_set (committed (w_db st)) (KMaster (S (w_maxid st))) (Some (VMaster (fst rec) (snd rec))))).
    { subst d1. unfold db_write, db_begin. cbn. reflexivity. }
    destruct (P _ _ Ep1 Ep2) as [A B].
    assert (Hsalt : fst rec = salt) by (subst rec; unfold encrypt_master; destruct (c_kdf c pass salt); reflexivity).
    split.
    { intros id. destruct (in_dec Nat.eq_dec id (map s_id (w_spk st))) as [Hin|Hni].
      - apply B; exact Hin.
      - rewrite A.
        + unfold db_set. cbn [rkey_eqb]. destruct (committed (w_db st) (KPlain id)) eqn:X; [|reflexivity].
          exfalso. apply Hni. apply Hsync. congruence.
        + intros id' Hin'. split; intros Heq; inversion Heq; subst; [|contradiction]. }
    split.
    { rewrite A; [unfold db_set; rewrite rkey_eqb_refl, Hsalt; reflexivity|]. intros id' _. split; discriminate. }
    split; [reflexivity|]. split; [exact F|]. split; [exact M|]. rewrite Hm. repeat split; reflexivity.
  Qed.
End Cipher.
