(* C63 -- the simulation between the node-side emitter and the subscriber, phase by phase:
   mempool operations, DisconnectTip, ConnectTip (the subscriber lags: BlockConnected comes after the step),
   the BlockConnected burst, a whole ActivateBestChainStep. *)
From BV Require Import lib.Ints model.Notify proofs.NotifyPool.
Local Open Scope Z_scope.

(* ---- invariants of the node side ---- *)

Fixpoint chain_ok (T : tree) (c : list block) : Prop :=
  match c with
  | b :: ((p :: _) as r) => (exists bi, T b = Some bi /\ bi_prev bi = p) /\ chain_ok T r
  | _ => True
  end.

Definition fresh (T : tree) (chain : list block) (pool : list txid) : Prop :=
  forall t, In t pool -> confirmed T chain t = false.

Record ninv (T : tree) (s : nstate) : Prop :=
  { ni_ok : chain_ok T (ns_chain s); ni_nd : NoDup (ns_chain s); ni_fresh : fresh T (ns_chain s) (ns_pool s) }.

Lemma confirmed_true T c t : confirmed T c t = true <-> exists b, In b c /\ In t (txs_of T b).
Proof.
  unfold confirmed. rewrite existsb_exists. split; intros [b [H1 H2]]; exists b; split; auto; apply memb_In; auto.
Qed.

Lemma confirmed_false T c t : confirmed T c t = false <-> forall b, In b c -> ~ In t (txs_of T b).
Proof.
  split.
  - intros H b Hb Hin. assert (confirmed T c t = true) by (apply confirmed_true; exists b; auto). congruence.
  - intros H. destruct (confirmed T c t) eqn:E; [|reflexivity]. apply confirmed_true in E. destruct E as [b [H1 H2]]. exfalso. exact (H b H1 H2).
Qed.

Lemma sub_confirmed_annotate T c t : sub_confirmed (annotate T c) t = confirmed T c t.
Proof. unfold sub_confirmed, confirmed, annotate. induction c as [|b c IH]; simpl; [reflexivity|]. rewrite IH. reflexivity. Qed.

Lemma confirmed_mono T c1 c2 t : (forall b, In b c1 -> In b c2) -> confirmed T c1 t = true -> confirmed T c2 t = true.
Proof. intros H H1. apply confirmed_true in H1. destruct H1 as [b [Hb Ht]]. apply confirmed_true. exists b. auto. Qed.

(* ---- mempool operations: the subscriber may lag by the transactions X of blocks that are connected but not yet
   announced (pool of the node = pool of the subscriber minus X) ---- *)

Definition nse_mpop (o : mpop) : Prop := match o with PAtmp t _ limit => ~ In t (map fst limit) | PRem _ => True end.

Lemma nonblock_all l : (forall x, In x l -> is_block_reason (snd x) = false) -> nonblock l = map fst l.
Proof.
  unfold nonblock. induction l as [|a l IH]; intros H; simpl; [reflexivity|].
  rewrite (H a (or_introl eq_refl)). simpl. f_equal. apply IH. intros x Hx. apply H. right; exact Hx.
Qed.

Lemma limit_nonblock r : is_limit_reason r = true -> is_block_reason r = false.
Proof. destruct r; simpl; congruence. Qed.

Lemma mpop_sub tol T chain schain : forall o p p' ev X sp pend low,
  exec_mpop T chain p o = Some (p', ev) ->
  p = rem_all X sp ->
  (forall t, In t X -> confirmed T chain t = true) ->
  (forall t, sub_confirmed schain t = true -> confirmed T chain t = true) ->
  (tol = true \/ nse_mpop o) ->
  exists sp', sub_run tol (mk_ss schain sp pend low) ev = Some (mk_ss schain sp' pend low) /\ p' = rem_all X sp'.
Proof.
  intros o p p' ev X sp pend low H Hp HX Hsc Htol. destruct o as [t repl limit | l]; simpl in H.
  - destruct (memb t p || confirmed T chain t) eqn:E0; [discriminate|].
    apply orb_false_iff in E0. destruct E0 as [Etp Etc].
    destruct (forallb (fun x => is_limit_reason (snd x)) limit) eqn:El; simpl in H; [|discriminate].
    destruct (apply_rems p (map (fun x => (x, RReplaced)) repl)) as [[p1 e1]|] eqn:E1; [|discriminate].
    destruct (apply_rems (t :: p1) limit) as [[p2 e2]|] eqn:E2; [|discriminate].
    inversion H; subst p' ev. clear H.
    rewrite forallb_forall in El.
    assert (HtX : ~ In t X). { intro Hin. apply HX in Hin. congruence. }
    assert (Htsp : ~ In t sp).
    { intro Hin. apply memb_false in Etp. apply Etp. rewrite Hp. apply rem_all_In. split; assumption. }
    (* replaced *)
    pose proof (apply_rems_spec _ _ _ _ E1) as (Hp1 & He1 & _ & _).
    assert (Hnb1 : nonblock (map (fun x => (x, RReplaced)) repl) = map fst (map (fun x => (x, RReplaced)) repl)).
    { apply nonblock_all. intros x Hx. apply in_map_iff in Hx. destruct Hx as [y [Hy _]]. subst. reflexivity. }
    assert (S1 : sub_run tol (mk_ss schain sp pend low) e1 = Some (mk_ss schain (rem_all (map fst (map (fun x => (x, RReplaced)) repl)) sp) pend low)).
    { rewrite <- Hnb1. apply sub_follows_rems with (p := p) (p' := p1) (extra := []).
      - exact E1.
      - intros x Hx. left. rewrite Hp in Hx. apply rem_all_In in Hx. tauto.
      - intros x [].
      - right. intros x []. }
    set (R := map fst (map (fun x => (x, RReplaced)) repl)) in *.
    set (sp1 := rem_all R sp) in *.
    (* limit *)
    pose proof (apply_rems_spec _ _ _ _ E2) as (Hp2 & He2 & _ & _).
    assert (Hnb2 : nonblock limit = map fst limit).
    { apply nonblock_all. intros x Hx. apply limit_nonblock. apply El. exact Hx. }
    assert (Hp1sp : p1 = rem_all X sp1).
    { rewrite Hp1, Hp. unfold sp1. rewrite !rem_all_rem_all. apply rem_all_ext. intros x _. rewrite !in_app_iff. tauto. }
    assert (Htsp1 : ~ In t sp1). { unfold sp1. intro Hin. apply rem_all_In in Hin. tauto. }
    assert (S2 : sub_run tol (mk_ss schain sp1 pend low) e2 = Some (mk_ss schain (rem_all (map fst limit) sp1) pend low)).
    { rewrite <- Hnb2. apply sub_follows_rems with (p := t :: p1) (p' := p2) (extra := [t]).
      - exact E2.
      - intros x [Hx|Hx]; [right; left; exact Hx | left]. rewrite Hp1sp in Hx. apply rem_all_In in Hx. tauto.
      - intros x [Hx|[]]. subst. exact Htsp1.
      - destruct Htol as [Ht|Hn]; [left; split; [exact Ht|]; intros x Hx; apply El; exact Hx | right].
        intros x [Hx|[]]. subst. exact Hn. }
    set (sp2 := rem_all (map fst limit) sp1) in *.
    destruct (memb t p2) eqn:Et2.
    + (* the transaction survived LimitMempoolSize: TransactionAddedToMempool *)
      exists (t :: sp2). split.
      * rewrite sub_run_app, S1. cbv beta iota. rewrite sub_run_app, S2. cbv beta iota. simpl.
        assert (Em : memb t sp2 = false). { apply memb_false. unfold sp2. intro Hin. apply rem_all_In in Hin. tauto. }
        rewrite Em. simpl.
        assert (Ec : sub_confirmed schain t = false).
        { destruct (sub_confirmed schain t) eqn:Ec; [|reflexivity]. apply Hsc in Ec. congruence. }
        rewrite Ec. reflexivity.
      * apply memb_In in Et2. rewrite Hp2 in Et2. apply rem_all_In in Et2. destruct Et2 as [_ Hnl].
        rewrite Hp2. rewrite rem_all_cons_notin by exact Hnl. rewrite rem_all_cons_notin by exact HtX. f_equal.
        rewrite Hp1sp. unfold sp2. rewrite !rem_all_rem_all. apply rem_all_ext. intros x _. rewrite !in_app_iff. tauto.
    + (* evicted by its own LimitMempoolSize: no TransactionAddedToMempool *)
      exists sp2. split.
      * rewrite sub_run_app, S1. cbv beta iota. rewrite sub_run_app, S2. cbv beta iota. simpl. reflexivity.
      * apply memb_false in Et2. rewrite Hp2 in Et2.
        assert (Hin : In t (map fst limit)).
        { destruct (in_dec Z.eq_dec t (map fst limit)) as [Hi|Hi]; [exact Hi|]. exfalso. apply Et2. apply rem_all_In. split; [left; reflexivity | exact Hi]. }
        rewrite Hp2. rewrite rem_all_cons_in by exact Hin.
        rewrite Hp1sp. unfold sp2. rewrite !rem_all_rem_all. apply rem_all_ext. intros x _. rewrite !in_app_iff. tauto.
  - destruct (forallb (fun x => negb (is_block_reason (snd x))) l) eqn:El; [|discriminate].
    rewrite forallb_forall in El.
    pose proof (apply_rems_spec _ _ _ _ H) as (Hp' & He & _ & _).
    assert (Hnb : nonblock l = map fst l).
    { apply nonblock_all. intros x Hx. apply negb_true_iff. apply El. exact Hx. }
    exists (rem_all (map fst l) sp). split.
    + rewrite <- Hnb. apply sub_follows_rems with (p := p) (p' := p') (extra := []).
      * exact H.
      * intros x Hx. left. rewrite Hp in Hx. apply rem_all_In in Hx. tauto.
      * intros x [].
      * right. intros x [].
    + rewrite Hp', Hp. rewrite !rem_all_rem_all. apply rem_all_ext. intros x _. rewrite !in_app_iff. tauto.
Qed.

Lemma mpop_fresh T chain o p p' ev :
  exec_mpop T chain p o = Some (p', ev) -> fresh T chain p -> fresh T chain p'.
Proof.
  intros H Hf. destruct o as [t repl limit | l]; simpl in H.
  - destruct (memb t p || confirmed T chain t) eqn:E0; [discriminate|].
    apply orb_false_iff in E0. destruct E0 as [_ Etc].
    destruct (forallb (fun x => is_limit_reason (snd x)) limit); simpl in H; [|discriminate].
    destruct (apply_rems p (map (fun x => (x, RReplaced)) repl)) as [[p1 e1]|] eqn:E1; [|discriminate].
    destruct (apply_rems (t :: p1) limit) as [[p2 e2]|] eqn:E2; [|discriminate].
    inversion H; subst. pose proof (apply_rems_spec _ _ _ _ E1) as (Hp1 & _). pose proof (apply_rems_spec _ _ _ _ E2) as (Hp2 & _).
    intros x Hx. rewrite Hp2 in Hx. apply rem_all_In in Hx. destruct Hx as [[Hx|Hx] _]; [subst; exact Etc|].
    rewrite Hp1 in Hx. apply rem_all_In in Hx. apply Hf. tauto.
  - destruct (forallb (fun x => negb (is_block_reason (snd x))) l); [|discriminate].
    pose proof (apply_rems_spec _ _ _ _ H) as (Hp' & _). intros x Hx. rewrite Hp' in Hx. apply rem_all_In in Hx. apply Hf. tauto.
Qed.

Fixpoint nse_mpops (l : list mpop) : Prop := match l with [] => True | o :: r => nse_mpop o /\ nse_mpops r end.

Lemma mpops_sub tol T chain schain : forall l p p' ev X sp pend low,
  exec_mpops T chain p l = Some (p', ev) ->
  p = rem_all X sp ->
  (forall t, In t X -> confirmed T chain t = true) ->
  (forall t, sub_confirmed schain t = true -> confirmed T chain t = true) ->
  (tol = true \/ nse_mpops l) ->
  exists sp', sub_run tol (mk_ss schain sp pend low) ev = Some (mk_ss schain sp' pend low) /\ p' = rem_all X sp'.
Proof.
  induction l as [|o l IH]; intros p p' ev X sp pend low H Hp HX Hsc Htol; simpl in H.
  - inversion H; subst. exists sp. split; reflexivity.
  - destruct (exec_mpop T chain p o) as [[p1 e1]|] eqn:E1; [|discriminate].
    destruct (exec_mpops T chain p1 l) as [[p2 e2]|] eqn:E2; [|discriminate].
    inversion H; subst. clear H.
    destruct (mpop_sub tol T chain schain o _ _ _ X sp pend low E1 eq_refl HX Hsc) as [sp1 [S1 Hp1]].
    { destruct Htol as [Ht|[Hn _]]; [left|right]; assumption. }
    destruct (IH _ _ _ X sp1 pend low E2 Hp1 HX Hsc) as [sp2 [S2 Hp2]].
    { destruct Htol as [Ht|[_ Hn]]; [left|right]; assumption. }
    exists sp2. split; [|exact Hp2]. rewrite sub_run_app, S1. exact S2.
Qed.

Lemma mpops_fresh T chain : forall l p p' ev,
  exec_mpops T chain p l = Some (p', ev) -> fresh T chain p -> fresh T chain p'.
Proof.
  induction l as [|o l IH]; intros p p' ev H Hf; simpl in H.
  - inversion H; subst. exact Hf.
  - destruct (exec_mpop T chain p o) as [[p1 e1]|] eqn:E1; [|discriminate].
    destruct (exec_mpops T chain p1 l) as [[p2 e2]|] eqn:E2; [|discriminate].
    inversion H; subst. eapply IH; [exact E2|]. eapply mpop_fresh; eauto.
Qed.

(* ---- the low-water ghost: start = X ++ B, current = Y ++ B, low <= |B| ---- *)

Definition lowrel (start cur : list block) (low : nat) : Prop :=
  exists X Y B, start = X ++ B /\ cur = Y ++ B /\ (low <= length B)%nat.

Lemma lowrel_refl c low : (low <= length c)%nat -> lowrel c c low.
Proof. intros H. exists [], [], c. auto. Qed.

Lemma lowrel_le start cur low : lowrel start cur low -> (low <= length cur)%nat.
Proof. intros (X & Y & B & _ & Hc & Hl). subst. rewrite app_length. lia. Qed.

Lemma lowrel_disc start b cur low : lowrel start (b :: cur) low -> lowrel start cur (Nat.min low (length cur)).
Proof.
  intros (X & Y & B & Hs & Hc & Hl). destruct Y as [|y Y].
  - simpl in Hc. subst B. exists (X ++ [b]), [], cur. rewrite <- app_assoc. simpl. repeat split; auto. lia.
  - simpl in Hc. inversion Hc; subst. exists X, Y, B. repeat split; auto. lia.
Qed.

Lemma lowrel_conn start b cur low : lowrel start cur low -> lowrel start (b :: cur) low.
Proof. intros (X & Y & B & Hs & Hc & Hl). exists X, (b :: Y), B. subst. auto. Qed.

Lemma lowrel_app start l cur low : lowrel start cur low -> lowrel start (l ++ cur) low.
Proof. induction l as [|a l IH]; intros H; simpl; [exact H | apply lowrel_conn; auto]. Qed.

(* ---- DisconnectTip ---- *)

Lemma annotate_cons T b c : annotate T (b :: c) = (b, txs_of T b) :: annotate T c.
Proof. reflexivity. Qed.

Lemma annotate_length T c : length (annotate T c) = length c.
Proof. unfold annotate. apply map_length. Qed.

Lemma list_eqb_refl l : list_eqb l l = true.
Proof. unfold list_eqb. destruct (list_eq_dec Z.eq_dec l l); congruence. Qed.

Lemma disconnect_sub tol T s evict recent s1 e1 low start :
  disconnect_tip T s evict recent = Some (s1, e1) ->
  ninv T s -> lowrel start (ns_chain s) low ->
  sub_run tol (mk_ss (annotate T (ns_chain s)) (ns_pool s) [] low) e1
    = Some (mk_ss (annotate T (ns_chain s1)) (ns_pool s1) [] (Nat.min low (length (ns_chain s1))))
  /\ (exists b, ns_chain s = b :: ns_chain s1) /\ ninv T s1 /\ lowrel start (ns_chain s1) (Nat.min low (length (ns_chain s1))).
Proof.
  intros H [Hok Hnd Hfr] Hlow. unfold disconnect_tip in H.
  destruct (ns_chain s) as [|b [|p rest]] eqn:Ec; try discriminate.
  destruct (T b) as [bi|] eqn:Eb; [|discriminate].
  destruct (apply_rems (ns_pool s) (map (fun t => (t, RReorg)) evict)) as [[p' ev]|] eqn:Er; [|discriminate].
  inversion H; subst s1 e1. clear H. cbn [ns_chain ns_pool ns_ibd].
  pose proof (apply_rems_spec _ _ _ _ Er) as (Hp' & _ & _ & _).
  assert (Hnb : nonblock (map (fun t => (t, RReorg)) evict) = map fst (map (fun t => (t, RReorg)) evict)).
  { apply nonblock_all. intros x Hx. apply in_map_iff in Hx. destruct Hx as [y [Hy _]]. subst. reflexivity. }
  assert (S1 : sub_run tol (mk_ss (annotate T (b :: p :: rest)) (ns_pool s) [] low) ev
               = Some (mk_ss (annotate T (b :: p :: rest)) p' [] low)).
  { rewrite Hp', <- Hnb. apply sub_follows_rems with (p := ns_pool s) (p' := p') (extra := []).
    - exact Er.
    - intros x Hx. left. exact Hx.
    - intros x [].
    - right. intros x []. }
  simpl in Hok. destruct Hok as [[bi' [Hb' Hprev]] Hok']. rewrite Eb in Hb'. inversion Hb'; subst bi'.
  split; [|split; [|split]].
  - rewrite sub_run_app, S1. simpl.
    rewrite Z.eqb_refl. unfold txs_of at 1. rewrite Eb. rewrite list_eqb_refl. rewrite Hprev, Z.eqb_refl. simpl.
    rewrite annotate_length. reflexivity.
  - exists b. reflexivity.
  - constructor; simpl.
    + exact Hok'.
    + inversion Hnd; assumption.
    + intros t Ht. rewrite Hp' in Ht. apply rem_all_In in Ht. destruct Ht as [Ht _]. apply Hfr in Ht.
      apply confirmed_false. intros b0 Hb0. rewrite confirmed_false in Ht. apply Ht. right; exact Hb0.
  - simpl. apply (lowrel_disc start b (p :: rest) low). exact Hlow.
Qed.

Lemma disconnect_tips_sub tol T start : forall l s s1 e1 low,
  disconnect_tips T s l = Some (s1, e1) ->
  ninv T s -> lowrel start (ns_chain s) low ->
  exists low', sub_run tol (mk_ss (annotate T (ns_chain s)) (ns_pool s) [] low) e1
                 = Some (mk_ss (annotate T (ns_chain s1)) (ns_pool s1) [] low')
  /\ ns_chain s1 = skipn (length l) (ns_chain s) /\ (length l <= length (ns_chain s))%nat
  /\ ninv T s1 /\ lowrel start (ns_chain s1) low'.
Proof.
  induction l as [|[ev rc] l IH]; intros s s1 e1 low H Hinv Hlow; simpl in H.
  - inversion H; subst. exists low. simpl. split; [reflexivity | split; [reflexivity | split; [lia | split; assumption]]].
  - destruct (disconnect_tip T s ev rc) as [[s2 e2]|] eqn:E1; [|discriminate].
    destruct (disconnect_tips T s2 l) as [[s3 e3]|] eqn:E2; [|discriminate].
    inversion H; subst. clear H.
    destruct (disconnect_sub tol T s ev rc s2 e2 low start E1 Hinv Hlow) as (S1 & [b Hb] & Hinv2 & Hlow2).
    destruct (IH s2 s1 e3 _ E2 Hinv2 Hlow2) as (low' & S2 & Hc & Hlen & Hinv3 & Hlow3).
    exists low'. split; [|split; [|split; [|split]]]; auto.
    + rewrite sub_run_app, S1. exact S2.
    + rewrite Hc, Hb. reflexivity.
    + rewrite Hb. simpl. lia.
Qed.
