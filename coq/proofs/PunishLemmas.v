(* C36: properties of the punishment tables. *)
From BV Require Import lib.Ints gen.Params_gen model.Punish.
Local Open Scope Z_scope.

Lemma tx_never_punishes r noban manual local : tx_outcome r noban manual local = mkOutcome false false.
Proof. reflexivity. Qed.

Lemma noban_manual_never flag noban manual local : noban = true \/ manual = true ->
  discourage_and_disconnect flag noban manual local = mkOutcome false false.
Proof. intros [->| ->]; destruct flag; simpl; auto; destruct noban; auto. Qed.

Lemma block_noban_manual_never r vc inb noban manual local : noban = true \/ manual = true ->
  block_outcome r vc inb noban manual local = mkOutcome false false.
Proof. intros H. apply noban_manual_never. auto. Qed.

(* a full (non-compact) block found invalid: consensus failure, mutation, invalid header, invalid or missing predecessor *)
Definition invalid_full_block_result (r : Z) : Prop :=
  r = BVR_CONSENSUS \/ r = BVR_MUTATED \/ r = BVR_INVALID_HEADER \/ r = BVR_INVALID_PREV \/ r = BVR_MISSING_PREV.

Lemma invalid_full_block_punished r inb local : invalid_full_block_result r ->
  block_outcome r false inb false false local = mkOutcome true (negb local).
Proof.
  unfold invalid_full_block_result, block_outcome, punish_block.
  intros [->|[->|[->|[->| ->]]]]; vm_compute; destruct local; reflexivity.
Qed.

(* invalid proof of work in a headers message ("header with invalid proof of work") sets the flag directly *)
Lemma flagged_peer_outcome local : discourage_and_disconnect true false false local = mkOutcome true (negb local).
Proof. destruct local; reflexivity. Qed.

(* the complete table of MaybePunishNodeForBlock *)
Lemma punish_block_table r vc inb :
  punish_block r vc inb = true <->
  ((r = BVR_CONSENSUS \/ r = BVR_MUTATED) /\ vc = false) \/ (r = BVR_CACHED_INVALID /\ vc = false /\ inb = false) \/
  r = BVR_INVALID_HEADER \/ r = BVR_INVALID_PREV \/ r = BVR_MISSING_PREV.
Proof.
  unfold punish_block, BVR_UNSET, BVR_HEADER_LOW_WORK, BVR_CONSENSUS, BVR_MUTATED, BVR_CACHED_INVALID, BVR_INVALID_HEADER, BVR_INVALID_PREV, BVR_MISSING_PREV, BVR_TIME_FUTURE.
  destruct (r =? 0) eqn:E0; [apply Z.eqb_eq in E0; split; [discriminate | lia]|].
  destruct (r =? 8) eqn:E8; [apply Z.eqb_eq in E8; split; [discriminate | lia]|].
  destruct (r =? 1) eqn:E1; [apply Z.eqb_eq in E1; simpl; destruct vc; simpl; split; try discriminate; try lia; auto|].
  destruct (r =? 4) eqn:E4; [apply Z.eqb_eq in E4; simpl; destruct vc; simpl; split; try discriminate; try lia; auto|].
  simpl. destruct (r =? 2) eqn:E2; [apply Z.eqb_eq in E2; destruct vc, inb; simpl; split; try discriminate; try lia; auto|].
  destruct (r =? 3) eqn:E3; [apply Z.eqb_eq in E3; simpl; split; auto|].
  destruct (r =? 6) eqn:E6; [apply Z.eqb_eq in E6; simpl; split; auto|].
  simpl. destruct (r =? 5) eqn:E5; [apply Z.eqb_eq in E5; split; auto|].
  apply Z.eqb_neq in E0, E1, E2, E3, E4, E5, E6, E8.
  destruct (r =? 7); split; try discriminate; lia.
Qed.
