(* Proofs about model/Codec.v, part 1: hex. *)
From Coq Require Import NArith.
From BV Require Import lib.Ints gen.Params_gen model.SerBase model.Codec proofs.SerBaseLemmas.
Local Open Scope Z_scope.

(* facts about single characters are established by running through all 256 of them *)
Definition all_chars : list N := map N.of_nat (seq 0 256).
Lemma all_chars_complete c : (c < 256)%N -> In c all_chars.
Proof.
  intros H. unfold all_chars. apply in_map_iff. exists (N.to_nat c). split; [lia|]. apply in_seq. lia.
Qed.
Lemma char_forall (P : N -> bool) : forallb P all_chars = true -> forall c, (c < 256)%N -> P c = true.
Proof. intros H c Hc. rewrite forallb_forall in H. apply H, all_chars_complete, Hc. Qed.

Lemma hexdigit_table_length : length HEXDIGIT_TABLE = 256%nat.
Proof. vm_compute. reflexivity. Qed.

Lemma hex_digit_big c : (256 <= c)%N -> hex_digit c = -1.
Proof. intros H. unfold hex_digit. apply nth_overflow. rewrite hexdigit_table_length. lia. Qed.

(* a character TryParseHex accepts as a digit: below 256, value 0..15, not white space, and the
   lower-case hex character of its value is its own lower case *)
Definition hex_char_ok (c : N) : bool :=
  (hex_digit c <? 0) ||
  ((hex_digit c <? 16) && negb (is_space c) && (hex_char (Z.to_N (hex_digit c)) =? to_lower c)%N).
Lemma hex_chars_ok : forallb hex_char_ok all_chars = true.
Proof. vm_compute. reflexivity. Qed.

Lemma hex_digit_valid c : 0 <= hex_digit c ->
  hex_digit c < 16 /\ is_space c = false /\ hex_char (Z.to_N (hex_digit c)) = to_lower c.
Proof.
  intros H. destruct (N.lt_ge_cases c 256) as [Hc|Hc]; [|rewrite hex_digit_big in H by exact Hc; lia].
  pose proof (char_forall hex_char_ok hex_chars_ok c Hc) as P. unfold hex_char_ok in P.
  apply orb_prop in P. destruct P as [P|P]; [lia|].
  apply andb_prop in P. destruct P as [P P3]. apply andb_prop in P. destruct P as [P1 P2].
  apply N.eqb_eq in P3. apply negb_true_iff in P2. split; [lia|]. split; assumption.
Qed.

(* the two characters HexStr writes for a byte, and what TryParseHex makes of them *)
Definition hex_byte_ok (b : N) : bool :=
  let c1 := hex_char (N.shiftr b 4) in
  let c2 := hex_char (N.land b 15) in
  negb (is_space c1) && (0 <=? hex_digit c1) && (0 <=? hex_digit c2) &&
  (Z.to_N (Z.lor (wrapu8 (Z.shiftl (hex_digit c1) 4)) (hex_digit c2)) =? b)%N.
Lemma hex_bytes_ok : forallb hex_byte_ok all_chars = true.
Proof. vm_compute. reflexivity. Qed.

Lemma try_parse_hex_pair c1 c2 r : is_space c1 = false ->
  try_parse_hex (c1 :: c2 :: r) =
    if (hex_digit c1 <? 0) || (hex_digit c2 <? 0) then None
    else match try_parse_hex r with
         | Some l => Some (Z.to_N (Z.lor (wrapu8 (Z.shiftl (hex_digit c1) 4)) (hex_digit c2)) :: l)
         | None => None
         end.
Proof. intros H. cbn [try_parse_hex]. rewrite H. reflexivity. Qed.

Lemma hex_str_cons x b : hex_str (x :: b) = hex_char (N.shiftr x 4) :: hex_char (N.land x 15) :: hex_str b.
Proof. reflexivity. Qed.

(* ROUND TRIP *)
Lemma hex_roundtrip b : bytes_ok b -> try_parse_hex (hex_str b) = Some b.
Proof.
  induction 1 as [|x b Hx Hb IH]; [reflexivity|].
  rewrite hex_str_cons.
  pose proof (char_forall hex_byte_ok hex_bytes_ok x Hx) as P. unfold hex_byte_ok in P. cbv zeta in P.
  apply andb_prop in P. destruct P as [P P4]. apply andb_prop in P. destruct P as [P P3].
  apply andb_prop in P. destruct P as [P1 P2].
  apply negb_true_iff in P1. apply N.eqb_eq in P4.
  rewrite try_parse_hex_pair by exact P1.
  assert (E : (hex_digit (hex_char (N.shiftr x 4)) <? 0) || (hex_digit (hex_char (N.land x 15)) <? 0) = false) by lia.
  rewrite E, IH, P4. reflexivity.
Qed.

(* for two digit values the assembled byte splits back into them *)
Definition nibbles_ok (p : N) : bool :=
  let d1 := Z.of_N (N.shiftr p 4) in let d2 := Z.of_N (N.land p 15) in
  let b := Z.to_N (Z.lor (wrapu8 (Z.shiftl d1 4)) d2) in
  ((N.shiftr b 4 =? N.shiftr p 4) && (N.land b 15 =? N.land p 15))%N.
Lemma all_nibbles_ok : forallb nibbles_ok all_chars = true.
Proof. vm_compute. reflexivity. Qed.

Lemma byte_of_nibbles d1 d2 : 0 <= d1 < 16 -> 0 <= d2 < 16 ->
  let b := Z.to_N (Z.lor (wrapu8 (Z.shiftl d1 4)) d2) in
  N.shiftr b 4 = Z.to_N d1 /\ N.land b 15 = Z.to_N d2.
Proof.
  intros H1 H2.
  set (p := Z.to_N (d1 * 16 + d2)).
  assert (Hp : (p < 256)%N) by (unfold p; lia).
  assert (E1 : N.shiftr p 4 = Z.to_N d1).
  { rewrite N.shiftr_div_pow2. change (2 ^ 4)%N with 16%N. unfold p.
    apply N2Z.inj. rewrite N2Z.inj_div, !Z2N.id by lia. change (Z.of_N 16) with 16. lia. }
  assert (E2 : N.land p 15 = Z.to_N d2).
  { change 15%N with (N.ones 4). rewrite N.land_ones. change (2 ^ 4)%N with 16%N. unfold p.
    apply N2Z.inj. rewrite N2Z.inj_mod, !Z2N.id by lia. change (Z.of_N 16) with 16. lia. }
  pose proof (char_forall nibbles_ok all_nibbles_ok p Hp) as P. unfold nibbles_ok in P. cbv zeta in P.
  rewrite E1, E2, !Z2N.id in P by lia.
  apply andb_prop in P. destruct P as [P1 P2]. apply N.eqb_eq in P1. apply N.eqb_eq in P2.
  cbv zeta. split; assumption.
Qed.

(* CANONICAL: a string that parses is, up to white space and letter case, the HexStr of the result *)
Lemma hex_canonical_len n : forall s b, (length s <= n)%nat -> try_parse_hex s = Some b ->
  hex_str b = hex_normal s.
Proof.
  induction n as [|n IH]; intros s b L H.
  - destruct s; [|cbn [length] in L; lia]. cbn in H. inversion H. reflexivity.
  - destruct s as [|c r]; [cbn in H; inversion H; reflexivity|].
    destruct (is_space c) eqn:SP.
    + assert (H' : try_parse_hex r = Some b) by (cbn [try_parse_hex] in H; rewrite SP in H; exact H).
      unfold hex_normal. cbn [filter]. rewrite SP. cbn [negb]. apply IH; [cbn [length] in L; lia | exact H'].
    + destruct r as [|c2 r2]; [cbn [try_parse_hex] in H; rewrite SP in H; discriminate|].
      rewrite try_parse_hex_pair in H by exact SP.
      destruct ((hex_digit c <? 0) || (hex_digit c2 <? 0)) eqn:NEG; [discriminate|].
      destruct (try_parse_hex r2) as [l|] eqn:R; [|discriminate].
      assert (Eb : b = Z.to_N (Z.lor (wrapu8 (Z.shiftl (hex_digit c) 4)) (hex_digit c2)) :: l) by congruence.
      subst b. clear H.
      destruct (hex_digit_valid c ltac:(lia)) as [D1 [S1 T1]].
      destruct (hex_digit_valid c2 ltac:(lia)) as [D2 [S2 T2]].
      destruct (byte_of_nibbles (hex_digit c) (hex_digit c2) ltac:(lia) ltac:(lia)) as [B1 B2].
      cbv zeta in B1, B2.
      rewrite hex_str_cons, B1, B2, T1, T2.
      unfold hex_normal. cbn [filter]. rewrite SP, S2. cbn [negb map]. f_equal. f_equal.
      apply IH; [cbn [length] in L; lia | exact R].
Qed.

Lemma hex_canonical s b : try_parse_hex s = Some b -> hex_str b = hex_normal s.
Proof. apply (hex_canonical_len (length s)). lia. Qed.

(* the result is always a list of bytes *)
Lemma hex_str_length b : length (hex_str b) = (2 * length b)%nat.
Proof. induction b as [|x b IH]; [reflexivity|]. rewrite hex_str_cons. cbn [length]. lia. Qed.
