(* Legacy signature hash (C10): the preimage is the no-witness serialisation of the transaction
   legacy_view describes (the one the reference SignatureHashOld builds) followed by the hash type,
   it commits to exactly that view, SIGHASH_SINGLE without a matching output yields the constant 1,
   and a scriptCode ending in a truncated push is NOT fully committed (refuted clause, harmless). *)
From Coq Require Import NArith.
From BV Require Import lib.Ints gen.Params_gen model.SerBase model.SerTx proofs.SerBaseLemmas
                       model.SigHash model.SigHashSpec proofs.SigHashBase proofs.SigHashSegwit.
Local Open Scope Z_scope.

(* ---- GetOp and the scriptCode walk ---- *)
Lemma le_value_nonneg l : 0 <= le_value l.
Proof. induction l as [|b r IH]; cbn [le_value]; lia. Qed.

Lemma get_op_consumed s op k : get_op s = GOp op k -> (1 <= k <= length s)%nat.
Proof.
  unfold get_op. destruct s as [|o r]; [discriminate|].
  destruct (Z.of_N o <=? SH_OP_PUSHDATA4); [|intros E; injection E as _ <-; cbn [length]; lia].
  match goal with |- match ?h with _ => _ end = _ -> _ => destruct h as [[nsize h']|] eqn:Eh end; [|discriminate].
  destruct (_ <? nsize) eqn:El; [discriminate|]. intros E. injection E as _ <-.
  assert (Hh : (1 <= h')%nat /\ 0 <= nsize).
  { revert Eh. destruct (Z.of_N o <? SH_OP_PUSHDATA1).
    - intros Eh. injection Eh as <- <-. lia.
    - destruct (Z.of_N o =? SH_OP_PUSHDATA1).
      + destruct r as [|b0 r]; [discriminate|]. intros Eh; match type of Eh with Some (?a, ?b) = _ => assert (nsize = a) by congruence; assert (h' = b) by congruence end; subst nsize h'; split; [lia | apply le_value_nonneg].
      + destruct (Z.of_N o =? SH_OP_PUSHDATA2).
        * destruct r as [|b0 [|b1 r]]; try discriminate. intros Eh; match type of Eh with Some (?a, ?b) = _ => assert (nsize = a) by congruence; assert (h' = b) by congruence end; subst nsize h'; split; [lia | apply le_value_nonneg].
        * destruct r as [|b0 [|b1 [|b2 [|b3 r]]]]; try discriminate. intros Eh; match type of Eh with Some (?a, ?b) = _ => assert (nsize = a) by congruence; assert (h' = b) by congruence end; subst nsize h'; split; [lia | apply le_value_nonneg]. }
  lia.
Qed.

Lemma get_op_codesep s op k : get_op s = GOp op k -> Z.of_N op = SH_OP_CODESEPARATOR -> k = 1%nat.
Proof.
  unfold get_op. destruct s as [|o r]; [discriminate|].
  destruct (Z.of_N o <=? SH_OP_PUSHDATA4) eqn:E4.
  - match goal with |- match ?h with _ => _ end = _ -> _ => destruct h as [[nsize h']|] end; [|discriminate].
    destruct (_ <? nsize); [discriminate|]. intros E Ec. injection E as <- _. exfalso.
    revert E4 Ec. unfold SH_OP_PUSHDATA4, SH_OP_CODESEPARATOR. lia.
  - intros E _. injection E as _ <-. reflexivity.
Qed.

Lemma get_op_end s : get_op s = GEnd -> s = [].
Proof.
  unfold get_op. destruct s as [|o r]; [reflexivity|].
  destruct (Z.of_N o <=? SH_OP_PUSHDATA4); [|discriminate].
  match goal with |- match ?h with _ => _ end = _ -> _ => destruct h as [[nsize h']|] end; [|discriminate].
  destruct (_ <? nsize); discriminate.
Qed.

Lemma walk_parses fuel : forall s w n,
  script_code_walk fuel s = (w, n) -> script_parses_fuel fuel s = true ->
  Z.of_nat (length w) + n = Z.of_nat (length s) /\ 0 <= n /\ (n = 0 -> w = s).
Proof.
  induction fuel as [|f IH]; intros s w n Ew Ep; [discriminate|].
  cbn [script_code_walk script_parses_fuel] in Ew, Ep.
  destruct (get_op s) as [|k|op k] eqn:Eg; [|discriminate|].
  - injection Ew as <- <-. apply get_op_end in Eg. subst s. cbn. repeat split; lia.
  - destruct (script_code_walk f (skipn k s)) as [w' n'] eqn:Ew'.
    destruct (IH _ _ _ Ew' Ep) as (L & Hn & Hz).
    pose proof (get_op_consumed _ _ _ Eg) as Hk. rewrite skipn_length in L.
    destruct (Z.of_N op =? SH_OP_CODESEPARATOR) eqn:Ec.
    + injection Ew as <- <-. assert (k = 1%nat) by (eapply get_op_codesep; [eassumption | lia]). subst k.
      repeat split; lia.
    + injection Ew as <- <-. rewrite app_length, firstn_length. repeat split; try lia.
      intros ->. rewrite (Hz eq_refl). apply firstn_skipn.
Qed.

(* a scriptCode that parses is serialised as the byte vector without its OP_CODESEPARATORs *)
Lemma ser_script_code_parses sc : script_parses sc = true -> ser_script_code sc = ser_bytes (strip_codeseparators sc).
Proof.
  unfold script_parses, ser_script_code, strip_codeseparators, ser_bytes. intros P.
  destruct (script_code_walk (S (length sc)) sc) as [w n] eqn:Ew. cbn [fst].
  destruct (walk_parses _ _ _ _ Ew P) as (L & _ & _). f_equal. f_equal. lia.
Qed.

Lemma strip_length sc : script_parses sc = true -> (length (strip_codeseparators sc) <= length sc)%nat.
Proof.
  unfold script_parses, strip_codeseparators. intros P.
  destruct (script_code_walk (S (length sc)) sc) as [w n] eqn:Ew. cbn [fst].
  destruct (walk_parses _ _ _ _ Ew P) as (L & Hn & _). lia.
Qed.

(* number of OP_CODESEPARATOR instructions; without any, the script itself is what is committed *)
Definition count_codeseparators (sc : list N) : Z := snd (script_code_walk (S (length sc)) sc).
Lemma strip_no_codeseparator sc : script_parses sc = true -> count_codeseparators sc = 0 -> strip_codeseparators sc = sc.
Proof.
  unfold script_parses, strip_codeseparators, count_codeseparators. intros P.
  destruct (script_code_walk (S (length sc)) sc) as [w n] eqn:Ew. cbn [fst snd].
  destruct (walk_parses _ _ _ _ Ew P) as (_ & _ & Hz). exact Hz.
Qed.

(* ---- mapi_from ---- *)
Lemma map_mapi_from {A B C} (g : B -> C) (f : nat -> A -> B) l : forall k,
  map g (mapi_from k f l) = mapi_from k (fun j x => g (f j x)) l.
Proof. induction l as [|x l IH]; intros k; cbn; [reflexivity | rewrite IH; reflexivity]. Qed.
Lemma mapi_from_ext {A B} (f g : nat -> A -> B) l : (forall j x, f j x = g j x) -> forall k, mapi_from k f l = mapi_from k g l.
Proof. intros E. induction l as [|x l IH]; intros k; cbn; [reflexivity | rewrite E, IH; reflexivity]. Qed.
Lemma mapi_from_length {A B} (f : nat -> A -> B) l : forall k, length (mapi_from k f l) = length l.
Proof. induction l as [|x l IH]; intros k; cbn; [reflexivity | rewrite IH; reflexivity]. Qed.
Lemma Forall_mapi_from {A B} (P : A -> Prop) (Q : B -> Prop) (f : nat -> A -> B) l :
  (forall j x, P x -> Q (f j x)) -> Forall P l -> forall k, Forall Q (mapi_from k f l).
Proof.
  intros I F. induction F as [|x l Px F IH]; intros k; cbn; [constructor|].
  constructor; [apply I; exact Px | apply IH].
Qed.

Lemma Forall_firstn' {A} (P : A -> Prop) n : forall l, Forall P l -> Forall P (firstn n l).
Proof.
  induction n as [|n IH]; intros l F; [constructor|]. destruct F as [|x l Px F]; [constructor|].
  cbn [firstn]. constructor; [exact Px | apply IH; exact F].
Qed.

(* ---- the preimage is TX_NO_WITNESS(txtmp) followed by the hash type ---- *)
Lemma legacy_ser_input_blank sc nIn zs k i : script_parses sc = true ->
  legacy_ser_input sc nIn zs k i = ser_txin (legacy_blank_input sc nIn zs k i).
Proof.
  intros P. unfold legacy_ser_input, legacy_blank_input, ser_txin, ser_outpoint.
  cbn [in_hash in_n in_script in_sequence]. rewrite <- !app_assoc.
  destruct (k =? nIn)%nat; [rewrite ser_script_code_parses by exact P|]; destruct zs; reflexivity.
Qed.

Lemma legacy_ser_output_single nIn k o : legacy_ser_output true nIn k o = ser_txout (legacy_single_output nIn k o).
Proof. unfold legacy_ser_output, legacy_single_output. cbn [andb]. destruct (negb _); reflexivity. Qed.

Definition ser_txtmp (x : tx) (ht : Z) : list N := ser_tx false x ++ write_le 4 ht.

Lemma ser_tx_nowitness x :
  ser_tx false x = write_le 4 (tx_version x) ++ ser_vector ser_txin (tx_vin x) ++ ser_vector ser_txout (tx_vout x) ++ write_le 4 (tx_locktime x).
Proof. unfold ser_tx. cbn [andb Z.eqb Z.land]. rewrite !app_nil_l. reflexivity. Qed.

Theorem legacy_preimage_of_view t nIn ht sc : script_parses sc = true ->
  legacy_preimage t nIn ht sc =
  match legacy_view t nIn ht sc with
  | LvAssert => ShAssert | LvOne => ShOne
  | LvTx x ht' => ShPre (ser_txtmp x ht')
  end.
Proof.
  intros P. unfold legacy_preimage, legacy_view.
  destruct (nth_error (tx_vin t) nIn) as [me|]; [|reflexivity].
  destruct (ht_single ht && (length (tx_vout t) <=? nIn)%nat); [reflexivity|].
  f_equal. unfold ser_txtmp. rewrite ser_tx_nowitness. cbn [tx_version tx_vin tx_vout tx_locktime].
  unfold ser_vector, legacy_inputs, legacy_outputs. rewrite <- !app_assoc.
  f_equal.
  assert (Ei : (if ht_acp ht then [legacy_ser_input sc nIn (ht_single ht || ht_none ht) nIn me]
                else mapi_from 0 (legacy_ser_input sc nIn (ht_single ht || ht_none ht)) (tx_vin t)) =
               map ser_txin (if ht_acp ht then [legacy_blank_input sc nIn (ht_single ht || ht_none ht) nIn me]
                             else mapi_from 0 (legacy_blank_input sc nIn (ht_single ht || ht_none ht)) (tx_vin t))).
  { destruct (ht_acp ht).
    - cbn [map]. rewrite legacy_ser_input_blank by exact P. reflexivity.
    - rewrite map_mapi_from. apply mapi_from_ext. intros. apply legacy_ser_input_blank. exact P. }
  assert (Eo : (if ht_none ht then [] else if ht_single ht then mapi_from 0 (legacy_ser_output true nIn) (firstn (S nIn) (tx_vout t))
                else map ser_txout (tx_vout t)) =
               map ser_txout (if ht_none ht then [] else if ht_single ht then mapi_from 0 (legacy_single_output nIn) (firstn (S nIn) (tx_vout t))
                              else tx_vout t)).
  { destruct (ht_none ht); [reflexivity|]. destruct (ht_single ht); [|reflexivity].
    rewrite map_mapi_from. apply mapi_from_ext. intros. apply legacy_ser_output_single. }
  rewrite Ei, Eo, !map_length. reflexivity.
Qed.

(* ---- the no-witness transaction serialisation is prefix-free ---- *)
Definition txin_ok (i : txin) : Prop :=
  length (in_hash i) = 32%nat /\ 0 <= in_n i <= UINT32_MAX /\ len_ok (in_script i) /\
  0 <= in_sequence i <= UINT32_MAX /\ in_witness i = [].

Lemma pfree_txin : pfree ser_txin txin_ok.
Proof.
  intros [h n s q w] [h' n' s' q' w'] r r' (L & Hn & Hs & Hq & Hw) (L' & Hn' & Hs' & Hq' & Hw') E.
  unfold ser_txin in E. cbn [in_hash in_n in_script in_sequence in_witness] in *. rewrite <- !app_assoc in E.
  apply app_inj_length in E; [|congruence]. destruct E as [-> E].
  apply pfree_le4_u in E; [|assumption ..]. destruct E as [-> E].
  apply pfree_ser_bytes in E; [|assumption ..]. destruct E as [-> E].
  apply pfree_le4_u in E; [|assumption ..]. destruct E as [-> ->]. subst. split; reflexivity.
Qed.

Definition txtmp_ok (x : tx) : Prop :=
  0 <= tx_version x <= UINT32_MAX /\ 0 <= tx_locktime x <= UINT32_MAX /\
  len_ok (tx_vin x) /\ Forall txin_ok (tx_vin x) /\ len_ok (tx_vout x) /\ Forall txout_ok (tx_vout x).

Lemma pfree_ser_tx_nowitness : pfree (ser_tx false) txtmp_ok.
Proof.
  intros [v i o l] [v' i' o' l'] r r' (Hv & Hl & Li & Fi & Lo & Fo) (Hv' & Hl' & Li' & Fi' & Lo' & Fo') E.
  rewrite !ser_tx_nowitness in E. cbn [tx_version tx_vin tx_vout tx_locktime] in *. unfold ser_vector in E.
  rewrite <- !app_assoc in E.
  apply pfree_le4_u in E; [|assumption ..]. destruct E as [-> E].
  assert (E2 : (write_compact_size (Z.of_nat (length i)) ++ concat (map ser_txin i)) ++
               write_compact_size (Z.of_nat (length o)) ++ concat (map ser_txout o) ++ write_le 4 l ++ r =
               (write_compact_size (Z.of_nat (length i')) ++ concat (map ser_txin i')) ++
               write_compact_size (Z.of_nat (length o')) ++ concat (map ser_txout o') ++ write_le 4 l' ++ r')
    by (rewrite <- !app_assoc; exact E).
  apply (pfree_counted _ _ pfree_txin) in E2; [|split; assumption ..]. destruct E2 as [-> E2].
  assert (E3 : (write_compact_size (Z.of_nat (length o)) ++ concat (map ser_txout o)) ++ write_le 4 l ++ r =
               (write_compact_size (Z.of_nat (length o')) ++ concat (map ser_txout o')) ++ write_le 4 l' ++ r')
    by (rewrite <- !app_assoc; exact E2).
  apply (pfree_counted _ _ pfree_txout) in E3; [|split; assumption ..]. destruct E3 as [-> E3].
  apply pfree_le4_u in E3; [|assumption ..]. destruct E3 as [-> ->]. split; reflexivity.
Qed.

Lemma len_ok_le {A B} (a : list A) (b : list B) : (length a <= length b)%nat -> len_ok b -> len_ok a.
Proof. unfold len_ok. lia. Qed.

Lemma wf_len_ok {A} (l : list A) : Z.of_nat (length l) <= MAX_SIZE -> len_ok l.
Proof. unfold len_ok. pose proof max_size_le_u64. lia. Qed.

Lemma legacy_view_ok t nIn ht sc x ht' : tx_wf t -> script_parses sc = true -> len_ok sc ->
  legacy_view t nIn ht sc = LvTx x ht' -> txtmp_ok x /\ ht' = ht.
Proof.
  intros (Hv & Hl & Hni & Hno & Fi & Fo) P Ls. unfold legacy_view.
  destruct (nth_error (tx_vin t) nIn) as [me|] eqn:N1; [|discriminate].
  destruct (ht_single ht && (length (tx_vout t) <=? nIn)%nat); [discriminate|].
  intros E. injection E as <- <-. split; [|reflexivity].
  assert (B : forall zs k i, txin_wf i -> txin_ok (legacy_blank_input sc nIn zs k i)).
  { intros zs k i (L & _ & Hn & _ & _ & Hq & _). unfold legacy_blank_input, txin_ok.
    cbn [in_hash in_n in_script in_sequence in_witness].
    repeat split; try assumption; try lia.
    - destruct (k =? nIn)%nat; [eapply len_ok_le; [apply strip_length; exact P | exact Ls] | unfold len_ok, UINT64_MAX; cbn; lia].
    - destruct (negb _ && zs); lia.
    - destruct (negb _ && zs); [unfold UINT32_MAX; lia | lia]. }
  unfold txtmp_ok. cbn [tx_version tx_vin tx_vout tx_locktime].
  split; [exact Hv|]. split; [exact Hl|].
  split.
  { destruct (ht_acp ht); [unfold len_ok, UINT64_MAX; cbn; lia|].
    unfold len_ok. rewrite mapi_from_length. apply wf_len_ok. exact Hni. }
  split.
  { destruct (ht_acp ht).
    - constructor; [|constructor]. apply B. exact (nth_error_Forall _ _ _ _ Fi N1).
    - apply Forall_mapi_from with (P := txin_wf); [intros; apply B; assumption | exact Fi]. }
  split.
  { destruct (ht_none ht); [unfold len_ok, UINT64_MAX; cbn; lia|]. destruct (ht_single ht); [|apply wf_len_ok; exact Hno].
    unfold len_ok. rewrite mapi_from_length. apply wf_len_ok in Hno. unfold len_ok in Hno.
    apply Z.le_trans with (Z.of_nat (length (tx_vout t))); [|exact Hno].
    apply inj_le. assert (FL : (length (firstn (S nIn) (tx_vout t)) <= length (tx_vout t))%nat) by (rewrite firstn_length; lia). exact FL. }
  destruct (ht_none ht); [constructor|]. destruct (ht_single ht); [|apply vout_ok; exact Fo].
  apply Forall_mapi_from with (P := txout_wf).
  - intros j o Ho. unfold legacy_single_output. destruct (negb _); [|apply txout_wf_ok; exact Ho].
    unfold null_txout, txout_ok, len_ok, INT64_MIN, INT64_MAX, UINT64_MAX. cbn. lia.
  - exact (Forall_firstn' _ (S nIn) _ Fo).
Qed.

(* the legacy sighash commits to exactly its view *)
Theorem legacy_commitment t1 n1 ht1 sc1 t2 n2 ht2 sc2 :
  tx_wf t1 -> tx_wf t2 -> ht32_ok ht1 -> ht32_ok ht2 ->
  script_parses sc1 = true -> script_parses sc2 = true -> len_ok sc1 -> len_ok sc2 ->
  (legacy_preimage t1 n1 ht1 sc1 = legacy_preimage t2 n2 ht2 sc2
   <-> legacy_view t1 n1 ht1 sc1 = legacy_view t2 n2 ht2 sc2).
Proof.
  intros W1 W2 Hh1 Hh2 P1 P2 L1 L2. rewrite !legacy_preimage_of_view by assumption.
  destruct (legacy_view t1 n1 ht1 sc1) as [| |x1 h1] eqn:V1; destruct (legacy_view t2 n2 ht2 sc2) as [| |x2 h2] eqn:V2;
    try (split; intros E; (discriminate || reflexivity)).
  destruct (legacy_view_ok _ _ _ _ _ _ W1 P1 L1 V1) as [O1 ->].
  destruct (legacy_view_ok _ _ _ _ _ _ W2 P2 L2 V2) as [O2 ->].
  split.
  - intros E. apply ShPre_inj in E. unfold ser_txtmp in E.
    assert (E' : ser_tx false x1 ++ write_le 4 ht1 ++ [] = ser_tx false x2 ++ write_le 4 ht2 ++ []) by (rewrite !app_nil_r; exact E).
    apply pfree_ser_tx_nowitness in E'; [|assumption ..]. destruct E' as [-> E'].
    apply pfree_le4_s in E'; [|assumption ..]. destruct E' as [-> _]. reflexivity.
  - intros E. injection E as -> ->. reflexivity.
Qed.

(* ---- the SIGHASH_SINGLE quirk: no matching output => the digest is the constant 1, whatever the
        transaction, the script and the other hash-type bits are ---- *)
Section WithHash.
Variable H : list N -> list N.

Theorem legacy_single_out_of_range t nIn ht sc :
  (nIn < length (tx_vin t))%nat -> Z.land ht 31 = SIGHASH_SINGLE -> (length (tx_vout t) <= nIn)%nat ->
  legacy_sighash H t nIn ht sc = Some one32.
Proof.
  intros Hn Hs Ho. unfold legacy_sighash, legacy_preimage.
  destruct (nth_error (tx_vin t) nIn) eqn:N1; [|apply nth_error_None in N1; lia].
  unfold ht_single. rewrite Hs, Z.eqb_refl. cbn [andb].
  assert (E : (length (tx_vout t) <=? nIn)%nat = true) by (apply Nat.leb_le; exact Ho).
  rewrite E. reflexivity.
Qed.

(* the value: uint256::ONE, i.e. the number 1 in the little-endian byte order uint256 is stored in *)
Lemma one32_value : le_value one32 = 1 /\ length one32 = 32%nat.
Proof. split; reflexivity. Qed.

(* and only then (when H never returns that constant) *)
Theorem legacy_one_only_single t nIn ht sc : (forall x, H x <> one32) ->
  legacy_sighash H t nIn ht sc = Some one32 ->
  ht_single ht = true /\ (length (tx_vout t) <= nIn < length (tx_vin t))%nat.
Proof.
  intros Hne. unfold legacy_sighash, legacy_preimage.
  destruct (nth_error (tx_vin t) nIn) eqn:N1; [|discriminate].
  assert (nIn < length (tx_vin t))%nat by (apply nth_error_Some; congruence).
  destruct (ht_single ht); cbn [andb].
  - destruct (length (tx_vout t) <=? nIn)%nat eqn:E.
    + intros _. apply Nat.leb_le in E. split; [reflexivity | lia].
    + intros E'. injection E' as E'. exfalso. exact (Hne _ E').
  - intros E'. injection E' as E'. exfalso. exact (Hne _ E').
Qed.

Hypothesis H_inj : forall x y, H x = H y -> x = y.
Hypothesis H_one : forall x, H x <> one32.

(* the digest inherits the commitment *)
Theorem legacy_digest_commitment t1 n1 ht1 sc1 t2 n2 ht2 sc2 d :
  tx_wf t1 -> tx_wf t2 -> ht32_ok ht1 -> ht32_ok ht2 ->
  script_parses sc1 = true -> script_parses sc2 = true -> len_ok sc1 -> len_ok sc2 ->
  legacy_sighash H t1 n1 ht1 sc1 = Some d -> legacy_sighash H t2 n2 ht2 sc2 = Some d ->
  legacy_view t1 n1 ht1 sc1 = legacy_view t2 n2 ht2 sc2.
Proof.
  intros W1 W2 Hh1 Hh2 P1 P2 L1 L2 D1 D2.
  apply (legacy_commitment t1 n1 ht1 sc1 t2 n2 ht2 sc2); try assumption.
  unfold legacy_sighash in D1, D2.
  destruct (legacy_preimage t1 n1 ht1 sc1) as [| | | |p1]; try discriminate;
    destruct (legacy_preimage t2 n2 ht2 sc2) as [| | | |p2]; try discriminate; try reflexivity.
  - injection D1 as <-. injection D2 as D2. exfalso. exact (H_one _ D2).
  - injection D2 as <-. injection D1 as D1. exfalso. exact (H_one _ D1).
  - injection D1 as D1. injection D2 as D2. rewrite <- D2 in D1. unfold hash256 in D1.
    apply H_inj in D1. apply H_inj in D1. rewrite D1. reflexivity.
Qed.

Corollary legacy_view_change_changes_digest t1 n1 ht1 sc1 t2 n2 ht2 sc2 d1 d2 :
  tx_wf t1 -> tx_wf t2 -> ht32_ok ht1 -> ht32_ok ht2 ->
  script_parses sc1 = true -> script_parses sc2 = true -> len_ok sc1 -> len_ok sc2 ->
  legacy_view t1 n1 ht1 sc1 <> legacy_view t2 n2 ht2 sc2 ->
  legacy_sighash H t1 n1 ht1 sc1 = Some d1 -> legacy_sighash H t2 n2 ht2 sc2 = Some d2 -> d1 <> d2.
Proof.
  intros W1 W2 Hh1 Hh2 P1 P2 L1 L2 Hne D1 D2 E. subst d2. apply Hne.
  exact (legacy_digest_commitment _ _ _ _ _ _ _ _ _ W1 W2 Hh1 Hh2 P1 P2 L1 L2 D1 D2).
Qed.

End WithHash.

(* ---- refuted clause: "changing the script where committed makes the check fail" does not hold for a
        scriptCode that ends in a truncated push: the bytes after the push opcode (and its length bytes)
        are counted in the CompactSize but not hashed.  Two different scriptCodes without any
        OP_CODESEPARATOR, same transaction, same digest.  (Such a script can never finish evaluation -
        EvalScript fails with BAD_OPCODE when it reaches the push - so no valid spend is affected.) ---- *)
Definition refute_tx : tx :=
  mk_tx 1 [mk_txin (repeat 17%N 32) 0 [] 4294967295 []] [mk_txout 1000 [81%N]] 0.

Lemma refute_tx_wf : tx_wf refute_tx.
Proof.
  unfold tx_wf, refute_tx. cbn [tx_version tx_locktime tx_vin tx_vout].
    rewrite max_size_value. unfold UINT32_MAX.
    split; [lia|]. split; [lia|]. split; [cbn; lia|]. split; [cbn; lia|].
    split.
    - constructor; [|constructor]. unfold txin_wf. cbn [in_hash in_n in_script in_sequence in_witness].
      rewrite max_size_value. unfold UINT32_MAX.
      split; [reflexivity|]. split; [apply bytes_okb_ok; reflexivity|]. split; [lia|]. split; [constructor|].
      split; [cbn; lia|]. split; [lia|]. split; [cbn; lia | constructor].
    - constructor; [|constructor]. unfold txout_wf. cbn [out_value out_script].
      rewrite max_size_value. unfold INT64_MIN, INT64_MAX.
      split; [lia|]. split; [apply bytes_okb_ok; reflexivity | cbn; lia].
Qed.

Theorem legacy_truncated_push_refuted :
  exists t nIn ht sc1 sc2,
    tx_wf t /\ sc1 <> sc2 /\ count_codeseparators sc1 = 0 /\ count_codeseparators sc2 = 0 /\
    legacy_preimage t nIn ht sc1 = legacy_preimage t nIn ht sc2 /\
    exists p, legacy_preimage t nIn ht sc1 = ShPre p.
Proof.
  exists refute_tx, 0%nat, 1, [2%N; 170%N], [2%N; 187%N].
  split; [exact refute_tx_wf|].
  split; [discriminate|]. split; [reflexivity|]. split; [reflexivity|].
  split; [vm_compute; reflexivity|]. eexists. vm_compute. reflexivity.
Qed.
