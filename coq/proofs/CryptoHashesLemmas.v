(* C49 — SHA-1, SHA-512, RIPEMD-160: test vectors of the standards evaluated on the specifications,
   and the generic streaming theorem instantiated for CSHA1, CSHA512 and CRIPEMD160. *)
From Coq Require Import NArith Arith.
From BV Require Import lib.Ints model.CryptoBase model.CryptoMD model.CryptoSHA1 model.CryptoSHA512
  model.CryptoRIPEMD160 proofs.CryptoBaseLemmas proofs.CryptoMDLemmas.
Local Open Scope Z_scope.

Definition abc : list N := [97; 98; 99]%N.
(* "abcdbcdecdefdefgefghfghighijhijkijkljklmklmnlmnomnopnopq" *)
Definition abc448 : list N :=
  [97;98;99;100; 98;99;100;101; 99;100;101;102; 100;101;102;103; 101;102;103;104;
   102;103;104;105; 103;104;105;106; 104;105;106;107; 105;106;107;108; 106;107;108;109;
   107;108;109;110; 108;109;110;111; 109;110;111;112; 110;111;112;113]%N.
(* "abcdefghbcdefghicdefghijdefghijkefghijklfghijklmghijklmnhijklmnoijklmnopjklmnopqklmnopqrlmnopqrsmnopqrstnopqrstu" *)
Definition abc896 : list N :=
  [97;98;99;100;101;102;103;104; 98;99;100;101;102;103;104;105; 99;100;101;102;103;104;105;106;
   100;101;102;103;104;105;106;107; 101;102;103;104;105;106;107;108; 102;103;104;105;106;107;108;109;
   103;104;105;106;107;108;109;110; 104;105;106;107;108;109;110;111; 105;106;107;108;109;110;111;112;
   106;107;108;109;110;111;112;113; 107;108;109;110;111;112;113;114; 108;109;110;111;112;113;114;115;
   109;110;111;112;113;114;115;116; 110;111;112;113;114;115;116;117]%N.

(* ---- FIPS 180-4 examples: SHA-1 ---- *)
Example sha1_vector_abc : be_value (sha1_spec abc) = 0xa9993e364706816aba3e25717850c26c9cd0d89d.
Proof. vm_compute. reflexivity. Qed.
Example sha1_vector_empty : be_value (sha1_spec []) = 0xda39a3ee5e6b4b0d3255bfef95601890afd80709.
Proof. vm_compute. reflexivity. Qed.
Example sha1_vector_448 : be_value (sha1_spec abc448) = 0x84983e441c3bd26ebaae4aa1f95129e5e54670f1.
Proof. vm_compute. reflexivity. Qed.
Example sha1_vector_896 : be_value (sha1_spec abc896) = 0xa49b2446a02c645bf419f995b67091253a04a259.
Proof. vm_compute. reflexivity. Qed.

(* ---- FIPS 180-4 examples: SHA-512 ---- *)
Example sha512_vector_abc : be_value (sha512_spec abc) =
  0xddaf35a193617abacc417349ae20413112e6fa4e89a97ea20a9eeee64b55d39a2192992a274fc1a836ba3c23a3feebbd454d4423643ce80e2a9ac94fa54ca49f.
Proof. vm_compute. reflexivity. Qed.
Example sha512_vector_empty : be_value (sha512_spec []) =
  0xcf83e1357eefb8bdf1542850d66d8007d620e4050b5715dc83f4a921d36ce9ce47d0d13c5d85f2b0ff8318d2877eec2f63b931bd47417a81a538327af927da3e.
Proof. vm_compute. reflexivity. Qed.
Example sha512_vector_896 : be_value (sha512_spec abc896) =
  0x8e959b75dae313da8cf4f72814fc143f8f7779c6eb9f7fa17299aeadb6889018501d289e4900f7e4331b99dec4b5433ac7d329eeb6dd26545e96e55b874be909.
Proof. vm_compute. reflexivity. Qed.

(* ---- RIPEMD-160 paper, appendix B ---- *)
Example ripemd160_vector_empty : be_value (ripemd160_spec []) = 0x9c1185a5c5e9fc54612808977ee8f548b2258d31.
Proof. vm_compute. reflexivity. Qed.
Example ripemd160_vector_a : be_value (ripemd160_spec [97%N]) = 0x0bdc9d2d256b3ee9daae347be6f4dc835a467ffe.
Proof. vm_compute. reflexivity. Qed.
Example ripemd160_vector_abc : be_value (ripemd160_spec abc) = 0x8eb208f7e05d987a9b044a8e98c6b087f15a0bfc.
Proof. vm_compute. reflexivity. Qed.
(* "message digest" *)
Example ripemd160_vector_md : be_value (ripemd160_spec [109;101;115;115;97;103;101;32;100;105;103;101;115;116]%N)
  = 0x5d0689ef49d2fae572b881b123a85ffa21595f36.
Proof. vm_compute. reflexivity. Qed.
Example ripemd160_vector_448 : be_value (ripemd160_spec abc448) = 0x12a053384a9c0c88e405a06c27dcf49ada62eb2b.
Proof. vm_compute. reflexivity. Qed.

(* ---- streaming = one shot ---- *)
Theorem csha1_stream_eq_spec ubuf chunks :
  length ubuf = 64%nat -> 8 * Z.of_nat (length (concat chunks)) < 2 ^ 64 ->
  csha1_finalize (fold_left csha1_write chunks (csha1_init ubuf)) = sha1_spec (concat chunks).
Proof.
  intros Hu Hlt.
  change (h_stream sha1_state 64 sha1_compress sha1_iv sha1_out 119 (be_bytes 8) ubuf chunks =
          md_spec sha1_state 64 sha1_compress sha1_iv sha1_out 8 (be_bytes 8) (concat chunks)).
  apply md_stream_eq_spec.
  - lia.
  - change (2 ^ 32) with 4294967296. lia.
  - reflexivity.
  - intros v. apply be_bytes_length.
  - intros v _. reflexivity.
  - exact Hu.
  - exact Hlt.
Qed.

Theorem cripemd160_stream_eq_spec ubuf chunks :
  length ubuf = 64%nat -> 8 * Z.of_nat (length (concat chunks)) < 2 ^ 64 ->
  cripemd160_finalize (fold_left cripemd160_write chunks (cripemd160_init ubuf)) = ripemd160_spec (concat chunks).
Proof.
  intros Hu Hlt.
  change (h_stream rmd_state 64 rmd_compress rmd_iv rmd_out 119 (le_bytes 8) ubuf chunks =
          md_spec rmd_state 64 rmd_compress rmd_iv rmd_out 8 (le_bytes 8) (concat chunks)).
  apply md_stream_eq_spec.
  - lia.
  - change (2 ^ 32) with 4294967296. lia.
  - reflexivity.
  - intros v. apply le_bytes_length.
  - intros v _. reflexivity.
  - exact Hu.
  - exact Hlt.
Qed.

(* the 16-byte descriptor CSHA512::Finalize writes (8 zero bytes + BE64) is the 128-bit big endian
   length of the standard as long as the bit length is below 2^64 *)
Lemma le_bytes_small_tail k : forall j v, 0 <= v < 2 ^ (8 * Z.of_nat k) ->
  le_bytes (k + j) v = le_bytes k v ++ zeros j.
Proof.
  induction k as [|k IH]; intros j v Hv.
  - simpl in Hv. assert (v = 0) by lia. subst v. simpl.
    induction j as [|j IHj]; [reflexivity|]. simpl. unfold zeros in *. simpl. f_equal. exact IHj.
  - cbn [Nat.add le_bytes app]. f_equal. apply IH.
    replace (8 * Z.of_nat (S k)) with (8 + 8 * Z.of_nat k) in Hv by lia.
    rewrite Z.pow_add_r in Hv by lia. change (2 ^ 8) with 256 in Hv.
    split; [apply Z.div_pos; lia|]. apply Z.div_lt_upper_bound; lia.
Qed.

Lemma csha512_sizedesc_ok v : 0 <= v < 2 ^ 64 -> csha512_sizedesc v = be_bytes 16 v.
Proof.
  intros Hv. unfold csha512_sizedesc, be_bytes.
  change 16%nat with (8 + 8)%nat. rewrite (le_bytes_small_tail 8 8 v) by exact Hv.
  rewrite rev_app_distr. f_equal.
Qed.

Theorem csha512_stream_eq_spec ubuf chunks :
  length ubuf = 128%nat -> 8 * Z.of_nat (length (concat chunks)) < 2 ^ 64 ->
  csha512_finalize (fold_left csha512_write chunks (csha512_init ubuf)) = sha512_spec (concat chunks).
Proof.
  intros Hu Hlt.
  change (h_stream sha512_state 128 sha512_compress sha512_iv sha512_out 239 csha512_sizedesc ubuf chunks =
          md_spec sha512_state 128 sha512_compress sha512_iv sha512_out 16 (be_bytes 16) (concat chunks)).
  apply md_stream_eq_spec.
  - lia.
  - change (2 ^ 32) with 4294967296. lia.
  - reflexivity.
  - intros v. apply be_bytes_length.
  - intros v Hv. apply csha512_sizedesc_ok. exact Hv.
  - exact Hu.
  - exact Hlt.
Qed.
