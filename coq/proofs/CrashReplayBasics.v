(* C16: basic facts about the durable map, batches of operations and the write log of the cache. *)
From Coq Require Import List NArith Bool Arith Lia.
From BV Require Import model.CrashReplay.
Import ListNotations.

(* ---------- decidable equalities ---------- *)
Lemma op_eqb_spec : forall a b : outpoint, reflect (a = b) (op_eqb a b).
Proof.
  intros [a1 a2] [b1 b2]. unfold op_eqb. simpl.
  destruct (N.eqb_spec a1 b1) as [E1|E1]; destruct (Nat.eqb_spec a2 b2) as [E2|E2]; simpl;
    constructor; congruence.
Qed.
Lemma op_eqb_refl : forall a, op_eqb a a = true.
Proof. intro a. destruct (op_eqb_spec a a); congruence. Qed.
Lemma op_eqb_neq : forall a b, a <> b -> op_eqb a b = false.
Proof. intros a b H. destruct (op_eqb_spec a b); congruence. Qed.
Lemma op_eqb_sym : forall a b, op_eqb a b = op_eqb b a.
Proof. intros a b. destruct (op_eqb_spec a b), (op_eqb_spec b a); congruence. Qed.

Lemma key_eqb_spec : forall a b : key, reflect (a = b) (key_eqb a b).
Proof.
  intros [| |x] [| |y]; simpl; try (constructor; congruence).
  destruct (op_eqb_spec x y); constructor; congruence.
Qed.
Lemma key_eqb_refl : forall a, key_eqb a a = true.
Proof. intro a. destruct (key_eqb_spec a a); congruence. Qed.
Lemma key_eqb_neq : forall a b, a <> b -> key_eqb a b = false.
Proof. intros a b H. destruct (key_eqb_spec a b); congruence. Qed.

Lemma coin_eqb_spec : forall a b : coin, reflect (a = b) (coin_eqb a b).
Proof.
  intros [h1 c1 v1] [h2 c2 v2]. unfold coin_eqb. simpl.
  destruct (Nat.eqb_spec h1 h2); destruct (Bool.eqb_spec c1 c2); destruct (N.eqb_spec v1 v2); simpl;
    constructor; congruence.
Qed.

(* ---------- the durable map ---------- *)
Lemma db_get_del_eq : forall m k, db_get (db_del k m) k = None.
Proof.
  induction m as [|[k' v] m IH]; intro k; simpl; auto.
  destruct (key_eqb_spec k k') as [E|E]; simpl; auto.
  rewrite key_eqb_neq by auto. apply IH.
Qed.
Lemma db_get_del_neq : forall m k k', k <> k' -> db_get (db_del k m) k' = db_get m k'.
Proof.
  induction m as [|[k0 v] m IH]; intros k k' H; simpl; auto.
  destruct (key_eqb_spec k k0) as [E|E]; simpl.
  - subst k0. rewrite (key_eqb_neq k' k) by congruence. apply IH; auto.
  - destruct (key_eqb k' k0); auto.
Qed.
Lemma db_get_put_eq : forall m k v, db_get (db_put k v m) k = Some v.
Proof. intros. unfold db_put. simpl. rewrite key_eqb_refl. reflexivity. Qed.
Lemma db_get_put_neq : forall m k k' v, k <> k' -> db_get (db_put k v m) k' = db_get m k'.
Proof.
  intros. unfold db_put. simpl. rewrite (key_eqb_neq k' k) by congruence. apply db_get_del_neq; auto.
Qed.

(* write_idempotent / erase_idempotent: writing (erasing) twice is writing (erasing) once, and a
   write or erase makes the entry independent of what was there before *)
Lemma write_idempotent : forall m k v k', db_get (db_put k v (db_put k v m)) k' = db_get (db_put k v m) k'.
Proof.
  intros. destruct (key_eqb_spec k k') as [E|E].
  - subst. rewrite !db_get_put_eq. reflexivity.
  - rewrite (db_get_put_neq (db_put k v m)) by auto. reflexivity.
Qed.
Lemma erase_idempotent : forall m k k', db_get (db_del k (db_del k m)) k' = db_get (db_del k m) k'.
Proof.
  intros. destruct (key_eqb_spec k k') as [E|E].
  - subst. rewrite !db_get_del_eq. reflexivity.
  - rewrite (db_get_del_neq (db_del k m)) by auto. reflexivity.
Qed.
Lemma write_blind : forall m m' k v, db_get (db_put k v m) k = db_get (db_put k v m') k.
Proof. intros. rewrite !db_get_put_eq. reflexivity. Qed.
Lemma erase_blind : forall m m' k, db_get (db_del k m) k = db_get (db_del k m') k.
Proof. intros. rewrite !db_get_del_eq. reflexivity. Qed.

(* ---------- operation lists ---------- *)
Definition op_key (o : op) : key := match o with Put k _ => k | Del k => k end.
Definition op_val (o : op) : option value := match o with Put _ v => Some v | Del _ => None end.

Lemma db_get_apply_op_eq : forall m o, db_get (apply_op m o) (op_key o) = op_val o.
Proof. intros m [k v|k]; simpl. apply db_get_put_eq. apply db_get_del_eq. Qed.
Lemma db_get_apply_op_neq : forall m o k, op_key o <> k -> db_get (apply_op m o) k = db_get m k.
Proof. intros m [k0 v|k0] k H; simpl in *. apply db_get_put_neq; auto. apply db_get_del_neq; auto. Qed.

(* the last operation on key k in a list, if any *)
Fixpoint ops_last (ops : list op) (k : key) : option (option value) :=
  match ops with
  | [] => None
  | o :: r => match ops_last r k with
              | Some x => Some x
              | None => if key_eqb (op_key o) k then Some (op_val o) else None
              end
  end.

Lemma apply_ops_get : forall ops m k,
  db_get (apply_ops ops m) k = match ops_last ops k with Some x => x | None => db_get m k end.
Proof.
  induction ops as [|o r IH]; intros m k; simpl; auto.
  unfold apply_ops in *. simpl. rewrite IH.
  destruct (ops_last r k); auto.
  destruct (key_eqb_spec (op_key o) k) as [E|E].
  - subst. apply db_get_apply_op_eq.
  - apply db_get_apply_op_neq; auto.
Qed.

Lemma apply_ops_app : forall a b m, apply_ops (a ++ b) m = apply_ops b (apply_ops a m).
Proof. intros. unfold apply_ops. apply fold_left_app. Qed.

Lemma ops_last_app : forall a b k,
  ops_last (a ++ b) k = match ops_last b k with Some x => Some x | None => ops_last a k end.
Proof.
  induction a as [|o r IH]; intros b k; simpl.
  - destruct (ops_last b k); auto.
  - rewrite IH. destruct (ops_last b k); auto.
Qed.

Lemma apply_batches_concat : forall bs m, apply_batches bs m = apply_ops (concat bs) m.
Proof.
  induction bs as [|b r IH]; intro m; simpl; auto.
  unfold apply_batches in *. simpl. rewrite IH. rewrite apply_ops_app. reflexivity.
Qed.

(* ---------- the write log of the cache ---------- *)
Lemma log_get_app : forall a b o,
  log_get (a ++ b) o = match log_get a o with Some v => Some v | None => log_get b o end.
Proof.
  induction a as [|[o' v] r IH]; intros b o; simpl; auto.
  destruct (op_eqb o o'); auto.
Qed.
Lemma view_get_app : forall a ov m o,
  view_get (a ++ ov) m o = match log_get a o with Some v => v | None => view_get ov m o end.
Proof. intros. unfold view_get. rewrite log_get_app. destruct (log_get a o); auto. Qed.
Lemma log_coin_app : forall a b o,
  log_coin (a ++ b) o = match log_get a o with Some v => v | None => log_coin b o end.
Proof. intros. unfold log_coin. rewrite log_get_app. destruct (log_get a o); auto. Qed.
Lemma view_get_nil_db : forall s o, view_get s [] o = log_coin s o.
Proof. intros. unfold view_get, log_coin, db_coin. simpl. reflexivity. Qed.

Lemma log_get_none_iff : forall l o, log_get l o = None <-> ~ In o (map fst l).
Proof.
  induction l as [|[o' v] r IH]; intro o; simpl.
  - tauto.
  - destruct (op_eqb_spec o o') as [E|E].
    + subst. split; [discriminate | intro H; exfalso; apply H; auto].
    + rewrite IH. split; intro H; [intros [H1|H1]; [congruence | tauto] | tauto].
Qed.
