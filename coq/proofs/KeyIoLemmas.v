(* C45 — segwit addresses (model/KeyIo.v): DecodeDestination (EncodeDestination d) = d for every witness
   destination, and the rule "version 0 <=> bech32, version 1+ <=> bech32m" in both directions. *)
From Coq Require Import NArith Lia.
From BV Require Import lib.Ints model.Bech32 model.Base58 model.KeyIo proofs.Bech32Lemmas proofs.Bech32Convert.
Local Open Scope N_scope.

Lemma bytes_eqb_refl : forall a, bytes_eqb a a = true.
Proof. intros. unfold bytes_eqb. destruct (list_eq_dec N.eq_dec a a); [reflexivity|contradiction]. Qed.
Lemma bytes_eqb_eq : forall a b, bytes_eqb a b = true -> a = b.
Proof. intros a b. unfold bytes_eqb. destruct (list_eq_dec N.eq_dec a b); [auto|discriminate]. Qed.

(* what DecodeDestination does with a witness version and program once the string has been decoded *)
Definition classify_witness (version : N) (prog : list N) : dest * dec_err :=
  if version =? 0 then
    if (length prog =? 20)%nat then (DWPKH prog, E_ok)
    else if (length prog =? 32)%nat then (DWSH prog, E_ok)
    else (DNone, E_v0_size)
  else if (version =? 1) && (length prog =? 32)%nat then (DTaproot prog, E_ok)
  else if (version =? 1) && bytes_eqb prog ANCHOR_BYTES then (DAnchor, E_ok)
  else if 16 <? version then (DNone, E_version)
  else if (length prog <? 2)%nat || (BECH32_WITNESS_PROG_MAX_LEN <? length prog)%nat then (DNone, E_size)
  else (DWitUnknown version prog, E_ok).

Section Segwit.
  Variable hash256 : list N -> list N.
  Variable limit : nat.
  Variable kp : keyio_params.
  Hypothesis hrp_wf : hrp_ok (kp_hrp kp).

  Lemma syms5_syms : forall l, syms5_ok l -> syms_ok l.
  Proof. intros l H. exact H. Qed.

  (* the string EncodeDestination builds for (enc, version, program) decodes, on the same chain, to the
     classification of (version, program) when the variant matches the version, and to the corresponding
     error when it does not *)
  Theorem segwit_decode_encode : forall enc ver prog s,
    Bech32Convert.bytes_ok prog -> ver < 32 ->
    (length (kp_hrp kp) + 1 + (1 + (8 * length prog + 4) / 5) + 6 <= limit)%nat ->
    segwit_encode kp enc ver prog = AddrStr s ->
    decode_destination hash256 limit kp s =
      if (ver =? 0) && negb (encoding_eqb enc BECH32) then (DNone, E_v0_needs_bech32)
      else if negb (ver =? 0) && negb (encoding_eqb enc BECH32M) then (DNone, E_v1_needs_bech32m)
      else classify_witness ver prog.
  Proof.
    intros enc ver prog s Hp Hv Hlen Henc. unfold segwit_encode in Henc.
    destruct (convert_8_5_total prog Hp) as (d & Ed & Hd & Ld). rewrite Ed in Henc.
    destruct hrp_wf as [Hne Hfine].
    assert (Hdata : syms_ok (ver :: d)) by (constructor; [exact Hv|exact Hd]).
    rewrite encode_ok in Henc by assumption. cbn [of_b32] in Henc. injection Henc as <-.
    set (s := kp_hrp kp ++ SEPARATOR :: map char_of ((ver :: d) ++ create_checksum enc (kp_hrp kp) (ver :: d))).
    assert (Hdec : decode limit s = DecOk enc (kp_hrp kp) (ver :: d)).
    { apply (decode_encode limit enc (kp_hrp kp) (ver :: d) s); auto.
      - cbn [length]. rewrite Ld. lia.
      - apply encode_ok; assumption. }
    unfold decode_destination.
    assert (Hpre : bytes_eqb (map lower_case (firstn (length (kp_hrp kp)) s)) (kp_hrp kp) = true).
    { unfold s. rewrite firstn_app, Nat.sub_diag, firstn_all, firstn_O, app_nil_r.
      assert (E : map lower_case (kp_hrp kp) = kp_hrp kp).
      { clear -Hfine. induction Hfine; simpl; auto. rewrite fine_lower by assumption. f_equal. assumption. }
      rewrite E. apply bytes_eqb_refl. }
    cbv zeta. rewrite Hpre, Hdec. rewrite bytes_eqb_refl. cbn [negb].
    destruct ((ver =? 0) && negb (encoding_eqb enc BECH32)); [reflexivity|].
    destruct (negb (ver =? 0) && negb (encoding_eqb enc BECH32M)); [reflexivity|].
    rewrite (convert_5_8_of_8_5 prog d Hp Ed). reflexivity.
  Qed.

  (* EncodeDestination then DecodeDestination is the identity on every witness destination *)
  Definition fits (n : nat) : Prop := (length (kp_hrp kp) + 1 + (1 + (8 * n + 4) / 5) + 6 <= limit)%nat.

  Theorem address_roundtrip_segwit : forall d s, dest_wf d = true -> fits 40 ->
    match d with DPKHash _ | DScriptHash _ => False | _ => True end ->
    encode_destination hash256 kp d = AddrStr s ->
    decode_destination hash256 limit kp s = (d, E_ok).
  Proof.
    intros d s Hwf Hfit Hseg Henc.
    assert (Hmono : forall n, (n <= 40)%nat -> fits n).
    { intros n Hn. unfold fits in *. assert (((8 * n + 4) / 5 <= (8 * 40 + 4) / 5)%nat) by (apply Nat.div_le_mono; lia). lia. }
    assert (Hbytes : forall l, forallb (fun b => b <? 256) l = true -> Bech32Convert.bytes_ok l).
    { intros l H. unfold Bech32Convert.bytes_ok. rewrite forallb_forall in H. apply Forall_forall. intros x Hx. apply N.ltb_lt. auto. }
    destruct d as [| |h|h|h|h|x| |ver prog]; try contradiction; try discriminate; cbn [dest_wf encode_destination] in *.
    - (* P2WSH *) apply Bool.andb_true_iff in Hwf. destruct Hwf as [Hl Hb]. apply Nat.eqb_eq in Hl.
      rewrite (segwit_decode_encode BECH32 0 h s); auto; try (apply Hmono; lia); try reflexivity.
      unfold classify_witness. cbn [N.eqb andb negb encoding_eqb]. rewrite Hl. reflexivity.
    - (* P2WPKH *) apply Bool.andb_true_iff in Hwf. destruct Hwf as [Hl Hb]. apply Nat.eqb_eq in Hl.
      rewrite (segwit_decode_encode BECH32 0 h s); auto; try (apply Hmono; lia); try reflexivity.
      unfold classify_witness. cbn [N.eqb andb negb encoding_eqb]. rewrite Hl. reflexivity.
    - (* P2TR *) apply Bool.andb_true_iff in Hwf. destruct Hwf as [Hl Hb]. apply Nat.eqb_eq in Hl.
      rewrite (segwit_decode_encode BECH32M 1 x s); auto; try (apply Hmono; lia); try reflexivity.
      unfold classify_witness. cbn [N.eqb Pos.eqb andb negb encoding_eqb]. rewrite Hl. reflexivity.
    - (* P2A *)
      rewrite (segwit_decode_encode BECH32M 1 ANCHOR_BYTES s); auto; try (apply Hmono; simpl; lia); try reflexivity.
      repeat constructor.
    - (* future witness versions *)
      repeat (apply Bool.andb_true_iff in Hwf; destruct Hwf as [Hwf ?]).
      repeat match goal with
             | H : (_ <=? _) = true |- _ => apply N.leb_le in H
             | H : (_ <=? _)%nat = true |- _ => apply Nat.leb_le in H
             end.
      assert (G1 : (ver <? 1) = false) by (apply N.ltb_ge; lia).
      assert (G2 : (16 <? ver) = false) by (apply N.ltb_ge; lia).
      assert (G3 : (length prog <? 2)%nat = false) by (apply Nat.ltb_ge; lia).
      assert (G4 : (40 <? length prog)%nat = false) by (apply Nat.ltb_ge; lia).
      rewrite G1, G2, G3, G4 in Henc. cbn [orb] in Henc.
      rewrite (segwit_decode_encode BECH32M ver prog s); auto; try (apply Hmono; lia); try lia.
      assert (Hv0 : (ver =? 0) = false) by (apply N.eqb_neq; lia).
      rewrite Hv0. cbn [andb negb encoding_eqb]. unfold classify_witness. rewrite Hv0, G2.
      unfold BECH32_WITNESS_PROG_MAX_LEN. rewrite G3, G4. cbn [orb].
      match goal with H : negb _ = true |- _ => apply Bool.negb_true_iff in H; rename H into Hnot end.
      destruct (ver =? 1); cbn [andb] in *; [|reflexivity].
      apply Bool.orb_false_iff in Hnot. destruct Hnot as [Hn1 Hn2]. rewrite Hn1, Hn2. reflexivity.
  Qed.
End Segwit.
